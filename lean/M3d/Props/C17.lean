import M3d.Lemmas.C17Num
/-!
# C17 — numerical and curve kernels satisfy their defining equations

Property theorems only.  Models: `M3d/Model/Numeric.lean` (matrices, polynomials, angles),
`M3d/Model/Curves.lean` (Bezier, polyline and joined curves, bisection), `M3d/Model/Search.lean`
(grid / line / golden-section searches), `M3d/Gen/Binomial.lean` (table regenerated from the source).
Every theorem is about the generic model instantiated at an arbitrary linearly ordered field
(so at ℚ — the instance the exact-mode correspondence runs — and at ℝ).
-/
namespace M3d.C17
open M3d.Num

variable {K : Type} [Field K]

/-! ## Matrices (`numerical/matrix2.go`, `matrix3.go`, `matrix4.go`, `model2d/matrix.go`, `model3d/matrix.go`) -/

/-- `Matrix2.Inverse()` is a left inverse whenever `Det() ≠ 0`. -/
theorem mat2_inverse_mul (m : M2 K) (h : m.det ≠ 0) : m.inverse.mul m = M2.one := by
  have key : ((1 : Nat) : K) / m.det * m.det = 1 := by push_cast; exact one_div_mul_cancel h
  simp only [M2.inverse, M2.invertDet, M2.scale, M2.mul, M2.one]
  generalize ((1 : Nat) : K) / m.det = s at key
  simp only [M2.det] at key
  push_cast
  congr 1 <;> first | (linear_combination key) | (linear_combination 0 * key)

/-- … and a right inverse. -/
theorem mat2_mul_inverse (m : M2 K) (h : m.det ≠ 0) : m.mul m.inverse = M2.one := by
  have key : ((1 : Nat) : K) / m.det * m.det = 1 := by push_cast; exact one_div_mul_cancel h
  simp only [M2.inverse, M2.invertDet, M2.scale, M2.mul, M2.one]
  generalize ((1 : Nat) : K) / m.det = s at key
  simp only [M2.det] at key
  push_cast
  congr 1 <;> first | (linear_combination key) | (linear_combination 0 * key)

/-- `Matrix2.MulColumnInv(c, m.Det())` solves `m·x = c`. -/
theorem mat2_mulColumnInv_solves (m : M2 K) (c : V2 K) (h : m.det ≠ 0) :
    m.mulColumn (m.mulColumnInv c m.det) = c := by
  have key : ((1 : Nat) : K) / m.det * m.det = 1 := by push_cast; exact one_div_mul_cancel h
  simp only [M2.mulColumnInv, M2.mulColumn]
  generalize ((1 : Nat) : K) / m.det = s at key
  simp only [M2.det] at key
  obtain ⟨x, y⟩ := c
  congr 1
  · linear_combination x * key
  · linear_combination y * key

/-- `Det` is multiplicative over `Mul`. -/
theorem mat2_det_mul (m n : M2 K) : (m.mul n).det = m.det * n.det := by
  simp only [M2.mul, M2.det]; ring

/-- `Transpose` is an involution, preserves `Det`, and reverses `Mul`. -/
theorem mat2_transpose_involutive (m n : M2 K) :
    m.transpose.transpose = m ∧ m.transpose.det = m.det ∧
      (m.mul n).transpose = n.transpose.mul m.transpose := by
  refine ⟨rfl, ?_, ?_⟩
  · simp only [M2.transpose, M2.det]; ring
  · simp only [M2.transpose, M2.mul]; congr 1 <;> ring

/-- `MulColumn` is the action of `Mul`: `(m·n)·c = m·(n·c)`. -/
theorem mat2_mulColumn_mul (m n : M2 K) (c : V2 K) :
    (m.mul n).mulColumn c = m.mulColumn (n.mulColumn c) := by
  simp only [M2.mul, M2.mulColumn]; congr 1 <;> ring

/-- `Matrix3.Inverse()` is a left inverse whenever `Det() ≠ 0`. -/
theorem mat3_inverse_mul (m : M3 K) (h : m.det ≠ 0) : m.inverse.mul m = M3.one := by
  have key : ((1 : Nat) : K) / m.det * m.det = 1 := by push_cast; exact one_div_mul_cancel h
  simp only [M3.inverse, M3.invertDet, M3.scale, M3.mul, M3.one, M3.adj]
  generalize ((1 : Nat) : K) / m.det = s at key
  simp only [M3.det] at key
  push_cast
  congr 1 <;> first | (linear_combination key) | (linear_combination 0 * key)

/-- … and a right inverse. -/
theorem mat3_mul_inverse (m : M3 K) (h : m.det ≠ 0) : m.mul m.inverse = M3.one := by
  have key : ((1 : Nat) : K) / m.det * m.det = 1 := by push_cast; exact one_div_mul_cancel h
  simp only [M3.inverse, M3.invertDet, M3.scale, M3.mul, M3.one, M3.adj]
  generalize ((1 : Nat) : K) / m.det = s at key
  simp only [M3.det] at key
  push_cast
  congr 1 <;> first | (linear_combination key) | (linear_combination 0 * key)

/-- `Matrix3.MulColumnInv(c, m.Det())` solves `m·x = c`. -/
theorem mat3_mulColumnInv_solves (m : M3 K) (c : V3 K) (h : m.det ≠ 0) :
    m.mulColumn (m.mulColumnInv c m.det) = c := by
  have key : ((1 : Nat) : K) / m.det * m.det = 1 := by push_cast; exact one_div_mul_cancel h
  simp only [M3.mulColumnInv, M3.mulColumn, M3.adj]
  generalize ((1 : Nat) : K) / m.det = s at key
  simp only [M3.det] at key
  obtain ⟨x, y, z⟩ := c
  congr 1
  · linear_combination x * key
  · linear_combination y * key
  · linear_combination z * key

/-- `Det` is multiplicative over `Mul` (3×3). -/
theorem mat3_det_mul (m n : M3 K) : (m.mul n).det = m.det * n.det := by
  simp only [M3.mul, M3.det]; ring

/-- `Transpose` is an involution, preserves `Det`, and reverses `Mul` (3×3). -/
theorem mat3_transpose_involutive (m n : M3 K) :
    m.transpose.transpose = m ∧ m.transpose.det = m.det ∧
      (m.mul n).transpose = n.transpose.mul m.transpose := by
  refine ⟨rfl, ?_, ?_⟩
  · simp only [M3.transpose, M3.det]; ring
  · simp only [M3.transpose, M3.mul]; congr 1 <;> ring

/-- `(m·n)·c = m·(n·c)` (3×3). -/
theorem mat3_mulColumn_mul (m n : M3 K) (c : V3 K) :
    (m.mul n).mulColumn c = m.mulColumn (n.mulColumn c) := by
  simp only [M3.mul, M3.mulColumn]; congr 1 <;> ring

/-- `Matrix4.CharPoly()` evaluated at `x` is `det(x·I − m)` (with `Matrix4.Det`'s own expansion):
the coefficient formulas written out in the source are the characteristic polynomial. -/
theorem mat4_charpoly_coeffs (m : M4 K) (x : K) :
    Poly.eval m.charPoly x = (M4.xIminus x m).det := by
  rw [Poly.eval_eq_spec]
  obtain ⟨a, b, c, d, e, f, g, h, i, j, k, l, m1, n, o, p⟩ := m
  simp only [M4.charPoly, M4.xIminus, M4.det, Poly.evalSpec_cons, Poly.evalSpec_nil]
  push_cast
  ring

/-- `Matrix4.Transpose` is an involution and preserves `Det`. -/
theorem mat4_transpose_involutive (m : M4 K) :
    m.transpose.transpose = m ∧ m.transpose.det = m.det := by
  refine ⟨rfl, ?_⟩
  obtain ⟨a, b, c, d, e, f, g, h, i, j, k, l, m1, n, o, p⟩ := m
  simp only [M4.transpose, M4.det]; ring

/-! ## Polynomials (`numerical/polynomial.go`) -/

/-- `Polynomial.Eval` (the running-power loop) computes the value of the polynomial. -/
theorem poly_eval_spec (p : List K) (x : K) : Poly.eval p x = Poly.evalSpec x p :=
  Poly.eval_eq_spec p x

/-- `Polynomial.Add` (including the trimming of cancelled leading terms) adds values. -/
theorem poly_eval_add [DecidableEq K] (p q : List K) (x : K) :
    Poly.eval (Poly.add p q) x = Poly.eval p x + Poly.eval q x := by
  simp only [Poly.eval_eq_spec, Poly.add, Poly.evalSpec_trimZeros, Poly.evalSpec_addRaw]

/-- `Polynomial.Mul` multiplies values. -/
theorem poly_eval_mul (p q : List K) (x : K) :
    Poly.eval (Poly.mul p q) x = Poly.eval p x * Poly.eval q x := by
  simp only [Poly.eval_eq_spec, Poly.evalSpec_mul]

/-- `Polynomial.Scale` scales values. -/
theorem poly_eval_scale (p : List K) (c x : K) :
    Poly.eval (Poly.scale p c) x = Poly.eval p x * c := by
  simp only [Poly.eval_eq_spec, Poly.scale, Poly.evalSpec_map_mul_right]

/-- `Polynomial.Derivative` is the formal derivative: it vanishes on constants and satisfies the
product rule for `p(x) = c + x·q(x)`, namely `p' = q + x·q'` (which determines it). -/
theorem poly_eval_derivative (c : K) (q : List K) (x : K) :
    Poly.derivative ([] : List K) = [] ∧ Poly.derivative [c] = [] ∧
    Poly.eval (Poly.derivative (c :: q)) x = Poly.eval q x + x * Poly.eval (Poly.derivative q) x := by
  refine ⟨rfl, rfl, ?_⟩
  simp only [Poly.eval_eq_spec]
  cases q with
  | nil => simp [Poly.derivative, Poly.derivAux]
  | cons c' cs =>
    simp only [Poly.derivative, Poly.derivAux, Poly.evalSpec_cons, Poly.evalSpec_derivAux_succ]
    push_cast; ring

/-- `divideRoot`: for a polynomial with at least three coefficients the result `q` satisfies
`p(y) = (y − r)·q(y) + p(r)` for every `y` — so it is the exact quotient when `r` is a root. -/
theorem divide_root (p : List K) (r y : K) (h : 3 ≤ p.length) :
    ∃ q, Poly.divideRoot p r = some q ∧
      Poly.eval p y = (y - r) * Poly.eval q y + Poly.eval p r := by
  match p, h with
  | a :: b :: c :: rest, _ =>
    refine ⟨(Poly.divAux r (a :: b :: c :: rest)).1, rfl, ?_⟩
    obtain ⟨h1, h2⟩ := Poly.divAux_spec r y (a :: b :: c :: rest) (by simp)
    simp only [Poly.eval_eq_spec]
    rw [← h2]; exact h1

/-- For a *linear* polynomial `divideRoot` returns the constant `1` ("assume that the root is
correct"): that is the exact quotient by `(x − r)` precisely for monic input with root `r`. -/
theorem divide_root_linear (a b r y : K) (hb : b = 1) (hr : a + r * b = 0) :
    Poly.divideRoot [a, b] r = some [1] ∧
      Poly.eval [a, b] y = (y - r) * Poly.eval ([1] : List K) y := by
  refine ⟨by simp [Poly.divideRoot], ?_⟩
  simp only [Poly.eval_eq_spec, Poly.evalSpec_cons, Poly.evalSpec_nil]
  subst hb
  linear_combination hr

example : Poly.divideRoot [(6 : ℚ), -5, 1] 2 = some [-3, 1] := by decide +kernel

end M3d.C17
