import M3d.Lemmas.CollideWrap
import M3d.Lemmas.CollideBall
import M3d.Lemmas.CollideXf
import M3d.Lemmas.CollideParity
import M3d.Lemmas.CollideCyl
import M3d.Lemmas.CollideCylAxis
import M3d.Lemmas.CollideCylParity
import M3d.Lemmas.CollideCone
import M3d.Lemmas.CollideJordan
import M3d.Lemmas.CollideJordan2
import M3d.Lemmas.CollideRect2
import M3d.Lemmas.CollideTriTri
import M3d.Lemmas.CollideSegQuery
import M3d.Lemmas.CollideProfBall
import M3d.Lemmas.CollideScale
import M3d.Lemmas.CollideBVH
import Mathlib.Algebra.Order.Field.Rat
/-!
# C07 — Colliders report consistent ray and ball collisions

Property theorems only.  Models: `M3d/Model/Collide.lean` (generic scalar; executed at `Rat` and `Float` by
`M3d/Drv/C07.lean`).  Lemmas: `M3d/Lemmas/Collide*.lean`.  `K` is any linear ordered field; `math.Sqrt` is
the parameter `sqrtF` under the hypothesis `SqrtOK sqrtF`; `1e-8` is the parameter `eps`.
-/
set_option linter.unusedSectionVars false
namespace M3d.C07
open M3d.Col

variable {K : Type} [Field K] [LinearOrder K] [IsStrictOrderedRing K]

/-! ## (1) the contract and the wrappers -/

/-- **The Boolean contract evaluated by the driver on observations of the real code is necessary for the
contract**: if `RayCollisions`/`FirstRayCollision` of a collider satisfy `Contract` for a ray (count =
callbacks = count without callback, parameters ≥ 0, first = minimum, exists ⇔ count ≠ 0), then `obsOk` holds
of what was observed.  A `false` reported by the `obs` correspondence kinds is therefore a violation. -/
theorem contract_obs {R H : Type} (tOf : H → K) (c : Collider R H) (r : R) (hc : Contract tOf c r) (dflt : K) :
    obsOk (c.ray r false).1 (c.ray r true).1 (c.first r).isSome
      (match c.first r with | some h => tOf h | none => dflt) ((c.ray r true).2.map tOf) = true :=
  obsOk_of_contract tOf c r hc dflt

/-- **`first_is_min`**: a `FirstRayCollision` implemented as `RayCollisions` with the callback
`if !ok || rc.Scale < res.Scale {…}` (Capsule, Cylinder, Cone, Torus, 2-D Triangle, profileCollider) returns a
callback of minimal parameter, and returns one iff there is a callback. -/
theorem first_is_min {H : Type} (tOf : H → K) (calls : List H) :
    ((minFirst tOf calls none).isSome = true ↔ calls ≠ []) ∧
    ∀ h, minFirst tOf calls none = some h → h ∈ calls ∧ ∀ h' ∈ calls, tOf h ≤ tOf h' :=
  ⟨minFirst_none_isSome tOf calls, minFirst_none_spec tOf calls⟩

/-- **`joined_contract`**: `JoinedCollider` / `joinedMultiCollider` satisfy the contract for a ray if all
children do (whatever the bounding-box prefilter answers), and when the prefilter admits the ray the
callbacks are the concatenation of the children's callbacks, the count the sum of their counts and the first
collision a minimum over the children's first collisions. -/
theorem joined_contract {R H : Type} (tOf : H → K) (admits : R → Bool) (parts : List (Collider R H)) (r : R)
    (hp : ∀ c ∈ parts, Contract tOf c r) :
    Contract tOf (joined tOf admits parts) r ∧
    (admits r = true → ∀ cb, (joined tOf admits parts).ray r cb =
        ((parts.map fun c => (c.ray r cb).1).sum, parts.flatMap fun c => (c.ray r cb).2)) ∧
    (admits r = true → ∀ h, (joined tOf admits parts).first r = some h →
        (∃ c ∈ parts, c.first r = some h) ∧ ∀ c ∈ parts, ∀ h', c.first r = some h' → tOf h ≤ tOf h') :=
  ⟨joined_contract' tOf admits parts r hp,
   fun ha cb => joinedRay_eq admits parts r cb ha,
   fun ha => (joinedFirst_spec tOf admits parts r ha).2⟩

/-- **`profile_contract`**: `profileCollider` (vertical-ray, flat-ray and general case with the two face
tests and the side filter) satisfies the contract whenever the 2-D collider's callbacks for the projected
ray have non-negative parameters. -/
theorem profile_contract (ray2 : V2 K → V2 K → List (Hit2 K)) (solid2 : V2 K → Bool) (minZ maxZ : K)
    (r : V3 K × V3 K) (h2 : ∀ rc ∈ ray2 r.1.xy r.2.xy, 0 ≤ rc.t) :
    Contract Hit.t (profileCollider ray2 solid2 minZ maxZ) r :=
  profile_contract' ray2 solid2 minZ maxZ r h2

/-- The side filter and the face parameters of `profileCollider` mean what they should: for a non-flat ray
`minT ≤ t ≤ maxT` iff the ray point at `t` has `minZ ≤ z ≤ maxZ`, and the two face parameters put the ray
point on the planes `z = minZ`, `z = maxZ`. -/
theorem profile_faces_and_sides (minZ maxZ oz dz t : K) (hdz : dz ≠ 0) (hz : minZ ≤ maxZ) :
    let t0 := (minZ - oz) / dz
    let t1 := (maxZ - oz) / dz
    ((if t1 < t0 then t1 else t0) ≤ t ∧ t ≤ (if t1 < t0 then t0 else t1) ↔
        minZ ≤ oz + dz * t ∧ oz + dz * t ≤ maxZ) ∧
      oz + dz * t0 = minZ ∧ oz + dz * t1 = maxZ :=
  profile_z_range minZ maxZ oz dz t hdz hz

/-- **`capsule_phantom_contract`**: `Capsule.RayCollisions` — candidates from the two end spheres and the
side, sorted; the first reported only if the origin is outside, the last always, everything in between
(the "phantom" hits with the inner hemispheres) dropped — satisfies the contract for every candidate list
with non-negative parameters; with two or more candidates the reported ones are a minimum (origin outside)
and a maximum of the candidates. -/
theorem capsule_phantom_contract {R H : Type} (tOf : H → K) (cands : R → List H) (inside : R → Bool) (r : R)
    (hnn : ∀ h ∈ cands r, 0 ≤ tOf h) :
    Contract tOf (capsuleLike tOf cands inside) r ∧
    ∀ x y rest, cands r = x :: y :: rest →
      ∃ lo hi, lo ∈ cands r ∧ hi ∈ cands r ∧ (∀ h ∈ cands r, tOf lo ≤ tOf h ∧ tOf h ≤ tOf hi) ∧
        ((capsuleLike tOf cands inside).ray r true).2 = (if inside r then [] else [lo]) ++ [hi] := by
  refine ⟨capsuleLike_contract tOf cands inside r hnn, ?_⟩
  intro x y rest hc
  obtain ⟨lo, hi, h1, h2, h3, h4⟩ := capsuleSelect_extremes tOf x y rest (inside r)
  refine ⟨lo, hi, by rw [hc]; exact h1, by rw [hc]; exact h2, by rw [hc]; exact h3, ?_⟩
  show (capsuleSelect tOf (cands r) (inside r) true).2 = _
  rw [hc]; exact h4

/-- Why dropping them is right: a point of an end sphere (`|p - P1|² = r²`) is within `r` of the capsule's
axis line (squared, un-normalised axis `v`), so a phantom hit — one whose axial coordinate lies between the
end points — is inside the convex capsule, i.e. between the entry and the exit. -/
theorem capsule_phantom_inside (p1 v p : V3 K) (radius : K)
    (hon : (p.sub p1).dot (p.sub p1) = radius * radius) :
    (p.sub p1).dot (p.sub p1) * v.dot v - (p.sub p1).dot v * (p.sub p1).dot v ≤ radius * radius * v.dot v :=
  Col.capsule_phantom_inside p1 v p radius hon

/-- **`transformed_contract`**: `transformedCollider` (for any transform: it forwards the inner ray, maps
each callback one-to-one and keeps the parameter) satisfies the contract for a ray when the wrapped collider
satisfies it for the inner ray.  (That the inner ray corresponds point-by-point with equal parameters and
that the mapped normal is the unit outward normal of the image is C05's `transform_collider_*`.) -/
theorem transformed_contract {R H R' H' : Type} (tOf : H → K) (tOf' : H' → K) (inner : Collider R H)
    (innerRay : R' → R) (outer : H → H') (hpar : ∀ h, tOf' (outer h) = tOf h) (r : R')
    (hc : Contract tOf inner (innerRay r)) : Contract tOf' (transformed inner innerRay outer) r :=
  transformed_contract' tOf tOf' inner innerRay outer hpar r hc

/-! ## (2) exact hits -/

/-- **`sphere_hits_on_surface`** (`Sphere.RayCollisions`, also `Circle` on `z = 0`; any non-zero, possibly
non-unit direction).  With `disc = b² - 4ac` the discriminant of the code's quadratic:
* `disc < 0`: the ray's line misses the sphere, and nothing is reported;
* otherwise, if roots `t1 ≤ t2` are computed (`disc > 0`): both lie on the sphere
  (`‖o + t·d - c‖² = r²`), every ray point on the sphere is one of them, and the reported parameters are
  exactly those of `t1, t2` that are `≥ 0`, in increasing order (so both when both are `≥ 0`). -/
theorem sphere_hits_on_surface {sqrtF : K → K} (hs : SqrtOK sqrtF) (center : V3 K) (radius : K) (o d : V3 K)
    (hd : d.dot d ≠ 0) :
    (sphDisc center radius o d < 0 →
        sphereHits sqrtF center radius o d = [] ∧ ∀ t, (o.along d t).distSq center ≠ radius * radius) ∧
    (∀ t1 t2, sphereRoots sqrtF center radius o d = some (t1, t2) →
        0 < sphDisc center radius o d ∧ t1 ≤ t2 ∧
        (o.along d t1).distSq center = radius * radius ∧ (o.along d t2).distSq center = radius * radius ∧
        (∀ t, (o.along d t).distSq center = radius * radius → t = t1 ∨ t = t2) ∧
        (sphereHits sqrtF center radius o d).map Hit.t = [t1, t2].filter fun t => decide (0 ≤ t)) := by
  refine ⟨fun hneg => ⟨?_, sphere_no_hit_of_neg_disc center radius o d hneg⟩, fun t1 t2 h => ?_⟩
  · have := (sphereRoots_none_iff sqrtF center radius o d).2 (le_of_lt hneg)
    simp [sphereHits, this]
  · obtain ⟨h1, h2, h3, h4, h5, _⟩ := sphereRoots_some hs center radius o d hd t1 t2 h
    refine ⟨h1, h2, h3, h4, h5, ?_⟩
    rw [sphereHits_ts, h]

/-- The normal reported by `Sphere.RayCollisions` at a hit is the unit vector from the centre to the hit
point: squared length 1 and a positive multiple of `p - c` (outward). -/
theorem sphere_normal_unit_outward {sqrtF : K → K} (hs : SqrtOK sqrtF) (center p : V3 K) (radius : K)
    (hr : radius ≠ 0) (hon : p.distSq center = radius * radius) :
    ((p.sub center).normalize sqrtF).dot ((p.sub center).normalize sqrtF) = 1 ∧
    ∃ k : K, 0 < k ∧ (p.sub center).normalize sqrtF = (p.sub center).scale k := by
  have hne : (p.sub center).dot (p.sub center) ≠ 0 := by
    have : (p.sub center).dot (p.sub center) = p.distSq center := by
      simp only [V3.dot, V3.sub, V3.distSq]
    rw [this, hon]; exact mul_ne_zero hr hr
  exact ⟨V3.normalize_unit hs _ hne, V3.normalize_pos_mul hs _ hne⟩

/-- **`rect_hits`** (`rayCollisionWithBounds` + `Rect.RayCollisions`, slab method, any direction with a
non-zero component).  If the loop returns `(mn, mx)`: for `t ≥ 0` the ray point lies in the closed box iff
`mn ≤ t ≤ mx`; nothing is reported iff `mx < mn ∨ mx < 0` — and then no ray point is in the box —, otherwise
the reported parameters are the entry `mn` (unless negative: origin inside) and the exit `mx`. -/
theorem rect_hits (lo hi o d : V3 K) (hbox : lo.x ≤ hi.x ∧ lo.y ≤ hi.y ∧ lo.z ≤ hi.z) (mn mx : K)
    (h : slabLoop (axes3 o d lo hi) none none = (some mn, some mx)) :
    (∀ t, 0 ≤ t → (InBox lo hi (o.along d t) ↔ mn ≤ t ∧ t ≤ mx)) ∧
    rectTs lo hi o d = (if mx < mn ∨ mx < 0 then [] else if mn < 0 then [mx] else [mn, mx]) ∧
    (rectTs lo hi o d = [] → ∀ t, 0 ≤ t → ¬ InBox lo hi (o.along d t)) := by
  refine ⟨fun t ht => rect_interval lo hi o d hbox mn mx h t ht, rectTs_eq lo hi o d mn mx h, ?_⟩
  intro hempty t ht hin
  rw [rectTs_eq lo hi o d mn mx h] at hempty
  obtain ⟨h1, h2⟩ := (rect_interval lo hi o d hbox mn mx h t ht).1 hin
  by_cases hc : mx < mn ∨ mx < 0
  · rcases hc with hc | hc <;> linarith
  · simp only [hc, if_false] at hempty
    split at hempty <;> cases hempty

/-- **`triangle_hit_iff`** (`Triangle.RayCollisions`, Möller–Trumbore, non-unit directions).  A collision
with parameter `t` is reported iff the ray is not rejected by the library's near-parallel test, the
determinant `(d × (c-a))·(b-a)` is non-zero, and the (then unique) solution of
`o + t·d = a + u·(b-a) + v·(c-a)` has `u, v ≥ 0`, `u + v ≤ 1`, `t ≥ 0`.  The determinant is
`-d·((b-a)×(c-a))`: a ray exactly parallel to the triangle's plane reports nothing. -/
theorem triangle_hit_iff (sqrtF : K → K) (eps : K) (a b c o d : V3 K) :
    (∀ t, (triHits sqrtF eps a b c o d).map Hit.t = [t] ↔
      ¬ triNearPar sqrtF eps a b c d ∧ triDet a b c d ≠ 0 ∧
        ∃ u v, TriEq a b c o d t u v ∧ 0 ≤ u ∧ 0 ≤ v ∧ u + v ≤ 1 ∧ 0 ≤ t) ∧
    (triHits sqrtF eps a b c o d).length ≤ 1 ∧
    triDet a b c d = -(d.dot ((b.sub a).cross (c.sub a))) ∧
    (triDet a b c d = 0 → triHits sqrtF eps a b c o d = []) ∧
    (triDet a b c d ≠ 0 → ∀ t u v t' u' v', TriEq a b c o d t u v → TriEq a b c o d t' u' v' →
      t = t' ∧ u = u' ∧ v = v') := by
  refine ⟨triHits_ts_iff sqrtF eps a b c o d, triHits_length_le sqrtF eps a b c o d, triDet_eq a b c d, ?_,
    fun hd t u v t' u' v' => tri_solution_unique a b c o d hd t u v t' u' v'⟩
  intro h0
  unfold triHits
  cases hr : triRay sqrtF eps a b c o d with
  | none => rfl
  | some s => exact absurd h0 ((triRay_iff sqrtF eps a b c o d s).1 hr).2.1

/-- **`segment2d_hit_iff`** (2-D `Segment.RayCollisions`, non-unit directions, `det ≠ 0`): a collision with
parameter `t` is reported iff the ray is not rejected as near-parallel and the unique solution of
`s0 + a·(s1-s0) = o + t·d` has `0 ≤ a ≤ 1` and `t ≥ 0`. -/
theorem segment2d_hit_iff (sqrtF : K → K) (eps : K) (s0 s1 o d : V2 K) (hdet : segDet s0 s1 d ≠ 0) (t : K) :
    (seg2Hits sqrtF eps s0 s1 o d).map Hit2.t = [t] ↔
      ¬ segNearPar sqrtF eps s0 s1 d ∧ ∃ a, SegEq s0 s1 o d t a ∧ 0 ≤ a ∧ a ≤ 1 ∧ 0 ≤ t := by
  unfold seg2Hits
  cases hr : seg2Ray sqrtF eps s0 s1 o d with
  | none =>
    simp only [List.map_nil, List.nil_eq, reduceCtorEq, false_iff, not_and, not_exists]
    intro hp a he h0 h1 _
    have := (seg2Ray_iff sqrtF eps s0 s1 o d true t hdet).2 ⟨hp, a, he, by simp [h0, h1]⟩
    rw [hr] at this; cases this
  | some p =>
    obtain ⟨hit, t'⟩ := p
    obtain ⟨hp, a', he', hh'⟩ := (seg2Ray_iff sqrtF eps s0 s1 o d hit t' hdet).1 hr
    have huniq : ∀ a, SegEq s0 s1 o d t a → t = t' ∧ (0 ≤ a ∧ a ≤ 1 → hit = true) := by
      intro a he
      have h1 := (seg2Ray_iff sqrtF eps s0 s1 o d (decide (0 ≤ a ∧ a ≤ 1)) t hdet).2
        ⟨hp, a, he, by simp⟩
      rw [hr] at h1
      simp only [Option.some.injEq, Prod.mk.injEq] at h1
      exact ⟨h1.2.symm, fun h => by rw [h1.1]; simpa using h⟩
    cases hit with
    | false =>
      simp only [List.map_nil, List.nil_eq, reduceCtorEq, false_iff, not_and, not_exists]
      intro _ a he h0 h1 _
      exact absurd ((huniq a he).2 ⟨h0, h1⟩) (by simp)
    | true =>
      have ha' := hh'.1 rfl
      simp only []
      by_cases hnn : 0 ≤ t'
      · simp only [hnn, if_true, List.map_cons, List.map_nil, List.cons.injEq, and_true]
        constructor
        · intro h; subst h
          exact ⟨hp, a', he', ha'.1, ha'.2, hnn⟩
        · rintro ⟨_, a, he, _⟩
          exact ((huniq a he).1).symm
      · simp only [hnn, if_false, List.map_nil, List.nil_eq, reduceCtorEq, false_iff, not_and, not_exists]
        intro _ a he _ _ ht
        rw [(huniq a he).1] at ht
        exact absurd ht hnn

/-- **`plane_circle_hit`** (`castPlane`, `castCircle` — the caps of `Cylinder` and the base of `Cone`), for a
ray not parallel to the plane: `castPlane` reports `t` iff it is not rejected as near-parallel, `t ≥ 0` and
`(o + t·d)·n = bias`; `castCircle` reports `(t, normal)` iff moreover the point is within `radius` of the
centre (squared form), the plane being the one through `center`, and the reported normal is `normal`. -/
theorem plane_circle_hit {sqrtF : K → K} (hs : SqrtOK sqrtF) (eps : K) (normal center : V3 K) (bias radius : K)
    (hr : 0 ≤ radius) (o d : V3 K) (hdn : d.dot normal ≠ 0) :
    (∀ t, castPlane sqrtF eps normal bias o d = some t ↔
      ¬ (|d.dot normal| < eps * d.norm sqrtF * normal.norm sqrtF) ∧ 0 ≤ t ∧ (o.along d t).dot normal = bias) ∧
    (∀ h, castCircle sqrtF eps normal center radius o d = some h ↔
      ¬ (|d.dot normal| < eps * d.norm sqrtF * normal.norm sqrtF) ∧ 0 ≤ h.t ∧
        ((o.along d h.t).sub center).dot normal = 0 ∧ (o.along d h.t).distSq center ≤ radius * radius ∧
        h.n = normal) :=
  ⟨fun t => castPlane_iff sqrtF eps normal bias o d t hdn,
   fun h => castCircle_iff hs eps normal center radius hr o d h hdn⟩

/-- **The (repaired, commit dfda33e) normal of `Cone.RayCollisions` is perpendicular to the cone**: for the
unit radial direction `radial ⟂ H` at the hit, `H = Tip - Base`, `|H| = h`, the vector that is normalised,
`radial·h + H·(R/h)`, is orthogonal to the generator `H - R·radial` and to the tangent of the base circle, and
has positive radial component (outward).  The formula before the repair, `radial·R + H`, has inner product
`h² - R²` with the generator: wrong unless `R = h`. -/
theorem cone_normal_perpendicular (radial hv tang : V3 K) (h radius : K) (hh : 0 < h)
    (hunit : radial.dot radial = 1) (horth : radial.dot hv = 0) (hnorm : hv.dot hv = h * h)
    (ht1 : tang.dot radial = 0) (ht2 : tang.dot hv = 0) (hR : 0 ≤ radius) :
    ((coneNormalDir radial hv h radius).dot (hv.sub (radial.scale radius)) = 0 ∧
      (coneNormalDir radial hv h radius).dot tang = 0 ∧
      0 < (coneNormalDir radial hv h radius).dot radial) ∧
    ((radial.scale radius).add hv).dot (hv.sub (radial.scale radius)) = h * h - radius * radius :=
  ⟨coneNormal_orthogonal radial hv tang h radius hh hunit horth hnorm ht1 ht2 hR,
   coneNormal_old_wrong radial hv h radius hunit horth hnorm⟩

/-! ## (2b) Cylinder and Capsule: reported collisions lie on the surface with the unit outward normal -/

/-- **`cylinder_hits_on_surface`** (`Cylinder.RayCollisions`: quadratic for the lateral surface, `castCircle`
for the two discs).  With `v = (P2-P1).Normalize()` (a unit vector), `z = (P - P1)·v` the axial coordinate of the
hit point `P = o + t·d` and `radialVec` its component orthogonal to `v`: every reported collision has `t ≥ 0`, a
unit normal, and is
* on the lateral surface — `|radialVec|² = r²`, `0 ≤ z < |P2-P1|` — with the normal a positive multiple of
  `radialVec` (outward), or
* on the base disc — `z = 0`, `|radialVec|² ≤ r²` — with the normal `-v`, or
* on the top disc — `z = |P2-P1|`, `|radialVec|² ≤ r²` — with the normal `v`;
and conversely every ray point with `t ≥ 0` on the lateral surface is reported when the discriminant is
positive (tangent rays, `disc ≤ 0`, report no side collision).  For rays neither parallel to the axis (`a ≠ 0`)
nor orthogonal to it (`d·v ≠ 0`). -/
theorem cylinder_hits_on_surface {sqrtF : K → K} (hs : SqrtOK sqrtF) (eps : K) (p1 p2 : V3 K) (r : K)
    (o d : V3 K) (hax : (p2.sub p1).dot (p2.sub p1) ≠ 0) (hr : 0 < r)
    (hnp : cylA ((p2.sub p1).normalize sqrtF) d ≠ 0) (hdv : d.dot ((p2.sub p1).normalize sqrtF) ≠ 0) :
    (∀ h ∈ cylHits sqrtF eps p1 p2 r o d,
      let v := (p2.sub p1).normalize sqrtF
      let P := o.along d h.t
      v.dot v = 1 ∧ 0 ≤ h.t ∧ h.n.dot h.n = 1 ∧
      ((radialSq p1 v P = r * r ∧ 0 ≤ axialZ p1 v P ∧ axialZ p1 v P < (p2.sub p1).norm sqrtF ∧
          ∃ k, 0 < k ∧ h.n = (radialVec p1 v P).scale k) ∨
       (axialZ p1 v P = 0 ∧ radialSq p1 v P ≤ r * r ∧ h.n = v.scale (-1)) ∨
       (axialZ p1 v P = (p2.sub p1).norm sqrtF ∧ radialSq p1 v P ≤ r * r ∧ h.n = v))) ∧
    (0 < cylDisc ((p2.sub p1).normalize sqrtF) (o.sub p1) d r → ∀ t, 0 ≤ t →
      radialSq p1 ((p2.sub p1).normalize sqrtF) (o.along d t) = r * r →
      0 ≤ axialZ p1 ((p2.sub p1).normalize sqrtF) (o.along d t) →
      axialZ p1 ((p2.sub p1).normalize sqrtF) (o.along d t) < (p2.sub p1).norm sqrtF →
      ∃ h ∈ cylHits sqrtF eps p1 p2 r o d, h.t = t) ∧
    (∀ P : V3 K, (radialVec p1 ((p2.sub p1).normalize sqrtF) P).dot ((p2.sub p1).normalize sqrtF) = 0) := by
  refine ⟨fun h hm => cyl_sound hs eps p1 p2 r o d hax hr hnp hdv h hm, ?_, ?_⟩
  · intro hdisc t ht hon hz0 hz1
    obtain ⟨h, hm, hht⟩ := cylSide_complete hs p1 p2 r o d hnp hdisc t ht hon hz0 hz1
    refine ⟨h, ?_, hht⟩
    unfold cylHits
    exact List.mem_append_left _ (List.mem_append_left _ hm)
  · intro P
    exact radialVec_orth p1 _ P (V3.normalize_unit hs _ hax)

/-- **`cylinder_reports_iff`** — *the collisions `Cylinder.RayCollisions` reports are exactly the points where the ray
meets the surface*: a parameter `t` is handed to the callback **iff** `t ≥ 0` and the ray point `o + t·d` lies on the
lateral surface between the caps or on one of the two cap discs — nothing is invented (`cylinder_hits_on_surface`) and
nothing is missed.  For a ray neither parallel nor orthogonal to the axis, accepted by the near-parallel test of `castPlane`
(`|d·v| ≥ eps·|d|`) and not tangent to the infinite cylinder (`disc ≠ 0`; a tangent ray is reported no lateral collision).
The rays along the axis are `cylinder_axis_rays` (same statement). -/
theorem cylinder_reports_iff {sqrtF : K → K} (hs : SqrtOK sqrtF) (eps : K) (p1 p2 : V3 K) (r : K) (o d : V3 K)
    (hax : (p2.sub p1).dot (p2.sub p1) ≠ 0) (hr : 0 < r)
    (hA : cylA ((p2.sub p1).normalize sqrtF) d ≠ 0)
    (hdv : d.dot ((p2.sub p1).normalize sqrtF) ≠ 0)
    (hacc : ¬ (|d.dot ((p2.sub p1).normalize sqrtF)| < eps * d.norm sqrtF))
    (hdisc : cylDisc ((p2.sub p1).normalize sqrtF) (o.sub p1) d r ≠ 0) (t : K) :
    (∃ h ∈ ((cylCollider sqrtF eps p1 p2 r).ray (o, d) true).2, h.t = t) ↔
      0 ≤ t ∧ OnCylSurface p1 ((p2.sub p1).normalize sqrtF) ((p2.sub p1).norm sqrtF) r (o.along d t) :=
  cylHits_iff_surface hs eps p1 p2 r o d hax hr hA hdv hacc hdisc t

/-- **`cylinder_axis_rays`** — `Cylinder.RayCollisions` / `FirstRayCollision` for a ray that runs *exactly along the
axis*, `d = v·k` with `v = (P2-P1).Normalize()` and any `k ≠ 0` (either sense, any length): the case
`cylinder_hits_on_surface` excludes (`a = 0`).  There the quadratic of the lateral surface degenerates — `v2 = 0`, so
`a = b = 0` and the discriminant is `0` wherever the ray is — and says nothing about the ray; the collisions are the
crossings of the two cap discs:
* the calls made to the callback are exactly the list `cylAxisSpec` (what the `cylx` correspondence kind prints): nothing
  if the ray runs further than `r` from the axis, else the base disc at `(0 - z₀)/k` with normal `-v` and the top disc at
  `(|P2-P1| - z₀)/k` with normal `v`, each unless negative — `castCircle` never rejects such a ray as near-parallel
  (`eps ≤ 1`);
* every reported collision has `t ≥ 0`, a unit normal, and lies on the base disc with the normal `-v` or on the top disc
  with the normal `v`;
* for a ray that does not run inside the lateral surface itself (`dist(o, axis) ≠ r`): a parameter is reported **iff**
  `t ≥ 0` and the ray point lies on the surface of the cylinder — nothing is missed;
* the count (with or without callback) is odd **iff** `Cylinder.Contains(origin)`, for an origin not on the surface;
* `FirstRayCollision` reports a collision **iff** the ray meets the surface (its parameter is minimal by `first_is_min`). -/
theorem cylinder_axis_rays {sqrtF : K → K} (hs : SqrtOK sqrtF) (eps : K) (heps : eps ≤ 1) (p1 p2 : V3 K) (r : K)
    (o : V3 K) (k : K) (hax : (p2.sub p1).dot (p2.sub p1) ≠ 0) (hr : 0 < r) (hk : k ≠ 0) :
    let v := (p2.sub p1).normalize sqrtF
    let L := (p2.sub p1).norm sqrtF
    let d := v.scale k
    cylHits sqrtF eps p1 p2 r o d = cylAxisSpec p1 v L r o k ∧
    (∀ h ∈ cylHits sqrtF eps p1 p2 r o d, 0 ≤ h.t ∧ h.n.dot h.n = 1 ∧ radialSq p1 v (o.along d h.t) ≤ r * r ∧
      ((axialZ p1 v (o.along d h.t) = 0 ∧ h.n = v.scale (-1)) ∨ (axialZ p1 v (o.along d h.t) = L ∧ h.n = v))) ∧
    (radialSq p1 v o ≠ r * r → ∀ t, (∃ h ∈ cylHits sqrtF eps p1 p2 r o d, h.t = t) ↔
      0 ≤ t ∧ OnCylSurface p1 v L r (o.along d t)) ∧
    (radialSq p1 v o ≠ r * r → axialZ p1 v o ≠ 0 → axialZ p1 v o ≠ L →
      ∀ cb, (((cylCollider sqrtF eps p1 p2 r).ray (o, d) cb).1 % 2 = 1 ↔ cylContains sqrtF p1 p2 r o = true)) ∧
    (radialSq p1 v o ≠ r * r → (((cylCollider sqrtF eps p1 p2 r).first (o, d)).isSome = true ↔
      ∃ t, 0 ≤ t ∧ OnCylSurface p1 v L r (o.along d t))) := by
  intro v L d
  have hvu : v.dot v = 1 := V3.normalize_unit hs _ hax
  have heq : cylHits sqrtF eps p1 p2 r o d = cylAxisSpec p1 v L r o k :=
    cylHits_axis hs eps heps p1 p2 r o k hax hr.le hk
  have hLpos : 0 < L := by
    obtain ⟨hn0, hn1⟩ := hs ((p2.sub p1).x * (p2.sub p1).x + (p2.sub p1).y * (p2.sub p1).y +
      (p2.sub p1).z * (p2.sub p1).z) (sumsq3_nonneg _ _ _)
    refine lt_of_le_of_ne hn0 (fun h0 => hax ?_)
    have : L * L = (p2.sub p1).dot (p2.sub p1) := hn1
    rw [← this, ← h0]; ring
  refine ⟨heq, ?_, ?_, ?_, ?_⟩
  · intro h hm
    rw [heq] at hm
    obtain ⟨h1, h2, h3⟩ := cylAxisSpec_normals p1 v L r o k hvu hk h hm
    refine ⟨h1, ?_, h2, h3⟩
    rcases h3 with ⟨_, hn⟩ | ⟨_, hn⟩
    · rw [hn]
      have : (v.scale (-1)).dot (v.scale (-1)) = v.dot v := by simp only [V3.dot, V3.scale]; ring
      rw [this, hvu]
    · rw [hn, hvu]
  · intro hgen t
    rw [heq]
    exact cylAxisSpec_mem_iff p1 v L r o k hvu hk hgen t
  · intro hgen hz0 hzL cb
    have hcount : ((cylCollider sqrtF eps p1 p2 r).ray (o, d) cb).1 = (cylAxisSpec p1 v L r o k).length := by
      show (cylHits sqrtF eps p1 p2 r o d).length = _
      rw [heq]
    rw [hcount, cylAxisSpec_parity p1 v L r o k hk hLpos hgen hz0 hzL, cylContains_iff hs p1 p2 r hr.le o hax]
    unfold InCylOpen InCylClosed
    constructor
    · rintro ⟨a, b, c⟩; exact ⟨a.le, b.le, c.le⟩
    · rintro ⟨a, b, c⟩
      exact ⟨lt_of_le_of_ne a (Ne.symm hz0), lt_of_le_of_ne b hzL, lt_of_le_of_ne c hgen⟩
  · intro hgen
    have hfirst : (cylCollider sqrtF eps p1 p2 r).first (o, d) =
        minFirst Hit.t (cylHits sqrtF eps p1 p2 r o d) none := rfl
    rw [hfirst, minFirst_none_isSome]
    constructor
    · intro hne
      obtain ⟨h, hm⟩ := List.exists_mem_of_ne_nil _ hne
      exact ⟨h.t, ((by rw [heq]; exact cylAxisSpec_mem_iff p1 v L r o k hvu hk hgen h.t :
        (∃ h' ∈ cylHits sqrtF eps p1 p2 r o d, h'.t = h.t) ↔ _).1 ⟨h, hm, rfl⟩)⟩
    · rintro ⟨t, ht⟩
      obtain ⟨h, hm, _⟩ := ((by rw [heq]; exact cylAxisSpec_mem_iff p1 v L r o k hvu hk hgen t :
        (∃ h' ∈ cylHits sqrtF eps p1 p2 r o d, h'.t = t) ↔ _).2 ht)
      exact List.ne_nil_of_mem hm

/-- non-vacuity: the upright cylinder `(0,0,0)–(0,0,2)`, radius 1.  Looking straight down from `(1/4, 0, 3)` with the
direction `(0,0,-4)`: top disc at `1/4` (normal `+z`), base disc at `3/4` (normal `-z`), in the order base, top; from
inside, `(1/4, 0, 1)`, the same direction: the base disc only (odd, `Contains`); beside the cylinder: nothing.
(`sqrtF` exact on the squares that occur.) -/
example :
    let sq : ℚ → ℚ := fun x => if x = 4 then 2 else if x = 16 then 4 else if x = 1/16 then 1/4 else x
    (cylHits sq (1/100000000) ⟨0, 0, 0⟩ ⟨0, 0, 2⟩ 1 ⟨1/4, 0, 3⟩ ⟨0, 0, -4⟩).map (fun h => (h.t, h.n.z)) =
      [(3/4, -1), (1/4, 1)] ∧
    (cylHits sq (1/100000000) ⟨0, 0, 0⟩ ⟨0, 0, 2⟩ 1 ⟨1/4, 0, 1⟩ ⟨0, 0, -4⟩).map (fun h => (h.t, h.n.z)) = [(1/4, -1)] ∧
    (cylAxisSpec (⟨0, 0, 0⟩ : V3 ℚ) ⟨0, 0, 1⟩ 2 1 ⟨1/4, 0, 1⟩ (-4)).map (fun h => (h.t, h.n.z)) = [(1/4, -1)] ∧
    cylContains sq ⟨0, 0, 0⟩ ⟨0, 0, 2⟩ 1 ⟨1/4, 0, 1⟩ = true ∧
    cylHits sq (1/100000000) ⟨0, 0, 0⟩ ⟨0, 0, 2⟩ 1 ⟨5/4, 0, 1⟩ ⟨0, 0, -4⟩ = [] := by
  refine ⟨?_, ?_, ?_, ?_, ?_⟩ <;> decide +kernel

/-- **`cylinder_contains_iff`** — `Cylinder.Contains(p)` (axial coordinate measured from `P2` along
`(P1-P2).Normalize()`, rejected if `< 0` or `> |P1-P2|`, then `projection.Dist(p) <= Radius`) is true **iff** `p` lies in
the closed cylinder: `0 ≤ z ≤ |P2-P1|` for the axial coordinate `z = (p-P1)·v` and squared distance from the axis
`≤ r²`.  This is the "inside" the parity statements (`cylinder_axis_rays`, `parity_inside_cylinder`) compare the count
with, and what the `I` field of the `cylx` correspondence kind prints. -/
theorem cylinder_contains_iff {sqrtF : K → K} (hs : SqrtOK sqrtF) (p1 p2 : V3 K) (r : K) (hr : 0 ≤ r) (p : V3 K)
    (hax : (p2.sub p1).dot (p2.sub p1) ≠ 0) :
    cylContains sqrtF p1 p2 r p = true ↔
      0 ≤ axialZ p1 ((p2.sub p1).normalize sqrtF) p ∧
      axialZ p1 ((p2.sub p1).normalize sqrtF) p ≤ (p2.sub p1).norm sqrtF ∧
      radialSq p1 ((p2.sub p1).normalize sqrtF) p ≤ r * r :=
  cylContains_iff hs p1 p2 r hr p hax

/-- **`capsule_hits_on_surface`** (`Capsule.RayCollisions`): the collisions it reports are candidates
(`capsule_phantom_contract`: a minimum and a maximum of them), and every candidate — a collision with an end
sphere kept on its outer half, or with the lateral surface — has `t ≥ 0`, a unit normal, and lies on the
capsule's surface: on the sphere around `P1` with `z ≤ 0`, on the sphere around `P2` with `z ≥ |P2-P1|`, or at
distance `r` from the axis with `0 ≤ z < |P2-P1|`; the normal is a positive multiple of the vector from the
nearest point of the segment `P1 P2` (`P1`, `P2`, resp. the foot on the axis) to the hit point — outward. -/
theorem capsule_hits_on_surface {sqrtF : K → K} (hs : SqrtOK sqrtF) (p1 p2 : V3 K) (r : K) (o d : V3 K)
    (hax : (p2.sub p1).dot (p2.sub p1) ≠ 0) (hr : r ≠ 0) (hd : d.dot d ≠ 0)
    (hnp : cylA ((p2.sub p1).normalize sqrtF) d ≠ 0) (h : Hit K)
    (hm : h ∈ ((capsuleCollider sqrtF p1 p2 r).ray (o, d) true).2) :
    let v := (p2.sub p1).normalize sqrtF
    let P := o.along d h.t
    h ∈ capsuleCands sqrtF p1 p2 r o d ∧ 0 ≤ h.t ∧ h.n.dot h.n = 1 ∧
    ((P.distSq p1 = r * r ∧ axialZ p1 v P ≤ 0 ∧ ∃ k, 0 < k ∧ h.n = (P.sub p1).scale k) ∨
     (P.distSq p2 = r * r ∧ (p2.sub p1).norm sqrtF ≤ axialZ p1 v P ∧ ∃ k, 0 < k ∧ h.n = (P.sub p2).scale k) ∨
     (radialSq p1 v P = r * r ∧ 0 ≤ axialZ p1 v P ∧ axialZ p1 v P < (p2.sub p1).norm sqrtF ∧
        ∃ k, 0 < k ∧ h.n = (radialVec p1 v P).scale k)) := by
  intro v P
  have hc : h ∈ capsuleCands sqrtF p1 p2 r o d := capsuleSelect_calls_mem Hit.t _ _ h hm
  exact ⟨hc, capsule_cands_sound hs p1 p2 r o d hax hr hd hnp h hc⟩

/-- **`cone_hits_on_surface`** (`Cone.RayCollisions`, complete model `coneHits`: side polynomial through
`numerical.Polynomial`, its roots through the linear / quadratic branch of `IterRealRoots`, `safeNormal`,
`castCircle` for the base).  With `ax` the unit axis from the tip to the base, `L = |Base - Tip| > 0`,
`z = (P - Tip)·ax` and `radialVec` the component of `P - Tip` orthogonal to `ax`, every reported collision has
`t ≥ 0`, a unit normal, and lies
* on the lateral surface — `0 ≤ z ≤ L`, `|radialVec|² = (z·R/L)²` — with the normal
  `normalize(u·L + (Tip-Base)·R/L)` where `u` is a unit vector orthogonal to the axis: the unit radial direction
  of the hit point (a positive multiple of `radialVec`), or the fallback `b1` of `safeNormal` (hit point on the
  axis, i.e. the apex) — by `cone_normal_perpendicular` that vector is orthogonal to the generator and to the
  base tangent and points outwards; or
* on the base disc — `z = L`, `|radialVec|² ≤ R²` — with the normal `ax`.
Moreover the roots handed to the side filter are exactly the roots of the side polynomial (`polyRoots2`, unless
the polynomial vanishes identically: a ray inside the cone's surface).  For a ray not parallel to the base. -/
theorem cone_hits_on_surface {sqrtF : K → K} (hs : SqrtOK sqrtF) (eps tol : K) (htol : 0 < tol)
    (tip base : V3 K) (radius : K) (hr : 0 < radius) (o d : V3 K)
    (hax : (base.sub tip).dot (base.sub tip) ≠ 0) (hdv : d.dot (coneAxis sqrtF tip base) ≠ 0) :
    (∀ h ∈ coneHits sqrtF eps tol tip base radius o d,
      let ax := coneAxis sqrtF tip base
      let L := (base.sub tip).norm sqrtF
      let P := o.along d h.t
      ax.dot ax = 1 ∧ 0 < L ∧ 0 ≤ h.t ∧ h.n.dot h.n = 1 ∧
      ((0 ≤ axialZ tip ax P ∧ axialZ tip ax P ≤ L ∧
          radialSq tip ax P = (axialZ tip ax P * radius / L) * (axialZ tip ax P * radius / L) ∧
          ∃ u : V3 K, u.dot u = 1 ∧ u.dot ax = 0 ∧
            (u = (coneBasis sqrtF tip base).1 ∨ ∃ k, 0 < k ∧ u = (radialVec tip ax P).scale k) ∧
            h.n = (coneNormalDir u (tip.sub base) L radius).normalize sqrtF) ∨
       (axialZ tip ax P = L ∧ radialSq tip ax P ≤ radius * radius ∧ h.n = ax))) ∧
    (∀ k0 k1 k2 : K, (∀ t ∈ polyRoots2 sqrtF k0 k1 k2, k0 + k1 * t + k2 * t * t = 0) ∧
      (¬ (k0 = 0 ∧ k1 = 0 ∧ k2 = 0) → ∀ t, k0 + k1 * t + k2 * t * t = 0 → t ∈ polyRoots2 sqrtF k0 k1 k2)) :=
  ⟨fun h hm => cone_sound hs eps tol htol tip base radius hr o d hax hdv h hm,
   fun k0 k1 k2 => polyRoots2_spec hs k0 k1 k2⟩

/-- non-vacuity: the quadratic branch of `IterRealRoots` on `t² - 3t + 2` (roots `1, 2`, smaller first), the
linear branch on `2t - 1`, no real root for `t² + 1` (`sqrtF` = identity suffices where the discriminant is 1) -/
example :
    polyRoots2 (fun x : ℚ => x) 2 (-3) 1 = [1, 2] ∧ polyRoots2 (fun x : ℚ => x) (-1) 2 0 = [1 / 2] ∧
    polyRoots2 (fun x : ℚ => x) 1 0 1 = [] := by
  refine ⟨?_, ?_, ?_⟩ <;> decide +kernel

/-! ## (3) parity -/

/-- **`parity_inside_box_partial`** — the single-convex-cell version of `parity_inside` for `Rect`: for a
ray whose origin is not on the entry plane (general position), the number of reported collisions is odd
iff the origin is in the box.
(`_partial`: one convex cell.  The general statements are `parity_inside_convex` — every convex solid given by
half-spaces —, `parity_inside_convex_mesh` — closed convex meshes on the model's hit list — and
`parity_direction_independent` / `parity_inside_closed_mesh` — arbitrary closed triangle meshes: the parity does
not depend on the direction and agrees with `ColliderContains` —, and for the `Cylinder` primitive
`parity_inside_cylinder` + `cylinder_axis_rays`.  Tori, cones, capsules, profiles and transformed shapes are checked on
the real code against an independent winding-number / analytic containment computation by the harness,
`c07:parity-vs-contains/*`.) -/
theorem parity_inside_box_partial (lo hi o d : V3 K) (hbox : lo.x ≤ hi.x ∧ lo.y ≤ hi.y ∧ lo.z ≤ hi.z) (mn mx : K)
    (h : slabLoop (axes3 o d lo hi) none none = (some mn, some mx)) (hgen : mn ≠ 0) :
    (rectTs lo hi o d).length % 2 = 1 ↔ InBox lo hi o :=
  parity_box lo hi o d hbox mn mx h hgen

/-- **`parity_inside_sphere_partial`** — the convex cell `Sphere` (and `Circle`): for an origin not on the
surface, the number of reported collisions is odd iff the origin is strictly inside. -/
theorem parity_inside_sphere_partial {sqrtF : K → K} (hs : SqrtOK sqrtF) (center : V3 K) (radius : K)
    (o d : V3 K) (hd : d.dot d ≠ 0) (hgen : o.distSq center ≠ radius * radius) :
    (sphereHits sqrtF center radius o d).length % 2 = 1 ↔ o.distSq center < radius * radius :=
  parity_sphere hs center radius o d hd hgen

/-- **`parity_inside_cylinder`** — *for a `Cylinder` the reported number of collisions is odd exactly when the ray starts
inside*, for a ray not parallel to the axis (`a ≠ 0`; the parallel rays are `cylinder_axis_rays`) whose origin is not on
the surface, in the two cases
* **oblique** (`d·v ≠ 0`), accepted by the near-parallel test of `castPlane` (`|d·v| ≥ eps·|d|`) and not through the rim of
  a cap (the points where the ray crosses the two cap planes are not at distance `r` from the axis);
* **exactly orthogonal to the axis** (`d·v = 0`, e.g. looking at an upright cylinder horizontally; `eps > 0`): the caps
  are never hit, the two roots of the lateral quadratic are reported iff the (constant) axial coordinate is in
  `[0, |P2-P1|)`.
"Inside" is `Cylinder.Contains(origin)` (`cylinder_contains_iff`: the closed solid); the count is the one returned with
or without a callback.  Tangent rays are included (they are reported nothing).  Proof: the solid is convex — the
parameters inside are the intersection of the interval between the two roots of the lateral quadratic and the interval
between the two cap planes; `Cylinder.RayCollisions` reports a root iff it lies between the cap planes
(`0 ≤ z < |P2-P1|`) and a cap crossing iff it lies between the roots (`dist ≤ r`), each iff `≥ 0`: the end points of the
intersection (`interval_parity`).  Not covered: the band `0 < |d·v| < eps·|d|` (documented `1e-8` rejection of the caps),
rays through a rim, origins on the surface. -/
theorem parity_inside_cylinder {sqrtF : K → K} (hs : SqrtOK sqrtF) (eps : K) (p1 p2 : V3 K) (r : K) (o d : V3 K)
    (hax : (p2.sub p1).dot (p2.sub p1) ≠ 0) (hr : 0 < r)
    (hA : cylA ((p2.sub p1).normalize sqrtF) d ≠ 0)
    (hsurf : ¬ OnCylSurface p1 ((p2.sub p1).normalize sqrtF) ((p2.sub p1).norm sqrtF) r o) :
    (d.dot ((p2.sub p1).normalize sqrtF) ≠ 0 →
      ¬ (|d.dot ((p2.sub p1).normalize sqrtF)| < eps * d.norm sqrtF) →
      radialSq p1 ((p2.sub p1).normalize sqrtF)
        (o.along d ((0 - axialZ p1 ((p2.sub p1).normalize sqrtF) o) / d.dot ((p2.sub p1).normalize sqrtF))) ≠ r * r →
      radialSq p1 ((p2.sub p1).normalize sqrtF)
        (o.along d (((p2.sub p1).norm sqrtF - axialZ p1 ((p2.sub p1).normalize sqrtF) o) /
          d.dot ((p2.sub p1).normalize sqrtF))) ≠ r * r →
      ∀ cb, ((cylCollider sqrtF eps p1 p2 r).ray (o, d) cb).1 % 2 = 1 ↔ cylContains sqrtF p1 p2 r o = true) ∧
    (d.dot ((p2.sub p1).normalize sqrtF) = 0 → 0 < eps →
      ∀ cb, ((cylCollider sqrtF eps p1 p2 r).ray (o, d) cb).1 % 2 = 1 ↔ cylContains sqrtF p1 p2 r o = true) := by
  have hcount : ∀ cb, ((cylCollider sqrtF eps p1 p2 r).ray (o, d) cb).1 = (cylHits sqrtF eps p1 p2 r o d).length :=
    fun _ => rfl
  constructor
  · intro hdv hacc hrim1 hrim2 cb
    rw [hcount, cylHits_parity hs eps p1 p2 r o d hax hr hA hdv hacc hrim1 hrim2 hsurf,
      cylContains_iff hs p1 p2 r hr.le o hax]
    exact inCyl_open_iff_closed _ _ _ _ _ hsurf
  · intro hdv heps cb
    rw [hcount, cylHits_parity_orth hs eps heps p1 p2 r o d hax hr hA hdv hsurf,
      cylContains_iff hs p1 p2 r hr.le o hax]
    exact inCyl_open_iff_closed _ _ _ _ _ hsurf

/-- non-vacuity: the upright cylinder `(0,0,0)–(0,0,2)`, radius 1, direction `(4,0,1)`: from `(-2,0,1/2)` outside the
ray enters and leaves through the lateral surface (`t = 1/4, 3/4`, the top plane is crossed outside the disc): even; from
`(0,0,1/2)` on the axis inside: one collision at `1/4`: odd, and `Contains`; the horizontal ray from `(-2,0,1/2)` along
`(4,0,0)`: `1/4, 3/4`, from `(0,0,1/2)`: `1/4`; the horizontal ray above the top: nothing. -/
example :
    let sq : ℚ → ℚ := fun x => if x = 4 then 2 else if x = 64 then 8 else if x = 16 then 4 else x
    (cylHits sq (1/100000000) ⟨0, 0, 0⟩ ⟨0, 0, 2⟩ 1 ⟨-2, 0, 1/2⟩ ⟨4, 0, 0⟩).map Hit.t = [1/4, 3/4] ∧
    (cylHits sq (1/100000000) ⟨0, 0, 0⟩ ⟨0, 0, 2⟩ 1 ⟨0, 0, 1/2⟩ ⟨4, 0, 0⟩).map Hit.t = [1/4] ∧
    (cylHits sq (1/100000000) ⟨0, 0, 0⟩ ⟨0, 0, 2⟩ 1 ⟨-2, 0, 5/2⟩ ⟨4, 0, 0⟩).map Hit.t = [] ∧
    (cylHits sq (1/100000000) ⟨0, 0, 0⟩ ⟨0, 0, 2⟩ 1 ⟨-2, 0, 1/2⟩ ⟨4, 0, 1⟩).map Hit.t = [1/4, 3/4] ∧
    cylContains sq ⟨0, 0, 0⟩ ⟨0, 0, 2⟩ 1 ⟨-2, 0, 1/2⟩ = false ∧
    (cylHits sq (1/100000000) ⟨0, 0, 0⟩ ⟨0, 0, 2⟩ 1 ⟨0, 0, 1/2⟩ ⟨4, 0, 1⟩).map Hit.t = [1/4] ∧
    cylContains sq ⟨0, 0, 0⟩ ⟨0, 0, 2⟩ 1 ⟨0, 0, 1/2⟩ = true := by
  refine ⟨?_, ?_, ?_, ?_, ?_, ?_, ?_⟩ <;> decide +kernel

/-- **`parity_inside_convex`** — `parity_inside` for **every convex solid given as an intersection of
half-spaces** `n·x ≤ b` (boxes, prisms, convex polytopes, convex meshes).  If a collider's reported parameters
`ts` are, without repetition, exactly the parameters `t ≥ 0` at which the ray is on the solid's surface, then
for a ray in general position — not parallel to any face plane, origin not on the surface, the face planes active
at a surface point of the ray all crossed in the same sense (the ray does not enter and leave through one edge
or vertex) — and a solid that is bounded in the direction of the ray, the count is odd iff the origin is
(strictly) inside.  (`parity_inside_box_partial` is the instance with six axis-aligned half-spaces.) -/
theorem parity_inside_convex (hs : List (V3 K × K)) (o d : V3 K)
    (hpar : ∀ h ∈ hs, h.1.dot d ≠ 0) (hexit : ∃ h ∈ hs, 0 < h.1.dot d) (horigin : ¬ OnBoundary hs o)
    (hsame : ∀ t, InPoly hs (o.along d t) → ∀ h1 ∈ hs, ∀ h2 ∈ hs, halfVal h1 (o.along d t) = 0 →
      halfVal h2 (o.along d t) = 0 → (0 < h1.1.dot d ↔ 0 < h2.1.dot d))
    (ts : List K) (hnd : ts.Nodup) (hts : ∀ t, t ∈ ts ↔ 0 ≤ t ∧ OnBoundary hs (o.along d t)) :
    ts.length % 2 = 1 ↔ StrictIn hs o :=
  parity_convex hs o d hpar hexit horigin hsame ts hnd hts

/-- **`parity_inside_convex_mesh`** — the same **on the model's hit list of a closed convex triangle mesh**:
`faces` triangulates the boundary of the convex solid cut out by its own (outward oriented) face planes — every
face lies in the solid (`hon`), every surface point lies in some face (`hcover`).  The count returned by the
mesh collider (`JoinedCollider` over `Triangle.RayCollisions`, whatever admitting bounds prefilter) is the
length of the hit list `meshTs`, a parameter is in that list iff `t ≥ 0` and the ray point lies in some face
(Möller–Trumbore, `triangle_hit_iff`), and for a ray in general position (no face plane parallel to it or
rejected as near-parallel, origin not on the surface, no two reported collisions coinciding — the ray meets no
edge shared by two faces) the count is odd iff the origin is inside.
(Non-convex closed meshes: `parity_direction_independent`, `parity_inside_closed_mesh` below.) -/
theorem parity_inside_convex_mesh (sqrtF : K → K) (eps : K) (faces : List (Tri K)) (o d : V3 K)
    (admits : V3 K × V3 K → Bool) (ha : admits (o, d) = true)
    (hon : ∀ F ∈ faces, ∀ x, InTri F x → InPoly (faces.map facePlane) x)
    (hcover : ∀ x, OnBoundary (faces.map facePlane) x → ∃ F ∈ faces, InTri F x)
    (hnp : ∀ F ∈ faces, ¬ triNearPar sqrtF eps F.1 F.2.1 F.2.2 d)
    (hpar : ∀ F ∈ faces, (facePlane F).1.dot d ≠ 0) (hexit : ∃ F ∈ faces, 0 < (facePlane F).1.dot d)
    (horigin : ¬ OnBoundary (faces.map facePlane) o)
    (hsame : ∀ t, InPoly (faces.map facePlane) (o.along d t) → ∀ h1 ∈ faces.map facePlane,
      ∀ h2 ∈ faces.map facePlane, halfVal h1 (o.along d t) = 0 → halfVal h2 (o.along d t) = 0 →
        (0 < h1.1.dot d ↔ 0 < h2.1.dot d))
    (hnd : (meshTs sqrtF eps faces o d).Nodup) :
    (∀ cb, ((joined Hit.t admits (faces.map fun F => triCollider sqrtF eps F.1 F.2.1 F.2.2)).ray (o, d) cb).1 =
        (meshTs sqrtF eps faces o d).length) ∧
    (∀ t, t ∈ meshTs sqrtF eps faces o d ↔ 0 ≤ t ∧ ∃ F ∈ faces, InTri F (o.along d t)) ∧
    ((meshTs sqrtF eps faces o d).length % 2 = 1 ↔ StrictIn (faces.map facePlane) o) :=
  ⟨fun cb => meshTs_length sqrtF eps faces o d admits ha cb,
   fun t => mem_meshTs_iff sqrtF eps faces o d hnp hpar t,
   parity_convex_mesh sqrtF eps faces o d hon hcover hnp hpar hexit horigin hsame hnd⟩

/-- non-vacuity of `parity_inside_convex`: the slab `0 ≤ x ≤ 1` and the ray from `(1/2, 0, 0)` along `+x`: one
reported collision (`t = 1/2`), origin inside. -/
example :
    ([(1 / 2 : ℚ)].length % 2 = 1 ↔
      StrictIn [((⟨1, 0, 0⟩ : V3 ℚ), (1 : ℚ)), (⟨-1, 0, 0⟩, 0)] ⟨1 / 2, 0, 0⟩) := by
  apply parity_inside_convex _ ⟨1 / 2, 0, 0⟩ ⟨1, 0, 0⟩
  · intro h hh
    simp only [List.mem_cons, List.mem_nil_iff, or_false] at hh
    rcases hh with rfl | rfl <;> norm_num [V3.dot]
  · exact ⟨(⟨1, 0, 0⟩, 1), by simp, by norm_num [V3.dot]⟩
  · rintro ⟨_, h, hh, h0⟩
    simp only [List.mem_cons, List.mem_nil_iff, or_false] at hh
    rcases hh with rfl | rfl <;> norm_num [halfVal, V3.dot] at h0
  · intro t _ h1 hh1 h2 hh2 a1 a2
    simp only [List.mem_cons, List.mem_nil_iff, or_false] at hh1 hh2
    rcases hh1 with rfl | rfl <;> rcases hh2 with rfl | rfl <;>
      norm_num [halfVal, V3.dot, V3.along, V3.add, V3.scale] at a1 a2 ⊢ <;> linarith
  · simp
  · intro t
    simp only [OnBoundary, InPoly, List.mem_cons, List.mem_nil_iff, or_false, forall_eq_or_imp,
      forall_eq, exists_eq_or_imp, exists_eq_left, halfVal, V3.dot, V3.along, V3.add, V3.scale]
    constructor
    · rintro rfl; norm_num
    · rintro ⟨h0, ⟨h1, h2⟩, h3 | h3⟩ <;> linarith

/-- **`parity_direction_independent`** — the crossing-number argument **for closed triangle meshes, on the
model's hit list**: for a mesh that is closed (every undirected edge is used by an even number of faces — twice,
once in each direction, for an oriented manifold mesh) and two rays from the same origin `o` with linearly
independent directions `d1`, `d2` in general position, the mesh collider (`JoinedCollider` over
`Triangle.RayCollisions`) reports the **same number of collisions modulo 2** along both.

General position (`faceGP`, for every face): no vertex lies in the plane spanned by the two rays, an edge crossing
that plane does so off the two lines through `o` along `d1` and `d2`, and `o` is not a point of the face; moreover
neither direction is parallel to a face or rejected by the library's near-parallel test.

Proof (`M3d/Lemmas/CollideJordan.lean`): in the wedge coordinates of the plane through the two rays each face
contributes an even number to (edges of the face piercing the open wedge) + (rays meeting the face) — the quadrant
lemma for the segment in which the face meets the plane —, and the edge terms cancel over a closed mesh. -/
theorem parity_direction_independent (sqrtF : K → K) (eps : K) (faces : List (Tri K)) (o d1 d2 : V3 K)
    (admits : V3 K × V3 K → Bool) (ha1 : admits (o, d1) = true) (ha2 : admits (o, d2) = true)
    (hnn : wNN d1 d2 ≠ 0) (hcl : ClosedMesh faces) (hgp : ∀ F ∈ faces, faceGP o d1 d2 F)
    (hnp1 : ∀ F ∈ faces, ¬ triNearPar sqrtF eps F.1 F.2.1 F.2.2 d1)
    (hnp2 : ∀ F ∈ faces, ¬ triNearPar sqrtF eps F.1 F.2.1 F.2.2 d2)
    (hpar1 : ∀ F ∈ faces, (facePlane F).1.dot d1 ≠ 0) (hpar2 : ∀ F ∈ faces, (facePlane F).1.dot d2 ≠ 0) :
    ((joined Hit.t admits (faces.map fun F => triCollider sqrtF eps F.1 F.2.1 F.2.2)).ray (o, d1) false).1 % 2 =
      ((joined Hit.t admits (faces.map fun F => triCollider sqrtF eps F.1 F.2.1 F.2.2)).ray (o, d2) false).1 % 2 := by
  rw [meshTs_length sqrtF eps faces o d1 admits ha1, meshTs_length sqrtF eps faces o d2 admits ha2]
  exact meshTs_parity_indep sqrtF eps faces o d1 d2 hnn hcl hgp hnp1 hnp2 hpar1 hpar2

/-- **`parity_inside_closed_mesh`** — "the count is odd exactly when the ray starts inside", for closed triangle
meshes with the library's own notion of inside: `ColliderContains(c, o, 0)` (even-odd containment along the fixed
direction `cdir`; model `colliderContains`, tied by the `containx` correspondence).  For every ray from `o` that is,
together with the fixed direction, in general position with respect to the closed mesh, the number of reported
collisions is odd iff `ColliderContains` answers `true` — i.e. the answer of `ColliderContains` does not depend on
the direction it happens to use, and every general-position ray agrees with it. -/
theorem parity_inside_closed_mesh (sqrtF : K → K) (eps : K) (faces : List (Tri K)) (o d cdir : V3 K)
    (sphere : V3 K → K → Bool) (admits : V3 K × V3 K → Bool) (ha1 : admits (o, d) = true)
    (ha2 : admits (o, cdir) = true) (hnn : wNN d cdir ≠ 0) (hcl : ClosedMesh faces)
    (hgp : ∀ F ∈ faces, faceGP o d cdir F)
    (hnp1 : ∀ F ∈ faces, ¬ triNearPar sqrtF eps F.1 F.2.1 F.2.2 d)
    (hnp2 : ∀ F ∈ faces, ¬ triNearPar sqrtF eps F.1 F.2.1 F.2.2 cdir)
    (hpar1 : ∀ F ∈ faces, (facePlane F).1.dot d ≠ 0) (hpar2 : ∀ F ∈ faces, (facePlane F).1.dot cdir ≠ 0) :
    ((joined Hit.t admits (faces.map fun F => triCollider sqrtF eps F.1 F.2.1 F.2.2)).ray (o, d) true).1 % 2 = 1 ↔
      colliderContains (joined Hit.t admits (faces.map fun F => triCollider sqrtF eps F.1 F.2.1 F.2.2)).ray
        sphere cdir o 0 = true := by
  have h := parity_direction_independent sqrtF eps faces o d cdir admits ha1 ha2 hnn hcl hgp hnp1 hnp2 hpar1 hpar2
  rw [meshTs_length sqrtF eps faces o d admits ha1 true, ← meshTs_length sqrtF eps faces o d admits ha1 false, h]
  unfold colliderContains
  simp only [lt_self_iff_false, if_false, le_refl, decide_true, Bool.true_or]
  rcases Nat.mod_two_eq_zero_or_one
    ((joined Hit.t admits (faces.map fun F => triCollider sqrtF eps F.1 F.2.1 F.2.2)).ray (o, cdir) false).1 with h0 | h0
  · simp [h0]
  · simp [h0]

/-- non-vacuity: the tetrahedron with the vertices `0, e1, e2, e3` (outward oriented) is a closed mesh, and the
rays from the interior point `(1/8, 1/8, 1/8)` along `(1, 2, 3)` and `(-2, 1, 5)` are in general position with
respect to it (all hypotheses of `parity_direction_independent` that do not involve the square root). -/
example :
    let v0 : V3 ℚ := ⟨0, 0, 0⟩
    let v1 : V3 ℚ := ⟨1, 0, 0⟩
    let v2 : V3 ℚ := ⟨0, 1, 0⟩
    let v3 : V3 ℚ := ⟨0, 0, 1⟩
    let faces : List (Tri ℚ) := [(v0, v2, v1), (v0, v1, v3), (v0, v3, v2), (v1, v2, v3)]
    let o : V3 ℚ := ⟨1/8, 1/8, 1/8⟩
    let d1 : V3 ℚ := ⟨1, 2, 3⟩
    let d2 : V3 ℚ := ⟨-2, 1, 5⟩
    wNN d1 d2 ≠ 0 ∧ ClosedMesh faces ∧ (∀ F ∈ faces, faceGP o d1 d2 F) ∧
      (∀ F ∈ faces, (facePlane F).1.dot d1 ≠ 0) ∧ (∀ F ∈ faces, (facePlane F).1.dot d2 ≠ 0) := by
  intro v0 v1 v2 v3 faces o d1 d2
  refine ⟨by decide +kernel, closedMesh_of_b faces (by decide +kernel), ?_, by decide +kernel, by decide +kernel⟩
  intro F hF
  apply faceGP_of_b
  revert F
  decide +kernel

/-- `Segment.RayCollisions` (2-D) reports a collision iff the ray meets the closed segment (for a ray that is
neither parallel to the segment nor rejected as near-parallel). -/
theorem seg2Hits_length_ind (sqrtF : K → K) (eps : K) (S : Seg K) (o d : V2 K)
    (hnp : ¬ segNearPar sqrtF eps S.1 S.2 d) (hdet : segDet S.1 S.2 d ≠ 0) :
    (seg2Hits sqrtF eps S.1 S.2 o d).length = ind (segHits o d S) := by
  have hpt : ∀ t a, SegEq S.1 S.2 o d t a ↔ o.along d t = segPoint2 S.1 S.2 a := by
    intro t a
    simp only [SegEq, V2.along, segPoint2, V2.add, V2.scale, V2.sub, V2.mk.injEq]
    constructor
    · rintro ⟨h1, h2⟩; exact ⟨h1.symm, h2.symm⟩
    · rintro ⟨h1, h2⟩; exact ⟨h1.symm, h2.symm⟩
  have hlen : (seg2Hits sqrtF eps S.1 S.2 o d).length ≤ 1 := by
    unfold seg2Hits
    split
    · split <;> simp
    · simp
  by_cases hr : segHits o d S
  · rw [ind_true hr]
    obtain ⟨t, a, ht, ha0, ha1, he⟩ := hr
    have hl := (segment2d_hit_iff sqrtF eps S.1 S.2 o d hdet t).2 ⟨hnp, a, (hpt t a).2 he, ha0, ha1, ht⟩
    have : ((seg2Hits sqrtF eps S.1 S.2 o d).map Hit2.t).length = 1 := by rw [hl]; rfl
    simpa using this
  · rw [ind_false hr]
    match hq : seg2Hits sqrtF eps S.1 S.2 o d, hlen with
    | [], _ => rfl
    | [x], _ =>
      exfalso; apply hr
      have hl : (seg2Hits sqrtF eps S.1 S.2 o d).map Hit2.t = [x.t] := by rw [hq]; rfl
      obtain ⟨_, a, he, ha0, ha1, ht⟩ := (segment2d_hit_iff sqrtF eps S.1 S.2 o d hdet x.t).1 hl
      exact ⟨x.t, a, ht, ha0, ha1, (hpt _ _).1 he⟩
    | _ :: _ :: _, hlen => simp at hlen

/-- **`parity_direction_independent_2d`** — the same for `model2d`: for a closed polygon system (every point is
an end point of an even number of segments) and two rays from the same origin with independent directions in
general position (no vertex on the two lines through `o` along `d1`, `d2`; `o` on no segment; neither direction
parallel to a segment or rejected as near-parallel), the 2-D mesh collider (`JoinedCollider` over
`Segment.RayCollisions`) reports the same number of collisions modulo 2 along both rays — so `model2d`'s
`ColliderContains` (and the `Solid2D` of `ProfileCollider`) does not depend on the direction it uses. -/
theorem parity_direction_independent_2d (sqrtF : K → K) (eps : K) (segs : List (Seg K)) (o d1 d2 : V2 K)
    (admits : V2 K × V2 K → Bool) (ha1 : admits (o, d1) = true) (ha2 : admits (o, d2) = true)
    (hdet : w2Det d1 d2 ≠ 0) (hcl : ClosedPoly segs) (hgp : ∀ S ∈ segs, segGP o d1 d2 S)
    (hnp1 : ∀ S ∈ segs, ¬ segNearPar sqrtF eps S.1 S.2 d1) (hnp2 : ∀ S ∈ segs, ¬ segNearPar sqrtF eps S.1 S.2 d2)
    (hpar1 : ∀ S ∈ segs, segDet S.1 S.2 d1 ≠ 0) (hpar2 : ∀ S ∈ segs, segDet S.1 S.2 d2 ≠ 0) :
    ((joined Hit2.t admits (segs.map fun S => seg2Collider sqrtF eps S.1 S.2)).ray (o, d1) false).1 % 2 =
      ((joined Hit2.t admits (segs.map fun S => seg2Collider sqrtF eps S.1 S.2)).ray (o, d2) false).1 % 2 := by
  have hcount : ∀ d, admits (o, d) = true → (∀ S ∈ segs, ¬ segNearPar sqrtF eps S.1 S.2 d) →
      (∀ S ∈ segs, segDet S.1 S.2 d ≠ 0) →
      ((joined Hit2.t admits (segs.map fun S => seg2Collider sqrtF eps S.1 S.2)).ray (o, d) false).1 =
        (segs.map fun S => ind (segHits o d S)).sum := by
    intro d ha hnp hpar
    show (joinedRay admits _ (o, d) false).1 = _
    rw [joinedRay_eq admits _ (o, d) false ha]
    simp only [List.map_map]
    congr 1
    apply List.map_congr_left
    intro S hS
    exact seg2Hits_length_ind sqrtF eps S o d (hnp S hS) (hpar S hS)
  rw [hcount d1 ha1 hnp1 hpar1, hcount d2 ha2 hnp2 hpar2]
  have := wedge_parity2 o d1 d2 hdet segs hgp hcl
  omega

/-- non-vacuity (2-D): the unit square is a closed polygon, and the rays from `(1/3, 1/4)` along `(1, 2)` and
`(-3, 1)` are in general position with respect to it. -/
example :
    let p0 : V2 ℚ := ⟨0, 0⟩
    let p1 : V2 ℚ := ⟨1, 0⟩
    let p2 : V2 ℚ := ⟨1, 1⟩
    let p3 : V2 ℚ := ⟨0, 1⟩
    let segs : List (Seg ℚ) := [(p0, p1), (p1, p2), (p2, p3), (p3, p0)]
    let o : V2 ℚ := ⟨1/3, 1/4⟩
    let d1 : V2 ℚ := ⟨1, 2⟩
    let d2 : V2 ℚ := ⟨-3, 1⟩
    w2Det d1 d2 ≠ 0 ∧ ClosedPoly segs ∧ (∀ S ∈ segs, segGP o d1 d2 S) ∧
      (∀ S ∈ segs, segDet S.1 S.2 d1 ≠ 0) ∧ (∀ S ∈ segs, segDet S.1 S.2 d2 ≠ 0) := by
  intro p0 p1 p2 p3 segs o d1 d2
  refine ⟨by decide +kernel, closedPoly_of_b segs (by decide +kernel), ?_, by decide +kernel, by decide +kernel⟩
  intro S hS
  apply segGP_of_b
  revert S
  decide +kernel

/-! ## (4) ball queries -/

/-- **`ball_touches_iff`, 2-D `Segment.CircleCollision`** (end-point / interior-projection cases): true iff
some point of the segment is at distance `< r` from the centre (the library's convention for segments and
triangles is the *open* ball), for a non-degenerate segment and `r ≥ 0`. -/
theorem ball_touches_iff_segment2d {sqrtF : K → K} (hs : SqrtOK sqrtF) (s0 s1 c : V2 K) (r : K) (hr : 0 ≤ r)
    (hne : (s1.sub s0).dot (s1.sub s0) ≠ 0) :
    seg2Circle sqrtF s0 s1 c r = true ↔
      ∃ lam, 0 ≤ lam ∧ lam ≤ 1 ∧ (s0.add ((s1.sub s0).scale lam)).distSq c < r * r :=
  seg2Circle_iff hs s0 s1 c r hr hne

/-- **`ball_touches_iff`, primitives with `SphereCollision = |SDF| ≤ r`, instance `Sphere`/`Circle`**:
`|R - dist(c, center)| ≤ r` iff some point of the sphere's surface is within distance `r` of `c` (closed
ball).  (For Rect/Capsule/Cylinder/Cone/Torus the same statement follows from exactness of their SDF — C06.) -/
theorem ball_touches_iff_sphere {sqrtF : K → K} (hs : SqrtOK sqrtF) (center : V3 K) (R : K) (c : V3 K) (r : K)
    (hR : 0 ≤ R) (hr : 0 ≤ r) :
    |R - c.dist sqrtF center| ≤ r ↔ ∃ p : V3 K, p.distSq center = R * R ∧ p.distSq c ≤ r * r :=
  sphere_ball_iff hs center R c r hR hr

/-- **`ball_touches_iff`, `Triangle.SphereCollision`** — the vertex / edge / face case analysis *is* the
squared distance to the triangle: the sqrt-free predicate `triBallSpec` ("an end point or the foot of the
perpendicular on an edge is within `q`, or the foot of the perpendicular on the plane has barycentric
coordinates in range and the plane is within `q`"; `q = r²`) holds iff some point `a + u(b-a) + v(c-a)`,
`u, v ≥ 0`, `u + v ≤ 1`, of the (non-degenerate) triangle has squared distance `< q` from the centre.  The
closest-point lemma it rests on (`tri_closest_gram`, `exit_param`) is proved, not assumed.  The Go method
(`triSphere`, which takes square roots and reuses `rayCollision` along the normal for the face case) is
compared with `triBallSpec` on every `ballx` case of the correspondence, at `Rat`, and the line is refused
(`MODEL-NE-SPEC`) if they differ. -/
theorem ball_touches_iff_triangle (a b c ctr : V3 K) (q : K)
    (hnd : ((b.sub a).cross (c.sub a)).dot ((b.sub a).cross (c.sub a)) ≠ 0) :
    triBallSpec a b c ctr q = true ↔
      ∃ u v, 0 ≤ u ∧ 0 ≤ v ∧ u + v ≤ 1 ∧ (triPoint a b c u v).distSq ctr < q :=
  triBallSpec_iff a b c ctr q hnd

/-- … and the edge case alone: `segBallSpec` holds iff some point of the segment is within `q`. -/
theorem ball_touches_iff_segment3d (p1 p2 ctr : V3 K) (q : K) (hne : (p2.sub p1).dot (p2.sub p1) ≠ 0) :
    segBallSpec p1 p2 ctr q = true ↔
      ∃ lam, 0 ≤ lam ∧ lam ≤ 1 ∧ (p1.add ((p2.sub p1).scale lam)).distSq ctr < q :=
  segBallSpec_iff p1 p2 ctr q hne

/-! ## (5) ball / circle queries against transformed colliders

`TransformCollider(t, c)` for a `DistTransform` `t`: `Tf.Xf` / `Tf.Xf2` are the models of the transforms of
`model3d/transform.go` / `model2d/transform.go` (shared with C05), `Tf.Xf.DistValid t` says that `t` is built
from translations, uniform scales with a non-zero factor of either sign, orthogonal matrices (rotations,
reflections) and `JoinedTransform`s of those (nested too) — everything `TransformCollider` accepts without
panicking —, and `t.factor > 0` is the factor by which `t` multiplies distances (`ApplyDistance d = d·factor`). -/

/-- **`transformed_ball_query`** — `transformedCollider.SphereCollision(c, r)` / `CircleCollision` ask the
wrapped collider about the inverse-mapped centre with the radius **divided** by the distance factor of `t`
(which is positive).  (A radius converted with the forward transform would be `r·factor`, off by `factor²`.) -/
theorem transformed_ball_query (t : Tf.Xf K) (h : t.DistValid) (sph : V3 K → K → Bool) (t2 : Tf.Xf2 K)
    (h2 : t2.DistValid) (circ : V2 K → K → Bool) :
    (0 < t.factor ∧ ∀ p r, tSphere t sph p r = sph (xfApply t.inverse p) (r / t.factor)) ∧
    (0 < t2.factor ∧ ∀ p r, tCircle t2 circ p r = circ (xf2Apply t2.inverse p) (r / t2.factor)) :=
  ⟨⟨Tf.Xf.factor_pos t h, fun p r => tSphere_eq t h sph p r⟩,
   ⟨Tf.Xf2.factor_pos t2 h2, fun p r => tCircle_eq t2 h2 circ p r⟩⟩

/-- **`transformed_ball_touches_iff`** — if the wrapped collider's ball query answers "touching" exactly when
its surface `S` has a point within `ρ` of the query centre (open ball `<`, the convention of triangles,
segments and meshes; or closed ball `≤`, the convention of the `|SDF| ≤ r` primitives), for every centre and
every `ρ ≥ 0`, then the transformed collider's ball query answers "touching" exactly when the **image surface**
`t(S)` has a point within `r` of the centre — for every similarity `t`, centre and `r ≥ 0`. -/
theorem transformed_ball_touches_iff (t : Tf.Xf K) (h : t.DistValid) (S : V3 K → Prop) (sph : V3 K → K → Bool)
    (p : V3 K) (r : K) (hr : 0 ≤ r) :
    ((∀ q ρ, 0 ≤ ρ → (sph q ρ = true ↔ ∃ x, S x ∧ x.distSq q < ρ * ρ)) →
      (tSphere t sph p r = true ↔ ∃ x, S x ∧ (xfApply t x).distSq p < r * r)) ∧
    ((∀ q ρ, 0 ≤ ρ → (sph q ρ = true ↔ ∃ x, S x ∧ x.distSq q ≤ ρ * ρ)) →
      (tSphere t sph p r = true ↔ ∃ x, S x ∧ (xfApply t x).distSq p ≤ r * r)) :=
  ⟨fun hs => tSphere_touch_lt t h S sph hs p r hr, fun hs => tSphere_touch_le t h S sph hs p r hr⟩

/-- … the same for 2-D `transformedCollider.CircleCollision`. -/
theorem transformed_circle_touches_iff (t : Tf.Xf2 K) (h : t.DistValid) (S : V2 K → Prop)
    (circ : V2 K → K → Bool) (p : V2 K) (r : K) (hr : 0 ≤ r) :
    ((∀ q ρ, 0 ≤ ρ → (circ q ρ = true ↔ ∃ x, S x ∧ x.distSq q < ρ * ρ)) →
      (tCircle t circ p r = true ↔ ∃ x, S x ∧ (xf2Apply t x).distSq p < r * r)) ∧
    ((∀ q ρ, 0 ≤ ρ → (circ q ρ = true ↔ ∃ x, S x ∧ x.distSq q ≤ ρ * ρ)) →
      (tCircle t circ p r = true ↔ ∃ x, S x ∧ (xf2Apply t x).distSq p ≤ r * r)) :=
  ⟨fun hs => tCircle_touch_lt t h S circ hs p r hr, fun hs => tCircle_touch_le t h S circ hs p r hr⟩

/-- **`transformed_ball_touches_iff_triangle`** (what the `tballx` correspondence compares with) — a triangle
behind a `transformedCollider`: the wrapped triangle's vertex/edge/face analysis `triBallSpec`, asked as
`transformedCollider.SphereCollision` asks it (centre `t⁻¹(p)`, radius `t⁻¹.ApplyDistance(r)`), equals the same
analysis of the **image triangle** `t(a) t(b) t(c)` for the ball `(p, r)` itself, and both hold iff some point
of the image triangle is at squared distance `< r²` from `p`. -/
theorem transformed_ball_touches_iff_triangle (t : Tf.Xf K) (h : t.DistValid) (a b c p : V3 K) (r : K)
    (hnd : ((b.sub a).cross (c.sub a)).dot ((b.sub a).cross (c.sub a)) ≠ 0) :
    tSphere t (fun q ρ => triBallSpec a b c q (ρ * ρ)) p r =
        triBallSpec (xfApply t a) (xfApply t b) (xfApply t c) p (r * r) ∧
    (triBallSpec (xfApply t a) (xfApply t b) (xfApply t c) p (r * r) = true ↔
      ∃ u v, 0 ≤ u ∧ 0 ≤ v ∧ u + v ≤ 1 ∧ (xfApply t (triPoint a b c u v)).distSq p < r * r) := by
  constructor
  · rw [tSphere_eq t h, ← triBallSpec_image t h a b c p (r * r) hnd, div_mul_div_comm]
  · rw [triBallSpec_iff _ _ _ _ _ (tri_image_nondeg t h a b c hnd)]
    refine exists_congr fun u => exists_congr fun v => ?_
    rw [xfApply_triPoint t (Tf.Xf.distValid_affine t h)]

/-- **`transformed_circle_touches_iff_segment2d`** (`tcircx`) — the 2-D analogue for a segment behind a 2-D
`transformedCollider`: the pulled-back circle test of the wrapped segment = the circle test of the image
segment = some point of the image segment is at squared distance `< r²`. -/
theorem transformed_circle_touches_iff_segment2d (t : Tf.Xf2 K) (h : t.DistValid) (s0 s1 p : V2 K) (r : K)
    (hne : (s1.sub s0).dot (s1.sub s0) ≠ 0) :
    tCircle t (fun q ρ => seg2BallSpec s0 s1 q (ρ * ρ)) p r =
        seg2BallSpec (xf2Apply t s0) (xf2Apply t s1) p (r * r) ∧
    (seg2BallSpec (xf2Apply t s0) (xf2Apply t s1) p (r * r) = true ↔
      ∃ lam, 0 ≤ lam ∧ lam ≤ 1 ∧ (xf2Apply t (segPoint2 s0 s1 lam)).distSq p < r * r) := by
  constructor
  · rw [tCircle_eq t h, ← seg2BallSpec_image t h s0 s1 p (r * r) hne, div_mul_div_comm]
  · rw [seg2BallSpec_iff _ _ _ _ (seg2_image_nondeg t h s0 s1 hne)]
    refine exists_congr fun lam => ?_
    rw [xf2Apply_segPoint t]

/-- `seg2BallSpec` (the sqrt-free specification the `circx` / `tcircx` kinds print) decides "some point of the
2-D segment is at squared distance `< q`". -/
theorem ball_touches_iff_segment2d_spec (p1 p2 ctr : V2 K) (q : K) (hne : (p2.sub p1).dot (p2.sub p1) ≠ 0) :
    seg2BallSpec p1 p2 ctr q = true ↔ ∃ lam, 0 ≤ lam ∧ lam ≤ 1 ∧ (segPoint2 p1 p2 lam).distSq ctr < q :=
  seg2BallSpec_iff p1 p2 ctr q hne

/-- **`transformed_ball_touches_iff_sphere`** (`tsphx`) — `Sphere.SphereCollision` (`|R - dist| ≤ r`, with the
square root) behind a `transformedCollider` equals the sqrt-free sphere/ball test of the **image sphere**
(centre `t(center)`, radius `ApplyDistance(R) = R·factor`), and holds iff some point of the image of the sphere's
surface is within `r` (closed ball) of `p`. -/
theorem transformed_ball_touches_iff_sphere {sqrtF : K → K} (hs : SqrtOK sqrtF) (t : Tf.Xf K) (h : t.DistValid)
    (center p : V3 K) (R r : K) (hR : 0 ≤ R) (hr : 0 ≤ r) :
    tSphere t (sphereBall sqrtF center R) p r =
        ballSphereSpec (p.distSq (xfApply t center)) (t.applyDistance R) r ∧
    (tSphere t (sphereBall sqrtF center R) p r = true ↔
      ∃ x : V3 K, x.distSq center = R * R ∧ (xfApply t x).distSq p ≤ r * r) := by
  refine ⟨sphereBall_image hs t h center p R r hR hr, ?_⟩
  refine tSphere_touch_le t h (fun x => x.distSq center = R * R) _ (fun q ρ hρ => ?_) p r hr
  rw [sphereBall_iff]
  exact sphere_ball_iff hs center R q ρ hR hρ

/-- **`transformed_circle_touches_iff_circle2d`** (`tcirc2x`) — `Circle.CircleCollision` behind a 2-D
`transformedCollider` equals the sqrt-free circle/disc test of the image circle, which is
`|R·factor - dist(p, t(center))| ≤ r`. -/
theorem transformed_circle_touches_iff_circle2d {sqrtF : K → K} (hs : SqrtOK sqrtF) (t : Tf.Xf2 K)
    (h : t.DistValid) (center p : V2 K) (R r : K) (hR : 0 ≤ R) (hr : 0 ≤ r) :
    tCircle t (circleBall sqrtF center R) p r =
        ballSphereSpec (p.distSq (xf2Apply t center)) (t.applyDistance R) r ∧
    (ballSphereSpec (p.distSq (xf2Apply t center)) (t.applyDistance R) r = true ↔
      |R * t.factor - p.dist sqrtF (xf2Apply t center)| ≤ r) := by
  refine ⟨circleBall_image hs t h center p R r hR hr, ?_⟩
  rw [Tf.Xf2.applyDistance_eq]
  exact ballSphereSpec_iff hs _ _ _ (V2.distSq_nonneg _ _) (mul_nonneg hR (Tf.Xf2.factor_pos t h).le) hr

/-- **`joined_ball_any`** — `JoinedCollider.SphereCollision` / `CircleCollision` (mesh colliders): a `true`
answer means some child answered `true` (whatever the bounding-box prefilter says), and with a prefilter that
admits every ball some child accepts (soundness of `sphereTouchesBounds`: C08) it is exactly "some child". -/
theorem joined_ball_any {P : Type} (admits : P → K → Bool) (parts : List (P → K → Bool)) (c : P) (r : K) :
    (joinedBall admits parts c r = true → ∃ s ∈ parts, s c r = true) ∧
    ((∀ s ∈ parts, s c r = true → admits c r = true) →
      (joinedBall admits parts c r = true ↔ ∃ s ∈ parts, s c r = true)) :=
  joinedBall_spec admits parts c r

/-- non-vacuity: `Scale(-2)` then a quarter turn about `z` then a translation is a valid `DistTransform` with
factor 2; the unit right triangle is mapped to a triangle in the plane `z = 3`; a ball of radius `3/2` centred
`2` above the image does not touch, radius `5/2` does — whereas the radius converted with the forward factor
(`r·2` instead of `r/2`) would answer "touching" for `3/2` as well. -/
example :
    let t : Tf.Xf ℚ := .jcons (.scale (-2)) (.jcons (.ortho ⟨0, -1, 0, 1, 0, 0, 0, 0, 1⟩) (.jcons (.translate ⟨1, 1, 3⟩) .jnil))
    let tri := fun (q : V3 ℚ) (ρ : ℚ) => triBallSpec ⟨0, 0, 0⟩ ⟨1, 0, 0⟩ ⟨0, 1, 0⟩ q (ρ * ρ)
    t.applyDistance 1 = 2 ∧ ((xfApply t ⟨1, 0, 0⟩).x, (xfApply t ⟨1, 0, 0⟩).y, (xfApply t ⟨1, 0, 0⟩).z) = (1, -1, 3) ∧
    tSphere t tri ⟨3/2, 1/2, 5⟩ (3/2) = false ∧ tSphere t tri ⟨3/2, 1/2, 5⟩ (5/2) = true ∧
    tri (xfApply t.inverse ⟨3/2, 1/2, 5⟩) (t.applyDistance (3/2)) = true := by
  refine ⟨?_, ?_, ?_, ?_, ?_⟩ <;> decide +kernel

example : (Tf.Xf.jcons (.scale (-2 : ℚ)) (.jcons (.ortho ⟨0, -1, 0, 1, 0, 0, 0, 0, 1⟩)
    (.jcons (.translate ⟨1, 1, 3⟩) .jnil))).DistValid := by
  refine ⟨by show (-2 : ℚ) ≠ 0; norm_num, ?_, trivial, trivial⟩
  show Tf.M3.mul _ _ = Tf.M3.one
  simp [Tf.M3.mul, Tf.M3.transpose, Tf.M3.one]

/-- the sphere/ball specification: a sphere of radius 2 and a ball whose centre is at distance 5 -/
example :
    ballSphereSpec (25 : ℚ) 2 3 = true ∧ ballSphereSpec (25 : ℚ) 2 (5/2) = false ∧
    ballSphereSpec (1 : ℚ) 2 1 = true ∧ ballSphereSpec (1 : ℚ) 2 (1/2) = false ∧ ballSphereSpec (0 : ℚ) 2 3 = true := by
  refine ⟨?_, ?_, ?_, ?_, ?_⟩ <;> decide +kernel

/-! ## (6) box and triangle queries

"… segment, box and triangle queries answer 'touching' exactly when the surface and the query shape actually
intersect."  Models: `M3d/Model/CollideQuery.lean`. -/

/-- **`rect_touches_iff_segment2d_spec`** — the decidable, tolerance-free predicate `seg2RectSpec` that the `rect2x`
correspondence prints is "some point `s0 + λ(s1 - s0)`, `0 ≤ λ ≤ 1`, of the segment lies in the closed box
`[lo, hi]`".  (No hypotheses: degenerate segments and boxes included.) -/
theorem rect_touches_iff_segment2d_spec (s0 s1 lo hi : V2 K) :
    seg2RectSpec s0 s1 lo hi = true ↔ ∃ lam, 0 ≤ lam ∧ lam ≤ 1 ∧ InRect2 lo hi (segPoint2 s0 s1 lam) :=
  seg2RectSpec_iff s0 s1 lo hi

/-- **`rect_touches_iff_segment2d`** — the Go method `model2d.Segment.RectCollision` (bounding-box rejection, an end
point inside, a crossing with one of the four sides found by `Segment.SegmentCollision` / `rayCollision`) answers
"touching" iff some point of the segment lies in the closed box: for a segment with distinct end points, a
rectangle with positive width and height, `eps > 0`, and provided no side of the rectangle that is not exactly
parallel to the segment is rejected by the library's near-parallel test (`|det| < 1e-8·|v|·|d|`).  (A point moving
along the segment from outside to inside the box passes through a side — `first_entry`.) -/
theorem rect_touches_iff_segment2d {sqrtF : K → K} (hs : SqrtOK sqrtF) (eps : K) (heps : 0 < eps)
    (s0 s1 lo hi : V2 K) (hv : (s1.sub s0).dot (s1.sub s0) ≠ 0) (hx : lo.x < hi.x) (hy : lo.y < hi.y)
    (hnp : ∀ q ∈ rectSides lo hi, segDet s0 s1 (q.2.sub q.1) ≠ 0 → ¬ segNearPar sqrtF eps s0 s1 (q.2.sub q.1)) :
    seg2Rect sqrtF eps s0 s1 lo hi = true ↔ ∃ lam, 0 ≤ lam ∧ lam ≤ 1 ∧ InRect2 lo hi (segPoint2 s0 s1 lam) :=
  seg2Rect_iff hs eps heps s0 s1 lo hi hv hx hy hnp

/-- **`rect_bounds_test_iff`** — the bounds test of `joinedMultiCollider.RectCollision`
(`min := r.MinVal.Max(j.min); max := r.MaxVal.Min(j.max); min.Min(max) != min → false`) lets the query pass iff the
closed query box and the closed bounding box of the node have a point in common — *also when that common part has
no area* (a node that holds collinear axis-aligned segments has a bounding box without area). -/
theorem rect_bounds_test_iff (lo hi jlo jhi : V2 K) :
    rectOverlap2 lo hi jlo jhi = true ↔ ∃ x, InRect2 lo hi x ∧ InRect2 jlo jhi x :=
  rectOverlap2_iff lo hi jlo jhi

/-- **`mesh_rect_touches_iff`** — the 2-D mesh colliders (`MeshToCollider`, `GroupedSegmentsToCollider`,
`BVHToCollider`: any binary hierarchy `t` of `joinedMultiCollider`s over the segments, each node with the bounds
`NewJoinedCollider` computes and the bounds test above) answer `RectCollision(lo, hi)` = true **iff some segment of
the mesh has a point in the closed box** — whatever the hierarchy.  Hypotheses per segment as in
`rect_touches_iff_segment2d`. -/
theorem mesh_rect_touches_iff {sqrtF : K → K} (hs : SqrtOK sqrtF) (eps : K) (heps : 0 < eps) (t : BTree (Seg K))
    (lo hi : V2 K) (hx : lo.x < hi.x) (hy : lo.y < hi.y)
    (hnd : ∀ S ∈ t.leaves, (S.2.sub S.1).dot (S.2.sub S.1) ≠ 0)
    (hnp : ∀ S ∈ t.leaves, ∀ q ∈ rectSides lo hi, segDet S.1 S.2 (q.2.sub q.1) ≠ 0 →
      ¬ segNearPar sqrtF eps S.1 S.2 (q.2.sub q.1)) :
    meshRect2 sqrtF eps t lo hi = true ↔
      ∃ S ∈ t.leaves, ∃ lam, 0 ≤ lam ∧ lam ≤ 1 ∧ InRect2 lo hi (segPoint2 S.1 S.2 lam) := by
  unfold meshRect2
  rw [treeRect2_iff (fun s : Seg K => s.1.min s.2) (fun s => s.1.max s.2) (fun s => seg2Rect sqrtF eps s.1 s.2)
    (fun S x => ∃ lam, 0 ≤ lam ∧ lam ≤ 1 ∧ x = segPoint2 S.1 S.2 lam) t lo hi]
  · constructor
    · rintro ⟨S, hS, h⟩
      exact ⟨S, hS, (seg2Rect_iff hs eps heps S.1 S.2 lo hi (hnd S hS) hx hy (hnp S hS)).1 h⟩
    · rintro ⟨S, hS, h⟩
      exact ⟨S, hS, (seg2Rect_iff hs eps heps S.1 S.2 lo hi (hnd S hS) hx hy (hnp S hS)).2 h⟩
  · rintro S _ x ⟨lam, h0, h1, rfl⟩
    exact segPoint2_in_bounds S.1 S.2 lam h0 h1
  · intro S hS h
    obtain ⟨lam, h0, h1, hb⟩ := (seg2Rect_iff hs eps heps S.1 S.2 lo hi (hnd S hS) hx hy (hnp S hS)).1 h
    exact ⟨_, ⟨lam, h0, h1, rfl⟩, hb⟩

/-- **`triangle_collisions_iff`** (`Triangle.TriangleCollisions`, the computation between the co-planarity test and
the vertex filter: the line `o + t·d` of the solutions of `a·v1 + b·v2 + t[0] = c·v3 + d·v4 + t1[0]` through the
inverse of `[v1 v2 -v3]` resp. `[v1 v2 -v4]`, the two calls of `findContainedRange`, the intersection of the two
parameter ranges).  For two triangles whose planes are not parallel:
* if it yields the end points `(p1, p2)`, then **the common points of the two closed triangles are exactly the points
  of the segment `p1 p2`**, and `p1 ≠ p2` when the second triangle has an area;
* if it yields nothing, the two triangles have **at most one point in common**.
In particular two triangles that share exactly one vertex and cut through each other along a segment starting at
that vertex are reported with that segment. -/
theorem triangle_collisions_iff (a b c a' b' c' : V3 K)
    (hnp : ((b.sub a).cross (c.sub a)).dot (b'.sub a') ≠ 0 ∨ ((b.sub a).cross (c.sub a)).dot (c'.sub a') ≠ 0) :
    (∀ p1 p2, triTriCore a b c a' b' c' = some (p1, p2) →
      (∀ x, (InTri (a, b, c) x ∧ InTri (a', b', c') x) ↔
        ∃ s, 0 ≤ s ∧ s ≤ 1 ∧ x = p1.add ((p2.sub p1).scale s)) ∧
      (((b'.sub a').cross (c'.sub a')).dot ((b'.sub a').cross (c'.sub a')) ≠ 0 → p1 ≠ p2)) ∧
    (triTriCore a b c a' b' c' = none →
      ∀ x y, InTri (a, b, c) x ∧ InTri (a', b', c') x → InTri (a, b, c) y ∧ InTri (a', b', c') y → x = y) :=
  ⟨fun p1 p2 h => ⟨fun x => triTriCore_some a b c a' b' c' hnp p1 p2 h x,
      fun hnd => triTriCore_ne a b c a' b' c' hnp hnd p1 p2 h⟩,
   fun h x y hx hy => triTriCore_none a b c a' b' c' hnp h x y hx hy⟩

/-- **`triangle_collisions_report`** — what the method makes of that computation.  A segment is returned only as
`NewSegment(p1, p2)` of the computed end points, and then the two triangles have at most one common vertex, both have
an area, are not (nearly) co-planar — so their planes are not parallel and `triangle_collisions_iff` applies.
Nothing is returned in exactly these situations: two or three common vertices (neighbours across an edge, see
`triangle_shared_edge_only`); a triangle without area; (nearly) co-planar triangles, `|n1·n2| > 1 - 1e-8`, as
documented; the computation yields nothing; or the computed segment is shorter than `1e-8` times both `|v1|` and
`|v2|` ("don't report collisions at a vertex").  Triangles in exactly parallel planes are always rejected by the
co-planarity test. -/
theorem triangle_collisions_report {sqrtF : K → K} (hs : SqrtOK sqrtF) (eps : K) (heps : 0 < eps) (t t1 : Tri K) :
    (∀ s, triTri sqrtF eps t t1 = some s →
      triInCommon t t1 ≤ 1 ∧ (triCross t).dot (triCross t) ≠ 0 ∧ (triCross t1).dot (triCross t1) ≠ 0 ∧
      ¬ triNearCoplanar sqrtF eps t t1 ∧
      ((triCross t).dot (t1.2.1.sub t1.1) ≠ 0 ∨ (triCross t).dot (t1.2.2.sub t1.1) ≠ 0) ∧
      ∃ p1 p2, triTriCore t.1 t.2.1 t.2.2 t1.1 t1.2.1 t1.2.2 = some (p1, p2) ∧ s = newSegment p1 p2 ∧
        (s = (p1, p2) ∨ s = (p2, p1))) ∧
    (triTri sqrtF eps t t1 = none →
      2 ≤ triInCommon t t1 ∨ (triCross t).dot (triCross t) = 0 ∨ (triCross t1).dot (triCross t1) = 0 ∨
      triNearCoplanar sqrtF eps t t1 ∨ triTriCore t.1 t.2.1 t.2.2 t1.1 t1.2.1 t1.2.2 = none ∨
      ∃ p1 p2, triTriCore t.1 t.2.1 t.2.2 t1.1 t1.2.1 t1.2.2 = some (p1, p2) ∧
        p1.dist sqrtF p2 < (t.2.1.sub t.1).norm sqrtF * eps ∧ p1.dist sqrtF p2 < (t.2.2.sub t.1).norm sqrtF * eps) ∧
    ((triCross t).dot (triCross t) ≠ 0 → (triCross t1).dot (triCross t1) ≠ 0 →
      (triCross t).dot (t1.2.1.sub t1.1) = 0 → (triCross t).dot (t1.2.2.sub t1.1) = 0 →
      triNearCoplanar sqrtF eps t t1) := by
  refine ⟨fun s h => ?_, (triTri_cases sqrtF eps t t1).2, triNearCoplanar_of_parallel hs eps heps t t1⟩
  obtain ⟨g0, g1, g2, g3, p1, p2, hc, hsn⟩ := (triTri_cases sqrtF eps t t1).1 s h
  refine ⟨g0, g1, g2, g3, triTri_some_common hs eps heps t t1 s h, p1, p2, hc, hsn, ?_⟩
  rw [hsn]; unfold newSegment; split
  · exact Or.inl rfl
  · exact Or.inr rfl

/-- **`triangle_shared_edge_only`** — the early exit for neighbours: two triangles `(a, b, c)`, `(a, b, c')` with a
common edge whose planes differ have only points of that edge in common (so nothing but the shared edge is lost
by `inCommon > 1 → nil`).  One common *vertex* does not have this property — see the example below. -/
theorem triangle_shared_edge_only (a b c c' : V3 K) (hnp : ((b.sub a).cross (c.sub a)).dot (c'.sub a) ≠ 0)
    (x : V3 K) (h1 : InTri (a, b, c) x) (h2 : InTri (a, b, c') x) :
    ∃ s, 0 ≤ s ∧ s ≤ 1 ∧ x = a.add ((b.sub a).scale s) :=
  shared_edge_only a b c c' hnp x h1 h2

/-- **`mesh_triangle_collisions`** — the 3-D mesh colliders (`MeshToCollider`, `GroupedTrianglesToCollider`,
`BVHToCollider`: any binary hierarchy of `joinedMultiCollider`s over the triangles, with the bounds of
`NewJoinedCollider` and the bounds test `t.Min().Max(j.min) ≤ t.Max().Min(j.max)`) return for a query triangle `q`
**the concatenation of what the mesh triangles return**, in the order of the hierarchy — no sub-tree that holds a
triangle reporting a segment is pruned (a reported segment consists of common points, which lie in the bounding
boxes of both triangles).  So the number of segments is the number of mesh triangles that report one. -/
theorem mesh_triangle_collisions {sqrtF : K → K} (hs : SqrtOK sqrtF) (eps : K) (heps : 0 < eps)
    (t : BTree (Tri K)) (q : Tri K) :
    meshTriTri sqrtF eps t q = t.leaves.flatMap (fun T => (triTri sqrtF eps T q).toList) := by
  unfold meshTriTri
  apply treeTriTri_eq triMin triMax _ (fun T x => InTri T x) (triMin q) (triMax q) t
  · intro T _ x hx; exact inTri_in_bounds T x hx
  · intro T _ hne
    cases hq : triTri sqrtF eps T q with
    | none => rw [hq] at hne; exact absurd rfl hne
    | some s =>
      have hnp := triTri_some_common hs eps heps T q s hq
      obtain ⟨_, _, _, _, p1, p2, hc, _⟩ := (triTri_cases sqrtF eps T q).1 s hq
      have hcom := (triTriCore_some T.1 T.2.1 T.2.2 q.1 q.2.1 q.2.2 hnp p1 p2 hc p1).2
        ⟨0, le_rfl, zero_le_one, by simp [V3.add, V3.scale]⟩
      exact ⟨p1, hcom.1, inTri_in_bounds q p1 hcom.2⟩

/-- **`joined_tree_any`** — every Boolean query of `joinedMultiCollider` (`SegmentCollision`, `RectCollision`, 2-D
and 3-D: the node's bounds test, then the children in order) over any hierarchy is the disjunction of the leaves'
answers, provided no bounds test rejects a node holding a leaf that answers true. -/
theorem joined_tree_any {L : Type} (gate : BTree L → Bool) (leafQ : L → Bool) (t : BTree L)
    (hadm : ∀ n : BTree L, (∀ l ∈ n.leaves, l ∈ t.leaves) → ∀ l ∈ n.leaves, leafQ l = true → gate n = true) :
    treeAny gate leafQ t = true ↔ ∃ l ∈ t.leaves, leafQ l = true :=
  treeAny_iff gate leafQ t hadm

/-- **`rect_bounds_test_iff_3d`** — the bounds test of the 3-D `joinedMultiCollider.RectCollision` passes iff the closed
query box and the node's closed bounding box share a point, also when the common part has no volume (nodes holding
co-planar axis-aligned triangles).  With `joined_tree_any`: the 3-D mesh colliders' `RectCollision` is "some triangle's
`RectCollision`" as soon as a triangle that answers true has a point in the box (`Triangle.RectCollision` itself is not
modelled; the harness compares the meshes' answers with an exact clipping, `c07:ball-touches/mesh-rect`). -/
theorem rect_bounds_test_iff_3d (lo hi jlo jhi : V3 K) :
    rectOverlap3 lo hi jlo jhi = true ↔ ∃ x, InBox lo hi x ∧ InBox jlo jhi x :=
  rectOverlap3_iff lo hi jlo jhi

/-- **`segment_touches_iff_triangle`** — `Triangle.SegmentCollision(s0, s1)` answers "touching" iff the segment is not
rejected as near-parallel to the triangle's plane, is not exactly parallel to it, and some point `s0 + t(s1 - s0)`,
`0 ≤ t ≤ 1`, is a point `a + u(b-a) + v(c-a)`, `u, v ≥ 0`, `u + v ≤ 1`, of the triangle. -/
theorem segment_touches_iff_triangle (sqrtF : K → K) (eps : K) (a b c s0 s1 : V3 K) :
    triSegment sqrtF eps a b c s0 s1 = true ↔
      ¬ triNearPar sqrtF eps a b c (s1.sub s0) ∧ triDet a b c (s1.sub s0) ≠ 0 ∧
        ∃ t u v, TriEq a b c s0 (s1.sub s0) t u v ∧ 0 ≤ u ∧ 0 ≤ v ∧ u + v ≤ 1 ∧ 0 ≤ t ∧ t ≤ 1 :=
  triSegment_iff sqrtF eps a b c s0 s1

/-- **`segment_touches_iff_segment2d`** — `model2d.Segment.SegmentCollision(q)` answers "touching" iff the two
segments are not parallel, are not rejected as near-parallel, and cross: `s0 + a(s1 - s0) = q0 + t(q1 - q0)` with
`0 ≤ a ≤ 1`, `0 ≤ t ≤ 1` (distinct end points, `eps > 0`). -/
theorem segment_touches_iff_segment2d {sqrtF : K → K} (hs : SqrtOK sqrtF) (eps : K) (heps : 0 < eps)
    (s0 s1 q0 q1 : V2 K) (hv : (s1.sub s0).dot (s1.sub s0) ≠ 0) (hq : (q1.sub q0).dot (q1.sub q0) ≠ 0) :
    seg2Segment sqrtF eps s0 s1 q0 q1 = true ↔
      segDet s0 s1 (q1.sub q0) ≠ 0 ∧ ¬ segNearPar sqrtF eps s0 s1 (q1.sub q0) ∧
        ∃ t a, SegEq s0 s1 q0 (q1.sub q0) t a ∧ 0 ≤ a ∧ a ≤ 1 ∧ 0 ≤ t ∧ t ≤ 1 :=
  seg2Segment_iff hs eps heps s0 s1 q0 q1 hv hq

/-- **`segment_bounds_test_sound`** — the bounds test of `joinedMultiCollider.SegmentCollision`
(`rayCollisionWithBounds` along the segment; rejected iff `maxFrac < minFrac || maxFrac < 0 || minFrac > 1`) admits
every segment that has a point, `0 ≤ t ≤ 1`, within the bounds (any number of axes: 2-D and 3-D). -/
theorem segment_bounds_test_sound (axes : List (Ax K)) (t : K) (h0 : 0 ≤ t) (h1 : t ≤ 1)
    (hin : ∀ a ∈ axes, AxIn a t) : segAdmits axes = true :=
  segAdmits_of_point axes t h0 h1 hin

/-- **`mesh_segment_touches_iff`** — the 3-D mesh colliders (any binary hierarchy of `joinedMultiCollider`s over the
triangles, bounds of `NewJoinedCollider`, the bounds test above at every node) answer `SegmentCollision(s0, s1)` = true
**iff some triangle of the mesh does** — and that is `segment_touches_iff_triangle`.  No hypotheses. -/
theorem mesh_segment_touches_iff (sqrtF : K → K) (eps : K) (t : BTree (Tri K)) (s0 s1 : V3 K) :
    meshSegment3 sqrtF eps t s0 s1 = true ↔
      ∃ T ∈ t.leaves, triSegment sqrtF eps T.1 T.2.1 T.2.2 s0 s1 = true := by
  unfold meshSegment3
  apply treeAny_iff
  intro n _ T hT h
  obtain ⟨_, _, τ, u, v, he, hu, hv, huv, h0, h1⟩ := (triSegment_iff sqrtF eps T.1 T.2.1 T.2.2 s0 s1).1 h
  apply segAdmits_of_point _ τ h0 h1
  rw [axes3_in]
  have hP : InTri T (s0.along (s1.sub s0) τ) := ⟨u, v, hu, hv, huv, (triEq_iff_point _ _ _ _ _ _ _ _).1 he⟩
  obtain ⟨⟨c1, c2⟩, ⟨c3, c4⟩, c5, c6⟩ := inTri_in_bounds T _ hP
  have m := btMin3_le triMin n T hT
  have M := le_btMax3 triMax n T hT
  exact ⟨⟨le_trans m.1 c1, le_trans c2 M.1⟩, ⟨le_trans m.2.1 c3, le_trans c4 M.2.1⟩,
    le_trans m.2.2 c5, le_trans c6 M.2.2⟩

/-- **`mesh_segment_touches_iff_2d`** — the same for the 2-D mesh colliders: `SegmentCollision(q)` is true iff some
segment of the mesh answers true (`segment_touches_iff_segment2d`). -/
theorem mesh_segment_touches_iff_2d {sqrtF : K → K} (hs : SqrtOK sqrtF) (eps : K) (heps : 0 < eps)
    (t : BTree (Seg K)) (q0 q1 : V2 K) (hq : (q1.sub q0).dot (q1.sub q0) ≠ 0)
    (hnd : ∀ S ∈ t.leaves, (S.2.sub S.1).dot (S.2.sub S.1) ≠ 0) :
    meshSegment2 sqrtF eps t q0 q1 = true ↔ ∃ S ∈ t.leaves, seg2Segment sqrtF eps S.1 S.2 q0 q1 = true := by
  unfold meshSegment2
  apply treeAny_iff
  intro n hn S hS h
  obtain ⟨_, _, τ, a, he, ha0, ha1, h0, h1⟩ :=
    (seg2Segment_iff hs eps heps S.1 S.2 q0 q1 (hnd S (hn S hS)) hq).1 h
  apply segAdmits_of_point _ τ h0 h1
  rw [axes2_in]
  have hpt : q0.along (q1.sub q0) τ = segPoint2 S.1 S.2 a := by
    obtain ⟨e1, e2⟩ := he
    simp only [V2.along, segPoint2, V2.add, V2.scale, V2.sub, V2.mk.injEq] at e1 e2 ⊢
    exact ⟨e1.symm, e2.symm⟩
  rw [hpt]
  obtain ⟨c1, c2, c3, c4⟩ := segPoint2_in_bounds S.1 S.2 a ha0 ha1
  have m := btMin2_le (fun s : Seg K => s.1.min s.2) n S hS
  have M := le_btMax2 (fun s : Seg K => s.1.max s.2) n S hS
  exact ⟨le_trans m.1 c1, le_trans c2 M.1, le_trans m.2 c3, le_trans c4 M.2⟩

/-- **`profile_ball_touches_iff`** (`profileCollider.SphereCollision`: the face distance, the 2-D circle query with the
radius `√(r² - faceDistance²)`, the face test `absFaceDist < r && Solid2D.Contains`).  Let `S2` be the outline the
2-D collider stands for — `CircleCollision(q, ρ)` answers "some point of `S2` is at distance `< ρ`" —, `D` the 2-D
solid (`Solid2D.Contains`), and assume that the outline bounds the solid: a segment from a point of `D` to a point
outside `D` meets `S2`.  Then for `r ≥ 0` the method answers "touching" **iff the surface of the extrusion — the walls
`S2 × [minZ, maxZ]` or one of the two faces `D × {minZ}`, `D × {maxZ}` — has a point at distance `< r` from `c`**; and
the method equals its square-root-free form `profBallSpec` (what the `profballx` correspondence prints). -/
theorem profile_ball_touches_iff {sqrtF : K → K} (hs : SqrtOK sqrtF) (S2 D : V2 K → Prop)
    (circ circSq : V2 K → K → Bool) (solid2 : V2 K → Bool) (minZ maxZ : K) (hz : minZ ≤ maxZ) (c : V3 K) (r : K)
    (hr : 0 ≤ r) (hc : ∀ q ρ, 0 ≤ ρ → circ q ρ = circSq q (ρ * ρ))
    (hcirc : ∀ q Q, circSq q Q = true ↔ ∃ p, S2 p ∧ p.distSq q < Q) (hsolid : ∀ q, solid2 q = true ↔ D q)
    (hcross : ∀ q q', D q → ¬ D q' → ∃ lam, 0 ≤ lam ∧ lam ≤ 1 ∧ S2 (q'.add ((q.sub q').scale lam))) :
    profSphere sqrtF circ solid2 minZ maxZ c r = profBallSpec circSq solid2 minZ maxZ c r ∧
    (profSphere sqrtF circ solid2 minZ maxZ c r = true ↔ ProfSurfaceNear S2 D minZ maxZ c (r * r)) := by
  have e := profSphere_eq_spec hs circ circSq solid2 minZ maxZ c r hr hc
  refine ⟨e, ?_⟩
  rw [e]
  exact profBallSpec_iff S2 D circSq solid2 minZ maxZ hz c r hr hcirc hsolid hcross

/-- … instantiated for an outline given by segments (`ProfileCollider(MeshToCollider(mesh2d), minZ, maxZ)`, the 2-D
circle query being "some segment's `CircleCollision`", `joined_ball_any`): `S2` = the points of the segments. -/
theorem profile_ball_touches_iff_mesh {sqrtF : K → K} (hs : SqrtOK sqrtF) (segs : List (Seg K)) (D : V2 K → Prop)
    (solid2 : V2 K → Bool) (minZ maxZ : K) (hz : minZ ≤ maxZ) (c : V3 K) (r : K) (hr : 0 ≤ r)
    (hnd : ∀ S ∈ segs, (S.2.sub S.1).dot (S.2.sub S.1) ≠ 0) (hsolid : ∀ q, solid2 q = true ↔ D q)
    (hcross : ∀ q q', D q → ¬ D q' → ∃ lam, 0 ≤ lam ∧ lam ≤ 1 ∧
      ∃ S ∈ segs, ∃ mu, 0 ≤ mu ∧ mu ≤ 1 ∧ q'.add ((q.sub q').scale lam) = segPoint2 S.1 S.2 mu) :
    profSphere sqrtF (fun q ρ => segs.any fun S => seg2Circle sqrtF S.1 S.2 q ρ) solid2 minZ maxZ c r = true ↔
      ProfSurfaceNear (fun p => ∃ S ∈ segs, ∃ mu, 0 ≤ mu ∧ mu ≤ 1 ∧ p = segPoint2 S.1 S.2 mu) D minZ maxZ c (r * r) := by
  refine (profile_ball_touches_iff hs _ D _ (fun q Q => segs.any fun S => seg2BallSpec S.1 S.2 q Q) solid2 minZ maxZ
    hz c r hr ?_ ?_ hsolid hcross).2
  · intro q ρ hρ
    rw [Bool.eq_iff_iff]
    simp only [List.any_eq_true]
    refine exists_congr fun S => and_congr_right fun hS => ?_
    rw [seg2Circle_iff hs S.1 S.2 q ρ hρ (hnd S hS), seg2BallSpec_iff S.1 S.2 q (ρ * ρ) (hnd S hS)]
    rfl
  · intro q Q
    simp only [List.any_eq_true]
    constructor
    · rintro ⟨S, hS, h⟩
      obtain ⟨mu, m0, m1, hlt⟩ := (seg2BallSpec_iff S.1 S.2 q Q (hnd S hS)).1 h
      exact ⟨_, ⟨S, hS, mu, m0, m1, rfl⟩, hlt⟩
    · rintro ⟨p, ⟨S, hS, mu, m0, m1, rfl⟩, hlt⟩
      exact ⟨S, hS, (seg2BallSpec_iff S.1 S.2 q Q (hnd S hS)).2 ⟨mu, m0, m1, hlt⟩⟩

/-- non-vacuity / the corner case: `t = (0,0,0),(1,0,0),(0,1,0)` and `t1 = (0,0,0),(1,1,1),(1,1,-1)` share exactly
the vertex `(0,0,0)` and cut through each other: the computation reports the segment `(0,0,0) – (1/2,1/2,0)`;
moved apart (`t1` shifted by `(0,0,2)`) it reports nothing; the box query across the bottom side of the unit square
split into four pieces per side: the flat node holding two pieces of the bottom side is visited. -/
example :
    (triTriCore (⟨0, 0, 0⟩ : V3 ℚ) ⟨1, 0, 0⟩ ⟨0, 1, 0⟩ ⟨0, 0, 0⟩ ⟨1, 1, 1⟩ ⟨1, 1, -1⟩).map
        (fun p => (p.1.x, p.1.y, p.1.z, p.2.x, p.2.y, p.2.z)) = some (0, 0, 0, 1/2, 1/2, 0) ∧
    (triTriCore (⟨0, 0, 0⟩ : V3 ℚ) ⟨1, 0, 0⟩ ⟨0, 1, 0⟩ ⟨0, 0, 2⟩ ⟨1, 1, 3⟩ ⟨1, 1, 1⟩).isNone = true ∧
    triInCommon ((⟨0, 0, 0⟩, ⟨1, 0, 0⟩, ⟨0, 1, 0⟩) : Tri ℚ) (⟨0, 0, 0⟩, ⟨1, 1, 1⟩, ⟨1, 1, -1⟩) = 1 ∧
    rectOverlap2 (⟨1/10, -1/20⟩ : V2 ℚ) ⟨3/20, 1/20⟩ ⟨0, 0⟩ ⟨1/2, 0⟩ = true ∧
    seg2RectSpec (⟨0, 0⟩ : V2 ℚ) ⟨1/4, 0⟩ ⟨1/10, -1/20⟩ ⟨3/20, 1/20⟩ = true ∧
    seg2RectSpec (⟨1/4, 0⟩ : V2 ℚ) ⟨1/2, 0⟩ ⟨1/10, -1/20⟩ ⟨3/20, 1/20⟩ = false ∧
    meshRect2 (fun x : ℚ => x) (1/100000000)
      (.node (.leaf (⟨0, 0⟩, ⟨1/4, 0⟩)) (.leaf (⟨1/4, 0⟩, ⟨1/2, 0⟩))) ⟨1/10, -1/20⟩ ⟨3/20, 1/20⟩ = true := by
  refine ⟨?_, ?_, ?_, ?_, ?_, ?_, ?_⟩ <;> decide +kernel

/-! ## (7) the enumeration is a function of (collider, ray) only; rays with a scaled direction -/

/-- **`callbacks_cannot_influence`** — *the enumeration is a function of the collider and the ray only*.  Run
`c.RayCollisions(r, f)` with an arbitrary side-effecting callback: `f c h s` updates the user's state `s` at the
collision `h` and has the collider `c` itself in hand, so it may make any further queries against it before it returns
(secondary rays from the hit point, `FirstRayCollision`, ball queries, the same ray again); next to it the harness's
recorder notes the collision and the answers `q c h` of the nested queries.  Then the returned count is the count of the
passive enumeration, the collisions handed to the callback are exactly — same values, same order — those handed to a
passive callback, every nested query was answered as the same query is answered outside of the enumeration, and the
user's state is the fold of `f` over the passive enumeration.  (A collider with a scratch buffer shared between queries
— seeded change C07-9 — is not such a function: the `reent…`, `profrx`, `joinrx` correspondence kinds compare the
real code with this.) -/
theorem callbacks_cannot_influence {R H σ T : Type} (c : Collider R H) (r : R)
    (f : Collider R H → H → σ → σ) (q : Collider R H → H → List T) (s0 : σ) :
    let run := runCallbacks c r
      (fun h (s : σ × List H × List T) => (f c h s.1, recordActive c q h s.2)) (s0, [], [])
    run.1 = (c.ray r true).1 ∧
    run.2.2.1 = (c.ray r true).2 ∧
    run.2.2.2 = (c.ray r true).2.flatMap (q c) ∧
    run.2.1 = (c.ray r true).2.foldl (fun s h => f c h s) s0 := by
  intro run
  have h : run.2 = ((c.ray r true).2.foldl (fun s h => f c h s) s0,
      (c.ray r true).2.foldl (fun s h => recordActive c q h s) ([], [])) :=
    foldl_prod (fun h s => f c h s) (fun h s => recordActive c q h s) (c.ray r true).2 (s0, [], [])
  rw [foldl_recordActive] at h
  refine ⟨rfl, ?_, ?_, ?_⟩
  · rw [h]; simp
  · rw [h]; simp
  · rw [h]

/-- **`reent_obs`**: the comparison the driver evaluates on a re-entrant observation (`reentOk` / `reentVerdict`:
count with the active callback = number of its calls = count with a passive callback; the calls are the passive calls;
the nested answers are the outside answers) succeeds for every collider whose count is the number of its callbacks
(first clause of the contract) — whatever the callback does.  A `viol:` line of the `reent` kinds is therefore a
violation: the real collider is not a function of the ray. -/
theorem reent_obs {R H σ T : Type} [BEq H] [LawfulBEq H] [BEq T] [LawfulBEq T] (c : Collider R H) (r : R)
    (hc : (c.ray r true).1 = (c.ray r true).2.length)
    (f : Collider R H → H → σ → σ) (q : Collider R H → H → List T) (s0 : σ) :
    let run := runCallbacks c r
      (fun h (s : σ × List H × List T) => (f c h s.1, recordActive c q h s.2)) (s0, [], [])
    reentOk (c.ray r true).1 (c.ray r true).2 run.1 run.2.2.1 run.2.2.2 ((c.ray r true).2.flatMap (q c)) = true ∧
    reentVerdict (c.ray r true).1 (c.ray r true).2 run.1 run.2.2.1 run.2.2.2 ((c.ray r true).2.flatMap (q c)) = "ok" := by
  intro run
  obtain ⟨h1, h2, h3, _⟩ := callbacks_cannot_influence c r f q s0
  have e1 : run.1 = (c.ray r true).1 := h1
  have e2 : run.2.2.1 = (c.ray r true).2 := h2
  have e3 : run.2.2.2 = (c.ray r true).2.flatMap (q c) := h3
  rw [e1, e2, e3]
  unfold reentOk reentVerdict
  simp [hc]

/-- the comparison rejects what the property forbids: a collision replaced, a collision lost, a nested query answered
differently -/
example :
    reentVerdict 2 ["a", "b"] 2 ["a", "b"] ["x"] ["x"] = "ok" ∧
    reentVerdict 2 ["a", "b"] 2 ["a", "c"] ["x"] ["x"] = "enumeration-differs-with-active-callback" ∧
    reentVerdict 2 ["a", "b"] 1 ["a"] ["x"] ["x"] = "count-differs-with-active-callback" ∧
    reentVerdict 2 ["a", "b"] 2 ["a"] ["x"] ["x"] = "count-vs-callbacks" ∧
    reentVerdict 2 ["a", "b"] 2 ["a", "b"] ["x"] ["y"] = "nested-query-differs" := by
  refine ⟨?_, ?_, ?_, ?_, ?_⟩ <;> decide

/-- **`ray_scale_invariant_segment2d`** (2-D `Segment.rayCollision / RayCollisions / FirstRayCollision`): for every
`k > 0` the ray `(o, k·d)` is reported the collisions of the ray `(o, d)` with every parameter divided by `k` and the
same normal — the same points —, and the same count; in particular the near-parallel rejection
`|det| < 1e-8·|s1 - s0|·|d|` does not depend on the length of the direction vector (an absolute threshold — seeded
change C07-7 — does).  No hypothesis on `eps`, the segment or the ray. -/
theorem ray_scale_invariant_segment2d {sqrtF : K → K} (hs : SqrtOK sqrtF) (eps : K) (s0 s1 : V2 K) :
    (∀ o d k, 0 < k →
      seg2Ray sqrtF eps s0 s1 o (d.scale k) = (seg2Ray sqrtF eps s0 s1 o d).map (fun p => (p.1, p.2 / k)) ∧
      seg2Hits sqrtF eps s0 s1 o (d.scale k) = (seg2Hits sqrtF eps s0 s1 o d).map (Hit2.scaleT k)) ∧
    ScaleCov V2.scale Hit2.scaleT (seg2Collider sqrtF eps s0 s1) :=
  ⟨fun o d _ hk => ⟨seg2Ray_scale hs eps s0 s1 o d hk, seg2Hits_scale hs eps s0 s1 o d hk⟩,
   seg2Collider_scaleCov hs eps s0 s1⟩

/-- a ray across the segment `(0,0)–(1,0)`: parameter 1 with direction `(0,-1)`, parameter `2^30` with direction
`(0,-2^-30)`, parameter `2^-30` with direction `(0,-2^30)` (`sq` is a square root on the values that occur) -/
example :
    let sq : ℚ → ℚ := fun x => if x = 1152921504606846976 then 1073741824
      else if x = 1/1152921504606846976 then 1/1073741824 else x
    (seg2Hits sq (1/100000000) ⟨0, 0⟩ ⟨1, 0⟩ ⟨1/2, 1⟩ ⟨0, -1⟩).map Hit2.t = [1] ∧
    (seg2Hits sq (1/100000000) ⟨0, 0⟩ ⟨1, 0⟩ ⟨1/2, 1⟩ ⟨0, -1/1073741824⟩).map Hit2.t = [1073741824] ∧
    (seg2Hits sq (1/100000000) ⟨0, 0⟩ ⟨1, 0⟩ ⟨1/2, 1⟩ ⟨0, -1073741824⟩).map Hit2.t = [1/1073741824] := by
  refine ⟨?_, ?_, ?_⟩ <;> decide +kernel

/-- **`ray_scale_invariant_wrappers`**: scale covariance is inherited by `JoinedCollider` / `joinedMultiCollider` (mesh
colliders; the bounds test `admits` must not depend on the length of the direction — the slab test does not) and by
`transformedCollider` (the inner ray of `(o, k·d)` is the inner ray of `(o, d)` with `k` times the direction — the
transform is affine — and the mapped collision keeps its parameter); a `FirstRayCollision` implemented as the minimum
over the callbacks commutes with the scaling. -/
theorem ray_scale_invariant_wrappers {V H : Type} (scaleDir : V → K → V) (sc : K → H → H) (tOf : H → K)
    (hlt : ∀ k, 0 < k → ∀ a b, tOf (sc k a) < tOf (sc k b) ↔ tOf a < tOf b) :
    (∀ (admits : V × V → Bool), (∀ o d k, 0 < k → admits (o, scaleDir d k) = admits (o, d)) →
      ∀ parts : List (Collider (V × V) H), (∀ c ∈ parts, ScaleCov scaleDir sc c) →
        ScaleCov scaleDir sc (joined tOf admits parts)) ∧
    (∀ {V' H' : Type} (scaleDir' : V' → K → V') (sc' : K → H' → H') (inner : Collider (V × V) H)
      (innerRay : V' × V' → V × V) (outer : H → H'),
      (∀ o d k, 0 < k → innerRay (o, scaleDir' d k) = ((innerRay (o, d)).1, scaleDir (innerRay (o, d)).2 k)) →
      (∀ k h, outer (sc k h) = sc' k (outer h)) → ScaleCov scaleDir sc inner →
        ScaleCov scaleDir' sc' (transformed inner innerRay outer)) ∧
    (∀ k, 0 < k → ∀ calls : List H, minFirst tOf (calls.map (sc k)) none = (minFirst tOf calls none).map (sc k)) :=
  ⟨fun admits hadm parts hp => joined_scaleCov scaleDir sc tOf hlt admits hadm parts hp,
   fun scaleDir' sc' inner innerRay outer hray hout hin =>
     transformed_scaleCov scaleDir scaleDir' sc sc' inner innerRay outer hray hout hin,
   fun k hk calls => minFirst_map tOf (sc k) (hlt k hk) calls none⟩

/-- **`ray_scale_invariant_profile`** (`profileCollider.RayCollisions / FirstRayCollision`: vertical, flat and general
case, the closure `inside2d`, the side filter, the two faces): scale covariant whenever the 2-D collider is — in
particular over a 2-D mesh collider (every segment's callbacks, any hierarchy with an always-admitting bounds test:
`segs.flatMap seg2Hits`).  A nearly vertical ray is a ray whose 2-D projection has a tiny direction: the 2-D collider
must report the same crossings as for the normalised projection. -/
theorem ray_scale_invariant_profile {sqrtF : K → K} (hs : SqrtOK sqrtF) (eps : K) (solid2 : V2 K → Bool)
    (minZ maxZ : K) :
    (∀ ray2 : V2 K → V2 K → List (Hit2 K),
      (∀ o d k, 0 < k → ray2 o (d.scale k) = (ray2 o d).map (Hit2.scaleT k)) →
        ScaleCov V3.scale Hit.scaleT (profileCollider ray2 solid2 minZ maxZ)) ∧
    (∀ segs : List (V2 K × V2 K),
      ScaleCov V3.scale Hit.scaleT
        (profileCollider (fun o2 d2 => segs.flatMap fun s => seg2Hits sqrtF eps s.1 s.2 o2 d2) solid2 minZ maxZ)) := by
  refine ⟨fun ray2 hcov => profileCollider_scaleCov ray2 hcov solid2 minZ maxZ, fun segs => ?_⟩
  apply profileCollider_scaleCov
  intro o d k hk
  induction segs with
  | nil => rfl
  | cons s rest ih =>
    simp only [List.flatMap_cons, List.map_append, seg2Hits_scale hs eps s.1 s.2 o d hk]
    rw [ih]

/-- **`ray_scale_invariant_primitives`** (`Sphere/Circle.RayCollisions`, `Triangle.rayCollision/RayCollisions/
FirstRayCollision` with its near-parallel test on the *normalised* direction, `castPlane`, `castCircle`): the ray
`(o, k·d)`, `k > 0`, is reported the collisions of `(o, d)` with the parameters divided by `k`, same normals, same count
and same barycentric coordinates; hence (`ray_scale_invariant_wrappers`) also every mesh collider over triangles. -/
theorem ray_scale_invariant_primitives {sqrtF : K → K} (hs : SqrtOK sqrtF) (eps : K) :
    (∀ center radius, ScaleCov V3.scale Hit.scaleT (sphereCollider sqrtF center radius)) ∧
    (∀ a b c, ScaleCov V3.scale Hit.scaleT (triCollider sqrtF eps a b c)) ∧
    (∀ a b c o d k, 0 < k → triRay sqrtF eps a b c o (d.scale k) =
        (triRay sqrtF eps a b c o d).map (fun s => ⟨s.u, s.v, s.t / k⟩)) ∧
    (∀ normal bias o d k, 0 < k → castPlane sqrtF eps normal bias o (d.scale k) =
        (castPlane sqrtF eps normal bias o d).map (· / k)) ∧
    (∀ normal center radius o d k, 0 < k → castCircle sqrtF eps normal center radius o (d.scale k) =
        (castCircle sqrtF eps normal center radius o d).map (Hit.scaleT k)) ∧
    (∀ (tris : List (V3 K × V3 K × V3 K)),
      ScaleCov V3.scale Hit.scaleT
        (joined Hit.t (fun _ => true) (tris.map fun t => triCollider sqrtF eps t.1 t.2.1 t.2.2))) := by
  refine ⟨fun center radius => sphereCollider_scaleCov hs center radius,
    fun a b c => triCollider_scaleCov hs eps a b c,
    fun a b c o d k hk => triRay_scale hs eps a b c o d hk,
    fun normal bias o d k hk => castPlane_scale hs eps normal bias o d hk,
    fun normal center radius o d k hk => castCircle_scale hs eps normal center radius o d hk,
    fun tris => ?_⟩
  apply joined_scaleCov V3.scale Hit.scaleT Hit.t (fun k hk a b => hit_scaleT_lt hk a b)
  · intro _ _ _ _; rfl
  · intro c hc
    obtain ⟨t, _, rfl⟩ := List.mem_map.1 hc
    exact triCollider_scaleCov hs eps t.1 t.2.1 t.2.2

/-- **`ray_scale_invariant_shapes`** (`rayCollisionWithBounds` + `Rect.RayCollisions/FirstRayCollision/normalAt`,
`Cylinder.RayCollisions` — quadratic for the side, the two discs — and `Capsule.RayCollisions` — end spheres with the
hemisphere filter, side, sort, phantom removal, `Contains(origin)`): scale covariant; the slab loop for `k·d` leaves
through the same miss exit or returns the bounds of `d` divided by `k`. -/
theorem ray_scale_invariant_shapes {sqrtF : K → K} (hs : SqrtOK sqrtF) (eps : K) :
    (∀ lo hi : V3 K, ScaleCov V3.scale Hit.scaleT (rectCollider lo hi)) ∧
    (∀ (lo hi o d : V3 K) (k : K), 0 < k → rectTs lo hi o (d.scale k) = (rectTs lo hi o d).map (· / k)) ∧
    (∀ p1 p2 radius, ScaleCov V3.scale Hit.scaleT (cylCollider sqrtF eps p1 p2 radius)) ∧
    (∀ p1 p2 radius, ScaleCov V3.scale Hit.scaleT (capsuleCollider sqrtF p1 p2 radius)) :=
  ⟨fun lo hi => rectCollider_scaleCov lo hi,
   fun lo hi o d _ hk => rectTs_scale hk lo hi o d,
   fun p1 p2 radius => cylCollider_scaleCov hs eps p1 p2 radius,
   fun p1 p2 radius => capsuleCollider_scaleCov hs p1 p2 radius⟩

/-- the unit box entered at 1 and left at 2 with direction `(1,0,0)`: at `2^-20` and `2^-19` with `(2^20,0,0)` -/
example :
    rectTs (⟨0, 0, 0⟩ : V3 ℚ) ⟨1, 1, 1⟩ ⟨-1, 1/2, 1/2⟩ ⟨1048576, 0, 0⟩ = [1/1048576, 2/1048576] := by
  decide +kernel

/-- a ray through the unit sphere with directions `(0,0,-1)` and `(0,0,-2^-20)`, and through the unit right triangle
with `(0,0,-2)` and `(0,0,-2^21)`: same points, parameters divided by the factor -/
example :
    (sphereHits (fun x : ℚ => if x = 4 then 2 else if x = 4/1099511627776 then 2/1048576 else x)
        ⟨0, 0, 0⟩ 1 ⟨0, 0, 2⟩ ⟨0, 0, -1⟩).map Hit.t = [1, 3] ∧
    (sphereHits (fun x : ℚ => if x = 4 then 2 else if x = 4/1099511627776 then 2/1048576 else x)
        ⟨0, 0, 0⟩ 1 ⟨0, 0, 2⟩ ⟨0, 0, -1/1048576⟩).map Hit.t = [1048576, 3145728] ∧
    (triHits (fun x : ℚ => x) (1/100000000) ⟨0, 0, 0⟩ ⟨1, 0, 0⟩ ⟨0, 1, 0⟩ ⟨1/4, 1/4, 1⟩ ⟨0, 0, -2097152⟩).map Hit.t =
      [1/2097152] := by
  refine ⟨?_, ?_, ?_⟩ <;> decide +kernel

/-! ## non-vacuity -/

/-- a ray through the unit box: entry 1, exit 2; from inside: exit only -/
example :
    rectTs (⟨0, 0, 0⟩ : V3 ℚ) ⟨1, 1, 1⟩ ⟨-1, 1/2, 1/2⟩ ⟨1, 0, 0⟩ = [1, 2] ∧
    rectTs (⟨0, 0, 0⟩ : V3 ℚ) ⟨1, 1, 1⟩ ⟨1/2, 1/2, 1/2⟩ ⟨0, 2, 0⟩ = [1/4] := by
  constructor <;> decide +kernel

/-- Möller–Trumbore on a right triangle with a non-unit direction: hit at `t = 1/2`, and a miss -/
example :
    (triHits (fun x : ℚ => x) (1/100000000) ⟨0, 0, 0⟩ ⟨1, 0, 0⟩ ⟨0, 1, 0⟩ ⟨1/4, 1/4, 1⟩ ⟨0, 0, -2⟩).map Hit.t = [1/2] ∧
    (triHits (fun x : ℚ => x) (1/100000000) ⟨0, 0, 0⟩ ⟨1, 0, 0⟩ ⟨0, 1, 0⟩ ⟨3/4, 3/4, 1⟩ ⟨0, 0, -2⟩).map Hit.t = [] := by
  constructor <;> decide +kernel

/-- the contract predicate rejects the observations the property forbids -/
example :
    obsOk 2 2 true (1 : ℚ) [1, 3] = true ∧
    obsOk 1 2 true (1 : ℚ) [1, 3] = false ∧      -- count without callback differs
    obsOk 2 2 true (3 : ℚ) [1, 3] = false ∧      -- first is not the minimum
    obsOk 1 1 true (-1 : ℚ) [-1] = false ∧       -- negative parameter
    obsOk 0 0 true (0 : ℚ) [] = false := by      -- first exists although count = 0
  refine ⟨?_, ?_, ?_, ?_, ?_⟩ <;> decide +kernel

/-- the unit right triangle and a ball above its interior / far from it -/
example :
    triBallSpec (⟨0, 0, 0⟩ : V3 ℚ) ⟨1, 0, 0⟩ ⟨0, 1, 0⟩ ⟨1/4, 1/4, 1/2⟩ (1/2 * (1/2) + 1/100) = true ∧
    triBallSpec (⟨0, 0, 0⟩ : V3 ℚ) ⟨1, 0, 0⟩ ⟨0, 1, 0⟩ ⟨1/4, 1/4, 1/2⟩ (1/2 * (1/2)) = false ∧
    triBallSpec (⟨0, 0, 0⟩ : V3 ℚ) ⟨1, 0, 0⟩ ⟨0, 1, 0⟩ ⟨2, 2, 0⟩ 1 = false := by
  refine ⟨?_, ?_, ?_⟩ <;> decide +kernel

/-! ## `BVHToCollider` over a `BVH` whose branches have any number of children

`model3d.BVH` / `model2d.BVH` is public and documented as "a leaf, or a branch with two *or more* children".
`WTree L` (`M3d/Model/CollideBVH.lean`) is the slice `Branch` of such a node; `BVHToCollider` converts every child and
joins them (`joinedMultiCollider{NewJoinedCollider(other)}`, bounds folded from the left over all children).  The
theorems say that the collider describes the WHOLE stored surface, whatever the widths of the nodes. -/

/-- **`bvh_ray_collisions`** — `BVHToCollider(b).RayCollisions / FirstRayCollision` for a BVH of any shape and width
(`wtCollider`: nested `JoinedCollider`s, every child of every branch converted, any ray/bounds tests `admits`):
* it satisfies the contract of the property for a ray as soon as the stored primitives do (count = callbacks = count
  without callback, parameters ≥ 0, first exists ⇔ count ≠ 0 and is a callback of minimal parameter);
* if no bounds test rejects a node holding a primitive the ray hits (soundness of `rayCollisionWithBounds`: `rect_hits`,
  C08), the callbacks are **the concatenation of the collisions with ALL stored primitives** in the order of the
  hierarchy and the count is the sum of their counts — with and without a callback.  Together with the first item:
  `FirstRayCollision` has the smallest parameter over the collisions with all stored primitives. -/
theorem bvh_ray_collisions {R H L : Type} (tOf : H → K) (admits : WTree L → R → Bool) (leafC : L → Collider R H)
    (r : R) (t : WTree L) (hl : ∀ l ∈ t.leaves, Contract tOf (leafC l) r) :
    Contract tOf (wtCollider tOf admits leafC t) r ∧
    ((∀ n : WTree L, (∀ l ∈ n.leaves, l ∈ t.leaves) → admits n r = false →
        ∀ l ∈ n.leaves, ∀ cb, (leafC l).ray r cb = (0, [])) →
      ∀ cb, (wtCollider tOf admits leafC t).ray r cb =
        ((t.leaves.map fun l => ((leafC l).ray r cb).1).sum, t.leaves.flatMap fun l => ((leafC l).ray r cb).2)) := by
  refine ⟨joined_contract' tOf (admits t) _ r (wtColliders_contract tOf admits leafC r t hl), ?_⟩
  intro hadm cb
  obtain ⟨e1, e2⟩ := wtColliders_ray tOf admits leafC r cb t (fun n hn ha l hl => hadm n hn ha l hl cb)
  by_cases ha : admits t r = true
  · show joinedRay _ _ r cb = _
    rw [joinedRay_eq _ _ r cb ha, e1, e2]
  · have ha' : admits t r = false := by simpa using ha
    have hz := fun l hl => hadm t (fun _ h => h) ha' l hl cb
    have z1 : (t.leaves.map fun l => ((leafC l).ray r cb).1).sum = 0 := by
      apply List.sum_eq_zero
      intro x hx
      obtain ⟨l, hl, rfl⟩ := List.mem_map.1 hx
      rw [hz l hl]
    have z2 : (t.leaves.flatMap fun l => ((leafC l).ray r cb).2) = [] := by
      rw [List.flatMap_eq_nil_iff]; intro l hl; rw [hz l hl]
    rw [z1, z2]
    show joinedRay _ _ r cb = _
    simp [joinedRay, ha']

/-- **`bvh_boolean_query`** — every Boolean query of `BVHToCollider(b)` (`SphereCollision` / `CircleCollision`,
`SegmentCollision`, `RectCollision`, 2-D and 3-D: the node's bounds test, then ALL children in order) over a BVH of any
shape and width is the disjunction of the answers of all stored primitives, provided no bounds test rejects a node
holding a primitive that answers true (`segment_bounds_test_sound`, `rect_bounds_test_iff`, `rect_bounds_test_iff_3d`;
ball queries: C08). -/
theorem bvh_boolean_query {L : Type} (gate : WTree L → Bool) (leafQ : L → Bool) (t : WTree L)
    (hadm : ∀ n : WTree L, (∀ l ∈ n.leaves, l ∈ t.leaves) → ∀ l ∈ n.leaves, leafQ l = true → gate n = true) :
    wtAny gate leafQ t = true ↔ ∃ l ∈ t.leaves, leafQ l = true :=
  wtAny_iff gate leafQ t hadm

/-- **`bvh_bounds_contain`** — the bounds `NewJoinedCollider` computes for a branch of any width (left fold of
`Min`/`Max` over the bounds of all children, each branch child with the bounds of its own join) contain the bounds of
every primitive stored below the node; hence a bounds test that accepts every box containing the bounds of one of them
passes (2-D and 3-D). -/
theorem bvh_bounds_contain {L : Type} :
    (∀ (leafB : L → Box2 K) (test : Box2 K → Bool) (n : WTree L) (l : L), l ∈ n.leaves →
      (∀ b, Box2Le b (leafB l) → test b = true) → wtGate leafB box2Join test n = true) ∧
    (∀ (leafB : L → Box3 K) (test : Box3 K → Bool) (n : WTree L) (l : L), l ∈ n.leaves →
      (∀ b, Box3Le b (leafB l) → test b = true) → wtGate leafB box3Join test n = true) :=
  ⟨fun leafB test n l hl ht => wtGate2_of_leaf leafB test n l hl ht,
   fun leafB test n l hl ht => wtGate3_of_leaf leafB test n l hl ht⟩

/-- **`bvh_rect_touches_iff`** — 2-D `BVHToCollider(b).RectCollision(lo, hi)` for a BVH of any shape and width (the
bounds and the bounds test of `joinedMultiCollider.RectCollision` at every node) is true **iff some stored segment —
any of them, not only those below the first two children — has a point in the closed box**.  Hypotheses per segment as
in `rect_touches_iff_segment2d`. -/
theorem bvh_rect_touches_iff {sqrtF : K → K} (hs : SqrtOK sqrtF) (eps : K) (heps : 0 < eps) (t : WTree (Seg K))
    (lo hi : V2 K) (hx : lo.x < hi.x) (hy : lo.y < hi.y)
    (hnd : ∀ S ∈ t.leaves, (S.2.sub S.1).dot (S.2.sub S.1) ≠ 0)
    (hnp : ∀ S ∈ t.leaves, ∀ q ∈ rectSides lo hi, segDet S.1 S.2 (q.2.sub q.1) ≠ 0 →
      ¬ segNearPar sqrtF eps S.1 S.2 (q.2.sub q.1)) :
    bvhRect2 sqrtF eps t lo hi = true ↔
      ∃ S ∈ t.leaves, ∃ lam, 0 ≤ lam ∧ lam ≤ 1 ∧ InRect2 lo hi (segPoint2 S.1 S.2 lam) := by
  unfold bvhRect2
  rw [wtAny_iff]
  · constructor
    · rintro ⟨S, hS, h⟩
      exact ⟨S, hS, (seg2Rect_iff hs eps heps S.1 S.2 lo hi (hnd S hS) hx hy (hnp S hS)).1 h⟩
    · rintro ⟨S, hS, h⟩
      exact ⟨S, hS, (seg2Rect_iff hs eps heps S.1 S.2 lo hi (hnd S hS) hx hy (hnp S hS)).2 h⟩
  · intro n hn S hS h
    have hS' := hn S hS
    obtain ⟨lam, h0, h1, hb⟩ := (seg2Rect_iff hs eps heps S.1 S.2 lo hi (hnd S hS') hx hy (hnp S hS')).1 h
    apply wtGate2_of_leaf seg2Box _ n S hS
    intro b hle
    exact rectOverlap2_of_point lo hi b.1 b.2 _ hb
      (inRect2_of_box2Le b (seg2Box S) hle _ (segPoint2_in_bounds S.1 S.2 lam h0 h1))

/-- **`bvh_segment_touches_iff`** — 3-D `BVHToCollider(b).SegmentCollision(s0, s1)` over a BVH of any shape and width
is true **iff some stored triangle answers true** (`segment_touches_iff_triangle`).  No hypotheses. -/
theorem bvh_segment_touches_iff (sqrtF : K → K) (eps : K) (t : WTree (Tri K)) (s0 s1 : V3 K) :
    bvhSegment3 sqrtF eps t s0 s1 = true ↔
      ∃ T ∈ t.leaves, triSegment sqrtF eps T.1 T.2.1 T.2.2 s0 s1 = true := by
  unfold bvhSegment3
  apply wtAny_iff
  intro n _ T hT h
  obtain ⟨_, _, τ, u, v, he, hu, hv, huv, h0, h1⟩ := (triSegment_iff sqrtF eps T.1 T.2.1 T.2.2 s0 s1).1 h
  apply wtGate3_of_leaf triBox _ n T hT
  intro b hle
  apply segAdmits_of_point _ τ h0 h1
  rw [axes3_in]
  have hP : InTri T (s0.along (s1.sub s0) τ) := ⟨u, v, hu, hv, huv, (triEq_iff_point _ _ _ _ _ _ _ _).1 he⟩
  exact inBox_of_box3Le b (triBox T) hle _ (inTri_in_bounds T _ hP)

/-- **`bvh_segment_touches_iff_2d`** — the same for 2-D `BVHToCollider(b).SegmentCollision(q)`
(`segment_touches_iff_segment2d`). -/
theorem bvh_segment_touches_iff_2d {sqrtF : K → K} (hs : SqrtOK sqrtF) (eps : K) (heps : 0 < eps)
    (t : WTree (Seg K)) (q0 q1 : V2 K) (hq : (q1.sub q0).dot (q1.sub q0) ≠ 0)
    (hnd : ∀ S ∈ t.leaves, (S.2.sub S.1).dot (S.2.sub S.1) ≠ 0) :
    bvhSegment2 sqrtF eps t q0 q1 = true ↔ ∃ S ∈ t.leaves, seg2Segment sqrtF eps S.1 S.2 q0 q1 = true := by
  unfold bvhSegment2
  apply wtAny_iff
  intro n hn S hS h
  obtain ⟨_, _, τ, a, he, ha0, ha1, h0, h1⟩ :=
    (seg2Segment_iff hs eps heps S.1 S.2 q0 q1 (hnd S (hn S hS)) hq).1 h
  apply wtGate2_of_leaf seg2Box _ n S hS
  intro b hle
  apply segAdmits_of_point _ τ h0 h1
  rw [axes2_in]
  have hpt : q0.along (q1.sub q0) τ = segPoint2 S.1 S.2 a := by
    obtain ⟨e1, e2⟩ := he
    simp only [V2.along, segPoint2, V2.add, V2.scale, V2.sub, V2.mk.injEq] at e1 e2 ⊢
    exact ⟨e1.symm, e2.symm⟩
  rw [hpt]
  exact inRect2_of_box2Le b (seg2Box S) hle _ (segPoint2_in_bounds S.1 S.2 a ha0 ha1)

/-- **`bvh_triangle_collisions`** — 3-D `BVHToCollider(b).TriangleCollisions(q)` over a BVH of any shape and width
returns **the concatenation of what ALL stored triangles return**, in the order of the hierarchy. -/
theorem bvh_triangle_collisions {sqrtF : K → K} (hs : SqrtOK sqrtF) (eps : K) (heps : 0 < eps)
    (t : WTree (Tri K)) (q : Tri K) :
    bvhTriTri sqrtF eps t q = t.leaves.flatMap (fun T => (triTri sqrtF eps T q).toList) := by
  unfold bvhTriTri
  apply wtList_eq
  intro n _ T hT hne
  apply wtGate3_of_leaf triBox _ n T hT
  intro b hle
  cases hq : triTri sqrtF eps T q with
  | none => rw [hq] at hne; exact absurd rfl hne
  | some s =>
    have hnp := triTri_some_common hs eps heps T q s hq
    obtain ⟨_, _, _, _, p1, p2, hc, _⟩ := (triTri_cases sqrtF eps T q).1 s hq
    have hcom := (triTriCore_some T.1 T.2.1 T.2.2 q.1 q.2.1 q.2.2 hnp p1 p2 hc p1).2
      ⟨0, le_rfl, zero_le_one, by simp [V3.add, V3.scale]⟩
    exact boxOverlap3_of_point (triMin q) (triMax q) b.1 b.2 p1 (inTri_in_bounds q p1 hcom.2)
      (inBox_of_box3Le b (triBox T) hle _ (inTri_in_bounds T p1 hcom.1))

/-- non-vacuity, and what the seeded change C07-14 breaks: the four sides of the rectangle `[0,4] × [0,2]` as the four
children of ONE branch.  A small box across the third child (the top side) touches the outline, a segment across the
fourth child (the left side) crosses it — the collider of the whole BVH says so; a conversion that keeps only
`Branch[0]` and `Branch[1]` (`WTree.firstTwo`) answers "not touching" twice. -/
example :
    let sides : WTree (V2 ℚ × V2 ℚ) :=
      .leafCons (⟨0, 0⟩, ⟨4, 0⟩) (.leafCons (⟨4, 0⟩, ⟨4, 2⟩) (.leafCons (⟨4, 2⟩, ⟨0, 2⟩) (.leafCons (⟨0, 2⟩, ⟨0, 0⟩) .nil)))
    sides.width = 4 ∧ sides.leaves.length = 4 ∧ sides.firstTwo.leaves.length = 2 ∧
    bvhRect2 (fun x => x) (1/100000000) sides ⟨1, 3/2⟩ ⟨2, 5/2⟩ = true ∧
    bvhRect2 (fun x => x) (1/100000000) sides.firstTwo ⟨1, 3/2⟩ ⟨2, 5/2⟩ = false ∧
    bvhSegment2 (fun x => x) (1/100000000) sides ⟨-1, 1⟩ ⟨1, 1⟩ = true ∧
    bvhSegment2 (fun x => x) (1/100000000) sides.firstTwo ⟨-1, 1⟩ ⟨1, 1⟩ = false := by
  refine ⟨?_, ?_, ?_, ?_, ?_, ?_, ?_⟩ <;> decide +kernel

/-- non-vacuity in 3-D: two triangles of the plane `z = 0` in a branch child, two of the plane `z = 1` as the third and
fourth child of the root (widths 3 and 2): a vertical segment through `z = 1` only is found, and only in the whole BVH. -/
example :
    let t : WTree (Tri3 ℚ) :=
      .nodeCons (.leafCons (⟨0, 0, 0⟩, ⟨1, 0, 0⟩, ⟨0, 1, 0⟩) (.leafCons (⟨1, 1, 0⟩, ⟨0, 1, 0⟩, ⟨1, 0, 0⟩) .nil))
        (.leafCons (⟨0, 0, 1⟩, ⟨1, 0, 1⟩, ⟨0, 1, 1⟩) (.leafCons (⟨1, 1, 1⟩, ⟨0, 1, 1⟩, ⟨1, 0, 1⟩) .nil))
    t.width = 3 ∧ t.maxWidth = 3 ∧ t.leaves.length = 4 ∧ t.firstTwo.leaves.length = 3 ∧
    bvhSegment3 (fun x => x) (1/100000000) t ⟨3/4, 3/4, 1/2⟩ ⟨3/4, 3/4, 3/2⟩ = true ∧
    bvhSegment3 (fun x => x) (1/100000000) t.firstTwo ⟨3/4, 3/4, 1/2⟩ ⟨3/4, 3/4, 3/2⟩ = false := by
  refine ⟨?_, ?_, ?_, ?_, ?_, ?_⟩ <;> decide +kernel

end M3d.C07
