import M3d.Lemmas.CollideWrap
import M3d.Lemmas.CollideBall
import M3d.Lemmas.CollideXf
import Mathlib.Algebra.Order.Field.Rat
/-!
# C07 — Colliders report consistent ray and ball collisions

Property theorems only.  Models: `M3d/Model/Collide.lean` (generic scalar; executed at `Rat` and `Float` by
`M3d/Drv/C07.lean`).  Lemmas: `M3d/Lemmas/Collide*.lean`.  `K` is any linear ordered field; `math.Sqrt` is
the parameter `sqrtF` under the hypothesis `SqrtOK sqrtF`; `1e-8` is the parameter `eps`.
-/
set_option linter.unusedSectionVars false
namespace M3d.C07
open M3d.Col

variable {K : Type} [Field K] [LinearOrder K] [IsStrictOrderedRing K]

/-! ## (1) the contract and the wrappers -/

/-- **The Boolean contract evaluated by the driver on observations of the real code is necessary for the
contract**: if `RayCollisions`/`FirstRayCollision` of a collider satisfy `Contract` for a ray (count =
callbacks = count without callback, parameters ≥ 0, first = minimum, exists ⇔ count ≠ 0), then `obsOk` holds
of what was observed.  A `false` reported by the `obs` correspondence kinds is therefore a violation. -/
theorem contract_obs {R H : Type} (tOf : H → K) (c : Collider R H) (r : R) (hc : Contract tOf c r) (dflt : K) :
    obsOk (c.ray r false).1 (c.ray r true).1 (c.first r).isSome
      (match c.first r with | some h => tOf h | none => dflt) ((c.ray r true).2.map tOf) = true :=
  obsOk_of_contract tOf c r hc dflt

/-- **`first_is_min`**: a `FirstRayCollision` implemented as `RayCollisions` with the callback
`if !ok || rc.Scale < res.Scale {…}` (Capsule, Cylinder, Cone, Torus, 2-D Triangle, profileCollider) returns a
callback of minimal parameter, and returns one iff there is a callback. -/
theorem first_is_min {H : Type} (tOf : H → K) (calls : List H) :
    ((minFirst tOf calls none).isSome = true ↔ calls ≠ []) ∧
    ∀ h, minFirst tOf calls none = some h → h ∈ calls ∧ ∀ h' ∈ calls, tOf h ≤ tOf h' :=
  ⟨minFirst_none_isSome tOf calls, minFirst_none_spec tOf calls⟩

/-- **`joined_contract`**: `JoinedCollider` / `joinedMultiCollider` satisfy the contract for a ray if all
children do (whatever the bounding-box prefilter answers), and when the prefilter admits the ray the
callbacks are the concatenation of the children's callbacks, the count the sum of their counts and the first
collision a minimum over the children's first collisions. -/
theorem joined_contract {R H : Type} (tOf : H → K) (admits : R → Bool) (parts : List (Collider R H)) (r : R)
    (hp : ∀ c ∈ parts, Contract tOf c r) :
    Contract tOf (joined tOf admits parts) r ∧
    (admits r = true → ∀ cb, (joined tOf admits parts).ray r cb =
        ((parts.map fun c => (c.ray r cb).1).sum, parts.flatMap fun c => (c.ray r cb).2)) ∧
    (admits r = true → ∀ h, (joined tOf admits parts).first r = some h →
        (∃ c ∈ parts, c.first r = some h) ∧ ∀ c ∈ parts, ∀ h', c.first r = some h' → tOf h ≤ tOf h') :=
  ⟨joined_contract' tOf admits parts r hp,
   fun ha cb => joinedRay_eq admits parts r cb ha,
   fun ha => (joinedFirst_spec tOf admits parts r ha).2⟩

/-- **`profile_contract`**: `profileCollider` (vertical-ray, flat-ray and general case with the two face
tests and the side filter) satisfies the contract whenever the 2-D collider's callbacks for the projected
ray have non-negative parameters. -/
theorem profile_contract (ray2 : V2 K → V2 K → List (Hit2 K)) (solid2 : V2 K → Bool) (minZ maxZ : K)
    (r : V3 K × V3 K) (h2 : ∀ rc ∈ ray2 r.1.xy r.2.xy, 0 ≤ rc.t) :
    Contract Hit.t (profileCollider ray2 solid2 minZ maxZ) r :=
  profile_contract' ray2 solid2 minZ maxZ r h2

/-- The side filter and the face parameters of `profileCollider` mean what they should: for a non-flat ray
`minT ≤ t ≤ maxT` iff the ray point at `t` has `minZ ≤ z ≤ maxZ`, and the two face parameters put the ray
point on the planes `z = minZ`, `z = maxZ`. -/
theorem profile_faces_and_sides (minZ maxZ oz dz t : K) (hdz : dz ≠ 0) (hz : minZ ≤ maxZ) :
    let t0 := (minZ - oz) / dz
    let t1 := (maxZ - oz) / dz
    ((if t1 < t0 then t1 else t0) ≤ t ∧ t ≤ (if t1 < t0 then t0 else t1) ↔
        minZ ≤ oz + dz * t ∧ oz + dz * t ≤ maxZ) ∧
      oz + dz * t0 = minZ ∧ oz + dz * t1 = maxZ :=
  profile_z_range minZ maxZ oz dz t hdz hz

/-- **`capsule_phantom_contract`**: `Capsule.RayCollisions` — candidates from the two end spheres and the
side, sorted; the first reported only if the origin is outside, the last always, everything in between
(the "phantom" hits with the inner hemispheres) dropped — satisfies the contract for every candidate list
with non-negative parameters; with two or more candidates the reported ones are a minimum (origin outside)
and a maximum of the candidates. -/
theorem capsule_phantom_contract {R H : Type} (tOf : H → K) (cands : R → List H) (inside : R → Bool) (r : R)
    (hnn : ∀ h ∈ cands r, 0 ≤ tOf h) :
    Contract tOf (capsuleLike tOf cands inside) r ∧
    ∀ x y rest, cands r = x :: y :: rest →
      ∃ lo hi, lo ∈ cands r ∧ hi ∈ cands r ∧ (∀ h ∈ cands r, tOf lo ≤ tOf h ∧ tOf h ≤ tOf hi) ∧
        ((capsuleLike tOf cands inside).ray r true).2 = (if inside r then [] else [lo]) ++ [hi] := by
  refine ⟨capsuleLike_contract tOf cands inside r hnn, ?_⟩
  intro x y rest hc
  obtain ⟨lo, hi, h1, h2, h3, h4⟩ := capsuleSelect_extremes tOf x y rest (inside r)
  refine ⟨lo, hi, by rw [hc]; exact h1, by rw [hc]; exact h2, by rw [hc]; exact h3, ?_⟩
  show (capsuleSelect tOf (cands r) (inside r) true).2 = _
  rw [hc]; exact h4

/-- Why dropping them is right: a point of an end sphere (`|p - P1|² = r²`) is within `r` of the capsule's
axis line (squared, un-normalised axis `v`), so a phantom hit — one whose axial coordinate lies between the
end points — is inside the convex capsule, i.e. between the entry and the exit. -/
theorem capsule_phantom_inside (p1 v p : V3 K) (radius : K)
    (hon : (p.sub p1).dot (p.sub p1) = radius * radius) :
    (p.sub p1).dot (p.sub p1) * v.dot v - (p.sub p1).dot v * (p.sub p1).dot v ≤ radius * radius * v.dot v :=
  Col.capsule_phantom_inside p1 v p radius hon

/-- **`transformed_contract`**: `transformedCollider` (for any transform: it forwards the inner ray, maps
each callback one-to-one and keeps the parameter) satisfies the contract for a ray when the wrapped collider
satisfies it for the inner ray.  (That the inner ray corresponds point-by-point with equal parameters and
that the mapped normal is the unit outward normal of the image is C05's `transform_collider_*`.) -/
theorem transformed_contract {R H R' H' : Type} (tOf : H → K) (tOf' : H' → K) (inner : Collider R H)
    (innerRay : R' → R) (outer : H → H') (hpar : ∀ h, tOf' (outer h) = tOf h) (r : R')
    (hc : Contract tOf inner (innerRay r)) : Contract tOf' (transformed inner innerRay outer) r :=
  transformed_contract' tOf tOf' inner innerRay outer hpar r hc

/-! ## (2) exact hits -/

/-- **`sphere_hits_on_surface`** (`Sphere.RayCollisions`, also `Circle` on `z = 0`; any non-zero, possibly
non-unit direction).  With `disc = b² - 4ac` the discriminant of the code's quadratic:
* `disc < 0`: the ray's line misses the sphere, and nothing is reported;
* otherwise, if roots `t1 ≤ t2` are computed (`disc > 0`): both lie on the sphere
  (`‖o + t·d - c‖² = r²`), every ray point on the sphere is one of them, and the reported parameters are
  exactly those of `t1, t2` that are `≥ 0`, in increasing order (so both when both are `≥ 0`). -/
theorem sphere_hits_on_surface {sqrtF : K → K} (hs : SqrtOK sqrtF) (center : V3 K) (radius : K) (o d : V3 K)
    (hd : d.dot d ≠ 0) :
    (sphDisc center radius o d < 0 →
        sphereHits sqrtF center radius o d = [] ∧ ∀ t, (o.along d t).distSq center ≠ radius * radius) ∧
    (∀ t1 t2, sphereRoots sqrtF center radius o d = some (t1, t2) →
        0 < sphDisc center radius o d ∧ t1 ≤ t2 ∧
        (o.along d t1).distSq center = radius * radius ∧ (o.along d t2).distSq center = radius * radius ∧
        (∀ t, (o.along d t).distSq center = radius * radius → t = t1 ∨ t = t2) ∧
        (sphereHits sqrtF center radius o d).map Hit.t = [t1, t2].filter fun t => decide (0 ≤ t)) := by
  refine ⟨fun hneg => ⟨?_, sphere_no_hit_of_neg_disc center radius o d hneg⟩, fun t1 t2 h => ?_⟩
  · have := (sphereRoots_none_iff sqrtF center radius o d).2 (le_of_lt hneg)
    simp [sphereHits, this]
  · obtain ⟨h1, h2, h3, h4, h5, _⟩ := sphereRoots_some hs center radius o d hd t1 t2 h
    refine ⟨h1, h2, h3, h4, h5, ?_⟩
    rw [sphereHits_ts, h]

/-- The normal reported by `Sphere.RayCollisions` at a hit is the unit vector from the centre to the hit
point: squared length 1 and a positive multiple of `p - c` (outward). -/
theorem sphere_normal_unit_outward {sqrtF : K → K} (hs : SqrtOK sqrtF) (center p : V3 K) (radius : K)
    (hr : radius ≠ 0) (hon : p.distSq center = radius * radius) :
    ((p.sub center).normalize sqrtF).dot ((p.sub center).normalize sqrtF) = 1 ∧
    ∃ k : K, 0 < k ∧ (p.sub center).normalize sqrtF = (p.sub center).scale k := by
  have hne : (p.sub center).dot (p.sub center) ≠ 0 := by
    have : (p.sub center).dot (p.sub center) = p.distSq center := by
      simp only [V3.dot, V3.sub, V3.distSq]
    rw [this, hon]; exact mul_ne_zero hr hr
  exact ⟨V3.normalize_unit hs _ hne, V3.normalize_pos_mul hs _ hne⟩

/-- **`rect_hits`** (`rayCollisionWithBounds` + `Rect.RayCollisions`, slab method, any direction with a
non-zero component).  If the loop returns `(mn, mx)`: for `t ≥ 0` the ray point lies in the closed box iff
`mn ≤ t ≤ mx`; nothing is reported iff `mx < mn ∨ mx < 0` — and then no ray point is in the box —, otherwise
the reported parameters are the entry `mn` (unless negative: origin inside) and the exit `mx`. -/
theorem rect_hits (lo hi o d : V3 K) (hbox : lo.x ≤ hi.x ∧ lo.y ≤ hi.y ∧ lo.z ≤ hi.z) (mn mx : K)
    (h : slabLoop (axes3 o d lo hi) none none = (some mn, some mx)) :
    (∀ t, 0 ≤ t → (InBox lo hi (o.along d t) ↔ mn ≤ t ∧ t ≤ mx)) ∧
    rectTs lo hi o d = (if mx < mn ∨ mx < 0 then [] else if mn < 0 then [mx] else [mn, mx]) ∧
    (rectTs lo hi o d = [] → ∀ t, 0 ≤ t → ¬ InBox lo hi (o.along d t)) := by
  refine ⟨fun t ht => rect_interval lo hi o d hbox mn mx h t ht, rectTs_eq lo hi o d mn mx h, ?_⟩
  intro hempty t ht hin
  rw [rectTs_eq lo hi o d mn mx h] at hempty
  obtain ⟨h1, h2⟩ := (rect_interval lo hi o d hbox mn mx h t ht).1 hin
  by_cases hc : mx < mn ∨ mx < 0
  · rcases hc with hc | hc <;> linarith
  · simp only [hc, if_false] at hempty
    split at hempty <;> cases hempty

/-- **`triangle_hit_iff`** (`Triangle.RayCollisions`, Möller–Trumbore, non-unit directions).  A collision
with parameter `t` is reported iff the ray is not rejected by the library's near-parallel test, the
determinant `(d × (c-a))·(b-a)` is non-zero, and the (then unique) solution of
`o + t·d = a + u·(b-a) + v·(c-a)` has `u, v ≥ 0`, `u + v ≤ 1`, `t ≥ 0`.  The determinant is
`-d·((b-a)×(c-a))`: a ray exactly parallel to the triangle's plane reports nothing. -/
theorem triangle_hit_iff (sqrtF : K → K) (eps : K) (a b c o d : V3 K) :
    (∀ t, (triHits sqrtF eps a b c o d).map Hit.t = [t] ↔
      ¬ triNearPar sqrtF eps a b c d ∧ triDet a b c d ≠ 0 ∧
        ∃ u v, TriEq a b c o d t u v ∧ 0 ≤ u ∧ 0 ≤ v ∧ u + v ≤ 1 ∧ 0 ≤ t) ∧
    (triHits sqrtF eps a b c o d).length ≤ 1 ∧
    triDet a b c d = -(d.dot ((b.sub a).cross (c.sub a))) ∧
    (triDet a b c d = 0 → triHits sqrtF eps a b c o d = []) ∧
    (triDet a b c d ≠ 0 → ∀ t u v t' u' v', TriEq a b c o d t u v → TriEq a b c o d t' u' v' →
      t = t' ∧ u = u' ∧ v = v') := by
  refine ⟨triHits_ts_iff sqrtF eps a b c o d, triHits_length_le sqrtF eps a b c o d, triDet_eq a b c d, ?_,
    fun hd t u v t' u' v' => tri_solution_unique a b c o d hd t u v t' u' v'⟩
  intro h0
  unfold triHits
  cases hr : triRay sqrtF eps a b c o d with
  | none => rfl
  | some s => exact absurd h0 ((triRay_iff sqrtF eps a b c o d s).1 hr).2.1

/-- **`segment2d_hit_iff`** (2-D `Segment.RayCollisions`, non-unit directions, `det ≠ 0`): a collision with
parameter `t` is reported iff the ray is not rejected as near-parallel and the unique solution of
`s0 + a·(s1-s0) = o + t·d` has `0 ≤ a ≤ 1` and `t ≥ 0`. -/
theorem segment2d_hit_iff (sqrtF : K → K) (eps : K) (s0 s1 o d : V2 K) (hdet : segDet s0 s1 d ≠ 0) (t : K) :
    (seg2Hits sqrtF eps s0 s1 o d).map Hit2.t = [t] ↔
      ¬ segNearPar sqrtF eps s0 s1 d ∧ ∃ a, SegEq s0 s1 o d t a ∧ 0 ≤ a ∧ a ≤ 1 ∧ 0 ≤ t := by
  unfold seg2Hits
  cases hr : seg2Ray sqrtF eps s0 s1 o d with
  | none =>
    simp only [List.map_nil, List.nil_eq, reduceCtorEq, false_iff, not_and, not_exists]
    intro hp a he h0 h1 _
    have := (seg2Ray_iff sqrtF eps s0 s1 o d true t hdet).2 ⟨hp, a, he, by simp [h0, h1]⟩
    rw [hr] at this; cases this
  | some p =>
    obtain ⟨hit, t'⟩ := p
    obtain ⟨hp, a', he', hh'⟩ := (seg2Ray_iff sqrtF eps s0 s1 o d hit t' hdet).1 hr
    have huniq : ∀ a, SegEq s0 s1 o d t a → t = t' ∧ (0 ≤ a ∧ a ≤ 1 → hit = true) := by
      intro a he
      have h1 := (seg2Ray_iff sqrtF eps s0 s1 o d (decide (0 ≤ a ∧ a ≤ 1)) t hdet).2
        ⟨hp, a, he, by simp⟩
      rw [hr] at h1
      simp only [Option.some.injEq, Prod.mk.injEq] at h1
      exact ⟨h1.2.symm, fun h => by rw [h1.1]; simpa using h⟩
    cases hit with
    | false =>
      simp only [List.map_nil, List.nil_eq, reduceCtorEq, false_iff, not_and, not_exists]
      intro _ a he h0 h1 _
      exact absurd ((huniq a he).2 ⟨h0, h1⟩) (by simp)
    | true =>
      have ha' := hh'.1 rfl
      simp only []
      by_cases hnn : 0 ≤ t'
      · simp only [hnn, if_true, List.map_cons, List.map_nil, List.cons.injEq, and_true]
        constructor
        · intro h; subst h
          exact ⟨hp, a', he', ha'.1, ha'.2, hnn⟩
        · rintro ⟨_, a, he, _⟩
          exact ((huniq a he).1).symm
      · simp only [hnn, if_false, List.map_nil, List.nil_eq, reduceCtorEq, false_iff, not_and, not_exists]
        intro _ a he _ _ ht
        rw [(huniq a he).1] at ht
        exact absurd ht hnn

/-- **`plane_circle_hit`** (`castPlane`, `castCircle` — the caps of `Cylinder` and the base of `Cone`), for a
ray not parallel to the plane: `castPlane` reports `t` iff it is not rejected as near-parallel, `t ≥ 0` and
`(o + t·d)·n = bias`; `castCircle` reports `(t, normal)` iff moreover the point is within `radius` of the
centre (squared form), the plane being the one through `center`, and the reported normal is `normal`. -/
theorem plane_circle_hit {sqrtF : K → K} (hs : SqrtOK sqrtF) (eps : K) (normal center : V3 K) (bias radius : K)
    (hr : 0 ≤ radius) (o d : V3 K) (hdn : d.dot normal ≠ 0) :
    (∀ t, castPlane sqrtF eps normal bias o d = some t ↔
      ¬ (|d.dot normal| < eps * d.norm sqrtF * normal.norm sqrtF) ∧ 0 ≤ t ∧ (o.along d t).dot normal = bias) ∧
    (∀ h, castCircle sqrtF eps normal center radius o d = some h ↔
      ¬ (|d.dot normal| < eps * d.norm sqrtF * normal.norm sqrtF) ∧ 0 ≤ h.t ∧
        ((o.along d h.t).sub center).dot normal = 0 ∧ (o.along d h.t).distSq center ≤ radius * radius ∧
        h.n = normal) :=
  ⟨fun t => castPlane_iff sqrtF eps normal bias o d t hdn,
   fun h => castCircle_iff hs eps normal center radius hr o d h hdn⟩

/-- **The (repaired, commit dfda33e) normal of `Cone.RayCollisions` is perpendicular to the cone**: for the
unit radial direction `radial ⟂ H` at the hit, `H = Tip - Base`, `|H| = h`, the vector that is normalised,
`radial·h + H·(R/h)`, is orthogonal to the generator `H - R·radial` and to the tangent of the base circle, and
has positive radial component (outward).  The formula before the repair, `radial·R + H`, has inner product
`h² - R²` with the generator: wrong unless `R = h`. -/
theorem cone_normal_perpendicular (radial hv tang : V3 K) (h radius : K) (hh : 0 < h)
    (hunit : radial.dot radial = 1) (horth : radial.dot hv = 0) (hnorm : hv.dot hv = h * h)
    (ht1 : tang.dot radial = 0) (ht2 : tang.dot hv = 0) (hR : 0 ≤ radius) :
    ((coneNormalDir radial hv h radius).dot (hv.sub (radial.scale radius)) = 0 ∧
      (coneNormalDir radial hv h radius).dot tang = 0 ∧
      0 < (coneNormalDir radial hv h radius).dot radial) ∧
    ((radial.scale radius).add hv).dot (hv.sub (radial.scale radius)) = h * h - radius * radius :=
  ⟨coneNormal_orthogonal radial hv tang h radius hh hunit horth hnorm ht1 ht2 hR,
   coneNormal_old_wrong radial hv h radius hunit horth hnorm⟩

/-! ## (3) parity -/

/-- **`parity_inside_box_partial`** — the single-convex-cell version of `parity_inside` for `Rect`: for a
ray whose origin is not on the entry plane (general position), the number of reported collisions is odd
iff the origin is in the box.
*Missing for the full statement*: for an arbitrary closed orientable (edge-balanced) triangle soup and a ray
meeting no edge or vertex, "crossings odd ⇔ origin inside (winding number ≠ 0)" needs a Jordan–Brouwer type
argument (invariance of the signed crossing number under moving the ray), which is not formalised; for
meshes, tori, cones, profiles and transformed shapes it is checked on the real code against an independent
winding-number / analytic containment computation by the harness (`c07:parity-vs-contains/*`). -/
theorem parity_inside_box_partial (lo hi o d : V3 K) (hbox : lo.x ≤ hi.x ∧ lo.y ≤ hi.y ∧ lo.z ≤ hi.z) (mn mx : K)
    (h : slabLoop (axes3 o d lo hi) none none = (some mn, some mx)) (hgen : mn ≠ 0) :
    (rectTs lo hi o d).length % 2 = 1 ↔ InBox lo hi o :=
  parity_box lo hi o d hbox mn mx h hgen

/-- **`parity_inside_sphere_partial`** — the convex cell `Sphere` (and `Circle`): for an origin not on the
surface, the number of reported collisions is odd iff the origin is strictly inside. -/
theorem parity_inside_sphere_partial {sqrtF : K → K} (hs : SqrtOK sqrtF) (center : V3 K) (radius : K)
    (o d : V3 K) (hd : d.dot d ≠ 0) (hgen : o.distSq center ≠ radius * radius) :
    (sphereHits sqrtF center radius o d).length % 2 = 1 ↔ o.distSq center < radius * radius :=
  parity_sphere hs center radius o d hd hgen

/-! ## (4) ball queries -/

/-- **`ball_touches_iff`, 2-D `Segment.CircleCollision`** (end-point / interior-projection cases): true iff
some point of the segment is at distance `< r` from the centre (the library's convention for segments and
triangles is the *open* ball), for a non-degenerate segment and `r ≥ 0`. -/
theorem ball_touches_iff_segment2d {sqrtF : K → K} (hs : SqrtOK sqrtF) (s0 s1 c : V2 K) (r : K) (hr : 0 ≤ r)
    (hne : (s1.sub s0).dot (s1.sub s0) ≠ 0) :
    seg2Circle sqrtF s0 s1 c r = true ↔
      ∃ lam, 0 ≤ lam ∧ lam ≤ 1 ∧ (s0.add ((s1.sub s0).scale lam)).distSq c < r * r :=
  seg2Circle_iff hs s0 s1 c r hr hne

/-- **`ball_touches_iff`, primitives with `SphereCollision = |SDF| ≤ r`, instance `Sphere`/`Circle`**:
`|R - dist(c, center)| ≤ r` iff some point of the sphere's surface is within distance `r` of `c` (closed
ball).  (For Rect/Capsule/Cylinder/Cone/Torus the same statement follows from exactness of their SDF — C06.) -/
theorem ball_touches_iff_sphere {sqrtF : K → K} (hs : SqrtOK sqrtF) (center : V3 K) (R : K) (c : V3 K) (r : K)
    (hR : 0 ≤ R) (hr : 0 ≤ r) :
    |R - c.dist sqrtF center| ≤ r ↔ ∃ p : V3 K, p.distSq center = R * R ∧ p.distSq c ≤ r * r :=
  sphere_ball_iff hs center R c r hR hr

/-- **`ball_touches_iff`, `Triangle.SphereCollision`** — the vertex / edge / face case analysis *is* the
squared distance to the triangle: the sqrt-free predicate `triBallSpec` ("an end point or the foot of the
perpendicular on an edge is within `q`, or the foot of the perpendicular on the plane has barycentric
coordinates in range and the plane is within `q`"; `q = r²`) holds iff some point `a + u(b-a) + v(c-a)`,
`u, v ≥ 0`, `u + v ≤ 1`, of the (non-degenerate) triangle has squared distance `< q` from the centre.  The
closest-point lemma it rests on (`tri_closest_gram`, `exit_param`) is proved, not assumed.  The Go method
(`triSphere`, which takes square roots and reuses `rayCollision` along the normal for the face case) is
compared with `triBallSpec` on every `ballx` case of the correspondence, at `Rat`, and the line is refused
(`MODEL-NE-SPEC`) if they differ. -/
theorem ball_touches_iff_triangle (a b c ctr : V3 K) (q : K)
    (hnd : ((b.sub a).cross (c.sub a)).dot ((b.sub a).cross (c.sub a)) ≠ 0) :
    triBallSpec a b c ctr q = true ↔
      ∃ u v, 0 ≤ u ∧ 0 ≤ v ∧ u + v ≤ 1 ∧ (triPoint a b c u v).distSq ctr < q :=
  triBallSpec_iff a b c ctr q hnd

/-- … and the edge case alone: `segBallSpec` holds iff some point of the segment is within `q`. -/
theorem ball_touches_iff_segment3d (p1 p2 ctr : V3 K) (q : K) (hne : (p2.sub p1).dot (p2.sub p1) ≠ 0) :
    segBallSpec p1 p2 ctr q = true ↔
      ∃ lam, 0 ≤ lam ∧ lam ≤ 1 ∧ (p1.add ((p2.sub p1).scale lam)).distSq ctr < q :=
  segBallSpec_iff p1 p2 ctr q hne

/-! ## (5) ball / circle queries against transformed colliders

`TransformCollider(t, c)` for a `DistTransform` `t`: `Tf.Xf` / `Tf.Xf2` are the models of the transforms of
`model3d/transform.go` / `model2d/transform.go` (shared with C05), `Tf.Xf.DistValid t` says that `t` is built
from translations, uniform scales with a non-zero factor of either sign, orthogonal matrices (rotations,
reflections) and `JoinedTransform`s of those (nested too) — everything `TransformCollider` accepts without
panicking —, and `t.factor > 0` is the factor by which `t` multiplies distances (`ApplyDistance d = d·factor`). -/

/-- **`transformed_ball_query`** — `transformedCollider.SphereCollision(c, r)` / `CircleCollision` ask the
wrapped collider about the inverse-mapped centre with the radius **divided** by the distance factor of `t`
(which is positive).  (A radius converted with the forward transform would be `r·factor`, off by `factor²`.) -/
theorem transformed_ball_query (t : Tf.Xf K) (h : t.DistValid) (sph : V3 K → K → Bool) (t2 : Tf.Xf2 K)
    (h2 : t2.DistValid) (circ : V2 K → K → Bool) :
    (0 < t.factor ∧ ∀ p r, tSphere t sph p r = sph (xfApply t.inverse p) (r / t.factor)) ∧
    (0 < t2.factor ∧ ∀ p r, tCircle t2 circ p r = circ (xf2Apply t2.inverse p) (r / t2.factor)) :=
  ⟨⟨Tf.Xf.factor_pos t h, fun p r => tSphere_eq t h sph p r⟩,
   ⟨Tf.Xf2.factor_pos t2 h2, fun p r => tCircle_eq t2 h2 circ p r⟩⟩

/-- **`transformed_ball_touches_iff`** — if the wrapped collider's ball query answers "touching" exactly when
its surface `S` has a point within `ρ` of the query centre (open ball `<`, the convention of triangles,
segments and meshes; or closed ball `≤`, the convention of the `|SDF| ≤ r` primitives), for every centre and
every `ρ ≥ 0`, then the transformed collider's ball query answers "touching" exactly when the **image surface**
`t(S)` has a point within `r` of the centre — for every similarity `t`, centre and `r ≥ 0`. -/
theorem transformed_ball_touches_iff (t : Tf.Xf K) (h : t.DistValid) (S : V3 K → Prop) (sph : V3 K → K → Bool)
    (p : V3 K) (r : K) (hr : 0 ≤ r) :
    ((∀ q ρ, 0 ≤ ρ → (sph q ρ = true ↔ ∃ x, S x ∧ x.distSq q < ρ * ρ)) →
      (tSphere t sph p r = true ↔ ∃ x, S x ∧ (xfApply t x).distSq p < r * r)) ∧
    ((∀ q ρ, 0 ≤ ρ → (sph q ρ = true ↔ ∃ x, S x ∧ x.distSq q ≤ ρ * ρ)) →
      (tSphere t sph p r = true ↔ ∃ x, S x ∧ (xfApply t x).distSq p ≤ r * r)) :=
  ⟨fun hs => tSphere_touch_lt t h S sph hs p r hr, fun hs => tSphere_touch_le t h S sph hs p r hr⟩

/-- … the same for 2-D `transformedCollider.CircleCollision`. -/
theorem transformed_circle_touches_iff (t : Tf.Xf2 K) (h : t.DistValid) (S : V2 K → Prop)
    (circ : V2 K → K → Bool) (p : V2 K) (r : K) (hr : 0 ≤ r) :
    ((∀ q ρ, 0 ≤ ρ → (circ q ρ = true ↔ ∃ x, S x ∧ x.distSq q < ρ * ρ)) →
      (tCircle t circ p r = true ↔ ∃ x, S x ∧ (xf2Apply t x).distSq p < r * r)) ∧
    ((∀ q ρ, 0 ≤ ρ → (circ q ρ = true ↔ ∃ x, S x ∧ x.distSq q ≤ ρ * ρ)) →
      (tCircle t circ p r = true ↔ ∃ x, S x ∧ (xf2Apply t x).distSq p ≤ r * r)) :=
  ⟨fun hs => tCircle_touch_lt t h S circ hs p r hr, fun hs => tCircle_touch_le t h S circ hs p r hr⟩

/-- **`transformed_ball_touches_iff_triangle`** (what the `tballx` correspondence compares with) — a triangle
behind a `transformedCollider`: the wrapped triangle's vertex/edge/face analysis `triBallSpec`, asked as
`transformedCollider.SphereCollision` asks it (centre `t⁻¹(p)`, radius `t⁻¹.ApplyDistance(r)`), equals the same
analysis of the **image triangle** `t(a) t(b) t(c)` for the ball `(p, r)` itself, and both hold iff some point
of the image triangle is at squared distance `< r²` from `p`. -/
theorem transformed_ball_touches_iff_triangle (t : Tf.Xf K) (h : t.DistValid) (a b c p : V3 K) (r : K)
    (hnd : ((b.sub a).cross (c.sub a)).dot ((b.sub a).cross (c.sub a)) ≠ 0) :
    tSphere t (fun q ρ => triBallSpec a b c q (ρ * ρ)) p r =
        triBallSpec (xfApply t a) (xfApply t b) (xfApply t c) p (r * r) ∧
    (triBallSpec (xfApply t a) (xfApply t b) (xfApply t c) p (r * r) = true ↔
      ∃ u v, 0 ≤ u ∧ 0 ≤ v ∧ u + v ≤ 1 ∧ (xfApply t (triPoint a b c u v)).distSq p < r * r) := by
  constructor
  · rw [tSphere_eq t h, ← triBallSpec_image t h a b c p (r * r) hnd, div_mul_div_comm]
  · rw [triBallSpec_iff _ _ _ _ _ (tri_image_nondeg t h a b c hnd)]
    refine exists_congr fun u => exists_congr fun v => ?_
    rw [xfApply_triPoint t (Tf.Xf.distValid_affine t h)]

/-- **`transformed_circle_touches_iff_segment2d`** (`tcircx`) — the 2-D analogue for a segment behind a 2-D
`transformedCollider`: the pulled-back circle test of the wrapped segment = the circle test of the image
segment = some point of the image segment is at squared distance `< r²`. -/
theorem transformed_circle_touches_iff_segment2d (t : Tf.Xf2 K) (h : t.DistValid) (s0 s1 p : V2 K) (r : K)
    (hne : (s1.sub s0).dot (s1.sub s0) ≠ 0) :
    tCircle t (fun q ρ => seg2BallSpec s0 s1 q (ρ * ρ)) p r =
        seg2BallSpec (xf2Apply t s0) (xf2Apply t s1) p (r * r) ∧
    (seg2BallSpec (xf2Apply t s0) (xf2Apply t s1) p (r * r) = true ↔
      ∃ lam, 0 ≤ lam ∧ lam ≤ 1 ∧ (xf2Apply t (segPoint2 s0 s1 lam)).distSq p < r * r) := by
  constructor
  · rw [tCircle_eq t h, ← seg2BallSpec_image t h s0 s1 p (r * r) hne, div_mul_div_comm]
  · rw [seg2BallSpec_iff _ _ _ _ (seg2_image_nondeg t h s0 s1 hne)]
    refine exists_congr fun lam => ?_
    rw [xf2Apply_segPoint t]

/-- `seg2BallSpec` (the sqrt-free specification the `circx` / `tcircx` kinds print) decides "some point of the
2-D segment is at squared distance `< q`". -/
theorem ball_touches_iff_segment2d_spec (p1 p2 ctr : V2 K) (q : K) (hne : (p2.sub p1).dot (p2.sub p1) ≠ 0) :
    seg2BallSpec p1 p2 ctr q = true ↔ ∃ lam, 0 ≤ lam ∧ lam ≤ 1 ∧ (segPoint2 p1 p2 lam).distSq ctr < q :=
  seg2BallSpec_iff p1 p2 ctr q hne

/-- **`transformed_ball_touches_iff_sphere`** (`tsphx`) — `Sphere.SphereCollision` (`|R - dist| ≤ r`, with the
square root) behind a `transformedCollider` equals the sqrt-free sphere/ball test of the **image sphere**
(centre `t(center)`, radius `ApplyDistance(R) = R·factor`), and holds iff some point of the image of the sphere's
surface is within `r` (closed ball) of `p`. -/
theorem transformed_ball_touches_iff_sphere {sqrtF : K → K} (hs : SqrtOK sqrtF) (t : Tf.Xf K) (h : t.DistValid)
    (center p : V3 K) (R r : K) (hR : 0 ≤ R) (hr : 0 ≤ r) :
    tSphere t (sphereBall sqrtF center R) p r =
        ballSphereSpec (p.distSq (xfApply t center)) (t.applyDistance R) r ∧
    (tSphere t (sphereBall sqrtF center R) p r = true ↔
      ∃ x : V3 K, x.distSq center = R * R ∧ (xfApply t x).distSq p ≤ r * r) := by
  refine ⟨sphereBall_image hs t h center p R r hR hr, ?_⟩
  refine tSphere_touch_le t h (fun x => x.distSq center = R * R) _ (fun q ρ hρ => ?_) p r hr
  rw [sphereBall_iff]
  exact sphere_ball_iff hs center R q ρ hR hρ

/-- **`transformed_circle_touches_iff_circle2d`** (`tcirc2x`) — `Circle.CircleCollision` behind a 2-D
`transformedCollider` equals the sqrt-free circle/disc test of the image circle, which is
`|R·factor - dist(p, t(center))| ≤ r`. -/
theorem transformed_circle_touches_iff_circle2d {sqrtF : K → K} (hs : SqrtOK sqrtF) (t : Tf.Xf2 K)
    (h : t.DistValid) (center p : V2 K) (R r : K) (hR : 0 ≤ R) (hr : 0 ≤ r) :
    tCircle t (circleBall sqrtF center R) p r =
        ballSphereSpec (p.distSq (xf2Apply t center)) (t.applyDistance R) r ∧
    (ballSphereSpec (p.distSq (xf2Apply t center)) (t.applyDistance R) r = true ↔
      |R * t.factor - p.dist sqrtF (xf2Apply t center)| ≤ r) := by
  refine ⟨circleBall_image hs t h center p R r hR hr, ?_⟩
  rw [Tf.Xf2.applyDistance_eq]
  exact ballSphereSpec_iff hs _ _ _ (V2.distSq_nonneg _ _) (mul_nonneg hR (Tf.Xf2.factor_pos t h).le) hr

/-- **`joined_ball_any`** — `JoinedCollider.SphereCollision` / `CircleCollision` (mesh colliders): a `true`
answer means some child answered `true` (whatever the bounding-box prefilter says), and with a prefilter that
admits every ball some child accepts (soundness of `sphereTouchesBounds`: C08) it is exactly "some child". -/
theorem joined_ball_any {P : Type} (admits : P → K → Bool) (parts : List (P → K → Bool)) (c : P) (r : K) :
    (joinedBall admits parts c r = true → ∃ s ∈ parts, s c r = true) ∧
    ((∀ s ∈ parts, s c r = true → admits c r = true) →
      (joinedBall admits parts c r = true ↔ ∃ s ∈ parts, s c r = true)) :=
  joinedBall_spec admits parts c r

/-- non-vacuity: `Scale(-2)` then a quarter turn about `z` then a translation is a valid `DistTransform` with
factor 2; the unit right triangle is mapped to a triangle in the plane `z = 3`; a ball of radius `3/2` centred
`2` above the image does not touch, radius `5/2` does — whereas the radius converted with the forward factor
(`r·2` instead of `r/2`) would answer "touching" for `3/2` as well. -/
example :
    let t : Tf.Xf ℚ := .jcons (.scale (-2)) (.jcons (.ortho ⟨0, -1, 0, 1, 0, 0, 0, 0, 1⟩) (.jcons (.translate ⟨1, 1, 3⟩) .jnil))
    let tri := fun (q : V3 ℚ) (ρ : ℚ) => triBallSpec ⟨0, 0, 0⟩ ⟨1, 0, 0⟩ ⟨0, 1, 0⟩ q (ρ * ρ)
    t.applyDistance 1 = 2 ∧ ((xfApply t ⟨1, 0, 0⟩).x, (xfApply t ⟨1, 0, 0⟩).y, (xfApply t ⟨1, 0, 0⟩).z) = (1, -1, 3) ∧
    tSphere t tri ⟨3/2, 1/2, 5⟩ (3/2) = false ∧ tSphere t tri ⟨3/2, 1/2, 5⟩ (5/2) = true ∧
    tri (xfApply t.inverse ⟨3/2, 1/2, 5⟩) (t.applyDistance (3/2)) = true := by
  refine ⟨?_, ?_, ?_, ?_, ?_⟩ <;> decide +kernel

example : (Tf.Xf.jcons (.scale (-2 : ℚ)) (.jcons (.ortho ⟨0, -1, 0, 1, 0, 0, 0, 0, 1⟩)
    (.jcons (.translate ⟨1, 1, 3⟩) .jnil))).DistValid := by
  refine ⟨by show (-2 : ℚ) ≠ 0; norm_num, ?_, trivial, trivial⟩
  show Tf.M3.mul _ _ = Tf.M3.one
  simp [Tf.M3.mul, Tf.M3.transpose, Tf.M3.one]

/-- the sphere/ball specification: a sphere of radius 2 and a ball whose centre is at distance 5 -/
example :
    ballSphereSpec (25 : ℚ) 2 3 = true ∧ ballSphereSpec (25 : ℚ) 2 (5/2) = false ∧
    ballSphereSpec (1 : ℚ) 2 1 = true ∧ ballSphereSpec (1 : ℚ) 2 (1/2) = false ∧ ballSphereSpec (0 : ℚ) 2 3 = true := by
  refine ⟨?_, ?_, ?_, ?_, ?_⟩ <;> decide +kernel

/-! ## non-vacuity -/

/-- a ray through the unit box: entry 1, exit 2; from inside: exit only -/
example :
    rectTs (⟨0, 0, 0⟩ : V3 ℚ) ⟨1, 1, 1⟩ ⟨-1, 1/2, 1/2⟩ ⟨1, 0, 0⟩ = [1, 2] ∧
    rectTs (⟨0, 0, 0⟩ : V3 ℚ) ⟨1, 1, 1⟩ ⟨1/2, 1/2, 1/2⟩ ⟨0, 2, 0⟩ = [1/4] := by
  constructor <;> decide +kernel

/-- Möller–Trumbore on a right triangle with a non-unit direction: hit at `t = 1/2`, and a miss -/
example :
    (triHits (fun x : ℚ => x) (1/100000000) ⟨0, 0, 0⟩ ⟨1, 0, 0⟩ ⟨0, 1, 0⟩ ⟨1/4, 1/4, 1⟩ ⟨0, 0, -2⟩).map Hit.t = [1/2] ∧
    (triHits (fun x : ℚ => x) (1/100000000) ⟨0, 0, 0⟩ ⟨1, 0, 0⟩ ⟨0, 1, 0⟩ ⟨3/4, 3/4, 1⟩ ⟨0, 0, -2⟩).map Hit.t = [] := by
  constructor <;> decide +kernel

/-- the contract predicate rejects the observations the property forbids -/
example :
    obsOk 2 2 true (1 : ℚ) [1, 3] = true ∧
    obsOk 1 2 true (1 : ℚ) [1, 3] = false ∧      -- count without callback differs
    obsOk 2 2 true (3 : ℚ) [1, 3] = false ∧      -- first is not the minimum
    obsOk 1 1 true (-1 : ℚ) [-1] = false ∧       -- negative parameter
    obsOk 0 0 true (0 : ℚ) [] = false := by      -- first exists although count = 0
  refine ⟨?_, ?_, ?_, ?_, ?_⟩ <;> decide +kernel

/-- the unit right triangle and a ball above its interior / far from it -/
example :
    triBallSpec (⟨0, 0, 0⟩ : V3 ℚ) ⟨1, 0, 0⟩ ⟨0, 1, 0⟩ ⟨1/4, 1/4, 1/2⟩ (1/2 * (1/2) + 1/100) = true ∧
    triBallSpec (⟨0, 0, 0⟩ : V3 ℚ) ⟨1, 0, 0⟩ ⟨0, 1, 0⟩ ⟨1/4, 1/4, 1/2⟩ (1/2 * (1/2)) = false ∧
    triBallSpec (⟨0, 0, 0⟩ : V3 ℚ) ⟨1, 0, 0⟩ ⟨0, 1, 0⟩ ⟨2, 2, 0⟩ 1 = false := by
  refine ⟨?_, ?_, ?_⟩ <;> decide +kernel

end M3d.C07
