import Mathlib.Algebra.Order.Field.Basic
import Mathlib.Tactic.Linarith
import Mathlib.Tactic.SplitIfs
import M3d.Model.SmoothNaN
import M3d.Lemmas.SmoothTop2
/-!
# Lemmas for `SmoothJoinV2` with an unordered (NaN) fillet radius and with parallel normals (C04)
-/
namespace M3d.SolidAlg

section Generic
variable {α : Type} [LE α] [DecidableLE α] [LT α] [DecidableLT α] [OfNat α 0] [OfNat α 1]
  [Add α] [Sub α] [Mul α]

/-- `smoothJoinV2` is: run the loop, compute the fillet radius from the two slots, apply the test. -/
theorem smoothJoinV2_eq_slots (n : Nat) (sqrt abs : α → α) (radius : α) (es : List (α × Pt α)) :
    smoothJoinV2 n sqrt abs radius es
      = match smoothV2Slots es with
        | none => true
        | some (c0, c1) => smoothTest c0.1 c1.1 (smoothV2Radius n sqrt abs radius c0 c1) := rfl

/-- An unordered `r` fails the final test `d1*d1 + d2*d2 > r*r`, whatever the distances. -/
theorem smoothTest_unordered (c0 c1 : Option α) (r : α) (h : Unordered r) :
    smoothTest c0 c1 r = false := by
  simp only [smoothTest, decide_eq_false_iff_not]
  exact h _

/-- The loop returns early exactly when some operand is positive. -/
theorem smoothV2Slots_eq (es : List (α × Pt α)) :
    smoothV2Slots es
      = if es.any (fun e => decide (0 < e.1)) then none
        else some (stepFold (E := DN α) Prod.fst 0 ((none, fun _ => 0), (none, fun _ => 0))
              (es.map fun e => (some e.1, e.2))) := by
  unfold smoothV2Slots
  simp only [smoothLoop_eq]
  have hany : (es.map fun e => ((some e.1, e.2) : DN α)).any (fun e => posE (Prod.fst e))
      = es.any (fun e => decide (0 < e.1)) := by
    simp [List.any_map, Function.comp_def, posE]
  rw [hany]

end Generic

section Mem
variable {α E : Type} [LE α] [DecidableLE α]

/-- With at least two operands both slots hold operands' answers (no initial value is left). -/
theorem stepFold_mem_two (key : E → Option α) (st : E × E) (a b : E) (rest : List E) :
    (stepFold key 0 st (a :: b :: rest)).1 ∈ a :: b :: rest ∧
    (stepFold key 0 st (a :: b :: rest)).2 ∈ a :: b :: rest := by
  simp only [stepFold]
  have h2 : step key 1 (step key 0 st a) b = (a, b) ∨ step key 1 (step key 0 st a) b = (b, a) := by
    obtain ⟨s0, s1⟩ := st
    simp only [step]
    simp only [Nat.lt_succ_self, Nat.zero_lt_succ, if_true, Nat.one_ne_zero, if_false,
      show (0 : Nat) < 2 from by decide, show (1 : Nat) < 2 from by decide,
      show ¬ ((0 : Nat) = 1) from by decide]
    split_ifs <;> simp
  have hm := stepFold_mem key (0 + 1 + 1) (step key 1 (step key 0 st a) b) rest
  rcases h2 with h | h <;> rw [h] at hm ⊢ <;> simp only at hm
  · constructor
    · rcases hm.1 with h1 | h1 | h1 <;> simp [h1]
    · rcases hm.2 with h1 | h1 | h1 <;> simp [h1]
  · constructor
    · rcases hm.1 with h1 | h1 | h1 <;> simp [h1]
    · rcases hm.2 with h1 | h1 | h1 <;> simp [h1]

end Mem

/-! ## The scalar with a NaN -/
namespace NF
variable {K : Type}

theorem nan_mul [Mul K] (a : NF K) : (nan : NF K) * a = nan := by
  show map2 (· * ·) nan a = nan
  simp [map2, nan]

theorem mul_nan [Mul K] (a : NF K) : a * (nan : NF K) = nan := by
  show map2 (· * ·) a nan = nan
  cases h : a.v <;> simp [map2, nan, h]

theorem not_nan_lt [LT K] [DecidableLT K] (y : NF K) : ¬ ((nan : NF K) < y) := by
  show ¬ (ltB nan y = true)
  simp [ltB, nan]

/-- NaN is unordered. -/
theorem unordered_nan [LT K] [DecidableLT K] [Mul K] : Unordered (nan : NF K) := by
  intro y
  rw [nan_mul]
  exact not_nan_lt y

end NF
end M3d.SolidAlg
