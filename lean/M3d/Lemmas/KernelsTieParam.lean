import M3d.Gen.Kernels
import M3d.Model.Param
import Mathlib.Tactic.Ring
import Mathlib.Algebra.Order.Field.Basic
/-!
# Tie between the REGENERATED kernels and the `MapFn` models of C18 (`M3d/Model/Param.lean`)

`model2d.Triangle.Barycentric` (with the inverse matrix that `NewTriangle` stores:
`NewMatrix2Columns(v1, v2)` inverted in place with its determinant) and `Triangle.AtBarycentric` (2-D and
3-D) as the Go source defines them NOW are the model functions `bary2`, `atBary2`, `atBary3` of the
"UV point maps back to the point with the same barycentric position" theorems.
-/
namespace M3d.KernelsTie.Param
open M3d.Param M3d.Gen.Kernels
set_option linter.unusedSectionVars false
set_option linter.unusedVariables false
set_option linter.unusedSimpArgs false

variable {K : Type} [Field K] [LinearOrder K] [IsStrictOrderedRing K]

@[reducible] def g2 (a : V2 K) : model2d.Coord K := ⟨a.x, a.y⟩
@[reducible] def g3 (a : V3 K) : model3d.Coord3D K := ⟨a.x, a.y, a.z⟩
@[reducible] def gw (w : K × K × K) : Arr3 K := ⟨w.1, w.2.1, w.2.2⟩

/-- `Triangle.AtBarycentric` (3-D) -/
theorem atBarycentric3_eq (t : Tri3 K) (w : K × K × K) :
    model3d.Triangle_AtBarycentric ⟨g3 t.a, g3 t.b, g3 t.c⟩ (gw w) = g3 (atBary3 t w) := rfl

/-- `Triangle.AtBarycentric` (2-D); bounds and inverse matrix of the triangle value are irrelevant. -/
theorem atBarycentric2_eq (t : Tri2 K) (lo hi : model2d.Coord K) (im : model2d.Matrix2 K) (w : K × K × K) :
    model2d.Triangle_AtBarycentric ⟨⟨g2 t.a, g2 t.b, g2 t.c⟩, lo, hi, im⟩ (gw w) = g2 (atBary2 t w) := rfl

/-- the matrix `NewTriangle` stores on its non-degenerate path -/
def invMatOf (t : Tri2 K) : model2d.Matrix2 K :=
  model2d.Matrix2_InvertInPlaceDet
    (model2d.NewMatrix2Columns (model2d.Coord_Sub (g2 t.b) (g2 t.a)) (model2d.Coord_Sub (g2 t.c) (g2 t.a)))
    ((t.b.sub t.a).x * (t.c.sub t.a).y - (t.c.sub t.a).x * (t.b.sub t.a).y)

/-- `Triangle.Barycentric` on a triangle carrying that matrix is `bary2`. -/
theorem barycentric2_eq (t : Tri2 K) (lo hi : model2d.Coord K) (p : V2 K) :
    model2d.Triangle_Barycentric ⟨⟨g2 t.a, g2 t.b, g2 t.c⟩, lo, hi, invMatOf t⟩ (g2 p) = gw (bary2 t p) := by
  have hs : ∀ a b : V2 K, model2d.Coord_Sub (g2 a) (g2 b) = g2 (a.sub b) := by
    intro a b; cases a; cases b
    simp [model2d.Coord_Sub, model2d.Coord_Add, model2d.Coord_Scale, V2.sub]
    try (refine ⟨?_, ?_⟩ <;> ring)
  unfold model2d.Triangle_Barycentric invMatOf bary2
  simp only [hs]
  simp [model2d.Matrix2_InvertInPlaceDet, model2d.Matrix2_Scale, model2d.NewMatrix2Columns,
    model2d.Matrix2_MulColumn]

/-! ### The building blocks of `MapFn`'s nearest-triangle fallback (`Triangle.genericSDF`, `Rect.genericSDF`)

`genericSDF` itself writes through pointers and is outside the translated subset; the functions it is made
of are regenerated: squared distance, dot product, `Rect.Contains`, and the clamp `c.Min(max).Max(min)`. -/

/-- `Coord.SquaredDist` is `dist2` -/
theorem squaredDist_eq (a b : V2 K) : model2d.Coord_SquaredDist (g2 a) (g2 b) = dist2 a b := rfl

/-- `Coord.Dot` is `dot2` -/
theorem dot_eq (a b : V2 K) : model2d.Coord_Dot (g2 a) (g2 b) = dot2 a b := rfl

/-- `Rect.Contains` is `rectContains` -/
theorem rectContains_eq (r : Rect K) (c : V2 K) :
    model2d.Rect_Contains ⟨g2 r.lo, g2 r.hi⟩ (g2 c) = rectContains r c := by
  have h1 : ∀ x lo : K, GenPrelude.feq (GenPrelude.mn x lo) lo = !decide (x < lo) := by
    intro x lo
    unfold GenPrelude.feq GenPrelude.mn
    by_cases h : lo < x
    · simp [h, not_lt.2 (le_of_lt h)]
    · simp only [h, if_false]
      by_cases h2 : x < lo <;> simp [h2]
  have h2 : ∀ x hi : K, GenPrelude.feq (GenPrelude.mx x hi) hi = !decide (hi < x) := by
    intro x hi
    unfold GenPrelude.feq GenPrelude.mx
    by_cases h : x < hi
    · simp [h, not_lt.2 (le_of_lt h)]
    · simp only [h, if_false]
      by_cases h2 : hi < x <;> simp [h2]
  simp only [model2d.Rect_Contains, model2d.Coord_Min, model2d.Coord_Max, rectContains, h1, h2, Bool.and_assoc]

/-- the projection `c.Min(r.MaxVal).Max(r.MinVal)` of `Rect.genericSDF` is `clamp1` per coordinate -/
theorem rectClamp_eq (r : Rect K) (c : V2 K) :
    model2d.Coord_Max (model2d.Coord_Min (g2 c) (g2 r.hi)) (g2 r.lo) =
      g2 ⟨clamp1 r.lo.x r.hi.x c.x, clamp1 r.lo.y r.hi.y c.y⟩ := rfl

end M3d.KernelsTie.Param
