import M3d.Gen.Kernels
import M3d.Model.Param
import M3d.Model.ParamExt
import Mathlib.Tactic.Ring
import Mathlib.Algebra.Order.Field.Basic
/-!
# Tie between the REGENERATED kernels and the `MapFn` models of C18 (`M3d/Model/Param.lean`)

`model2d.Triangle.Barycentric` (with the inverse matrix that `NewTriangle` stores:
`NewMatrix2Columns(v1, v2)` inverted in place with its determinant) and `Triangle.AtBarycentric` (2-D and
3-D) as the Go source defines them NOW are the model functions `bary2`, `atBary2`, `atBary3` of the
"UV point maps back to the point with the same barycentric position" theorems.
-/
namespace M3d.KernelsTie.Param
open M3d.Param M3d.Gen.Kernels
set_option linter.unusedSectionVars false
set_option linter.unusedVariables false
set_option linter.unusedSimpArgs false

variable {K : Type} [Field K] [LinearOrder K] [IsStrictOrderedRing K]

@[reducible] def g2 (a : V2 K) : model2d.Coord K := ⟨a.x, a.y⟩
@[reducible] def g3 (a : V3 K) : model3d.Coord3D K := ⟨a.x, a.y, a.z⟩
@[reducible] def gw (w : K × K × K) : Arr3 K := ⟨w.1, w.2.1, w.2.2⟩

/-- `Triangle.AtBarycentric` (3-D) -/
theorem atBarycentric3_eq (t : Tri3 K) (w : K × K × K) :
    model3d.Triangle_AtBarycentric ⟨g3 t.a, g3 t.b, g3 t.c⟩ (gw w) = g3 (atBary3 t w) := rfl

/-- `Triangle.AtBarycentric` (2-D); bounds and inverse matrix of the triangle value are irrelevant. -/
theorem atBarycentric2_eq (t : Tri2 K) (lo hi : model2d.Coord K) (im : model2d.Matrix2 K) (w : K × K × K) :
    model2d.Triangle_AtBarycentric ⟨⟨g2 t.a, g2 t.b, g2 t.c⟩, lo, hi, im⟩ (gw w) = g2 (atBary2 t w) := rfl

/-- the matrix `NewTriangle` stores on its non-degenerate path -/
def invMatOf (t : Tri2 K) : model2d.Matrix2 K :=
  model2d.Matrix2_InvertInPlaceDet
    (model2d.NewMatrix2Columns (model2d.Coord_Sub (g2 t.b) (g2 t.a)) (model2d.Coord_Sub (g2 t.c) (g2 t.a)))
    ((t.b.sub t.a).x * (t.c.sub t.a).y - (t.c.sub t.a).x * (t.b.sub t.a).y)

/-- `Triangle.Barycentric` on a triangle carrying that matrix is `bary2`. -/
theorem barycentric2_eq (t : Tri2 K) (lo hi : model2d.Coord K) (p : V2 K) :
    model2d.Triangle_Barycentric ⟨⟨g2 t.a, g2 t.b, g2 t.c⟩, lo, hi, invMatOf t⟩ (g2 p) = gw (bary2 t p) := by
  have hs : ∀ a b : V2 K, model2d.Coord_Sub (g2 a) (g2 b) = g2 (a.sub b) := by
    intro a b; cases a; cases b
    simp [model2d.Coord_Sub, model2d.Coord_Add, model2d.Coord_Scale, V2.sub]
    try (refine ⟨?_, ?_⟩ <;> ring)
  unfold model2d.Triangle_Barycentric invMatOf bary2
  simp only [hs]
  simp [model2d.Matrix2_InvertInPlaceDet, model2d.Matrix2_Scale, model2d.NewMatrix2Columns,
    model2d.Matrix2_MulColumn]

/-! ### The building blocks of `MapFn`'s nearest-triangle fallback (`Triangle.genericSDF`, `Rect.genericSDF`)

`genericSDF` itself writes through pointers and is outside the translated subset; the functions it is made
of are regenerated: squared distance, dot product, `Rect.Contains`, and the clamp `c.Min(max).Max(min)`. -/

/-- `Coord.SquaredDist` is `dist2` -/
theorem squaredDist_eq (a b : V2 K) : model2d.Coord_SquaredDist (g2 a) (g2 b) = dist2 a b := rfl

/-- `Coord.Dot` is `dot2` -/
theorem dot_eq (a b : V2 K) : model2d.Coord_Dot (g2 a) (g2 b) = dot2 a b := rfl

/-- `Rect.Contains` is `rectContains` -/
theorem rectContains_eq (r : Rect K) (c : V2 K) :
    model2d.Rect_Contains ⟨g2 r.lo, g2 r.hi⟩ (g2 c) = rectContains r c := by
  have h1 : ∀ x lo : K, GenPrelude.feq (GenPrelude.mn x lo) lo = !decide (x < lo) := by
    intro x lo
    unfold GenPrelude.feq GenPrelude.mn
    by_cases h : lo < x
    · simp [h, not_lt.2 (le_of_lt h)]
    · simp only [h, if_false]
      by_cases h2 : x < lo <;> simp [h2]
  have h2 : ∀ x hi : K, GenPrelude.feq (GenPrelude.mx x hi) hi = !decide (hi < x) := by
    intro x hi
    unfold GenPrelude.feq GenPrelude.mx
    by_cases h : x < hi
    · simp [h, not_lt.2 (le_of_lt h)]
    · simp only [h, if_false]
      by_cases h2 : hi < x <;> simp [h2]
  simp only [model2d.Rect_Contains, model2d.Coord_Min, model2d.Coord_Max, rectContains, h1, h2, Bool.and_assoc]

/-- the projection `c.Min(r.MaxVal).Max(r.MinVal)` of `Rect.genericSDF` is `clamp1` per coordinate -/
theorem rectClamp_eq (r : Rect K) (c : V2 K) :
    model2d.Coord_Max (model2d.Coord_Min (g2 c) (g2 r.hi)) (g2 r.lo) =
      g2 ⟨clamp1 r.lo.x r.hi.x c.x, clamp1 r.lo.y r.hi.y c.y⟩ := rfl

/-! ### The building blocks of `ExtendBoundaryUVs` (`M3d/Model/ParamExt.lean`)

`ExtendBoundaryUVs` itself works on a `*Mesh` and a `*CoordMap` and is outside the translated subset; every numeric
function it calls is regenerated: `Coord.Normalize`, `Coord.ProjectOut`, `Segment.Dist` / `Length` (2-D),
`NewSegment`, `Segment.Dist` / `Length` (3-D).  `math.Sqrt` is the uninterpreted `HasSqrt.sqrt` on both sides. -/

section Ext
variable [GenPrelude.HasSqrt K]

theorem sub2_eq (a b : V2 K) : model2d.Coord_Sub (g2 a) (g2 b) = g2 (a.sub b) := by
  cases a; cases b
  simp [model2d.Coord_Sub, model2d.Coord_Add, model2d.Coord_Scale, V2.sub]
  try (refine ⟨?_, ?_⟩ <;> ring)

theorem sub3_eq (a b : V3 K) : model3d.Coord3D_Sub (g3 a) (g3 b) = g3 (a.sub b) := by
  cases a; cases b
  simp [model3d.Coord3D_Sub, model3d.Coord3D_Add, model3d.Coord3D_Scale, V3.sub]
  try (refine ⟨?_, ?_, ?_⟩ <;> ring)

theorem scale2_eq (c : V2 K) (s : K) : model2d.Coord_Scale (g2 c) s = g2 (c.scale s) := rfl
theorem add2_eq (a b : V2 K) : model2d.Coord_Add (g2 a) (g2 b) = g2 (a.add b) := rfl
theorem scale3_eq (c : V3 K) (s : K) : model3d.Coord3D_Scale (g3 c) s = g3 (c.scale s) := rfl
theorem add3_eq (a b : V3 K) : model3d.Coord3D_Add (g3 a) (g3 b) = g3 (a.add b) := rfl
theorem dot3_eq (a b : V3 K) : model3d.Coord3D_Dot (g3 a) (g3 b) = dot3 a b := rfl
theorem norm3_eq (c : V3 K) : model3d.Coord3D_Norm (g3 c) = norm3 c := rfl

/-- `Coord.Norm` is `norm2` -/
theorem norm2_eq (c : V2 K) : model2d.Coord_Norm (g2 c) = norm2 c := rfl

/-- `Coord.Dist` is `distE2` -/
theorem dist2d_eq (a b : V2 K) : model2d.Coord_Dist (g2 a) (g2 b) = distE2 a b := rfl

/-- `Coord.Normalize` is `normalize2` -/
theorem normalize2_eq (c : V2 K) : model2d.Coord_Normalize (g2 c) = g2 (normalize2 c) := rfl

/-- `Coord.ProjectOut` is `projectOut2` -/
theorem projectOut2_eq (c c1 : V2 K) : model2d.Coord_ProjectOut (g2 c) (g2 c1) = g2 (projectOut2 c c1) := by
  unfold model2d.Coord_ProjectOut projectOut2
  simp only [normalize2_eq, scale2_eq, dot_eq, sub2_eq]

/-- `Segment.Closest` (2-D) is `segClosest2` -/
theorem segClosest2_eq (e0 e1 c : V2 K) :
    model2d.Segment_Closest ⟨g2 e0, g2 e1⟩ (g2 c) = g2 (segClosest2 e0 e1 c) := by
  unfold model2d.Segment_Closest segClosest2
  simp only [sub2_eq, norm2_eq, scale2_eq, dot_eq, add2_eq, gt_iff_lt, decide_eq_true_eq]
  split_ifs <;> rfl

/-- `Segment.Dist` (2-D) is `segDist2` -/
theorem segDist2_eq (e0 e1 c : V2 K) : model2d.Segment_Dist ⟨g2 e0, g2 e1⟩ (g2 c) = segDist2 e0 e1 c := by
  unfold model2d.Segment_Dist segDist2
  rw [segClosest2_eq]; rfl

/-- `Segment.Length` (2-D) is `segLen2` -/
theorem segLen2_eq (e0 e1 : V2 K) : model2d.Segment_Length ⟨g2 e0, g2 e1⟩ = segLen2 e0 e1 := by
  unfold model2d.Segment_Length segLen2
  simp only [sub2_eq]; rfl

/-- `NewSegment` is `newSegment3` -/
theorem newSegment3_eq (p q : V3 K) :
    model3d.NewSegment (g3 p) (g3 q) = ⟨g3 (newSegment3 p q).1, g3 (newSegment3 p q).2⟩ := by
  unfold model3d.NewSegment newSegment3
  split_ifs <;> rfl

/-- `Segment.Closest` (3-D) is `segClosest3` -/
theorem segClosest3_eq (e0 e1 c : V3 K) :
    model3d.Segment_Closest ⟨g3 e0, g3 e1⟩ (g3 c) = g3 (segClosest3 e0 e1 c) := by
  unfold model3d.Segment_Closest segClosest3
  simp only [sub3_eq, norm3_eq, scale3_eq, dot3_eq, add3_eq, gt_iff_lt, decide_eq_true_eq]
  split_ifs <;> rfl

/-- `Segment.Dist` (3-D) is `segDist3` -/
theorem segDist3_eq (e0 e1 c : V3 K) : model3d.Segment_Dist ⟨g3 e0, g3 e1⟩ (g3 c) = segDist3 e0 e1 c := by
  unfold model3d.Segment_Dist segDist3
  rw [segClosest3_eq]; rfl

/-- `Segment.Length` (3-D) is `segLen3` -/
theorem segLen3_eq (e0 e1 : V3 K) : model3d.Segment_Length ⟨g3 e0, g3 e1⟩ = segLen3 e0 e1 := rfl

/-- The 3-D aspect ratio `NewSegment(p0, p2).Dist(p1) / NewSegment(p0, p2).Length()` is `ratio3`. -/
theorem ratio3_eq (p0 p1 p2 : V3 K) :
    model3d.Segment_Dist (model3d.NewSegment (g3 p0) (g3 p2)) (g3 p1) /
      model3d.Segment_Length (model3d.NewSegment (g3 p0) (g3 p2)) = ratio3 p0 p1 p2 := by
  rw [newSegment3_eq, segDist3_eq, segLen3_eq]; rfl

/-- The 2-D aspect ratio `Segment{uv0, uv2}.Dist(uv1) / Segment{uv0, uv2}.Length()` is `ratio2`. -/
theorem ratio2_eq (uv0 uv1 uv2 : V2 K) :
    model2d.Segment_Dist ⟨g2 uv0, g2 uv2⟩ (g2 uv1) / model2d.Segment_Length ⟨g2 uv0, g2 uv2⟩ = ratio2 uv0 uv1 uv2 := by
  rw [segDist2_eq, segLen2_eq]; rfl

/-- The stored point `uv1.Add(uv1.ProjectOut(uv2.Sub(uv0)).Normalize().Scale(extraDist))` is `pushOut`. -/
theorem pushOut_eq (uv0 uv1 uv2 : V2 K) (extra : K) :
    model2d.Coord_Add (g2 uv1) (model2d.Coord_Scale
      (model2d.Coord_Normalize (model2d.Coord_ProjectOut (g2 uv1) (model2d.Coord_Sub (g2 uv2) (g2 uv0)))) extra) =
      g2 (pushOut uv0 uv1 uv2 extra) := by
  rw [sub2_eq, projectOut2_eq, normalize2_eq]; rfl

end Ext

end M3d.KernelsTie.Param
