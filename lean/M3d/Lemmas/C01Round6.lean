import M3d.Model.ProfileMesh
import M3d.Lemmas.C01Conj
import Mathlib.Tactic.Ring
import Mathlib.Tactic.Linarith
/-!
# C01 round 6: the Conj sign tests do not depend on where the mesh is; a boundary edge of an extruded profile needs its wall
-/
namespace M3d.C01Search
section shift
variable {K : Type} [Field K]

def shiftP2 (w p : K × K) : K × K := (p.1 + w.1, p.2 + w.2)
def shiftP3 (w p : K × K × K) : K × K × K := (p.1 + w.1, p.2.1 + w.2.1, p.2.2 + w.2.2)

theorem shoe2At_shift (w o : K × K) (ss : List ((K × K) × (K × K))) :
    shoe2At (shiftP2 w o) (ss.map (map2 (shiftP2 w))) = shoe2At o ss := by
  induction ss with
  | nil => rfl
  | cons s ss ih =>
    simp only [List.map_cons, shoe2At, ih]
    simp only [map2, shiftP2, sub2, det2]
    ring

theorem vol6At_shift (w o : K × K × K) (ts : List ((K × K × K) × (K × K × K) × (K × K × K))) :
    vol6At (shiftP3 w o) (ts.map (map3 (shiftP3 w))) = vol6At o ts := by
  induction ts with
  | nil => rfl
  | cons t ts ih =>
    simp only [List.map_cons, vol6At, ih]
    simp only [map3, shiftP3, sub3, det3]
    ring

end shift
end M3d.C01Search

namespace M3d.ProfileMesh
open M3d.C01Search
variable {V : Type} [DecidableEq V]

/-- bottom-level sides of the caps are the sides of the triangulation -/
theorem pecnt_caps_bottom (T : List (Tri V)) (a b : V) :
    pecnt (caps T) ((a, false), (b, false)) = pecnt T (a, b) := by
  induction T with
  | nil => rfl
  | cons t T ih =>
    have h : caps (t :: T) = bottom t :: top t :: caps T := rfl
    obtain ⟨p, q, r⟩ := t
    unfold pecnt at ih ⊢
    rw [h]
    simp only [List.flatMap_cons, List.countP_append, ih]
    simp [psides, bottom, top, List.countP_cons, Prod.ext_iff]

/-- the only bottom-level side of a wall is its own edge -/
theorem pecnt_walls_bottom (W : List (V × V)) (a b : V) :
    pecnt (W.flatMap wall) ((a, false), (b, false)) = W.count (a, b) := by
  induction W with
  | nil => rfl
  | cons s W ih =>
    unfold pecnt at ih ⊢
    simp only [List.flatMap_cons, List.flatMap_append, List.countP_append, ih, List.count_cons]
    obtain ⟨x, y⟩ := s
    by_cases h : (x, y) = (a, b)
    · simp [wall, psides, List.countP_cons, h]
      simp [Prod.ext_iff] at h
      simp [h]
      omega
    · simp [wall, psides, List.countP_cons, h]
      simp [Prod.ext_iff] at h
      omega

theorem pecnt_append' {A : Type} [DecidableEq A] (m n : List (A × A × A)) (d : A × A) :
    pecnt (m ++ n) d = pecnt m d + pecnt n d := by
  unfold pecnt
  rw [List.flatMap_append, List.countP_append]

/-- the caps plus walls on ANY list of edges `W`: if the side `a → b` of the triangulation has no partner
(`b → a` is not a side) and the mesh is balanced on that bottom edge, then `(b, a)` — the `seg` of the loop — is in `W`. -/
theorem wall_needed (T : List (Tri V)) (W : List (V × V)) (a b : V)
    (h1 : 0 < pecnt T (a, b)) (h0 : pecnt T (b, a) = 0)
    (hbal : pecnt (caps T ++ W.flatMap wall) ((a, false), (b, false)) =
      pecnt (caps T ++ W.flatMap wall) ((b, false), (a, false))) :
    (b, a) ∈ W := by
  rw [pecnt_append', pecnt_append', pecnt_caps_bottom, pecnt_caps_bottom, pecnt_walls_bottom,
    pecnt_walls_bottom, h0] at hbal
  have : 0 < W.count (b, a) := by omega
  exact List.count_pos_iff.1 this

/-- and without the caps' partner the count of walls on an edge is forced: exactly one more wall on `(b, a)` than on `(a, b)` -/
theorem wall_count_forced (T : List (Tri V)) (W : List (V × V)) (a b : V)
    (hbal : pecnt (caps T ++ W.flatMap wall) ((a, false), (b, false)) =
      pecnt (caps T ++ W.flatMap wall) ((b, false), (a, false))) :
    pecnt T (a, b) + W.count (a, b) = pecnt T (b, a) + W.count (b, a) := by
  rw [pecnt_append', pecnt_append', pecnt_caps_bottom, pecnt_caps_bottom, pecnt_walls_bottom,
    pecnt_walls_bottom] at hbal
  exact hbal

end M3d.ProfileMesh
