import M3d.Model.RenderSampling
import Mathlib.Tactic.Ring
import Mathlib.Tactic.LinearCombination
import Mathlib.Tactic.Linarith
import Mathlib.Tactic.Positivity
import Mathlib.Tactic.FieldSimp
import Mathlib.Algebra.Order.Field.Basic
import Mathlib.Algebra.BigOperators.Group.List.Basic
/-!
Helper lemmas for C19 over an arbitrary linear ordered field.
-/
set_option linter.unusedSectionVars false
namespace M3d.RS
variable {K : Type} [Field K] [LinearOrder K] [IsStrictOrderedRing K]

/-! ### Schlick -/

theorem pow5_eq (x : K) : pow5 x = x ^ 5 := by simp only [pow5]; ring

theorem schlickR0_nonneg (ior : K) : 0 ≤ schlickR0 ior := by
  simp only [schlickR0]; exact mul_self_nonneg _

theorem schlickR0_le_one {ior : K} (h : 0 ≤ ior) : schlickR0 ior ≤ 1 := by
  simp only [schlickR0]
  have hp : 0 < ior + 1 := by linarith
  have h1 : (ior - 1) / (ior + 1) ≤ 1 := by rw [div_le_one hp]; linarith
  have h2 : -1 ≤ (ior - 1) / (ior + 1) := by rw [le_div_iff₀ hp]; linarith
  nlinarith

theorem schlick_antitone {ior : K} (h : 0 ≤ ior) {c d : K} (hd : d ≤ 1) (hcd : c ≤ d) :
    schlick ior d ≤ schlick ior c := by
  simp only [schlick, pow5_eq]
  have h1 : 0 ≤ 1 - schlickR0 ior := by linarith [schlickR0_le_one h]
  have h2 : (1 - d) ^ 5 ≤ (1 - c) ^ 5 := pow_le_pow_left₀ (by linarith) (by linarith) 5
  nlinarith

theorem schlick_one (ior : K) : schlick ior 1 = schlickR0 ior := by
  simp only [schlick, pow5_eq]; ring

theorem schlick_zero (ior : K) : schlick ior 0 = 1 := by
  simp only [schlick, pow5_eq]; ring

theorem schlick_ge_r0 {ior : K} (h : 0 ≤ ior) {c : K} (hc : c ≤ 1) : schlickR0 ior ≤ schlick ior c := by
  rw [← schlick_one]; exact schlick_antitone h le_rfl hc

theorem schlick_le_one {ior : K} (h : 0 ≤ ior) {c : K} (hc0 : 0 ≤ c) (hc : c ≤ 1) : schlick ior c ≤ 1 := by
  rw [← schlick_zero ior]; exact schlick_antitone h hc hc0

/-! ### vectors -/

theorem absS_eq_abs (x : K) : absS x = |x| := by
  simp only [absS]
  split_ifs with h
  · rw [abs_of_neg h]
  · rw [abs_of_nonneg (not_lt.mp h)]

theorem absS_nonneg (x : K) : 0 ≤ absS x := by rw [absS_eq_abs]; exact abs_nonneg x

theorem maxS_eq_max (x y : K) : maxS x y = max x y := by
  simp only [maxS]
  split_ifs with h
  · rw [max_eq_left h.le]
  · rw [max_eq_right (not_lt.mp h)]

theorem minS_eq_min (x y : K) : minS x y = min x y := by
  simp only [minS]
  split_ifs with h
  · rw [min_eq_left h.le]
  · rw [min_eq_right (not_lt.mp h)]

/-- Cauchy–Schwarz via Lagrange's identity. -/
theorem dot_sq_le (a b : V3 K) : a.dot b * a.dot b ≤ a.normSq * b.normSq := by
  simp only [V3.dot, V3.normSq]
  nlinarith [sq_nonneg (a.x * b.y - a.y * b.x), sq_nonneg (a.x * b.z - a.z * b.x),
    sq_nonneg (a.y * b.z - a.z * b.y)]

theorem abs_dot_le_one {a b : V3 K} (ha : a.normSq = 1) (hb : b.normSq = 1) : absS (a.dot b) ≤ 1 := by
  rw [absS_eq_abs]
  have h := dot_sq_le a b
  rw [ha, hb] at h
  exact abs_le_one_iff_mul_self_le_one.mpr (by linarith)

/-! ### square roots, normalisation, `OrthoBasis` -/

/-- What the theorems assume of the scalar's square root (true of `Real.sqrt`). -/
structure SqrtOK (K : Type) [Field K] [LinearOrder K] [HasSqrt K] : Prop where
  sq : ∀ x : K, 0 ≤ x → sqrt x * sqrt x = x
  nonneg : ∀ x : K, 0 ≤ sqrt x

variable [HasSqrt K]

theorem norm_eq (a : V3 K) : a.norm = sqrt a.normSq := rfl

theorem normSq_nonneg (a : V3 K) : 0 ≤ a.normSq := by
  simp only [V3.normSq]; nlinarith [mul_self_nonneg a.x, mul_self_nonneg a.y, mul_self_nonneg a.z]

theorem norm_mul_self (hs : SqrtOK K) (a : V3 K) : a.norm * a.norm = a.normSq := by
  rw [norm_eq]; exact hs.sq _ (normSq_nonneg a)

theorem norm_pos (hs : SqrtOK K) {a : V3 K} (h : 0 < a.normSq) : 0 < a.norm := by
  rcases (hs.nonneg a.normSq).lt_or_eq with h1 | h1
  · exact h1
  · have := norm_mul_self hs a
    rw [norm_eq, ← h1] at this
    linarith

theorem scale_dot (a b : V3 K) (t : K) : (a.scale t).dot b = a.dot b * t := by
  simp only [V3.scale, V3.dot]; ring

theorem dot_scale (a b : V3 K) (t : K) : a.dot (b.scale t) = a.dot b * t := by
  simp only [V3.scale, V3.dot]; ring

theorem dot_comm (a b : V3 K) : a.dot b = b.dot a := by
  simp only [V3.dot]; ring

theorem normSq_eq_dot (a : V3 K) : a.normSq = a.dot a := rfl

theorem normalize_normSq (hs : SqrtOK K) {a : V3 K} (h : 0 < a.normSq) : a.normalize.normSq = 1 := by
  have hn := norm_pos hs h
  have h2 := norm_mul_self hs a
  rw [normSq_eq_dot, V3.normalize, scale_dot, dot_scale, ← normSq_eq_dot, ← h2]
  field_simp

theorem normalize_dot (a b : V3 K) : a.normalize.dot b = a.dot b / a.norm := by
  rw [V3.normalize, scale_dot]; ring

theorem orthoRaw1_dot (c : V3 K) : (orthoRaw1 c).dot c = 0 := by
  simp only [orthoRaw1]
  split_ifs <;> simp only [V3.dot] <;> ring

theorem orthoRaw1_pos {c : V3 K} (h : 0 < c.normSq) : 0 < (orthoRaw1 c).normSq := by
  simp only [orthoRaw1, absS_eq_abs]
  split_ifs with h1 h2
  · -- |x| strictly largest
    have hx : 0 < |c.x| := lt_of_le_of_lt (abs_nonneg _) h1.1
    simp only [V3.normSq]
    have : (-c.x) / |c.x| * ((-c.x) / |c.x|) = 1 := by
      rw [div_mul_div_comm, neg_mul_neg, ← abs_mul_abs_self c.x]; exact div_self (by positivity)
    nlinarith [mul_self_nonneg (c.y / |c.x|)]
  · have hy : 0 < |c.y| := lt_of_le_of_lt (abs_nonneg _) h2
    simp only [V3.normSq]
    have : (-c.y) / |c.y| * ((-c.y) / |c.y|) = 1 := by
      rw [div_mul_div_comm, neg_mul_neg, ← abs_mul_abs_self c.y]; exact div_self (by positivity)
    nlinarith [mul_self_nonneg (c.z / |c.y|)]
  · -- m = |z|, and |z| > 0 because c ≠ 0
    have hzy : |c.y| ≤ |c.z| := not_lt.mp h2
    have hz : 0 < |c.z| := by
      by_contra hz0
      have hz0' : |c.z| = 0 := le_antisymm (not_lt.mp hz0) (abs_nonneg _)
      have hy0 : |c.y| = 0 := le_antisymm (hz0' ▸ hzy) (abs_nonneg _)
      have hx0 : |c.x| = 0 := by
        by_contra hx
        have : 0 < |c.x| := lt_of_le_of_ne (abs_nonneg _) (Ne.symm hx)
        exact h1 ⟨hy0 ▸ this, hz0' ▸ this⟩
      simp only [V3.normSq] at h
      rw [abs_eq_zero] at hz0' hy0 hx0
      rw [hz0', hy0, hx0] at h
      simp at h
    simp only [V3.normSq]
    have : c.z / |c.z| * (c.z / |c.z|) = 1 := by
      rw [div_mul_div_comm, ← abs_mul_abs_self c.z]; exact div_self (by positivity)
    nlinarith [mul_self_nonneg ((-c.y) / |c.z|)]

theorem orthoRaw2_dot (c : V3 K) : (orthoRaw2 c).dot c = 0 := by
  simp only [orthoRaw2, V3.dot]; ring

theorem orthoRaw2_dot_raw1 (c : V3 K) : (orthoRaw2 c).dot (orthoRaw1 c) = 0 := by
  simp only [orthoRaw2, V3.dot]; ring

theorem orthoRaw2_normSq (c : V3 K) : (orthoRaw2 c).normSq = (orthoRaw1 c).normSq * c.normSq := by
  have h := orthoRaw1_dot c
  simp only [orthoRaw2, V3.normSq, V3.dot] at *
  linear_combination (-(orthoRaw1 c).x * c.x - (orthoRaw1 c).y * c.y - (orthoRaw1 c).z * c.z) * h

/-- An orthonormal pair perpendicular to `a`. -/
structure OrthoPair (a x y : V3 K) : Prop where
  xx : x.dot x = 1
  yy : y.dot y = 1
  xy : x.dot y = 0
  xa : x.dot a = 0
  ya : y.dot a = 0

/-- `Coord3D.OrthoBasis` returns two unit vectors orthogonal to the receiver and to each other
(for every non-zero receiver). -/
theorem orthoBasis_spec (hs : SqrtOK K) {c : V3 K} (h : 0 < c.normSq) :
    OrthoPair c (orthoBasis c).1 (orthoBasis c).2 := by
  have h1 := orthoRaw1_pos h
  have h2 : 0 < (orthoRaw2 c).normSq := by rw [orthoRaw2_normSq]; exact mul_pos h1 h
  have n1 := norm_pos hs h1
  have n2 := norm_pos hs h2
  simp only [orthoBasis]
  refine ⟨?_, ?_, ?_, ?_, ?_⟩
  · rw [← normSq_eq_dot]; exact normalize_normSq hs h1
  · rw [← normSq_eq_dot]; exact normalize_normSq hs h2
  · rw [normalize_dot, V3.normalize, dot_scale, dot_comm, orthoRaw2_dot_raw1]; simp
  · rw [normalize_dot, orthoRaw1_dot]; simp
  · rw [normalize_dot, orthoRaw2_dot]; simp

theorem V3.ext' {a b : V3 K} (hx : a.x = b.x) (hy : a.y = b.y) (hz : a.z = b.z) : a = b := by
  cases a; cases b; simp_all

theorem sqrt_le_one (hs : SqrtOK K) {u : K} (h0 : 0 ≤ u) (h1 : u ≤ 1) : sqrt u ≤ 1 := by
  have h := hs.sq u h0
  have hn := hs.nonneg u
  by_contra hc
  have : 1 < sqrt u := not_le.mp hc
  nlinarith

/-- Orthogonality to the normalised axis is orthogonality to the axis. -/
theorem OrthoPair.of_normalize (hs : SqrtOK K) {d x y : V3 K} (hd : 0 < d.normSq)
    (h : OrthoPair d.normalize x y) : OrthoPair d x y := by
  have hn := norm_pos hs hd
  refine ⟨h.xx, h.yy, h.xy, ?_, ?_⟩
  · have := h.xa
    rw [dot_comm, normalize_dot, div_eq_zero_iff] at this
    rcases this with h0 | h0
    · rw [dot_comm]; exact h0
    · exact absurd h0 hn.ne'
  · have := h.ya
    rw [dot_comm, normalize_dot, div_eq_zero_iff] at this
    rcases this with h0 | h0
    · rw [dot_comm]; exact h0
    · exact absurd h0 hn.ne'

theorem lonPoint_unit {a x y : V3 K} (h : OrthoPair a x y) {c s : K} (hcs : c * c + s * s = 1) :
    (lonPoint x y c s).dot (lonPoint x y c s) = 1 := by
  have h1 := h.xx; have h2 := h.yy; have h3 := h.xy
  simp only [lonPoint, V3.add, V3.scale, V3.dot] at *
  linear_combination (c * c) * h1 + (s * s) * h2 + (2 * c * s) * h3 + hcs

theorem lonPoint_perp {a x y : V3 K} (h : OrthoPair a x y) (c s : K) :
    (lonPoint x y c s).dot a = 0 := by
  have h1 := h.xa; have h2 := h.ya
  simp only [lonPoint, V3.add, V3.scale, V3.dot] at *
  linear_combination c * h1 + s * h2

/-- A direction sampled as `dir·cosLat + lonPoint·sinLat` has cosine `cosLat` with `dir`
(for a unit `dir`) and is itself a unit vector when `cosLat² + sinLat² = 1`. -/
theorem around_sample_dot {a x y : V3 K} (h : OrthoPair a x y) (ha : a.dot a = 1) (c s cl sl : K) :
    a.dot ((a.scale cl).add ((lonPoint x y c s).scale sl)) = cl := by
  have h1 := lonPoint_perp h c s
  generalize lonPoint x y c s = l at h1
  simp only [V3.add, V3.scale, V3.dot] at *
  linear_combination cl * ha + sl * h1

theorem around_sample_unit {a x y : V3 K} (h : OrthoPair a x y) (ha : a.dot a = 1) {c s cl sl : K}
    (hcs : c * c + s * s = 1) (hl : cl * cl + sl * sl = 1) :
    ((a.scale cl).add ((lonPoint x y c s).scale sl)).dot ((a.scale cl).add ((lonPoint x y c s).scale sl)) = 1 := by
  have h1 := lonPoint_perp h c s
  have h2 := lonPoint_unit h hcs
  generalize lonPoint x y c s = l at h1 h2
  simp only [V3.add, V3.scale, V3.dot] at *
  linear_combination (cl * cl) * ha + (2 * cl * sl) * h1 + (sl * sl) * h2 + hl

omit [HasSqrt K] in
theorem cap_geom (center rad d : V3 K) (rho : K) (hu : rad.dot rad = 1) (hp : rad.dot d = 0) :
    ((center.add (rad.scale rho)).sub center).dot d = 0 ∧
    ((center.add (rad.scale rho)).sub center).normSq = rho * rho := by
  constructor
  · simp only [V3.sub, V3.add, V3.scale, V3.dot] at *
    linear_combination rho * hp
  · simp only [V3.sub, V3.add, V3.scale, V3.normSq, V3.dot] at *
    linear_combination (rho * rho) * hu

omit [HasSqrt K] in
theorem neg_dot_neg (a : V3 K) : a.neg.dot a.neg = a.dot a := by
  simp only [V3.neg, V3.dot]; ring

omit [HasSqrt K] in
theorem neg_dot (a b : V3 K) : a.neg.dot b = -(a.dot b) := by
  simp only [V3.neg, V3.dot]; ring

/-! ### Henyey–Greenstein, algebraic part -/

omit [HasSqrt K] in
/-- With `w = (1−g²)/(1+g·s)`: `w > 0`, `w² = 1+g²−2g·cos` for the sampled cosine, the
closed-form CDF written with `w` in place of the square root equals `(s+1)/2`, and the sampled
cosine lies in `[−1,1]`. -/
theorem hg_algebra {g s : K} (hg0 : g ≠ 0) (hg1 : -1 < g) (hg2 : g < 1) (hs1 : -1 ≤ s) (hs2 : s ≤ 1) :
    let w := (1 - g * g) / (1 + g * s)
    0 < w ∧ hgDivisor g (hgCos g s) = w * w ∧
    (1 - g * g) / (2 * g) * (1 / w - 1 / (1 + g)) = (s + 1) / 2 ∧
    -1 ≤ hgCos g s ∧ hgCos g s ≤ 1 := by
  have hgs : 0 < 1 + g * s := by
    rcases le_or_gt 0 g with h | h
    · nlinarith
    · nlinarith
  have h1g : 0 < 1 - g * g := by nlinarith
  have hw : 0 < (1 - g * g) / (1 + g * s) := div_pos h1g hgs
  have hp : 0 < 1 + g := by linarith
  have hm : 0 < 1 - g := by linarith
  have n1 := h1g.ne'
  have n2 := hgs.ne'
  have n3 := hp.ne'
  have n4 := hm.ne'
  refine ⟨hw, ?_, ?_, ?_, ?_⟩
  · simp only [hgDivisor, hgCos]; field_simp; ring
  · rw [one_div_div, show 1 - g * g = (1 - g) * (1 + g) by ring]
    field_simp
    ring
  · have e : 1 + hgCos g s =
        (1 + g) * (1 + s) * (1 + g + (1 - g * g) / (1 + g * s)) / (2 * (1 + g * s)) := by
      simp only [hgCos]; field_simp; ring
    have : 0 ≤ (1 + g) * (1 + s) * (1 + g + (1 - g * g) / (1 + g * s)) / (2 * (1 + g * s)) := by
      apply div_nonneg _ (by linarith)
      exact mul_nonneg (mul_nonneg hp.le (by linarith)) (by linarith)
    linarith
  · have e : 1 - hgCos g s =
        (1 - g) * (1 - s) * (1 - g + (1 - g * g) / (1 + g * s)) / (2 * (1 + g * s)) := by
      simp only [hgCos]; field_simp; ring
    have : 0 ≤ (1 - g) * (1 - s) * (1 - g + (1 - g * g) / (1 + g * s)) / (2 * (1 + g * s)) := by
      apply div_nonneg _ (by linarith)
      exact mul_nonneg (mul_nonneg hm.le (by linarith)) (by linarith)
    linarith

omit [HasSqrt K] in
theorem hgCos_endpoints {g : K} (hg0 : g ≠ 0) (hg1 : -1 < g) (hg2 : g < 1) :
    hgCos g (-1) = -1 ∧ hgCos g 1 = 1 := by
  have hp : (1 + g) ≠ 0 := by linarith
  have hm : (1 - g) ≠ 0 := by linarith
  have e1 : (1 - g * g) / (1 + g * 1) = 1 - g := by
    rw [mul_one, show 1 - g * g = (1 - g) * (1 + g) by ring, mul_div_assoc, div_self hp, mul_one]
  have e2 : (1 - g * g) / (1 + g * -1) = 1 + g := by
    rw [show 1 + g * -1 = 1 - g by ring, show 1 - g * g = (1 + g) * (1 - g) by ring, mul_div_assoc,
      div_self hm, mul_one]
  constructor
  · simp only [hgCos, e2]; field_simp; ring
  · simp only [hgCos, e1]; field_simp; ring

omit [HasSqrt K] in
/-- `numericalG` keeps the asymmetry parameter strictly inside `(-1,1)` and away from `0`. -/
theorem hgNumericalG_range (k : Consts K) (h0 : 0 < k.hgEps) (h1 : k.hgEps ≤ k.hgMax) (h2 : k.hgMax < 1) (g : K) :
    hgNumericalG k g ≠ 0 ∧ -1 < hgNumericalG k g ∧ hgNumericalG k g < 1 := by
  simp only [hgNumericalG, absS_eq_abs, maxS_eq_max, minS_eq_min]
  split_ifs with h
  · exact ⟨h0.ne', by linarith, by linarith⟩
  · have habs : k.hgEps ≤ |g| := not_lt.mp h
    refine ⟨?_, ?_, ?_⟩
    · rcases le_or_gt 0 g with hg | hg
      · have : k.hgEps ≤ g := by rwa [abs_of_nonneg hg] at habs
        have : 0 < max (min g k.hgMax) (-k.hgMax) := lt_of_lt_of_le (lt_min (by linarith) (by linarith)) (le_max_left _ _)
        exact this.ne'
      · have : k.hgEps ≤ -g := by rwa [abs_of_neg hg] at habs
        have : max (min g k.hgMax) (-k.hgMax) < 0 := max_lt (lt_of_le_of_lt (min_le_left _ _) hg) (by linarith)
        exact this.ne
    · exact lt_of_lt_of_le (by linarith) (le_max_right _ _)
    · exact max_lt (lt_of_le_of_lt (min_le_right _ _) h2) (by linarith)

omit [HasSqrt K] in
theorem clampUnit_range (x : K) : -1 ≤ clampUnit x ∧ clampUnit x ≤ 1 := by
  simp only [clampUnit, maxS_eq_max, minS_eq_min]
  exact ⟨le_max_left _ _, max_le (by norm_num) (min_le_left _ _)⟩

omit [HasSqrt K] in
theorem clampUnit_id {x : K} (h1 : -1 ≤ x) (h2 : x ≤ 1) : clampUnit x = x := by
  simp only [clampUnit, maxS_eq_max, minS_eq_min]
  rw [min_eq_right h2, max_eq_right h1]

omit [HasSqrt K] in
theorem joinBSDF_foldl_x (bs : List (V3 K)) (acc : V3 K) :
    (bs.foldl V3.add acc).x = acc.x + (bs.map V3.x).sum := by
  induction bs generalizing acc with
  | nil => simp
  | cons b bs ih => simp only [List.foldl_cons, List.map_cons, List.sum_cons, ih, V3.add]; ring

omit [HasSqrt K] in
theorem joinBSDF_x (bs : List (V3 K)) : (joinBSDF bs).x = (bs.map V3.x).sum := by
  simp only [joinBSDF, joinBSDF_foldl_x]; ring

/-! ### binary search and cumulative tables -/

/-- Go's `sort.Search` on a monotone predicate returns the least index where it holds
(`n` if there is none). -/
theorem searchGo_spec (f : Nat → Bool) (n : Nat)
    (hmono : ∀ a b, a ≤ b → b < n → f a = true → f b = true) :
    ∀ fuel i j, j - i ≤ fuel → i ≤ j → j ≤ n → (∀ a, a < i → f a = false) →
      (∀ b, j ≤ b → b < n → f b = true) →
      i ≤ searchGo f fuel i j ∧ searchGo f fuel i j ≤ j ∧
        (∀ a, a < searchGo f fuel i j → f a = false) ∧
        (∀ b, searchGo f fuel i j ≤ b → b < n → f b = true) := by
  intro fuel
  induction fuel with
  | zero =>
    intro i j hf hij hjn hlo hhi
    have : i = j := by omega
    subst this
    simp only [searchGo]
    exact ⟨le_rfl, le_rfl, hlo, hhi⟩
  | succ fuel ih =>
    intro i j hf hij hjn hlo hhi
    simp only [searchGo]
    split_ifs with hlt hfh
    · -- f h = true: j := h
      have hh : i ≤ (i + j) / 2 ∧ (i + j) / 2 < j := by omega
      have := ih i ((i + j) / 2) (by omega) hh.1 (by omega) hlo
        (fun b hb hbn => hmono _ b hb hbn hfh)
      exact ⟨this.1, by omega, this.2.2.1, this.2.2.2⟩
    · -- f h = false: i := h + 1
      have hh : i ≤ (i + j) / 2 ∧ (i + j) / 2 < j := by omega
      have hfalse : ∀ a, a < (i + j) / 2 + 1 → f a = false := by
        intro a ha
        by_contra hc
        have hat : f a = true := by simpa using hc
        exact hfh (hmono a _ (by omega) (by omega) hat)
      have := ih ((i + j) / 2 + 1) j (by omega) (by omega) hjn hfalse hhi
      exact ⟨by omega, this.2.1, this.2.2.1, this.2.2.2⟩
    · have : i = j := by omega
      subst this
      exact ⟨le_rfl, le_rfl, hlo, hhi⟩

omit [HasSqrt K] in
theorem foldl_add (ws : List K) (acc : K) : ws.foldl (· + ·) acc = acc + ws.sum := by
  induction ws generalizing acc with
  | nil => simp
  | cons w ws ih => simp only [List.foldl_cons, List.sum_cons, ih]; ring

omit [HasSqrt K] in
theorem total_eq_sum (ws : List K) : total ws = ws.sum := by
  simp only [total, foldl_add]; ring

omit [HasSqrt K] in
theorem cumuFrom_length (acc : K) (ws : List K) : (cumuFrom acc ws).length = ws.length := by
  induction ws generalizing acc with
  | nil => rfl
  | cons w ws ih => simp only [cumuFrom, List.length_cons, ih]

omit [HasSqrt K] in
theorem cumuFrom_getD (acc : K) (ws : List K) (i : Nat) (hi : i < ws.length) :
    (cumuFrom acc ws).getD i 0 = acc + (ws.take (i + 1)).sum := by
  induction ws generalizing acc i with
  | nil => simp at hi
  | cons w ws ih =>
    cases i with
    | zero => simp [cumuFrom]
    | succ i =>
      simp only [cumuFrom, List.getD_cons_succ, List.take_succ_cons, List.sum_cons]
      rw [ih (acc + w) i (by simpa using hi)]; ring

omit [HasSqrt K] in
theorem sum_take_mono {ws : List K} (hnn : ∀ w ∈ ws, 0 ≤ w) {a b : Nat} (hab : a ≤ b) :
    (ws.take a).sum ≤ (ws.take b).sum := by
  induction ws generalizing a b with
  | nil => simp
  | cons w ws ih =>
    cases a with
    | zero =>
      simp only [List.take_zero, List.sum_nil]
      exact List.sum_nonneg (fun x hx => hnn x (List.mem_of_mem_take hx))
    | succ a =>
      cases b with
      | zero => omega
      | succ b =>
        simp only [List.take_succ_cons, List.sum_cons]
        have := ih (fun x hx => hnn x (List.mem_cons_of_mem _ hx)) (a := a) (b := b) (by omega)
        linarith

omit [HasSqrt K] in
/-- Part selection through the cumulative table and Go's binary search: the selected index `i`
is the one with `cum(i-1) < u·T ≤ cum(i)`. -/
theorem selectIdx_spec {ws : List K} (hnn : ∀ w ∈ ws, 0 ≤ w) (hne : ws ≠ []) {u : K}
    (hu : u * ws.sum ≤ ws.sum) :
    selectIdx ws u < ws.length ∧ u * ws.sum ≤ (ws.take (selectIdx ws u + 1)).sum ∧
      ∀ j, j < selectIdx ws u → (ws.take (j + 1)).sum < u * ws.sum := by
  have hn : 0 < ws.length := List.length_pos_iff.mpr hne
  have hlen : (cumu ws).length = ws.length := cumuFrom_length 0 ws
  have hget : ∀ i, i < ws.length → (cumu ws).getD i 0 = (ws.take (i + 1)).sum := by
    intro i hi; rw [cumu, cumuFrom_getD 0 ws i hi]; ring
  set x := u * ws.sum with hx
  let f : Nat → Bool := fun h => !decide ((cumu ws).getD h 0 < x)
  have hf : ∀ h, h < ws.length → (f h = true ↔ x ≤ (ws.take (h + 1)).sum) := by
    intro h hh
    simp only [f, Bool.not_eq_true', decide_eq_false_iff_not, not_lt, hget h hh]
  have hmono : ∀ a b, a ≤ b → b < ws.length → f a = true → f b = true := by
    intro a b hab hb ha
    rw [hf b hb]
    rw [hf a (by omega)] at ha
    exact le_trans ha (sum_take_mono hnn (by omega))
  have spec := searchGo_spec f ws.length hmono ws.length 0 ws.length (by omega) (by omega) le_rfl
    (fun a ha => by omega) (fun b hb hbn => by omega)
  have hsel : selectIdx ws u = searchGo f ws.length 0 ws.length ∨
      (searchGo f ws.length 0 ws.length = ws.length) := by
    by_cases h : searchGo f ws.length 0 ws.length = ws.length
    · exact Or.inr h
    · left
      simp only [selectIdx, searchFloat64s, hlen, total_eq_sum]
      rw [if_neg h]
  have hlast : f (ws.length - 1) = true := by
    rw [hf _ (by omega)]
    have : ws.length - 1 + 1 = ws.length := by omega
    rw [this, List.take_length]; exact hu
  have hr : searchGo f ws.length 0 ws.length < ws.length := by
    by_contra hc
    have h1 := spec.2.2.1 (ws.length - 1) (by omega)
    rw [hlast] at h1; exact absurd h1 (by simp)
  rcases hsel with hsel | hsel
  · rw [hsel]
    refine ⟨hr, ?_, ?_⟩
    · exact (hf _ hr).mp (spec.2.2.2 _ le_rfl hr)
    · intro j hj
      have h1 := spec.2.2.1 j hj
      have h2 : ¬ (x ≤ (ws.take (j + 1)).sum) := by
        rw [← hf j (by omega)]; simp [h1]
      exact not_le.mp h2
  · omega

omit [HasSqrt K] in
/-- A part of weight zero is never selected by a positive draw. -/
theorem selectIdx_weight_pos {ws : List K} (hnn : ∀ w ∈ ws, 0 ≤ w) (hne : ws ≠ []) {u : K}
    (hu : u * ws.sum ≤ ws.sum) (hpos : 0 < u * ws.sum) :
    ∃ h : selectIdx ws u < ws.length, 0 < ws[selectIdx ws u] := by
  obtain ⟨h1, h2, h3⟩ := selectIdx_spec hnn hne hu
  refine ⟨h1, ?_⟩
  have hstep := List.sum_take_succ ws (selectIdx ws u) h1
  rcases Nat.eq_zero_or_pos (selectIdx ws u) with h0 | h0
  · rw [hstep] at h2
    simp only [h0, List.take_zero, List.sum_nil, zero_add] at h2
    simp only [h0]
    linarith
  · have := h3 (selectIdx ws u - 1) (by omega)
    rw [show selectIdx ws u - 1 + 1 = selectIdx ws u by omega] at this
    rw [hstep] at h2
    linarith

/-! ### mixtures -/

omit [HasSqrt K] in
theorem joinDensity_foldl (l : List (K × K)) (acc : K) :
    l.foldl (fun acc pd => acc + pd.1 * pd.2) acc = acc + (l.map fun pd => pd.1 * pd.2).sum := by
  induction l generalizing acc with
  | nil => simp
  | cons a l ih => simp only [List.foldl_cons, List.map_cons, List.sum_cons, ih]; ring

omit [HasSqrt K] in
/-- The lobe chosen by `JoinedMaterial` for the draw `p` (offset `k`): the chosen index `i`
satisfies `P(i) ≤ p` and, unless it is the last lobe, `p < P(i+1)`, where `P` are the partial sums. -/
theorem joinSelectFrom_spec (l : List K) (hnn : ∀ q ∈ l, 0 ≤ q) :
    ∀ (k : Nat) (p : K), 0 ≤ p → l ≠ [] →
      k ≤ joinSelectFrom k p l ∧ joinSelectFrom k p l - k < l.length ∧
      (l.take (joinSelectFrom k p l - k)).sum ≤ p ∧
      (joinSelectFrom k p l - k + 1 < l.length → p < (l.take (joinSelectFrom k p l - k + 1)).sum) := by
  induction l with
  | nil => intro k p _ h; exact absurd rfl h
  | cons q rest ih =>
    intro k p hp _
    cases rest with
    | nil => simp [joinSelectFrom, hp]
    | cons r rest =>
      simp only [joinSelectFrom]
      split_ifs with h
      · simp only [Nat.sub_self, List.take_zero, List.sum_nil, List.length_cons]
        refine ⟨le_rfl, by omega, hp, fun _ => ?_⟩
        simp only [Nat.zero_add, List.take_succ_cons, List.take_zero, List.sum_cons, List.sum_nil]
        linarith
      · have hq : 0 ≤ p - q := not_lt.mp h
        have := ih (fun x hx => hnn x (List.mem_cons_of_mem _ hx)) (k + 1) (p - q) hq (by simp)
        obtain ⟨h1, h2, h3, h4⟩ := this
        set j := joinSelectFrom (k + 1) (p - q) (r :: rest) with hj
        have e : j - k = (j - (k + 1)) + 1 := by omega
        refine ⟨by omega, ?_, ?_, ?_⟩
        · rw [e]; simp only [List.length_cons] at h2 ⊢; omega
        · rw [e, List.take_succ_cons, List.sum_cons]; linarith
        · intro hlt
          rw [e] at hlt ⊢
          rw [List.take_succ_cons, List.sum_cons]
          have := h4 (by simp only [List.length_cons] at hlt ⊢; omega)
          linarith

end M3d.RS
