import M3d.Lemmas.MeshOps
/-!
The 2-D `EliminateColinear` loop (model `M3d.MeshOps.elimColinear`: the per-vertex criterion is
evaluated on the mesh `res` BEING EDITED): every segment of the result is a segment of the input
or bridges a removed vertex that met the criterion between exactly its two end points.
Core-only.
-/
namespace M3d.MeshOps
open M3d.Surface

theorem find?_congr_mem {α : Type} {l : List α} {p q : α → Bool} (h : ∀ x ∈ l, p x = q x) :
    l.find? p = l.find? q := by
  induction l with
  | nil => rfl
  | cons a l ih =>
    have ha := h a (List.mem_cons_self ..)
    have ih' := ih (fun x hx => h x (List.mem_cons_of_mem _ hx))
    simp only [List.find?_cons, ha, ih']

section Other
variable {res : List Seg} {next n1 n2 x : Nat}

/-- Away from the removed vertex and its two neighbours, predecessors are unchanged by a bridge. -/
theorem prevOf_bridge_other (h : ClosedCurves res) (hn : (next, n2) ∈ res)
    (hx : x ≠ next) (hx2 : x ≠ n2) : prevOf (bridge res next n1 n2) x = prevOf res x := by
  obtain ⟨hS, _, _⟩ := (inOutOne_iff_nodup res).1 h.1
  have hhead : ((fun s : Seg => s.2 == x) (n1, n2)) = false := by
    simp only [beq_eq_false_iff_ne, ne_eq]; exact fun e => hx2 e.symm
  simp only [prevOf, bridge]
  rw [List.find?_cons_of_neg (by simpa using hhead), List.find?_filter]
  congr 1
  apply find?_congr_mem
  intro s hs
  by_cases e : s.2 = x
  · have h1 : s.1 ≠ next := by
      intro e1
      have := eq_of_nodup_map_fst hS hs hn e1
      exact hx2 (by rw [← e, this])
    have h2 : s.2 ≠ next := by rw [e]; exact hx
    simp [e, h1, hx]
  · simp [e]

/-- … and so are successors. -/
theorem succOf_bridge_other (h : ClosedCurves res) (hp : (n1, next) ∈ res)
    (hx : x ≠ next) (hx1 : x ≠ n1) : succOf (bridge res next n1 n2) x = succOf res x := by
  obtain ⟨_, hE, _⟩ := (inOutOne_iff_nodup res).1 h.1
  have hhead : ((fun s : Seg => s.1 == x) (n1, n2)) = false := by
    simp only [beq_eq_false_iff_ne, ne_eq]; exact fun e => hx1 e.symm
  simp only [succOf, bridge]
  rw [List.find?_cons_of_neg (by simpa using hhead), List.find?_filter]
  congr 1
  apply find?_congr_mem
  intro s hs
  by_cases e : s.1 = x
  · have h2 : s.2 ≠ next := by
      intro e2
      have := eq_of_nodup_map_snd hE hs hp e2
      exact hx1 (by rw [← e, this])
    have h1 : s.1 ≠ next := by rw [e]; exact hx
    simp [e, h2, hx]
  · simp [e]

theorem colAt_bridge_other (col3 : Nat → Nat → Nat → Bool) (h : ClosedCurves res)
    (hp : (n1, next) ∈ res) (hn : (next, n2) ∈ res) (hx : x ≠ next) (hx1 : x ≠ n1) (hx2 : x ≠ n2) :
    colAt col3 (bridge res next n1 n2) x = colAt col3 res x := by
  simp only [colAt, prevOf_bridge_other h hn hx hx2, succOf_bridge_other h hp hx hx1]

theorem not_mem_verts_bridge (h : ClosedCurves res) (hp : (n1, next) ∈ res) (hn : (next, n2) ∈ res) :
    next ∉ segVertsAll (bridge res next n1 n2) := by
  intro hm
  rcases bridge_verts_sub hp hn next hm with h1 | h1 | h1
  · exact h1.2 rfl
  · exact h.2 _ hp h1.symm
  · exact h.2 _ hn h1

end Other

/-- Membership in the candidate set after re-evaluating `c` on `res'`. -/
theorem mem_upd {readd : List Seg → Nat → Bool} {res' : List Seg} {cs : List Nat} {c x : Nat}
    (h : x ∈ (if readd res' c then (if cs.contains c then cs else c :: cs) else cs.filter (· != c))) :
    (x = c ∧ readd res' c = true) ∨ (x ≠ c ∧ x ∈ cs) := by
  by_cases hr : readd res' c = true
  · simp only [hr, ↓reduceIte] at h
    by_cases e : x = c
    · exact Or.inl ⟨e, hr⟩
    · refine Or.inr ⟨e, ?_⟩
      split at h
      · exact h
      · rcases List.mem_cons.1 h with h | h
        · exact absurd h e
        · exact h
  · simp only [hr, Bool.false_eq_true, ↓reduceIte, List.mem_filter, bne_iff_ne, ne_eq] at h
    exact Or.inr ⟨h.2, h.1⟩

/-- The invariant of the `EliminateColinear` loop. `m` is the input mesh. -/
structure ElimInv (col3 : Nat → Nat → Nat → Bool) (m : List Seg) (cands : List Nat) (res : List Seg) : Prop where
  closed : ClosedCurves res
  /-- every candidate currently meets the criterion ON `res` -/
  elig : ∀ c ∈ cands, colAt col3 res c = true
  /-- every segment is original or bridges a removed vertex meeting the criterion between its ends -/
  expl : ∀ s ∈ res, s ∈ m ∨ ∃ v, v ∈ segVertsAll m ∧ v ∉ segVertsAll res ∧ col3 s.1 v s.2 = true
  old : ∀ w ∈ segVertsAll res, w ∈ segVertsAll m

theorem elimInv_step (col3 : Nat → Nat → Nat → Bool) (m : List Seg) {next : Nat} {cands : List Nat}
    {res : List Seg} (h : ElimInv col3 m cands res) (hmem : next ∈ cands)
    (hd : ∀ n, prevOf res next = some n → succOf res next = some n → False) :
    let st := removalStep (fun _ _ _ _ => false) (colAt col3) next cands res
    ElimInv col3 m st.1 st.2 := by
  have hsub : ∀ c ∈ cands.filter (· != next), c ∈ cands ∧ c ≠ next := by
    intro c hc
    simpa [List.mem_filter] using hc
  simp only [removalStep]
  cases hp : prevOf res next with
  | none => exact ⟨h.closed, fun c hc => h.elig c (hsub c hc).1, h.expl, h.old⟩
  | some n1 =>
    cases hn : succOf res next with
    | none => exact ⟨h.closed, fun c hc => h.elig c (hsub c hc).1, h.expl, h.old⟩
    | some n2 =>
      simp only [Bool.false_eq_true, ↓reduceIte]
      have hp' := prevOf_mem hp
      have hn' := succOf_mem hn
      have hne : n1 ≠ n2 := by
        intro e; subst e; exact hd n1 hp hn
      have hcrit : col3 n1 next n2 = true := by
        have := h.elig next hmem
        simpa [colAt, hp, hn] using this
      have hgone := not_mem_verts_bridge h.closed hp' hn'
      have hvsub : ∀ w ∈ segVertsAll (bridge res next n1 n2), w ∈ segVertsAll res := by
        intro w hw
        rcases bridge_verts_sub hp' hn' w hw with h1 | h1 | h1
        · exact h1.1
        · subst h1; exact mem_segVertsAll.2 (Or.inl (List.mem_map.2 ⟨_, hp', rfl⟩))
        · subst h1; exact mem_segVertsAll.2 (Or.inr (List.mem_map.2 ⟨_, hn', rfl⟩))
      refine ⟨bridge_closedCurves h.closed hp' hn' hne, ?_, ?_, fun w hw => h.old w (hvsub w hw)⟩
      · intro x hx
        rcases mem_upd hx with ⟨_, hr⟩ | ⟨hx2, hx⟩
        · rename_i e; subst e; exact hr
        · rcases mem_upd hx with ⟨_, hr⟩ | ⟨hx1, hx⟩
          · rename_i e; subst e; exact hr
          · obtain ⟨hxc, hxn⟩ := hsub x hx
            rw [colAt_bridge_other col3 h.closed hp' hn' hxn hx1 hx2]
            exact h.elig x hxc
      · intro s hs
        rcases bridge_sub hs with rfl | ⟨h1, _, _⟩
        · refine Or.inr ⟨next, h.old next ?_, hgone, hcrit⟩
          exact mem_segVertsAll.2 (Or.inr (List.mem_map.2 ⟨_, hp', rfl⟩))
        · rcases h.expl s h1 with h2 | ⟨v, hv1, hv2, hv3⟩
          · exact Or.inl h2
          · exact Or.inr ⟨v, hv1, fun hm => hv2 (hvsub v hm), hv3⟩

theorem elimLoop_inv (col3 : Nat → Nat → Nat → Bool) (order : List Nat → Option Nat)
    (horder : ∀ l x, order l = some x → x ∈ l)
    (hsafe : Safe (fun cands _ => order cands) (fun _ _ _ _ => false)) (m : List Seg) :
    ∀ (fuel : Nat) (cands : List Nat) (res out : List Seg), ElimInv col3 m cands res →
      removalLoop (fun cands _ => order cands) (fun _ _ _ _ => false) (colAt col3) fuel cands res = some out →
      ∃ cands', ElimInv col3 m cands' out := by
  intro fuel
  induction fuel with
  | zero => intro _ _ _ _ h; simp [removalLoop] at h
  | succ fuel ih =>
    intro cands res out hinv hrun
    simp only [removalLoop] at hrun
    cases hpk : order cands with
    | none =>
      simp only [hpk, Option.some.injEq] at hrun
      subst hrun; exact ⟨cands, hinv⟩
    | some next =>
      simp only [hpk] at hrun
      have hstep := elimInv_step col3 m hinv (horder _ _ hpk)
        (fun n hp hn => by simpa using hsafe cands res next n hpk hp hn)
      exact ih _ _ _ hstep hrun

end M3d.MeshOps
