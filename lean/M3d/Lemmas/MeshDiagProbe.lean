import M3d.Model.MeshDiagProbe
import M3d.Lemmas.MeshDiagHier2
import Mathlib.Tactic.Ring
import Mathlib.Tactic.FieldSimp
import Mathlib.Tactic.Linarith
import Mathlib.Tactic.Positivity
import Mathlib.Algebra.Order.Field.Basic
/-!
# Lemmas about the probe point of `RepairNormals` and the even–odd rule along the normal

Over every linear ordered field `K`:

* geometry of the probe: `probeDoc` (the source: midpoint + ε × unit normal) is the point of the
  normal line at parameter `ε / |s|`, at distance exactly ε from the midpoint whatever the length of
  the segment; `probeAt ε` (no normalisation) is the documented probe for `ε · |s|`;
* the ray from a point `p + t d` of a line, along the line: its crossings are the crossings of the
  line at a parameter `> t` (`rayHits_shift`); hence the even–odd answer is the same for two points
  of the line between which no segment crosses the line (`evenOddRay_eq_of_clear`);
* `repairNormals2_congr`.
-/
namespace M3d.MeshDiag
open M3d.Surface
set_option linter.unusedSectionVars false
set_option linter.unusedVariables false

variable {K : Type} [Field K] [LinearOrder K] [IsStrictOrderedRing K]

@[ext] theorem Vec2.ext' {a b : Vec2 K} (hx : a.x = b.x) (hy : a.y = b.y) : a = b := by
  cases a; cases b; simp only [Vec2.mk.injEq]; exact ⟨hx, hy⟩

/-! ## geometry of the probe (2-D) -/

/-- The left vector is as long as the segment. -/
theorem segLeft_normSq (s : GSeg K) : (segLeft s).normSq = (s.2.sub s.1).normSq := by
  simp only [segLeft, Vec2.normSq, Vec2.sub]; ring

/-- The probe of the source is the point of the normal line at parameter `ε / |s|`. -/
theorem probeDoc_eq_probeAt (sqrt : K → K) (half eps : K) (s : GSeg K) :
    probeDoc sqrt half eps s = probeAt half (eps / vnorm2 sqrt (segLeft s)) s := by
  simp only [probeDoc, probeAt, segNormal, Vec2.add, Vec2.scale]
  ext <;> simp only [div_eq_mul_inv] <;> ring

/-- Offset of `probeAt` from the midpoint. -/
theorem probeAt_sub_mid (half τ : K) (s : GSeg K) :
    (probeAt half τ s).sub (segMid half s) = (segLeft s).scale τ := by
  simp only [probeAt, Vec2.add, Vec2.sub, Vec2.scale]
  ext <;> ring

/-- `probeAt τ` lies at squared distance `τ² |s|²` from the midpoint. -/
theorem probeAt_dist_sq (half τ : K) (s : GSeg K) :
    ((probeAt half τ s).sub (segMid half s)).normSq = τ * τ * (s.2.sub s.1).normSq := by
  rw [probeAt_sub_mid, ← segLeft_normSq]
  simp only [Vec2.normSq, Vec2.scale]; ring

/-- With an exact square root the probe of the source lies at distance exactly `ε` from the
midpoint, whatever the length of the segment. -/
theorem probeDoc_dist_sq (sqrt : K → K) (half eps : K) (s : GSeg K)
    (hsq : vnorm2 sqrt (segLeft s) * vnorm2 sqrt (segLeft s) = (segLeft s).normSq)
    (hne : vnorm2 sqrt (segLeft s) ≠ 0) :
    ((probeDoc sqrt half eps s).sub (segMid half s)).normSq = eps * eps := by
  rw [probeDoc_eq_probeAt, probeAt_dist_sq, ← segLeft_normSq, ← hsq]
  field_simp

/-- The point of a version without normalisation (`probeAt ε`) is the documented probe for
`ε · |s|`. -/
theorem probeAt_eq_probeDoc_scaled (sqrt : K → K) (half eps : K) (s : GSeg K)
    (hne : vnorm2 sqrt (segLeft s) ≠ 0) :
    probeAt half eps s = probeDoc sqrt half (eps * vnorm2 sqrt (segLeft s)) s := by
  rw [probeDoc_eq_probeAt]
  congr 1
  field_simp

/-- For `τ > 0` the point `probeAt τ` is strictly to the left of the segment (the side the normal
points to), and its foot on the segment's line is the midpoint. -/
theorem probeAt_left (half τ : K) (hh : half * 2 = 1) (s : GSeg K) :
    (s.2.sub s.1).cross ((probeAt half τ s).sub s.1) = τ * (s.2.sub s.1).normSq ∧
    (s.2.sub s.1).dot ((probeAt half τ s).sub (segMid half s)) = 0 := by
  have h2 : half = 1 / 2 := by field_simp; linarith
  subst h2
  simp only [probeAt, segMid, segLeft, Vec2.add, Vec2.sub, Vec2.scale, Vec2.cross, Vec2.dot, Vec2.normSq]
  constructor <;> ring

/-- The L1 length of the left vector is at least its Euclidean length: the offset
`ε / (|n.x| + |n.y|)` used by the driver is at most the offset `ε / |s|` of the source. -/
theorem l1_offset_le (L eps : K) (n : Vec2 K) (hL : 0 < L) (hsq : L * L = n.normSq) (he : 0 ≤ eps) :
    eps / (|n.x| + |n.y|) ≤ eps / L := by
  have h1 : L ≤ |n.x| + |n.y| := by
    by_contra hlt
    rw [not_le] at hlt
    have ha := abs_nonneg n.x
    have hb := abs_nonneg n.y
    have : (|n.x| + |n.y|) * (|n.x| + |n.y|) < L * L := by nlinarith
    have hx : |n.x| * |n.x| = n.x * n.x := abs_mul_abs_self n.x
    have hy : |n.y| * |n.y| = n.y * n.y := abs_mul_abs_self n.y
    simp only [Vec2.normSq] at hsq
    nlinarith [mul_nonneg ha hb]
  exact div_le_div_of_nonneg_left he hL h1

/-! ## geometry of the probe (3-D) -/

theorem probeDoc3_eq_probeAt3 (sqrt : K → K) (third eps : K) (t : GTri K) :
    probeDoc3 sqrt third eps t = probeAt3 third (eps / vnorm3 sqrt (triCross t)) t := by
  simp only [probeDoc3, probeAt3, triNormal, v3add, v3scale, div_eq_mul_inv, Vec3.mk.injEq]
  refine ⟨?_, ?_, ?_⟩ <;> ring

/-- squared distance of `probeAt3 τ` from the centroid: `τ² |cross|²`. -/
theorem probeAt3_dist_sq (third τ : K) (t : GTri K) :
    vdot (v3sub (probeAt3 third τ t) (triCentre third t)) (v3sub (probeAt3 third τ t) (triCentre third t))
      = τ * τ * vdot (triCross t) (triCross t) := by
  simp only [probeAt3, v3add, v3sub, v3scale, vdot]; ring

/-! ## the ray along a line -/

theorem sideOf_shift (p d q : Vec2 K) (t : K) : sideOf (p.add (d.scale t)) d q = sideOf p d q := by
  simp only [sideOf, Vec2.cross, Vec2.sub, Vec2.add, Vec2.scale]; ring

theorem crossesLine_shift (p d : Vec2 K) (t : K) (s : GSeg K) :
    crossesLine (p.add (d.scale t)) d s = crossesLine p d s := by
  simp only [crossesLine, sideOf_shift]

theorem sideOf_diff (p d : Vec2 K) (s : GSeg K) :
    sideOf p d s.2 - sideOf p d s.1 = d.cross (s.2.sub s.1) := by
  simp only [sideOf, Vec2.cross, Vec2.sub]; ring

/-- A segment that crosses the line is not parallel to it. -/
theorem cross_ne_zero_of_crossesLine {p d : Vec2 K} {s : GSeg K} (h : crossesLine p d s = true) :
    d.cross (s.2.sub s.1) ≠ 0 := by
  rw [← sideOf_diff p d s]
  simp only [crossesLine, bne_iff_ne, ne_eq, decide_eq_decide] at h
  intro h0
  apply h
  have : sideOf p d s.2 = sideOf p d s.1 := by linarith
  rw [this]

theorem hitParam_shift (p d : Vec2 K) (t : K) (s : GSeg K) (hne : d.cross (s.2.sub s.1) ≠ 0) :
    hitParam (p.add (d.scale t)) d s = hitParam p d s - t := by
  simp only [hitParam]
  rw [div_sub' hne]
  congr 1
  simp only [Vec2.cross, Vec2.sub, Vec2.add, Vec2.scale]; ring

/-- The crossings of the ray that starts at parameter `t` of the line are the crossings of the
line at a parameter beyond `t`. -/
theorem rayHits_shift (segs : List (GSeg K)) (p d : Vec2 K) (t : K) :
    rayHits segs (p.add (d.scale t)) d =
      segs.filter fun s => crossesLine p d s && decide (t < hitParam p d s) := by
  simp only [rayHits]
  apply List.filter_congr
  intro s _
  rw [crossesLine_shift]
  cases hc : crossesLine p d s
  · rfl
  · rw [hitParam_shift p d t s (cross_ne_zero_of_crossesLine hc)]
    simp only [Bool.true_and, sub_pos]

theorem lineHitsIn_nil_iff {segs : List (GSeg K)} {p d : Vec2 K} {lo hi : K} :
    lineHitsIn segs p d lo hi = [] ↔
      ∀ s ∈ segs, crossesLine p d s = true → lo < hitParam p d s → hi < hitParam p d s := by
  simp only [lineHitsIn, List.filter_eq_nil_iff, Bool.and_eq_true, decide_eq_true_eq, Bool.not_eq_true',
    decide_eq_false_iff_not, not_and, not_not]

theorem lineHitsIn_nil_mono {segs : List (GSeg K)} {p d : Vec2 K} {lo hi lo' hi' : K}
    (h : lineHitsIn segs p d lo hi = []) (hlo : lo ≤ lo') (hhi : hi' ≤ hi) :
    lineHitsIn segs p d lo' hi' = [] := by
  rw [lineHitsIn_nil_iff] at h ⊢
  intro s hs hc hlt
  exact lt_of_le_of_lt hhi (h s hs hc (lt_of_le_of_lt hlo hlt))

/-- No segment crosses the line at a parameter in `(t₁, t₂]`: the rays from the two points cross
the same segments. -/
theorem rayHits_eq_of_clear (segs : List (GSeg K)) (p d : Vec2 K) (t₁ t₂ : K) (h12 : t₁ ≤ t₂)
    (hclear : lineHitsIn segs p d t₁ t₂ = []) :
    rayHits segs (p.add (d.scale t₁)) d = rayHits segs (p.add (d.scale t₂)) d := by
  rw [rayHits_shift, rayHits_shift]
  apply List.filter_congr
  intro s hs
  cases hc : crossesLine p d s
  · rfl
  · simp only [Bool.true_and, decide_eq_decide]
    rw [lineHitsIn_nil_iff] at hclear
    constructor
    · intro h1; exact hclear s hs hc h1
    · intro h2; exact lt_of_le_of_lt h12 h2

theorem evenOddRay_eq_of_clear (segs : List (GSeg K)) (p d : Vec2 K) (t₁ t₂ : K) (h12 : t₁ ≤ t₂)
    (hclear : lineHitsIn segs p d t₁ t₂ = []) :
    evenOddRay segs (p.add (d.scale t₁)) d = evenOddRay segs (p.add (d.scale t₂)) d := by
  simp only [evenOddRay, rayHits_eq_of_clear segs p d t₁ t₂ h12 hclear]

/-- The same for two parameters in any order, both inside a clear stretch `(lo, hi]`. -/
theorem evenOddRay_eq_of_clear' (segs : List (GSeg K)) (p d : Vec2 K) (lo hi t₁ t₂ : K)
    (hclear : lineHitsIn segs p d lo hi = [])
    (h1 : lo ≤ t₁ ∧ t₁ ≤ hi) (h2 : lo ≤ t₂ ∧ t₂ ≤ hi) :
    evenOddRay segs (p.add (d.scale t₁)) d = evenOddRay segs (p.add (d.scale t₂)) d := by
  rcases le_total t₁ t₂ with h | h
  · exact evenOddRay_eq_of_clear segs p d t₁ t₂ h (lineHitsIn_nil_mono hclear h1.1 h2.2)
  · exact (evenOddRay_eq_of_clear segs p d t₂ t₁ h (lineHitsIn_nil_mono hclear h2.1 h1.2)).symm

theorem probeAt_eq_line (half τ : K) (s : GSeg K) :
    probeAt half τ s = (segMid half s).add ((segLeft s).scale τ) := rfl

theorem clearUpTo_iff {half : K} {geo : List (GSeg K)} {g : GSeg K} {T : K} :
    clearUpTo half geo g T = true ↔ lineHitsIn geo (segMid half g) (segLeft g) 0 T = [] := by
  simp only [clearUpTo, List.isEmpty_iff]

/-- Inside a clear stretch of the normal line the even–odd answer (counted along the normal) does
not depend on the offset. -/
theorem evenOddRay_probeAt_eq (half : K) (geo : List (GSeg K)) (g : GSeg K) (T τ₁ τ₂ : K)
    (hclear : clearUpTo half geo g T = true) (h1 : 0 < τ₁ ∧ τ₁ ≤ T) (h2 : 0 < τ₂ ∧ τ₂ ≤ T) :
    evenOddRay geo (probeAt half τ₁ g) (segLeft g) = evenOddRay geo (probeAt half τ₂ g) (segLeft g) := by
  rw [probeAt_eq_line, probeAt_eq_line]
  exact evenOddRay_eq_of_clear' geo _ _ 0 T τ₁ τ₂ (clearUpTo_iff.1 hclear) ⟨h1.1.le, h1.2⟩ ⟨h2.1.le, h2.2⟩

/-! ## the ray along a line, 3-D -/

theorem vol3_shift (p d a b : Vec3 K) (t : K) :
    vol3 d (v3sub a (v3add p (v3scale d t))) (v3sub b (v3add p (v3scale d t))) =
      vol3 d (v3sub a p) (v3sub b p) := by
  simp only [vol3, vdot, v3cross, v3sub, v3add, v3scale]; ring

theorem crossesLine3_shift (p d : Vec3 K) (t : K) (g : GTri K) :
    crossesLine3 (v3add p (v3scale d t)) d g = crossesLine3 p d g := by
  simp only [crossesLine3, vol3_shift]

theorem vol3_sum (p d : Vec3 K) (g : GTri K) :
    vol3 d (v3sub g.1 p) (v3sub g.2.1 p) + vol3 d (v3sub g.2.1 p) (v3sub g.2.2 p) +
      vol3 d (v3sub g.2.2 p) (v3sub g.1 p) = vdot (triCross g) d := by
  simp only [vol3, vdot, v3cross, v3sub, triCross]; ring

/-- A triangle whose interior the line passes through is not parallel to the line. -/
theorem dot_ne_zero_of_crossesLine3 {p d : Vec3 K} {g : GTri K} (h : crossesLine3 p d g = true) :
    vdot (triCross g) d ≠ 0 := by
  rw [← vol3_sum p d g]
  simp only [crossesLine3, Bool.or_eq_true, Bool.and_eq_true, decide_eq_true_eq] at h
  rcases h with ⟨⟨h1, h2⟩, h3⟩ | ⟨⟨h1, h2⟩, h3⟩
  · exact (add_pos (add_pos h1 h2) h3).ne'
  · exact (add_neg (add_neg h1 h2) h3).ne

theorem hitParam3_shift (p d : Vec3 K) (t : K) (g : GTri K) (hne : vdot (triCross g) d ≠ 0) :
    hitParam3 (v3add p (v3scale d t)) d g = hitParam3 p d g - t := by
  simp only [hitParam3]
  rw [div_sub' hne]
  congr 1
  simp only [vdot, v3sub, v3add, v3scale]; ring

theorem rayHits3_shift (tris : List (GTri K)) (p d : Vec3 K) (t : K) :
    rayHits3 tris (v3add p (v3scale d t)) d =
      tris.filter fun g => crossesLine3 p d g && decide (t < hitParam3 p d g) := by
  simp only [rayHits3]
  apply List.filter_congr
  intro g _
  rw [crossesLine3_shift]
  cases hc : crossesLine3 p d g
  · rfl
  · rw [hitParam3_shift p d t g (dot_ne_zero_of_crossesLine3 hc)]
    simp only [Bool.true_and, sub_pos]

theorem lineHitsIn3_nil_iff {tris : List (GTri K)} {p d : Vec3 K} {lo hi : K} :
    lineHitsIn3 tris p d lo hi = [] ↔
      ∀ g ∈ tris, crossesLine3 p d g = true → lo < hitParam3 p d g → hi < hitParam3 p d g := by
  simp only [lineHitsIn3, List.filter_eq_nil_iff, Bool.and_eq_true, decide_eq_true_eq, Bool.not_eq_true',
    decide_eq_false_iff_not, not_and, not_not]

/-- No triangle is crossed at a parameter in `(lo, hi]`: the rays from two points of that stretch
cross the same triangles. -/
theorem evenOddRay3_eq_of_clear (tris : List (GTri K)) (p d : Vec3 K) (lo hi t₁ t₂ : K)
    (hclear : lineHitsIn3 tris p d lo hi = [])
    (h1 : lo ≤ t₁ ∧ t₁ ≤ hi) (h2 : lo ≤ t₂ ∧ t₂ ≤ hi) :
    evenOddRay3 tris (v3add p (v3scale d t₁)) d = evenOddRay3 tris (v3add p (v3scale d t₂)) d := by
  have key : ∀ a b : K, lo ≤ a → a ≤ b → b ≤ hi →
      rayHits3 tris (v3add p (v3scale d a)) d = rayHits3 tris (v3add p (v3scale d b)) d := by
    intro a b ha hab hb
    rw [rayHits3_shift, rayHits3_shift]
    apply List.filter_congr
    intro g hg
    cases hc : crossesLine3 p d g
    · rfl
    · simp only [Bool.true_and, decide_eq_decide]
      rw [lineHitsIn3_nil_iff] at hclear
      constructor
      · intro h; exact lt_of_le_of_lt hb (hclear g hg hc (lt_of_le_of_lt ha h))
      · intro h; exact lt_of_le_of_lt hab h
  simp only [evenOddRay3]
  rcases le_total t₁ t₂ with h | h
  · rw [key t₁ t₂ h1.1 h h2.2]
  · rw [key t₂ t₁ h2.1 h h1.2]

theorem clearUpTo3_iff {third : K} {geo : List (GTri K)} {g : GTri K} {T : K} :
    clearUpTo3 third geo g T = true ↔ lineHitsIn3 geo (triCentre third g) (triCross g) 0 T = [] := by
  simp only [clearUpTo3, List.isEmpty_iff]

theorem evenOddRay3_probeAt3_eq (third : K) (geo : List (GTri K)) (g : GTri K) (T τ₁ τ₂ : K)
    (hclear : clearUpTo3 third geo g T = true) (h1 : 0 < τ₁ ∧ τ₁ ≤ T) (h2 : 0 < τ₂ ∧ τ₂ ≤ T) :
    evenOddRay3 geo (probeAt3 third τ₁ g) (triCross g) = evenOddRay3 geo (probeAt3 third τ₂ g) (triCross g) :=
  evenOddRay3_eq_of_clear geo _ _ 0 T τ₁ τ₂ (clearUpTo3_iff.1 hclear) ⟨h1.1.le, h1.2⟩ ⟨h2.1.le, h2.2⟩

theorem repairNormals_congr (o₁ o₂ : Face → Bool) (ts : List Tri)
    (h : ∀ f ∈ enum ts, o₁ f = o₂ f) : repairNormals o₁ ts = repairNormals o₂ ts := by
  simp only [repairNormals, Prod.mk.injEq]
  constructor
  · apply List.map_congr_left
    intro f hf
    rw [h f hf]
  · apply List.countP_congr
    intro f hf
    rw [h f hf]

theorem length_filter_split {α : Type} (l : List α) (P Q : α → Bool) :
    (l.filter P).length =
      (l.filter fun x => P x && Q x).length + (l.filter fun x => P x && !Q x).length := by
  induction l with
  | nil => rfl
  | cons x xs ih =>
    simp only [List.filter_cons]
    cases hP : P x <;> cases hQ : Q x <;> simp [ih] <;> omega

/-! ## a closed curve crosses every line an even number of times -/

theorem countP_cross_mod2' (L : Nat → Bool) (ss : List Seg) :
    (ss.countP fun s => L s.1 != L s.2) % 2 =
      ((ss.countP fun s => L s.1) + (ss.countP fun s => L s.2)) % 2 := by
  induction ss with
  | nil => rfl
  | cons s ss ih =>
    simp only [List.countP_cons]
    cases h1 : L s.1 <;> cases h2 : L s.2 <;> simp <;> omega

theorem countP_cross_mod2 (L : Nat → Bool) (ss : List Seg) :
    (ss.countP fun s => L s.1 != L s.2) % 2 = ((starts ss).countP L + (ends ss).countP L) % 2 := by
  rw [countP_cross_mod2', starts, ends, List.countP_map, List.countP_map]
  rfl

/-- **Closed curves cross every line an even number of times** (half-open side rule): on
`Surface.InOutOne` soups — every vertex has one outgoing and one incoming segment — the vertices
strictly to the left of the line are the start of as many segments as they are the end of. -/
theorem crossings_even_of_inOutOne (pos : Nat → Vec2 K) (ss : List Seg) (hio : InOutOne ss)
    (p d : Vec2 K) : ((ss.map (geoOf pos)).filter (crossesLine p d)).length % 2 = 0 := by
  have hlen : ((ss.map (geoOf pos)).filter (crossesLine p d)).length =
      ss.countP fun s => (decide ((0 : K) < sideOf p d (pos s.1)) != decide ((0 : K) < sideOf p d (pos s.2))) := by
    rw [← List.countP_eq_length_filter, List.countP_map]
    rfl
  rw [hlen, countP_cross_mod2 (fun v => decide ((0 : K) < sideOf p d (pos v))) ss]
  obtain ⟨h1, h2, h3⟩ := inOutOne_nodup hio
  have hperm : (starts ss).Perm (ends ss) := (List.perm_ext_iff_of_nodup h1 h2).2 h3
  rw [hperm.countP_eq]
  omega

/-- For a closed curve and a point that is not on a crossing of the line, counting the crossings
in front of the point and counting those behind it give the same parity. -/
theorem evenOddRay_eq_backward (pos : Nat → Vec2 K) (ss : List Seg) (hio : InOutOne ss) (p d : Vec2 K)
    (hoff : ∀ g ∈ ss.map (geoOf pos), crossesLine p d g = true → hitParam p d g ≠ 0) :
    evenOddRay (ss.map (geoOf pos)) p d =
      (((ss.map (geoOf pos)).filter fun g => crossesLine p d g && decide (hitParam p d g < 0)).length % 2 == 1) := by
  have hev := crossings_even_of_inOutOne pos ss hio p d
  rw [length_filter_split _ _ (fun g => decide ((0 : K) < hitParam p d g))] at hev
  have hback : ((ss.map (geoOf pos)).filter fun g => crossesLine p d g && !decide ((0 : K) < hitParam p d g)) =
      (ss.map (geoOf pos)).filter fun g => crossesLine p d g && decide (hitParam p d g < 0) := by
    apply List.filter_congr
    intro g hg
    cases hc : crossesLine p d g
    · rfl
    · have hne := hoff g hg hc
      simp only [Bool.true_and]
      rcases lt_trichotomy (hitParam p d g) 0 with h | h | h
      · simp [h, not_lt.2 h.le]
      · exact absurd h hne
      · simp [h, not_lt.2 h.le]
  rw [hback] at hev
  simp only [evenOddRay, rayHits]
  generalize ((ss.map (geoOf pos)).filter fun s => crossesLine p d s && decide ((0 : K) < hitParam p d s)).length = a at hev ⊢
  generalize ((ss.map (geoOf pos)).filter fun g => crossesLine p d g && decide (hitParam p d g < 0)).length = b at hev ⊢
  have : a % 2 = b % 2 := by omega
  rw [this]

/-! ## crossing the segment itself: the two sides of a segment have opposite parity -/

theorem geoOf_swap (pos : Nat → Vec2 K) (s : Seg) : geoOf pos (swap s) = swapG (geoOf pos s) := rfl

/-- The probe of the reversed segment is the mirror image of the probe of the segment. -/
theorem probeAt_swapG (half τ : K) (g : GSeg K) : probeAt half τ (swapG g) = probeAt half (-τ) g := by
  simp only [probeAt, swapG, segMid, segLeft, Vec2.add, Vec2.scale]
  ext <;> ring

/-- A segment crosses its own normal line, at parameter 0. -/
theorem own_crossing (half : K) (hh : half * 2 = 1) (g : GSeg K) (hne : 0 < (g.2.sub g.1).normSq) :
    crossesLine (segMid half g) (segLeft g) g = true ∧ hitParam (segMid half g) (segLeft g) g = 0 := by
  have h2 : half = 1 / 2 := by field_simp; linarith
  subst h2
  have ha : sideOf (segMid (1 / 2) g) (segLeft g) g.1 = (g.2.sub g.1).normSq / 2 := by
    simp only [sideOf, segMid, segLeft, Vec2.cross, Vec2.sub, Vec2.add, Vec2.scale, Vec2.normSq]; ring
  have hb : sideOf (segMid (1 / 2) g) (segLeft g) g.2 = -((g.2.sub g.1).normSq / 2) := by
    simp only [sideOf, segMid, segLeft, Vec2.cross, Vec2.sub, Vec2.add, Vec2.scale, Vec2.normSq]; ring
  constructor
  · simp only [crossesLine, ha, hb, bne_iff_ne, ne_eq, decide_eq_decide]
    intro h
    have h1 : 0 < (g.2.sub g.1).normSq / 2 := by positivity
    have := h.1 h1
    linarith
  · simp only [hitParam]
    have : (g.1.sub (segMid (1 / 2) g)).cross (g.2.sub g.1) = 0 := by
      simp only [segMid, Vec2.cross, Vec2.sub, Vec2.add, Vec2.scale]; ring
    rw [this, zero_div]

/-- If `g` crosses the line `m + u n` at parameter 0 and is the only segment that crosses it at a
parameter in `(−T, T]`, the even–odd answers at the mirror points `m ± τ n` (`0 < τ ≤ T`), both
counted along `n`, are opposite. -/
theorem evenOddRay_flip_across_line (geo : List (GSeg K)) (m n : Vec2 K) (g : GSeg K)
    (hg : g ∈ geo) (hown : crossesLine m n g = true ∧ hitParam m n g = 0) (T τ : K) (hτ : 0 < τ ∧ τ ≤ T)
    (hone : (lineHitsIn geo m n (-T) T).length = 1) :
    evenOddRay geo (m.add (n.scale (-τ))) n = !evenOddRay geo (m.add (n.scale τ)) n := by
  have hmid : (lineHitsIn geo m n (-τ) τ).length = 1 := by
    apply le_antisymm
    · rw [← hone]
      simp only [lineHitsIn, ← List.countP_eq_length_filter]
      apply List.countP_mono_left
      intro s _ hs
      simp only [Bool.and_eq_true, decide_eq_true_eq, Bool.not_eq_true', decide_eq_false_iff_not, not_lt] at hs ⊢
      exact ⟨hs.1, by linarith [hs.2.1, hτ.2], by linarith [hs.2.2, hτ.2]⟩
    · apply List.length_pos_of_mem (a := g)
      simp only [lineHitsIn, List.mem_filter, Bool.and_eq_true, decide_eq_true_eq, Bool.not_eq_true',
        decide_eq_false_iff_not, not_lt]
      refine ⟨hg, hown.1, ?_, ?_⟩ <;> rw [hown.2] <;> linarith [hτ.1]
  have hsplit : (rayHits geo (m.add (n.scale (-τ))) n).length =
      (rayHits geo (m.add (n.scale τ)) n).length + 1 := by
    rw [rayHits_shift, rayHits_shift,
      length_filter_split geo _ (fun s => decide (τ < hitParam m n s))]
    congr 1
    · congr 1
      apply List.filter_congr
      intro s _
      cases crossesLine m n s
      · rfl
      · by_cases h : τ < hitParam m n s
        · have : -τ < hitParam m n s := by linarith [hτ.1]
          simp [h, this]
        · simp [h]
    · rw [← hmid]
      simp only [lineHitsIn, Bool.and_assoc]
  simp only [evenOddRay, hsplit]
  rcases Nat.mod_two_eq_zero_or_one (rayHits geo (m.add (n.scale τ)) n).length with h | h
  · have : ((rayHits geo (m.add (n.scale τ)) n).length + 1) % 2 = 1 := by omega
    simp [h, this]
  · have : ((rayHits geo (m.add (n.scale τ)) n).length + 1) % 2 = 0 := by omega
    simp [h, this]

/-- The two sides of a segment: if the segment itself is the only thing that crosses its normal
line within the parameters `(−T, T]`, the probes at `±τ` get opposite even–odd answers. -/
theorem evenOddRay_flip_across (half : K) (hh : half * 2 = 1) (geo : List (GSeg K)) (g : GSeg K)
    (hg : g ∈ geo) (hne : 0 < (g.2.sub g.1).normSq) (T τ : K) (hτ : 0 < τ ∧ τ ≤ T)
    (hone : (lineHitsIn geo (segMid half g) (segLeft g) (-T) T).length = 1) :
    evenOddRay geo (probeAt half (-τ) g) (segLeft g) = !evenOddRay geo (probeAt half τ g) (segLeft g) :=
  evenOddRay_flip_across_line geo _ _ g hg (own_crossing half hh g hne) T τ hτ hone

/-! ## `repairNormals2` only looks at the oracle on its own segments -/

theorem repairNormals2_congr (o₁ o₂ : Nat × Seg → Bool) (ss : List Seg)
    (h : ∀ f ∈ (List.range ss.length).zip ss, o₁ f = o₂ f) :
    repairNormals2 o₁ ss = repairNormals2 o₂ ss := by
  simp only [repairNormals2, Prod.mk.injEq]
  constructor
  · apply List.map_congr_left
    intro f hf
    rw [h f hf]
  · apply List.countP_congr
    intro f hf
    rw [h f hf]

theorem zip_map_zip {β γ : Type} (l : List Nat) (o : List β) (g : Nat × β → γ) :
    l.zip ((l.zip o).map g) = (l.zip o).map fun p => (p.1, g p) := by
  induction l generalizing o with
  | nil => rfl
  | cons x xs ih =>
    cases o with
    | nil => rfl
    | cons y ys => simp only [List.zip_cons_cons, List.map_cons, ih]

/-- The indexed faces of a damaged list are the indexed faces of the original, damaged. -/
theorem mem_zip_damaged {orig : List Seg} {bad : Nat → Bool} {f : Nat × Seg}
    (hf : f ∈ (List.range (((List.range orig.length).zip orig).map
        fun f => if bad f.1 then swap f.2 else f.2).length).zip
        (((List.range orig.length).zip orig).map fun f => if bad f.1 then swap f.2 else f.2)) :
    ∃ p ∈ (List.range orig.length).zip orig, f = (p.1, if bad p.1 then swap p.2 else p.2) := by
  have hlen : (((List.range orig.length).zip orig).map fun f => if bad f.1 then swap f.2 else f.2).length
      = orig.length := by simp
  rw [hlen, zip_map_zip] at hf
  obtain ⟨p, hp, rfl⟩ := List.mem_map.1 hf
  exact ⟨p, hp, rfl⟩

theorem mem_of_mem_zip_range {ss : List Seg} {f : Nat × Seg}
    (hf : f ∈ (List.range ss.length).zip ss) : f.2 ∈ ss :=
  (List.of_mem_zip hf).2

end M3d.MeshDiag
