import M3d.Model.Conc
import Mathlib.Data.List.Perm.Basic
import Mathlib.Data.List.Range
/-!
# C13 helper lemmas: index partition, mutex reduction, channel hand-out, locked max-update

Each section gives an inductive invariant of one of the small programs of `Model/Conc.lean`
and its preservation by an arbitrary scheduling decision.
-/
set_option linter.unusedSimpArgs false
namespace M3d.Conc

/-! ## Index partition (`essentials.ConcurrentMap` workers writing `out[i]`) -/

structure PartInv (f : Nat → Val) (idxs : Tid → List Nat) (c : Config) : Prop where
  own : ∀ a ∈ c.hist, ∃ i ∈ idxs a.tid, a.loc = OUT + i
  val : ∀ t k i, k < (c.thr t).pc → (idxs t)[k]? = some i → c.mem (OUT + i) = f i
  cell : ∀ i, c.mem (OUT + i) = 0 ∨ c.mem (OUT + i) = f i
  norace : c.races = []

theorem partInv_init (f : Nat → Val) (idxs : Tid → List Nat) : PartInv f idxs Config.init := by
  constructor <;> simp [Config.init, TState.init]

theorem partInv_step (f : Nat → Val) (idxs : Tid → List Nat)
    (hdisj : ∀ t t' i, t ≠ t' → i ∈ idxs t → i ∉ idxs t')
    (c : Config) (t : Tid) (I : PartInv f idxs c) : PartInv f idxs (step (partitionProg f idxs) c t) := by
  obtain ⟨i1, i2, i3, i4⟩ := I
  simp only [step, partitionProg, partitionThread, List.getElem?_map]
  cases hk : (idxs t)[(c.thr t).pc]? with
  | none => simp only [Option.map_none]; exact ⟨i1, i2, i3, i4⟩
  | some i =>
    have hi : i ∈ idxs t := List.mem_of_getElem? hk
    simp only [Option.map_some, exec, advance, access, OUT] at *
    constructor <;>
      (try simp only [upd, unordered, List.append_eq_nil_iff, List.map_eq_nil_iff, List.filter_eq_nil_iff]) <;>
      grind

theorem partInv_run (f : Nat → Val) (idxs : Tid → List Nat)
    (hdisj : ∀ t t' i, t ≠ t' → i ∈ idxs t → i ∉ idxs t')
    (c : Config) (sched : Schedule) (I : PartInv f idxs c) :
    PartInv f idxs (run (partitionProg f idxs) c sched) := by
  induction sched generalizing c with
  | nil => exact I
  | cons t s ih => exact ih _ (partInv_step f idxs hdisj c t I)

theorem mem_strided {maxGos n start i : Nat} :
    i ∈ strided maxGos n start ↔ i < n ∧ i % maxGos = start % maxGos ∧ start ≤ i := by
  simp [strided]

/-- Different goroutines of `ConcurrentMap` visit disjoint index sets. -/
theorem strided_disjoint {maxGos n s s' i : Nat} (hs : s < maxGos) (hs' : s' < maxGos) (hne : s ≠ s')
    (h : i ∈ strided maxGos n s) : i ∉ strided maxGos n s' := by
  rw [mem_strided] at *
  intro h'
  have e1 := Nat.mod_eq_of_lt hs
  have e2 := Nat.mod_eq_of_lt hs'
  omega

/-- … and together they visit every index below `n`. -/
theorem strided_cover {maxGos n i : Nat} (hm : 0 < maxGos) (hi : i < n) :
    ∃ s, s < maxGos ∧ i ∈ strided maxGos n s := by
  refine ⟨i % maxGos, Nat.mod_lt _ hm, ?_⟩
  rw [mem_strided]
  exact ⟨hi, (Nat.mod_mod _ _).symm, Nat.mod_le _ _⟩

/-! ## Lock discipline shared by the reduction and the locked `updateAt` -/

/-- All plain accesses so far are ordered before whoever holds (or next acquires) mutex `M`. -/
def LockOrdered (c : Config) : Prop :=
  ∀ a ∈ c.hist, (c.mtx M = none → a.eid ∈ c.mclk M) ∧ (∀ t, c.mtx M = some t → a.eid ∈ (c.thr t).seen)

/-! ## Mutex-guarded reduction (`KMeans.Iterate`) -/

/-- Threads in the order in which they merged their partial result. -/
def mergeOrder (c : Config) : List Tid := ((c.hist.filter (·.isWrite)).map (·.tid)).reverse

def reduceProgN (merge : Val → Val → Val) (loc : Tid → Val) (N : Nat) : Program :=
  fun t => if t < N then reduceThread merge (loc t) else []

structure RedInv (merge : Val → Val → Val) (loc : Tid → Val) (N : Nat) (c : Config) : Prop where
  pcle : ∀ t, (c.thr t).pc ≤ 5
  idle : ∀ t, N ≤ t → (c.thr t).pc = 0
  mtx_iff : ∀ t, c.mtx M = some t ↔ (2 ≤ (c.thr t).pc ∧ (c.thr t).pc ≤ 4)
  out3 : ∀ t, (c.thr t).pc = 3 → (c.thr t).out = c.mem ACC
  acc : c.mem ACC = ((mergeOrder c).map loc).foldl merge 0
  mem_order : ∀ t, t ∈ mergeOrder c ↔ 4 ≤ (c.thr t).pc
  nodup : (mergeOrder c).Nodup
  ordered : LockOrdered c
  norace : c.races = []

theorem redInv_init (merge : Val → Val → Val) (loc : Tid → Val) (N : Nat) : RedInv merge loc N Config.init := by
  constructor <;> simp [Config.init, TState.init, mergeOrder, LockOrdered]

theorem red_at (merge : Val → Val → Val) (x : Val) :
    (reduceThread merge x)[0]? = some .tau ∧ (reduceThread merge x)[1]? = some (.lock M) ∧
    (reduceThread merge x)[2]? = some (.read ACC) ∧
    (reduceThread merge x)[3]? = some (.writeF ACC (fun a => merge a x)) ∧
    (reduceThread merge x)[4]? = some (.unlock M) ∧ (reduceThread merge x)[5]? = none :=
  ⟨rfl, rfl, rfl, rfl, rfl, rfl⟩

end M3d.Conc
