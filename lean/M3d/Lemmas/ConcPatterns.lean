import M3d.Model.Conc
import Mathlib.Data.List.Perm.Basic
import Mathlib.Data.List.Range
import Mathlib.Data.List.Nodup
/-!
# C13 helper lemmas: index partition, mutex reduction, channel hand-out, locked max-update

Each section gives an inductive invariant of one of the small programs of `Model/Conc.lean`
and its preservation by an arbitrary scheduling decision.
-/
set_option linter.unusedSimpArgs false
namespace M3d.Conc

/-! ## Index partition (`essentials.ConcurrentMap` workers writing `out[i]`) -/

structure PartInv (f : Nat → Val) (idxs : Tid → List Nat) (c : Config) : Prop where
  own : ∀ a ∈ c.hist, ∃ i ∈ idxs a.tid, a.loc = OUT + i
  val : ∀ t k i, k < (c.thr t).pc → (idxs t)[k]? = some i → c.mem (OUT + i) = f i
  cell : ∀ i, c.mem (OUT + i) = 0 ∨ c.mem (OUT + i) = f i
  norace : c.races = []

theorem partInv_init (f : Nat → Val) (idxs : Tid → List Nat) : PartInv f idxs Config.init := by
  constructor <;> simp [Config.init, TState.init]

theorem partInv_step (f : Nat → Val) (idxs : Tid → List Nat)
    (hdisj : ∀ t t' i, t ≠ t' → i ∈ idxs t → i ∉ idxs t')
    (c : Config) (t : Tid) (I : PartInv f idxs c) : PartInv f idxs (step (partitionProg f idxs) c t) := by
  obtain ⟨i1, i2, i3, i4⟩ := I
  simp only [step, partitionProg, partitionThread, List.getElem?_map]
  cases hk : (idxs t)[(c.thr t).pc]? with
  | none => simp only [Option.map_none]; exact ⟨i1, i2, i3, i4⟩
  | some i =>
    have hi : i ∈ idxs t := List.mem_of_getElem? hk
    simp only [Option.map_some, exec, advance, access, OUT, Nat.zero_add] at *
    constructor <;>
      (try simp only [upd, unordered, OUT, Nat.zero_add, List.append_eq_nil_iff, List.map_eq_nil_iff, List.filter_eq_nil_iff]) <;>
      grind

theorem partInv_run (f : Nat → Val) (idxs : Tid → List Nat)
    (hdisj : ∀ t t' i, t ≠ t' → i ∈ idxs t → i ∉ idxs t')
    (c : Config) (sched : Schedule) (I : PartInv f idxs c) :
    PartInv f idxs (run (partitionProg f idxs) c sched) := by
  induction sched generalizing c with
  | nil => exact I
  | cons t s ih => exact ih _ (partInv_step f idxs hdisj c t I)

theorem mem_strided {maxGos n start i : Nat} :
    i ∈ strided maxGos n start ↔ i < n ∧ i % maxGos = start % maxGos ∧ start ≤ i := by
  simp [strided]

/-- Different goroutines of `ConcurrentMap` visit disjoint index sets. -/
theorem strided_disjoint {maxGos n s s' i : Nat} (hs : s < maxGos) (hs' : s' < maxGos) (hne : s ≠ s')
    (h : i ∈ strided maxGos n s) : i ∉ strided maxGos n s' := by
  rw [mem_strided] at *
  intro h'
  have e1 := Nat.mod_eq_of_lt hs
  have e2 := Nat.mod_eq_of_lt hs'
  omega

/-- … and together they visit every index below `n`. -/
theorem strided_cover {maxGos n i : Nat} (hm : 0 < maxGos) (hi : i < n) :
    ∃ s, s < maxGos ∧ i ∈ strided maxGos n s := by
  refine ⟨i % maxGos, Nat.mod_lt _ hm, ?_⟩
  rw [mem_strided]
  exact ⟨hi, (Nat.mod_mod _ _).symm, Nat.mod_le _ _⟩

/-! ## Lock discipline shared by the reduction and the locked `updateAt` -/

/-- All plain accesses so far are ordered before whoever holds (or next acquires) mutex `M`. -/
def LockOrdered (c : Config) : Prop :=
  ∀ a ∈ c.hist, (c.mtx M = none → a.eid ∈ c.mclk M) ∧ (∀ t, c.mtx M = some t → a.eid ∈ (c.thr t).seen)

/-! ## Mutex-guarded reduction (`KMeans.Iterate`) -/

/-- Threads in the order in which they merged their partial result. -/
def mergeOrder (c : Config) : List Tid := ((c.hist.filter (·.isWrite)).map (·.tid)).reverse

def reduceProgN (merge : Val → Val → Val) (loc : Tid → Val) (N : Nat) : Program :=
  fun t => if t < N then reduceThread merge (loc t) else []

structure RedInv (merge : Val → Val → Val) (loc : Tid → Val) (N : Nat) (c : Config) : Prop where
  pcle : ∀ t, (c.thr t).pc ≤ 5
  idle : ∀ t, N ≤ t → (c.thr t).pc = 0
  mtx_iff : ∀ t, c.mtx M = some t ↔ (2 ≤ (c.thr t).pc ∧ (c.thr t).pc ≤ 4)
  out3 : ∀ t, (c.thr t).pc = 3 → (c.thr t).out = c.mem ACC
  acc : c.mem ACC = ((mergeOrder c).map loc).foldl merge 0
  mem_order : ∀ t, t ∈ mergeOrder c ↔ 4 ≤ (c.thr t).pc
  nodup : (mergeOrder c).Nodup
  ordered : LockOrdered c
  norace : c.races = []

theorem redInv_init (merge : Val → Val → Val) (loc : Tid → Val) (N : Nat) : RedInv merge loc N Config.init := by
  constructor <;> simp [Config.init, TState.init, mergeOrder, LockOrdered]

theorem red_at (merge : Val → Val → Val) (x : Val) :
    (reduceThread merge x)[0]? = some .tau ∧ (reduceThread merge x)[1]? = some (.lock M) ∧
    (reduceThread merge x)[2]? = some (.read ACC) ∧
    (reduceThread merge x)[3]? = some (.writeF ACC (fun a => merge a x)) ∧
    (reduceThread merge x)[4]? = some (.unlock M) ∧ (reduceThread merge x)[5]? = none :=
  ⟨rfl, rfl, rfl, rfl, rfl, rfl⟩

theorem redInv_pc0 (merge : Val → Val → Val) (loc : Tid → Val) (N : Nat) (c : Config) (t : Tid)
    (I : RedInv merge loc N c) (ht : t < N) (h : (c.thr t).pc = 0) :
    RedInv merge loc N (exec (.tau) c t) := by
  obtain ⟨i1, i2, i3, i4, i5, i6, i7, i8, i9⟩ := I
  simp only [mergeOrder, LockOrdered, ACC, M] at *
  simp only [exec, advance, access]
  constructor <;> (try simp only [upd, unordered, mergeOrder, LockOrdered, ACC, M, List.filter_cons, List.map_cons, List.reverse_cons, List.map_append, List.foldl_append, List.foldl_cons, List.foldl_nil, List.mem_append, List.mem_singleton, List.mem_cons, List.append_eq_nil_iff, List.map_eq_nil_iff, List.filter_eq_nil_iff, Bool.false_eq_true, if_false, if_true, List.nodup_append, List.nodup_cons, List.nodup_nil, List.not_mem_nil]) <;> grind

theorem redInv_pc1 (merge : Val → Val → Val) (loc : Tid → Val) (N : Nat) (c : Config) (t : Tid)
    (I : RedInv merge loc N c) (ht : t < N) (h : (c.thr t).pc = 1) :
    RedInv merge loc N (exec (.lock M) c t) := by
  obtain ⟨i1, i2, i3, i4, i5, i6, i7, i8, i9⟩ := I
  simp only [mergeOrder, LockOrdered, ACC, M] at *
  simp only [exec, advance, access]
  cases hm : c.mtx 0 with
  | some u => simp only []; constructor <;> (try simp only [upd, unordered, mergeOrder, LockOrdered, ACC, M, List.filter_cons, List.map_cons, List.reverse_cons, List.map_append, List.foldl_append, List.foldl_cons, List.foldl_nil, List.mem_append, List.mem_singleton, List.mem_cons, List.append_eq_nil_iff, List.map_eq_nil_iff, List.filter_eq_nil_iff, Bool.false_eq_true, if_false, if_true, List.nodup_append, List.nodup_cons, List.nodup_nil, List.not_mem_nil]) <;> grind
  | none => simp only []; constructor <;> (try simp only [upd, unordered, mergeOrder, LockOrdered, ACC, M, List.filter_cons, List.map_cons, List.reverse_cons, List.map_append, List.foldl_append, List.foldl_cons, List.foldl_nil, List.mem_append, List.mem_singleton, List.mem_cons, List.append_eq_nil_iff, List.map_eq_nil_iff, List.filter_eq_nil_iff, Bool.false_eq_true, if_false, if_true, List.nodup_append, List.nodup_cons, List.nodup_nil, List.not_mem_nil]) <;> grind

theorem redInv_pc2 (merge : Val → Val → Val) (loc : Tid → Val) (N : Nat) (c : Config) (t : Tid)
    (I : RedInv merge loc N c) (ht : t < N) (h : (c.thr t).pc = 2) :
    RedInv merge loc N (exec (.read ACC) c t) := by
  obtain ⟨i1, i2, i3, i4, i5, i6, i7, i8, i9⟩ := I
  simp only [mergeOrder, LockOrdered, ACC, M] at *
  simp only [exec, advance, access]
  constructor <;> (try simp only [upd, unordered, mergeOrder, LockOrdered, ACC, M, List.filter_cons, List.map_cons, List.reverse_cons, List.map_append, List.foldl_append, List.foldl_cons, List.foldl_nil, List.mem_append, List.mem_singleton, List.mem_cons, List.append_eq_nil_iff, List.map_eq_nil_iff, List.filter_eq_nil_iff, Bool.false_eq_true, if_false, if_true, List.nodup_append, List.nodup_cons, List.nodup_nil, List.not_mem_nil]) <;> grind

theorem redInv_pc3 (merge : Val → Val → Val) (loc : Tid → Val) (N : Nat) (c : Config) (t : Tid)
    (I : RedInv merge loc N c) (ht : t < N) (h : (c.thr t).pc = 3) :
    RedInv merge loc N (exec (.writeF ACC (fun a => merge a (loc t))) c t) := by
  obtain ⟨i1, i2, i3, i4, i5, i6, i7, i8, i9⟩ := I
  simp only [mergeOrder, LockOrdered, ACC, M] at *
  simp only [exec, advance, access]
  constructor <;> (try simp only [upd, unordered, mergeOrder, LockOrdered, ACC, M, List.filter_cons, List.map_cons, List.reverse_cons, List.map_append, List.foldl_append, List.foldl_cons, List.foldl_nil, List.mem_append, List.mem_singleton, List.mem_cons, List.append_eq_nil_iff, List.map_eq_nil_iff, List.filter_eq_nil_iff, Bool.false_eq_true, if_false, if_true, List.nodup_append, List.nodup_cons, List.nodup_nil, List.not_mem_nil]) <;> grind

theorem redInv_pc4 (merge : Val → Val → Val) (loc : Tid → Val) (N : Nat) (c : Config) (t : Tid)
    (I : RedInv merge loc N c) (ht : t < N) (h : (c.thr t).pc = 4) :
    RedInv merge loc N (exec (.unlock M) c t) := by
  obtain ⟨i1, i2, i3, i4, i5, i6, i7, i8, i9⟩ := I
  simp only [mergeOrder, LockOrdered, ACC, M] at *
  simp only [exec, advance, access]
  constructor <;> (try simp only [upd, unordered, mergeOrder, LockOrdered, ACC, M, List.filter_cons, List.map_cons, List.reverse_cons, List.map_append, List.foldl_append, List.foldl_cons, List.foldl_nil, List.mem_append, List.mem_singleton, List.mem_cons, List.append_eq_nil_iff, List.map_eq_nil_iff, List.filter_eq_nil_iff, Bool.false_eq_true, if_false, if_true, List.nodup_append, List.nodup_cons, List.nodup_nil, List.not_mem_nil]) <;> grind

theorem redInv_step (merge : Val → Val → Val) (loc : Tid → Val) (N : Nat) (c : Config) (t : Tid)
    (I : RedInv merge loc N c) : RedInv merge loc N (step (reduceProgN merge loc N) c t) := by
  by_cases ht : t < N
  · have hp := I.pcle t
    obtain ⟨a0, a1, a2, a3, a4, a5⟩ := red_at merge (loc t)
    obtain h|h|h|h|h|h : (c.thr t).pc = 0 ∨ (c.thr t).pc = 1 ∨ (c.thr t).pc = 2 ∨ (c.thr t).pc = 3 ∨
        (c.thr t).pc = 4 ∨ (c.thr t).pc = 5 := by omega
    · simp only [step, reduceProgN, ht, if_true, h, a0]; exact redInv_pc0 merge loc N c t I ht h
    · simp only [step, reduceProgN, ht, if_true, h, a1]; exact redInv_pc1 merge loc N c t I ht h
    · simp only [step, reduceProgN, ht, if_true, h, a2]; exact redInv_pc2 merge loc N c t I ht h
    · simp only [step, reduceProgN, ht, if_true, h, a3]; exact redInv_pc3 merge loc N c t I ht h
    · simp only [step, reduceProgN, ht, if_true, h, a4]; exact redInv_pc4 merge loc N c t I ht h
    · simp only [step, reduceProgN, ht, if_true, h, a5]; exact I
  · simp only [step, reduceProgN, ht, if_false, List.getElem?_nil]; exact I

theorem redInv_run (merge : Val → Val → Val) (loc : Tid → Val) (N : Nat) (c : Config) (sched : Schedule)
    (I : RedInv merge loc N c) : RedInv merge loc N (run (reduceProgN merge loc N) c sched) := by
  induction sched generalizing c with
  | nil => exact I
  | cons t s ih => exact ih _ (redInv_step merge loc N c t I)

theorem red_done_iff (merge : Val → Val → Val) (loc : Tid → Val) (N : Nat) (c : Config) (t : Tid) (ht : t < N) :
    done (reduceProgN merge loc N) c t = true ↔ 5 ≤ (c.thr t).pc := by
  simp [done, reduceProgN, ht, reduceThread]

/-- When all `N` workers are done the merge order is a permutation of `0 … N-1`. -/
theorem RedInv.order_perm {merge : Val → Val → Val} {loc : Tid → Val} {N : Nat} {c : Config}
    (I : RedInv merge loc N c) (hdone : ∀ t, t < N → 5 ≤ (c.thr t).pc) :
    (mergeOrder c).Perm (List.range N) := by
  rw [List.perm_ext_iff_of_nodup I.nodup List.nodup_range]
  intro t
  rw [I.mem_order, List.mem_range]
  constructor
  · intro h
    by_contra hn
    have := I.idle t (by omega)
    omega
  · intro h
    have := hdone t h
    omega

/-- A fold with a commutative, associative merge does not depend on the order. -/
theorem foldl_perm_comm_assoc (merge : Val → Val → Val)
    (hc : ∀ a b, merge a b = merge b a) (ha : ∀ a b c, merge (merge a b) c = merge a (merge b c))
    {l₁ l₂ : List Val} (h : l₁.Perm l₂) (z : Val) : l₁.foldl merge z = l₂.foldl merge z := by
  haveI : RightCommutative merge := ⟨fun a b c => by rw [ha, hc b c, ← ha]⟩
  exact h.foldl_eq z

/-! ## Channel hand-out of indices (`mapCoordinates`) -/

structure ChanInv (n : Nat) (g : Val → Val) (c : Config) : Prop where
  pcle : ∀ t, (c.thr t).pc ≤ 1
  deliv : c.log.map (·.2) ++ (c.chan CH).map (·.1) = List.range n
  own : ∀ a ∈ c.hist, ∃ v ∈ c.log.map (·.2), a.loc = OUT + v
  val : ∀ v ∈ c.log.map (·.2), c.mem (OUT + v) = g v
  drained : ∀ t, (c.thr t).pc ≠ 0 → c.chan CH = []
  norace : c.races = []

theorem chanInv_init (n : Nat) (g : Val → Val) : ChanInv n g (chanInit n) := by
  constructor <;> simp [chanInit, Config.init, TState.init, upd, List.map_map, Function.comp_def]

theorem chanInv_step (n : Nat) (g : Val → Val) (c : Config) (t : Tid) (I : ChanInv n g c) :
    ChanInv n g (step (chanProg g) c t) := by
  have hp := I.pcle t
  obtain ⟨i1, i2, i3, i4, i5, i6⟩ := I
  obtain h | h : (c.thr t).pc = 0 ∨ (c.thr t).pc = 1 := by omega
  · simp only [step, chanProg, chanWorker, h, List.getElem?_cons_zero, exec]
    cases hc : c.chan CH with
    | nil =>
      simp only [advance]
      constructor <;> (try simp only [upd]) <;> grind
    | cons m rest =>
      obtain ⟨v, sn⟩ := m
      have hnd : (c.log.map (·.2) ++ (c.chan CH).map (·.1)).Nodup := i2 ▸ List.nodup_range
      rw [hc] at hnd i2
      simp only [List.map_cons] at hnd i2
      have hv : v ∉ c.log.map (·.2) := by
        intro hm
        exact (List.nodup_append.1 hnd).2.2 v hm v List.mem_cons_self rfl
      simp only [advance, access, OUT, Nat.zero_add, CH] at *
      constructor <;>
        (try simp only [upd, unordered, OUT, CH, Nat.zero_add, List.map_append, List.map_cons, List.map_nil,
          List.mem_append, List.mem_singleton, List.mem_cons, List.append_assoc, List.singleton_append,
          List.append_eq_nil_iff, List.map_eq_nil_iff, List.filter_eq_nil_iff]) <;>
        grind
  · simp only [step, chanProg, chanWorker, h]
    exact ⟨i1, i2, i3, i4, i5, i6⟩

theorem chanInv_run (n : Nat) (g : Val → Val) (c : Config) (sched : Schedule) (I : ChanInv n g c) :
    ChanInv n g (run (chanProg g) c sched) := by
  induction sched generalizing c with
  | nil => exact I
  | cons t s ih => exact ih _ (chanInv_step n g c t I)

theorem count_range_eq_one {n i : Nat} (h : i < n) : (List.range n).count i = 1 :=
  List.count_eq_one_of_mem List.nodup_range (List.mem_range.2 h)

/-! ## `HeightMap.updateAt` under a mutex -/

def updProgN (hs : Tid → Val) (N : Nat) : Program := fun t => if t < N then updateAtLocked (hs t) else []

/-- The largest proposed height (0 = the cell's initial value). -/
def maxHeights (hs : Tid → Val) (N : Nat) : Val := (List.range N).foldl (fun a t => max a (hs t)) 0

structure UpdInv (hs : Tid → Val) (N : Nat) (c : Config) : Prop where
  pcle : ∀ t, (c.thr t).pc ≤ 4
  idle : ∀ t, N ≤ t → (c.thr t).pc = 0 ∧ (c.thr t).flag = false
  mtx_iff : ∀ t, c.mtx M = some t ↔ (1 ≤ (c.thr t).pc ∧ (c.thr t).pc ≤ 3)
  out2 : ∀ t, (c.thr t).pc = 2 → (c.thr t).out = c.mem CELL
  ub : ∀ t, 3 ≤ (c.thr t).pc → hs t ≤ c.mem CELL
  att : c.mem CELL = 0 ∨ ∃ t, t < N ∧ c.mem CELL = hs t
  flag_pc : ∀ t, (c.thr t).flag = true → 3 ≤ (c.thr t).pc
  flag_nz : ∀ t, (c.thr t).flag = true → c.mem CELL ≠ 0
  nz_flag : c.mem CELL ≠ 0 → ∃ t, t < N ∧ (c.thr t).flag = true
  ordered : LockOrdered c
  norace : c.races = []

theorem updInv_init (hs : Tid → Val) (N : Nat) : UpdInv hs N Config.init := by
  constructor <;> simp [Config.init, TState.init, LockOrdered]

theorem upd_at (h : Val) :
    (updateAtLocked h)[0]? = some (.lock M) ∧ (updateAtLocked h)[1]? = some (.read CELL) ∧
    (updateAtLocked h)[2]? = some (.writeIfLess CELL h) ∧ (updateAtLocked h)[3]? = some (.unlock M) ∧
    (updateAtLocked h)[4]? = none := ⟨rfl, rfl, rfl, rfl, rfl⟩

theorem updInv_pc0 (hs : Tid → Val) (N : Nat) (c : Config) (t : Tid)
    (I : UpdInv hs N c) (ht : t < N) (h : (c.thr t).pc = 0) :
    UpdInv hs N (exec (.lock M) c t) := by
  obtain ⟨i1, i2, i3, i4, i5, i6, i7, i8, i9, i10, i11⟩ := I
  simp only [LockOrdered, CELL, M] at *
  simp only [exec, advance, access]
  cases hm : c.mtx 0 with
  | some u => simp only []; constructor <;> (try simp only [upd, unordered, LockOrdered, CELL, M, List.mem_cons, List.append_eq_nil_iff, List.map_eq_nil_iff, List.filter_eq_nil_iff]) <;> grind
  | none => simp only []; constructor <;> (try simp only [upd, unordered, LockOrdered, CELL, M, List.mem_cons, List.append_eq_nil_iff, List.map_eq_nil_iff, List.filter_eq_nil_iff]) <;> grind

theorem updInv_pc1 (hs : Tid → Val) (N : Nat) (c : Config) (t : Tid)
    (I : UpdInv hs N c) (ht : t < N) (h : (c.thr t).pc = 1) :
    UpdInv hs N (exec (.read CELL) c t) := by
  obtain ⟨i1, i2, i3, i4, i5, i6, i7, i8, i9, i10, i11⟩ := I
  simp only [LockOrdered, CELL, M] at *
  simp only [exec, advance, access]
  constructor <;> (try simp only [upd, unordered, LockOrdered, CELL, M, List.mem_cons, List.append_eq_nil_iff, List.map_eq_nil_iff, List.filter_eq_nil_iff]) <;> grind

theorem updInv_pc2 (hs : Tid → Val) (N : Nat) (c : Config) (t : Tid)
    (I : UpdInv hs N c) (ht : t < N) (h : (c.thr t).pc = 2) :
    UpdInv hs N (exec (.writeIfLess CELL (hs t)) c t) := by
  obtain ⟨i1, i2, i3, i4, i5, i6, i7, i8, i9, i10, i11⟩ := I
  simp only [LockOrdered, CELL, M] at *
  simp only [exec, advance, access]
  by_cases hlt : (c.thr t).out < hs t
  · simp only [hlt, if_true]; constructor <;> (try simp only [upd, unordered, LockOrdered, CELL, M, List.mem_cons, List.append_eq_nil_iff, List.map_eq_nil_iff, List.filter_eq_nil_iff]) <;> grind
  · simp only [hlt, if_false]; constructor <;> (try simp only [upd, unordered, LockOrdered, CELL, M, List.mem_cons, List.append_eq_nil_iff, List.map_eq_nil_iff, List.filter_eq_nil_iff]) <;> grind

theorem updInv_pc3 (hs : Tid → Val) (N : Nat) (c : Config) (t : Tid)
    (I : UpdInv hs N c) (ht : t < N) (h : (c.thr t).pc = 3) :
    UpdInv hs N (exec (.unlock M) c t) := by
  obtain ⟨i1, i2, i3, i4, i5, i6, i7, i8, i9, i10, i11⟩ := I
  simp only [LockOrdered, CELL, M] at *
  simp only [exec, advance, access]
  constructor <;> (try simp only [upd, unordered, LockOrdered, CELL, M, List.mem_cons, List.append_eq_nil_iff, List.map_eq_nil_iff, List.filter_eq_nil_iff]) <;> grind

theorem updInv_step (hs : Tid → Val) (N : Nat) (c : Config) (t : Tid)
    (I : UpdInv hs N c) : UpdInv hs N (step (updProgN hs N) c t) := by
  by_cases ht : t < N
  · have hp := I.pcle t
    obtain ⟨a0, a1, a2, a3, a4⟩ := upd_at (hs t)
    obtain h|h|h|h|h : (c.thr t).pc = 0 ∨ (c.thr t).pc = 1 ∨ (c.thr t).pc = 2 ∨ (c.thr t).pc = 3 ∨
        (c.thr t).pc = 4 := by omega
    · simp only [step, updProgN, ht, if_true, h, a0]; exact updInv_pc0 hs N c t I ht h
    · simp only [step, updProgN, ht, if_true, h, a1]; exact updInv_pc1 hs N c t I ht h
    · simp only [step, updProgN, ht, if_true, h, a2]; exact updInv_pc2 hs N c t I ht h
    · simp only [step, updProgN, ht, if_true, h, a3]; exact updInv_pc3 hs N c t I ht h
    · simp only [step, updProgN, ht, if_true, h, a4]; exact I
  · simp only [step, updProgN, ht, if_false, List.getElem?_nil]; exact I

theorem updInv_run (hs : Tid → Val) (N : Nat) (c : Config) (sched : Schedule)
    (I : UpdInv hs N c) : UpdInv hs N (run (updProgN hs N) c sched) := by
  induction sched generalizing c with
  | nil => exact I
  | cons t s ih => exact ih _ (updInv_step hs N c t I)

theorem upd_done_iff (hs : Tid → Val) (N : Nat) (c : Config) (t : Tid) (ht : t < N) :
    done (updProgN hs N) c t = true ↔ 4 ≤ (c.thr t).pc := by
  simp [done, updProgN, ht, updateAtLocked]

theorem maxHeights_succ (hs : Tid → Val) (N : Nat) : maxHeights hs (N + 1) = max (maxHeights hs N) (hs N) := by
  simp [maxHeights, List.range_succ, List.foldl_append]

theorem maxHeights_spec (hs : Tid → Val) (N : Nat) :
    (∀ t, t < N → hs t ≤ maxHeights hs N) ∧ (maxHeights hs N = 0 ∨ ∃ t, t < N ∧ maxHeights hs N = hs t) := by
  induction N with
  | zero => simp [maxHeights]
  | succ n ih =>
    rw [maxHeights_succ]
    obtain ⟨h1, h2⟩ := ih
    constructor
    · intro t ht
      by_cases h : t = n
      · subst h; exact Nat.le_max_right _ _
      · exact Nat.le_trans (h1 t (by omega)) (Nat.le_max_left _ _)
    · by_cases hle : hs n ≤ maxHeights hs n
      · rw [Nat.max_eq_left hle]
        rcases h2 with h2 | ⟨t, ht, he⟩
        · exact Or.inl h2
        · exact Or.inr ⟨t, by omega, he⟩
      · rw [Nat.max_eq_right (Nat.le_of_lt (Nat.lt_of_not_le hle))]
        exact Or.inr ⟨n, by omega, rfl⟩

/-- An attained upper bound is the maximum. -/
theorem eq_maxHeights (hs : Tid → Val) (N : Nat) (x : Val) (hub : ∀ t, t < N → hs t ≤ x)
    (hatt : x = 0 ∨ ∃ t, t < N ∧ x = hs t) : x = maxHeights hs N := by
  obtain ⟨m1, m2⟩ := maxHeights_spec hs N
  apply Nat.le_antisymm
  · rcases hatt with h | ⟨t, ht, he⟩
    · rw [h]; exact Nat.zero_le _
    · rw [he]; exact m1 t ht
  · rcases m2 with h | ⟨t, ht, he⟩
    · rw [h]; exact Nat.zero_le _
    · rw [he]; exact hub t ht

/-! ## Channel hand-off (`asyncSolidCache.FetchZ` → `Scan`) -/

structure HandInv (v : Val) (c : Config) : Prop where
  pc0 : (c.thr 0).pc ≤ 2
  pc1 : (c.thr 1).pc ≤ 2
  early : (c.thr 0).pc < 2 → c.chan CH = [] ∧ (c.thr 1).pc = 0
  written : 1 ≤ (c.thr 0).pc → c.mem BUF = v
  got : (c.thr 1).pc = 2 → (c.thr 1).out = v
  wr_tid : ∀ a ∈ c.hist, a.isWrite = true → a.tid = 0
  rd_tid : ∀ a ∈ c.hist, a.isWrite = false → a.tid = 1
  rd_late : ∀ a ∈ c.hist, a.isWrite = false → (c.thr 1).pc = 2
  wr_self : ∀ a ∈ c.hist, a.isWrite = true → a.eid ∈ (c.thr 0).seen
  in_msg : ∀ m ∈ c.chan CH, ∀ a ∈ c.hist, a.isWrite = true → a.eid ∈ m.2
  recvd : 1 ≤ (c.thr 1).pc → ∀ a ∈ c.hist, a.isWrite = true → a.eid ∈ (c.thr 1).seen
  norace : c.races = []

theorem handInv_init (v : Val) : HandInv v Config.init := by
  constructor <;> simp [Config.init, TState.init]

theorem handInv_step (v : Val) (c : Config) (t : Tid) (I : HandInv v c) : HandInv v (step (handoffProg v) c t) := by
  obtain ⟨i1, i2, i3, i4, i5, i6, i7, i8, i9, i10, i11, i12⟩ := I
  simp only [BUF, CH] at *
  by_cases h0 : t = 0
  · subst h0
    obtain h | h | h : (c.thr 0).pc = 0 ∨ (c.thr 0).pc = 1 ∨ (c.thr 0).pc = 2 := by omega
    · simp only [step, handoffProg, if_true, h, List.getElem?_cons_zero, exec, advance, access]
      constructor <;>
        (try simp only [upd, unordered, BUF, CH, List.mem_cons, List.append_eq_nil_iff, List.map_eq_nil_iff,
          List.filter_eq_nil_iff]) <;> grind
    · simp only [step, handoffProg, if_true, h, List.getElem?_cons_succ, List.getElem?_cons_zero, exec, advance]
      constructor <;>
        (try simp only [upd, BUF, CH, List.mem_append, List.mem_singleton]) <;> grind
    · simp only [step, handoffProg, if_true, h]
      exact ⟨i1, i2, i3, i4, i5, i6, i7, i8, i9, i10, i11, i12⟩
  · by_cases h1 : t = 1
    · subst h1
      obtain h | h | h : (c.thr 1).pc = 0 ∨ (c.thr 1).pc = 1 ∨ (c.thr 1).pc = 2 := by omega
      · simp only [step, handoffProg, h0, if_false, if_true, h, List.getElem?_cons_zero, exec, CH]
        cases hc : c.chan 0 with
        | nil => simp only []; exact ⟨i1, i2, i3, i4, i5, i6, i7, i8, i9, i10, i11, i12⟩
        | cons m rest =>
          obtain ⟨mv, ms⟩ := m
          have hm := i10 (mv, ms) (by rw [hc]; exact List.mem_cons_self)
          have hrest : ∀ m ∈ rest, m ∈ c.chan 0 := fun m h => by rw [hc]; exact List.mem_cons_of_mem _ h
          simp only [advance]
          constructor <;>
            (try simp only [upd, BUF, CH, List.mem_append, List.mem_cons]) <;> grind
      · simp only [step, handoffProg, h0, if_false, if_true, h, List.getElem?_cons_succ, List.getElem?_cons_zero,
          exec, advance, access, BUF]
        constructor <;>
          (try simp only [upd, unordered, BUF, CH, List.mem_cons, List.append_eq_nil_iff, List.map_eq_nil_iff,
            List.filter_eq_nil_iff]) <;> grind
      · simp only [step, handoffProg, h0, if_false, if_true, h]
        exact ⟨i1, i2, i3, i4, i5, i6, i7, i8, i9, i10, i11, i12⟩
    · simp only [step, handoffProg, h0, h1, if_false, List.getElem?_nil]
      exact ⟨i1, i2, i3, i4, i5, i6, i7, i8, i9, i10, i11, i12⟩

theorem handInv_run (v : Val) (c : Config) (sched : Schedule) (I : HandInv v c) :
    HandInv v (run (handoffProg v) c sched) := by
  induction sched generalizing c with
  | nil => exact I
  | cons t s ih => exact ih _ (handInv_step v c t I)

end M3d.Conc
