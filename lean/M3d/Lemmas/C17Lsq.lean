import Mathlib.Tactic.Ring
import Mathlib.Tactic.LinearCombination
import Mathlib.Tactic.Linarith
import Mathlib.Tactic.Positivity
import Mathlib.Tactic.FieldSimp
import Mathlib.Algebra.Order.Field.Basic
import Mathlib.Algebra.Order.BigOperators.Group.List
import M3d.Model.Lsq
/-!
Helper lemmas for C17: `LeastSquaresReg3` (`numerical/least_squares.go`) over an ordered field.
-/
namespace M3d.Num.Lsq
open M3d.Num

variable {K : Type} [Field K]

/-- Sum over the rows of the system. -/
def sumBy (f : V3 K × K → K) (rows : List (V3 K × K)) : K := (rows.map f).sum

@[simp] theorem sumBy_nil (f : V3 K × K → K) : sumBy f [] = 0 := rfl
@[simp] theorem sumBy_cons (f : V3 K × K → K) (r : V3 K × K) (rs : List (V3 K × K)) :
    sumBy f (r :: rs) = f r + sumBy f rs := by simp [sumBy]

/-- `AᵀA` entry by entry (row-major, as `leftSide` is indexed). -/
def gram (rows : List (V3 K × K)) : M3 K :=
  ⟨sumBy (fun r => r.1.x * r.1.x) rows, sumBy (fun r => r.1.y * r.1.x) rows, sumBy (fun r => r.1.z * r.1.x) rows,
   sumBy (fun r => r.1.x * r.1.y) rows, sumBy (fun r => r.1.y * r.1.y) rows, sumBy (fun r => r.1.z * r.1.y) rows,
   sumBy (fun r => r.1.x * r.1.z) rows, sumBy (fun r => r.1.y * r.1.z) rows, sumBy (fun r => r.1.z * r.1.z) rows⟩

/-- `Aᵀb`. -/
def rhs (rows : List (V3 K × K)) : V3 K :=
  ⟨sumBy (fun r => r.1.x * r.2) rows, sumBy (fun r => r.1.y * r.2) rows, sumBy (fun r => r.1.z * r.2) rows⟩

theorem foldl_step (rows : List (V3 K × K)) (m : M3 K) (r : V3 K) :
    rows.foldl step (m, r) = (m.add (gram rows), r.add (rhs rows)) := by
  induction rows generalizing m r with
  | nil =>
    obtain ⟨m0, m1, m2, m3, m4, m5, m6, m7, m8⟩ := m
    obtain ⟨x, y, z⟩ := r
    simp [gram, rhs, M3.add, V3.add]
  | cons a as ih =>
    rw [List.foldl_cons, step, ih]
    simp only [gram, rhs, M3.add, V3.add, V3.scale, rowOuter, sumBy_cons, Prod.mk.injEq, M3.mk.injEq,
      V3.mk.injEq]
    refine ⟨⟨?_, ?_, ?_, ?_, ?_, ?_, ?_, ?_, ?_⟩, ?_, ?_, ?_⟩ <;> ring

/-- The assembly loop plus the three diagonal updates: `leftSide = AᵀA + λ·I`, `rightSide = Aᵀb`. -/
theorem normal_eq (rows : List (V3 K × K)) (lam : K) :
    normal rows lam = (addDiag (gram rows) lam, rhs rows) := by
  simp only [normal, foldl_step, zeroM, zeroV, M3.add, V3.add, addDiag, Prod.mk.injEq, M3.mk.injEq]
  push_cast
  exact ⟨⟨by ring, by ring, by ring, by ring, by ring, by ring, by ring, by ring, by ring⟩, by simp⟩

/-! ### 3×3 matrix algebra -/

theorem mul_assoc' (a b c : M3 K) : (a.mul b).mul c = a.mul (b.mul c) := by
  simp only [M3.mul]; congr 1 <;> ring

theorem one_mul' (a : M3 K) : (M3.one : M3 K).mul a = a := by
  obtain ⟨a0, a1, a2, a3, a4, a5, a6, a7, a8⟩ := a
  simp only [M3.mul, M3.one]; push_cast; congr 1 <;> ring

theorem mul_one' (a : M3 K) : a.mul (M3.one : M3 K) = a := by
  obtain ⟨a0, a1, a2, a3, a4, a5, a6, a7, a8⟩ := a
  simp only [M3.mul, M3.one]; push_cast; congr 1 <;> ring

theorem one_mulColumn (c : V3 K) : (M3.one : M3 K).mulColumn c = c := by
  obtain ⟨x, y, z⟩ := c
  simp only [M3.mulColumn, M3.one]; push_cast; congr 1 <;> ring

theorem mulColumn_mul (m n : M3 K) (c : V3 K) : (m.mul n).mulColumn c = m.mulColumn (n.mulColumn c) := by
  simp only [M3.mul, M3.mulColumn]; congr 1 <;> ring

theorem det_mul (m n : M3 K) : (m.mul n).det = m.det * n.det := by
  simp only [M3.mul, M3.det]; ring

theorem det_transpose (m : M3 K) : m.transpose.det = m.det := by
  simp only [M3.transpose, M3.det]; ring

theorem det_one : (M3.one : M3 K).det = 1 := by
  simp only [M3.one, M3.det]; push_cast; ring

theorem mul_inverse (m : M3 K) (h : m.det ≠ 0) : m.mul m.inverse = M3.one := by
  have key : ((1 : Nat) : K) / m.det * m.det = 1 := by push_cast; exact one_div_mul_cancel h
  simp only [M3.inverse, M3.invertDet, M3.scale, M3.mul, M3.one, M3.adj]
  generalize ((1 : Nat) : K) / m.det = s at key
  simp only [M3.det] at key
  push_cast
  congr 1 <;> first | (linear_combination key) | (linear_combination 0 * key)

/-- A square matrix with `vᵀ·v = 1` also has `v·vᵀ = 1`. -/
theorem orth_right (v : M3 K) (h : v.transpose.mul v = M3.one) : v.mul v.transpose = M3.one := by
  have hd : v.det ≠ 0 := by
    intro h0
    have := congrArg M3.det h
    rw [det_mul, det_transpose, det_one, h0] at this
    simp at this
  have hinv : v.transpose = v.inverse := by
    calc v.transpose = v.transpose.mul (v.mul v.inverse) := by rw [mul_inverse v hd, mul_one']
      _ = (v.transpose.mul v).mul v.inverse := (mul_assoc' _ _ _).symm
      _ = v.inverse := by rw [h, one_mul']
  rw [hinv, mul_inverse v hd]

variable [LinearOrder K] [IsStrictOrderedRing K]

/-- `s` diagonal (what `symEigDecomp` writes). -/
def IsDiag (s : M3 K) : Prop := s.m1 = 0 ∧ s.m2 = 0 ∧ s.m3 = 0 ∧ s.m5 = 0 ∧ s.m6 = 0 ∧ s.m7 = 0

omit [IsStrictOrderedRing K] in
theorem pinvEntry_mul (eps x : K) (h0 : 0 ≤ eps) (h : eps < x) : x * pinvEntry eps x = 1 := by
  have hx : x ≠ 0 := ne_of_gt (lt_of_le_of_lt h0 h)
  simp only [pinvEntry, h, if_true]; push_cast; field_simp

/-- A diagonal `s` whose entries are all above the floor is inverted by the loop. -/
theorem diag_mul_pinv (s : M3 K) (eps : K) (hd : IsDiag s) (h0 : 0 ≤ eps)
    (h : eps < s.m0 ∧ eps < s.m4 ∧ eps < s.m8) : s.mul (pinvDiag eps s) = M3.one := by
  obtain ⟨s0, s1, s2, s3, s4, s5, s6, s7, s8⟩ := s
  obtain ⟨h1, h2, h3, h5, h6, h7⟩ := hd
  simp only at h1 h2 h3 h5 h6 h7 h
  subst h1 h2 h3 h5 h6 h7
  have e0 := pinvEntry_mul eps s0 h0 h.1
  have e4 := pinvEntry_mul eps s4 h0 h.2.1
  have e8 := pinvEntry_mul eps s8 h0 h.2.2
  simp only [M3.mul, pinvDiag, M3.one, M3.mk.injEq]
  push_cast
  refine ⟨?_, ?_, ?_, ?_, ?_, ?_, ?_, ?_, ?_⟩ <;>
    first | (linear_combination e0) | (linear_combination e4) | (linear_combination e8) | ring

/-- The last line of `LeastSquaresReg3` solves `n·x = r` when `(s, v)` is an orthogonal eigen-decomposition of `n`
with every eigenvalue above the floor. -/
theorem solveWith_solves (s v n : M3 K) (r : V3 K) (eps : K)
    (horth : v.transpose.mul v = M3.one) (hrec : (v.mul s).mul v.transpose = n) (hd : IsDiag s)
    (h0 : 0 ≤ eps) (h : eps < s.m0 ∧ eps < s.m4 ∧ eps < s.m8) :
    n.mulColumn (solveWith s v eps r) = r := by
  have hr := orth_right v horth
  have hsd := diag_mul_pinv s eps hd h0 h
  subst hrec
  rw [solveWith, ← mulColumn_mul]
  have : ((v.mul s).mul v.transpose).mul ((v.mul (pinvDiag eps s)).mul v.transpose) = M3.one := by
    calc ((v.mul s).mul v.transpose).mul ((v.mul (pinvDiag eps s)).mul v.transpose)
        = v.mul (s.mul ((v.transpose.mul v).mul ((pinvDiag eps s).mul v.transpose))) := by
          simp only [mul_assoc']
      _ = v.mul ((s.mul (pinvDiag eps s)).mul v.transpose) := by rw [horth, one_mul', mul_assoc']
      _ = M3.one := by rw [hsd, one_mul', hr]
  rw [this, one_mulColumn]

/-! ### eigenvalues of `AᵀA + λI` are at least `λ` -/

/-- `cᵀ·m·c`. -/
def quad (m : M3 K) (c : V3 K) : K := V3.dot c (m.mulColumn c)

theorem quad_gram (rows : List (V3 K × K)) (c : V3 K) :
    quad (gram rows) c = sumBy (fun r => (V3.dot r.1 c) ^ 2) rows := by
  induction rows with
  | nil => simp [quad, gram, V3.dot, M3.mulColumn]
  | cons a as ih =>
    simp only [quad, gram, V3.dot, M3.mulColumn, sumBy_cons] at ih ⊢
    linear_combination ih

theorem sumBy_nonneg (f : V3 K × K → K) (rows : List (V3 K × K)) (h : ∀ r, 0 ≤ f r) : 0 ≤ sumBy f rows := by
  induction rows with
  | nil => simp
  | cons a as ih => rw [sumBy_cons]; exact add_nonneg (h a) ih

theorem quad_normal_ge (rows : List (V3 K × K)) (lam : K) (c : V3 K) :
    lam * V3.dot c c ≤ quad (addDiag (gram rows) lam) c := by
  have h1 : quad (addDiag (gram rows) lam) c = quad (gram rows) c + lam * V3.dot c c := by
    simp only [quad, addDiag, V3.dot, M3.mulColumn]; ring
  rw [h1, quad_gram]
  have := sumBy_nonneg (fun r => (V3.dot r.1 c) ^ 2) rows (fun r => sq_nonneg _)
  linarith

/-- Column `j` of `v`. -/
def col0 (v : M3 K) : V3 K := ⟨v.m0, v.m3, v.m6⟩
def col1 (v : M3 K) : V3 K := ⟨v.m1, v.m4, v.m7⟩
def col2 (v : M3 K) : V3 K := ⟨v.m2, v.m5, v.m8⟩

/-- With `vᵀv = 1` and `v·s·vᵀ = n`, `s` diagonal: the diagonal entries of `s` are the values of the quadratic
form of `n` on the (unit) columns of `v`. -/
theorem diag_eq_quad (s v n : M3 K) (horth : v.transpose.mul v = M3.one)
    (hrec : (v.mul s).mul v.transpose = n) :
    s.m0 = quad n (col0 v) ∧ s.m4 = quad n (col1 v) ∧ s.m8 = quad n (col2 v) ∧
    V3.dot (col0 v) (col0 v) = 1 ∧ V3.dot (col1 v) (col1 v) = 1 ∧ V3.dot (col2 v) (col2 v) = 1 := by
  have hs : (v.transpose.mul n).mul v = s := by
    subst hrec
    calc (v.transpose.mul ((v.mul s).mul v.transpose)).mul v
        = (v.transpose.mul v).mul (s.mul (v.transpose.mul v)) := by simp only [mul_assoc']
      _ = s := by rw [horth, one_mul', mul_one']
  obtain ⟨v0, v1, v2, v3, v4, v5, v6, v7, v8⟩ := v
  obtain ⟨n0, n1, n2, n3, n4, n5, n6, n7, n8⟩ := n
  obtain ⟨s0, s1, s2, s3, s4, s5, s6, s7, s8⟩ := s
  simp only [M3.mul, M3.transpose, M3.one, M3.mk.injEq] at horth hs
  push_cast at horth
  obtain ⟨o0, -, -, -, o4, -, -, -, o8⟩ := horth
  obtain ⟨e0, -, -, -, e4, -, -, -, e8⟩ := hs
  simp only [quad, col0, col1, col2, V3.dot, M3.mulColumn]
  refine ⟨?_, ?_, ?_, ?_, ?_, ?_⟩
  · linear_combination -e0
  · linear_combination -e4
  · linear_combination -e8
  · linear_combination o0
  · linear_combination o4
  · linear_combination o8

/-- Every eigenvalue that an orthogonal decomposition of `AᵀA + λI` reports is at least `λ`. -/
theorem eig_ge_lambda (rows : List (V3 K × K)) (lam : K) (s v : M3 K)
    (horth : v.transpose.mul v = M3.one)
    (hrec : (v.mul s).mul v.transpose = addDiag (gram rows) lam) :
    lam ≤ s.m0 ∧ lam ≤ s.m4 ∧ lam ≤ s.m8 := by
  obtain ⟨h0, h4, h8, u0, u4, u8⟩ := diag_eq_quad s v _ horth hrec
  have q0 := quad_normal_ge rows lam (col0 v)
  have q4 := quad_normal_ge rows lam (col1 v)
  have q8 := quad_normal_ge rows lam (col2 v)
  rw [u0, mul_one] at q0; rw [u4, mul_one] at q4; rw [u8, mul_one] at q8
  exact ⟨h0 ▸ q0, h4 ▸ q4, h8 ▸ q8⟩

/-- Ridge regression is least squares of the system augmented by the rows `√λ·eᵢ` with right-hand side 0. -/
theorem normal_ridgeRows (rows : List (V3 K × K)) (lam sq : K) (h : sq * sq = lam) :
    normal (rows ++ ridgeRows sq) ((0 : Nat) : K) = normal rows lam := by
  rw [normal_eq, normal_eq]
  simp only [gram, rhs, sumBy, List.map_append, List.sum_append, ridgeRows, addDiag, List.map_cons, List.map_nil,
    List.sum_cons, List.sum_nil, Prod.mk.injEq, M3.mk.injEq, V3.mk.injEq]
  push_cast
  refine ⟨⟨?_, ?_, ?_, ?_, ?_, ?_, ?_, ?_, ?_⟩, ?_, ?_, ?_⟩ <;>
    first | (linear_combination h) | ring

/-! ### the truncated pseudo-inverse (some eigenvalues at or below the floor) -/

omit [IsStrictOrderedRing K] in
theorem pinvEntry_cut (eps x : K) (h : ¬ eps < x) : pinvEntry eps x = 0 := by
  simp only [pinvEntry, h, if_false]; push_cast; rfl

/-- In the eigenbasis (`y = vᵀ·r`): the returned vector has the coordinates `s⁺ᵢ·yᵢ` and `n` times it the coordinates
`sᵢ·s⁺ᵢ·yᵢ`. -/
theorem solveWith_coords (s v n : M3 K) (r : V3 K) (eps : K)
    (horth : v.transpose.mul v = M3.one) (hrec : (v.mul s).mul v.transpose = n) (hd : IsDiag s) :
    v.transpose.mulColumn (solveWith s v eps r) =
      ⟨pinvEntry eps s.m0 * (v.transpose.mulColumn r).x, pinvEntry eps s.m4 * (v.transpose.mulColumn r).y,
       pinvEntry eps s.m8 * (v.transpose.mulColumn r).z⟩ ∧
    v.transpose.mulColumn (n.mulColumn (solveWith s v eps r)) =
      ⟨s.m0 * pinvEntry eps s.m0 * (v.transpose.mulColumn r).x, s.m4 * pinvEntry eps s.m4 * (v.transpose.mulColumn r).y,
       s.m8 * pinvEntry eps s.m8 * (v.transpose.mulColumn r).z⟩ := by
  have e1 : v.transpose.mul ((v.mul (pinvDiag eps s)).mul v.transpose) = (pinvDiag eps s).mul v.transpose := by
    calc v.transpose.mul ((v.mul (pinvDiag eps s)).mul v.transpose)
        = (v.transpose.mul v).mul ((pinvDiag eps s).mul v.transpose) := by simp only [mul_assoc']
      _ = _ := by rw [horth, one_mul']
  have e2 : v.transpose.mul (((v.mul s).mul v.transpose).mul ((v.mul (pinvDiag eps s)).mul v.transpose))
      = (s.mul (pinvDiag eps s)).mul v.transpose := by
    calc v.transpose.mul (((v.mul s).mul v.transpose).mul ((v.mul (pinvDiag eps s)).mul v.transpose))
        = (v.transpose.mul v).mul (s.mul ((v.transpose.mul v).mul ((pinvDiag eps s).mul v.transpose))) := by
          simp only [mul_assoc']
      _ = _ := by rw [horth, one_mul', one_mul', mul_assoc']
  subst hrec
  obtain ⟨h1, h2, h3, h5, h6, h7⟩ := hd
  constructor
  · rw [solveWith, ← mulColumn_mul, e1, mulColumn_mul]
    generalize v.transpose.mulColumn r = y
    simp only [M3.mulColumn, pinvDiag, h1, h2, h3, h5, h6, h7, V3.mk.injEq]
    refine ⟨by ring, by ring, by ring⟩
  · rw [solveWith, ← mulColumn_mul, ← mulColumn_mul, mul_assoc', e2, mulColumn_mul]
    generalize v.transpose.mulColumn r = y
    simp only [M3.mulColumn, M3.mul, pinvDiag, h1, h2, h3, h5, h6, h7, V3.mk.injEq]
    refine ⟨by ring, by ring, by ring⟩

end M3d.Num.Lsq
