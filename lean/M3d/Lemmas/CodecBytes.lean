import M3d.Model.CodecBytes
/-! Lemmas about the byte-level building blocks: integer codecs round-trip, `ReadString` and
`strings.Fields` on text assembled from tokens.  Kernel-only proofs (`omega`, `simp`, `decide`). -/
namespace M3d.Codec

theorem leBytes_length (k n : Nat) : (leBytes k n).length = k := by
  induction k generalizing n with
  | zero => rfl
  | succ k ih => simp [leBytes, ih]

theorem unle_leBytes (k n : Nat) : unle (leBytes k n) = n % 256 ^ k := by
  induction k generalizing n with
  | zero => simp [leBytes, unle, Nat.mod_one]
  | succ k ih =>
    simp only [leBytes, unle, ih, UInt8.toNat_ofNat']
    have h : (256 : Nat) ^ (k + 1) = 256 * 256 ^ k := by rw [Nat.pow_succ, Nat.mul_comm]
    rw [h, Nat.mod_mul]
    have : n % 256 % 2 ^ 8 = n % 256 := by
      have : n % 256 < 256 := Nat.mod_lt _ (by decide)
      omega
    rw [this]

theorem unle_leBytes_of_lt {k n : Nat} (h : n < 256 ^ k) : unle (leBytes k n) = n := by
  rw [unle_leBytes, Nat.mod_eq_of_lt h]

theorem unbe_beBytes_of_lt {k n : Nat} (h : n < 256 ^ k) : unbe (beBytes k n) = n := by
  simp [unbe, beBytes, unle_leBytes_of_lt h]

theorem putUint_length (e : Endian) (k n : Nat) : (putUint e k n).length = k := by
  cases e <;> simp [putUint, beBytes, leBytes_length]

theorem getUint_putUint (e : Endian) {k n : Nat} (h : n < 256 ^ k) : getUint e (putUint e k n) = n := by
  cases e
  · exact unle_leBytes_of_lt h
  · exact unbe_beBytes_of_lt h

theorem le32_length (x : UInt32) : (le32 x).length = 4 := leBytes_length _ _

theorem unle32_le32 (x : UInt32) : unle32 (le32 x) = x := by
  unfold unle32 le32
  rw [unle_leBytes_of_lt (by have := x.toNat_lt; omega)]
  exact UInt32.ofNat_toNat

theorem unbe32_be32 (x : UInt32) : unbe32 (be32 x) = x := by
  unfold unbe32 be32
  rw [unbe_beBytes_of_lt (by have := x.toNat_lt; omega)]
  exact UInt32.ofNat_toNat

theorem unle16_le16 (x : UInt16) : unle16 (le16 x) = x := by
  unfold unle16 le16
  rw [unle_leBytes_of_lt (by have := x.toNat_lt; omega)]
  exact UInt16.ofNat_toNat

theorem unbe16_be16 (x : UInt16) : unbe16 (be16 x) = x := by
  unfold unbe16 be16
  rw [unbe_beBytes_of_lt (by have := x.toNat_lt; omega)]
  exact UInt16.ofNat_toNat

theorem unle64_le64 (x : UInt64) : unle64 (le64 x) = x := by
  unfold unle64 le64
  rw [unle_leBytes_of_lt (by have := x.toNat_lt; omega)]
  exact UInt64.ofNat_toNat

theorem unbe64_be64 (x : UInt64) : unbe64 (be64 x) = x := by
  unfold unbe64 be64
  rw [unbe_beBytes_of_lt (by have := x.toNat_lt; omega)]
  exact UInt64.ofNat_toNat

/-- four little-endian bytes at the head of a stream decode to the word, whatever follows -/
theorem words32_le32_append (x : UInt32) (rest : Bytes) :
    words32 (le32 x ++ rest) = x :: words32 rest := by
  have h4 := le32_length x
  match hb : le32 x, h4 with
  | [a, b, c, d], _ =>
    simp only [List.cons_append, List.nil_append, words32]
    rw [← hb, unle32_le32]

theorem words32_flatMap_le32 (r : List UInt32) : words32 (r.flatMap le32) = r := by
  induction r with
  | nil => rfl
  | cons x xs ih => rw [List.flatMap_cons, words32_le32_append, ih]

end M3d.Codec
