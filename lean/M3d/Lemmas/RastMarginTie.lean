import M3d.Gen.RastMargin
import M3d.Props.C12
import Mathlib.Tactic.Linarith
import Mathlib.Tactic.Positivity
import Mathlib.Tactic.NormNum
import Mathlib.Algebra.Order.Field.Basic
/-!
# Tie of `RasterizeCollider`'s filter radius to the source (property C12)

`M3d/Gen/RastMargin.lean` is REGENERATED on every check (go/ast over `Rasterizer.RasterizeCollider` and
`RasterizeColliderSolid` in model2d/rasterize.go): the radius of the hollow solid that is rendered
(`rcHollowRadius lineWidth scale`) and the radius of the circle the tile filter tests
(`rcFilterRadius halfDiag lineWidth scale`, `halfDiag = MinVal.Dist(center)`), both in terms of
`lineWidth = r.lineWidth()` and `scale = r.scale()`.  The theorems below re-prove against the
current text that the filter's radius is at least half a tile diagonal plus the radius of the
hollow solid — the hypothesis `e ≤ margin` of `M3d.C12.raster_collider_indep_of_filter` — for EVERY
positive scale and non-negative line width.  An edit that pads by the line width in pixels
(`0.5·lineWidth` instead of `0.5·lineWidth/scale`: too small when `scale < 1`), by a fixed amount,
or not at all breaks these proofs.
-/
set_option linter.unusedTactic false
set_option linter.unreachableTactic false
set_option linter.style.haveILetI false

namespace M3d.RastMarginTie
open M3d.GenPrelude M3d.Gen.RastMargin

variable {K : Type} [Field K] [LinearOrder K] [IsStrictOrderedRing K]

/-- the hollow solid's radius is non-negative (needed to use the collider's circle test) -/
theorem rc_hollow_radius_nonneg (sq : K → K) (lineWidth scale : K) (hl : 0 ≤ lineWidth) (hs : 0 < scale) :
    (letI : HasSqrt K := ⟨sq⟩; 0 ≤ rcHollowRadius lineWidth scale) := by
  simp only [rcHollowRadius]
  positivity

/-- `RasterizeCollider`: for every scale `> 0`, line width `≥ 0` and tile, the filter's circle has
radius at least `MinVal.Dist(center)` + the radius of the hollow solid. -/
theorem rc_filter_radius_covers (sq : K → K) (halfDiag lineWidth scale : K) (hl : 0 ≤ lineWidth)
    (hs : 0 < scale) :
    (letI : HasSqrt K := ⟨sq⟩;
      halfDiag + rcHollowRadius lineWidth scale ≤ rcFilterRadius halfDiag lineWidth scale) := by
  have h0 := rc_hollow_radius_nonneg sq lineWidth scale hl hs
  simp only [rcHollowRadius, rcFilterRadius] at h0 ⊢
  first
    | exact le_refl _
    | linarith
    | nlinarith

/-- `RasterizeColliderSolid` (even-odd solid, no thickness): the filter's circle contains the tile. -/
theorem rcs_filter_radius_covers (sq : K → K) (halfDiag lineWidth scale : K) (hl : 0 ≤ lineWidth)
    (hs : 0 < scale) :
    (letI : HasSqrt K := ⟨sq⟩; halfDiag ≤ rcsFilterRadius halfDiag lineWidth scale) := by
  have h0 := rc_hollow_radius_nonneg sq lineWidth scale hl hs
  simp only [rcHollowRadius, rcsFilterRadius] at h0 ⊢
  first
    | exact le_refl _
    | linarith
    | nlinarith

/-- the regenerated filter radius is `halfDiag` + a tile-independent margin -/
theorem rc_filter_radius_shape (sq : K → K) (halfDiag lineWidth scale : K) :
    (letI : HasSqrt K := ⟨sq⟩;
      rcFilterRadius halfDiag lineWidth scale = halfDiag + rcFilterRadius 0 lineWidth scale) := by
  simp only [rcFilterRadius]
  ring

open M3d.Partition M3d.RastCollider M3d.C12 in
/-- `RasterizeCollider` with the radii AS WRITTEN IN THE SOURCE (regenerated): for every scale `> 0`,
line width `≥ 0`, image geometry, `Subsamples ≥ 1` and collider with an exact circle test, the pixel
writes are those of the unfiltered rendering of the hollow solid `NewColliderSolidHollow(c,
rcHollowRadius lineWidth scale)`, the tile `t` being kept iff
`c.CircleCollision(center, rcFilterRadius (MinVal.Dist(center)) lineWidth scale)`. -/
theorem raster_collider_code_margin (sq : K → K) (hsq : ∀ x : K, 0 ≤ x → sq x * sq x = x ∧ 0 ≤ sq x)
    (sh : Shade) (C : P2 K → Prop) (hits : P2 K → K → Bool)
    (hspec : ∀ c r, 0 ≤ r → (hits c r = true ↔ ∃ q, C q ∧ sqDist c q ≤ r * r))
    (inB : P2 K → Bool) (mn : P2 K) (pw ph : K) (hpw : 0 ≤ pw) (hph : 0 ≤ ph)
    (w h ss : Nat) (hss : 0 < ss) (lineWidth scale : K) (hl : 0 ≤ lineWidth) (hs : 0 < scale) :
    (letI : HasSqrt K := ⟨sq⟩;
      (rasterFilter w h (filterSize ss)
        (fun t => hits (tileMid mn pw ph t)
          (rcFilterRadius (sq (sqDist (tileLo mn pw ph t) (tileMid mn pw ph t))) lineWidth scale))
        (fillTile (hollowContains inB hits (rcHollowRadius lineWidth scale)) (tileMid mn pw ph))
        (renderPixel sh (hollowContains inB hits (rcHollowRadius lineWidth scale)) (samples mn pw ph ss))).Perm
      (rasterPlain w h
        (renderPixel sh (hollowContains inB hits (rcHollowRadius lineWidth scale)) (samples mn pw ph ss)))) := by
  letI : HasSqrt K := ⟨sq⟩
  have h0 := rc_hollow_radius_nonneg sq lineWidth scale hl hs
  have h1 := rc_filter_radius_covers sq 0 lineWidth scale hl hs
  have hk : (fun t => hits (tileMid mn pw ph t)
        (rcFilterRadius (sq (sqDist (tileLo mn pw ph t) (tileMid mn pw ph t))) lineWidth scale)) =
      colliderKeep sq hits (rcFilterRadius 0 lineWidth scale) mn pw ph := by
    funext t
    unfold colliderKeep
    rw [rc_filter_radius_shape sq]
  rw [hk]
  exact raster_collider_indep_of_filter sq hsq sh C hits hspec inB mn pw ph hpw hph w h ss hss _ _ h0
    (by simpa using h1)

end M3d.RastMarginTie
