import M3d.Lemmas.SdfRound
/-!
C06 helper lemmas: `Capsule` value, `profileSDF`, `meshSDF` sign, Lipschitz bound of a distance function.
-/
namespace M3d.Sdf
set_option linter.unusedSectionVars false
set_option linter.unusedVariables false

variable {K : Type} [Field K] [LinearOrder K] [IsStrictOrderedRing K]

/-! ## `Capsule` -/

theorem sphereOut_val {E : Env K} (hE : E.Exact) (center c : V3 K) (r : K) :
    (sphereOut E center r c).val = r - E.sqrt (c.sqDist center) := by
  obtain ⟨ρ, _, _, h1, h2, _⟩ := sphereOut_spec hE center c r
  rw [h2, ← h1]; rfl

theorem circleOut_val {E : Env K} (hE : E.Exact) (center c : V2 K) (r : K) :
    (circleOut E center r c).val = r - E.sqrt (c.sqDist center) := by
  obtain ⟨ρ, _, _, h1, h2, _⟩ := circleOut_spec hE center c r
  rw [h2, ← h1]; rfl

theorem vecEq3_iff (a b : V3 K) : vecEq3 a b = true ↔ a = b := by
  simp only [vecEq3, Bool.and_eq_true, isZero_iff, sub_eq_zero]
  constructor
  · rintro ⟨⟨h1, h2⟩, h3⟩; ext <;> assumption
  · rintro rfl; exact ⟨⟨rfl, rfl⟩, rfl⟩

theorem vecEq2_iff (a b : V2 K) : vecEq2 a b = true ↔ a = b := by
  simp only [vecEq2, Bool.and_eq_true, isZero_iff, sub_eq_zero]
  constructor
  · rintro ⟨h1, h2⟩; ext <;> assumption
  · rintro rfl; exact ⟨rfl, rfl⟩

theorem sqDist_self3 (a : V3 K) : a.sqDist a = 0 := by simp [V3.sqDist]
theorem sqDist_self2 (a : V2 K) : a.sqDist a = 0 := by simp [V2.sqDist]

/-- the branch conditions of `Capsule.genericSDF` in `sqrt`-free form -/
theorem capsule_branch {E : Env K} (hE : E.Exact) {A : K} (hA : 0 < A) (B : K) :
    ((1 / E.sqrt A) * B < 0 ↔ B < 0) ∧ (E.sqrt A < (1 / E.sqrt A) * B ↔ A < B) := by
  obtain ⟨hn, hu, hun, huu⟩ := inv_norm_facts hE hA
  have hnn := hE.sqrt_sq A hA.le
  generalize E.sqrt A = n at *
  generalize 1 / n = u at *
  constructor
  · constructor
    · intro h; by_contra hc; have := mul_nonneg hu.le (not_lt.mp hc); linarith
    · intro h; exact mul_neg_of_pos_of_neg hu h
  · constructor
    · intro h; have := mul_lt_mul_of_pos_left h hn; nlinarith
    · intro h; have h3 : u * A < u * B := mul_lt_mul_of_pos_left h hu
      have : u * A = n := by rw [← hnn]; linear_combination n * hun
      linarith

/-- **`Capsule.SDF = Radius - Segment.Dist`** in every region (both caps, the degenerate end point, the
middle): the value is `r` minus the distance to the closest point of the segment `P1 P2`. -/
theorem capsuleOut3_val {E : Env K} (hE : E.Exact) (p1 p2 c : V3 K) (r : K) (hne : 0 < (p2.sub p1).normSq) :
    (capsuleOut3 E p1 p2 r c).val = r - E.sqrt (c.sqDist (segClosestQ3 p1 p2 c)) := by
  have hb := capsule_branch hE hne ((p2.sub p1).dot (c.sub p1))
  change ((1 / (p2.sub p1).norm E) * (p2.sub p1).dot (c.sub p1) < 0 ↔ (p2.sub p1).dot (c.sub p1) < 0) ∧
    ((p2.sub p1).norm E < (1 / (p2.sub p1).norm E) * (p2.sub p1).dot (c.sub p1) ↔
      (p2.sub p1).normSq < (p2.sub p1).dot (c.sub p1)) at hb
  obtain ⟨hb1, hb2⟩ := hb
  have hdot : (c.sub p1).dot ((p2.sub p1).scale (1 / (p2.sub p1).norm E))
      = 1 / (p2.sub p1).norm E * (p2.sub p1).dot (c.sub p1) := by
    simp only [V3.dot, V3.scale]; ring
  have hd : (p2.sub p1).dot (p2.sub p1) = (p2.sub p1).normSq := rfl
  unfold capsuleOut3 segClosestQ3
  dsimp only
  rw [hdot, hd]
  by_cases h1 : (p2.sub p1).dot (c.sub p1) < 0
  · have h2 : ¬ (p2.sub p1).normSq < (p2.sub p1).dot (c.sub p1) := by linarith
    rw [if_pos (Or.inl (hb1.mpr h1)), if_neg h2, if_pos h1]
    simp only [hb1.mpr h1, if_true]
    split_ifs with heq
    · rw [(vecEq3_iff _ _).mp heq, sqDist_self3, hE.sqrt_zero, sub_zero]
    · exact sphereOut_val hE p1 c r
  · by_cases h2 : (p2.sub p1).normSq < (p2.sub p1).dot (c.sub p1)
    · rw [if_pos (Or.inr (hb2.mpr h2)), if_pos h2]
      have : ¬ (1 / (p2.sub p1).norm E * (p2.sub p1).dot (c.sub p1) < 0) := fun h => h1 (hb1.mp h)
      simp only [this, if_false]
      split_ifs with heq
      · rw [(vecEq3_iff _ _).mp heq, sqDist_self3, hE.sqrt_zero, sub_zero]
      · exact sphereOut_val hE p2 c r
    · have : ¬ (1 / (p2.sub p1).norm E * (p2.sub p1).dot (c.sub p1) < 0 ∨
          (p2.sub p1).norm E < 1 / (p2.sub p1).norm E * (p2.sub p1).dot (c.sub p1)) := by
        rintro (h | h)
        · exact h1 (hb1.mp h)
        · exact h2 (hb2.mp h)
      rw [if_neg this, if_neg h2, if_neg h1]
      show r - segDist3 E p1 p2 c = _
      have hq := segClosest3_eq_Q hE p1 p2 c hne
      unfold segDist3 V3.dist
      rw [hq]
      unfold segClosestQ3
      dsimp only
      rw [hd, if_neg h2, if_neg h1]

theorem capsuleOut2_val {E : Env K} (hE : E.Exact) (p1 p2 c : V2 K) (r : K) (hne : 0 < (p2.sub p1).normSq) :
    (capsuleOut2 E p1 p2 r c).val = r - E.sqrt (c.sqDist (segClosestQ2 p1 p2 c)) := by
  have hb := capsule_branch hE hne ((p2.sub p1).dot (c.sub p1))
  change ((1 / (p2.sub p1).norm E) * (p2.sub p1).dot (c.sub p1) < 0 ↔ (p2.sub p1).dot (c.sub p1) < 0) ∧
    ((p2.sub p1).norm E < (1 / (p2.sub p1).norm E) * (p2.sub p1).dot (c.sub p1) ↔
      (p2.sub p1).normSq < (p2.sub p1).dot (c.sub p1)) at hb
  obtain ⟨hb1, hb2⟩ := hb
  have hdot : (c.sub p1).dot ((p2.sub p1).scale (1 / (p2.sub p1).norm E))
      = 1 / (p2.sub p1).norm E * (p2.sub p1).dot (c.sub p1) := by
    simp only [V2.dot, V2.scale]; ring
  have hd : (p2.sub p1).dot (p2.sub p1) = (p2.sub p1).normSq := rfl
  unfold capsuleOut2 segClosestQ2
  dsimp only
  rw [hdot, hd]
  by_cases h1 : (p2.sub p1).dot (c.sub p1) < 0
  · have h2 : ¬ (p2.sub p1).normSq < (p2.sub p1).dot (c.sub p1) := by linarith
    rw [if_pos (Or.inl (hb1.mpr h1)), if_neg h2, if_pos h1]
    simp only [hb1.mpr h1, if_true]
    split_ifs with heq
    · rw [(vecEq2_iff _ _).mp heq, sqDist_self2, hE.sqrt_zero, sub_zero]
    · exact circleOut_val hE p1 c r
  · by_cases h2 : (p2.sub p1).normSq < (p2.sub p1).dot (c.sub p1)
    · rw [if_pos (Or.inr (hb2.mpr h2)), if_pos h2]
      have : ¬ (1 / (p2.sub p1).norm E * (p2.sub p1).dot (c.sub p1) < 0) := fun h => h1 (hb1.mp h)
      simp only [this, if_false]
      split_ifs with heq
      · rw [(vecEq2_iff _ _).mp heq, sqDist_self2, hE.sqrt_zero, sub_zero]
      · exact circleOut_val hE p2 c r
    · have : ¬ (1 / (p2.sub p1).norm E * (p2.sub p1).dot (c.sub p1) < 0 ∨
          (p2.sub p1).norm E < 1 / (p2.sub p1).norm E * (p2.sub p1).dot (c.sub p1)) := by
        rintro (h | h)
        · exact h1 (hb1.mp h)
        · exact h2 (hb2.mp h)
      rw [if_neg this, if_neg h2, if_neg h1]
      show r - segDist2 E p1 p2 c = _
      have hq := segClosest2_eq_Q hE p1 p2 c hne
      unfold segDist2 V2.dist
      rw [hq]
      unfold segClosestQ2
      dsimp only
      rw [hd, if_neg h2, if_neg h1]

/-! ## `meshSDF` sign -/

/-- `meshSDF.SDF`: the magnitude is the unsigned mesh distance, the sign is positive exactly when the point
is in the bounds and the fixed ray crosses the surface an odd number of times. -/
theorem meshSign_spec (inBounds : Bool) (collisions : Nat) (d : K) (hd : 0 ≤ d) :
    |meshSign (parityInside inBounds collisions) d| = d ∧
    (inBounds = true ∧ collisions % 2 = 1 → meshSign (parityInside inBounds collisions) d = d) ∧
    (¬ (inBounds = true ∧ collisions % 2 = 1) → meshSign (parityInside inBounds collisions) d = -d) := by
  have hp : parityInside inBounds collisions = true ↔ (inBounds = true ∧ collisions % 2 = 1) := by
    simp [parityInside]
  unfold meshSign
  refine ⟨?_, ?_, ?_⟩
  · split_ifs
    · exact abs_of_nonneg hd
    · rw [abs_neg]; exact abs_of_nonneg hd
  · intro h; rw [if_pos (hp.mpr h)]
  · intro h; rw [if_neg (fun hc => h (hp.mp hc))]

/-! ## Lipschitz -/

/-- A true distance-to-a-set function is 1-Lipschitz: `d` a symmetric function with the triangle inequality,
`f p` the infimum of `d p s` over `s ∈ S` (a lower bound approached within every `ε > 0`). -/
theorem dist_to_set_lipschitz {X : Type} (d : X → X → K) (S : X → Prop) (f : X → K)
    (hsymm : ∀ a b, d a b = d b a) (htri : ∀ a b c, d a c ≤ d a b + d b c)
    (hlb : ∀ p s, S s → f p ≤ d p s) (hinf : ∀ p ε, 0 < ε → ∃ s, S s ∧ d p s < f p + ε) (p q : X) :
    |f p - f q| ≤ d p q := by
  have key : ∀ a b : X, f a - f b ≤ d a b := by
    intro a b
    by_contra hc
    have hc := not_le.mp hc
    obtain ⟨s, hs, hlt⟩ := hinf b ((f a - f b - d a b) / 2) (by linarith)
    have h1 := hlb a s hs
    have h2 := htri a b s
    linarith
  rw [abs_le]
  constructor
  · have := key q p; rw [hsymm q p] at this; linarith
  · exact key p q

/-- … and so is the *signed* distance, provided every path from the inside to the outside meets the set
(`hcross`: for `p`, `q` of opposite sign there is a boundary point `b` with `d p b + d b q = d p q`, e.g. the
point where the straight segment crosses the boundary). -/
theorem signed_dist_lipschitz {X : Type} (d : X → X → K) (S : X → Prop) (f : X → K) (inside : X → Prop)
    (sdf : X → K) (hsdf : ∀ p, sdf p = f p ∨ sdf p = -f p)
    (hsign : ∀ p, (inside p → sdf p = f p) ∧ (¬ inside p → sdf p = -f p))
    (hnn : ∀ a b, 0 ≤ d a b) (hsymm : ∀ a b, d a b = d b a) (htri : ∀ a b c, d a c ≤ d a b + d b c)
    (hlb : ∀ p s, S s → f p ≤ d p s) (hinf : ∀ p ε, 0 < ε → ∃ s, S s ∧ d p s < f p + ε)
    (hcross : ∀ p q, inside p → ¬ inside q → ∃ b, S b ∧ d p b + d b q = d p q) (p q : X) :
    |sdf p - sdf q| ≤ d p q := by
  have hl := dist_to_set_lipschitz d S f hsymm htri hlb hinf
  have hf0 : ∀ x, 0 ≤ f x := by
    intro x
    by_contra hc
    obtain ⟨s, hs, hlt⟩ := hinf x (-f x) (by linarith)
    have := hnn x s
    linarith
  by_cases hp : inside p <;> by_cases hq : inside q
  · rw [(hsign p).1 hp, (hsign q).1 hq]; exact hl p q
  · rw [(hsign p).1 hp, (hsign q).2 hq]
    obtain ⟨b, hb, hd⟩ := hcross p q hp hq
    have h1 := hlb p b hb
    have h2 := hlb q b hb
    rw [hsymm q b] at h2
    have := hf0 p; have := hf0 q
    rw [abs_of_nonneg (by linarith)]; linarith
  · rw [(hsign p).2 hp, (hsign q).1 hq]
    obtain ⟨b, hb, hd⟩ := hcross q p hq hp
    have h1 := hlb p b hb
    have h2 := hlb q b hb
    rw [hsymm p b] at h1
    rw [hsymm q p] at hd
    have := hf0 p; have := hf0 q
    rw [abs_le]; constructor <;> linarith
  · rw [(hsign p).2 hp, (hsign q).2 hq]
    have := hl p q
    rw [abs_le] at this ⊢
    constructor <;> linarith [this.1, this.2]

end M3d.Sdf
