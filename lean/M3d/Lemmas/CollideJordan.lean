import M3d.Lemmas.CollideParity
import Mathlib.Tactic.Tauto
/-!
# C07 — the crossing parity of a closed triangle mesh does not depend on the direction of the ray

Two rays from the same origin `o` with linearly independent directions `d1`, `d2` span a planar wedge
`W = {o + α·d1 + β·d2 | α, β > 0}`.  With `n = d1 × d2` every point has wedge coordinates
`cA x = ((x-o) × d2)·n`, `cB x = (d1 × (x-o))·n`, `gam x = (x-o)·n` (`|n|²` times the coefficients of `x - o` in
the basis `d1, d2, n`).  A triangle in general position meets the plane `gam = 0` in a segment between the points
where two of its edges cross the plane; in the coordinates `(cA, cB)` the wedge is the open first quadrant, its
boundary the two rays, and a segment has its end points on the same side of the quadrant's boundary iff it crosses
both rays or none (`quadrant_parity`).  So for every face: (number of its edges piercing `W`) + (number of the two
rays piercing it) is even.  Summed over a closed mesh the edge terms cancel — every edge is shared by an even
number of faces — hence the two rays cross the mesh the same number of times modulo 2.
-/
set_option linter.unusedSectionVars false
set_option linter.unusedVariables false
set_option linter.unusedSimpArgs false
set_option linter.unusedTactic false
namespace M3d.Col

variable {K : Type} [Field K] [LinearOrder K] [IsStrictOrderedRing K]

/-! ## the quadrant lemma (2-D) -/

theorem sign_cases (x : K) (hx : x ≠ 0) : (x < 0 ∧ ¬ 0 < x) ∨ (0 < x ∧ ¬ x < 0) := by
  rcases lt_or_gt_of_ne hx with h | h
  · exact Or.inl ⟨h, not_lt_of_gt h⟩
  · exact Or.inr ⟨h, not_lt_of_gt h⟩

/-- in the open first quadrant -/
def inQ (A B : K) : Prop := 0 < A ∧ 0 < B
/-- the segment `(A1,B1) (A2,B2)` crosses the positive `A`-axis (division-free) -/
def crossA (A1 B1 A2 B2 : K) : Prop := B1 * B2 < 0 ∧ 0 < (A1 * B2 - A2 * B1) * (B2 - B1)
/-- the segment `(A1,B1) (A2,B2)` crosses the positive `B`-axis -/
def crossB (A1 B1 A2 B2 : K) : Prop := A1 * A2 < 0 ∧ 0 < (A1 * B2 - A2 * B1) * (A1 - A2)

theorem crossA_iff (A1 B1 A2 B2 : K) (hB1 : B1 ≠ 0) (hB2 : B2 ≠ 0) :
    crossA A1 B1 A2 B2 ↔ (B1 < 0 ∧ 0 < B2 ∧ 0 < A1 * B2 - A2 * B1) ∨ (0 < B1 ∧ B2 < 0 ∧ A1 * B2 - A2 * B1 < 0) := by
  unfold crossA
  rcases sign_cases B1 hB1 with ⟨b1, b1'⟩ | ⟨b1, b1'⟩ <;> rcases sign_cases B2 hB2 with ⟨b2, b2'⟩ | ⟨b2, b2'⟩
  · have : 0 < B1 * B2 := mul_pos_of_neg_of_neg b1 b2
    simp [b1, b1', b2, b2', not_lt_of_gt this]
  · have : B1 * B2 < 0 := mul_neg_of_neg_of_pos b1 b2
    have hd : 0 < B2 - B1 := by linarith
    simp only [this, b1, b1', b2, b2', true_and, false_and, or_false, and_true]
    constructor
    · intro h; by_contra hc; have := not_lt.1 hc; nlinarith
    · intro h; exact mul_pos h hd
  · have : B1 * B2 < 0 := mul_neg_of_pos_of_neg b1 b2
    have hd : B2 - B1 < 0 := by linarith
    simp only [this, b1, b1', b2, b2', true_and, false_and, false_or, and_true]
    constructor
    · intro h; by_contra hc; have := not_lt.1 hc; nlinarith
    · intro h; exact mul_pos_of_neg_of_neg h hd
  · have : 0 < B1 * B2 := mul_pos b1 b2
    simp [b1, b1', b2, b2', not_lt_of_gt this]

theorem crossB_iff (A1 B1 A2 B2 : K) (hA1 : A1 ≠ 0) (hA2 : A2 ≠ 0) :
    crossB A1 B1 A2 B2 ↔ (A1 < 0 ∧ 0 < A2 ∧ A1 * B2 - A2 * B1 < 0) ∨ (0 < A1 ∧ A2 < 0 ∧ 0 < A1 * B2 - A2 * B1) := by
  unfold crossB
  rcases sign_cases A1 hA1 with ⟨b1, b1'⟩ | ⟨b1, b1'⟩ <;> rcases sign_cases A2 hA2 with ⟨b2, b2'⟩ | ⟨b2, b2'⟩
  · have : 0 < A1 * A2 := mul_pos_of_neg_of_neg b1 b2
    simp [b1, b1', b2, b2', not_lt_of_gt this]
  · have : A1 * A2 < 0 := mul_neg_of_neg_of_pos b1 b2
    have hd : A1 - A2 < 0 := by linarith
    simp only [this, b1, b1', b2, b2', true_and, false_and, or_false, and_true]
    constructor
    · intro h; by_contra hc; have := not_lt.1 hc; nlinarith
    · intro h; exact mul_pos_of_neg_of_neg h hd
  · have : A1 * A2 < 0 := mul_neg_of_pos_of_neg b1 b2
    have hd : 0 < A1 - A2 := by linarith
    simp only [this, b1, b1', b2, b2', true_and, false_and, false_or, and_true]
    constructor
    · intro h; by_contra hc; have := not_lt.1 hc; nlinarith
    · intro h; exact mul_pos h hd
  · have : 0 < A1 * A2 := mul_pos b1 b2
    simp [b1, b1', b2, b2', not_lt_of_gt this]

/-- **The quadrant lemma**: a segment between two points off the axes whose line misses the origin has its end
points on the same side of the boundary of the open first quadrant iff it crosses both bounding rays or none. -/
theorem quadrant_parity (A1 B1 A2 B2 : K) (hA1 : A1 ≠ 0) (hB1 : B1 ≠ 0) (hA2 : A2 ≠ 0) (hB2 : B2 ≠ 0)
    (hN : A1 * B2 - A2 * B1 ≠ 0) :
    (inQ A1 B1 ↔ inQ A2 B2) ↔ (crossA A1 B1 A2 B2 ↔ crossB A1 B1 A2 B2) := by
  rw [crossA_iff A1 B1 A2 B2 hB1 hB2, crossB_iff A1 B1 A2 B2 hA1 hA2]
  unfold inQ
  rcases sign_cases A1 hA1 with ⟨a1, a1'⟩ | ⟨a1, a1'⟩ <;> rcases sign_cases B1 hB1 with ⟨b1, b1'⟩ | ⟨b1, b1'⟩ <;>
  rcases sign_cases A2 hA2 with ⟨a2, a2'⟩ | ⟨a2, a2'⟩ <;> rcases sign_cases B2 hB2 with ⟨b2, b2'⟩ | ⟨b2, b2'⟩ <;>
  rcases sign_cases _ hN with ⟨n, n'⟩ | ⟨n, n'⟩ <;>
  first
    | (simp only [a1, a1', b1, b1', a2, a2', b2, b2', n, n', true_and, and_true, false_and, and_false, or_false,
        false_or, or_true, true_or, iff_true, true_iff, iff_false, false_iff, not_true, not_false_iff, iff_self]; done)
    | (exfalso; nlinarith [mul_pos a1 b2, mul_neg_of_neg_of_pos a2 b1])
    | (exfalso; nlinarith [mul_pos a1 b2, mul_neg_of_pos_of_neg a2 b1])
    | (exfalso; nlinarith [mul_pos_of_neg_of_neg a1 b2, mul_neg_of_neg_of_pos a2 b1])
    | (exfalso; nlinarith [mul_pos_of_neg_of_neg a1 b2, mul_neg_of_pos_of_neg a2 b1])
    | (exfalso; nlinarith [mul_neg_of_neg_of_pos a1 b2, mul_pos a2 b1])
    | (exfalso; nlinarith [mul_neg_of_pos_of_neg a1 b2, mul_pos a2 b1])
    | (exfalso; nlinarith [mul_neg_of_neg_of_pos a1 b2, mul_pos_of_neg_of_neg a2 b1])
    | (exfalso; nlinarith [mul_neg_of_pos_of_neg a1 b2, mul_pos_of_neg_of_neg a2 b1])

/-- two points in the same open quadrant-sign class: nothing is crossed -/
theorem quadrant_same (A1 B1 A2 B2 : K) (hA : 0 < A1 * A2) (hB : 0 < B1 * B2) :
    (inQ A1 B1 ↔ inQ A2 B2) ∧ ¬ crossA A1 B1 A2 B2 ∧ ¬ crossB A1 B1 A2 B2 := by
  refine ⟨?_, fun h => absurd h.1 (not_lt_of_gt hB), fun h => absurd h.1 (not_lt_of_gt hA)⟩
  unfold inQ
  constructor
  · rintro ⟨h1, h2⟩
    exact ⟨by by_contra hc; have := not_lt.1 hc; nlinarith, by by_contra hc; have := not_lt.1 hc; nlinarith⟩
  · rintro ⟨h1, h2⟩
    exact ⟨by by_contra hc; have := not_lt.1 hc; nlinarith, by by_contra hc; have := not_lt.1 hc; nlinarith⟩

/-- a point of the segment on the positive `A`-axis, in terms of the division-free test -/
theorem crossA_geom (A1 B1 A2 B2 : K) (hB1 : B1 ≠ 0) (hB2 : B2 ≠ 0) :
    (∃ m, 0 ≤ m ∧ m ≤ 1 ∧ (1 - m) * B1 + m * B2 = 0 ∧ 0 < (1 - m) * A1 + m * A2) ↔ crossA A1 B1 A2 B2 := by
  unfold crossA
  constructor
  · rintro ⟨m, hm0, hm1, hb, ha⟩
    have hBB : B1 * B2 < 0 := by
      rcases sign_cases B1 hB1 with ⟨b1, _⟩ | ⟨b1, _⟩ <;> rcases sign_cases B2 hB2 with ⟨b2, _⟩ | ⟨b2, _⟩
      · exfalso; nlinarith [mul_nonneg hm0 (le_of_lt (neg_pos.2 b2)), mul_nonneg (sub_nonneg.2 hm1) (le_of_lt (neg_pos.2 b1))]
      · exact mul_neg_of_neg_of_pos b1 b2
      · exact mul_neg_of_pos_of_neg b1 b2
      · exfalso; nlinarith [mul_nonneg hm0 (le_of_lt b2), mul_nonneg (sub_nonneg.2 hm1) (le_of_lt b1)]
    refine ⟨hBB, ?_⟩
    have hne : B2 - B1 ≠ 0 := by
      intro h0
      have : B1 = B2 := by linarith
      rw [this] at hBB; nlinarith [mul_self_nonneg B2]
    -- (A1 B2 - A2 B1) = ((1-m) A1 + m A2) (B2 - B1)  using (1-m) B1 + m B2 = 0
    have e : (A1 * B2 - A2 * B1) * (B2 - B1) = ((1 - m) * A1 + m * A2) * ((B2 - B1) * (B2 - B1)) := by
      linear_combination ((A1 - A2) * (B2 - B1)) * hb
    rw [e]
    exact mul_pos ha (mul_self_pos.2 hne)
  · rintro ⟨hBB, hN⟩
    have hne : B1 - B2 ≠ 0 := by
      intro h0
      have : B1 = B2 := by linarith
      rw [this] at hBB; nlinarith [mul_self_nonneg B2]
    have hsq : 0 < (B1 - B2) * (B1 - B2) := mul_self_pos.2 hne
    refine ⟨B1 / (B1 - B2), ?_, ?_, ?_, ?_⟩
    · rw [div_nonneg_iff]
      rcases lt_or_gt_of_ne hne with h | h
      · right; constructor <;> nlinarith
      · left; constructor <;> nlinarith
    · rw [div_le_one_iff]
      rcases lt_or_gt_of_ne hne with h | h
      · right; right; constructor <;> nlinarith
      · left; constructor <;> nlinarith
    · field_simp; ring
    · have e : (1 - B1 / (B1 - B2)) * A1 + B1 / (B1 - B2) * A2 = (A1 * B2 - A2 * B1) * (B2 - B1) / ((B1 - B2) * (B1 - B2)) := by
        field_simp; ring
      rw [e]; exact div_pos hN hsq

/-- the same for the positive `B`-axis -/
theorem crossB_geom (A1 B1 A2 B2 : K) (hA1 : A1 ≠ 0) (hA2 : A2 ≠ 0) :
    (∃ m, 0 ≤ m ∧ m ≤ 1 ∧ (1 - m) * A1 + m * A2 = 0 ∧ 0 < (1 - m) * B1 + m * B2) ↔ crossB A1 B1 A2 B2 := by
  have h := crossA_geom B1 A1 B2 A2 hA1 hA2
  rw [h]
  unfold crossA crossB
  constructor
  · rintro ⟨h1, h2⟩; exact ⟨h1, by nlinarith⟩
  · rintro ⟨h1, h2⟩; exact ⟨h1, by nlinarith⟩

/-! ## slicing a triangle by a plane (pure algebra on the three vertex values) -/

/-- value of an affine function at the point where the segment `p q` crosses the zero set of `g`
(`gp`, `gq` the values of `g`, `fp`, `fq` the values of the function) -/
def crossVal (gp gq fp fq : K) : K := (gp * fq - gq * fp) / (gp - gq)

theorem crossVal_symm (gp gq fp fq : K) : crossVal gq gp fq fp = crossVal gp gq fp fq := by
  unfold crossVal
  rw [← neg_div_neg_eq]
  congr 1 <;> ring

/-- with `a` alone on its side of the plane (`ga·gb < 0`, `ga·gc < 0`): the points of the triangle in the plane
are the points `(1-m)·Q1 + m·Q2` of the segment between the crossing points of the edges `ab` and `ac` -/
theorem slice_param (ga gb gc : K) (hab : ga * gb < 0) (hac : ga * gc < 0) (fa fb fc ha hb hc : K) :
    (∀ u v, 0 ≤ u → 0 ≤ v → u + v ≤ 1 → ga + u * (gb - ga) + v * (gc - ga) = 0 →
      ∃ m, 0 ≤ m ∧ m ≤ 1 ∧
        fa + u * (fb - fa) + v * (fc - fa) = (1 - m) * crossVal ga gb fa fb + m * crossVal ga gc fa fc ∧
        ha + u * (hb - ha) + v * (hc - ha) = (1 - m) * crossVal ga gb ha hb + m * crossVal ga gc ha hc) ∧
    (∀ m, 0 ≤ m → m ≤ 1 → ∃ u v, 0 ≤ u ∧ 0 ≤ v ∧ u + v ≤ 1 ∧ ga + u * (gb - ga) + v * (gc - ga) = 0 ∧
        fa + u * (fb - fa) + v * (fc - fa) = (1 - m) * crossVal ga gb fa fb + m * crossVal ga gc fa fc ∧
        ha + u * (hb - ha) + v * (hc - ha) = (1 - m) * crossVal ga gb ha hb + m * crossVal ga gc ha hc) := by
  have hga : ga ≠ 0 := fun h => by rw [h] at hab; simp at hab
  have hd1 : ga - gb ≠ 0 := by
    intro h; have : ga = gb := by linarith
    rw [this] at hab; nlinarith [mul_self_nonneg gb]
  have hd2 : ga - gc ≠ 0 := by
    intro h; have : ga = gc := by linarith
    rw [this] at hac; nlinarith [mul_self_nonneg gc]
  -- λ1 = ga/(ga-gb), λ2 = ga/(ga-gc) lie in (0,1)
  have hl1 : 0 < ga / (ga - gb) ∧ ga / (ga - gb) < 1 := by
    rcases lt_or_gt_of_ne hga with h | h
    · have hb : 0 < gb := by by_contra hc; have := not_lt.1 hc; nlinarith
      have hneg : ga - gb < 0 := by linarith
      exact ⟨div_pos_of_neg_of_neg h hneg, by rw [div_lt_one_of_neg hneg]; linarith⟩
    · have hb : gb < 0 := by by_contra hc; have := not_lt.1 hc; nlinarith
      have hpos : 0 < ga - gb := by linarith
      exact ⟨div_pos h hpos, by rw [div_lt_one hpos]; linarith⟩
  have hl2 : 0 < ga / (ga - gc) ∧ ga / (ga - gc) < 1 := by
    rcases lt_or_gt_of_ne hga with h | h
    · have hb : 0 < gc := by by_contra hc; have := not_lt.1 hc; nlinarith
      have hneg : ga - gc < 0 := by linarith
      exact ⟨div_pos_of_neg_of_neg h hneg, by rw [div_lt_one_of_neg hneg]; linarith⟩
    · have hb : gc < 0 := by by_contra hc; have := not_lt.1 hc; nlinarith
      have hpos : 0 < ga - gc := by linarith
      exact ⟨div_pos h hpos, by rw [div_lt_one hpos]; linarith⟩
  have hc1 : ∀ fa fb : K, crossVal ga gb fa fb = fa + ga / (ga - gb) * (fb - fa) := by
    intro fa fb; unfold crossVal; field_simp; ring
  have hc2 : ∀ fa fc : K, crossVal ga gc fa fc = fa + ga / (ga - gc) * (fc - fa) := by
    intro fa fc; unfold crossVal; field_simp; ring
  set l1 := ga / (ga - gb) with hl1d
  set l2 := ga / (ga - gc) with hl2d
  have e1 : l1 * (gb - ga) = -ga := by rw [hl1d]; field_simp; ring
  have e2 : l2 * (gc - ga) = -ga := by rw [hl2d]; field_simp; ring
  constructor
  · intro u v hu hv huv hg
    -- u / l1 + v / l2 = 1
    have hsum : u / l1 + v / l2 = 1 := by
      have h1 : gb - ga = -ga / l1 := by rw [eq_div_iff (ne_of_gt hl1.1)]; linarith
      have h2 : gc - ga = -ga / l2 := by rw [eq_div_iff (ne_of_gt hl2.1)]; linarith
      rw [h1, h2] at hg
      have : ga * (1 - u / l1 - v / l2) = 0 := by
        have := hg; field_simp at this ⊢; linarith
      rcases mul_eq_zero.1 this with h | h
      · exact absurd h hga
      · linarith
    have hu' : u = (1 - v / l2) * l1 := by
      have : u / l1 = 1 - v / l2 := by linarith
      rw [← this, div_mul_cancel₀ u (ne_of_gt hl1.1)]
    have hv' : v = v / l2 * l2 := (div_mul_cancel₀ v (ne_of_gt hl2.1)).symm
    refine ⟨v / l2, div_nonneg hv (le_of_lt hl2.1), ?_, ?_, ?_⟩
    · have : 0 ≤ u / l1 := div_nonneg hu (le_of_lt hl1.1)
      linarith
    · rw [hc1, hc2]
      generalize v / l2 = m at hu' hv'
      rw [hu', hv']; ring
    · rw [hc1, hc2]
      generalize v / l2 = m at hu' hv'
      rw [hu', hv']; ring
  · intro m hm0 hm1
    refine ⟨(1 - m) * l1, m * l2, mul_nonneg (sub_nonneg.2 hm1) (le_of_lt hl1.1), mul_nonneg hm0 (le_of_lt hl2.1), ?_, ?_, ?_, ?_⟩
    · nlinarith [mul_nonneg (sub_nonneg.2 hm1) (le_of_lt (sub_pos.2 hl1.2)), mul_nonneg hm0 (le_of_lt (sub_pos.2 hl2.2))]
    · linear_combination (1 - m) * e1 + m * e2
    · rw [hc1, hc2]; ring
    · rw [hc1, hc2]; ring

/-! ## wedge coordinates -/

section Wedge
variable (o d1 d2 : V3 K)

/-- `(x - o)·n`, `n = d1 × d2`: zero on the plane of the wedge -/
def wGam (x : V3 K) : K := (x.sub o).dot (d1.cross d2)
/-- `|n|²` times the `d1`-coefficient of `x - o` -/
def wA (x : V3 K) : K := ((x.sub o).cross d2).dot (d1.cross d2)
/-- `|n|²` times the `d2`-coefficient of `x - o` -/
def wB (x : V3 K) : K := (d1.cross (x.sub o)).dot (d1.cross d2)
/-- `|n|²` -/
def wNN : K := (d1.cross d2).dot (d1.cross d2)

theorem wGam_tri (a b c : V3 K) (u v : K) : wGam o d1 d2 (triPoint a b c u v) =
    wGam o d1 d2 a + u * (wGam o d1 d2 b - wGam o d1 d2 a) + v * (wGam o d1 d2 c - wGam o d1 d2 a) := by
  simp only [wGam, triPoint, V3.add, V3.sub, V3.scale, V3.dot, V3.cross]; ring

theorem wA_tri (a b c : V3 K) (u v : K) : wA o d1 d2 (triPoint a b c u v) =
    wA o d1 d2 a + u * (wA o d1 d2 b - wA o d1 d2 a) + v * (wA o d1 d2 c - wA o d1 d2 a) := by
  simp only [wA, triPoint, V3.add, V3.sub, V3.scale, V3.dot, V3.cross]; ring

theorem wB_tri (a b c : V3 K) (u v : K) : wB o d1 d2 (triPoint a b c u v) =
    wB o d1 d2 a + u * (wB o d1 d2 b - wB o d1 d2 a) + v * (wB o d1 d2 c - wB o d1 d2 a) := by
  simp only [wB, triPoint, V3.add, V3.sub, V3.scale, V3.dot, V3.cross]; ring

/-- `|n|²·(x - o) = wA·d1 + wB·d2 + wGam·n` -/
theorem wedge_decomp (x : V3 K) :
    (x.sub o).scale (wNN d1 d2) =
      ((d1.scale (wA o d1 d2 x)).add (d2.scale (wB o d1 d2 x))).add ((d1.cross d2).scale (wGam o d1 d2 x)) := by
  simp only [wNN, wA, wB, wGam, V3.add, V3.sub, V3.scale, V3.dot, V3.cross, V3.mk.injEq]
  exact ⟨by ring, by ring, by ring⟩

theorem wNN_pos (hnn : wNN d1 d2 ≠ 0) : 0 < wNN d1 d2 :=
  lt_of_le_of_ne (V3.dot_self_nonneg _) (Ne.symm hnn)

/-- a point with all three wedge coordinates zero is the origin -/
theorem wedge_origin (hnn : wNN d1 d2 ≠ 0) (x : V3 K) (hg : wGam o d1 d2 x = 0) (ha : wA o d1 d2 x = 0)
    (hb : wB o d1 d2 x = 0) : x = o := by
  have h := wedge_decomp o d1 d2 x
  rw [hg, ha, hb] at h
  simp only [V3.add, V3.sub, V3.scale, V3.mk.injEq, mul_zero, add_zero] at h
  obtain ⟨h1, h2, h3⟩ := h
  have e1 := (mul_eq_zero.1 h1).resolve_right hnn
  have e2 := (mul_eq_zero.1 h2).resolve_right hnn
  have e3 := (mul_eq_zero.1 h3).resolve_right hnn
  cases x; cases o
  simp only [V3.mk.injEq] at *
  exact ⟨by linarith, by linarith, by linarith⟩

/-- the ray from `o` along `d` meets the (closed) triangle -/
def rayHits (o d : V3 K) (F : Tri K) : Prop :=
  ∃ t u v, 0 ≤ t ∧ 0 ≤ u ∧ 0 ≤ v ∧ u + v ≤ 1 ∧ o.along d t = triPoint F.1 F.2.1 F.2.2 u v

/-- `o` is a point of the triangle -/
def onTri (o : V3 K) (F : Tri K) : Prop :=
  ∃ u v, 0 ≤ u ∧ 0 ≤ v ∧ u + v ≤ 1 ∧ triPoint F.1 F.2.1 F.2.2 u v = o

/-- the first ray in wedge coordinates: `gam = 0`, `wB = 0`, `wA > 0` (the origin itself excluded) -/
theorem ray1_iff (hnn : wNN d1 d2 ≠ 0) (F : Tri K) (ho : ¬ onTri o F) :
    rayHits o d1 F ↔ ∃ u v, 0 ≤ u ∧ 0 ≤ v ∧ u + v ≤ 1 ∧ wGam o d1 d2 (triPoint F.1 F.2.1 F.2.2 u v) = 0 ∧
      wB o d1 d2 (triPoint F.1 F.2.1 F.2.2 u v) = 0 ∧ 0 < wA o d1 d2 (triPoint F.1 F.2.1 F.2.2 u v) := by
  have hpos := wNN_pos d1 d2 hnn
  constructor
  · rintro ⟨t, u, v, ht, hu, hv, huv, he⟩
    have hg : wGam o d1 d2 (o.along d1 t) = 0 := by
      simp only [wGam, V3.along, V3.add, V3.sub, V3.scale, V3.dot, V3.cross]; ring
    have hb : wB o d1 d2 (o.along d1 t) = 0 := by
      simp only [wB, V3.along, V3.add, V3.sub, V3.scale, V3.dot, V3.cross]; ring
    have ha : wA o d1 d2 (o.along d1 t) = t * wNN d1 d2 := by
      simp only [wA, wNN, V3.along, V3.add, V3.sub, V3.scale, V3.dot, V3.cross]; ring
    rw [he] at hg hb ha
    refine ⟨u, v, hu, hv, huv, hg, hb, ?_⟩
    rcases lt_or_eq_of_le ht with h | h
    · rw [ha]; exact mul_pos h hpos
    · exfalso; apply ho
      refine ⟨u, v, hu, hv, huv, ?_⟩
      rw [← he, ← h]
      simp only [V3.along, V3.add, V3.scale, mul_zero, add_zero]
  · rintro ⟨u, v, hu, hv, huv, hg, hb, ha⟩
    refine ⟨wA o d1 d2 (triPoint F.1 F.2.1 F.2.2 u v) / wNN d1 d2, u, v, div_nonneg (le_of_lt ha) (le_of_lt hpos),
      hu, hv, huv, ?_⟩
    have h := wedge_decomp o d1 d2 (triPoint F.1 F.2.1 F.2.2 u v)
    rw [hg, hb] at h
    set x := triPoint F.1 F.2.1 F.2.2 u v
    simp only [V3.add, V3.sub, V3.scale, V3.mk.injEq, mul_zero, add_zero] at h
    obtain ⟨h1, h2, h3⟩ := h
    simp only [V3.along, V3.add, V3.scale]
    cases hx : x
    rw [hx] at h1 h2 h3
    simp only [V3.mk.injEq] at *
    refine ⟨?_, ?_, ?_⟩ <;> field_simp <;> linarith

/-- the second ray: `gam = 0`, `wA = 0`, `wB > 0` -/
theorem ray2_iff (hnn : wNN d1 d2 ≠ 0) (F : Tri K) (ho : ¬ onTri o F) :
    rayHits o d2 F ↔ ∃ u v, 0 ≤ u ∧ 0 ≤ v ∧ u + v ≤ 1 ∧ wGam o d1 d2 (triPoint F.1 F.2.1 F.2.2 u v) = 0 ∧
      wA o d1 d2 (triPoint F.1 F.2.1 F.2.2 u v) = 0 ∧ 0 < wB o d1 d2 (triPoint F.1 F.2.1 F.2.2 u v) := by
  have hpos := wNN_pos d1 d2 hnn
  constructor
  · rintro ⟨t, u, v, ht, hu, hv, huv, he⟩
    have hg : wGam o d1 d2 (o.along d2 t) = 0 := by
      simp only [wGam, V3.along, V3.add, V3.sub, V3.scale, V3.dot, V3.cross]; ring
    have ha : wA o d1 d2 (o.along d2 t) = 0 := by
      simp only [wA, V3.along, V3.add, V3.sub, V3.scale, V3.dot, V3.cross]; ring
    have hb : wB o d1 d2 (o.along d2 t) = t * wNN d1 d2 := by
      simp only [wB, wNN, V3.along, V3.add, V3.sub, V3.scale, V3.dot, V3.cross]; ring
    rw [he] at hg hb ha
    refine ⟨u, v, hu, hv, huv, hg, ha, ?_⟩
    rcases lt_or_eq_of_le ht with h | h
    · rw [hb]; exact mul_pos h hpos
    · exfalso; apply ho
      refine ⟨u, v, hu, hv, huv, ?_⟩
      rw [← he, ← h]
      simp only [V3.along, V3.add, V3.scale, mul_zero, add_zero]
  · rintro ⟨u, v, hu, hv, huv, hg, ha, hb⟩
    refine ⟨wB o d1 d2 (triPoint F.1 F.2.1 F.2.2 u v) / wNN d1 d2, u, v, div_nonneg (le_of_lt hb) (le_of_lt hpos),
      hu, hv, huv, ?_⟩
    have h := wedge_decomp o d1 d2 (triPoint F.1 F.2.1 F.2.2 u v)
    rw [hg, ha] at h
    set x := triPoint F.1 F.2.1 F.2.2 u v
    simp only [V3.add, V3.sub, V3.scale, V3.mk.injEq, mul_zero, add_zero, zero_add] at h
    obtain ⟨h1, h2, h3⟩ := h
    simp only [V3.along, V3.add, V3.scale]
    cases hx : x
    rw [hx] at h1 h2 h3
    simp only [V3.mk.injEq] at *
    refine ⟨?_, ?_, ?_⟩ <;> field_simp <;> linarith

end Wedge

/-! ## one face -/

section Face
variable (o d1 d2 : V3 K)

/-- the edge `p q` pierces the open wedge: its end points are on different sides of the wedge's plane and the
crossing point has positive wedge coordinates -/
def edgeW (p q : V3 K) : Prop :=
  wGam o d1 d2 p * wGam o d1 d2 q < 0 ∧
    inQ (crossVal (wGam o d1 d2 p) (wGam o d1 d2 q) (wA o d1 d2 p) (wA o d1 d2 q))
      (crossVal (wGam o d1 d2 p) (wGam o d1 d2 q) (wB o d1 d2 p) (wB o d1 d2 q))

theorem edgeW_symm (p q : V3 K) : edgeW o d1 d2 p q ↔ edgeW o d1 d2 q p := by
  unfold edgeW
  rw [mul_comm (wGam o d1 d2 q) (wGam o d1 d2 p), crossVal_symm (wGam o d1 d2 p) (wGam o d1 d2 q),
    crossVal_symm (wGam o d1 d2 p) (wGam o d1 d2 q)]

/-- general position of an edge: if it crosses the wedge's plane, the crossing point is on neither of the two
lines through `o` along `d1`, `d2` -/
def edgeGP (p q : V3 K) : Prop :=
  wGam o d1 d2 p * wGam o d1 d2 q < 0 →
    crossVal (wGam o d1 d2 p) (wGam o d1 d2 q) (wA o d1 d2 p) (wA o d1 d2 q) ≠ 0 ∧
    crossVal (wGam o d1 d2 p) (wGam o d1 d2 q) (wB o d1 d2 p) (wB o d1 d2 q) ≠ 0

theorem edgeGP_symm (p q : V3 K) : edgeGP o d1 d2 p q ↔ edgeGP o d1 d2 q p := by
  unfold edgeGP
  rw [mul_comm (wGam o d1 d2 q) (wGam o d1 d2 p), crossVal_symm (wGam o d1 d2 p) (wGam o d1 d2 q),
    crossVal_symm (wGam o d1 d2 p) (wGam o d1 d2 q)]

/-- **one face, the vertex `a` alone on its side of the wedge's plane**: the edges `ab`, `ca` cross the plane, `bc`
does not, and (`ab` pierces the wedge ⇔ `ca` pierces it) ⇔ (the first ray meets the face ⇔ the second does). -/
theorem face_alone (hnn : wNN d1 d2 ≠ 0) (a b c : V3 K)
    (hab : wGam o d1 d2 a * wGam o d1 d2 b < 0) (hac : wGam o d1 d2 a * wGam o d1 d2 c < 0)
    (hg1 : edgeGP o d1 d2 a b) (hg2 : edgeGP o d1 d2 a c) (ho : ¬ onTri o (a, b, c)) :
    ¬ edgeW o d1 d2 b c ∧
    ((edgeW o d1 d2 a b ↔ edgeW o d1 d2 c a) ↔ (rayHits o d1 (a, b, c) ↔ rayHits o d2 (a, b, c))) := by
  set ga := wGam o d1 d2 a with hga
  set gb := wGam o d1 d2 b with hgb
  set gc := wGam o d1 d2 c with hgc
  obtain ⟨hA1, hB1⟩ := hg1 hab
  obtain ⟨hA2, hB2⟩ := hg2 hac
  set A1 := crossVal ga gb (wA o d1 d2 a) (wA o d1 d2 b) with hA1d
  set B1 := crossVal ga gb (wB o d1 d2 a) (wB o d1 d2 b) with hB1d
  set A2 := crossVal ga gc (wA o d1 d2 a) (wA o d1 d2 c) with hA2d
  set B2 := crossVal ga gc (wB o d1 d2 a) (wB o d1 d2 c) with hB2d
  have hbc : ¬ edgeW o d1 d2 b c := by
    intro h
    have h1 : gb * gc < 0 := h.1
    nlinarith [mul_pos_of_neg_of_neg hab hac, mul_self_nonneg ga]
  refine ⟨hbc, ?_⟩
  have he1 : edgeW o d1 d2 a b ↔ inQ A1 B1 := by
    unfold edgeW; exact ⟨fun h => h.2, fun h => ⟨hab, h⟩⟩
  have he2 : edgeW o d1 d2 c a ↔ inQ A2 B2 := by
    rw [edgeW_symm]; unfold edgeW; exact ⟨fun h => h.2, fun h => ⟨hac, h⟩⟩
  obtain ⟨hsl1, hsl2⟩ := slice_param ga gb gc hab hac (wA o d1 d2 a) (wA o d1 d2 b) (wA o d1 d2 c)
    (wB o d1 d2 a) (wB o d1 d2 b) (wB o d1 d2 c)
  -- the two rays in terms of the segment between the crossing points
  have hr1 : rayHits o d1 (a, b, c) ↔ ∃ m, 0 ≤ m ∧ m ≤ 1 ∧ (1 - m) * B1 + m * B2 = 0 ∧ 0 < (1 - m) * A1 + m * A2 := by
    rw [ray1_iff o d1 d2 hnn (a, b, c) ho]
    simp only [wGam_tri, wA_tri, wB_tri]
    constructor
    · rintro ⟨u, v, hu, hv, huv, hg, hb, ha⟩
      obtain ⟨m, hm0, hm1, eA, eB⟩ := hsl1 u v hu hv huv hg
      exact ⟨m, hm0, hm1, by rw [← eB]; exact hb, by rw [← eA]; exact ha⟩
    · rintro ⟨m, hm0, hm1, hb, ha⟩
      obtain ⟨u, v, hu, hv, huv, hg, eA, eB⟩ := hsl2 m hm0 hm1
      exact ⟨u, v, hu, hv, huv, hg, by rw [eB]; exact hb, by rw [eA]; exact ha⟩
  have hr2 : rayHits o d2 (a, b, c) ↔ ∃ m, 0 ≤ m ∧ m ≤ 1 ∧ (1 - m) * A1 + m * A2 = 0 ∧ 0 < (1 - m) * B1 + m * B2 := by
    rw [ray2_iff o d1 d2 hnn (a, b, c) ho]
    simp only [wGam_tri, wA_tri, wB_tri]
    constructor
    · rintro ⟨u, v, hu, hv, huv, hg, ha, hb⟩
      obtain ⟨m, hm0, hm1, eA, eB⟩ := hsl1 u v hu hv huv hg
      exact ⟨m, hm0, hm1, by rw [← eA]; exact ha, by rw [← eB]; exact hb⟩
    · rintro ⟨m, hm0, hm1, ha, hb⟩
      obtain ⟨u, v, hu, hv, huv, hg, eA, eB⟩ := hsl2 m hm0 hm1
      exact ⟨u, v, hu, hv, huv, hg, by rw [eA]; exact ha, by rw [eB]; exact hb⟩
  rw [he1, he2, hr1, hr2, crossA_geom A1 B1 A2 B2 hB1 hB2, crossB_geom A1 B1 A2 B2 hA1 hA2]
  by_cases hN : A1 * B2 - A2 * B1 = 0
  · -- the line through the crossing points passes through `o`: they are on the same side of it, or `o` is on the face
    have hseg : ∀ m, 0 ≤ m → m ≤ 1 → (1 - m) * A1 + m * A2 = 0 → (1 - m) * B1 + m * B2 = 0 → False := by
      intro m hm0 hm1 hA hB
      obtain ⟨u, v, hu, hv, huv, hg, eA, eB⟩ := hsl2 m hm0 hm1
      apply ho
      refine ⟨u, v, hu, hv, huv, ?_⟩
      apply wedge_origin o d1 d2 hnn
      · rw [wGam_tri]; exact hg
      · rw [wA_tri, eA]; exact hA
      · rw [wB_tri, eB]; exact hB
    have hBB : 0 < B1 * B2 := by
      rcases lt_or_gt_of_ne (mul_ne_zero hB1 hB2) with h | h
      · exfalso
        have hne : B1 - B2 ≠ 0 := by
          intro h0; have : B1 = B2 := by linarith
          rw [this] at h; nlinarith [mul_self_nonneg B2]
        have hm0 : 0 ≤ B1 / (B1 - B2) := by
          rw [div_nonneg_iff]
          rcases lt_or_gt_of_ne hne with h' | h'
          · right; constructor <;> nlinarith
          · left; constructor <;> nlinarith
        have hm1 : B1 / (B1 - B2) ≤ 1 := by
          rw [div_le_one_iff]
          rcases lt_or_gt_of_ne hne with h' | h'
          · right; right; constructor <;> nlinarith
          · left; constructor <;> nlinarith
        refine hseg (B1 / (B1 - B2)) hm0 hm1 ?_ ?_
        · have e : (1 - B1 / (B1 - B2)) * A1 + B1 / (B1 - B2) * A2 = -(A1 * B2 - A2 * B1) / (B1 - B2) := by
            field_simp; ring
          rw [e, hN]; simp
        · field_simp; ring
      · exact h
    have hAA : 0 < A1 * A2 := by
      rcases lt_or_gt_of_ne (mul_ne_zero hA1 hA2) with h | h
      · exfalso
        have hne : A1 - A2 ≠ 0 := by
          intro h0; have : A1 = A2 := by linarith
          rw [this] at h; nlinarith [mul_self_nonneg A2]
        have hm0 : 0 ≤ A1 / (A1 - A2) := by
          rw [div_nonneg_iff]
          rcases lt_or_gt_of_ne hne with h' | h'
          · right; constructor <;> nlinarith
          · left; constructor <;> nlinarith
        have hm1 : A1 / (A1 - A2) ≤ 1 := by
          rw [div_le_one_iff]
          rcases lt_or_gt_of_ne hne with h' | h'
          · right; right; constructor <;> nlinarith
          · left; constructor <;> nlinarith
        refine hseg (A1 / (A1 - A2)) hm0 hm1 ?_ ?_
        · field_simp; ring
        · have e : (1 - A1 / (A1 - A2)) * B1 + A1 / (A1 - A2) * B2 = (A1 * B2 - A2 * B1) / (A1 - A2) := by
            field_simp; ring
          rw [e, hN]; simp
      · exact h
    obtain ⟨q1, q2, q3⟩ := quadrant_same A1 B1 A2 B2 hAA hBB
    exact ⟨fun _ => ⟨fun h => absurd h q2, fun h => absurd h q3⟩, fun _ => q1⟩
  · exact quadrant_parity A1 B1 A2 B2 hA1 hB1 hA2 hB2 hN

end Face

/-! ## closed edge lists -/

section Closed
open Classical

theorem countP_split {α : Type} (p q : α → Bool) (l : List α) :
    l.countP p = (l.filter q).countP p + (l.filter (fun a => !q a)).countP p := by
  induction l with
  | nil => rfl
  | cons a l ih =>
    by_cases hq : q a = true
    · simp only [List.filter_cons, hq, if_true, Bool.not_true, Bool.false_eq_true, if_false, List.countP_cons, ih]
      omega
    · have hq' : q a = false := by simpa using hq
      simp only [List.filter_cons, hq', Bool.false_eq_true, if_false, Bool.not_false, if_true, List.countP_cons, ih]
      omega

/-- same undirected edge -/
def sameEdge {V : Type} (p q : V) (e : V × V) : Prop := e = (p, q) ∨ e = (q, p)

/-- **closed meshes**: if every undirected edge occurs an even number of times in a list of (directed) edges,
a symmetric edge predicate holds for an even number of entries -/
theorem even_countP_of_closed {V : Type} (P : V → V → Prop) (hsym : ∀ p q, P p q ↔ P q p) :
    ∀ (n : Nat) (E : List (V × V)), E.length ≤ n →
      (∀ p q, (E.countP (fun e => decide (sameEdge p q e))) % 2 = 0) →
      (E.countP (fun e => decide (P e.1 e.2))) % 2 = 0
  | 0, E, hlen, _ => by
    have : E = [] := List.eq_nil_of_length_eq_zero (Nat.le_zero.1 hlen)
    rw [this]; rfl
  | n + 1, [], _, _ => rfl
  | n + 1, (p, q) :: E', hlen, hcl => by
    set E := (p, q) :: E' with hE
    set s : V × V → Bool := fun e => decide (sameEdge p q e) with hs
    rw [countP_split _ s E]
    -- the copies of the first edge
    have h1 : ((E.filter s).countP (fun e => decide (P e.1 e.2))) % 2 = 0 := by
      have hall : ∀ e ∈ E.filter s, (decide (P e.1 e.2)) = decide (P p q) := by
        intro e he
        have hse : sameEdge p q e := by simpa [hs] using (List.mem_filter.1 he).2
        rcases hse with rfl | rfl
        · rfl
        · simp only [decide_eq_decide]; exact (hsym q p)
      have hc : (E.filter s).countP (fun e => decide (P e.1 e.2)) =
          (E.filter s).countP (fun _ => decide (P p q)) := List.countP_congr (by
            intro e he; rw [hall e he])
      rw [hc]
      by_cases hp : P p q
      · have : (E.filter s).countP (fun _ => decide (P p q)) = (E.filter s).length := by
          simp [hp]
        rw [this, ← List.countP_eq_length_filter]
        exact hcl p q
      · simp [hp]
    -- the rest
    have hlen' : (E.filter (fun a => !s a)).length ≤ n := by
      have hhead : s (p, q) = true := by simp [hs, sameEdge]
      have : E.filter (fun a => !s a) = E'.filter (fun a => !s a) := by
        simp [hE, hhead]
      rw [this]
      have := List.length_filter_le (fun a => !s a) E'
      simp only [hE, List.length_cons] at hlen
      omega
    have hcl' : ∀ p' q', ((E.filter (fun a => !s a)).countP (fun e => decide (sameEdge p' q' e))) % 2 = 0 := by
      intro p' q'
      rw [List.countP_filter]
      by_cases hsame : sameEdge p q (p', q')
      · -- the same undirected edge: nothing is left
        have : E.countP (fun a => decide (sameEdge p' q' a) && !s a) = 0 := by
          rw [List.countP_eq_zero]
          intro e _
          simp only [hs, Bool.and_eq_true, decide_eq_true_eq, Bool.not_eq_true', decide_eq_false_iff_not, not_and,
            not_not]
          intro h
          rcases hsame with h' | h' <;> rcases h with rfl | rfl <;> simp only [Prod.mk.injEq] at h' <;>
            obtain ⟨rfl, rfl⟩ := h' <;> simp [sameEdge]
        rw [this]
      · have : E.countP (fun a => decide (sameEdge p' q' a) && !s a) =
            E.countP (fun a => decide (sameEdge p' q' a)) := by
          apply List.countP_congr
          intro e _
          by_cases h : sameEdge p' q' e
          · have : ¬ sameEdge p q e := by
              intro hc
              apply hsame
              rcases h with rfl | rfl <;> rcases hc with h' | h' <;> simp only [Prod.mk.injEq] at h' <;>
                obtain ⟨rfl, rfl⟩ := h' <;> simp [sameEdge]
            simp [hs, h, this]
          · simp [h]
        rw [this]; exact hcl p' q'
    have h2 := even_countP_of_closed P hsym n _ hlen' hcl'
    omega

end Closed

/-! ## all sign patterns of one face -/

section FaceAll
open Classical
variable (o d1 d2 : V3 K)

theorem triPoint_rot (a b c : V3 K) (u v : K) : triPoint a b c u v = triPoint b c a v (1 - u - v) := by
  simp only [triPoint, V3.add, V3.sub, V3.scale, V3.mk.injEq]
  exact ⟨by ring, by ring, by ring⟩

theorem rayHits_rot_imp (o d a b c : V3 K) (h : rayHits o d (a, b, c)) : rayHits o d (b, c, a) := by
  obtain ⟨t, u, v, ht, hu, hv, huv, he⟩ := h
  exact ⟨t, v, 1 - u - v, ht, hv, by linarith, by linarith, by rw [he]; exact triPoint_rot a b c u v⟩

theorem rayHits_rot (o d a b c : V3 K) : rayHits o d (a, b, c) ↔ rayHits o d (b, c, a) :=
  ⟨rayHits_rot_imp o d a b c, fun h => rayHits_rot_imp o d c a b (rayHits_rot_imp o d b c a h)⟩

theorem onTri_rot_imp (o a b c : V3 K) (h : onTri o (a, b, c)) : onTri o (b, c, a) := by
  obtain ⟨u, v, hu, hv, huv, he⟩ := h
  exact ⟨v, 1 - u - v, hv, by linarith, by linarith, by rw [← he]; exact (triPoint_rot a b c u v).symm⟩

theorem onTri_rot (o a b c : V3 K) : onTri o (a, b, c) ↔ onTri o (b, c, a) :=
  ⟨onTri_rot_imp o a b c, fun h => onTri_rot_imp o c a b (onTri_rot_imp o b c a h)⟩

/-- indicator -/
noncomputable def ind (p : Prop) : Nat := if p then 1 else 0

theorem ind_true {p : Prop} (h : p) : ind p = 1 := by simp [ind, h]
theorem ind_false {p : Prop} (h : ¬ p) : ind p = 0 := by simp [ind, h]

/-- general position of a face with respect to the wedge of the two rays: no vertex in the wedge's plane, every
edge crossing that plane does so off the two lines through `o`, and `o` is not a point of the face -/
def faceGP (F : Tri K) : Prop :=
  wGam o d1 d2 F.1 ≠ 0 ∧ wGam o d1 d2 F.2.1 ≠ 0 ∧ wGam o d1 d2 F.2.2 ≠ 0 ∧
    edgeGP o d1 d2 F.1 F.2.1 ∧ edgeGP o d1 d2 F.2.1 F.2.2 ∧ edgeGP o d1 d2 F.2.2 F.1 ∧ ¬ onTri o F

/-- a convex combination of three values of the same sign does not vanish -/
theorem same_sign_ne_zero (ga gb gc u v : K) (hu : 0 ≤ u) (hv : 0 ≤ v) (huv : u + v ≤ 1)
    (h : (0 < ga ∧ 0 < gb ∧ 0 < gc) ∨ (ga < 0 ∧ gb < 0 ∧ gc < 0)) :
    ga + u * (gb - ga) + v * (gc - ga) ≠ 0 := by
  have e : ga + u * (gb - ga) + v * (gc - ga) = (1 - u - v) * ga + u * gb + v * gc := by ring
  rw [e]
  rcases h with ⟨ha, hb, hc⟩ | ⟨ha, hb, hc⟩
  · apply ne_of_gt
    rcases lt_or_eq_of_le hu with h1 | h1
    · nlinarith [mul_pos h1 hb, mul_nonneg hv (le_of_lt hc), mul_nonneg (by linarith : (0 : K) ≤ 1 - u - v) (le_of_lt ha)]
    · rcases lt_or_eq_of_le hv with h2 | h2
      · nlinarith [mul_pos h2 hc, mul_nonneg (by linarith : (0 : K) ≤ 1 - u - v) (le_of_lt ha)]
      · rw [← h1, ← h2]; simp; exact ha
  · apply ne_of_lt
    rcases lt_or_eq_of_le hu with h1 | h1
    · nlinarith [mul_pos h1 (neg_pos.2 hb), mul_nonneg hv (le_of_lt (neg_pos.2 hc)),
        mul_nonneg (by linarith : (0 : K) ≤ 1 - u - v) (le_of_lt (neg_pos.2 ha))]
    · rcases lt_or_eq_of_le hv with h2 | h2
      · nlinarith [mul_pos h2 (neg_pos.2 hc), mul_nonneg (by linarith : (0 : K) ≤ 1 - u - v) (le_of_lt (neg_pos.2 ha))]
      · rw [← h1, ← h2]; simp; exact ha

/-- a ray of the wedge does not meet a face whose vertices are all on one side of the wedge's plane -/
theorem no_hit_same_side (a b c d : V3 K) (hd : wGam o d1 d2 (o.add d) = 0)
    (h : (0 < wGam o d1 d2 a ∧ 0 < wGam o d1 d2 b ∧ 0 < wGam o d1 d2 c) ∨
      (wGam o d1 d2 a < 0 ∧ wGam o d1 d2 b < 0 ∧ wGam o d1 d2 c < 0)) : ¬ rayHits o d (a, b, c) := by
  rintro ⟨t, u, v, ht, hu, hv, huv, he⟩
  have h0 : wGam o d1 d2 (o.along d t) = 0 := by
    have : wGam o d1 d2 (o.along d t) = t * wGam o d1 d2 (o.add d) := by
      simp only [wGam, V3.along, V3.add, V3.sub, V3.scale, V3.dot, V3.cross]; ring
    rw [this, hd, mul_zero]
  rw [he, wGam_tri] at h0
  exact same_sign_ne_zero _ _ _ u v hu hv huv h h0

theorem wGam_d1 : wGam o d1 d2 (o.add d1) = 0 := by
  simp only [wGam, V3.add, V3.sub, V3.dot, V3.cross]; ring

theorem wGam_d2 : wGam o d1 d2 (o.add d2) = 0 := by
  simp only [wGam, V3.add, V3.sub, V3.dot, V3.cross]; ring

/-- **one face in general position**: the number of its edges piercing the open wedge plus the number of the two
bounding rays that meet it is even. -/
theorem face_parity (hnn : wNN d1 d2 ≠ 0) (F : Tri K) (hgp : faceGP o d1 d2 F) :
    (ind (edgeW o d1 d2 F.1 F.2.1) + ind (edgeW o d1 d2 F.2.1 F.2.2) + ind (edgeW o d1 d2 F.2.2 F.1) +
      ind (rayHits o d1 F) + ind (rayHits o d2 F)) % 2 = 0 := by
  obtain ⟨a, b, c⟩ := F
  obtain ⟨hga, hgb, hgc, hab, hbc, hca, ho⟩ := hgp
  simp only at hga hgb hgc hab hbc hca ⊢
  -- from the propositional facts to the parity
  have fin : ∀ (e1 e2 e3 r1 r2 : Prop), ¬ e2 → ((e1 ↔ e3) ↔ (r1 ↔ r2)) →
      (ind e1 + ind e2 + ind e3 + ind r1 + ind r2) % 2 = 0 := by
    intro e1 e2 e3 r1 r2 h2 h
    by_cases h1 : e1 <;> by_cases h3 : e3 <;> by_cases h4 : r1 <;> by_cases h5 : r2 <;>
      simp only [ind, h1, h2, h3, h4, h5, if_true, if_false] <;> first | rfl | (exfalso; tauto)
  rcases sign_cases _ hga with ⟨sa, _⟩ | ⟨sa, _⟩ <;> rcases sign_cases _ hgb with ⟨sb, _⟩ | ⟨sb, _⟩ <;>
    rcases sign_cases _ hgc with ⟨sc, _⟩ | ⟨sc, _⟩
  · -- (-,-,-)
    have n1 := no_hit_same_side o d1 d2 a b c d1 (wGam_d1 o d1 d2) (Or.inr ⟨sa, sb, sc⟩)
    have n2 := no_hit_same_side o d1 d2 a b c d2 (wGam_d2 o d1 d2) (Or.inr ⟨sa, sb, sc⟩)
    have e1 : ¬ edgeW o d1 d2 a b := fun h => absurd h.1 (not_lt_of_gt (mul_pos_of_neg_of_neg sa sb))
    have e2 : ¬ edgeW o d1 d2 b c := fun h => absurd h.1 (not_lt_of_gt (mul_pos_of_neg_of_neg sb sc))
    have e3 : ¬ edgeW o d1 d2 c a := fun h => absurd h.1 (not_lt_of_gt (mul_pos_of_neg_of_neg sc sa))
    simp [ind, n1, n2, e1, e2, e3]
  · -- (-,-,+): c alone
    have hc1 : wGam o d1 d2 c * wGam o d1 d2 a < 0 := mul_neg_of_pos_of_neg sc sa
    have hc2 : wGam o d1 d2 c * wGam o d1 d2 b < 0 := mul_neg_of_pos_of_neg sc sb
    obtain ⟨q1, q2⟩ := face_alone o d1 d2 hnn c a b hc1 hc2 hca ((edgeGP_symm o d1 d2 c b).2 hbc)
      (fun h => ho ((onTri_rot o a b c).2 ((onTri_rot o b c a).2 h)))
    rw [← rayHits_rot o d1 b c a, ← rayHits_rot o d1 a b c, ← rayHits_rot o d2 b c a, ← rayHits_rot o d2 a b c] at q2
    have := fin (edgeW o d1 d2 c a) (edgeW o d1 d2 a b) (edgeW o d1 d2 b c) _ _ q1 q2
    omega
  · -- (-,+,-): b alone
    have hb1 : wGam o d1 d2 b * wGam o d1 d2 c < 0 := mul_neg_of_pos_of_neg sb sc
    have hb2 : wGam o d1 d2 b * wGam o d1 d2 a < 0 := mul_neg_of_pos_of_neg sb sa
    obtain ⟨q1, q2⟩ := face_alone o d1 d2 hnn b c a hb1 hb2 hbc ((edgeGP_symm o d1 d2 b a).2 hab)
      (fun h => ho ((onTri_rot o a b c).2 h))
    rw [← rayHits_rot o d1 a b c, ← rayHits_rot o d2 a b c] at q2
    have := fin (edgeW o d1 d2 b c) (edgeW o d1 d2 c a) (edgeW o d1 d2 a b) _ _ q1 q2
    omega
  · -- (-,+,+): a alone
    have ha1 : wGam o d1 d2 a * wGam o d1 d2 b < 0 := mul_neg_of_neg_of_pos sa sb
    have ha2 : wGam o d1 d2 a * wGam o d1 d2 c < 0 := mul_neg_of_neg_of_pos sa sc
    obtain ⟨q1, q2⟩ := face_alone o d1 d2 hnn a b c ha1 ha2 hab ((edgeGP_symm o d1 d2 a c).2 hca) ho
    exact fin _ _ _ _ _ q1 q2
  · -- (+,-,-): a alone
    have ha1 : wGam o d1 d2 a * wGam o d1 d2 b < 0 := mul_neg_of_pos_of_neg sa sb
    have ha2 : wGam o d1 d2 a * wGam o d1 d2 c < 0 := mul_neg_of_pos_of_neg sa sc
    obtain ⟨q1, q2⟩ := face_alone o d1 d2 hnn a b c ha1 ha2 hab ((edgeGP_symm o d1 d2 a c).2 hca) ho
    exact fin _ _ _ _ _ q1 q2
  · -- (+,-,+): b alone
    have hb1 : wGam o d1 d2 b * wGam o d1 d2 c < 0 := mul_neg_of_neg_of_pos sb sc
    have hb2 : wGam o d1 d2 b * wGam o d1 d2 a < 0 := mul_neg_of_neg_of_pos sb sa
    obtain ⟨q1, q2⟩ := face_alone o d1 d2 hnn b c a hb1 hb2 hbc ((edgeGP_symm o d1 d2 b a).2 hab)
      (fun h => ho ((onTri_rot o a b c).2 h))
    rw [← rayHits_rot o d1 a b c, ← rayHits_rot o d2 a b c] at q2
    have := fin (edgeW o d1 d2 b c) (edgeW o d1 d2 c a) (edgeW o d1 d2 a b) _ _ q1 q2
    omega
  · -- (+,+,-): c alone
    have hc1 : wGam o d1 d2 c * wGam o d1 d2 a < 0 := mul_neg_of_neg_of_pos sc sa
    have hc2 : wGam o d1 d2 c * wGam o d1 d2 b < 0 := mul_neg_of_neg_of_pos sc sb
    obtain ⟨q1, q2⟩ := face_alone o d1 d2 hnn c a b hc1 hc2 hca ((edgeGP_symm o d1 d2 c b).2 hbc)
      (fun h => ho ((onTri_rot o a b c).2 ((onTri_rot o b c a).2 h)))
    rw [← rayHits_rot o d1 b c a, ← rayHits_rot o d1 a b c, ← rayHits_rot o d2 b c a, ← rayHits_rot o d2 a b c] at q2
    have := fin (edgeW o d1 d2 c a) (edgeW o d1 d2 a b) (edgeW o d1 d2 b c) _ _ q1 q2
    omega
  · -- (+,+,+)
    have n1 := no_hit_same_side o d1 d2 a b c d1 (wGam_d1 o d1 d2) (Or.inl ⟨sa, sb, sc⟩)
    have n2 := no_hit_same_side o d1 d2 a b c d2 (wGam_d2 o d1 d2) (Or.inl ⟨sa, sb, sc⟩)
    have e1 : ¬ edgeW o d1 d2 a b := fun h => absurd h.1 (not_lt_of_gt (mul_pos sa sb))
    have e2 : ¬ edgeW o d1 d2 b c := fun h => absurd h.1 (not_lt_of_gt (mul_pos sb sc))
    have e3 : ¬ edgeW o d1 d2 c a := fun h => absurd h.1 (not_lt_of_gt (mul_pos sc sa))
    simp [ind, n1, n2, e1, e2, e3]

end FaceAll

/-! ## the whole mesh -/

section MeshSum
open Classical
variable (o d1 d2 : V3 K)

/-- the (directed) edges of all faces -/
def meshEdges (faces : List (Tri K)) : List (V3 K × V3 K) :=
  faces.flatMap fun F => [(F.1, F.2.1), (F.2.1, F.2.2), (F.2.2, F.1)]

/-- **closed (mod 2)**: every undirected edge is used by an even number of faces (for an oriented closed
manifold mesh: exactly twice, once in each direction) -/
def ClosedMesh (faces : List (Tri K)) : Prop :=
  ∀ p q : V3 K, ((meshEdges faces).countP (fun e => decide (sameEdge p q e))) % 2 = 0

theorem countP_meshEdges (P : V3 K → V3 K → Prop) (faces : List (Tri K)) :
    (meshEdges faces).countP (fun e => decide (P e.1 e.2)) =
      (faces.map fun F => ind (P F.1 F.2.1) + ind (P F.2.1 F.2.2) + ind (P F.2.2 F.1)).sum := by
  induction faces with
  | nil => rfl
  | cons F fs ih =>
    have : meshEdges (F :: fs) = [(F.1, F.2.1), (F.2.1, F.2.2), (F.2.2, F.1)] ++ meshEdges fs := by
      simp [meshEdges]
    rw [this, List.countP_append, ih]
    simp only [List.map_cons, List.sum_cons, List.countP_cons, List.countP_nil, ind, decide_eq_true_eq]
    omega

theorem sum_map_add' {α : Type} (f g : α → Nat) (l : List α) :
    (l.map fun x => f x + g x).sum = (l.map f).sum + (l.map g).sum := by
  induction l with
  | nil => rfl
  | cons a l ih => simp only [List.map_cons, List.sum_cons, ih]; omega

theorem sum_even {α : Type} (f : α → Nat) (l : List α) (h : ∀ x ∈ l, f x % 2 = 0) : (l.map f).sum % 2 = 0 := by
  induction l with
  | nil => rfl
  | cons a l ih =>
    have h1 := h a List.mem_cons_self
    have h2 := ih (fun x hx => h x (List.mem_cons_of_mem _ hx))
    simp only [List.map_cons, List.sum_cons]; omega

/-- **The two rays of a wedge cross a closed mesh in general position the same number of times modulo 2.** -/
theorem wedge_parity (hnn : wNN d1 d2 ≠ 0) (faces : List (Tri K)) (hgp : ∀ F ∈ faces, faceGP o d1 d2 F)
    (hcl : ClosedMesh faces) :
    ((faces.map fun F => ind (rayHits o d1 F)).sum + (faces.map fun F => ind (rayHits o d2 F)).sum) % 2 = 0 := by
  have hall := sum_even (fun F => ind (edgeW o d1 d2 F.1 F.2.1) + ind (edgeW o d1 d2 F.2.1 F.2.2) +
    ind (edgeW o d1 d2 F.2.2 F.1) + ind (rayHits o d1 F) + ind (rayHits o d2 F)) faces
    (fun F hF => face_parity o d1 d2 hnn F (hgp F hF))
  have hsplit : (faces.map fun F => ind (edgeW o d1 d2 F.1 F.2.1) + ind (edgeW o d1 d2 F.2.1 F.2.2) +
      ind (edgeW o d1 d2 F.2.2 F.1) + ind (rayHits o d1 F) + ind (rayHits o d2 F)).sum =
      (faces.map fun F => ind (edgeW o d1 d2 F.1 F.2.1) + ind (edgeW o d1 d2 F.2.1 F.2.2) +
        ind (edgeW o d1 d2 F.2.2 F.1)).sum +
      (faces.map fun F => ind (rayHits o d1 F)).sum + (faces.map fun F => ind (rayHits o d2 F)).sum := by
    rw [← sum_map_add', ← sum_map_add']
  have hedges := even_countP_of_closed (edgeW o d1 d2) (edgeW_symm o d1 d2) _ (meshEdges faces) le_rfl hcl
  rw [countP_meshEdges] at hedges
  rw [hsplit] at hall
  omega

end MeshSum

/-! ## the model's hit list -/

section Model
open Classical

theorem triHits_length_ind (sqrtF : K → K) (eps : K) (F : Tri K) (o d : V3 K)
    (hnp : ¬ triNearPar sqrtF eps F.1 F.2.1 F.2.2 d) (hpar : (facePlane F).1.dot d ≠ 0) :
    (triHits sqrtF eps F.1 F.2.1 F.2.2 o d).length = ind (rayHits o d F) := by
  have hdet : triDet F.1 F.2.1 F.2.2 d ≠ 0 := by
    rw [facePlane_dot]; exact neg_ne_zero.2 hpar
  have hlen := triHits_length_le sqrtF eps F.1 F.2.1 F.2.2 o d
  by_cases hr : rayHits o d F
  · rw [ind_true hr]
    obtain ⟨t, u, v, ht, hu, hv, huv, he⟩ := hr
    have hl := (triHits_ts_iff sqrtF eps F.1 F.2.1 F.2.2 o d t).2
      ⟨hnp, hdet, u, v, (triEq_iff_point _ _ _ _ _ _ _ _).2 he, hu, hv, huv, ht⟩
    have : ((triHits sqrtF eps F.1 F.2.1 F.2.2 o d).map Hit.t).length = 1 := by rw [hl]; rfl
    simpa using this
  · rw [ind_false hr]
    match hq : triHits sqrtF eps F.1 F.2.1 F.2.2 o d, hlen with
    | [], _ => rfl
    | [x], _ =>
      exfalso; apply hr
      have hl : (triHits sqrtF eps F.1 F.2.1 F.2.2 o d).map Hit.t = [x.t] := by rw [hq]; rfl
      obtain ⟨_, _, u, v, he, hu, hv, huv, ht⟩ := (triHits_ts_iff sqrtF eps F.1 F.2.1 F.2.2 o d x.t).1 hl
      exact ⟨x.t, u, v, ht, hu, hv, huv, (triEq_iff_point _ _ _ _ _ _ _ _).1 he⟩
    | _ :: _ :: _, hlen => simp at hlen

theorem meshTs_length_sum (sqrtF : K → K) (eps : K) (faces : List (Tri K)) (o d : V3 K)
    (hnp : ∀ F ∈ faces, ¬ triNearPar sqrtF eps F.1 F.2.1 F.2.2 d)
    (hpar : ∀ F ∈ faces, (facePlane F).1.dot d ≠ 0) :
    (meshTs sqrtF eps faces o d).length = (faces.map fun F => ind (rayHits o d F)).sum := by
  simp only [meshTs, List.length_map, List.length_flatMap]
  congr 1
  apply List.map_congr_left
  intro F hF
  exact triHits_length_ind sqrtF eps F o d (hnp F hF) (hpar F hF)

/-- **The crossing parity of a closed triangle mesh does not depend on the direction of the ray** (on the
model's hit list): for two rays from the same origin with independent directions, in general position with
respect to the mesh, the mesh collider reports the same number of collisions modulo 2. -/
theorem meshTs_parity_indep (sqrtF : K → K) (eps : K) (faces : List (Tri K)) (o d1 d2 : V3 K)
    (hnn : wNN d1 d2 ≠ 0) (hcl : ClosedMesh faces) (hgp : ∀ F ∈ faces, faceGP o d1 d2 F)
    (hnp1 : ∀ F ∈ faces, ¬ triNearPar sqrtF eps F.1 F.2.1 F.2.2 d1)
    (hnp2 : ∀ F ∈ faces, ¬ triNearPar sqrtF eps F.1 F.2.1 F.2.2 d2)
    (hpar1 : ∀ F ∈ faces, (facePlane F).1.dot d1 ≠ 0) (hpar2 : ∀ F ∈ faces, (facePlane F).1.dot d2 ≠ 0) :
    (meshTs sqrtF eps faces o d1).length % 2 = (meshTs sqrtF eps faces o d2).length % 2 := by
  rw [meshTs_length_sum sqrtF eps faces o d1 hnp1 hpar1, meshTs_length_sum sqrtF eps faces o d2 hnp2 hpar2]
  have := wedge_parity o d1 d2 hnn faces hgp hcl
  omega

end Model

/-! ## decidable sufficient conditions (for concrete meshes) -/

deriving instance DecidableEq for V3

section Dec
variable (o d1 d2 : V3 K)

/-- a point off the plane of a face is not a point of the face -/
theorem not_onTri_of_plane (F : Tri K) (h : halfVal (facePlane F) o ≠ 0) : ¬ onTri o F := by
  rintro ⟨u, v, hu, hv, huv, he⟩
  apply h
  rw [← he]
  exact inTri_plane_active F _ ⟨u, v, hu, hv, huv, rfl⟩

instance edgeGP_decidable (p q : V3 K) : Decidable (edgeGP o d1 d2 p q) := by
  unfold edgeGP; infer_instance

/-- Boolean form of `faceGP`, with "the origin is off the face's plane" for "the origin is not on the face" -/
def faceGPb (F : Tri K) : Bool :=
  decide (wGam o d1 d2 F.1 ≠ 0) && decide (wGam o d1 d2 F.2.1 ≠ 0) && decide (wGam o d1 d2 F.2.2 ≠ 0) &&
    decide (edgeGP o d1 d2 F.1 F.2.1) && decide (edgeGP o d1 d2 F.2.1 F.2.2) && decide (edgeGP o d1 d2 F.2.2 F.1) &&
    decide (halfVal (facePlane F) o ≠ 0)

theorem faceGP_of_b (F : Tri K) (h : faceGPb o d1 d2 F = true) : faceGP o d1 d2 F := by
  simp only [faceGPb, Bool.and_eq_true, decide_eq_true_eq] at h
  obtain ⟨⟨⟨⟨⟨⟨h1, h2⟩, h3⟩, h4⟩, h5⟩, h6⟩, h7⟩ := h
  exact ⟨h1, h2, h3, h4, h5, h6, not_onTri_of_plane o F h7⟩

/-- Boolean form of `ClosedMesh`: the check over the edges that occur -/
def closedMeshB (faces : List (Tri K)) : Bool :=
  (meshEdges faces).all fun e =>
    ((meshEdges faces).countP (fun e' => decide (e' = e) || decide (e' = (e.2, e.1)))) % 2 == 0

theorem closedMesh_of_b (faces : List (Tri K)) (h : closedMeshB faces = true) : ClosedMesh faces := by
  classical
  intro p q
  simp only [closedMeshB, List.all_eq_true, beq_iff_eq] at h
  by_cases hex : ∃ e ∈ meshEdges faces, sameEdge p q e
  · obtain ⟨e, he, hs⟩ := hex
    have := h e he
    have hc : (meshEdges faces).countP (fun e' => decide (sameEdge p q e')) =
        (meshEdges faces).countP (fun e' => decide (e' = e) || decide (e' = (e.2, e.1))) := by
      apply List.countP_congr
      intro e' _
      rw [decide_eq_true_iff, Bool.or_eq_true, decide_eq_true_iff, decide_eq_true_iff]
      rcases hs with rfl | rfl
      · exact Iff.rfl
      · exact or_comm
    rw [hc]; exact this
  · have : (meshEdges faces).countP (fun e' => decide (sameEdge p q e')) = 0 := by
      rw [List.countP_eq_zero]
      intro e he
      simp only [decide_eq_true_eq]
      exact fun hs => hex ⟨e, he, hs⟩
    rw [this]

end Dec

end M3d.Col
