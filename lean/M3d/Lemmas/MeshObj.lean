import M3d.Model.MeshObj
import M3d.Lemmas.MeshCoherent
/-! Programs over mesh objects = programs over mesh values, as long as no two variables name one
object (C09, derived meshes). -/
namespace M3d.MeshObj
open M3d.FastMap M3d.Mesh

/-- Every variable names its own, allocated object. -/
def WFo (s : OState) : Prop := s.vars.Nodup ∧ ∀ o ∈ s.vars, o < s.heap.length

theorem nodup_set_fresh {l : List Nat} (hn : l.Nodup) (x : Nat) (hx : x ∉ l) (i : Nat) :
    (l.set i x).Nodup := by
  induction l generalizing i with
  | nil => simp
  | cons a t ih =>
    have hc := List.nodup_cons.1 hn
    cases i with
    | zero =>
      simp only [List.set_cons_zero, List.nodup_cons]
      exact ⟨fun hm => hx (List.mem_cons_of_mem _ hm), hc.2⟩
    | succ i =>
      simp only [List.set_cons_succ, List.nodup_cons]
      refine ⟨fun hm => ?_, ih hc.2 (fun hm => hx (List.mem_cons_of_mem _ hm)) i⟩
      rcases List.mem_or_eq_of_mem_set hm with hm | hm
      · exact hc.1 hm
      · exact hx (hm ▸ List.mem_cons_self)

theorem wfo_init (nv : Nat) : WFo (OState.init nv) := by
  refine ⟨List.nodup_range, ?_⟩
  intro o ho
  simpa [OState.init] using ho

theorem view_init (nv : Nat) : (OState.init nv).view = List.replicate nv Mesh.new := by
  unfold OState.view OState.init
  apply List.ext_getElem
  · simp
  · intro i h1 h2
    simp at h1
    simp [List.getD_eq_getElem?_getD, h1]

theorem view_length (s : OState) : s.view.length = s.vars.length := by simp [OState.view]

theorem deref_eq_view (s : OState) (v : Nat) : s.deref v = s.view.getD v Mesh.new := by
  unfold OState.deref OState.objOf OState.view
  by_cases hv : v < s.vars.length
  · simp [List.getD_eq_getElem?_getD, hv]
  · have hv' : s.vars.length ≤ v := Nat.le_of_not_lt hv
    simp [List.getD_eq_getElem?_getD, hv']

/-- Writing the object behind handle `v` changes the value seen through `v` and through no other
handle (the handles name distinct objects). -/
theorem view_set (s : OState) (w : WFo s) (v : Nat) (x : Mesh.Mesh) :
    ({ s with heap := s.heap.set (s.objOf v) x } : OState).view = s.view.set v x := by
  obtain ⟨hn, hlt⟩ := w
  unfold OState.view OState.objOf
  apply List.ext_getElem
  · simp
  · intro i h1 h2
    simp only [List.length_map] at h1
    by_cases hv : v < s.vars.length
    · have ho : s.vars[v] < s.heap.length := hlt _ (List.getElem_mem hv)
      have hoi : s.vars[i] < s.heap.length := hlt _ (List.getElem_mem h1)
      by_cases e : v = i
      · subst e
        simp [List.getD_eq_getElem?_getD, hv, ho]
      · have ne : s.vars[v] ≠ s.vars[i] := fun q => e ((List.getElem_inj hn).1 q)
        simp [List.getD_eq_getElem?_getD, hv, e, ne, List.getElem?_set, hoi]
    · have hv' : s.vars.length ≤ v := Nat.le_of_not_lt hv
      have e : v ≠ i := by omega
      simp [List.getD_eq_getElem?_getD, hv', e, List.set_eq_of_length_le (Nat.le_refl s.heap.length)]

theorem wfo_set (s : OState) (w : WFo s) (o : Nat) (x : Mesh.Mesh) :
    WFo { s with heap := s.heap.set o x } := by
  refine ⟨w.1, ?_⟩
  intro o' ho'
  simpa using w.2 o' ho'

/-- `vars[dst] = new object`: the value of `dst` is the new mesh, every other handle keeps its
value, and the handles still name distinct objects. -/
theorem view_derive (s : OState) (w : WFo s) (dst : Nat) (x : Mesh.Mesh) :
    ({ heap := s.heap ++ [x], vars := s.vars.set dst s.heap.length } : OState).view
        = s.view.set dst x ∧
      WFo { heap := s.heap ++ [x], vars := s.vars.set dst s.heap.length } := by
  obtain ⟨hn, hlt⟩ := w
  constructor
  · unfold OState.view
    apply List.ext_getElem
    · simp
    · intro i h1 h2
      simp only [List.length_map, List.length_set] at h1
      have hoi : s.vars[i] < s.heap.length := hlt _ (List.getElem_mem h1)
      by_cases e : dst = i
      · subst e
        simp [List.getD_eq_getElem?_getD]
      · simp [List.getD_eq_getElem?_getD, e, List.getElem?_append_left hoi]
  · refine ⟨?_, ?_⟩
    · show (s.vars.set dst s.heap.length).Nodup
      exact nodup_set_fresh hn _ (fun hm => Nat.lt_irrefl _ (hlt _ hm)) dst
    · intro o ho
      show o < (s.heap ++ [x]).length
      simp only [List.length_append, List.length_singleton]
      rcases List.mem_or_eq_of_mem_set ho with ho | ho
      · have := hlt o ho; omega
      · omega

/-- One instruction: the values behind the handles evolve as in the value semantics. -/
theorem stepObj_view (h : Nat → UInt64) (tri : Nat → Tri) (s : OState) (w : WFo s) (op : OOp)
    (na : op.isAlias = false) :
    (stepObj h tri s op).view = stepVal h tri s.view op ∧ WFo (stepObj h tri s op) := by
  cases op with
  | add v f =>
    exact ⟨by simp only [stepObj, stepVal, view_set s w, deref_eq_view], wfo_set s w _ _⟩
  | remove v f =>
    exact ⟨by simp only [stepObj, stepVal, view_set s w, deref_eq_view], wfo_set s w _ _⟩
  | touch v =>
    exact ⟨by simp only [stepObj, stepVal, view_set s w, deref_eq_view], wfo_set s w _ _⟩
  | addMesh v w' =>
    exact ⟨by simp only [stepObj, stepVal, view_set s w, deref_eq_view], wfo_set s w _ _⟩
  | derive dst ids => exact view_derive s w dst _
  | alias dst src => simp [OOp.isAlias] at na

theorem runObj_view_aux (h : Nat → UInt64) (tri : Nat → Tri) (ops : List OOp)
    (na : ∀ op ∈ ops, op.isAlias = false) :
    ∀ s, WFo s → (runObj h tri ops s).view = runVal h tri ops s.view ∧ WFo (runObj h tri ops s) := by
  induction ops with
  | nil => intro s w; exact ⟨rfl, w⟩
  | cons op ops ih =>
    intro s w
    obtain ⟨e, w'⟩ := stepObj_view h tri s w op (na op (List.mem_cons_self))
    have := ih (fun o ho => na o (List.mem_cons_of_mem _ ho)) _ w'
    simp only [runObj, runVal, List.foldl_cons] at this ⊢
    rw [← e]; exact this

/-! ### Every handle holds a coherent mesh -/

theorem coherent_addAll (h : Nat → UInt64) (tri : Nat → Tri) (fs : List Nat) :
    ∀ m, Coherent h tri m → Coherent h tri (addAll h tri m fs) := by
  induction fs with
  | nil => intro m c; exact c
  | cons f fs ih => intro m c; exact ih _ (coherent_add h tri c f)

theorem coherent_build (h : Nat → UInt64) (tri : Nat → Tri) (ids : List Nat) :
    Coherent h tri (build h tri ids) := coherent_addAll h tri ids _ (coherent_new h tri)

theorem addAll_index_none (h : Nat → UInt64) (tri : Nat → Tri) (fs : List Nat) :
    ∀ m : Mesh.Mesh, m.index = none → (addAll h tri m fs).index = none := by
  induction fs with
  | nil => intro m e; exact e
  | cons f fs ih =>
    intro m e
    apply ih
    show (m.add h tri f).index = none
    unfold Mesh.add
    rw [e]
    by_cases hf : f ∈ m.faces <;> simp [hf, e]

theorem addAll_faces_nodup (h : Nat → UInt64) (tri : Nat → Tri) (fs : List Nat) (hn : fs.Nodup) :
    ∀ m : Mesh.Mesh, m.index = none → (∀ f ∈ fs, f ∉ m.faces) →
      (addAll h tri m fs).faces = m.faces ++ fs := by
  induction fs with
  | nil => intro m _ _; simp [addAll]
  | cons f fs ih =>
    intro m e hd
    have hf : f ∉ m.faces := hd f List.mem_cons_self
    have hadd : m.add h tri f = { m with faces := m.faces ++ [f] } := by
      unfold Mesh.add; rw [e]; simp [hf]
    have := ih (List.nodup_cons.1 hn).2 (m.add h tri f) (by rw [hadd]; exact e) (by
      intro g hg
      rw [hadd]
      simp only [List.mem_append, List.mem_singleton, not_or]
      refine ⟨hd g (List.mem_cons_of_mem _ hg), ?_⟩
      intro q; subst q; exact (List.nodup_cons.1 hn).1 hg)
    show (addAll h tri (m.add h tri f) fs).faces = m.faces ++ f :: fs
    rw [this, hadd]; simp

theorem mem_set_cases {α : Type} {l : List α} {i : Nat} {x y : α} (hy : y ∈ l.set i x) :
    y ∈ l ∨ y = x := List.mem_or_eq_of_mem_set hy

theorem getD_coherent (h : Nat → UInt64) (tri : Nat → Tri) (vals : List Mesh.Mesh)
    (c : ∀ m ∈ vals, Coherent h tri m) (v : Nat) : Coherent h tri (vals.getD v Mesh.new) := by
  by_cases hv : v < vals.length
  · have : vals.getD v Mesh.new = vals[v] := by simp [List.getD_eq_getElem?_getD, hv]
    rw [this]; exact c _ (List.getElem_mem hv)
  · have : vals.getD v Mesh.new = Mesh.new := by
      simp [List.getD_eq_getElem?_getD, Nat.le_of_not_lt hv]
    rw [this]; exact coherent_new h tri

theorem stepVal_coherent (h : Nat → UInt64) (tri : Nat → Tri) (vals : List Mesh.Mesh)
    (c : ∀ m ∈ vals, Coherent h tri m) (op : OOp) : ∀ m ∈ stepVal h tri vals op, Coherent h tri m := by
  intro m hm
  cases op with
  | add v f =>
    rcases mem_set_cases hm with hm | hm
    · exact c m hm
    · subst hm; exact coherent_add h tri (getD_coherent h tri vals c v) f
  | remove v f =>
    rcases mem_set_cases hm with hm | hm
    · exact c m hm
    · subst hm; exact coherent_remove h tri (getD_coherent h tri vals c v) f
  | touch v =>
    rcases mem_set_cases hm with hm | hm
    · exact c m hm
    · subst hm; exact (coherent_withIndex h tri (getD_coherent h tri vals c v)).1
  | addMesh v w =>
    rcases mem_set_cases hm with hm | hm
    · exact c m hm
    · subst hm; exact coherent_addAll h tri _ _ (getD_coherent h tri vals c v)
  | derive dst ids =>
    rcases mem_set_cases hm with hm | hm
    · exact c m hm
    · subst hm; exact coherent_build h tri ids
  | alias dst src =>
    rcases mem_set_cases hm with hm | hm
    · exact c m hm
    · subst hm; exact getD_coherent h tri vals c src

theorem runVal_coherent (h : Nat → UInt64) (tri : Nat → Tri) (ops : List OOp) :
    ∀ vals : List Mesh.Mesh, (∀ m ∈ vals, Coherent h tri m) →
      ∀ m ∈ runVal h tri ops vals, Coherent h tri m := by
  induction ops with
  | nil => intro vals c; exact c
  | cons op ops ih =>
    intro vals c
    exact ih _ (stepVal_coherent h tri vals c op)

end M3d.MeshObj
