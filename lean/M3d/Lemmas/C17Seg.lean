import Mathlib.Tactic.Ring
import Mathlib.Tactic.Linarith
import Mathlib.Tactic.FieldSimp
import Mathlib.Tactic.Positivity
import Mathlib.Algebra.Order.Field.Basic
import M3d.Model.Curves
/-!
Helper lemmas for C17: `SegmentCurve.Eval` (cumulative start offsets + binary search + index
fix-up) is the arclength walk along the polyline.
-/
namespace M3d.Curves

variable {K : Type} [Field K] [LinearOrder K] [IsStrictOrderedRing K]

/-- The body of `SegmentCurve.Eval` after `l` has been computed, with the running offset `acc`
the cumulative sums start from (0 in the real code). -/
def evalFrom (sqrt : K → K) (acc : K) (segs : List (Seg K)) (l : K) : K × K :=
  let starts := (cumulative acc (segs.map (segLen sqrt))).1
  let idx0 := searchGE l starts
  let idx := if idx0 = segs.length ∨ (0 < idx0 ∧ l < starts.getD idx0 ((0 : Nat) : K)) then idx0 - 1 else idx0
  segPoint sqrt (segs.getD idx dummySeg) (l - starts.getD idx ((0 : Nat) : K))

omit [LinearOrder K] [IsStrictOrderedRing K] in
theorem cumulative_cons (acc l : K) (ls : List K) :
    (cumulative acc (l :: ls)).1 = acc :: (cumulative (acc + l) ls).1 := rfl

omit [LinearOrder K] [IsStrictOrderedRing K] in
theorem cumulative_length (acc : K) (ls : List K) : (cumulative acc ls).1.length = ls.length := by
  induction ls generalizing acc with
  | nil => rfl
  | cons l ls ih => simp [cumulative_cons, ih]

theorem searchGE_le_length (x : K) (a : List K) : searchGE x a ≤ a.length := by
  induction a with
  | nil => simp [searchGE]
  | cons y ys ih => simp only [searchGE]; split <;> simp <;> omega

theorem evalFrom_eq_walk (sqrt : K → K) (segs : List (Seg K)) (hne : segs ≠ [])
    (hpos : ∀ s ∈ segs, 0 < segLen sqrt s) (acc l : K) :
    evalFrom sqrt acc segs l = walk sqrt segs (l - acc) := by
  induction segs generalizing acc with
  | nil => exact absurd rfl hne
  | cons s rest ih =>
    cases rest with
    | nil =>
      simp only [evalFrom, List.map_cons, List.map_nil, cumulative, searchGE, walk, List.length_cons,
        List.length_nil]
      by_cases h : acc < l
      · simp [h]
      · simp [h]
    | cons s' rest' =>
      have hL : 0 < segLen sqrt s := hpos s (by simp)
      have ih' := ih (by simp) (fun x hx => hpos x (List.mem_cons_of_mem _ hx)) (acc + segLen sqrt s)
      set L := segLen sqrt s with hLdef
      set starts' := (cumulative (acc + L) ((s' :: rest').map (segLen sqrt))).1 with hst
      have hlen' : starts'.length = rest'.length + 1 := by
        rw [hst, cumulative_length]; simp
      have hhead : starts'.getD 0 ((0 : Nat) : K) = acc + L := by
        rw [hst]; simp [cumulative_cons]
      have hstarts : (cumulative acc ((s :: s' :: rest').map (segLen sqrt))).1 = acc :: starts' := by
        rw [List.map_cons, cumulative_cons]
      rw [show walk sqrt (s :: s' :: rest') (l - acc) =
          if l - acc < L then segPoint sqrt s (l - acc) else walk sqrt (s' :: rest') (l - acc - L) from rfl]
      simp only [evalFrom, hstarts]
      by_cases hin : l - acc < L
      · rw [if_pos hin]
        have hlt : ¬ (acc + L < l) := by linarith
        have h0 : searchGE l starts' = 0 := by
          rw [hst, List.map_cons, cumulative_cons, searchGE, if_neg hlt]
        by_cases h : acc < l
        · simp only [searchGE, if_pos h, h0, List.length_cons]
          have hc : (0 + 1 = rest'.length + 1 + 1 ∨ 0 < 0 + 1 ∧ l < (acc :: starts').getD (0 + 1) ((0 : Nat) : K)) := by
            right
            refine ⟨by omega, ?_⟩
            rw [List.getD_cons_succ, hhead]; linarith
          rw [if_pos hc]
          simp
        · simp only [searchGE, if_neg h, List.length_cons]
          simp
      · rw [if_neg hin]
        have hge : acc + L ≤ l := by linarith
        have h : acc < l := by linarith
        simp only [evalFrom] at ih'
        rw [← hst] at ih'
        rw [show l - acc - L = l - (acc + L) by ring, ← ih' ]
        simp only [searchGE, if_pos h, List.length_cons]
        set j := searchGE l starts' with hj
        have hjle : j ≤ starts'.length := searchGE_le_length l starts'
        by_cases hjn : j = rest'.length + 1
        · -- the search ran off the end: the last segment
          have c1 : (j + 1 = rest'.length + 1 + 1 ∨ 0 < j + 1 ∧ l < (acc :: starts').getD (j + 1) ((0 : Nat) : K)) :=
            Or.inl (by omega)
          have c2 : (j = rest'.length + 1 ∨ 0 < j ∧ l < starts'.getD j ((0 : Nat) : K)) := Or.inl hjn
          rw [if_pos c1, if_pos c2]
          have : j + 1 - 1 = (j - 1) + 1 := by omega
          rw [this, List.getD_cons_succ, List.getD_cons_succ]
        · by_cases hlj : l < starts'.getD j ((0 : Nat) : K)
          · have hj0 : 0 < j := by
              rcases Nat.eq_zero_or_pos j with h0 | h0
              · rw [h0, hhead] at hlj; linarith
              · exact h0
            have c1 : (j + 1 = rest'.length + 1 + 1 ∨ 0 < j + 1 ∧ l < (acc :: starts').getD (j + 1) ((0 : Nat) : K)) :=
              Or.inr ⟨by omega, by rw [List.getD_cons_succ]; exact hlj⟩
            have c2 : (j = rest'.length + 1 ∨ 0 < j ∧ l < starts'.getD j ((0 : Nat) : K)) := Or.inr ⟨hj0, hlj⟩
            rw [if_pos c1, if_pos c2]
            have : j + 1 - 1 = (j - 1) + 1 := by omega
            rw [this, List.getD_cons_succ, List.getD_cons_succ]
          · have c1 : ¬ (j + 1 = rest'.length + 1 + 1 ∨ 0 < j + 1 ∧ l < (acc :: starts').getD (j + 1) ((0 : Nat) : K)) := by
              rintro (h1 | ⟨_, h2⟩)
              · omega
              · rw [List.getD_cons_succ] at h2; exact hlj h2
            have c2 : ¬ (j = rest'.length + 1 ∨ 0 < j ∧ l < starts'.getD j ((0 : Nat) : K)) := by
              rintro (h1 | ⟨_, h2⟩)
              · exact hjn h1
              · exact hlj h2
            rw [if_neg c1, if_neg c2, List.getD_cons_succ, List.getD_cons_succ]

/-! ### bisectionSearch -/

/-- Loop invariant of `bisectionSearch`: the bracket `f lo ≤ x < f hi` is kept and halves. -/
theorem bisectLoop_inv (f : K → K) (x : K) (n : ℕ) (lo hi : K) (h1 : f lo ≤ x) (h2 : ¬ f hi ≤ x) :
    f (bisectLoop f x n lo hi).1 ≤ x ∧ ¬ f (bisectLoop f x n lo hi).2 ≤ x ∧
      (bisectLoop f x n lo hi).2 - (bisectLoop f x n lo hi).1 = (hi - lo) / 2 ^ n ∧
      (lo ≤ hi → lo ≤ (bisectLoop f x n lo hi).1 ∧ (bisectLoop f x n lo hi).2 ≤ hi) ∧
      (hi ≤ lo → hi ≤ (bisectLoop f x n lo hi).2 ∧ (bisectLoop f x n lo hi).1 ≤ lo) := by
  induction n generalizing lo hi with
  | zero => simp [bisectLoop, h1, h2]
  | succ n ih =>
    simp only [bisectLoop]
    push_cast
    by_cases h : f ((lo + hi) / 2) ≤ x
    · rw [if_pos h]
      obtain ⟨a, b, c, d, e⟩ := ih ((lo + hi) / 2) hi h h2
      refine ⟨a, b, ?_, ?_, ?_⟩
      · rw [c, pow_succ]; field_simp; ring
      · intro hle
        obtain ⟨d1, d2⟩ := d (by linarith)
        exact ⟨by linarith, d2⟩
      · intro hle
        obtain ⟨e1, e2⟩ := e (by linarith)
        exact ⟨e1, by linarith⟩
    · rw [if_neg h]
      obtain ⟨a, b, c, d, e⟩ := ih lo ((lo + hi) / 2) h1 h
      refine ⟨a, b, ?_, ?_, ?_⟩
      · rw [c, pow_succ]; field_simp; ring
      · intro hle
        obtain ⟨d1, d2⟩ := d (by linarith)
        exact ⟨d1, by linarith⟩
      · intro hle
        obtain ⟨e1, e2⟩ := e (by linarith)
        exact ⟨by linarith, e2⟩


end M3d.Curves
