import Mathlib.Tactic.Ring
import Mathlib.Tactic.Linarith
import Mathlib.Tactic.FieldSimp
import Mathlib.Tactic.Positivity
import Mathlib.Algebra.Order.Field.Basic
import M3d.Model.Curves
/-!
Helper lemmas for C17: `SegmentCurve.Eval` (cumulative start offsets + binary search + index
fix-up) is the arclength walk along the polyline.
-/
namespace M3d.Curves

variable {K : Type} [Field K] [LinearOrder K] [IsStrictOrderedRing K]

/-- The body of `SegmentCurve.Eval` after `l` has been computed, with the running offset `acc`
the cumulative sums start from (0 in the real code). -/
def evalFrom (sqrt : K → K) (acc : K) (segs : List (Seg K)) (l : K) : K × K :=
  let starts := (cumulative acc (segs.map (segLen sqrt))).1
  let idx0 := searchGE l starts
  let idx := if idx0 = segs.length ∨ (0 < idx0 ∧ l < starts.getD idx0 ((0 : Nat) : K)) then idx0 - 1 else idx0
  segPoint sqrt (segs.getD idx dummySeg) (l - starts.getD idx ((0 : Nat) : K))

omit [LinearOrder K] [IsStrictOrderedRing K] in
theorem cumulative_cons (acc l : K) (ls : List K) :
    (cumulative acc (l :: ls)).1 = acc :: (cumulative (acc + l) ls).1 := rfl

omit [LinearOrder K] [IsStrictOrderedRing K] in
theorem cumulative_length (acc : K) (ls : List K) : (cumulative acc ls).1.length = ls.length := by
  induction ls generalizing acc with
  | nil => rfl
  | cons l ls ih => simp [cumulative_cons, ih]

theorem searchGE_le_length (x : K) (a : List K) : searchGE x a ≤ a.length := by
  induction a with
  | nil => simp [searchGE]
  | cons y ys ih => simp only [searchGE]; split <;> simp <;> omega

/-- First step of the lookup, inside the first segment: no hypothesis on the lengths. -/
theorem evalFrom_cons_in (sqrt : K → K) (s s' : Seg K) (rest' : List (Seg K)) (acc l : K)
    (hin : l - acc < segLen sqrt s) :
    evalFrom sqrt acc (s :: s' :: rest') l = segPoint sqrt s (l - acc) := by
  set L := segLen sqrt s with hLdef
  set starts' := (cumulative (acc + L) ((s' :: rest').map (segLen sqrt))).1 with hst
  have hhead : starts'.getD 0 ((0 : Nat) : K) = acc + L := by
    rw [hst]; simp [cumulative_cons]
  have hstarts : (cumulative acc ((s :: s' :: rest').map (segLen sqrt))).1 = acc :: starts' := by
    rw [List.map_cons, cumulative_cons]
  simp only [evalFrom, hstarts]
  have hlt : ¬ (acc + L < l) := by linarith
  have h0 : searchGE l starts' = 0 := by
    rw [hst, List.map_cons, cumulative_cons, searchGE, if_neg hlt]
  by_cases h : acc < l
  · simp only [searchGE, if_pos h, h0, List.length_cons]
    have hc : (0 + 1 = rest'.length + 1 + 1 ∨ 0 < 0 + 1 ∧ l < (acc :: starts').getD (0 + 1) ((0 : Nat) : K)) := by
      right
      refine ⟨by omega, ?_⟩
      rw [List.getD_cons_succ, hhead]; linarith
    rw [if_pos hc]
    simp
  · simp only [searchGE, if_neg h, List.length_cons]
    simp

/-- First step of the lookup, past the first segment (and strictly past its start): the lookup in the
whole table is the lookup in the table of the remaining segments.  No hypothesis on the lengths. -/
theorem evalFrom_cons_step (sqrt : K → K) (s s' : Seg K) (rest' : List (Seg K)) (acc l : K)
    (h : acc < l) (hge : acc + segLen sqrt s ≤ l) :
    evalFrom sqrt acc (s :: s' :: rest') l = evalFrom sqrt (acc + segLen sqrt s) (s' :: rest') l := by
  set L := segLen sqrt s with hLdef
  set starts' := (cumulative (acc + L) ((s' :: rest').map (segLen sqrt))).1 with hst
  have hlen' : starts'.length = rest'.length + 1 := by
    rw [hst, cumulative_length]; simp
  have hhead : starts'.getD 0 ((0 : Nat) : K) = acc + L := by
    rw [hst]; simp [cumulative_cons]
  have hstarts : (cumulative acc ((s :: s' :: rest').map (segLen sqrt))).1 = acc :: starts' := by
    rw [List.map_cons, cumulative_cons]
  simp only [evalFrom, hstarts]
  rw [← hst]
  simp only [searchGE, if_pos h, List.length_cons]
  set j := searchGE l starts' with hj
  have hjle : j ≤ starts'.length := searchGE_le_length l starts'
  by_cases hjn : j = rest'.length + 1
  · -- the search ran off the end: the last segment
    have c1 : (j + 1 = rest'.length + 1 + 1 ∨ 0 < j + 1 ∧ l < (acc :: starts').getD (j + 1) ((0 : Nat) : K)) :=
      Or.inl (by omega)
    have c2 : (j = rest'.length + 1 ∨ 0 < j ∧ l < starts'.getD j ((0 : Nat) : K)) := Or.inl hjn
    rw [if_pos c1, if_pos c2]
    have : j + 1 - 1 = (j - 1) + 1 := by omega
    rw [this, List.getD_cons_succ, List.getD_cons_succ]
  · by_cases hlj : l < starts'.getD j ((0 : Nat) : K)
    · have hj0 : 0 < j := by
        rcases Nat.eq_zero_or_pos j with h0 | h0
        · rw [h0, hhead] at hlj; linarith
        · exact h0
      have c1 : (j + 1 = rest'.length + 1 + 1 ∨ 0 < j + 1 ∧ l < (acc :: starts').getD (j + 1) ((0 : Nat) : K)) :=
        Or.inr ⟨by omega, by rw [List.getD_cons_succ]; exact hlj⟩
      have c2 : (j = rest'.length + 1 ∨ 0 < j ∧ l < starts'.getD j ((0 : Nat) : K)) := Or.inr ⟨hj0, hlj⟩
      rw [if_pos c1, if_pos c2]
      have : j + 1 - 1 = (j - 1) + 1 := by omega
      rw [this, List.getD_cons_succ, List.getD_cons_succ]
    · have c1 : ¬ (j + 1 = rest'.length + 1 + 1 ∨ 0 < j + 1 ∧ l < (acc :: starts').getD (j + 1) ((0 : Nat) : K)) := by
        rintro (h1 | ⟨_, h2⟩)
        · omega
        · rw [List.getD_cons_succ] at h2; exact hlj h2
      have c2 : ¬ (j = rest'.length + 1 ∨ 0 < j ∧ l < starts'.getD j ((0 : Nat) : K)) := by
        rintro (h1 | ⟨_, h2⟩)
        · exact hjn h1
        · exact hlj h2
      rw [if_neg c1, if_neg c2, List.getD_cons_succ, List.getD_cons_succ]

/-- At or before the start of the table the first segment is selected. -/
theorem evalFrom_at_start (sqrt : K → K) (s : Seg K) (rest : List (Seg K)) (acc l : K) (h : ¬ acc < l) :
    evalFrom sqrt acc (s :: rest) l = segPoint sqrt s (l - acc) := by
  simp only [evalFrom, List.map_cons, cumulative_cons, searchGE, if_neg h, List.length_cons]
  simp

theorem evalFrom_single (sqrt : K → K) (s : Seg K) (acc l : K) :
    evalFrom sqrt acc [s] l = segPoint sqrt s (l - acc) := by
  simp only [evalFrom, List.map_cons, List.map_nil, cumulative, searchGE, List.length_cons,
    List.length_nil]
  by_cases h : acc < l
  · simp [h]
  · simp [h]

theorem walk_cons_cons (sqrt : K → K) (s s' : Seg K) (rest' : List (Seg K)) (l : K) :
    walk sqrt (s :: s' :: rest') l =
      if l < segLen sqrt s then segPoint sqrt s l else walk sqrt (s' :: rest') (l - segLen sqrt s) := rfl

theorem evalFrom_eq_walk (sqrt : K → K) (segs : List (Seg K)) (hne : segs ≠ [])
    (hpos : ∀ s ∈ segs, 0 < segLen sqrt s) (acc l : K) :
    evalFrom sqrt acc segs l = walk sqrt segs (l - acc) := by
  induction segs generalizing acc with
  | nil => exact absurd rfl hne
  | cons s rest ih =>
    cases rest with
    | nil => rw [evalFrom_single]; rfl
    | cons s' rest' =>
      have hL : 0 < segLen sqrt s := hpos s (by simp)
      have ih' := ih (by simp) (fun x hx => hpos x (List.mem_cons_of_mem _ hx)) (acc + segLen sqrt s)
      rw [walk_cons_cons]
      by_cases hin : l - acc < segLen sqrt s
      · rw [if_pos hin, evalFrom_cons_in sqrt s s' rest' acc l hin]
      · rw [if_neg hin, evalFrom_cons_step sqrt s s' rest' acc l (by linarith) (by linarith), ih']
        congr 1; ring

/-! ### polylines with repeated vertices (segments of length zero) -/

/-- What the theorems need of `math.Sqrt`: non-negative, and a square root, on non-negative arguments. -/
def SqrtOK (sqrt : K → K) : Prop := ∀ x, 0 ≤ x → 0 ≤ sqrt x ∧ sqrt x * sqrt x = x

theorem segLen_nonneg (sqrt : K → K) (hs : SqrtOK sqrt) (s : Seg K) : 0 ≤ segLen sqrt s := by
  exact (hs _ (add_nonneg (mul_self_nonneg _) (mul_self_nonneg _))).1

/-- A segment of length zero is a point. -/
theorem segLen_eq_zero (sqrt : K → K) (hs : SqrtOK sqrt) (s : Seg K) (h : segLen sqrt s = 0) :
    s.bx = s.ax ∧ s.by' = s.ay := by
  have h2 := (hs ((s.bx - s.ax) * (s.bx - s.ax) + (s.by' - s.ay) * (s.by' - s.ay))
    (add_nonneg (mul_self_nonneg _) (mul_self_nonneg _))).2
  have h' : sqrt ((s.bx - s.ax) * (s.bx - s.ax) + (s.by' - s.ay) * (s.by' - s.ay)) = 0 := h
  rw [h'] at h2
  have hx : (s.bx - s.ax) * (s.bx - s.ax) = 0 := by nlinarith [mul_self_nonneg (s.bx - s.ax), mul_self_nonneg (s.by' - s.ay)]
  have hy : (s.by' - s.ay) * (s.by' - s.ay) = 0 := by nlinarith [mul_self_nonneg (s.bx - s.ax), mul_self_nonneg (s.by' - s.ay)]
  exact ⟨by have := mul_self_eq_zero.mp hx; linarith, by have := mul_self_eq_zero.mp hy; linarith⟩

theorem segPoint_zero (sqrt : K → K) (s : Seg K) : segPoint sqrt s 0 = (s.ax, s.ay) := by
  simp only [segPoint]
  split
  · rfl
  · simp

theorem segPoint_degenerate (sqrt : K → K) (s : Seg K) (h : segLen sqrt s = 0) (off : K) :
    segPoint sqrt s off = (s.ax, s.ay) := by
  simp [segPoint, h]

/-- The walk at arclength 0 of a connected polyline is its first vertex (however many repeated vertices
it starts with). -/
theorem walk_zero (sqrt : K → K) (hs : SqrtOK sqrt) (s : Seg K) (rest : List (Seg K)) (hc : Connected (s :: rest)) :
    walk sqrt (s :: rest) 0 = (s.ax, s.ay) := by
  induction rest generalizing s with
  | nil => exact segPoint_zero sqrt s
  | cons s' rest' ih =>
    rw [walk_cons_cons]
    by_cases hL : 0 < segLen sqrt s
    · rw [if_pos hL, segPoint_zero]
    · have h0 : segLen sqrt s = 0 := le_antisymm (not_lt.mp hL) (segLen_nonneg sqrt hs s)
      rw [if_neg hL, h0, sub_zero, ih s' hc.2.2]
      obtain ⟨e1, e2⟩ := segLen_eq_zero sqrt hs s h0
      rw [← hc.1, ← hc.2.1, e1, e2]

/-- **The lookup is the arclength walk also on polylines with repeated vertices**: connected polyline, any
number of zero-length segments anywhere, every arclength `l ≥ acc` (in `Eval`: `acc = 0`, `l = t·length`,
`t ≥ 0`). -/
theorem evalFrom_eq_walk_connected (sqrt : K → K) (hs : SqrtOK sqrt) (segs : List (Seg K)) (hne : segs ≠ [])
    (hc : Connected segs) (acc l : K) (hl : acc ≤ l) :
    evalFrom sqrt acc segs l = walk sqrt segs (l - acc) := by
  induction segs generalizing acc with
  | nil => exact absurd rfl hne
  | cons s rest ih =>
    cases rest with
    | nil => rw [evalFrom_single]; rfl
    | cons s' rest' =>
      have hL : 0 ≤ segLen sqrt s := segLen_nonneg sqrt hs s
      rw [walk_cons_cons]
      by_cases hin : l - acc < segLen sqrt s
      · rw [if_pos hin, evalFrom_cons_in sqrt s s' rest' acc l hin]
      · rw [if_neg hin]
        by_cases h : acc < l
        · rw [evalFrom_cons_step sqrt s s' rest' acc l h (by linarith),
            ih (by simp) hc.2.2 (acc + segLen sqrt s) (by linarith)]
          congr 1; ring
        · -- `l = acc` and the first segment has length zero: the code answers its vertex, the walk the
          -- first vertex of what follows, which is the same point
          have hla : l = acc := le_antisymm (not_lt.mp h) hl
          have h0 : segLen sqrt s = 0 := by
            apply le_antisymm _ hL
            have := not_lt.mp hin
            linarith
          rw [evalFrom_at_start sqrt s _ acc l h, segPoint_degenerate sqrt s h0, hla, sub_self, h0, sub_zero,
            walk_zero sqrt hs s' rest' hc.2.2]
          obtain ⟨e1, e2⟩ := segLen_eq_zero sqrt hs s h0
          rw [← hc.1, ← hc.2.1, e1, e2]

omit [LinearOrder K] [IsStrictOrderedRing K] in
theorem cumulative_total (acc : K) (ls : List K) : (cumulative acc ls).2 = acc + ls.sum := by
  induction ls generalizing acc with
  | nil => simp [cumulative]
  | cons l ls ih => simp only [cumulative, ih, List.sum_cons]; ring

/-- The segments of positive length, in order: the polyline with its repeated vertices removed. -/
def properSegs (sqrt : K → K) (segs : List (Seg K)) : List (Seg K) :=
  segs.filter fun s => decide (0 < segLen sqrt s)

theorem walk_cons_in (sqrt : K → K) (s : Seg K) (rest : List (Seg K)) (l : K) (h : l < segLen sqrt s) :
    walk sqrt (s :: rest) l = segPoint sqrt s l := by
  cases rest with
  | nil => rfl
  | cons s' r => rw [walk_cons_cons, if_pos h]

theorem walk_cons_out (sqrt : K → K) (s : Seg K) (rest : List (Seg K)) (l : K) (h : ¬ l < segLen sqrt s)
    (hne : rest ≠ []) : walk sqrt (s :: rest) l = walk sqrt rest (l - segLen sqrt s) := by
  cases rest with
  | nil => exact absurd rfl hne
  | cons s' r => rw [walk_cons_cons, if_neg h]

theorem sum_eq_zero_of_properSegs_nil (sqrt : K → K) (hs : SqrtOK sqrt) (segs : List (Seg K))
    (h : properSegs sqrt segs = []) : (segs.map (segLen sqrt)).sum = 0 := by
  induction segs with
  | nil => simp
  | cons s rest ih =>
    simp only [properSegs, List.filter_cons] at h
    by_cases hL : 0 < segLen sqrt s
    · simp [hL] at h
    · simp only [hL, decide_false] at h
      have h0 : segLen sqrt s = 0 := le_antisymm (not_lt.mp hL) (segLen_nonneg sqrt hs s)
      simp only [List.map_cons, List.sum_cons, h0, zero_add]
      exact ih h

/-- **Repeated vertices take up no part of the curve**: at every arclength `0 ≤ l <` total length the walk
along the polyline is the walk along the polyline with the zero-length segments removed. -/
theorem walk_properSegs (sqrt : K → K) (hs : SqrtOK sqrt) (segs : List (Seg K)) (l : K) (h0 : 0 ≤ l)
    (h1 : l < (segs.map (segLen sqrt)).sum) :
    walk sqrt segs l = walk sqrt (properSegs sqrt segs) l := by
  induction segs generalizing l with
  | nil => simp at h1; exact absurd h1 (not_lt.mpr h0)
  | cons s rest ih =>
    have hL : 0 ≤ segLen sqrt s := segLen_nonneg sqrt hs s
    simp only [List.map_cons, List.sum_cons] at h1
    by_cases hin : l < segLen sqrt s
    · have hpos : 0 < segLen sqrt s := lt_of_le_of_lt h0 hin
      have e : properSegs sqrt (s :: rest) = s :: properSegs sqrt rest := by
        simp [properSegs, List.filter_cons, hpos]
      rw [e, walk_cons_in sqrt s rest l hin, walk_cons_in sqrt s _ l hin]
    · have hrest : 0 < (rest.map (segLen sqrt)).sum := by linarith [not_lt.mp hin]
      have hne : rest ≠ [] := by
        rintro rfl; simp at hrest
      have hpne : properSegs sqrt rest ≠ [] := by
        intro hnil
        rw [sum_eq_zero_of_properSegs_nil sqrt hs rest hnil] at hrest
        exact lt_irrefl _ hrest
      rw [walk_cons_out sqrt s rest l hin hne, ih (l - segLen sqrt s) (by linarith [not_lt.mp hin]) (by linarith)]
      by_cases hpos : 0 < segLen sqrt s
      · have e : properSegs sqrt (s :: rest) = s :: properSegs sqrt rest := by
          simp [properSegs, List.filter_cons, hpos]
        rw [e, walk_cons_out sqrt s _ l hin hpne]
      · have hz : segLen sqrt s = 0 := le_antisymm (not_lt.mp hpos) hL
        have e : properSegs sqrt (s :: rest) = properSegs sqrt rest := by
          simp [properSegs, List.filter_cons, hpos]
        rw [e, hz, sub_zero]

theorem sum_properSegs (sqrt : K → K) (hs : SqrtOK sqrt) (segs : List (Seg K)) :
    ((properSegs sqrt segs).map (segLen sqrt)).sum = (segs.map (segLen sqrt)).sum := by
  induction segs with
  | nil => rfl
  | cons s rest ih =>
    by_cases hpos : 0 < segLen sqrt s
    · have e : properSegs sqrt (s :: rest) = s :: properSegs sqrt rest := by simp [properSegs, hpos]
      have ih' : ((properSegs sqrt rest).map (segLen sqrt)).sum = (rest.map (segLen sqrt)).sum := ih
      rw [e, List.map_cons, List.sum_cons, ih', List.map_cons, List.sum_cons]
    · have hz : segLen sqrt s = 0 := le_antisymm (not_lt.mp hpos) (segLen_nonneg sqrt hs s)
      have e : properSegs sqrt (s :: rest) = properSegs sqrt rest := by simp [properSegs, hpos]
      have ih' : ((properSegs sqrt rest).map (segLen sqrt)).sum = (rest.map (segLen sqrt)).sum := ih
      rw [e, ih', List.map_cons, List.sum_cons, hz, zero_add]

theorem properSegs_pos (sqrt : K → K) (segs : List (Seg K)) : ∀ s ∈ properSegs sqrt segs, 0 < segLen sqrt s := by
  intro s hs
  simp only [properSegs, List.mem_filter, decide_eq_true_eq] at hs
  exact hs.2

/-! ### bisectionSearch -/

/-- Loop invariant of `bisectionSearch`: the bracket `f lo ≤ x < f hi` is kept and halves. -/
theorem bisectLoop_inv (f : K → K) (x : K) (n : ℕ) (lo hi : K) (h1 : f lo ≤ x) (h2 : ¬ f hi ≤ x) :
    f (bisectLoop f x n lo hi).1 ≤ x ∧ ¬ f (bisectLoop f x n lo hi).2 ≤ x ∧
      (bisectLoop f x n lo hi).2 - (bisectLoop f x n lo hi).1 = (hi - lo) / 2 ^ n ∧
      (lo ≤ hi → lo ≤ (bisectLoop f x n lo hi).1 ∧ (bisectLoop f x n lo hi).2 ≤ hi) ∧
      (hi ≤ lo → hi ≤ (bisectLoop f x n lo hi).2 ∧ (bisectLoop f x n lo hi).1 ≤ lo) := by
  induction n generalizing lo hi with
  | zero => simp [bisectLoop, h1, h2]
  | succ n ih =>
    simp only [bisectLoop]
    push_cast
    by_cases h : f ((lo + hi) / 2) ≤ x
    · rw [if_pos h]
      obtain ⟨a, b, c, d, e⟩ := ih ((lo + hi) / 2) hi h h2
      refine ⟨a, b, ?_, ?_, ?_⟩
      · rw [c, pow_succ]; field_simp; ring
      · intro hle
        obtain ⟨d1, d2⟩ := d (by linarith)
        exact ⟨by linarith, d2⟩
      · intro hle
        obtain ⟨e1, e2⟩ := e (by linarith)
        exact ⟨e1, by linarith⟩
    · rw [if_neg h]
      obtain ⟨a, b, c, d, e⟩ := ih lo ((lo + hi) / 2) h1 h
      refine ⟨a, b, ?_, ?_, ?_⟩
      · rw [c, pow_succ]; field_simp; ring
      · intro hle
        obtain ⟨d1, d2⟩ := d (by linarith)
        exact ⟨d1, by linarith⟩
      · intro hle
        obtain ⟨e1, e2⟩ := e (by linarith)
        exact ⟨by linarith, e2⟩


end M3d.Curves
