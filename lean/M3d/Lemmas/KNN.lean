import M3d.Lemmas.KD
import Mathlib.Data.List.Sort
/-!
# The bounded insertion of `knnResults` keeps the `k` smallest distances, sorted

`scanKNN` (= `knn`, by `KD.knn_eq_scan`) yields, as a list of squared distances, exactly the first
`k` entries of the sorted list of all squared distances.
-/
namespace M3d.Spatial
open M3d.Prune M3d.Box
set_option linter.unusedSectionVars false

variable {K : Type} [Field K] [LinearOrder K] [IsStrictOrderedRing K]
variable {P : Type}

/-- Inserting into the first `k` entries or into the whole list gives the same first `k` entries. -/
theorem take_orderedInsert_take (x : K) :
    ∀ (k : Nat) (L : List K),
      (List.orderedInsert (· ≤ ·) x (L.take k)).take k = (List.orderedInsert (· ≤ ·) x L).take k := by
  intro k L
  induction L generalizing k with
  | nil => simp
  | cons b L ih =>
      cases k with
      | zero => simp
      | succ k =>
          simp only [List.take_succ_cons, List.orderedInsert]
          by_cases h : x ≤ b
          · simp only [h, if_true, List.take_succ_cons]
            congr 1
            cases k with
            | zero => simp
            | succ j => simp [List.take_take]
          · simp only [h, if_false, List.take_succ_cons]
            rw [ih k]

theorem dists_insertAt (c : P) (d : K) :
    ∀ s : List (K × P), (insertAt c d s).map (·.1) = List.orderedInsert (· ≤ ·) d (s.map (·.1))
  | [] => rfl
  | (e, q) :: r => by
      simp only [insertAt, List.map_cons, List.orderedInsert]
      by_cases h : e < d
      · simp only [h, if_true, not_le.2 h, if_false, List.map_cons, dists_insertAt c d r]
      · simp only [h, if_false, not_lt.1 h, if_true, List.map_cons]

/-- Inserting something `≥` everything into a sorted list does not change its first `length` entries. -/
theorem take_orderedInsert_of_ge (d : K) :
    ∀ L : List K, L.Pairwise (· ≤ ·) → (∀ b ∈ L, b ≤ d) →
      (List.orderedInsert (· ≤ ·) d L).take L.length = L := by
  intro L
  induction L with
  | nil => intro _ _; rfl
  | cons b L ih =>
      intro hs hle
      have hb : b ≤ d := hle b (by simp)
      simp only [List.orderedInsert]
      by_cases h : d ≤ b
      · have hbd : b = d := le_antisymm hb h
        subst hbd
        simp only [h, if_true, List.length_cons, List.take_succ_cons]
        congr 1
        -- every element of L equals b
        have hall : ∀ x ∈ L, x = b := fun x hx =>
          le_antisymm (hle x (by simp [hx])) ((List.pairwise_cons.1 hs).1 x hx)
        clear ih hs hle hb h
        induction L with
        | nil => rfl
        | cons y L ih2 =>
            have hy : y = b := hall y (by simp)
            subst hy
            simp only [List.length_cons, List.take_succ_cons]
            congr 1
            exact ih2 (fun x hx => hall x (by simp [hx]))
      · simp only [h, if_false, List.length_cons, List.take_succ_cons]
        rw [ih (List.pairwise_cons.1 hs).2 (fun x hx => hle x (by simp [hx]))]

theorem knnMaxDist_some {k : Nat} {s : List (K × P)} {m : K} (h : knnMaxDist k s = some m) :
    k ≤ s.length ∧ ∃ q, s[k - 1]? = some (m, q) := by
  unfold knnMaxDist at h
  by_cases hl : s.length < k
  · simp [hl] at h
  · simp only [hl, if_false, Option.map_eq_some_iff] at h
    obtain ⟨⟨m', q⟩, h1, h2⟩ := h
    simp only at h2; subst h2
    exact ⟨not_lt.1 hl, q, h1⟩

/-- **One `knnResults.Insert` = insert into the sorted distances, keep the first `k`.** -/
theorem dists_knnInsert (k : Nat) (hk : 0 < k) (s : List (K × P)) (c : P) (d : K)
    (hs : (s.map (·.1)).Pairwise (· ≤ ·)) (hl : s.length ≤ k) :
    (knnInsert k s c d).map (·.1) = (List.orderedInsert (· ≤ ·) d (s.map (·.1))).take k := by
  unfold knnInsert
  cases hm : knnMaxDist k s with
  | none => simp only [geMax, Bool.false_eq_true, if_false, List.map_take, dists_insertAt]
  | some m =>
      by_cases hd : d < m
      · simp only [geMax, hd, decide_true, Bool.not_true, Bool.false_eq_true, if_false, List.map_take,
          dists_insertAt]
      · simp only [geMax, hd, decide_false, Bool.not_false, if_true]
        obtain ⟨hk', q, hq⟩ := knnMaxDist_some hm
        have hlen : s.length = k := le_antisymm hl hk'
        have hmem : (m, q) ∈ s := List.mem_of_getElem? hq
        -- every stored distance is ≤ the last one ≤ d
        have hle : ∀ b ∈ s.map (·.1), b ≤ d := by
          intro b hb
          refine le_trans ?_ (not_lt.1 hd)
          obtain ⟨i, hi, rfl⟩ := List.getElem_of_mem hb
          have hi' : i < s.length := by simpa using hi
          have hlast : (s.map (·.1))[k - 1]'(by simp; omega) = m := by
            have : (s.map (·.1))[k - 1]? = some m := by simp [hq]
            exact (List.getElem_eq_iff (by simp; omega)).2 this
          rw [← hlast]
          by_cases hik : i = k - 1
          · subst hik; exact le_refl _
          · exact List.pairwise_iff_getElem.1 hs i (k - 1) hi (by simp; omega) (by omega)
        have := take_orderedInsert_of_ge d (s.map (·.1)) hs hle
        rw [List.length_map, hlen] at this
        exact this.symm

theorem pairwise_take_orderedInsert (d : K) (k : Nat) (L : List K) (h : L.Pairwise (· ≤ ·)) :
    ((List.orderedInsert (· ≤ ·) d L).take k).Pairwise (· ≤ ·) :=
  List.Pairwise.sublist (List.take_sublist _ _) (h.orderedInsert d L)

/-- Invariant of the scan: the stored distances are the first `k` of the sorted distances seen
so far (seen = `acc`, folded in with `orderedInsert`). -/
theorem scanKNN_dists (sq : P → P → K) (k : Nat) (hk : 0 < k) (p : P) :
    ∀ (l : List P) (s : List (K × P)) (acc : List K),
      acc.Pairwise (· ≤ ·) → s.map (·.1) = acc.take k →
      (scanKNN sq k p l s).map (·.1) =
        ((l.foldl (fun a c => List.orderedInsert (· ≤ ·) (sq p c) a) acc)).take k := by
  intro l
  induction l with
  | nil => intro s acc _ h; exact h
  | cons c l ih =>
      intro s acc hacc hs
      simp only [scanKNN, List.foldl_cons]
      have hsorted : (s.map (·.1)).Pairwise (· ≤ ·) := by
        rw [hs]; exact List.Pairwise.sublist (List.take_sublist _ _) hacc
      have hlen : s.length ≤ k := by
        have := congrArg List.length hs
        simp only [List.length_map, List.length_take] at this
        omega
      apply ih _ _ (hacc.orderedInsert _ _)
      rw [dists_knnInsert k hk s c (sq p c) hsorted hlen, hs, take_orderedInsert_take]

theorem foldl_orderedInsert_eq_sort (ds : List K) :
    ds.foldl (fun a x => List.orderedInsert (· ≤ ·) x a) [] = ds.insertionSort (· ≤ ·) := by
  have h1 : ∀ (l : List K) (acc : List K), acc.Pairwise (· ≤ ·) →
      (l.foldl (fun a x => List.orderedInsert (· ≤ ·) x a) acc).Pairwise (· ≤ ·) ∧
      (l.foldl (fun a x => List.orderedInsert (· ≤ ·) x a) acc).Perm (l ++ acc) := by
    intro l
    induction l with
    | nil => intro acc h; exact ⟨h, List.Perm.refl _⟩
    | cons x l ih =>
        intro acc h
        obtain ⟨a, b⟩ := ih _ (h.orderedInsert x acc)
        refine ⟨a, b.trans ?_⟩
        exact ((List.perm_orderedInsert (· ≤ ·) x acc).append_left l).trans List.perm_middle
  obtain ⟨a, b⟩ := h1 ds [] List.Pairwise.nil
  rw [List.append_nil] at b
  exact List.Perm.eq_of_pairwise' a (List.pairwise_insertionSort (· ≤ ·) ds)
    (b.trans (List.perm_insertionSort (· ≤ ·) ds).symm)

/-- **The linear scan with `knnResults.Insert` returns, as squared distances, the `k` smallest
squared distances in ascending order** (all of them if there are fewer than `k` points). -/
theorem scanKNN_eq_k_smallest (sq : P → P → K) (k : Nat) (hk : 0 < k) (p : P) (l : List P) :
    (scanKNN sq k p l []).map (·.1) = ((l.map (sq p)).insertionSort (· ≤ ·)).take k := by
  rw [scanKNN_dists sq k hk p l [] [] List.Pairwise.nil (by simp)]
  congr 1
  rw [← foldl_orderedInsert_eq_sort, List.foldl_map]

/-! ### the stored POINTS: each one a scanned point with its own distance, none used twice -/

theorem insertAt_perm (c : P) (d : K) : ∀ s : List (K × P), (insertAt c d s).Perm ((d, c) :: s)
  | [] => List.Perm.refl _
  | (e, q) :: r => by
      simp only [insertAt]
      split_ifs
      · exact ((insertAt_perm c d r).cons (e, q)).trans (List.Perm.swap _ _ _)
      · exact List.Perm.refl _

theorem knnInsert_subperm (k : Nat) (s : List (K × P)) (c : P) (d : K) :
    (knnInsert k s c d).Subperm ((d, c) :: s) := by
  unfold knnInsert
  split_ifs
  · exact (List.sublist_cons_self _ _).subperm
  · exact (List.take_sublist _ _).subperm.trans (insertAt_perm c d s).subperm

/-- The pairs stored by the scan are pairs `(sq p c, c)` of scanned points, each scanned point used at most
as often as it was scanned (sub-multiset). -/
theorem scanKNN_subperm (sq : P → P → K) (k : Nat) (p : P) :
    ∀ (l : List P) (s : List (K × P)),
      (scanKNN sq k p l s).Subperm (s ++ l.map (fun c => (sq p c, c))) := by
  intro l
  induction l with
  | nil => intro s; simp only [scanKNN, List.foldl_nil, List.map_nil, List.append_nil]; exact List.Subperm.refl _
  | cons c l ih =>
      intro s
      simp only [scanKNN, List.foldl_cons, List.map_cons]
      refine (ih _).trans ?_
      refine ((List.subperm_append_right _).mpr (knnInsert_subperm k s c (sq p c))).trans ?_
      exact (List.perm_middle.symm).subperm

end M3d.Spatial
