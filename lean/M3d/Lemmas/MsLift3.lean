import M3d.Lemmas.MsLift2
/-! The global in/out theorem for marching squares (conclusion). Core-only. -/
namespace M3d.Marching

section
variable {table : List (List (List Nat))} (hok : msLocalOk table = true)
variable (nx ny : Nat) (lab : Nat → Nat → Bool)
variable (hb : ∀ x y, (x = 0 ∨ y = 0 ∨ nx ≤ x ∨ ny ≤ y) → lab x y = false)

/-- contribution of cell `(x,y)` at `v` -/
abbrev T (table : List (List (List Nat))) (lab : Nat → Nat → Bool) (v : GV2) (sel : Bool) (x y : Nat) : Nat :=
  cnt sel (cellSegs table lab x y) v

abbrev L (table : List (List (List Nat))) (lab : Nat → Nat → Bool) (sel : Bool) (x y : Nat) (p : Nat × Nat) : Nat :=
  locCnt sel (getRow table (cellCfg2 lab x y)) p

include hok hb in
/-- A vertex on a horizontal lattice edge: `v = (2i+1, 2j)`. -/
theorem ms_horizontal (i j : Nat) :
    cnt false (msMesh table nx ny lab) (2 * i + 1, 2 * j) = cnt true (msMesh table nx ny lab) (2 * i + 1, 2 * j) ∧
    cnt false (msMesh table nx ny lab) (2 * i + 1, 2 * j) ≤ 1 := by
  -- reduce the double sum for either selector
  have red : ∀ sel, cnt sel (msMesh table nx ny lab) (2 * i + 1, 2 * j) =
      rsum ny fun y => if i < nx then T table lab (2 * i + 1, 2 * j) sel i y else 0 := by
    intro sel
    rw [cnt_msMesh]
    unfold rsum
    congr 1
    apply List.map_congr_left
    intro y _
    apply rsum_single
    intro x _ hx
    rw [cnt_cellSegs]
    have : ¬ (2 * x ≤ 2 * i + 1 ∧ 2 * i + 1 ≤ 2 * x + 2 ∧ 2 * y ≤ 2 * j ∧ 2 * j ≤ 2 * y + 2) := by omega
    simp only [this, if_false]
  by_cases hi : i < nx
  case neg =>
    -- no cell in that column
    have z : ∀ sel, cnt sel (msMesh table nx ny lab) (2 * i + 1, 2 * j) = 0 := by
      intro sel; rw [red]; apply rsum_zero_of; intro k _; simp [hi]
    rw [z, z]; exact ⟨rfl, by omega⟩
  -- value of the cell term in column i
  have cell : ∀ sel y, T table lab (2 * i + 1, 2 * j) sel i y =
      if y = j then L table lab sel i j (1, 0)
      else if y + 1 = j then L table lab sel i y (1, 2) else 0 := by
    intro sel y
    show cnt sel (cellSegs table lab i y) (2 * i + 1, 2 * j) = _
    rw [cnt_cellSegs]
    by_cases e1 : y = j
    · subst e1
      have : (2 * i ≤ 2 * i + 1 ∧ 2 * i + 1 ≤ 2 * i + 2 ∧ 2 * y ≤ 2 * y ∧ 2 * y ≤ 2 * y + 2) := by omega
      rw [if_pos this]
      have e : (2 * i + 1 - 2 * i, 2 * y - 2 * y) = ((1 : Nat), (0 : Nat)) := by
        apply Prod.ext <;> simp <;> omega
      rw [e]; simp
    · by_cases e2 : y + 1 = j
      · subst e2
        have : (2 * i ≤ 2 * i + 1 ∧ 2 * i + 1 ≤ 2 * i + 2 ∧ 2 * y ≤ 2 * (y + 1) ∧ 2 * (y + 1) ≤ 2 * y + 2) := by omega
        rw [if_pos this]
        have e : (2 * i + 1 - 2 * i, 2 * (y + 1) - 2 * y) = ((1 : Nat), (2 : Nat)) := by
          apply Prod.ext <;> simp <;> omega
        rw [e]; simp
      · have : ¬ (2 * i ≤ 2 * i + 1 ∧ 2 * i + 1 ≤ 2 * i + 2 ∧ 2 * y ≤ 2 * j ∧ 2 * j ≤ 2 * y + 2) := by omega
        simp only [this, if_false, e1, e2]
  have hcfg := fun x y => cellCfg2_lt lab x y
  -- the labels of the two ends of the lattice edge are lab (i, j) and lab (i+1, j)
  cases j with
  | zero =>
    -- bottom border: only the cell above, and its bottom edge has both ends outside
    have z : ∀ sel, cnt sel (msMesh table nx ny lab) (2 * i + 1, 2 * 0) = 0 := by
      intro sel
      rw [red]
      rw [rsum_single ny 0 _ (by
        intro k _ hk
        simp only [hi, if_true]
        rw [cell]
        have : ¬ (k + 1 = 0) := by omega
        simp only [hk, this, if_false])]
      by_cases h0 : 0 < ny
      · simp only [h0, hi, if_true]
        rw [cell]; simp only [if_true]
        have hs : signChange (cellCfg2 lab i 0) (0, 1) = false := by
          unfold signChange
          rw [inside_cellCfg2 _ _ _ _ (by omega), inside_cellCfg2 _ _ _ _ (by omega)]
          rw [hb _ _ (Or.inr (Or.inl (by simp [cornerOff, bit]))), hb _ _ (Or.inr (Or.inl (by simp [cornerOff, bit])))]
          rfl
        have := (ok_row hok _ (hcfg i 0)).2 (0, 1) (by simp [squareEdges]) hs sel
        simpa [loc, bit] using this
      · simp [h0]
    rw [z, z]; exact ⟨rfl, by omega⟩
  | succ j =>
    have sup : ∀ sel, cnt sel (msMesh table nx ny lab) (2 * i + 1, 2 * (j + 1)) =
        (if j + 1 < ny then L table lab sel i (j + 1) (1, 0) else 0) +
        (if j < ny then L table lab sel i j (1, 2) else 0) := by
      intro sel
      rw [red, rsum_pair ny (j + 1) j (by omega) _ (by
        intro k _ h1 h2
        simp only [hi, if_true]
        rw [cell]
        have : ¬ (k + 1 = j + 1) := by omega
        simp only [h1, this, if_false])]
      simp only [hi, if_true]
      rw [cell, cell]
      have : ¬ (j = j + 1) := by omega
      simp [this]
    rw [sup, sup]
    by_cases h1 : j + 1 < ny
    · have h2 : j < ny := by omega
      simp only [h1, h2, if_true]
      have := ok_vpair hok (cellCfg2 lab i j) (cellCfg2 lab i (j + 1)) (hcfg _ _) (hcfg _ _)
        (by rw [inside_cellCfg2 _ _ _ _ (by omega), inside_cellCfg2 _ _ _ _ (by omega)]; simp [cornerOff, bit])
        (by rw [inside_cellCfg2 _ _ _ _ (by omega), inside_cellCfg2 _ _ _ _ (by omega)]; simp [cornerOff, bit])
      constructor
      · have := this.1; unfold L; omega
      · have := this.2; unfold L; omega
    · simp only [h1, if_false, Nat.zero_add]
      by_cases h2 : j < ny
      · -- top border: j + 1 = ny, the cell below has its top edge on the outer layer
        simp only [h2, if_true]
        have hs : signChange (cellCfg2 lab i j) (2, 3) = false := by
          unfold signChange
          rw [inside_cellCfg2 _ _ _ _ (by omega), inside_cellCfg2 _ _ _ _ (by omega)]
          rw [hb _ _ (Or.inr (Or.inr (Or.inr (by simp [cornerOff, bit]; omega)))),
            hb _ _ (Or.inr (Or.inr (Or.inr (by simp [cornerOff, bit]; omega))))]
          rfl
        have h0 := (ok_row hok _ (hcfg i j)).2 (2, 3) (by simp [squareEdges]) hs
        have e : loc (2, 3) = (1, 2) := by decide
        rw [e] at h0
        unfold L
        rw [h0 false, h0 true]; exact ⟨rfl, by omega⟩
      · simp [h2]

include hok hb in
/-- A vertex on a vertical lattice edge: `v = (2i, 2j+1)`. -/
theorem ms_vertical (i j : Nat) :
    cnt false (msMesh table nx ny lab) (2 * i, 2 * j + 1) = cnt true (msMesh table nx ny lab) (2 * i, 2 * j + 1) ∧
    cnt false (msMesh table nx ny lab) (2 * i, 2 * j + 1) ≤ 1 := by
  have red : ∀ sel, cnt sel (msMesh table nx ny lab) (2 * i, 2 * j + 1) =
      if j < ny then rsum nx fun x => T table lab (2 * i, 2 * j + 1) sel x j else 0 := by
    intro sel
    rw [cnt_msMesh]
    apply rsum_single
    intro y _ hy
    apply rsum_zero_of
    intro x _
    rw [cnt_cellSegs]
    have : ¬ (2 * x ≤ 2 * i ∧ 2 * i ≤ 2 * x + 2 ∧ 2 * y ≤ 2 * j + 1 ∧ 2 * j + 1 ≤ 2 * y + 2) := by omega
    simp only [this, if_false]
  by_cases hj : j < ny
  case neg =>
    have z : ∀ sel, cnt sel (msMesh table nx ny lab) (2 * i, 2 * j + 1) = 0 := by
      intro sel; rw [red]; simp [hj]
    rw [z, z]; exact ⟨rfl, by omega⟩
  have cell : ∀ sel x, T table lab (2 * i, 2 * j + 1) sel x j =
      if x = i then L table lab sel i j (0, 1)
      else if x + 1 = i then L table lab sel x j (2, 1) else 0 := by
    intro sel x
    show cnt sel (cellSegs table lab x j) (2 * i, 2 * j + 1) = _
    rw [cnt_cellSegs]
    by_cases e1 : x = i
    · subst e1
      have : (2 * x ≤ 2 * x ∧ 2 * x ≤ 2 * x + 2 ∧ 2 * j ≤ 2 * j + 1 ∧ 2 * j + 1 ≤ 2 * j + 2) := by omega
      rw [if_pos this]
      have e : (2 * x - 2 * x, 2 * j + 1 - 2 * j) = ((0 : Nat), (1 : Nat)) := by
        apply Prod.ext <;> simp <;> omega
      rw [e]; simp
    · by_cases e2 : x + 1 = i
      · subst e2
        have : (2 * x ≤ 2 * (x + 1) ∧ 2 * (x + 1) ≤ 2 * x + 2 ∧ 2 * j ≤ 2 * j + 1 ∧ 2 * j + 1 ≤ 2 * j + 2) := by omega
        rw [if_pos this]
        have e : (2 * (x + 1) - 2 * x, 2 * j + 1 - 2 * j) = ((2 : Nat), (1 : Nat)) := by
          apply Prod.ext <;> simp <;> omega
        rw [e]; simp
      · have : ¬ (2 * x ≤ 2 * i ∧ 2 * i ≤ 2 * x + 2 ∧ 2 * j ≤ 2 * j + 1 ∧ 2 * j + 1 ≤ 2 * j + 2) := by omega
        simp only [this, if_false, e1, e2]
  have hcfg := fun x y => cellCfg2_lt lab x y
  cases i with
  | zero =>
    have z : ∀ sel, cnt sel (msMesh table nx ny lab) (2 * 0, 2 * j + 1) = 0 := by
      intro sel
      rw [red]
      simp only [hj, if_true]
      rw [rsum_single nx 0 _ (by
        intro k _ hk
        rw [cell]
        have : ¬ (k + 1 = 0) := by omega
        simp only [hk, this, if_false])]
      by_cases h0 : 0 < nx
      · simp only [h0, if_true]
        rw [cell]; simp only [if_true]
        have hs : signChange (cellCfg2 lab 0 j) (0, 2) = false := by
          unfold signChange
          rw [inside_cellCfg2 _ _ _ _ (by omega), inside_cellCfg2 _ _ _ _ (by omega)]
          rw [hb _ _ (Or.inl (by simp [cornerOff, bit])), hb _ _ (Or.inl (by simp [cornerOff, bit]))]
          rfl
        have := (ok_row hok _ (hcfg 0 j)).2 (0, 2) (by simp [squareEdges]) hs sel
        simpa [loc, bit] using this
      · simp [h0]
    rw [z, z]; exact ⟨rfl, by omega⟩
  | succ i =>
    have sup : ∀ sel, cnt sel (msMesh table nx ny lab) (2 * (i + 1), 2 * j + 1) =
        (if i + 1 < nx then L table lab sel (i + 1) j (0, 1) else 0) +
        (if i < nx then L table lab sel i j (2, 1) else 0) := by
      intro sel
      rw [red]
      simp only [hj, if_true]
      rw [rsum_pair nx (i + 1) i (by omega) _ (by
        intro k _ h1 h2
        rw [cell]
        have : ¬ (k + 1 = i + 1) := by omega
        simp only [h1, this, if_false])]
      rw [cell, cell]
      have : ¬ (i = i + 1) := by omega
      simp [this]
    rw [sup, sup]
    by_cases h1 : i + 1 < nx
    · have h2 : i < nx := by omega
      simp only [h1, h2, if_true]
      have := ok_hpair hok (cellCfg2 lab i j) (cellCfg2 lab (i + 1) j) (hcfg _ _) (hcfg _ _)
        (by rw [inside_cellCfg2 _ _ _ _ (by omega), inside_cellCfg2 _ _ _ _ (by omega)]; simp [cornerOff, bit])
        (by rw [inside_cellCfg2 _ _ _ _ (by omega), inside_cellCfg2 _ _ _ _ (by omega)]; simp [cornerOff, bit])
      constructor
      · have := this.1; unfold L; omega
      · have := this.2; unfold L; omega
    · simp only [h1, if_false, Nat.zero_add]
      by_cases h2 : i < nx
      · simp only [h2, if_true]
        have hs : signChange (cellCfg2 lab i j) (1, 3) = false := by
          unfold signChange
          rw [inside_cellCfg2 _ _ _ _ (by omega), inside_cellCfg2 _ _ _ _ (by omega)]
          rw [hb _ _ (Or.inr (Or.inr (Or.inl (by simp [cornerOff, bit]; omega)))),
            hb _ _ (Or.inr (Or.inr (Or.inl (by simp [cornerOff, bit]; omega))))]
          rfl
        have h0 := (ok_row hok _ (hcfg i j)).2 (1, 3) (by simp [squareEdges]) hs
        have e : loc (1, 3) = (2, 1) := by decide
        rw [e] at h0
        unfold L
        rw [h0 false, h0 true]; exact ⟨rfl, by omega⟩
      · simp [h2]

include hok in
/-- Lattice points (both coordinates even) and cell centres (both odd) never carry a vertex. -/
theorem ms_no_vertex (X Y : Nat) (hpar : X % 2 = Y % 2) (sel : Bool) :
    cnt sel (msMesh table nx ny lab) (X, Y) = 0 := by
  rw [cnt_msMesh]
  apply rsum_zero_of
  intro y _
  apply rsum_zero_of
  intro x _
  rw [cnt_cellSegs]
  by_cases hbd : 2 * x ≤ X ∧ X ≤ 2 * x + 2 ∧ 2 * y ≤ Y ∧ Y ≤ 2 * y + 2
  · rw [if_pos hbd]
    have hp : (X - 2 * x, Y - 2 * y) ∈ [((0:Nat),(0:Nat)),(2,0),(0,2),(2,2),(1,1)] := by
      have h1 : X - 2 * x = 0 ∨ X - 2 * x = 1 ∨ X - 2 * x = 2 := by omega
      have h2 : Y - 2 * y = 0 ∨ Y - 2 * y = 1 ∨ Y - 2 * y = 2 := by omega
      rcases h1 with h1 | h1 | h1 <;> rcases h2 with h2 | h2 | h2 <;> rw [h1, h2] <;> simp <;> omega
    exact (ok_row hok _ (cellCfg2_lt lab x y)).1 _ hp sel
  · rw [if_neg hbd]

include hok hb in
/-- **Marching squares is watertight on every lattice**: for every labelling with an empty outer
layer and every lattice size, every point of the plane is the start of as many segments as it is
the end of, and of at most one — i.e. every mesh vertex has exactly one incoming and one outgoing
segment. -/
theorem ms_in_out_one (v : GV2) :
    cnt false (msMesh table nx ny lab) v = cnt true (msMesh table nx ny lab) v ∧
    cnt false (msMesh table nx ny lab) v ≤ 1 := by
  obtain ⟨X, Y⟩ := v
  by_cases hpar : X % 2 = Y % 2
  · rw [ms_no_vertex hok nx ny lab X Y hpar false, ms_no_vertex hok nx ny lab X Y hpar true]
    exact ⟨rfl, by omega⟩
  · by_cases hx : X % 2 = 1
    · have hy : Y % 2 = 0 := by omega
      have e1 : X = 2 * (X / 2) + 1 := by omega
      have e2 : Y = 2 * (Y / 2) := by omega
      rw [e1, e2]
      exact ms_horizontal hok nx ny lab hb (X / 2) (Y / 2)
    · have hx0 : X % 2 = 0 := by omega
      have hy : Y % 2 = 1 := by omega
      have e1 : X = 2 * (X / 2) := by omega
      have e2 : Y = 2 * (Y / 2) + 1 := by omega
      rw [e1, e2]
      exact ms_vertical hok nx ny lab hb (X / 2) (Y / 2)

end

end M3d.Marching
