import M3d.Lemmas.BoundedRectSet
/-! Helper lemmas for C03: every rect stored in a `RectSet` has `lo ≤ hi` on every axis whenever
every box of the history has (`splitRect` only cuts strictly inside a rect, `Remove` only deletes). -/
namespace M3d.RectSet
set_option linter.unusedSectionVars false
set_option linter.unusedVariables false
variable {K : Type} [LinearOrder K] [OfNat K 0]

/-- `lo ≤ hi` on every axis. -/
def Rect.Ord (r : Rect K) : Prop := ∀ ax, ax < 3 → r.lo.get ax ≤ r.hi.get ax

theorem splitRect_ord {r r1 r2 : Rect K} {ax : Nat} {v : K} (hax : ax < 3) (ho : r.Ord)
    (h : splitRect r ax v = some (r1, r2)) : r1.Ord ∧ r2.Ord := by
  obtain ⟨h1, h2, rfl, rfl⟩ := splitRect_some h
  constructor
  · intro a ha
    show r.lo.get a ≤ (r.hi.set ax v).get a
    rw [V3.get_set _ hax ha]
    split_ifs with e
    · subst e; exact le_of_lt h1
    · exact ho a ha
  · intro a ha
    show (r.lo.set ax v).get a ≤ r.hi.get a
    rw [V3.get_set _ hax ha]
    split_ifs with e
    · subst e; exact le_of_lt h2
    · exact ho a ha

theorem splitAll_ord {rects : List (Rect K)} (hn : rects.Nodup) {ax : Nat} (hax : ax < 3) (v : K)
    (ho : ∀ r ∈ rects, r.Ord) : ∀ q ∈ splitAll rects ax v, q.Ord := by
  intro q hq
  rcases (mem_splitAll hn ax v q).mp hq with ⟨h1, _⟩ | ⟨r, hr, r1, r2, hs, hq'⟩
  · exact ho q h1
  · obtain ⟨o1, o2⟩ := splitRect_ord hax (ho r hr) hs
    rcases hq' with rfl | rfl
    · exact o1
    · exact o2

theorem addSplit_ord {s : RS K} (hI : Inv s) {ax : Nat} (hax : ax < 3) (v : K)
    (ho : ∀ r ∈ s.rects, r.Ord) : ∀ q ∈ (addSplit s ax v).rects, q.Ord := by
  rw [addSplit_eq hI hax v]
  exact splitAll_ord hI.nodup hax v ho

theorem addMany_ord (l : List (Nat × K)) : ∀ {s : RS K}, Inv s → (∀ av ∈ l, av.1 < 3) →
    (∀ r ∈ s.rects, r.Ord) → ∀ q ∈ (addMany s l).rects, q.Ord := by
  induction l with
  | nil => intro s _ _ ho; exact ho
  | cons av l ih =>
    intro s hI hl ho
    have hav : av.1 < 3 := hl av List.mem_cons_self
    exact ih (inv_addSplit hI hav av.2) (fun x hx => hl x (List.mem_cons_of_mem _ hx))
      (addSplit_ord hI hav av.2 ho)

theorem addRectSplits_ord {s : RS K} (hI : Inv s) (r : Rect K) (ho : ∀ q ∈ s.rects, q.Ord) :
    ∀ q ∈ (addRectSplits s r).rects, q.Ord := by
  rw [addRectSplits_eq]
  refine addMany_ord _ hI ?_ ho
  intro av hav
  simp only [List.mem_cons, List.not_mem_nil, or_false] at hav
  rcases hav with rfl | rfl | rfl | rfl | rfl | rfl <;> simp

theorem addSplitsOf_ord {s : RS K} (hI : Inv s) (o : V3 (List K)) (ho : ∀ q ∈ s.rects, q.Ord) :
    ∀ q ∈ (addSplitsOf s o).rects, q.Ord := by
  rw [addSplitsOf_eq]
  refine addMany_ord _ hI ?_ ho
  intro av hav
  simp only [List.mem_append, List.mem_map] at hav
  rcases hav with (⟨_, _, rfl⟩ | ⟨_, _, rfl⟩) | ⟨_, _, rfl⟩ <;> simp

theorem pieces_ord {ax : Nat} (hax : ax < 3) : ∀ (vs : List K) (cur : Rect K), cur.Ord →
    ∀ q ∈ pieces ax cur vs, q.Ord := by
  intro vs
  induction vs with
  | nil => intro cur ho q hq; simp only [pieces, List.mem_singleton] at hq; subst hq; exact ho
  | cons v vs ih =>
    intro cur ho q hq
    unfold pieces at hq
    cases hs : splitRect cur ax v with
    | none => rw [hs] at hq; exact ih cur ho q hq
    | some pr =>
      obtain ⟨r1, r2⟩ := pr
      rw [hs] at hq
      obtain ⟨o1, o2⟩ := splitRect_ord hax ho hs
      rcases List.mem_cons.mp hq with rfl | hq
      · exact o1
      · exact ih r2 o2 q hq

theorem flatMap_ord {ax : Nat} (hax : ax < 3) (vs : List K) {L : List (Rect K)} (hL : ∀ q ∈ L, q.Ord) :
    ∀ q ∈ L.flatMap (fun q => splitRectAxis vs q ax), q.Ord := by
  intro q' hq'
  obtain ⟨q, hq, hq'⟩ := List.mem_flatMap.mp hq'
  rw [splitRectAxis_eq] at hq'
  exact pieces_ord hax vs q (hL q hq) q' hq'

theorem splitRectAll_ord (sp : V3 (List K)) {r : Rect K} (ho : r.Ord) : ∀ q ∈ splitRectAll sp r, q.Ord := by
  have e : splitRectAll sp r = (([r].flatMap (fun q => splitRectAxis (sp.get 0) q 0)).flatMap
      (fun q => splitRectAxis (sp.get 1) q 1)).flatMap (fun q => splitRectAxis (sp.get 2) q 2) := rfl
  rw [e]
  have h0 : ∀ q ∈ [r], q.Ord := by intro q hq; rw [List.mem_singleton] at hq; subst hq; exact ho
  exact flatMap_ord (by omega) _ (flatMap_ord (by omega) _ (flatMap_ord (by omega) _ h0))

attribute [local irreducible] addRectSplits addSplitsOf insertPieces erasePieces rebuildSplits splitRectAll

/-- every box of the history has `lo ≤ hi` -/
def Hist.BoxesOrd (h : Hist K) : Prop := ∀ r ∈ h.boxes, r.Ord

theorem hist_rects_ord (h : Hist K) : h.BoxesOrd → ∀ q ∈ h.eval.rects, q.Ord := by
  induction h with
  | new => intro _ q hq; simp [Hist.eval, RS.empty] at hq
  | add h r ih =>
    intro hb q hq
    have hb' : h.BoxesOrd := fun x hx => hb x (List.mem_cons_of_mem _ hx)
    have hr : r.Ord := hb r List.mem_cons_self
    obtain ⟨a1, _, _⟩ := addRectSplits_spec (hinv h).inv r
    have e : (Hist.add h r).eval = h.eval.add r := rfl
    rw [e, add_eq] at hq
    rcases ((mem_insertPieces _ [r] _ a1.nodup).2 q).mp hq with hq | ⟨r', hr', hq⟩
    · exact addRectSplits_ord (hinv h).inv r (ih hb') q hq
    · rw [List.mem_singleton] at hr'; subst hr'
      exact splitRectAll_ord _ hr q hq
  | remove h r ih =>
    intro hb q hq
    have hb' : h.BoxesOrd := fun x hx => hb x (List.mem_cons_of_mem _ hx)
    obtain ⟨a1, _, _⟩ := addRectSplits_spec (hinv h).inv r
    have e : (Hist.remove h r).eval = h.eval.remove r := rfl
    rw [e, remove_eq] at hq
    exact addRectSplits_ord (hinv h).inv r (ih hb') q (((mem_erasePieces _ [r] _ a1.nodup).2 q).mp hq).1
  | addSet h h1 ih ih1 =>
    intro hb q hq
    have hb' : h.BoxesOrd := fun x hx => hb x (List.mem_append_left _ hx)
    have hb1 : h1.BoxesOrd := fun x hx => hb x (List.mem_append_right _ hx)
    obtain ⟨a1, _, _⟩ := addSplitsOf_spec (hinv h).inv h1.eval.splits
    have e : (Hist.addSet h h1).eval = h.eval.addSet h1.eval := rfl
    rw [e, addSet_eq] at hq
    rcases ((mem_insertPieces _ h1.eval.rects _ a1.nodup).2 q).mp hq with hq | ⟨r', hr', hq⟩
    · exact addSplitsOf_ord (hinv h).inv _ (ih hb') q hq
    · exact splitRectAll_ord _ (ih1 hb1 r' hr') q hq
  | removeSet h h1 ih ih1 =>
    intro hb q hq
    have hb' : h.BoxesOrd := fun x hx => hb x (List.mem_append_left _ hx)
    obtain ⟨a1, _, _⟩ := addSplitsOf_spec (hinv h).inv h1.eval.splits
    have e : (Hist.removeSet h h1).eval = h.eval.removeSet h1.eval := rfl
    rw [e, removeSet_eq] at hq
    exact addSplitsOf_ord (hinv h).inv _ (ih hb') q
      (((mem_erasePieces _ h1.eval.rects _ a1.nodup).2 q).mp hq).1

end M3d.RectSet
