import Mathlib.Tactic.Set
import M3d.Lemmas.RectSetInv
/-! Helper lemmas for C04: every `RectSet` history keeps the invariant and denotes the point set
"boxes added minus boxes removed"; `newRectSetSolid` terminates and is well split. -/
namespace M3d.RectSet
set_option linter.unusedSectionVars false
set_option linter.unusedVariables false
variable {K : Type} [LinearOrder K] [OfNat K 0]

theorem add_eq (s : RS K) (r : Rect K) :
    s.add r = ⟨insertPieces (addRectSplits s r).splits [r] (addRectSplits s r).rects, (addRectSplits s r).splits⟩ := by
  simp only [RS.add, insertPieces, List.foldl_cons, List.foldl_nil]

theorem remove_eq (s : RS K) (r : Rect K) :
    s.remove r = ⟨erasePieces (addRectSplits s r).splits [r] (addRectSplits s r).rects,
      rebuildSplits (erasePieces (addRectSplits s r).splits [r] (addRectSplits s r).rects)⟩ := by
  simp only [RS.remove, erasePieces, List.foldl_cons, List.foldl_nil]

theorem addSet_eq (s s1 : RS K) :
    s.addSet s1 = ⟨insertPieces (addSplitsOf s s1.splits).splits s1.rects (addSplitsOf s s1.splits).rects,
      (addSplitsOf s s1.splits).splits⟩ := by
  simp only [RS.addSet, insertPieces]

theorem removeSet_eq (s s1 : RS K) :
    s.removeSet s1 = ⟨erasePieces (addSplitsOf s s1.splits).splits s1.rects (addSplitsOf s s1.splits).rects,
      rebuildSplits (erasePieces (addSplitsOf s s1.splits).splits s1.rects (addSplitsOf s s1.splits).rects)⟩ := by
  simp only [RS.removeSet, erasePieces]

attribute [local irreducible] addRectSplits addSplitsOf insertPieces erasePieces rebuildSplits splitRectAll

/-- `x` is a coordinate (on axis `ax`) of some box of the history. -/
def Hist.Coord (h : Hist K) (ax : Nat) (x : K) : Prop := ∃ r ∈ h.boxes, x = r.lo.get ax ∨ x = r.hi.get ax

/-- The point lies on none of the planes through the faces of the history's boxes. -/
def Hist.Generic (h : Hist K) (p : V3 K) : Prop := ∀ ax, ax < 3 → ∀ x, h.Coord ax x → p.get ax ≠ x

/-- What holds after every history. -/
structure HInv (h : Hist K) : Prop where
  inv : Inv h.eval
  coords : ∀ ax, ax < 3 → ∀ x ∈ h.eval.splits.get ax, h.Coord ax x
  sem : ∀ p, h.Generic p → h.eval.union p = h.sem p

theorem Hist.Generic.off {h : Hist K} {p : V3 K} (g : h.Generic p) {s : RS K}
    (hc : ∀ ax, ax < 3 → ∀ x ∈ s.splits.get ax, h.Coord ax x) : ∀ ax, ax < 3 → p.get ax ∉ s.splits.get ax :=
  fun ax hax hm => g ax hax _ (hc ax hax _ hm) rfl

theorem hinv (h : Hist K) : HInv h := by
  induction h with
  | new =>
    exact ⟨inv_empty, by intro ax hax x hx; match ax, hax with | 0, _ | 1, _ | 2, _ => simp [Hist.eval, RS.empty, V3.get] at hx,
      by intro p _; rfl⟩
  | add h r ih =>
    obtain ⟨a1, a2, a3⟩ := addRectSplits_spec ih.inv r
    have hR : ∀ r' ∈ [r], ∀ ax, ax < 3 → r'.lo.get ax ∈ (addRectSplits h.eval r).splits.get ax ∧
        r'.hi.get ax ∈ (addRectSplits h.eval r).splits.get ax := by
      intro r' hr' ax hax
      rw [List.mem_singleton] at hr'; subst hr'
      exact ⟨(a3 ax hax _).mpr (Or.inr (Or.inl rfl)), (a3 ax hax _).mpr (Or.inr (Or.inr rfl))⟩
    obtain ⟨b1, b2⟩ := addPieces_spec a1 [r] hR
    refine ⟨by rw [Hist.eval, add_eq]; exact b1, ?_, ?_⟩
    · intro ax hax x hx
      rw [Hist.eval, add_eq] at hx
      rcases (a3 ax hax x).mp hx with h1 | h1 | h1
      · obtain ⟨r', hr', e⟩ := ih.coords ax hax x h1
        exact ⟨r', List.mem_cons_of_mem _ hr', e⟩
      · exact ⟨r, List.mem_cons_self, Or.inl h1⟩
      · exact ⟨r, List.mem_cons_self, Or.inr h1⟩
    · intro p g
      have g' : h.Generic p := fun ax hax x ⟨r', hr', e⟩ => g ax hax x ⟨r', List.mem_cons_of_mem _ hr', e⟩
      rw [Hist.eval, add_eq, b2 p, a2 p, ih.sem p g']
      simp [Hist.sem]
  | remove h r ih =>
    obtain ⟨a1, a2, a3⟩ := addRectSplits_spec ih.inv r
    have hR : ∀ r' ∈ [r], ∀ ax, ax < 3 → r'.lo.get ax ∈ (addRectSplits h.eval r).splits.get ax ∧
        r'.hi.get ax ∈ (addRectSplits h.eval r).splits.get ax := by
      intro r' hr' ax hax
      rw [List.mem_singleton] at hr'; subst hr'
      exact ⟨(a3 ax hax _).mpr (Or.inr (Or.inl rfl)), (a3 ax hax _).mpr (Or.inr (Or.inr rfl))⟩
    obtain ⟨b1, b2, b3⟩ := removePieces_spec a1 [r] hR
    have hc1 : ∀ ax, ax < 3 → ∀ x ∈ (addRectSplits h.eval r).splits.get ax, (h.remove r).Coord ax x := by
      intro ax hax x hx
      rcases (a3 ax hax x).mp hx with h1 | h1 | h1
      · obtain ⟨r', hr', e⟩ := ih.coords ax hax x h1
        exact ⟨r', List.mem_cons_of_mem _ hr', e⟩
      · exact ⟨r, List.mem_cons_self, Or.inl h1⟩
      · exact ⟨r, List.mem_cons_self, Or.inr h1⟩
    refine ⟨by rw [Hist.eval, remove_eq]; exact b1, ?_, ?_⟩
    · intro ax hax x hx
      rw [Hist.eval, remove_eq] at hx
      exact hc1 ax hax x (b2 ax hax x hx)
    · intro p g
      have g' : h.Generic p := fun ax hax x ⟨r', hr', e⟩ => g ax hax x ⟨r', List.mem_cons_of_mem _ hr', e⟩
      rw [Hist.eval, remove_eq, b3 p (g.off hc1), a2 p, ih.sem p g']
      simp [Hist.sem]
  | addSet h h1 ih ih1 =>
    obtain ⟨a1, a2, a3⟩ := addSplitsOf_spec ih.inv h1.eval.splits
    have hR : ∀ r' ∈ h1.eval.rects, ∀ ax, ax < 3 →
        r'.lo.get ax ∈ (addSplitsOf h.eval h1.eval.splits).splits.get ax ∧
        r'.hi.get ax ∈ (addSplitsOf h.eval h1.eval.splits).splits.get ax := by
      intro r' hr' ax hax
      have := ih1.inv.ends r' hr' ax hax
      exact ⟨(a3 ax hax _).mpr (Or.inr this.1), (a3 ax hax _).mpr (Or.inr this.2)⟩
    obtain ⟨b1, b2⟩ := addPieces_spec a1 h1.eval.rects hR
    refine ⟨by rw [Hist.eval, addSet_eq]; exact b1, ?_, ?_⟩
    · intro ax hax x hx
      rw [Hist.eval, addSet_eq] at hx
      rcases (a3 ax hax x).mp hx with h2 | h2
      · obtain ⟨r', hr', e⟩ := ih.coords ax hax x h2
        exact ⟨r', List.mem_append_left _ hr', e⟩
      · obtain ⟨r', hr', e⟩ := ih1.coords ax hax x h2
        exact ⟨r', List.mem_append_right _ hr', e⟩
    · intro p g
      have g' : h.Generic p := fun ax hax x ⟨r', hr', e⟩ => g ax hax x ⟨r', List.mem_append_left _ hr', e⟩
      have g1 : h1.Generic p := fun ax hax x ⟨r', hr', e⟩ => g ax hax x ⟨r', List.mem_append_right _ hr', e⟩
      rw [Hist.eval, addSet_eq, b2 p, a2 p, ih.sem p g']
      have := ih1.sem p g1
      simp only [RS.union] at this
      rw [this]
      simp [Hist.sem]
  | removeSet h h1 ih ih1 =>
    obtain ⟨a1, a2, a3⟩ := addSplitsOf_spec ih.inv h1.eval.splits
    have hR : ∀ r' ∈ h1.eval.rects, ∀ ax, ax < 3 →
        r'.lo.get ax ∈ (addSplitsOf h.eval h1.eval.splits).splits.get ax ∧
        r'.hi.get ax ∈ (addSplitsOf h.eval h1.eval.splits).splits.get ax := by
      intro r' hr' ax hax
      have := ih1.inv.ends r' hr' ax hax
      exact ⟨(a3 ax hax _).mpr (Or.inr this.1), (a3 ax hax _).mpr (Or.inr this.2)⟩
    obtain ⟨b1, b2, b3⟩ := removePieces_spec a1 h1.eval.rects hR
    have hc1 : ∀ ax, ax < 3 → ∀ x ∈ (addSplitsOf h.eval h1.eval.splits).splits.get ax, (h.removeSet h1).Coord ax x := by
      intro ax hax x hx
      rcases (a3 ax hax x).mp hx with h2 | h2
      · obtain ⟨r', hr', e⟩ := ih.coords ax hax x h2
        exact ⟨r', List.mem_append_left _ hr', e⟩
      · obtain ⟨r', hr', e⟩ := ih1.coords ax hax x h2
        exact ⟨r', List.mem_append_right _ hr', e⟩
    refine ⟨by rw [Hist.eval, removeSet_eq]; exact b1, ?_, ?_⟩
    · intro ax hax x hx
      rw [Hist.eval, removeSet_eq] at hx
      exact hc1 ax hax x (b2 ax hax x hx)
    · intro p g
      have g' : h.Generic p := fun ax hax x ⟨r', hr', e⟩ => g ax hax x ⟨r', List.mem_append_left _ hr', e⟩
      have g1 : h1.Generic p := fun ax hax x ⟨r', hr', e⟩ => g ax hax x ⟨r', List.mem_append_right _ hr', e⟩
      rw [Hist.eval, removeSet_eq, b3 p (g.off hc1), a2 p, ih.sem p g']
      have := ih1.sem p g1
      simp only [RS.union] at this
      rw [this]
      simp [Hist.sem]

/-! ### `newRectSetSolid` terminates and is well split -/

theorem splitAxis_spec (sp : V3 (List K)) :
    (splitAxis sp).1 < 3 ∧ (splitAxis sp).2 = (sp.get (splitAxis sp).1).length := by
  simp only [splitAxis, List.foldl_cons, List.foldl_nil]
  split_ifs <;> simp <;> omega

theorem sorted_head_le {l : List K} (h : l.Pairwise (· < ·)) {x : K} (hx : x ∈ l) : l.getD 0 0 ≤ x := by
  cases l with
  | nil => cases hx
  | cons y ys =>
    simp only [List.getD_cons_zero]
    rcases List.mem_cons.mp hx with rfl | hx
    · exact le_refl _
    · exact le_of_lt ((List.pairwise_cons.mp h).1 x hx)

theorem sorted_le_last : ∀ {l : List K}, l.Pairwise (· < ·) → ∀ {x : K}, x ∈ l → x ≤ l.getD (l.length - 1) 0
  | [], _, _, hx => by cases hx
  | [y], _, x, hx => by
    rw [List.mem_singleton] at hx; subst hx; simp
  | y :: z :: zs, h, x, hx => by
    have h' := List.pairwise_cons.mp h
    have ih := fun {x : K} (hx : x ∈ z :: zs) => sorted_le_last h'.2 hx
    have e : (y :: z :: zs).getD ((y :: z :: zs).length - 1) 0 = (z :: zs).getD ((z :: zs).length - 1) 0 := by
      simp only [List.length_cons, Nat.add_sub_cancel]
      rw [List.getD_cons_succ]
    rw [e]
    rcases List.mem_cons.mp hx with rfl | hx
    · exact le_trans (le_of_lt (h'.1 z List.mem_cons_self)) (ih List.mem_cons_self)
    · exact ih hx

theorem min_get {s : RS K} (hne : s.rects ≠ []) {i : Nat} (hi : i < 3) : s.min.get i = (s.splits.get i).getD 0 0 := by
  have : s.rects.isEmpty = false := by cases h : s.rects with | nil => exact absurd h hne | cons _ _ => rfl
  unfold RS.min
  rw [this]
  match i, hi with
  | 0, _ | 1, _ | 2, _ => rfl

theorem max_get {s : RS K} (hne : s.rects ≠ []) {i : Nat} (hi : i < 3) :
    s.max.get i = (s.splits.get i).getD ((s.splits.get i).length - 1) 0 := by
  have : s.rects.isEmpty = false := by cases h : s.rects with | nil => exact absurd h hne | cons _ _ => rfl
  unfold RS.max
  rw [this]
  match i, hi with
  | 0, _ | 1, _ | 2, _ => rfl

theorem splitRectSet_parts (s : RS K) :
    (splitRectSet s).1 = ⟨s.rects.filter (fun r => decide (r.lo.get (splitRectSet s).2.2.1 < (splitRectSet s).2.2.2)),
      rebuildSplits (s.rects.filter (fun r => decide (r.lo.get (splitRectSet s).2.2.1 < (splitRectSet s).2.2.2)))⟩ ∧
    (splitRectSet s).2.1 = ⟨s.rects.filter (fun r => !decide (r.lo.get (splitRectSet s).2.2.1 < (splitRectSet s).2.2.2)),
      rebuildSplits (s.rects.filter (fun r => !decide (r.lo.get (splitRectSet s).2.2.1 < (splitRectSet s).2.2.2)))⟩ ∧
    (splitRectSet s).2.2.1 = (splitAxis s.splits).1 ∧
    (splitRectSet s).2.2.2 = (s.splits.get (splitAxis s.splits).1).getD ((splitAxis s.splits).2 / 2) 0 := by
  unfold splitRectSet
  exact ⟨rfl, rfl, rfl, rfl⟩

theorem build_spec : ∀ (fuel : Nat) (s : RS K), Inv s → s.rects.length < fuel →
    ∃ t, build fuel s = some t ∧ t.WellSplit := by
  intro fuel
  induction fuel with
  | zero => intro s _ h; omega
  | succ fuel ih =>
    intro s hI hlen
    rcases hrs : s.rects with _ | ⟨r0, _ | ⟨r0', rest⟩⟩
    · exact ⟨.empty, by unfold build; simp only [hrs], trivial⟩
    · exact ⟨.single r0, by unfold build; simp only [hrs], trivial⟩
    · have h2 : 2 ≤ s.rects.length := by rw [hrs]; simp
      rw [build_two fuel s h2]
      split_ifs with hc
      · exact ⟨.many s.rects, rfl, trivial⟩
      · obtain ⟨e1, e2, eax, ecut⟩ := splitRectSet_parts s
        obtain ⟨hax, hlenax⟩ := splitAxis_spec s.splits
        set axis := (splitRectSet s).2.2.1 with haxis
        set cutoff := (splitRectSet s).2.2.2 with hcutoff
        have hax' : axis < 3 := by rw [eax]; exact hax
        simp only [Bool.or_eq_true, not_or, List.isEmpty_iff] at hc
        have hperm := splitRectSet_rects s
        have hl := hperm.length_eq
        rw [List.length_append] at hl
        have n1 : 0 < (splitRectSet s).1.rects.length := List.length_pos_iff.mpr hc.1
        have n2 : 0 < (splitRectSet s).2.1.rects.length := List.length_pos_iff.mpr hc.2
        -- both halves satisfy the invariant again
        have sub1 : ∀ r ∈ (splitRectSet s).1.rects, r ∈ s.rects ∧ r.lo.get axis < cutoff := by
          intro r hr; rw [e1] at hr
          have := List.mem_filter.mp hr
          exact ⟨this.1, by simpa using this.2⟩
        have sub2 : ∀ r ∈ (splitRectSet s).2.1.rects, r ∈ s.rects ∧ ¬ r.lo.get axis < cutoff := by
          intro r hr; rw [e2] at hr
          have := List.mem_filter.mp hr
          exact ⟨this.1, by simpa using this.2⟩
        have I1 : Inv (splitRectSet s).1 := by
          rw [e1]; exact (inv_sub hI (hI.nodup.filter _) (fun r hr => (List.mem_filter.mp hr).1)).1
        have I2 : Inv (splitRectSet s).2.1 := by
          rw [e2]; exact (inv_sub hI (hI.nodup.filter _) (fun r hr => (List.mem_filter.mp hr).1)).1
        obtain ⟨b, hb, wb⟩ := ih _ I1 (by omega)
        obtain ⟨a, ha, wa⟩ := ih _ I2 (by omega)
        rw [hb, ha]
        refine ⟨_, rfl, wb, wa, hax', ?_, ?_, ?_⟩
        · -- the cutoff is a split value, so a rect that starts before it ends at or before it
          have hne : s.splits.get axis ≠ [] := by
            intro e
            have := (hI.ends r0 (by rw [hrs]; exact List.mem_cons_self) axis hax').1
            rw [e] at this; cases this
          have hpos : 0 < (s.splits.get axis).length := List.length_pos_iff.mpr hne
          have hcm : cutoff ∈ s.splits.get axis := by
            rw [ecut, hlenax, ← eax]
            have hlt : (s.splits.get axis).length / 2 < (s.splits.get axis).length := Nat.div_lt_self hpos (by omega)
            rw [List.getD_eq_getElem?_getD, List.getElem?_eq_getElem hlt]
            exact List.getElem_mem hlt
          intro r hr
          obtain ⟨hrs', hlt⟩ := sub1 r ((build_rects _ _ _ hb).subset hr)
          by_contra hgt
          exact hI.aligned r hrs' axis hax' cutoff hcm ⟨hlt, lt_of_not_ge hgt⟩
        · intro r hr
          exact le_of_not_gt (sub2 r ((build_rects _ _ _ ha).subset hr)).2
        · intro r hr p hcp
          have hrs' : r ∈ s.rects := by
            rcases List.mem_append.mp hr with h | h
            · exact (sub1 r ((build_rects _ _ _ hb).subset h)).1
            · exact (sub2 r ((build_rects _ _ _ ha).subset h)).1
          have hne : s.rects ≠ [] := by rw [hrs]; simp
          rw [Rect.contains_iff] at hcp ⊢
          intro i hi
          show s.min.get i ≤ p.get i ∧ p.get i ≤ s.max.get i
          rw [min_get hne hi, max_get hne hi]
          have he := hI.ends r hrs' i hi
          exact ⟨le_trans (sorted_head_le (hI.sorted i hi) he.1) (hcp i hi).1,
            le_trans (hcp i hi).2 (sorted_le_last (hI.sorted i hi) he.2)⟩

end M3d.RectSet
