import Mathlib.Data.Nat.Choose.Sum
import Mathlib.Tactic.Ring
import Mathlib.Tactic.Linarith
import M3d.Model.Curves
/-!
Helper lemmas for C17: de Casteljau's triangle on sequences, its Bernstein form, and the
correspondence with the list programs of `M3d/Model/Curves.lean`.
-/
namespace M3d.Curves
open Finset

variable {K : Type} [Field K]

/-- The control polygon as a sequence (0 beyond the end). -/
def seqOf (b : List K) : ℕ → K := fun i => b.getD i 0

/-- One interpolation round on sequences. -/
def stepS (t : K) (s : ℕ → K) : ℕ → K := fun i => s i * (1 - t) + s (i + 1) * t

/-- de Casteljau's triangle: `D t k s i` is the point `b_i^{(k)}`. -/
def D (t : K) : ℕ → (ℕ → K) → ℕ → K
  | 0, s, i => s i
  | k + 1, s, i => D t k s i * (1 - t) + D t k s (i + 1) * t

theorem D_congr (t : K) (k : ℕ) (s s' : ℕ → K) (i : ℕ)
    (h : ∀ j, i ≤ j → j ≤ i + k → s j = s' j) : D t k s i = D t k s' i := by
  induction k generalizing i with
  | zero => exact h i (le_refl _) (by omega)
  | succ k ih =>
    simp only [D]
    rw [ih i (fun j h1 h2 => h j h1 (by omega)), ih (i + 1) (fun j h1 h2 => h j (by omega) (by omega))]

theorem D_succ_step (t : K) (k : ℕ) (s : ℕ → K) (i : ℕ) :
    D t (k + 1) s i = D t k (stepS t s) i := by
  induction k generalizing i with
  | zero => simp [D, stepS]
  | succ k ih =>
    have e1 := ih i
    have e2 := ih (i + 1)
    simp only [D] at e1 e2 ⊢
    rw [← e1, ← e2]

theorem D_shift (t : K) (k : ℕ) (s : ℕ → K) (i : ℕ) :
    D t k (fun j => s (j + 1)) i = D t k s (i + 1) := by
  induction k generalizing i with
  | zero => rfl
  | succ k ih => simp only [D, ih]

/-- `D` is linear in the step: interpolating first with `t` and then building the `w`-triangle is
the `t`-interpolation of two neighbouring entries of the `w`-triangle. -/
theorem D_step (t w : K) (k : ℕ) (s : ℕ → K) (i : ℕ) :
    D w k (stepS t s) i = D w k s i * (1 - t) + D w k s (i + 1) * t := by
  induction k generalizing i with
  | zero => simp [D, stepS]
  | succ k ih => simp only [D, ih]; ring

/-! ### Bernstein form -/

/-- The Bernstein sum `Σ C(n,i) (1-t)^(n-i) t^i s_i`. -/
def bern (t : K) (n : ℕ) (s : ℕ → K) : K :=
  ∑ i ∈ range (n + 1), (n.choose i : K) * (1 - t) ^ (n - i) * t ^ i * s i

theorem bern_succ (t : K) (n : ℕ) (s : ℕ → K) : bern t (n + 1) s = bern t n (stepS t s) := by
  simp only [bern, stepS]
  set u := 1 - t
  -- right-hand side: split into the `s i` part and the `s (i+1)` part
  have hR : ∑ i ∈ range (n + 1), (n.choose i : K) * u ^ (n - i) * t ^ i * (s i * u + s (i + 1) * t)
      = (∑ i ∈ range (n + 1), (n.choose i : K) * u ^ (n - i + 1) * t ^ i * s i)
        + ∑ i ∈ range (n + 1), (n.choose i : K) * u ^ (n - i) * t ^ (i + 1) * s (i + 1) := by
    rw [← sum_add_distrib]
    apply sum_congr rfl
    intro i _
    ring
  -- left-hand side: peel off i = 0 and use Pascal's rule
  have hL : ∑ i ∈ range (n + 1 + 1), ((n + 1).choose i : K) * u ^ (n + 1 - i) * t ^ i * s i
      = (∑ i ∈ range (n + 1), (n.choose i : K) * u ^ (n - i) * t ^ (i + 1) * s (i + 1))
        + ((∑ i ∈ range (n + 1), (n.choose (i + 1) : K) * u ^ (n - i) * t ^ (i + 1) * s (i + 1))
          + u ^ (n + 1) * s 0) := by
    rw [sum_range_succ', ← add_assoc, ← sum_add_distrib]
    congr 1
    · apply sum_congr rfl
      intro i _
      rw [Nat.choose_succ_succ, Nat.add_sub_add_right]
      push_cast
      ring
    · simp
  -- the `s i` part of the right-hand side, peeled at i = 0 / at i = n
  have hA : ∑ i ∈ range (n + 1), (n.choose i : K) * u ^ (n - i + 1) * t ^ i * s i
      = (∑ i ∈ range (n + 1), (n.choose (i + 1) : K) * u ^ (n - i) * t ^ (i + 1) * s (i + 1))
        + u ^ (n + 1) * s 0 := by
    rw [sum_range_succ' (fun i => (n.choose i : K) * u ^ (n - i + 1) * t ^ i * s i)]
    rw [sum_range_succ (fun i => (n.choose (i + 1) : K) * u ^ (n - i) * t ^ (i + 1) * s (i + 1))]
    rw [Nat.choose_succ_self]
    simp only [Nat.cast_zero, zero_mul, add_zero, Nat.choose_zero_right, Nat.cast_one, one_mul,
      pow_zero, mul_one, Nat.sub_zero]
    congr 1
    apply sum_congr rfl
    intro i hi
    have : i < n := mem_range.mp hi
    have e : n - (i + 1) + 1 = n - i := by omega
    rw [e]
  rw [hL, hR, hA]
  ring

theorem D_eq_bern (t : K) (n : ℕ) (s : ℕ → K) : D t n s 0 = bern t n s := by
  induction n generalizing s with
  | zero => simp [D, bern]
  | succ n ih => rw [D_succ_step, ih, bern_succ]

/-! ### lists versus sequences -/

theorem length_dcStep (t : K) (b : List K) : (dcStep t b).length = b.length - 1 := by
  induction b with
  | nil => rfl
  | cons a as ih =>
    cases as with
    | nil => rfl
    | cons a' as' => simp only [dcStep, List.length_cons, ih]; omega

theorem getD_dcStep (t : K) (b : List K) (i : ℕ) (h : i + 1 < b.length) :
    (dcStep t b).getD i 0 = b.getD i 0 * (1 - t) + b.getD (i + 1) 0 * t := by
  induction b generalizing i with
  | nil => simp at h
  | cons a as ih =>
    cases as with
    | nil => simp at h
    | cons a' as' =>
      cases i with
      | zero => simp [dcStep]
      | succ i =>
        simp only [dcStep, List.getD_cons_succ]
        have := ih i (by simpa using h)
        simp only [List.getD_cons_succ] at this
        exact this

theorem length_iter_dcStep (t : K) (k : ℕ) (b : List K) :
    (iter (dcStep t) k b).length = b.length - k := by
  induction k generalizing b with
  | zero => rfl
  | succ k ih => simp only [iter, ih, length_dcStep]; omega

theorem getD_iter_dcStep (t : K) (k : ℕ) (b : List K) (i : ℕ) (h : i + k < b.length) :
    (iter (dcStep t) k b).getD i 0 = D t k (seqOf b) i := by
  induction k generalizing b i with
  | zero => rfl
  | succ k ih =>
    simp only [iter]
    rw [ih (dcStep t b) i (by rw [length_dcStep]; omega), D_succ_step]
    apply D_congr
    intro j _ hj
    simp only [seqOf, stepS]
    exact getD_dcStep t b j (by omega)

theorem headD_eq_getD (l : List K) : l.headD 0 = l.getD 0 0 := by cases l <;> rfl

/-- The list program `deCasteljau` computes the apex of the triangle. -/
theorem deCasteljau_eq_D (b : List K) (t : K) (h : b ≠ []) :
    deCasteljau b t = D t (b.length - 1) (seqOf b) 0 := by
  have hl : 0 < b.length := List.length_pos_of_ne_nil h
  simp only [deCasteljau]
  push_cast
  rw [headD_eq_getD, getD_iter_dcStep t (b.length - 1) b 0 (by omega)]

theorem seqOf_tail (b : List K) : seqOf b.tail = fun j => seqOf b (j + 1) := by
  funext j
  cases b with
  | nil => simp [seqOf]
  | cons a as => simp [seqOf]

theorem seqOf_dropLast (b : List K) (j : ℕ) (h : j + 1 < b.length) :
    seqOf b.dropLast j = seqOf b j := by
  simp only [seqOf]
  induction b generalizing j with
  | nil => simp at h
  | cons a as ih =>
    cases as with
    | nil => simp at h
    | cons a' as' =>
      cases j with
      | zero => simp [List.dropLast]
      | succ j =>
        simp only [List.dropLast, List.getD_cons_succ]
        exact ih j (by simpa using h)

/-- The textbook recurrence: the curve of `b₀…bₙ` is the interpolation of the curves of
`b₀…bₙ₋₁` and `b₁…bₙ` (this is what the recursive fallback of `BezierCurve.Eval` computes). -/
theorem deCasteljau_rec (b : List K) (t : K) (h : 2 ≤ b.length) :
    deCasteljau b t = deCasteljau b.dropLast t * (1 - t) + deCasteljau b.tail t * t := by
  have hb : b ≠ [] := by intro e; simp [e] at h
  have hd : b.dropLast ≠ [] := by
    intro e; have := congrArg List.length e; simp only [List.length_dropLast, List.length_nil] at this; omega
  have ht : b.tail ≠ [] := by
    intro e; have := congrArg List.length e; simp only [List.length_tail, List.length_nil] at this; omega
  rw [deCasteljau_eq_D b t hb, deCasteljau_eq_D _ t hd, deCasteljau_eq_D _ t ht]
  simp only [List.length_dropLast, List.length_tail]
  obtain ⟨n, hn⟩ : ∃ n, b.length = n + 2 := ⟨b.length - 2, by omega⟩
  simp only [hn, show n + 2 - 1 = n + 1 from rfl, show n + 1 - 1 = n from rfl]
  simp only [D]
  congr 2
  · apply D_congr
    intro j _ hj
    exact (seqOf_dropLast b j (by omega)).symm
  · rw [seqOf_tail, D_shift]

/-! ### the table branch (`recursiveBezierFast`) -/

theorem fastAux_spec (t : K) (bs : List K) (cs : List ℕ) (tProd : K) :
    (fastAux t bs cs tProd).1 =
        ∑ j ∈ range bs.length,
          ((cs.getD j 0 : ℕ) : K) * (1 - t) ^ (bs.length - 1 - j) * (tProd * t ^ j) * bs.getD j 0 ∧
      (fastAux t bs cs tProd).2 = (1 - t) ^ bs.length := by
  induction bs generalizing cs tProd with
  | nil => simp [fastAux]
  | cons bi bs ih =>
    obtain ⟨h1, h2⟩ := ih cs.tail (tProd * t)
    simp only [fastAux, List.length_cons]
    push_cast at h1 h2 ⊢
    constructor
    · rw [h1, h2, sum_range_succ']
      simp only [List.getD_cons_succ, List.getD_cons_zero, pow_zero, mul_one, Nat.sub_zero]
      congr 1
      · apply sum_congr rfl
        intro j _
        have e : (cs.tail).getD j 0 = cs.getD (j + 1) 0 := by
          cases cs <;> simp
        have e2 : bs.length - (j + 1) = bs.length - 1 - j := by omega
        rw [e, e2]
        ring
      · have e : cs.headD 0 = cs.getD 0 0 := by cases cs <;> rfl
        rw [e]; ring
    · rw [h2]; ring

/-- What the regenerated table has to satisfy: row `r` has `r+2` entries, the binomial
coefficients of degree `r+1`. -/
def TableOK (tbl : List (List ℕ)) : Prop :=
  ∀ r, r < tbl.length → ∀ i, i ≤ r + 1 → (tbl.getD r []).getD i 0 = (r + 1).choose i

theorem fast_eq_bern (tbl : List (List ℕ)) (htbl : TableOK tbl) (b : List K) (t : K)
    (h2 : 2 ≤ b.length) (hlt : b.length - 2 < tbl.length) :
    (fastAux t b (tbl.getD (b.length - 2) []) 1).1 = bern t (b.length - 1) (seqOf b) := by
  obtain ⟨n, hn⟩ : ∃ n, b.length = n + 2 := ⟨b.length - 2, by omega⟩
  rw [(fastAux_spec t b _ 1).1, bern, hn]
  simp only [Nat.add_sub_cancel, show n + 2 - 1 = n + 1 from rfl]
  apply sum_congr rfl
  intro j hj
  have hj' : j ≤ n + 1 := by have := mem_range.mp hj; omega
  rw [htbl n (by rw [hn] at hlt; simpa using hlt) j hj']
  simp only [seqOf]
  ring

end M3d.Curves
