import M3d.Lemmas.MsLift
/-! The global in/out theorem for marching squares (continued). Core-only. -/
namespace M3d.Marching

theorem cellCfg2_lt (lab : Nat → Nat → Bool) (x y : Nat) : cellCfg2 lab x y < 16 := by
  unfold cellCfg2
  have : List.range 4 = [0, 1, 2, 3] := by decide
  rw [this]
  simp only [List.foldl]
  cases lab (x + cornerOff 0 0) (y + cornerOff 0 1) <;> cases lab (x + cornerOff 1 0) (y + cornerOff 1 1) <;>
    cases lab (x + cornerOff 2 0) (y + cornerOff 2 1) <;> cases lab (x + cornerOff 3 0) (y + cornerOff 3 1) <;> simp

theorem inside_cellCfg2 (lab : Nat → Nat → Bool) (x y c : Nat) (hc : c < 4) :
    inside (cellCfg2 lab x y) c = lab (x + cornerOff c 0) (y + cornerOff c 1) := by
  unfold cellCfg2 inside
  have : List.range 4 = [0, 1, 2, 3] := by decide
  rw [this]
  simp only [List.foldl]
  have hc' : c = 0 ∨ c = 1 ∨ c = 2 ∨ c = 3 := by omega
  rcases hc' with h | h | h | h <;> subst h <;>
  cases lab (x + cornerOff 0 0) (y + cornerOff 0 1) <;> cases lab (x + cornerOff 1 0) (y + cornerOff 1 1) <;>
    cases lab (x + cornerOff 2 0) (y + cornerOff 2 1) <;> cases lab (x + cornerOff 3 0) (y + cornerOff 3 1) <;>
    simp <;> decide

/-- The facts about single rows and pairs of rows that the lift needs (decidable; discharged by the
kernel for the regenerated table in Props/C01). -/
def msLocalOk (table : List (List (List Nat))) : Bool :=
  (List.range 16).all fun c =>
    let row := getRow table c
    -- corners and centre of a cell never carry a vertex
    ([(0,0),(2,0),(0,2),(2,2),(1,1)].all fun p => locCnt false row p == 0 && locCnt true row p == 0) &&
    -- nothing on an edge whose ends are labelled alike
    (squareEdges.all fun e =>
      signChange c e || (locCnt false row (loc e) == 0 && locCnt true row (loc e) == 0)) &&
    (List.range 16).all fun c2 =>
      let row2 := getRow table c2
      -- c below, c2 above, sharing c's top edge (corners 2,3) = c2's bottom edge (corners 0,1)
      ((inside c 2 != inside c2 0 || inside c 3 != inside c2 1) ||
        (locCnt false row (1,2) + locCnt false row2 (1,0) == locCnt true row (1,2) + locCnt true row2 (1,0) &&
         decide (locCnt false row (1,2) + locCnt false row2 (1,0) ≤ 1))) &&
      -- c left, c2 right, sharing c's right edge (corners 1,3) = c2's left edge (corners 0,2)
      ((inside c 1 != inside c2 0 || inside c 3 != inside c2 2) ||
        (locCnt false row (2,1) + locCnt false row2 (0,1) == locCnt true row (2,1) + locCnt true row2 (0,1) &&
         decide (locCnt false row (2,1) + locCnt false row2 (0,1) ≤ 1)))

section
variable {table : List (List (List Nat))} (hok : msLocalOk table = true)
include hok

theorem ok_row (c : Nat) (hc : c < 16) :
    (∀ p ∈ [((0:Nat),(0:Nat)),(2,0),(0,2),(2,2),(1,1)], ∀ sel, locCnt sel (getRow table c) p = 0) ∧
    (∀ e ∈ squareEdges, signChange c e = false → ∀ sel, locCnt sel (getRow table c) (loc e) = 0) := by
  have h := List.all_eq_true.1 hok c (List.mem_range.2 hc)
  simp only [Bool.and_eq_true] at h
  obtain ⟨⟨h0, h3⟩, _⟩ := h
  constructor
  · intro p hp sel
    have := List.all_eq_true.1 h0 p hp
    simp only [Bool.and_eq_true, beq_iff_eq] at this
    cases sel <;> simp [this.1, this.2]
  · intro e he hs sel
    have := List.all_eq_true.1 h3 e he
    simp only [hs, Bool.false_or, Bool.and_eq_true, beq_iff_eq] at this
    cases sel <;> simp [this.1, this.2]

theorem ok_vpair (c c2 : Nat) (hc : c < 16) (hc2 : c2 < 16)
    (h2 : inside c 2 = inside c2 0) (h3 : inside c 3 = inside c2 1) :
    locCnt false (getRow table c) (1,2) + locCnt false (getRow table c2) (1,0) =
      locCnt true (getRow table c) (1,2) + locCnt true (getRow table c2) (1,0) ∧
    locCnt false (getRow table c) (1,2) + locCnt false (getRow table c2) (1,0) ≤ 1 := by
  have h := List.all_eq_true.1 hok c (List.mem_range.2 hc)
  simp only [Bool.and_eq_true] at h
  have hp := List.all_eq_true.1 h.2 c2 (List.mem_range.2 hc2)
  simp only [Bool.and_eq_true] at hp
  have := hp.1
  simp only [h2, h3, bne_self_eq_false, Bool.or_self, Bool.false_or, Bool.and_eq_true, beq_iff_eq,
    decide_eq_true_eq] at this
  exact this

theorem ok_hpair (c c2 : Nat) (hc : c < 16) (hc2 : c2 < 16)
    (h1 : inside c 1 = inside c2 0) (h3 : inside c 3 = inside c2 2) :
    locCnt false (getRow table c) (2,1) + locCnt false (getRow table c2) (0,1) =
      locCnt true (getRow table c) (2,1) + locCnt true (getRow table c2) (0,1) ∧
    locCnt false (getRow table c) (2,1) + locCnt false (getRow table c2) (0,1) ≤ 1 := by
  have h := List.all_eq_true.1 hok c (List.mem_range.2 hc)
  simp only [Bool.and_eq_true] at h
  have hp := List.all_eq_true.1 h.2 c2 (List.mem_range.2 hc2)
  simp only [Bool.and_eq_true] at hp
  have := hp.2
  simp only [h1, h3, bne_self_eq_false, Bool.or_self, Bool.false_or, Bool.and_eq_true, beq_iff_eq,
    decide_eq_true_eq] at this
  exact this

end

end M3d.Marching
