import M3d.Lemmas.CodecPly
/-! Decimal integer text (`strconv.FormatInt/FormatUint` ↔ `ParseInt/ParseUint`): the modelled functions
round-trip, so the `TextOK` hypothesis of the ASCII PLY theorems reduces to Go's *float* text only. -/
namespace M3d.Codec

def isDigitByte (b : UInt8) : Prop := 48 ≤ b ∧ b ≤ 57

/-- one step of `parseDigits` -/
def pdStep (acc : Option Nat) (b : UInt8) : Option Nat :=
  acc.bind fun a => if 48 ≤ b ∧ b ≤ 57 then some (a * 10 + (b.toNat - 48)) else none

theorem parseDigits_eq (bs : Bytes) (h : bs ≠ []) : parseDigits bs = bs.foldl pdStep (some 0) := by
  cases bs with
  | nil => exact absurd rfl h
  | cons b t => rfl

theorem digitByte_facts : ∀ d, d < 10 →
    isDigitByte (digitByte d) ∧ (digitByte d).toNat - 48 = d ∧ safeByte (digitByte d) = true := by
  have h : (List.range 10).all (fun d =>
      decide (48 ≤ digitByte d ∧ digitByte d ≤ 57) && decide ((digitByte d).toNat - 48 = d) && safeByte (digitByte d)) = true := by
    decide
  intro d hd
  have := List.all_eq_true.mp h d (List.mem_range.mpr hd)
  simp only [Bool.and_eq_true, decide_eq_true_eq] at this
  exact ⟨this.1.1, this.1.2, this.2⟩

theorem pdStep_digit (a d : Nat) (hd : d < 10) : pdStep (some a) (digitByte d) = some (a * 10 + d) := by
  obtain ⟨h1, h2, _⟩ := digitByte_facts d hd
  unfold pdStep
  simp only [Option.bind_some]
  rw [if_pos (show 48 ≤ digitByte d ∧ digitByte d ≤ 57 from h1), h2]

theorem natDigitsAux_foldl (fuel n : Nat) (acc : Bytes) (h : n < fuel) :
    (natDigitsAux fuel n acc).foldl pdStep (some 0) = acc.foldl pdStep (some n) := by
  induction fuel generalizing n acc with
  | zero => omega
  | succ fuel ih =>
    unfold natDigitsAux
    split
    · next hlt =>
      rw [List.foldl_cons, pdStep_digit 0 n hlt]
      simp
    · next hge =>
      rw [ih (n / 10) _ (by omega), List.foldl_cons, pdStep_digit (n / 10) (n % 10) (Nat.mod_lt _ (by decide))]
      congr 2
      omega

theorem natDigitsAux_mem (fuel n : Nat) (acc : Bytes) :
    ∀ b ∈ natDigitsAux fuel n acc, (isDigitByte b ∧ safeByte b = true) ∨ b ∈ acc := by
  induction fuel generalizing n acc with
  | zero => intro b hb; exact Or.inr (by simpa [natDigitsAux] using hb)
  | succ fuel ih =>
    intro b hb
    unfold natDigitsAux at hb
    split at hb
    · next hlt =>
      rcases List.mem_cons.mp hb with rfl | hb
      · exact Or.inl ⟨(digitByte_facts n hlt).1, (digitByte_facts n hlt).2.2⟩
      · exact Or.inr hb
    · rcases ih _ _ b hb with h | h
      · exact Or.inl h
      · rcases List.mem_cons.mp h with rfl | h
        · have := digitByte_facts (n % 10) (Nat.mod_lt _ (by decide))
          exact Or.inl ⟨this.1, this.2.2⟩
        · exact Or.inr h

theorem natDigitsAux_ne_nil (fuel n : Nat) (acc : Bytes) (h : acc ≠ [] ∨ 0 < fuel) : natDigitsAux fuel n acc ≠ [] := by
  induction fuel generalizing n acc with
  | zero =>
    rcases h with h | h
    · simpa [natDigitsAux] using h
    · omega
  | succ fuel ih =>
    unfold natDigitsAux
    split
    · simp
    · exact ih _ _ (Or.inl (by simp))

theorem fmtNat_ne_nil (n : Nat) : fmtNat n ≠ [] := natDigitsAux_ne_nil _ _ _ (Or.inr (by omega))

theorem fmtNat_digits (n : Nat) : ∀ b ∈ fmtNat n, isDigitByte b ∧ safeByte b = true := by
  intro b hb
  rcases natDigitsAux_mem _ _ _ b hb with h | h
  · exact h
  · simp at h

/-- `ParseUint(FormatUint(n)) = n` on the digit level -/
theorem parseDigits_fmtNat (n : Nat) : parseDigits (fmtNat n) = some n := by
  rw [parseDigits_eq _ (fmtNat_ne_nil n)]
  unfold fmtNat
  rw [natDigitsAux_foldl _ _ _ (by omega)]
  rfl

theorem parseUintN_fmtNat (bits n : Nat) (h : n < 2 ^ bits) : parseUintN bits (fmtNat n) = some n := by
  unfold parseUintN
  rw [parseDigits_fmtNat]
  simp [h]

/-- `ParseInt(FormatInt(i), 10, bits) = i` for every `i` representable at `bits` bits -/
theorem parseIntN_fmtInt (bits : Nat) (i : Int) (hlo : -(2 ^ (bits - 1) : Nat) ≤ i) (hhi : i < (2 ^ (bits - 1) : Nat)) :
    parseIntN bits (fmtInt i) = some i := by
  unfold fmtInt parseIntN
  generalize 2 ^ (bits - 1) = m at *
  by_cases hneg : i < 0
  · simp only [hneg, if_true, parseDigits_fmtNat]
    have : i.natAbs ≤ m := by omega
    simp only [this, if_true]
    congr 1
    omega
  · simp only [hneg, if_false]
    cases hs : fmtNat i.natAbs with
    | nil => exact absurd hs (fmtNat_ne_nil _)
    | cons c rest =>
      have hc := (fmtNat_digits i.natAbs c (by rw [hs]; exact List.mem_cons_self)).1
      have h45 : c ≠ 45 := by
        intro h; subst h; revert hc; unfold isDigitByte; decide
      have h43 : c ≠ 43 := by
        intro h; subst h; revert hc; unfold isDigitByte; decide
      simp only [h45, h43, if_false]
      rw [← hs, parseDigits_fmtNat]
      have : i.natAbs < m := by omega
      simp only [this, if_true]
      have hi : 0 ≤ i := by omega
      rw [Int.natAbs_of_nonneg hi]
      simp

theorem toBits_ofBits (size n : Nat) (h : n < 256 ^ size) (hs : 0 < size) :
    toBitsSigned size (ofBitsSigned size n) = n := by
  unfold toBitsSigned ofBitsSigned
  have hpos : 0 < 256 ^ size := Nat.pow_pos (by decide)
  generalize 256 ^ size = M at *
  by_cases hlt : n < M / 2
  · simp only [hlt, if_true]
    rw [Int.emod_eq_of_lt (by omega) (by omega)]
    simp
  · simp only [hlt, if_false]
    have : ((n : Int) - (M : Int)) % (M : Int) = (n : Int) := by
      rw [Int.sub_emod, Int.emod_self, Int.sub_zero, Int.emod_emod_of_dvd _ (Int.dvd_refl _),
        Int.emod_eq_of_lt (by omega) (by omega)]
    rw [this]
    simp


theorem pow256 (size : Nat) (hs : 0 < size) : 256 ^ size = 2 * 2 ^ (8 * size - 1) := by
  have h1 : (256 : Nat) = 2 ^ 8 := by decide
  have h2 : 8 * size = (8 * size - 1) + 1 := by omega
  rw [h1, ← Nat.pow_mul]
  conv => lhs; rw [h2, Nat.pow_succ]
  omega

theorem ofBitsSigned_range (size n : Nat) (hs : 0 < size) (h : n < 256 ^ size) :
    -((2 ^ (8 * size - 1) : Nat) : Int) ≤ ofBitsSigned size n ∧ ofBitsSigned size n < ((2 ^ (8 * size - 1) : Nat) : Int) := by
  unfold ofBitsSigned
  have hp := pow256 size hs
  generalize 2 ^ (8 * size - 1) = m at *
  generalize 256 ^ size = M at *
  subst hp
  split <;> omega

theorem fmtNat_bytes (n : Nat) : fmtNat n ≠ [] ∧ ∀ b ∈ fmtNat n, isDigitByte b ∧ safeByte b = true :=
  ⟨fmtNat_ne_nil n, fmtNat_digits n⟩

theorem fmtInt_bytes (i : Int) : fmtInt i ≠ [] ∧ ∀ b ∈ fmtInt i, (b = 45 ∨ isDigitByte b) ∧ safeByte b = true := by
  unfold fmtInt
  split
  · refine ⟨by simp, ?_⟩
    intro b hb
    rcases List.mem_cons.mp hb with rfl | hb
    · exact ⟨Or.inl rfl, by decide⟩
    · exact ⟨Or.inr (fmtNat_digits _ b hb).1, (fmtNat_digits _ b hb).2⟩
  · exact ⟨fmtNat_ne_nil _, fun b hb => ⟨Or.inr (fmtNat_digits _ b hb).1, (fmtNat_digits _ b hb).2⟩⟩

theorem not_comment_of_bytes (t : Bytes) (h : ∀ b ∈ t, b = 45 ∨ isDigitByte b) : t ≠ tokComment := by
  intro ht
  have : (99 : UInt8) ∈ t := by rw [ht]; decide
  rcases h 99 this with h | h
  · exact absurd h (by decide)
  · revert h; unfold isDigitByte; decide

/-- **Integer text needs no hypothesis**: for every integer kind, the text `EncodeString` writes is a
token, is not `comment`, and `Parse` reads the value back — whatever the float oracle is. -/
theorem int_text_ok (ft : FloatText) (s : Scalar) (hw : s.WF) (hk : s.kind.isFloat = false) :
    parseScalar ft s.kind (scalarText ft s) = some s ∧ IsToken (scalarText ft s) ∧ scalarText ft s ≠ tokComment := by
  obtain ⟨k, bits⟩ := s
  have hs := Kind.size_pos k
  unfold Scalar.WF at hw
  simp only at hw hk
  cases hsg : k.signed with
  | true =>
    have htext : scalarText ft ⟨k, bits⟩ = fmtInt (ofBitsSigned k.size bits) := by
      cases k <;> simp_all [scalarText, Kind.signed, Kind.isFloat]
    have hparse : ∀ tok, parseScalar ft k tok = (parseIntN (8 * k.size) tok).map fun i => ⟨k, toBitsSigned k.size i⟩ := by
      intro tok; cases k <;> simp_all [parseScalar, Kind.signed, Kind.isFloat]
    obtain ⟨hlo, hhi⟩ := ofBitsSigned_range k.size bits hs hw
    obtain ⟨hne, hb⟩ := fmtInt_bytes (ofBitsSigned k.size bits)
    refine ⟨?_, ?_, ?_⟩
    · rw [htext, hparse, parseIntN_fmtInt _ _ hlo hhi]
      simp [toBits_ofBits k.size bits hw hs]
    · rw [htext]; exact ⟨hne, fun b h => (hb b h).2⟩
    · rw [htext]; exact not_comment_of_bytes _ (fun b h => (hb b h).1)
  | false =>
    have htext : scalarText ft ⟨k, bits⟩ = fmtNat bits := by
      cases k <;> simp_all [scalarText, Kind.signed, Kind.isFloat]
    have hparse : ∀ tok, parseScalar ft k tok = (parseUintN (8 * k.size) tok).map fun n => ⟨k, n⟩ := by
      intro tok; cases k <;> simp_all [parseScalar, Kind.signed, Kind.isFloat]
    have hpow : 256 ^ k.size = 2 ^ (8 * k.size) := by
      have h1 : (256 : Nat) = 2 ^ 8 := by decide
      rw [h1, ← Nat.pow_mul]
    obtain ⟨hne, hb⟩ := fmtNat_bytes bits
    refine ⟨?_, ?_, ?_⟩
    · rw [htext, hparse, parseUintN_fmtNat _ _ (by rw [← hpow]; exact hw)]
      rfl
    · rw [htext]; exact ⟨hne, fun b h => (hb b h).2⟩
    · rw [htext]; exact not_comment_of_bytes _ (fun b h => Or.inr (hb b h).1)

/-- what remains to be assumed of Go's `strconv`: the float text law, on float32/float64 values only -/
structure FloatTextOK (ft : FloatText) : Prop where
  parse32 : ∀ b, b < 256 ^ 4 → ft.parse32 (ft.fmt32 b) = some b
  parse64 : ∀ b, b < 256 ^ 8 → ft.parse64 (ft.fmt64 b) = some b
  token32 : ∀ b, b < 256 ^ 4 → IsToken (ft.fmt32 b) ∧ ft.fmt32 b ≠ tokComment
  token64 : ∀ b, b < 256 ^ 8 → IsToken (ft.fmt64 b) ∧ ft.fmt64 b ≠ tokComment

/-- `TextOK` follows from the float law alone. -/
theorem textOK_of_floats {ft : FloatText} (h : FloatTextOK ft) : TextOK ft := by
  have key : ∀ s : Scalar, s.WF →
      parseScalar ft s.kind (scalarText ft s) = some s ∧ IsToken (scalarText ft s) ∧ scalarText ft s ≠ tokComment := by
    intro s hw
    cases hf : s.kind.isFloat with
    | false => exact int_text_ok ft s hw hf
    | true =>
      obtain ⟨k, bits⟩ := s
      unfold Scalar.WF at hw
      cases k <;> simp [Kind.isFloat] at hf
      · have hw' : bits < 256 ^ 4 := hw
        exact ⟨by simp [parseScalar, scalarText, h.parse32 bits hw'], by simpa [scalarText] using (h.token32 bits hw').1,
          by simpa [scalarText] using (h.token32 bits hw').2⟩
      · have hw' : bits < 256 ^ 8 := hw
        exact ⟨by simp [parseScalar, scalarText, h.parse64 bits hw'], by simpa [scalarText] using (h.token64 bits hw').1,
          by simpa [scalarText] using (h.token64 bits hw').2⟩
  exact ⟨fun s hw => (key s hw).1, fun s hw => (key s hw).2.1, fun s hw => (key s hw).2.2⟩

end M3d.Codec
