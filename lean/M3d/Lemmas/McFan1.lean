import M3d.Model.McFan
import M3d.Lemmas.McLift2
/-!
The fan lift for marching cubes, part 1: what ONE cell contributes to the link of a global position `V`
— the placed fan arcs of the cube edge sitting at `V` (nothing if `V` is not in the cell's box).
-/
namespace M3d.Marching

/-- the cube edge whose midpoint has local doubled position `p` (a dummy that is no cube edge otherwise) -/
def vtxAt (p : P3) : Vtx := (cubeEdges.find? (fun e => loc3 e == p)).getD (9, 9)

theorem vtxAt_loc3 : ∀ e ∈ cubeEdges, vtxAt (loc3 e) = e := by decide

theorem dummy_not_edge : ((9, 9) : Vtx) ∉ cubeEdges := by decide

theorem loc3_eq_iff {e : Vtx} (he : e ∈ cubeEdges) (p : P3) : loc3 e = p ↔ e = vtxAt p := by
  constructor
  · intro h; rw [← h, vtxAt_loc3 e he]
  · intro h
    unfold vtxAt at h
    cases hf : cubeEdges.find? (fun e => loc3 e == p) with
    | none =>
      rw [hf] at h
      simp only [Option.getD_none] at h
      exact absurd (h ▸ he) dummy_not_edge
    | some e' =>
      rw [hf] at h
      simp only [Option.getD_some] at h
      have := List.find?_some hf
      rw [h]
      simpa using this

theorem mkVtx_mem_cubeEdges : ∀ a b : Fin 8, isCubeEdge a.val b.val = true → mkVtx a.val b.val ∈ cubeEdges := by
  decide

theorem mkVtx_mem (a b : Nat) (h : isCubeEdge a b = true) : mkVtx a b ∈ cubeEdges := by
  have h' := h
  simp only [isCubeEdge, Bool.and_eq_true, decide_eq_true_eq] at h'
  exact mkVtx_mem_cubeEdges ⟨a, h'.1.1⟩ ⟨b, h'.1.2⟩ h

/-- every vertex of every triangle of a well-formed row is one of the twelve cube edges -/
theorem rowTris_verts {cfg : Nat} {row : List (List Nat)} (hwf : rowWellFormed cfg row = true)
    {t : Tri} (ht : t ∈ rowTris row) :
    t.1 ∈ cubeEdges ∧ t.2.1 ∈ cubeEdges ∧ t.2.2 ∈ cubeEdges ∧
    signChange cfg t.1 = true ∧ signChange cfg t.2.1 = true ∧ signChange cfg t.2.2 = true ∧
    t.1 ≠ t.2.1 ∧ t.2.1 ≠ t.2.2 ∧ t.1 ≠ t.2.2 := by
  unfold rowWellFormed at hwf
  simp only [Bool.and_eq_true] at hwf
  unfold rowTris at ht
  obtain ⟨r, hr, hrt⟩ := List.mem_filterMap.1 ht
  have hall := List.all_eq_true.1 hwf.1 r hr
  rcases r with _ | ⟨a0, _ | ⟨a1, _ | ⟨b0, _ | ⟨b1, _ | ⟨c0, _ | ⟨c1, _ | ⟨d, r⟩⟩⟩⟩⟩⟩⟩ <;>
    simp only [triVerts, reduceCtorEq] at hrt
  simp only [Option.some.injEq] at hrt
  subst hrt
  simp only [Bool.and_eq_true, bne_iff_ne, ne_eq] at hall
  obtain ⟨⟨⟨⟨⟨⟨⟨⟨e1, e2⟩, e3⟩, s1⟩, s2⟩, s3⟩, n1⟩, n2⟩, n3⟩ := hall
  have sc : ∀ a b, signChange cfg (a, b) = true → signChange cfg (mkVtx a b) = true := by
    intro a b h
    unfold mkVtx
    by_cases hab : a ≤ b
    · simpa [hab] using h
    · simp only [hab, if_false]
      unfold signChange at h ⊢
      simp only [bne_iff_ne, ne_eq] at h ⊢
      exact fun e => h e.symm
  exact ⟨mkVtx_mem _ _ e1, mkVtx_mem _ _ e2, mkVtx_mem _ _ e3, sc _ _ s1, sc _ _ s2, sc _ _ s3, n1, n2, n3⟩

theorem filterMap_congr_mem {α β : Type} {f g : α → Option β} {l : List α} (h : ∀ x ∈ l, f x = g x) :
    l.filterMap f = l.filterMap g := by
  induction l with
  | nil => rfl
  | cons a t ih =>
    simp only [List.filterMap_cons, h a (List.mem_cons_self)]
    rw [ih (fun x hx => h x (List.mem_cons_of_mem _ hx))]

/-- a local arc placed into cell `(x, y, z)` -/
def placeArc (x y z : Nat) (d : DEdge) : GV × GV := (place x y z (loc3 d.1), place x y z (loc3 d.2))

/-- the local position of `V` relative to cell `(x, y, z)` -/
def relPos (x y z : Nat) (V : GV) : P3 := (V.1 - 2 * x, V.2.1 - 2 * y, V.2.2 - 2 * z)

theorem place_eq_iff (x y z : Nat) (V : GV) (hb : inBox x y z V) (e : Vtx) :
    place x y z (loc3 e) = V ↔ loc3 e = relPos x y z V := by
  obtain ⟨V1, V2, V3⟩ := V
  have h := loc3_le e
  unfold inBox at hb
  simp only [place, relPos, Prod.ext_iff] at hb ⊢
  constructor <;> intro h' <;> omega

theorem place_ne_of_not_inBox (x y z : Nat) (V : GV) (hb : ¬ inBox x y z V) (e : Vtx) :
    place x y z (loc3 e) ≠ V := by
  obtain ⟨V1, V2, V3⟩ := V
  have h := loc3_le e
  intro h'
  apply hb
  unfold inBox
  simp only [place, Prod.ext_iff] at h' ⊢
  omega

/-- **What one cell contributes to the link of `V`.** -/
theorem glink_cellTris (table : List (List (List Nat))) (lab : Nat → Nat → Nat → Bool) (x y z : Nat) (V : GV)
    (hwf : rowWellFormed (cellCfg lab x y z) (getRow table (cellCfg lab x y z)) = true) :
    glink V (cellTris table lab x y z) =
      if inBox x y z V then
        (fanArcs (getRow table (cellCfg lab x y z)) (vtxAt (relPos x y z V))).map (placeArc x y z)
      else [] := by
  rw [cellTris_eq_map]
  unfold glink
  rw [List.filterMap_map]
  by_cases hb : inBox x y z V
  · rw [if_pos hb]
    unfold fanArcs
    rw [List.map_filterMap]
    apply filterMap_congr_mem
    intro t ht
    obtain ⟨m1, m2, m3, _, _, _, _, _, _⟩ := rowTris_verts hwf ht
    have q1 := (place_eq_iff x y z V hb t.1).trans (loc3_eq_iff m1 _)
    have q2 := (place_eq_iff x y z V hb t.2.1).trans (loc3_eq_iff m2 _)
    have q3 := (place_eq_iff x y z V hb t.2.2).trans (loc3_eq_iff m3 _)
    simp only [Function.comp, grot, q1, q2, q3, beq_iff_eq]
    by_cases c1 : t.1 = vtxAt (relPos x y z V)
    · rw [if_pos c1, if_pos c1]; rfl
    · rw [if_neg c1, if_neg c1]
      by_cases c2 : t.2.1 = vtxAt (relPos x y z V)
      · rw [if_pos c2, if_pos c2]; rfl
      · rw [if_neg c2, if_neg c2]
        by_cases c3 : t.2.2 = vtxAt (relPos x y z V)
        · rw [if_pos c3, if_pos c3]; rfl
        · rw [if_neg c3, if_neg c3]; rfl
  · rw [if_neg hb]
    rw [List.filterMap_eq_nil_iff]
    intro t _
    simp only [Function.comp, grot, place_ne_of_not_inBox x y z V hb, if_false]

end M3d.Marching
