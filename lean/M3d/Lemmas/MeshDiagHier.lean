import M3d.Lemmas.MeshDiagFan
import M3d.Lemmas.MeshDiagNest
/-!
# C11 — the hierarchy builder loses and duplicates no face, and its nodes are the connected
components (for every containment oracle)
-/
namespace M3d.MeshDiag
open M3d.Surface

namespace Forest
variable {α β : Type}

theorem fullMesh_insertLeaf (mesh : α → List β) (enc : α → α → Bool) (x : α) :
    ∀ f : Forest α, (fullMesh mesh (insertLeaf enc x f)).Perm (mesh x ++ fullMesh mesh f) := by
  intro f
  induction f with
  | nil => simp [insertLeaf, fullMesh]
  | node y kids sibs ihk ihs =>
    simp only [insertLeaf]
    split
    · simp only [fullMesh]
      -- mesh y ++ (FM(kids') ++ FM sibs) ~ mesh x ++ (mesh y ++ (FM kids ++ FM sibs))
      refine ((List.Perm.append_left _ (List.Perm.append_right _ ihk))).trans ?_
      simp only [List.append_assoc]
      exact List.perm_append_comm_assoc _ _ _
    · simp only [fullMesh]
      refine ((List.Perm.append_left _ (List.Perm.append_left _ ihs))).trans ?_
      refine (List.Perm.append_left _ (List.perm_append_comm_assoc _ _ _)).trans ?_
      exact List.perm_append_comm_assoc _ _ _

theorem fullMesh_insertTop (mesh : α → List β) (encTop encIn : α → α → Bool) (x : α) :
    ∀ f : Forest α, (fullMesh mesh (insertTop encTop encIn x f)).Perm (mesh x ++ fullMesh mesh f) := by
  intro f
  induction f with
  | nil => simp [insertTop, fullMesh]
  | node y kids sibs _ ihs =>
    simp only [insertTop]
    split
    · simp only [fullMesh]
      refine ((List.Perm.append_left _ (List.Perm.append_right _ (fullMesh_insertLeaf mesh encIn x kids)))).trans ?_
      simp only [List.append_assoc]
      exact List.perm_append_comm_assoc _ _ _
    · simp only [fullMesh]
      refine ((List.Perm.append_left _ (List.Perm.append_left _ ihs))).trans ?_
      refine (List.Perm.append_left _ (List.perm_append_comm_assoc _ _ _)).trans ?_
      exact List.perm_append_comm_assoc _ _ _

theorem nodes_insertLeaf (enc : α → α → Bool) (x : α) :
    ∀ f : Forest α, (nodes (insertLeaf enc x f)).Perm (x :: nodes f) := by
  intro f
  induction f with
  | nil => simp [insertLeaf, nodes]
  | node y kids sibs ihk ihs =>
    simp only [insertLeaf]
    split
    · simp only [nodes]
      refine (List.Perm.cons y (List.Perm.append_right _ ihk)).trans ?_
      simp only [List.cons_append]
      exact List.Perm.swap x y _
    · simp only [nodes]
      refine (List.Perm.cons y (List.Perm.append_left _ ihs)).trans ?_
      refine (List.Perm.cons y (List.perm_middle)).trans ?_
      exact List.Perm.swap x y _

theorem nodes_insertTop (encTop encIn : α → α → Bool) (x : α) :
    ∀ f : Forest α, (nodes (insertTop encTop encIn x f)).Perm (x :: nodes f) := by
  intro f
  induction f with
  | nil => simp [insertTop, nodes]
  | node y kids sibs _ ihs =>
    simp only [insertTop]
    split
    · simp only [nodes]
      refine (List.Perm.cons y (List.Perm.append_right _ (nodes_insertLeaf encIn x kids))).trans ?_
      simp only [List.cons_append]
      exact List.Perm.swap x y _
    · simp only [nodes]
      refine (List.Perm.cons y (List.Perm.append_left _ ihs)).trans ?_
      refine (List.Perm.cons y (List.perm_middle)).trans ?_
      exact List.Perm.swap x y _

end Forest

/-! ## the sweep loop -/

/-- What the loop maintains about the faces still linked into the pointer mesh. -/
structure HierInv (all : List Face) (vs : List Nat) (rem : List Face) : Prop where
  sub : ∀ g ∈ rem, g ∈ all
  covered : ∀ g ∈ rem, ∃ v ∈ vs, hasVert v g.2 = true
  closed : ∀ g ∈ rem, ∀ h ∈ all, sharesVert g h = true → h ∈ rem

theorem sharesVert_of_common {g h : Face} {v : Nat} (hg : hasVert v g.2 = true) (hh : hasVert v h.2 = true) :
    sharesVert g h = true := by
  simp only [sharesVert, List.any_eq_true]
  exact ⟨v, by simpa [hasVert] using hg, hh⟩

theorem coordInMesh_iff {all vs rem} (inv : HierInv all vs rem) (v : Nat) :
    coordInMesh all rem v = true ↔ ∃ g ∈ rem, hasVert v g.2 = true := by
  unfold coordInMesh
  cases hF : facesAt v all with
  | nil =>
    simp only [List.head?_nil]
    constructor
    · intro h; cases h
    · rintro ⟨g, hg, hv⟩
      have : g ∈ facesAt v all := List.mem_filter.mpr ⟨inv.sub g hg, hv⟩
      rw [hF] at this; cases this
  | cons h rest =>
    simp only [List.head?_cons]
    have hh : h ∈ facesAt v all := hF ▸ List.mem_cons_self
    have hhv := (List.mem_filter.mp hh).2
    have hha := (List.mem_filter.mp hh).1
    constructor
    · intro hc; exact ⟨h, List.contains_iff_mem.mp hc, hhv⟩
    · rintro ⟨g, hg, hv⟩
      exact List.contains_iff_mem.mpr (inv.closed g hg h hha (sharesVert_of_common hv hhv))

theorem hierLoop_spec (all : List Face) (encTop encIn : Comp → Comp → Bool) :
    ∀ (vs : List Nat) (rem : List Face) (f : Forest Comp), HierInv all vs rem →
      (Forest.fullMesh (·.2) (hierLoop all encTop encIn vs rem f)).Perm (Forest.fullMesh (·.2) f ++ rem) ∧
      (∀ x ∈ Forest.nodes (hierLoop all encTop encIn vs rem f), x ∈ Forest.nodes f ∨
        ((∀ y ∈ x.2, ∃ a ∈ facesAt x.1 all, Reach sharesVert all a y) ∧
         (∀ a ∈ x.2, ∀ h ∈ all, sharesVert a h = true → h ∈ x.2) ∧ x.2 ≠ [])) := by
  intro vs
  induction vs with
  | nil =>
    intro rem f inv
    have : rem = [] := by
      cases rem with
      | nil => rfl
      | cons g _ => obtain ⟨v, hv, _⟩ := inv.covered g List.mem_cons_self; cases hv
    subst this
    simp only [hierLoop, List.append_nil]
    exact ⟨List.Perm.refl _, fun x hx => Or.inl hx⟩
  | cons v vs ih =>
    intro rem f inv
    simp only [hierLoop]
    by_cases hc : coordInMesh all rem v = true
    · simp only [hc, if_true]
      obtain ⟨hperm, hreach, hsep, hnov⟩ := removeAllConnected_spec rem v
      have hmem : ∀ g, g ∈ rem ↔ g ∈ (removeAllConnected rem v).1 ∨ g ∈ (removeAllConnected rem v).2 :=
        fun g => by rw [← List.mem_append]; exact (hperm.mem_iff).symm
      have inv' : HierInv all vs (removeAllConnected rem v).2 := by
        refine ⟨fun g hg => inv.sub g ((hmem g).mpr (Or.inr hg)), fun g hg => ?_, fun g hg h hh hs => ?_⟩
        · obtain ⟨w, hw, hwg⟩ := inv.covered g ((hmem g).mpr (Or.inr hg))
          rcases List.mem_cons.mp hw with h | h
          · subst h; rw [hnov g hg] at hwg; cases hwg
          · exact ⟨w, h, hwg⟩
        · have hr : h ∈ rem := inv.closed g ((hmem g).mpr (Or.inr hg)) h hh hs
          rcases (hmem h).mp hr with h1 | h2
          · have := hsep h h1 g hg
            rw [sharesVert_symm] at this; rw [this] at hs; cases hs
          · exact h2
      obtain ⟨ih1, ih2⟩ := ih (removeAllConnected rem v).2
        (Forest.insertTop encTop encIn (v, (removeAllConnected rem v).1) f) inv'
      refine ⟨?_, fun x hx => ?_⟩
      · refine ih1.trans ?_
        refine (List.Perm.append_right _ (Forest.fullMesh_insertTop (·.2) encTop encIn _ f)).trans ?_
        simp only [List.append_assoc]
        refine (List.perm_append_comm_assoc _ _ _).trans ?_
        refine List.Perm.append_left _ ?_
        exact hperm
      · rcases ih2 x hx with h | h
        · have := (Forest.nodes_insertTop encTop encIn (v, (removeAllConnected rem v).1) f).subset h
          rcases List.mem_cons.mp this with h' | h'
          · subst h'
            right
            refine ⟨fun y hy => ?_, fun a ha h hh hs => ?_, ?_⟩
            · obtain ⟨a, ha, hr⟩ := hreach y hy
              refine ⟨a, List.mem_filter.mpr ⟨inv.sub a (List.mem_filter.mp ha).1, (List.mem_filter.mp ha).2⟩, ?_⟩
              exact hr.mono inv.sub
            · have hr : h ∈ rem := inv.closed a ((hmem a).mpr (Or.inl ha)) h hh hs
              rcases (hmem h).mp hr with h1 | h2
              · exact h1
              · have := hsep a ha h h2; rw [this] at hs; cases hs
            · -- the faces at `v` are stripped first
              obtain ⟨g, hg, hgv⟩ := (coordInMesh_iff inv v).mp hc
              intro hnil
              rcases (hmem g).mp hg with h1 | h2
              · simp only at hnil; rw [hnil] at h1; cases h1
              · rw [hnov g h2] at hgv; cases hgv
          · exact Or.inl h'
        · exact Or.inr h
    · simp only [hc, Bool.false_eq_true, if_false]
      have inv' : HierInv all vs rem := by
        refine ⟨inv.sub, fun g hg => ?_, inv.closed⟩
        obtain ⟨w, hw, hwg⟩ := inv.covered g hg
        rcases List.mem_cons.mp hw with h | h
        · subst h; exact absurd ((coordInMesh_iff inv w).mpr ⟨g, hg, hwg⟩) hc
        · exact ⟨w, h, hwg⟩
      exact ih rem f inv'

/-! ## the loop is a sequence of leaf insertions -/

/-- The components in the order in which the sweep strips them (with the sweep vertex). -/
def strippedComps (all : List Face) : List Nat → List Face → List Comp
  | [], _ => []
  | v :: vs, rem =>
    if coordInMesh all rem v then
      (v, (removeAllConnected rem v).1) :: strippedComps all vs (removeAllConnected rem v).2
    else strippedComps all vs rem

theorem hierLoop_eq_foldl (all : List Face) (encTop encIn : Comp → Comp → Bool) :
    ∀ (vs : List Nat) (rem : List Face) (f : Forest Comp),
      hierLoop all encTop encIn vs rem f =
        (strippedComps all vs rem).foldl (fun f x => Forest.insertTop encTop encIn x f) f := by
  intro vs
  induction vs with
  | nil => intro rem f; rfl
  | cons v vs ih =>
    intro rem f
    simp only [hierLoop, strippedComps]
    split
    · simp only [List.foldl_cons]; exact ih _ _
    · exact ih _ _

theorem strippedComps_fst_sublist (all : List Face) :
    ∀ (vs : List Nat) (rem : List Face), List.Sublist ((strippedComps all vs rem).map (·.1)) vs := by
  intro vs
  induction vs with
  | nil => intro rem; simp [strippedComps]
  | cons v vs ih =>
    intro rem
    simp only [strippedComps]
    split
    · simp only [List.map_cons]; exact (ih _).cons_cons v
    · exact (ih _).cons v

theorem strippedComps_nodup (all : List Face) (vs : List Nat) (rem : List Face) (h : vs.Nodup) :
    (strippedComps all vs rem).Nodup :=
  List.Pairwise.of_map (·.1) (fun a b hab h' => hab (congrArg (·.1) h')) (h.sublist (strippedComps_fst_sublist all vs rem))

/-! ## the insertion only looks at the oracle on (old node, new leaf) pairs -/

namespace Forest
variable {α : Type}

theorem insertLeaf_congr (e1 e2 : α → α → Bool) (x : α) :
    ∀ f : Forest α, (∀ y ∈ nodes f, e1 y x = e2 y x) → insertLeaf e1 x f = insertLeaf e2 x f := by
  intro f
  induction f with
  | nil => intro _; rfl
  | node y kids sibs ihk ihs =>
    intro h
    have hy : e1 y x = e2 y x := h y (by simp [nodes])
    have hk := ihk fun z hz => h z (by simp [nodes, hz])
    have hs := ihs fun z hz => h z (by simp [nodes, hz])
    simp only [insertLeaf, hy, hk, hs]

theorem insertTop_congr (encTop encIn enc : α → α → Bool) (x : α) :
    ∀ f : Forest α, (∀ y ∈ nodes f, encTop y x = enc y x ∧ encIn y x = enc y x) →
      insertTop encTop encIn x f = insertLeaf enc x f := by
  intro f
  induction f with
  | nil => intro _; rfl
  | node y kids sibs _ ihs =>
    intro h
    have hy : encTop y x = enc y x := (h y (by simp [nodes])).1
    have hk := insertLeaf_congr encIn enc x kids fun z hz => (h z (by simp [nodes, hz])).2
    have hs := ihs fun z hz => h z (by simp [nodes, hz])
    simp only [insertTop, insertLeaf, hy, hk, hs]

theorem foldl_insertTop_congr (encTop encIn enc : α → α → Bool) :
    ∀ (l : List α) (f : Forest α),
      (∀ x ∈ l, ∀ y, (y ∈ nodes f ∨ y ∈ l) → encTop y x = enc y x ∧ encIn y x = enc y x) →
      l.foldl (fun f x => insertTop encTop encIn x f) f = l.foldl (fun f x => insertLeaf enc x f) f := by
  intro l
  induction l with
  | nil => intro f _; rfl
  | cons x xs ih =>
    intro f h
    simp only [List.foldl_cons]
    rw [insertTop_congr encTop encIn enc x f fun y hy => h x List.mem_cons_self y (Or.inl hy)]
    refine ih _ fun x' hx' y hy => h x' (List.mem_cons_of_mem _ hx') y ?_
    rcases hy with hy | hy
    · rcases (mem_nodes_insertLeaf enc x f y).mp hy with rfl | hy'
      · exact Or.inr List.mem_cons_self
      · exact Or.inl hy'
    · exact Or.inr (List.mem_cons_of_mem _ hy)

end Forest

end M3d.MeshDiag
