import M3d.Model.BoundedPoly
import M3d.Lemmas.Bounded
/-!
# Lemmas behind C03 for convex polytopes: per-constraint scale invariance of the half-space test and
of the vertices that `Mesh()` enumerates, and "the box in front of the half-space test does not cut".
-/
set_option linter.unusedSectionVars false
set_option linter.unusedVariables false
set_option linter.unusedSimpArgs false
set_option linter.unusedTactic false
set_option linter.unreachableTactic false
namespace M3d.Bd

variable {K : Type} [Field K] [LinearOrder K] [IsStrictOrderedRing K]

/-! ## coordinates -/

theorem pdot_xyz (a b : Pt K) : pdot a b = a.x * b.x + a.y * b.y + a.z * b.z := rfl
theorem pscale_x (a : Pt K) (s : K) : (pscale a s).x = a.x * s := rfl
theorem pscale_y (a : Pt K) (s : K) : (pscale a s).y = a.y * s := rfl
theorem pscale_z (a : Pt K) (s : K) : (pscale a s).z = a.z * s := rfl

theorem pdot_pscale_right (p n : Pt K) (s : K) : pdot p (pscale n s) = pdot p n * s := by
  simp only [pdot_xyz, pscale_x, pscale_y, pscale_z]; ring

theorem pdot_pscale_left (p n : Pt K) (s : K) : pdot (pscale n s) p = pdot n p * s := by
  simp only [pdot_xyz, pscale_x, pscale_y, pscale_z]; ring

theorem pdot_self_nonneg (a : Pt K) : 0 ≤ pdot a a := by
  simp only [pdot_xyz]; nlinarith [mul_self_nonneg a.x, mul_self_nonneg a.y, mul_self_nonneg a.z]

theorem pnorm_eq (sq : K → K) (a : Pt K) : pnorm sq a = sq (pdot a a) := rfl

theorem pnorm_nonneg (sq : K → K) (hsq : SqrtOK sq) (a : Pt K) : 0 ≤ pnorm sq a :=
  (hsq _ (pdot_self_nonneg a)).1

/-- `|s·n| = s·|n|` for `s > 0`, for every square-root function -/
theorem pnorm_pscale (sq : K → K) (hsq : SqrtOK sq) (a : Pt K) (s : K) (hs : 0 < s) :
    pnorm sq (pscale a s) = pnorm sq a * s := by
  have h1 := hsq _ (pdot_self_nonneg (pscale a s))
  have h2 := hsq _ (pdot_self_nonneg a)
  rw [pnorm_eq, pnorm_eq]
  have e : pdot (pscale a s) (pscale a s) = pdot a a * (s * s) := by
    simp only [pdot_xyz, pscale_x, pscale_y, pscale_z]; ring
  have hsqr : sq (pdot (pscale a s) (pscale a s)) * sq (pdot (pscale a s) (pscale a s))
      = (sq (pdot a a) * s) * (sq (pdot a a) * s) := by
    rw [h1.2, e]
    calc pdot a a * (s * s) = (sq (pdot a a) * sq (pdot a a)) * (s * s) := by rw [h2.2]
      _ = _ := by ring
  have hn : 0 ≤ sq (pdot a a) * s := mul_nonneg h2.1 (le_of_lt hs)
  exact (mul_self_inj_of_nonneg h1.1 hn).mp hsqr

/-! ## the half-space test is invariant under positive per-constraint factors -/

theorem polyContains_scaled (l : List (SCon K)) (h : ∀ c ∈ l, 0 < c.s) (p : Pt K) :
    polyContains (scaledCs l) p = polyContains (unscaledCs l) p := by
  induction l with
  | nil => rfl
  | cons c l ih =>
    have hc : 0 < c.s := h c (List.mem_cons_self ..)
    have ih' := ih (fun d hd => h d (List.mem_cons_of_mem _ hd))
    simp only [polyContains, scaledCs, unscaledCs, List.map_cons, List.all_cons] at ih' ⊢
    rw [ih']
    congr 1
    rw [pdot_pscale_right]
    exact decide_eq_decide.mpr (mul_le_mul_iff_of_pos_right hc)

/-- With a box that encloses the half-space intersection, `polytopeSolid.Contains` *is* the half-space
test: the box cuts nothing. -/
theorem polytope_no_cut (d3 : Bool) (box : Box K) (cs : List (Pt K × K))
    (henc : ∀ q, polyContains cs q = true → InBox d3 box q) (p : Pt K) :
    (polytopeS d3 box cs).f p = polyContains cs p := by
  simp only [polytopeS]
  cases hp : polyContains cs p
  · simp
  · simp [(inB_iff d3 box p).mpr (henc p hp)]

/-! ## the vertices `Mesh()` enumerates are invariant under positive per-constraint factors -/

/-- one constraint scaled by `s` -/
def sc1 (c : SCon K) : Pt K × K := (pscale c.n c.s, c.m * c.s)
def un1 (c : SCon K) : Pt K × K := (c.n, c.m)

theorem scaledCs_eq (l : List (SCon K)) : scaledCs l = l.map sc1 := rfl
theorem unscaledCs_eq (l : List (SCon K)) : unscaledCs l = l.map un1 := rfl

theorem vertexOk_scaled (sq : K → K) (hsq : SqrtOK sq) (epsilon : K) (l : List (SCon K))
    (h : ∀ c ∈ l, 0 < c.s) (sol : Pt K) :
    vertexOk sq epsilon (l.map sc1) sol = vertexOk sq epsilon (l.map un1) sol := by
  induction l with
  | nil => rfl
  | cons c l ih =>
    have hc : 0 < c.s := h c (List.mem_cons_self ..)
    have ih' := ih (fun d hd => h d (List.mem_cons_of_mem _ hd))
    simp only [vertexOk, List.map_cons, List.all_cons] at ih' ⊢
    rw [ih']
    congr 2
    apply decide_eq_decide.mpr
    show c.m * c.s + epsilon * pnorm sq (pscale c.n c.s) < pdot (pscale c.n c.s) sol ↔
      c.m + epsilon * pnorm sq c.n < pdot c.n sol
    rw [pnorm_pscale sq hsq _ _ hc, pdot_pscale_left]
    have e : c.m * c.s + epsilon * (pnorm sq c.n * c.s) = (c.m + epsilon * pnorm sq c.n) * c.s := by ring
    rw [e]
    exact mul_lt_mul_iff_of_pos_right hc

theorem det3_scaled (a b c : Pt K) (s1 s2 s3 : K) :
    det3 (pscale a s1) (pscale b s2) (pscale c s3) = det3 a b c * (s1 * s2 * s3) := by
  simp only [det3, pscale_x, pscale_y, pscale_z]; ring

theorem det2_scaled (a b : Pt K) (s1 s2 : K) :
    det2 (pscale a s1) (pscale b s2) = det2 a b * (s1 * s2) := by
  simp only [det2, pscale_x, pscale_y, pscale_z]; ring

theorem mk3_x (x y z : K) : (mk3 x y z).x = x := rfl
theorem mk3_y (x y z : K) : (mk3 x y z).y = y := rfl
theorem mk3_z (x y z : K) : (mk3 x y z).z = z := rfl

theorem mulColInv3_scaled (a b c : Pt K) (m1 m2 m3 s1 s2 s3 : K) (h1 : s1 ≠ 0) (h2 : s2 ≠ 0) (h3 : s3 ≠ 0) :
    mulColInv3 (pscale a s1) (pscale b s2) (pscale c s3) (mk3 (m1 * s1) (m2 * s2) (m3 * s3))
        (det3 a b c * (s1 * s2 * s3)) =
      mulColInv3 a b c (mk3 m1 m2 m3) (det3 a b c) := by
  by_cases hd : det3 a b c = 0
  · simp only [mulColInv3, hd, zero_mul, div_zero, mul_zero, mk3_x, mk3_y, mk3_z, add_zero]
  · simp only [mulColInv3, pscale_x, pscale_y, pscale_z, mk3_x, mk3_y, mk3_z]
    congr 1 <;> field_simp <;> try ring

theorem mulColInv2_scaled (a b : Pt K) (m1 m2 s1 s2 : K) (h1 : s1 ≠ 0) (h2 : s2 ≠ 0) :
    mulColInv2 (pscale a s1) (pscale b s2) (mk3 (m1 * s1) (m2 * s2) 0) (det2 a b * (s1 * s2)) =
      mulColInv2 a b (mk3 m1 m2 0) (det2 a b) := by
  by_cases hd : det2 a b = 0
  · simp only [mulColInv2, hd, zero_mul, div_zero, mul_zero, mk3_x, mk3_y, mk3_z, add_zero]
  · simp only [mulColInv2, pscale_x, pscale_y, pscale_z, mk3_x, mk3_y, mk3_z]
    congr 1 <;> field_simp <;> try ring

theorem sabs_mul_pos (x s : K) (hs : 0 < s) : sabs (x * s) = sabs x * s := by
  rw [sabs_eq, sabs_eq, abs_mul, abs_of_pos hs]

/-- `ConvexPolytope.vertex` (3-D) gives the same answer for every positive rescaling of the constraints:
its determinant test is relative to the product of the normals' lengths, the solution of the linear
system does not depend on the scaling of its rows, and the acceptance test scales with the normal. -/
theorem vertex3_scaled (sq : K → K) (hsq : SqrtOK sq) (tol epsilon : K) (c1 c2 c3 : SCon K)
    (h1 : 0 < c1.s) (h2 : 0 < c2.s) (h3 : 0 < c3.s) (others : List (SCon K)) (ho : ∀ c ∈ others, 0 < c.s) :
    vertex3 sq tol epsilon (sc1 c1) (sc1 c2) (sc1 c3) (others.map sc1) =
      vertex3 sq tol epsilon (un1 c1) (un1 c2) (un1 c3) (others.map un1) := by
  have hS : 0 < c1.s * c2.s * c3.s := mul_pos (mul_pos h1 h2) h3
  have hdet := det3_scaled c1.n c2.n c3.n c1.s c2.s c3.s
  have hcond : sabs (det3 (pscale c1.n c1.s) (pscale c2.n c2.s) (pscale c3.n c3.s)) <
        pnorm sq (pscale c1.n c1.s) * pnorm sq (pscale c2.n c2.s) * pnorm sq (pscale c3.n c3.s) * tol ↔
      sabs (det3 c1.n c2.n c3.n) < pnorm sq c1.n * pnorm sq c2.n * pnorm sq c3.n * tol := by
    rw [pnorm_pscale sq hsq _ _ h1, pnorm_pscale sq hsq _ _ h2, pnorm_pscale sq hsq _ _ h3, hdet,
      sabs_mul_pos _ _ hS]
    have e : pnorm sq c1.n * c1.s * (pnorm sq c2.n * c2.s) * (pnorm sq c3.n * c3.s) * tol
        = (pnorm sq c1.n * pnorm sq c2.n * pnorm sq c3.n * tol) * (c1.s * c2.s * c3.s) := by ring
    rw [e]
    exact mul_lt_mul_iff_of_pos_right hS
  have hsol : mulColInv3 (pscale c1.n c1.s) (pscale c2.n c2.s) (pscale c3.n c3.s)
        (mk3 (c1.m * c1.s) (c2.m * c2.s) (c3.m * c3.s))
        (det3 (pscale c1.n c1.s) (pscale c2.n c2.s) (pscale c3.n c3.s)) =
      mulColInv3 c1.n c2.n c3.n (mk3 c1.m c2.m c3.m) (det3 c1.n c2.n c3.n) := by
    rw [hdet]
    exact mulColInv3_scaled _ _ _ _ _ _ _ _ _ (ne_of_gt h1) (ne_of_gt h2) (ne_of_gt h3)
  have hv := vertexOk_scaled sq hsq epsilon others ho
  show (if sabs (det3 (pscale c1.n c1.s) (pscale c2.n c2.s) (pscale c3.n c3.s)) <
        pnorm sq (pscale c1.n c1.s) * pnorm sq (pscale c2.n c2.s) * pnorm sq (pscale c3.n c3.s) * tol then none
      else if vertexOk sq epsilon (others.map sc1) (mulColInv3 (pscale c1.n c1.s) (pscale c2.n c2.s) (pscale c3.n c3.s)
        (mk3 (c1.m * c1.s) (c2.m * c2.s) (c3.m * c3.s))
        (det3 (pscale c1.n c1.s) (pscale c2.n c2.s) (pscale c3.n c3.s))) = true then
        some (mulColInv3 (pscale c1.n c1.s) (pscale c2.n c2.s) (pscale c3.n c3.s)
        (mk3 (c1.m * c1.s) (c2.m * c2.s) (c3.m * c3.s))
        (det3 (pscale c1.n c1.s) (pscale c2.n c2.s) (pscale c3.n c3.s))) else none) =
    (if sabs (det3 c1.n c2.n c3.n) < pnorm sq c1.n * pnorm sq c2.n * pnorm sq c3.n * tol then none
      else if vertexOk sq epsilon (others.map un1) (mulColInv3 c1.n c2.n c3.n (mk3 c1.m c2.m c3.m) (det3 c1.n c2.n c3.n)) = true
        then some (mulColInv3 c1.n c2.n c3.n (mk3 c1.m c2.m c3.m) (det3 c1.n c2.n c3.n)) else none)
  by_cases hc : sabs (det3 c1.n c2.n c3.n) < pnorm sq c1.n * pnorm sq c2.n * pnorm sq c3.n * tol
  · rw [if_pos (hcond.mpr hc), if_pos hc]
  · rw [if_neg (fun h => hc (hcond.mp h)), if_neg hc, hsol, hv]

/-- `ConvexPolytope.vertex` (2-D) likewise. -/
theorem vertex2_scaled (sq : K → K) (hsq : SqrtOK sq) (tol epsilon : K) (c1 c2 : SCon K)
    (h1 : 0 < c1.s) (h2 : 0 < c2.s) (others : List (SCon K)) (ho : ∀ c ∈ others, 0 < c.s) :
    vertex2 sq tol epsilon (sc1 c1) (sc1 c2) (others.map sc1) =
      vertex2 sq tol epsilon (un1 c1) (un1 c2) (others.map un1) := by
  have hS : 0 < c1.s * c2.s := mul_pos h1 h2
  have hdet := det2_scaled c1.n c2.n c1.s c2.s
  have hcond : sabs (det2 (pscale c1.n c1.s) (pscale c2.n c2.s)) <
        pnorm sq (pscale c1.n c1.s) * pnorm sq (pscale c2.n c2.s) * tol ↔
      sabs (det2 c1.n c2.n) < pnorm sq c1.n * pnorm sq c2.n * tol := by
    rw [pnorm_pscale sq hsq _ _ h1, pnorm_pscale sq hsq _ _ h2, hdet, sabs_mul_pos _ _ hS]
    have e : pnorm sq c1.n * c1.s * (pnorm sq c2.n * c2.s) * tol
        = (pnorm sq c1.n * pnorm sq c2.n * tol) * (c1.s * c2.s) := by ring
    rw [e]
    exact mul_lt_mul_iff_of_pos_right hS
  have hsol : mulColInv2 (pscale c1.n c1.s) (pscale c2.n c2.s) (mk3 (c1.m * c1.s) (c2.m * c2.s) 0)
        (det2 (pscale c1.n c1.s) (pscale c2.n c2.s)) =
      mulColInv2 c1.n c2.n (mk3 c1.m c2.m 0) (det2 c1.n c2.n) := by
    rw [hdet]
    exact mulColInv2_scaled _ _ _ _ _ _ (ne_of_gt h1) (ne_of_gt h2)
  have hv := vertexOk_scaled sq hsq epsilon others ho
  show (if sabs (det2 (pscale c1.n c1.s) (pscale c2.n c2.s)) <
        pnorm sq (pscale c1.n c1.s) * pnorm sq (pscale c2.n c2.s) * tol then none
      else if vertexOk sq epsilon (others.map sc1) (mulColInv2 (pscale c1.n c1.s) (pscale c2.n c2.s)
        (mk3 (c1.m * c1.s) (c2.m * c2.s) 0) (det2 (pscale c1.n c1.s) (pscale c2.n c2.s))) = true then
        some (mulColInv2 (pscale c1.n c1.s) (pscale c2.n c2.s)
        (mk3 (c1.m * c1.s) (c2.m * c2.s) 0) (det2 (pscale c1.n c1.s) (pscale c2.n c2.s))) else none) =
    (if sabs (det2 c1.n c2.n) < pnorm sq c1.n * pnorm sq c2.n * tol then none
      else if vertexOk sq epsilon (others.map un1) (mulColInv2 c1.n c2.n (mk3 c1.m c2.m 0) (det2 c1.n c2.n)) = true
        then some (mulColInv2 c1.n c2.n (mk3 c1.m c2.m 0) (det2 c1.n c2.n)) else none)
  by_cases hc : sabs (det2 c1.n c2.n) < pnorm sq c1.n * pnorm sq c2.n * tol
  · rw [if_pos (hcond.mpr hc), if_pos hc]
  · rw [if_neg (fun h => hc (hcond.mp h)), if_neg hc, hsol, hv]

/-- `spatialEpsilon` does not depend on the scaling (for non-zero normals): `|m·s| / |n·s| = |m| / |n|`. -/
theorem spatialEps_scaled (sq : K → K) (hsq : SqrtOK sq) (tol : K) (l : List (SCon K)) (h : ∀ c ∈ l, 0 < c.s) :
    spatialEps sq tol (l.map sc1) = spatialEps sq tol (l.map un1) := by
  unfold spatialEps
  congr 1
  generalize (0 : K) = acc
  induction l generalizing acc with
  | nil => rfl
  | cons c l ih =>
    have hc : 0 < c.s := h c (List.mem_cons_self ..)
    simp only [List.map_cons, List.foldl_cons]
    have e : sabs (sc1 c).2 / pnorm sq (sc1 c).1 = sabs (un1 c).2 / pnorm sq (un1 c).1 := by
      simp only [sc1, un1]
      rw [pnorm_pscale sq hsq _ _ hc, sabs_mul_pos _ _ hc]
      exact mul_div_mul_right _ _ (ne_of_gt hc)
    rw [e]
    exact ih (fun d hd => h d (List.mem_cons_of_mem _ hd)) _

/-! ### the enumeration commutes with `map` -/

theorem picksAfter_map {β γ : Type} (f : β → γ) (l : List β) :
    triples.picksAfter (l.map f) = (triples.picksAfter l).map fun x => (f x.1, x.2.map f) := by
  induction l with
  | nil => rfl
  | cons z zs ih => simp [triples.picksAfter, ih, List.map_map, Function.comp_def]

theorem picks2_map {β γ : Type} (f : β → γ) (l : List β) :
    triples.picks2 (l.map f) = (triples.picks2 l).map fun x => (f x.1, f x.2.1, x.2.2.map f) := by
  induction l with
  | nil => rfl
  | cons y ys ih => simp [triples.picks2, ih, picksAfter_map, List.map_map, Function.comp_def]

theorem triples_map {β γ : Type} (f : β → γ) (l : List β) :
    triples (l.map f) = (triples l).map fun x => (f x.1, f x.2.1, f x.2.2.1, x.2.2.2.map f) := by
  induction l with
  | nil => rfl
  | cons x xs ih => simp [triples, ih, picks2_map, List.map_map, Function.comp_def]

/-- every element of a picked tuple comes from the list -/
theorem picksAfter_mem {β : Type} (l : List β) : ∀ x ∈ triples.picksAfter l, x.1 ∈ l ∧ ∀ y ∈ x.2, y ∈ l := by
  induction l with
  | nil => intro x hx; simp [triples.picksAfter] at hx
  | cons z zs ih =>
    intro x hx
    simp only [triples.picksAfter, List.mem_cons, List.mem_map] at hx
    rcases hx with rfl | ⟨w, hw, rfl⟩
    · exact ⟨List.mem_cons_self .., fun y hy => List.mem_cons_of_mem _ hy⟩
    · obtain ⟨h1, h2⟩ := ih w hw
      refine ⟨List.mem_cons_of_mem _ h1, fun y hy => ?_⟩
      rcases List.mem_cons.mp hy with rfl | hy
      · exact List.mem_cons_self ..
      · exact List.mem_cons_of_mem _ (h2 y hy)

theorem picks2_mem {β : Type} (l : List β) :
    ∀ x ∈ triples.picks2 l, x.1 ∈ l ∧ x.2.1 ∈ l ∧ ∀ y ∈ x.2.2, y ∈ l := by
  induction l with
  | nil => intro x hx; simp [triples.picks2] at hx
  | cons z zs ih =>
    intro x hx
    simp only [triples.picks2, List.mem_append, List.mem_map] at hx
    rcases hx with ⟨w, hw, rfl⟩ | ⟨w, hw, rfl⟩
    · obtain ⟨h1, h2⟩ := picksAfter_mem zs w hw
      exact ⟨List.mem_cons_self .., List.mem_cons_of_mem _ h1, fun y hy => List.mem_cons_of_mem _ (h2 y hy)⟩
    · obtain ⟨h1, h2, h3⟩ := ih w hw
      refine ⟨List.mem_cons_of_mem _ h1, List.mem_cons_of_mem _ h2, fun y hy => ?_⟩
      rcases List.mem_cons.mp hy with rfl | hy
      · exact List.mem_cons_self ..
      · exact List.mem_cons_of_mem _ (h3 y hy)

theorem triples_mem {β : Type} (l : List β) :
    ∀ x ∈ triples l, x.1 ∈ l ∧ x.2.1 ∈ l ∧ x.2.2.1 ∈ l ∧ ∀ y ∈ x.2.2.2, y ∈ l := by
  induction l with
  | nil => intro x hx; simp [triples] at hx
  | cons z zs ih =>
    intro x hx
    simp only [triples, List.mem_append, List.mem_map] at hx
    rcases hx with ⟨w, hw, rfl⟩ | ⟨w, hw, rfl⟩
    · obtain ⟨h1, h2, h3⟩ := picks2_mem zs w hw
      exact ⟨List.mem_cons_self .., List.mem_cons_of_mem _ h1, List.mem_cons_of_mem _ h2,
        fun y hy => List.mem_cons_of_mem _ (h3 y hy)⟩
    · obtain ⟨h1, h2, h3, h4⟩ := ih w hw
      refine ⟨List.mem_cons_of_mem _ h1, List.mem_cons_of_mem _ h2, List.mem_cons_of_mem _ h3, fun y hy => ?_⟩
      rcases List.mem_cons.mp hy with rfl | hy
      · exact List.mem_cons_self ..
      · exact List.mem_cons_of_mem _ (h4 y hy)

theorem filterMap_congr' {β γ : Type} (f g : β → Option γ) (l : List β) (h : ∀ x ∈ l, f x = g x) :
    l.filterMap f = l.filterMap g := by
  induction l with
  | nil => rfl
  | cons x xs ih =>
    simp only [List.filterMap_cons, h x (List.mem_cons_self ..)]
    rw [ih (fun y hy => h y (List.mem_cons_of_mem _ hy))]

/-- The vertices `Mesh()` enumerates (3-D) do not depend on the lengths of the normals. -/
theorem meshVerts3_scaled (sq : K → K) (hsq : SqrtOK sq) (tol : K) (l : List (SCon K)) (h : ∀ c ∈ l, 0 < c.s) :
    meshVerts3 sq tol (scaledCs l) = meshVerts3 sq tol (unscaledCs l) := by
  simp only [meshVerts3, scaledCs_eq, unscaledCs_eq, spatialEps_scaled sq hsq tol l h, triples_map,
    List.filterMap_map]
  apply filterMap_congr'
  intro x hx
  obtain ⟨h1, h2, h3, h4⟩ := triples_mem l x hx
  simp only [Function.comp]
  exact vertex3_scaled sq hsq tol _ _ _ _ (h _ h1) (h _ h2) (h _ h3) _ (fun c hc => h c (h4 c hc))

/-- The vertices `Mesh()` enumerates (2-D) do not depend on the lengths of the normals. -/
theorem meshVerts2_scaled (sq : K → K) (hsq : SqrtOK sq) (tol : K) (l : List (SCon K)) (h : ∀ c ∈ l, 0 < c.s) :
    meshVerts2 sq tol (scaledCs l) = meshVerts2 sq tol (unscaledCs l) := by
  simp only [meshVerts2, pairs, scaledCs_eq, unscaledCs_eq, spatialEps_scaled sq hsq tol l h, picks2_map,
    List.filterMap_map]
  apply filterMap_congr'
  intro x hx
  obtain ⟨h1, h2, h3⟩ := picks2_mem l x hx
  simp only [Function.comp]
  exact vertex2_scaled sq hsq tol _ _ _ (h _ h1) (h _ h2) _ (fun c hc => h c (h3 c hc))

end M3d.Bd
