import M3d.Lemmas.BoundedPolyHull
/-!
# `ConvexPolytope.vertex`: the feasibility tolerance is a DISTANCE (C01, round 5)

`ConvexPolytope.Mesh()` builds every face from the plane intersections that `vertex` accepts.  The model of `vertex`
(`M3d.Bd.vertex3 / vertex2 / vertexOk`, `Model/BoundedPoly.lean`, C03's, tied bit for bit by C03's kind `pvert`) accepts
the solution of the three (two) plane equations unless some OTHER constraint is violated by more than
`epsilon * |Normal|` — and `epsilon = spatialEpsilon()` is a length (`1e-8` of the largest plane offset
`|Max| / |Normal|`).  Here:

* `vertexOk_iff_dist`: the acceptance loop accepts `v` iff the signed distance `(n·v − m) / |n|` of `v` to every other
  half-space is at most `epsilon` — a statement about the half-spaces, not about how their inequalities are written;
* `vertex3_on_planes / vertex2_on_planes`: an accepted vertex lies ON its three (two) planes (Cramer, the other
  direction of `M3d.Bd.cramer3`), for non-zero normals and a positive conditioning tolerance;
* `vertexOkAbs` — the acceptance loop with the tolerance NOT multiplied by `|Normal|` (`n·v > Max + epsilon`, what seeded
  change C01-10 writes) — `vertexOkAbs_scaled`: on a system whose inequalities are all multiplied by `s > 0` it is the
  same loop on the unscaled system with tolerance `epsilon / s`: the slack in space grows like `1/s` and is unbounded as
  the normals get short, while `M3d.Bd.vertexOk_scaled` says the real loop does not see `s` at all.
-/
set_option linter.unusedSectionVars false
set_option linter.unusedVariables false
set_option linter.unusedSimpArgs false
namespace M3d.Bd

variable {K : Type} [Field K] [LinearOrder K] [IsStrictOrderedRing K]

/-- the acceptance loop, as inequalities -/
theorem vertexOk_iff (sq : K → K) (epsilon : K) (others : List (Pt K × K)) (v : Pt K) :
    vertexOk sq epsilon others v = true ↔ ∀ l ∈ others, pdot l.1 v ≤ l.2 + epsilon * pnorm sq l.1 := by
  simp only [vertexOk, List.all_eq_true, Bool.not_eq_true', decide_eq_false_iff_not, not_lt]

/-- **the tolerance of `vertex` is a distance**: with non-zero normals, `v` is accepted iff its signed distance to every
other half-space is at most `epsilon` -/
theorem vertexOk_iff_dist (sq : K → K) (epsilon : K) (others : List (Pt K × K)) (v : Pt K)
    (hn : ∀ l ∈ others, 0 < pnorm sq l.1) :
    vertexOk sq epsilon others v = true ↔ ∀ l ∈ others, (pdot l.1 v - l.2) / pnorm sq l.1 ≤ epsilon := by
  rw [vertexOk_iff]
  constructor
  · intro h l hl
    rw [div_le_iff₀ (hn l hl)]
    have := h l hl
    linarith
  · intro h l hl
    have := (div_le_iff₀ (hn l hl)).mp (h l hl)
    linarith

/-- the acceptance loop with an ABSOLUTE tolerance (`l.Normal.Dot(solution) > l.Max + epsilon`): not the code, the
variant the theorems below separate it from -/
def vertexOkAbs (epsilon : K) (others : List (Pt K × K)) (sol : Pt K) : Bool :=
  others.all fun l => !decide (l.2 + epsilon < pdot l.1 sol)

/-- on a system multiplied by `s > 0` the absolute tolerance `epsilon` acts like the tolerance `epsilon / s` on the
unscaled system -/
theorem vertexOkAbs_scaled (epsilon s : K) (hs : 0 < s) (others : List (Pt K × K)) (v : Pt K) :
    vertexOkAbs epsilon (others.map fun l => (pscale l.1 s, l.2 * s)) v = vertexOkAbs (epsilon / s) others v := by
  induction others with
  | nil => rfl
  | cons l ls ih =>
    simp only [vertexOkAbs, List.map_cons, List.all_cons] at ih ⊢
    rw [ih]
    congr 2
    apply decide_eq_decide.mpr
    rw [pdot_pscale_left]
    have e : l.2 * s + epsilon = (l.2 + epsilon / s) * s := by field_simp
    rw [e]
    exact mul_lt_mul_iff_of_pos_right hs

/-- … so every point is accepted once the common factor is short enough: for a given point there is a factor below
which the absolute-tolerance loop accepts it against ANY constraints (`epsilon > 0`) -/
theorem vertexOkAbs_accepts_everything (epsilon : K) (heps : 0 < epsilon) (others : List (Pt K × K)) (v : Pt K) :
    ∃ s0, 0 < s0 ∧ ∀ s, 0 < s → s ≤ s0 →
      vertexOkAbs epsilon (others.map fun l => (pscale l.1 s, l.2 * s)) v = true := by
  induction others with
  | nil => exact ⟨1, one_pos, fun _ _ _ => rfl⟩
  | cons l ls ih =>
    obtain ⟨s0, h0, hs0⟩ := ih
    -- the violation of `l` at `v`
    by_cases hv : pdot l.1 v - l.2 ≤ 0
    · refine ⟨s0, h0, fun s hs hle => ?_⟩
      have := hs0 s hs hle
      simp only [vertexOkAbs, List.map_cons, List.all_cons, Bool.and_eq_true, Bool.not_eq_true',
        decide_eq_false_iff_not, not_lt] at this ⊢
      refine ⟨?_, this⟩
      rw [pdot_pscale_left]
      have : (pdot l.1 v - l.2) * s ≤ 0 := mul_nonpos_of_nonpos_of_nonneg hv (le_of_lt hs)
      nlinarith
    · have hpos : 0 < pdot l.1 v - l.2 := not_le.mp hv
      refine ⟨min s0 (epsilon / (pdot l.1 v - l.2)), lt_min h0 (div_pos heps hpos), fun s hs hle => ?_⟩
      have h1 : s ≤ s0 := le_trans hle (min_le_left _ _)
      have h2 : s ≤ epsilon / (pdot l.1 v - l.2) := le_trans hle (min_le_right _ _)
      have := hs0 s hs h1
      simp only [vertexOkAbs, List.map_cons, List.all_cons, Bool.and_eq_true, Bool.not_eq_true',
        decide_eq_false_iff_not, not_lt] at this ⊢
      refine ⟨?_, this⟩
      rw [pdot_pscale_left]
      have h3 : s * (pdot l.1 v - l.2) ≤ epsilon := (le_div_iff₀ hpos).mp h2
      nlinarith

/-! ## an accepted vertex lies on its planes -/

theorem mulColInv3_on_planes (a b c : Pt K) (ma mb mc : K) (hdet : det3 a b c ≠ 0) :
    pdot a (mulColInv3 a b c (mk3 ma mb mc) (det3 a b c)) = ma ∧
    pdot b (mulColInv3 a b c (mk3 ma mb mc) (det3 a b c)) = mb ∧
    pdot c (mulColInv3 a b c (mk3 ma mb mc) (det3 a b c)) = mc := by
  have hx : ∀ x y z : K, (mk3 x y z).x = x := fun _ _ _ => rfl
  have hy : ∀ x y z : K, (mk3 x y z).y = y := fun _ _ _ => rfl
  have hz : ∀ x y z : K, (mk3 x y z).z = z := fun _ _ _ => rfl
  refine ⟨?_, ?_, ?_⟩
  · simp only [pdot_xyz, mulColInv3, hx, hy, hz]
    have : a.x * ((b.y * c.z - b.z * c.y) * (ma * (1 / det3 a b c)) + (a.z * c.y - a.y * c.z) * (mb * (1 / det3 a b c)) +
          (a.y * b.z - a.z * b.y) * (mc * (1 / det3 a b c))) +
        a.y * ((b.z * c.x - b.x * c.z) * (ma * (1 / det3 a b c)) + (a.x * c.z - a.z * c.x) * (mb * (1 / det3 a b c)) +
          (a.z * b.x - a.x * b.z) * (mc * (1 / det3 a b c))) +
        a.z * ((b.x * c.y - b.y * c.x) * (ma * (1 / det3 a b c)) + (a.y * c.x - a.x * c.y) * (mb * (1 / det3 a b c)) +
          (a.x * b.y - a.y * b.x) * (mc * (1 / det3 a b c))) = det3 a b c * ma * (1 / det3 a b c) := by
      simp only [det3]; ring
    rw [this]; field_simp
  · simp only [pdot_xyz, mulColInv3, hx, hy, hz]
    have : b.x * ((b.y * c.z - b.z * c.y) * (ma * (1 / det3 a b c)) + (a.z * c.y - a.y * c.z) * (mb * (1 / det3 a b c)) +
          (a.y * b.z - a.z * b.y) * (mc * (1 / det3 a b c))) +
        b.y * ((b.z * c.x - b.x * c.z) * (ma * (1 / det3 a b c)) + (a.x * c.z - a.z * c.x) * (mb * (1 / det3 a b c)) +
          (a.z * b.x - a.x * b.z) * (mc * (1 / det3 a b c))) +
        b.z * ((b.x * c.y - b.y * c.x) * (ma * (1 / det3 a b c)) + (a.y * c.x - a.x * c.y) * (mb * (1 / det3 a b c)) +
          (a.x * b.y - a.y * b.x) * (mc * (1 / det3 a b c))) = det3 a b c * mb * (1 / det3 a b c) := by
      simp only [det3]; ring
    rw [this]; field_simp
  · simp only [pdot_xyz, mulColInv3, hx, hy, hz]
    have : c.x * ((b.y * c.z - b.z * c.y) * (ma * (1 / det3 a b c)) + (a.z * c.y - a.y * c.z) * (mb * (1 / det3 a b c)) +
          (a.y * b.z - a.z * b.y) * (mc * (1 / det3 a b c))) +
        c.y * ((b.z * c.x - b.x * c.z) * (ma * (1 / det3 a b c)) + (a.x * c.z - a.z * c.x) * (mb * (1 / det3 a b c)) +
          (a.z * b.x - a.x * b.z) * (mc * (1 / det3 a b c))) +
        c.z * ((b.x * c.y - b.y * c.x) * (ma * (1 / det3 a b c)) + (a.y * c.x - a.x * c.y) * (mb * (1 / det3 a b c)) +
          (a.x * b.y - a.y * b.x) * (mc * (1 / det3 a b c))) = det3 a b c * mc * (1 / det3 a b c) := by
      simp only [det3]; ring
    rw [this]; field_simp

theorem sabs_eq_abs (x : K) : sabs x = |x| := by
  unfold sabs
  split_ifs with h
  · exact (abs_of_nonneg h).symm
  · exact (abs_of_neg (not_le.mp h)).symm

/-- **an accepted 3-D vertex is the intersection point of its three planes and within `epsilon` of every other
half-space** (non-zero normals, positive conditioning tolerance) -/
theorem vertex3_sound (sq : K → K) (tol epsilon : K) (htol : 0 < tol) (l1 l2 l3 : Pt K × K)
    (others : List (Pt K × K)) (h1 : 0 < pnorm sq l1.1) (h2 : 0 < pnorm sq l2.1) (h3 : 0 < pnorm sq l3.1)
    (ho : ∀ l ∈ others, 0 < pnorm sq l.1) (v : Pt K) (hv : vertex3 sq tol epsilon l1 l2 l3 others = some v) :
    pdot l1.1 v = l1.2 ∧ pdot l2.1 v = l2.2 ∧ pdot l3.1 v = l3.2 ∧
      ∀ l ∈ others, (pdot l.1 v - l.2) / pnorm sq l.1 ≤ epsilon := by
  unfold vertex3 at hv
  simp only at hv
  split_ifs at hv with hc hok
  have hdet : det3 l1.1 l2.1 l3.1 ≠ 0 := by
    intro h0
    apply hc
    rw [h0, sabs_eq_abs, abs_zero]
    exact mul_pos (mul_pos (mul_pos h1 h2) h3) htol
  have hv' := Option.some.inj hv
  subst hv'
  obtain ⟨e1, e2, e3⟩ := mulColInv3_on_planes l1.1 l2.1 l3.1 l1.2 l2.2 l3.2 hdet
  exact ⟨e1, e2, e3, (vertexOk_iff_dist sq epsilon others _ ho).mp hok⟩

theorem mulColInv2_on_lines (a b : Pt K) (ma mb : K) (haz : a.z = 0) (hbz : b.z = 0) (hdet : det2 a b ≠ 0) :
    pdot a (mulColInv2 a b (mk3 ma mb 0) (det2 a b)) = ma ∧ pdot b (mulColInv2 a b (mk3 ma mb 0) (det2 a b)) = mb := by
  have hx : ∀ x y z : K, (mk3 x y z).x = x := fun _ _ _ => rfl
  have hy : ∀ x y z : K, (mk3 x y z).y = y := fun _ _ _ => rfl
  have hz : ∀ x y z : K, (mk3 x y z).z = z := fun _ _ _ => rfl
  refine ⟨?_, ?_⟩
  · simp only [pdot_xyz, mulColInv2, hx, hy, hz, haz]
    have : a.x * (b.y * (ma * (1 / det2 a b)) + -a.y * (mb * (1 / det2 a b))) +
        a.y * (-b.x * (ma * (1 / det2 a b)) + a.x * (mb * (1 / det2 a b))) + 0 * 0 = det2 a b * ma * (1 / det2 a b) := by
      simp only [det2]; ring
    rw [this]; field_simp
  · simp only [pdot_xyz, mulColInv2, hx, hy, hz, hbz]
    have : b.x * (b.y * (ma * (1 / det2 a b)) + -a.y * (mb * (1 / det2 a b))) +
        b.y * (-b.x * (ma * (1 / det2 a b)) + a.x * (mb * (1 / det2 a b))) + 0 * 0 = det2 a b * mb * (1 / det2 a b) := by
      simp only [det2]; ring
    rw [this]; field_simp

/-- 2-D twin of `vertex3_sound` (normals in the plane: third slot zero) -/
theorem vertex2_sound (sq : K → K) (tol epsilon : K) (htol : 0 < tol) (l1 l2 : Pt K × K)
    (others : List (Pt K × K)) (h1 : 0 < pnorm sq l1.1) (h2 : 0 < pnorm sq l2.1) (hz1 : l1.1.z = 0) (hz2 : l2.1.z = 0)
    (ho : ∀ l ∈ others, 0 < pnorm sq l.1) (v : Pt K) (hv : vertex2 sq tol epsilon l1 l2 others = some v) :
    pdot l1.1 v = l1.2 ∧ pdot l2.1 v = l2.2 ∧ ∀ l ∈ others, (pdot l.1 v - l.2) / pnorm sq l.1 ≤ epsilon := by
  unfold vertex2 at hv
  simp only at hv
  split_ifs at hv with hc hok
  have hdet : det2 l1.1 l2.1 ≠ 0 := by
    intro h0
    apply hc
    rw [h0, sabs_eq_abs, abs_zero]
    exact mul_pos (mul_pos h1 h2) htol
  have hv' := Option.some.inj hv
  subst hv'
  obtain ⟨e1, e2⟩ := mulColInv2_on_lines l1.1 l2.1 l1.2 l2.2 hz1 hz2 hdet
  exact ⟨e1, e2, (vertexOk_iff_dist sq epsilon others _ ho).mp hok⟩

/-! ## a half-space listed twice -/

/-- **Listing a half-space again (times any positive factor) does not change the polytope**: if every extra constraint
is a positive multiple of a constraint already present — what concatenating the constraint lists of two polytopes with
a common face plane produces — the half-space test is unchanged. -/
theorem polyContains_append_repeats (cs extra : List (Pt K × K))
    (h : ∀ e ∈ extra, ∃ l ∈ cs, ∃ s, 0 < s ∧ e = (pscale l.1 s, l.2 * s)) (p : Pt K) :
    polyContains (cs ++ extra) p = polyContains cs p := by
  rw [Bool.eq_iff_iff, polyContains_iff, polyContains_iff]
  constructor
  · intro hf l hl
    exact hf l (List.mem_append_left _ hl)
  · intro hf e he
    rcases List.mem_append.mp he with he | he
    · exact hf e he
    · obtain ⟨l, hl, s, hs, rfl⟩ := h e he
      have := hf l hl
      show pdot (pscale l.1 s) p ≤ l.2 * s
      rw [pdot_pscale_left]
      exact mul_le_mul_of_nonneg_right this (le_of_lt hs)

end M3d.Bd
