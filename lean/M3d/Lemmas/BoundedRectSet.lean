import M3d.Model.BoundedRectSet
import M3d.Lemmas.RectSetHist
import M3d.Lemmas.RectSetProg
/-! Helper lemmas for C03: what the representation invariant of a `RectSet` (`Inv`, kept by every
history: `hinv`) gives for the reported bounds — `RectSet.Min()/Max()` are ordered and enclose every
stored rect, `Solid()` answers exactly "some stored rect contains the point" and only inside its box. -/
namespace M3d.RectSet
set_option linter.unusedSectionVars false
set_option linter.unusedVariables false
variable {K : Type} [LinearOrder K] [OfNat K 0]

theorem inv_min_le_max {s : RS K} (hI : Inv s) : ∀ ax, ax < 3 → s.min.get ax ≤ s.max.get ax := by
  intro ax hax
  by_cases hne : s.rects = []
  · have he : s.rects.isEmpty = true := by rw [hne]; rfl
    unfold RS.min RS.max
    rw [he]
    exact le_refl _
  · obtain ⟨r, hr⟩ := List.exists_mem_of_ne_nil _ hne
    rw [min_get hne hax, max_get hne hax]
    have he := hI.ends r hr ax hax
    exact le_trans (sorted_head_le (hI.sorted ax hax) he.1) (sorted_le_last (hI.sorted ax hax) he.1)

theorem inv_box_encloses {s : RS K} (hI : Inv s) {r : Rect K} (hr : r ∈ s.rects) {p : V3 K}
    (hc : r.contains p = true) : (⟨s.min, s.max⟩ : Rect K).contains p = true := by
  have hne : s.rects ≠ [] := List.ne_nil_of_mem hr
  rw [Rect.contains_iff] at hc ⊢
  intro i hi
  show s.min.get i ≤ p.get i ∧ p.get i ≤ s.max.get i
  rw [min_get hne hi, max_get hne hi]
  have he := hI.ends r hr i hi
  exact ⟨le_trans (sorted_head_le (hI.sorted i hi) he.1) (hc i hi).1,
    le_trans (hc i hi).2 (sorted_le_last (hI.sorted i hi) he.2)⟩

theorem solidBox_two {s : RS K} (h : 2 ≤ s.rects.length) : solidBox s = ⟨s.min, s.max⟩ := by
  unfold solidBox
  rcases hrs : s.rects with _ | ⟨r0, _ | ⟨r1, rest⟩⟩
  · rw [hrs] at h; simp at h
  · rw [hrs] at h; simp at h
  · rfl

theorem inv_solid {s : RS K} (hI : Inv s) :
    ∃ t, solidOf s = some t ∧ (∀ p, t.contains p = s.anyRect p) ∧
      (∀ p, t.contains p = true → (solidBox s).contains p = true) := by
  obtain ⟨t, ht, hw⟩ := build_spec (s.rects.length + 1) s hI (Nat.lt_succ_self _)
  have hu : ∀ p, t.contains p = s.anyRect p := fun p => by
    rw [Tree.contains_eq_any t hw p]; exact (build_rects _ _ _ ht).any_eq
  refine ⟨t, ht, hu, ?_⟩
  intro p hp
  rw [hu p] at hp
  obtain ⟨r, hr, hc⟩ := List.any_eq_true.mp hp
  rcases hrs : s.rects with _ | ⟨r0, _ | ⟨r1, rest⟩⟩
  · rw [hrs] at hr; cases hr
  · have e : solidBox s = r0 := by unfold solidBox; rw [hrs]
    rw [hrs, List.mem_singleton] at hr
    rw [e, ← hr]; exact hc
  · rw [solidBox_two (by rw [hrs]; simp)]
    exact inv_box_encloses hI hr hc

theorem inv_solidBox_ordered {s : RS K} (hI : Inv s)
    (h1 : ∀ r, s.rects = [r] → ∀ ax, ax < 3 → r.lo.get ax ≤ r.hi.get ax) :
    ∀ ax, ax < 3 → (solidBox s).lo.get ax ≤ (solidBox s).hi.get ax := by
  intro ax hax
  rcases hrs : s.rects with _ | ⟨r0, _ | ⟨r1, rest⟩⟩
  · have e : solidBox s = ⟨⟨0, 0, 0⟩, ⟨0, 0, 0⟩⟩ := by unfold solidBox; rw [hrs]
    rw [e]
  · have e : solidBox s = r0 := by unfold solidBox; rw [hrs]
    rw [e]; exact h1 r0 hrs ax hax
  · rw [solidBox_two (by rw [hrs]; simp)]
    exact inv_min_le_max hI ax hax

/-- every object of a program is a history value at every moment -/
theorem progStates_hist (cs : List (Cmd K)) :
    ∀ s ∈ progStates (fun _ => (RS.empty : RS K)) cs, ∃ h : Hist K, s = h.eval := by
  intro s hs
  rw [progStates_eq cs (fun _ => RS.empty) (fun _ => Hist.new) (fun _ => rfl)] at hs
  obtain ⟨h, _, rfl⟩ := List.mem_map.mp hs
  exact ⟨h, rfl⟩

theorem progFinal_hist (cs : List (Cmd K)) (i : Nat) :
    ∃ h : Hist K, progFinal (fun _ => (RS.empty : RS K)) cs i = h.eval :=
  ⟨_, progFinal_eval cs (fun _ => RS.empty) (fun _ => Hist.new) (fun _ => rfl) i⟩

end M3d.RectSet
