import M3d.Model.CollideQuery
import M3d.Lemmas.CollideRect2
import M3d.Lemmas.CollideParity
import M3d.Lemmas.CollideSlab
import M3d.Lemmas.Transform
/-!
# C07 — `Triangle.TriangleCollisions` and the mesh collider's `TriangleCollisions`

* `findRange_inv`: the closure `findContainedRange` returns the interval of the parameters that satisfy its three
  constraints (`RangeInv`: every admissible parameter lies in the returned range, and when the range has an interior
  it consists of admissible parameters; the early exit `(0, 0)` is a range without interior).
* `triTriLine_eq` / `triTriLine_unique`: the parametrisation `o + t·d` of the common points of the two planes.
* `triTriCore_some` / `triTriCore_none`: the reported segment is exactly the set of common points of the two
  triangles; nothing reported ⇒ at most one common point.
* `treeTriTri_eq`: the hierarchy with the bounds test returns the concatenation of its leaves' answers.
-/
set_option linter.unusedSectionVars false
namespace M3d.Col

variable {K : Type} [Field K] [LinearOrder K] [IsStrictOrderedRing K]

/-! ## ranges with infinite ends -/

/-- `lo ≤ t`, `none` = `-∞` -/
def LoLe : Option K → K → Prop
  | none, _ => True
  | some a, t => a ≤ t

/-- `t ≤ hi`, `none` = `+∞` -/
def HiGe : Option K → K → Prop
  | none, _ => True
  | some b, t => t ≤ b

/-- the range has an interior (Go: `!(min >= max)`) -/
def RangeLt (r : Option K × Option K) : Prop :=
  match r.1, r.2 with
  | some a, some b => a < b
  | _, _ => True

theorem rangeEmpty_iff (r : Option K × Option K) : rangeEmpty r = true ↔ ¬ RangeLt r := by
  obtain ⟨lo, hi⟩ := r
  cases lo <;> cases hi <;> simp [rangeEmpty, RangeLt]

/-- The range `r` describes the set `{t | F t}`: it contains it, and if it has an interior it is contained in it. -/
def RangeInv (r : Option K × Option K) (F : K → Prop) : Prop :=
  (∀ t, F t → LoLe r.1 t ∧ HiGe r.2 t) ∧ (RangeLt r → ∀ t, LoLe r.1 t → HiGe r.2 t → F t)

theorem RangeInv.congr {r : Option K × Option K} {F G : K → Prop} (h : RangeInv r F) (hfg : ∀ t, F t ↔ G t) :
    RangeInv r G :=
  ⟨fun t hg => h.1 t ((hfg t).2 hg), fun hl t h1 h2 => (hfg t).1 (h.2 hl t h1 h2)⟩

/-- a range without interior admits at most one parameter -/
theorem RangeInv.unique {r : Option K × Option K} {F : K → Prop} (h : RangeInv r F) (hne : ¬ RangeLt r)
    (t t' : K) (ht : F t) (ht' : F t') : t = t' := by
  obtain ⟨lo, hi⟩ := r
  cases lo with
  | none => exact absurd (by simp [RangeLt]) hne
  | some a =>
    cases hi with
    | none => exact absurd (by simp [RangeLt]) hne
    | some b =>
      have hba : b ≤ a := by simpa [RangeLt] using hne
      have h1 := h.1 t ht
      have h2 := h.1 t' ht'
      simp only [LoLe, HiGe] at h1 h2
      linarith [h1.1, h1.2, h2.1, h2.2]

theorem updFirst_inv (o d : K) (r : Option K × Option K) (F : K → Prop) (h : RangeInv r F) :
    RangeInv (updFirst o d r) (fun t => F t ∧ 0 ≤ o + t * d) := by
  unfold updFirst
  by_cases hd0 : d = 0
  · rw [if_pos ((isZero_iff d).2 hd0)]
    subst hd0
    by_cases ho : o < 0
    · rw [if_pos ho]
      refine ⟨fun t ht => ?_, fun hl => ?_⟩
      · have := ht.2; simp at this; linarith
      · simp [RangeLt] at hl
    · rw [if_neg ho]
      exact h.congr fun t => by simp [not_lt.1 ho]
  · rw [if_neg (by rw [isZero_iff]; exact hd0)]
    obtain ⟨lo, hi⟩ := r
    by_cases hneg : d < 0
    · rw [if_pos hneg]
      have hc : ∀ t, 0 ≤ o + t * d ↔ t ≤ -o / d := by
        intro t; rw [le_div_iff_of_neg hneg]; constructor <;> intro h' <;> linarith
      refine ⟨fun t ht => ?_, fun hl t h1 h2 => ?_⟩
      · obtain ⟨hF, hcn⟩ := ht
        have := h.1 t hF
        refine ⟨this.1, ?_⟩
        cases hi with
        | none => simpa [HiGe, minHi] using (hc t).1 hcn
        | some x =>
          simp only [HiGe, minHi, minS_eq] at this ⊢
          exact le_min this.2 ((hc t).1 hcn)
      · cases hi with
        | none =>
          simp only [HiGe, minHi] at h2
          exact ⟨h.2 (by cases lo <;> simp [RangeLt]) t h1 trivial, (hc t).2 h2⟩
        | some x =>
          simp only [HiGe, minHi, minS_eq] at h2
          have hlt : RangeLt (lo, some x) := by
            cases lo with
            | none => simp [RangeLt]
            | some a =>
              simp only [RangeLt, minHi, minS_eq] at hl ⊢
              exact lt_of_lt_of_le hl (min_le_left _ _)
          exact ⟨h.2 hlt t h1 (le_trans h2 (min_le_left _ _)), (hc t).2 (le_trans h2 (min_le_right _ _))⟩
    · rw [if_neg hneg]
      have hpos : 0 < d := lt_of_le_of_ne (not_lt.1 hneg) (Ne.symm hd0)
      have hc : ∀ t, 0 ≤ o + t * d ↔ -o / d ≤ t := by
        intro t; rw [div_le_iff₀ hpos]; constructor <;> intro h' <;> linarith
      refine ⟨fun t ht => ?_, fun hl t h1 h2 => ?_⟩
      · obtain ⟨hF, hcn⟩ := ht
        have := h.1 t hF
        refine ⟨?_, this.2⟩
        cases lo with
        | none => simpa [LoLe, maxLo] using (hc t).1 hcn
        | some x =>
          simp only [LoLe, maxLo, maxS_eq] at this ⊢
          exact max_le this.1 ((hc t).1 hcn)
      · cases lo with
        | none =>
          simp only [LoLe, maxLo] at h1
          exact ⟨h.2 (by simp [RangeLt]) t trivial h2, (hc t).2 h1⟩
        | some x =>
          simp only [LoLe, maxLo, maxS_eq] at h1
          have hlt : RangeLt (some x, hi) := by
            cases hi with
            | none => simp [RangeLt]
            | some b =>
              simp only [RangeLt, maxLo, maxS_eq] at hl ⊢
              exact lt_of_le_of_lt (le_max_left _ _) hl
          exact ⟨h.2 hlt t (le_trans (le_max_left _ _) h1) h2, (hc t).2 (le_trans (le_max_right _ _) h1)⟩

/-- **`findContainedRange`** returns the range of the `t` with `o1 + t·d1 ≥ 0`, `o2 + t·d2 ≥ 0` and
`(o1 + o2) + t·(d1 + d2) ≤ 1`. -/
theorem findRange_inv (o1 o2 d1 d2 : K) :
    RangeInv (findRange o1 o2 d1 d2)
      (fun t => 0 ≤ o1 + t * d1 ∧ 0 ≤ o2 + t * d2 ∧ (o1 + t * d1) + (o2 + t * d2) ≤ 1) := by
  unfold findRange
  simp only []
  have hshape : ∀ (G : K → Prop) (t : K),
      ((G t ∧ 0 ≤ o1 + t * d1) ∧ 0 ≤ o2 + t * d2) ↔ (0 ≤ o1 + t * d1 ∧ 0 ≤ o2 + t * d2 ∧ G t) := by
    intro G t; constructor
    · rintro ⟨⟨h1, h2⟩, h3⟩; exact ⟨h2, h3, h1⟩
    · rintro ⟨h2, h3, h1⟩; exact ⟨⟨h1, h2⟩, h3⟩
  by_cases hz : d1 + d2 = 0
  · rw [if_pos ((isZero_iff _).2 hz)]
    by_cases hs : 1 < o1 + o2
    · rw [if_pos hs]
      refine ⟨fun t ht => ?_, fun hl => ?_⟩
      · exfalso
        have : (o1 + t * d1) + (o2 + t * d2) = o1 + o2 + t * (d1 + d2) := by ring
        rw [hz] at this
        linarith [ht.2.2]
      · simp [RangeLt] at hl
    · rw [if_neg hs]
      have h0 : RangeInv ((none, none) : Option K × Option K) (fun _ => True) :=
        ⟨fun _ _ => ⟨trivial, trivial⟩, fun _ _ _ _ => trivial⟩
      refine (updFirst_inv o2 d2 _ _ (updFirst_inv o1 d1 _ _ h0)).congr fun t => ?_
      rw [hshape (fun _ => True) t]
      have : (o1 + t * d1) + (o2 + t * d2) = o1 + o2 + t * (d1 + d2) := by ring
      rw [this, hz]
      simp [not_lt.1 hs]
  · rw [if_neg (by rw [isZero_iff]; exact hz)]
    have hsum : ∀ t, (o1 + t * d1) + (o2 + t * d2) = o1 + o2 + t * (d1 + d2) := fun t => by ring
    by_cases hp : 0 < d1 + d2
    · rw [if_pos hp]
      have h0 : RangeInv ((none, some ((1 - (o1 + o2)) / (d1 + d2))) : Option K × Option K)
          (fun t => t ≤ (1 - (o1 + o2)) / (d1 + d2)) :=
        ⟨fun t ht => ⟨trivial, ht⟩, fun _ t _ h2 => h2⟩
      refine (updFirst_inv o2 d2 _ _ (updFirst_inv o1 d1 _ _ h0)).congr fun t => ?_
      rw [hshape (fun t => t ≤ (1 - (o1 + o2)) / (d1 + d2)) t, hsum t, le_div_iff₀ hp]
      constructor
      · rintro ⟨h1, h2, h3⟩; exact ⟨h1, h2, by linarith⟩
      · rintro ⟨h1, h2, h3⟩; exact ⟨h1, h2, by linarith⟩
    · rw [if_neg hp]
      have hn : d1 + d2 < 0 := lt_of_le_of_ne (not_lt.1 hp) hz
      have h0 : RangeInv ((some ((1 - (o1 + o2)) / (d1 + d2)), none) : Option K × Option K)
          (fun t => (1 - (o1 + o2)) / (d1 + d2) ≤ t) :=
        ⟨fun t ht => ⟨ht, trivial⟩, fun _ t h1 _ => h1⟩
      refine (updFirst_inv o2 d2 _ _ (updFirst_inv o1 d1 _ _ h0)).congr fun t => ?_
      rw [hshape (fun t => (1 - (o1 + o2)) / (d1 + d2) ≤ t) t, hsum t, div_le_iff_of_neg hn]
      constructor
      · rintro ⟨h1, h2, h3⟩; exact ⟨h1, h2, by linarith⟩
      · rintro ⟨h1, h2, h3⟩; exact ⟨h1, h2, by linarith⟩

theorem rangeInter_inv (r1 r2 : Option K × Option K) (F1 F2 : K → Prop) (h1 : RangeInv r1 F1)
    (h2 : RangeInv r2 F2) : RangeInv (rangeInter r1 r2) (fun t => F1 t ∧ F2 t) := by
  obtain ⟨l1, u1⟩ := r1
  obtain ⟨l2, u2⟩ := r2
  have hlo : ∀ t, LoLe (rangeInter (l1, u1) (l2, u2)).1 t ↔ LoLe l1 t ∧ LoLe l2 t := by
    intro t; cases l1 <;> cases l2 <;> simp [rangeInter, LoLe, maxS_eq]
  have hhi : ∀ t, HiGe (rangeInter (l1, u1) (l2, u2)).2 t ↔ HiGe u1 t ∧ HiGe u2 t := by
    intro t; cases u1 <;> cases u2 <;> simp [rangeInter, HiGe, minS_eq]
  have hlt : RangeLt (rangeInter (l1, u1) (l2, u2)) → RangeLt (l1, u1) ∧ RangeLt (l2, u2) := by
    cases l1 <;> cases l2 <;> cases u1 <;> cases u2 <;>
      simp only [rangeInter, RangeLt, maxS_eq, minS_eq, true_and, and_true, imp_self, implies_true,
        max_lt_iff, lt_min_iff] <;> intro h <;> first | exact h | exact h.1 | exact h.2 | exact ⟨h.1.1, h.2.2⟩
  refine ⟨fun t ht => ?_, fun hl t ha hb => ?_⟩
  · have a := h1.1 t ht.1
    have b := h2.1 t ht.2
    exact ⟨(hlo t).2 ⟨a.1, b.1⟩, (hhi t).2 ⟨a.2, b.2⟩⟩
  · obtain ⟨e1, e2⟩ := hlt hl
    exact ⟨h1.2 e1 t ((hlo t).1 ha).1 ((hhi t).1 hb).1, h2.2 e2 t ((hlo t).1 ha).2 ((hhi t).1 hb).2⟩

/-! ### the second range is finite -/

theorem updFirst_keeps (o d : K) (r : Option K × Option K) :
    (r.1.isSome = true → (updFirst o d r).1.isSome = true) ∧ (r.2.isSome = true → (updFirst o d r).2.isSome = true) := by
  unfold updFirst
  split
  · split <;> simp
  · split <;> simp

theorem updFirst_hi (o d : K) (hd : d < 0) (r : Option K × Option K) : (updFirst o d r).2.isSome = true := by
  unfold updFirst
  rw [if_neg (by rw [isZero_iff]; exact ne_of_lt hd), if_pos hd]; rfl

theorem updFirst_lo (o d : K) (hd : 0 < d) (r : Option K × Option K) : (updFirst o d r).1.isSome = true := by
  unfold updFirst
  rw [if_neg (by rw [isZero_iff]; exact ne_of_gt hd), if_neg (not_lt.2 hd.le)]; rfl

/-- `findContainedRange(o.Z, 0, d.Z, 1)` never has an infinite end. -/
theorem findRange_z_finite (oz dz : K) : ∃ a b, findRange oz 0 dz 1 = (some a, some b) := by
  have key : (findRange oz 0 dz 1).1.isSome = true ∧ (findRange oz 0 dz 1).2.isSome = true := by
    unfold findRange
    simp only []
    by_cases hz : dz + 1 = 0
    · rw [if_pos ((isZero_iff _).2 hz)]
      split
      · simp
      · have hd : dz < 0 := by linarith
        exact ⟨updFirst_lo 0 1 one_pos _, (updFirst_keeps 0 1 _).2 (updFirst_hi oz dz hd _)⟩
    · rw [if_neg (by rw [isZero_iff]; exact hz)]
      refine ⟨updFirst_lo 0 1 one_pos _, (updFirst_keeps 0 1 _).2 ?_⟩
      by_cases hp : 0 < dz + 1
      · rw [if_pos hp]
        exact (updFirst_keeps oz dz _).2 rfl
      · rw [if_neg hp]
        have hd : dz < 0 := by
          have : dz + 1 < 0 := lt_of_le_of_ne (not_lt.1 hp) hz
          linarith
        exact updFirst_hi oz dz hd _
  obtain ⟨h1, h2⟩ := key
  cases ha : (findRange oz 0 dz 1).1 with
  | none => rw [ha] at h1; cases h1
  | some a =>
    cases hb : (findRange oz 0 dz 1).2 with
    | none => rw [hb] at h2; cases h2
    | some b => exact ⟨a, b, Prod.ext ha hb⟩

/-! ## the line of common points of the two planes -/

theorem det_ofColumns_neg (v1 v2 w : V3 K) :
    (Tf.M3.ofColumns v1.toTf v2.toTf (w.scale (-1)).toTf).det = -((v1.cross v2).dot w) := by
  simp only [Tf.M3.det, Tf.M3.ofColumns, V3.toTf, V3.scale, V3.cross, V3.dot]; ring

/-- the vectors `(w3, w4)`: `(v3, v4)`, swapped when the determinant with `v4` is larger in absolute value -/
def triTriW (a b c a' b' c' : V3 K) : V3 K × V3 K :=
  let v1 := b.sub a
  let v2 := c.sub a
  let v3 := b'.sub a'
  let v4 := c'.sub a'
  if |(v1.cross v2).dot v3| < |(v1.cross v2).dot v4| then (v4, v3) else (v3, v4)

theorem triTriLine_spec (a b c a' b' c' : V3 K)
    (hnp : ((b.sub a).cross (c.sub a)).dot (b'.sub a') ≠ 0 ∨ ((b.sub a).cross (c.sub a)).dot (c'.sub a') ≠ 0) :
    let w := triTriW a b c a' b' c'
    let M := Tf.M3.ofColumns (b.sub a).toTf (c.sub a).toTf (w.1.scale (-1)).toTf
    M.det ≠ 0 ∧
    triTriLine a b c a' b' c' = (V3.ofTf (M.inverse.mulColumn (a'.sub a).toTf), V3.ofTf (M.inverse.mulColumn w.2.toTf)) := by
  intro w M
  have hw : w = triTriW a b c a' b' c' := rfl
  unfold triTriW at hw
  simp only [] at hw
  constructor
  · show (Tf.M3.ofColumns (b.sub a).toTf (c.sub a).toTf (w.1.scale (-1)).toTf).det ≠ 0
    rw [det_ofColumns_neg, hw]
    split
    · rename_i h
      simp only []
      intro h0
      rw [neg_eq_zero] at h0
      rw [h0, abs_zero] at h
      exact absurd h (not_lt.2 (abs_nonneg _))
    · rename_i h
      simp only []
      intro h0
      rw [neg_eq_zero] at h0
      rw [h0, abs_zero, not_lt, abs_nonpos_iff] at h
      rcases hnp with h' | h'
      · exact h' h0
      · exact h' h
  · unfold triTriLine
    simp only [absS_eq, det_ofColumns_neg, abs_neg]
    show _ = (V3.ofTf ((Tf.M3.ofColumns (b.sub a).toTf (c.sub a).toTf (w.1.scale (-1)).toTf).inverse.mulColumn
      (a'.sub a).toTf), V3.ofTf ((Tf.M3.ofColumns (b.sub a).toTf (c.sub a).toTf
        (w.1.scale (-1)).toTf).inverse.mulColumn w.2.toTf))
    rw [hw]
    by_cases h : |((b.sub a).cross (c.sub a)).dot (b'.sub a')| < |((b.sub a).cross (c.sub a)).dot (c'.sub a')|
    · simp only [h, decide_true, if_true]
    · simp only [h, decide_false, if_false, Bool.false_eq_true]

/-- **the parametrisation**: for every `t` the point `collisionPoint(t)` of the first triangle's plane, with the
coefficients `(o.x + d.x·t, o.y + d.y·t)`, is the point `a' + (o.z + d.z·t)·w3 + t·w4` of the second plane. -/
theorem triTriLine_eq (a b c a' b' c' : V3 K)
    (hnp : ((b.sub a).cross (c.sub a)).dot (b'.sub a') ≠ 0 ∨ ((b.sub a).cross (c.sub a)).dot (c'.sub a') ≠ 0)
    (t : K) :
    let od := triTriLine a b c a' b' c'
    let w := triTriW a b c a' b' c'
    triTriPoint a b c od.1 od.2 t =
      (a'.add (w.1.scale (od.1.z + od.2.z * t))).add (w.2.scale t) := by
  intro od w
  obtain ⟨hdet, hline⟩ := triTriLine_spec a b c a' b' c' hnp
  have hod : od = triTriLine a b c a' b' c' := rfl
  rw [hline] at hod
  have hw : w = triTriW a b c a' b' c' := rfl
  rw [← hw] at hdet hod
  set M := Tf.M3.ofColumns (b.sub a).toTf (c.sub a).toTf (w.1.scale (-1)).toTf with hM
  have e1 := Tf.M3.mulColumn_inverse M hdet (a'.sub a).toTf
  have e2 := Tf.M3.mulColumn_inverse M hdet w.2.toTf
  generalize M.inverse = Mi at hod e1 e2
  rw [hod, hM] at *
  simp only [Tf.M3.mulColumn, Tf.M3.ofColumns, V3.toTf, V3.ofTf, V3.scale, V3.sub, Tf.V3.mk.injEq] at e1 e2
  obtain ⟨x1, y1, z1⟩ := e1
  obtain ⟨x2, y2, z2⟩ := e2
  simp only [triTriPoint, V3.add, V3.scale, V3.sub, V3.toTf, V3.ofTf, Tf.M3.mulColumn, V3.mk.injEq]
  refine ⟨?_, ?_, ?_⟩
  · linear_combination x1 + t * x2
  · linear_combination y1 + t * y2
  · linear_combination z1 + t * z2

/-- … and every common point of the two planes, `a + u·v1 + v·v2 = a' + p·w3 + q·w4`, is on that line with `t = q`. -/
theorem triTriLine_unique (a b c a' b' c' : V3 K)
    (hnp : ((b.sub a).cross (c.sub a)).dot (b'.sub a') ≠ 0 ∨ ((b.sub a).cross (c.sub a)).dot (c'.sub a') ≠ 0)
    (u v p q : K)
    (h : (a.add ((b.sub a).scale u)).add ((c.sub a).scale v) =
      (a'.add ((triTriW a b c a' b' c').1.scale p)).add ((triTriW a b c a' b' c').2.scale q)) :
    let od := triTriLine a b c a' b' c'
    u = od.1.x + od.2.x * q ∧ v = od.1.y + od.2.y * q ∧ p = od.1.z + od.2.z * q := by
  intro od
  obtain ⟨hdet, hline⟩ := triTriLine_spec a b c a' b' c' hnp
  have hod : od = triTriLine a b c a' b' c' := rfl
  rw [hline] at hod
  set w := triTriW a b c a' b' c' with hw
  set M := Tf.M3.ofColumns (b.sub a).toTf (c.sub a).toTf (w.1.scale (-1)).toTf with hM
  -- `M (u, v, p) = (a' - a) + q·w4`
  have hy : M.mulColumn ⟨u, v, p⟩ = ((a'.sub a).toTf).add (w.2.toTf.scale q) := by
    simp only [V3.add, V3.scale, V3.sub, V3.mk.injEq] at h
    obtain ⟨hx, hy, hz⟩ := h
    simp only [hM, Tf.M3.mulColumn, Tf.M3.ofColumns, V3.toTf, V3.scale, V3.sub, Tf.V3.add, Tf.V3.scale,
      Tf.V3.mk.injEq]
    refine ⟨?_, ?_, ?_⟩
    · linear_combination hx
    · linear_combination hy
    · linear_combination hz
  have hinv := Tf.M3.inverse_mulColumn M hdet ⟨u, v, p⟩
  rw [hy] at hinv
  rw [hod]
  generalize M.inverse = Mi at hinv ⊢
  simp only [Tf.M3.mulColumn, Tf.V3.add, Tf.V3.scale, V3.toTf, V3.sub, Tf.V3.mk.injEq] at hinv
  obtain ⟨i1, i2, i3⟩ := hinv
  simp only [V3.ofTf, Tf.M3.mulColumn, V3.toTf, V3.sub]
  refine ⟨?_, ?_, ?_⟩
  · linear_combination -i1
  · linear_combination -i2
  · linear_combination -i3

/-! ## common points of two triangles -/

/-- the two triangles have the point `x` in common -/
def TriCommon (a b c a' b' c' x : V3 K) : Prop := InTri (a, b, c) x ∧ InTri (a', b', c') x

/-- the constraints of the first / second call of `findContainedRange` -/
def triTriF (a b c a' b' c' : V3 K) (t : K) : Prop :=
  let od := triTriLine a b c a' b' c'
  (0 ≤ od.1.x + t * od.2.x ∧ 0 ≤ od.1.y + t * od.2.y ∧ (od.1.x + t * od.2.x) + (od.1.y + t * od.2.y) ≤ 1) ∧
  (0 ≤ od.1.z + t * od.2.z ∧ 0 ≤ 0 + t * 1 ∧ (od.1.z + t * od.2.z) + (0 + t * 1) ≤ 1)

/-- the second triangle in terms of `(w3, w4)` -/
theorem inTri_w (a b c a' b' c' x : V3 K) :
    InTri (a', b', c') x ↔ ∃ p q, 0 ≤ p ∧ 0 ≤ q ∧ p + q ≤ 1 ∧
      x = (a'.add ((triTriW a b c a' b' c').1.scale p)).add ((triTriW a b c a' b' c').2.scale q) := by
  unfold triTriW InTri triPoint
  simp only []
  split
  · constructor
    · rintro ⟨u, v, h1, h2, h3, rfl⟩
      refine ⟨v, u, h2, h1, by linarith, ?_⟩
      simp only [V3.add, V3.scale, V3.sub, V3.mk.injEq]; refine ⟨?_, ?_, ?_⟩ <;> ring
    · rintro ⟨p, q, h1, h2, h3, rfl⟩
      refine ⟨q, p, h2, h1, by linarith, ?_⟩
      simp only [V3.add, V3.scale, V3.sub, V3.mk.injEq]; refine ⟨?_, ?_, ?_⟩ <;> ring
  · exact Iff.rfl

/-- **the common points of the two triangles are the points `collisionPoint(t)` with admissible `t`** -/
theorem triCommon_iff (a b c a' b' c' : V3 K)
    (hnp : ((b.sub a).cross (c.sub a)).dot (b'.sub a') ≠ 0 ∨ ((b.sub a).cross (c.sub a)).dot (c'.sub a') ≠ 0)
    (x : V3 K) :
    TriCommon a b c a' b' c' x ↔
      ∃ t, triTriF a b c a' b' c' t ∧
        x = triTriPoint a b c (triTriLine a b c a' b' c').1 (triTriLine a b c a' b' c').2 t := by
  unfold TriCommon
  rw [inTri_w a b c a' b' c' x]
  constructor
  · rintro ⟨⟨u, v, hu, hv, huv, hx⟩, p, q, hp, hq, hpq, hx'⟩
    have hx1 : x = (a.add ((b.sub a).scale u)).add ((c.sub a).scale v) := hx
    obtain ⟨e1, e2, e3⟩ := triTriLine_unique a b c a' b' c' hnp u v p q (by rw [← hx1, hx'])
    subst e1 e2 e3
    refine ⟨q, ?_, ?_⟩
    · unfold triTriF
      simp only []
      refine ⟨⟨?_, ?_, ?_⟩, ?_, ?_, ?_⟩ <;> linarith
    · rw [hx1]; rfl
  · rintro ⟨t, hF, hx⟩
    unfold triTriF at hF
    simp only [] at hF
    obtain ⟨⟨f1, f2, f3⟩, g1, g2, g3⟩ := hF
    constructor
    · refine ⟨_, _, ?_, ?_, ?_, hx⟩ <;> linarith
    · refine ⟨(triTriLine a b c a' b' c').1.z + (triTriLine a b c a' b' c').2.z * t, t, by linarith, by linarith,
        by linarith, ?_⟩
      rw [hx]; exact triTriLine_eq a b c a' b' c' hnp t

theorem triTriPoint_affine (a b c o d : V3 K) (mn mx s : K) :
    triTriPoint a b c o d (mn + s * (mx - mn)) =
      (triTriPoint a b c o d mn).add (((triTriPoint a b c o d mx).sub (triTriPoint a b c o d mn)).scale s) := by
  simp only [triTriPoint, V3.add, V3.scale, V3.sub, V3.mk.injEq]; refine ⟨?_, ?_, ?_⟩ <;> ring

/-- the combined range of `triTriCore` -/
theorem triTriRange_inv (a b c a' b' c' : V3 K) :
    let od := triTriLine a b c a' b' c'
    RangeInv (rangeInter (findRange od.1.x od.1.y od.2.x od.2.y) (findRange od.1.z 0 od.2.z 1))
      (triTriF a b c a' b' c') :=
  rangeInter_inv _ _ _ _ (findRange_inv _ _ _ _) (findRange_inv _ _ _ _)

/-- what `triTriCore` returns, in terms of its ranges -/
theorem triTriCore_cases (a b c a' b' c' : V3 K) :
    let od := triTriLine a b c a' b' c'
    let r1 := findRange od.1.x od.1.y od.2.x od.2.y
    let r2 := findRange od.1.z 0 od.2.z 1
    let r := rangeInter r1 r2
    (∃ mn mx, r = (some mn, some mx) ∧ RangeLt r1 ∧ RangeLt r2 ∧ mn < mx ∧
        triTriCore a b c a' b' c' = some (triTriPoint a b c od.1 od.2 mn, triTriPoint a b c od.1 od.2 mx)) ∨
    (triTriCore a b c a' b' c' = none ∧ (¬ RangeLt r1 ∨ ¬ RangeLt r2 ∨ ¬ RangeLt r)) := by
  intro od r1 r2 r
  unfold triTriCore
  simp only []
  by_cases h1 : rangeEmpty (findRange od.1.x od.1.y od.2.x od.2.y) = true
  · right; rw [if_pos h1]; exact ⟨rfl, Or.inl ((rangeEmpty_iff _).1 h1)⟩
  rw [if_neg h1]
  by_cases h2 : rangeEmpty (findRange od.1.z 0 od.2.z 1) = true
  · right; rw [if_pos h2]; exact ⟨rfl, Or.inr (Or.inl ((rangeEmpty_iff _).1 h2))⟩
  rw [if_neg h2]
  by_cases h3 : rangeEmpty (rangeInter (findRange od.1.x od.1.y od.2.x od.2.y) (findRange od.1.z 0 od.2.z 1)) = true
  · right; rw [if_pos h3]; exact ⟨rfl, Or.inr (Or.inr ((rangeEmpty_iff _).1 h3))⟩
  rw [if_neg h3]
  left
  have e1 : RangeLt r1 := by by_contra hc; exact h1 ((rangeEmpty_iff _).2 hc)
  have e2 : RangeLt r2 := by by_contra hc; exact h2 ((rangeEmpty_iff _).2 hc)
  have e3 : RangeLt r := by by_contra hc; exact h3 ((rangeEmpty_iff _).2 hc)
  obtain ⟨za, zb, hz⟩ := findRange_z_finite od.1.z od.2.z
  -- the intersection with a finite range is finite
  have hfin : ∃ mn mx, r = (some mn, some mx) := by
    show ∃ mn mx, rangeInter r1 r2 = (some mn, some mx)
    have : r2 = (some za, some zb) := hz
    rw [this]
    obtain ⟨l1, u1⟩ := r1
    cases l1 <;> cases u1 <;> simp [rangeInter]
  obtain ⟨mn, mx, hr⟩ := hfin
  refine ⟨mn, mx, hr, e1, e2, ?_, ?_⟩
  · have := e3; rw [hr] at this; simpa [RangeLt] using this
  · have hr' : rangeInter (findRange od.1.x od.1.y od.2.x od.2.y) (findRange od.1.z 0 od.2.z 1) = (some mn, some mx) := hr
    rw [hr']

/-- **`TriangleCollisions`, the reported segment**: if the interval computation returns the end points `(p1, p2)`,
the common points of the two triangles are exactly the points of the segment `p1 p2`. -/
theorem triTriCore_some (a b c a' b' c' : V3 K)
    (hnp : ((b.sub a).cross (c.sub a)).dot (b'.sub a') ≠ 0 ∨ ((b.sub a).cross (c.sub a)).dot (c'.sub a') ≠ 0)
    (p1 p2 : V3 K) (h : triTriCore a b c a' b' c' = some (p1, p2)) (x : V3 K) :
    TriCommon a b c a' b' c' x ↔ ∃ s, 0 ≤ s ∧ s ≤ 1 ∧ x = p1.add ((p2.sub p1).scale s) := by
  rcases triTriCore_cases a b c a' b' c' with ⟨mn, mx, hr, _, _, hlt, hc⟩ | ⟨hc, _⟩
  · rw [hc] at h
    simp only [Option.some.injEq, Prod.mk.injEq] at h
    obtain ⟨rfl, rfl⟩ := h
    have hinv := triTriRange_inv a b c a' b' c'
    simp only [] at hinv
    rw [hr] at hinv
    rw [triCommon_iff a b c a' b' c' hnp x]
    constructor
    · rintro ⟨t, hF, rfl⟩
      obtain ⟨h1, h2⟩ := hinv.1 t hF
      simp only [LoLe, HiGe] at h1 h2
      have hpos : 0 < mx - mn := by linarith
      refine ⟨(t - mn) / (mx - mn), div_nonneg (by linarith) hpos.le, ?_, ?_⟩
      · rw [div_le_one hpos]; linarith
      · rw [← triTriPoint_affine]
        congr 1
        field_simp; ring
    · rintro ⟨s, hs0, hs1, rfl⟩
      refine ⟨mn + s * (mx - mn), ?_, (triTriPoint_affine _ _ _ _ _ _ _ _).symm⟩
      apply hinv.2 (by simpa [RangeLt] using hlt)
      · simp only [LoLe]; nlinarith
      · simp only [HiGe]; nlinarith
  · rw [hc] at h; cases h

/-- **`TriangleCollisions`, nothing reported**: if the interval computation returns nothing, the two triangles have
at most one point in common. -/
theorem triTriCore_none (a b c a' b' c' : V3 K)
    (hnp : ((b.sub a).cross (c.sub a)).dot (b'.sub a') ≠ 0 ∨ ((b.sub a).cross (c.sub a)).dot (c'.sub a') ≠ 0)
    (h : triTriCore a b c a' b' c' = none) (x y : V3 K)
    (hx : TriCommon a b c a' b' c' x) (hy : TriCommon a b c a' b' c' y) : x = y := by
  rcases triTriCore_cases a b c a' b' c' with ⟨mn, mx, _, _, _, _, hc⟩ | ⟨_, hne⟩
  · rw [hc] at h; cases h
  · obtain ⟨t, hF, rfl⟩ := (triCommon_iff a b c a' b' c' hnp x).1 hx
    obtain ⟨t', hF', rfl⟩ := (triCommon_iff a b c a' b' c' hnp y).1 hy
    have : t = t' := by
      rcases hne with h1 | h2 | h3
      · exact (findRange_inv _ _ _ _).unique h1 t t' hF.1 hF'.1
      · exact (findRange_inv _ _ _ _).unique h2 t t' hF.2 hF'.2
      · exact (triTriRange_inv a b c a' b' c').unique h3 t t' hF hF'
    rw [this]

/-- the reported end points differ when the second triangle has an area -/
theorem triTriCore_ne (a b c a' b' c' : V3 K)
    (hnp : ((b.sub a).cross (c.sub a)).dot (b'.sub a') ≠ 0 ∨ ((b.sub a).cross (c.sub a)).dot (c'.sub a') ≠ 0)
    (hnd : ((b'.sub a').cross (c'.sub a')).dot ((b'.sub a').cross (c'.sub a')) ≠ 0)
    (p1 p2 : V3 K) (h : triTriCore a b c a' b' c' = some (p1, p2)) : p1 ≠ p2 := by
  rcases triTriCore_cases a b c a' b' c' with ⟨mn, mx, _, _, _, hlt, hc⟩ | ⟨hc, _⟩
  · rw [hc] at h
    simp only [Option.some.injEq, Prod.mk.injEq] at h
    obtain ⟨rfl, rfl⟩ := h
    intro heq
    have e1 := triTriLine_eq a b c a' b' c' hnp mn
    have e2 := triTriLine_eq a b c a' b' c' hnp mx
    simp only [] at e1 e2
    rw [heq, e2] at e1
    -- `(mx - mn)·(d.z·w3 + w4) = 0`
    apply hnd
    have hw : (triTriW a b c a' b' c' = (b'.sub a', c'.sub a')) ∨ (triTriW a b c a' b' c' = (c'.sub a', b'.sub a')) := by
      unfold triTriW; simp only []; split <;> simp
    have hd : mx - mn ≠ 0 := ne_of_gt (by linarith)
    simp only [V3.add, V3.scale, V3.mk.injEq] at e1
    obtain ⟨x1, y1, z1⟩ := e1
    generalize (triTriLine a b c a' b' c').1.z = oz at x1 y1 z1
    generalize (triTriLine a b c a' b' c').2.z = dz at x1 y1 z1
    rcases hw with hw | hw <;> rw [hw] at x1 y1 z1 <;> simp only [] at x1 y1 z1
    · have fx : (b'.sub a').x * dz + (c'.sub a').x = 0 := by
        have : (mx - mn) * ((b'.sub a').x * dz + (c'.sub a').x) = 0 := by linear_combination x1
        exact (mul_eq_zero.1 this).resolve_left hd
      have fy : (b'.sub a').y * dz + (c'.sub a').y = 0 := by
        have : (mx - mn) * ((b'.sub a').y * dz + (c'.sub a').y) = 0 := by linear_combination y1
        exact (mul_eq_zero.1 this).resolve_left hd
      have fz : (b'.sub a').z * dz + (c'.sub a').z = 0 := by
        have : (mx - mn) * ((b'.sub a').z * dz + (c'.sub a').z) = 0 := by linear_combination z1
        exact (mul_eq_zero.1 this).resolve_left hd
      have gx : (c'.sub a').x = -((b'.sub a').x * dz) := by linarith
      have gy : (c'.sub a').y = -((b'.sub a').y * dz) := by linarith
      have gz : (c'.sub a').z = -((b'.sub a').z * dz) := by linarith
      simp only [V3.cross, V3.dot, gx, gy, gz]; ring
    · have fx : (c'.sub a').x * dz + (b'.sub a').x = 0 := by
        have : (mx - mn) * ((c'.sub a').x * dz + (b'.sub a').x) = 0 := by linear_combination x1
        exact (mul_eq_zero.1 this).resolve_left hd
      have fy : (c'.sub a').y * dz + (b'.sub a').y = 0 := by
        have : (mx - mn) * ((c'.sub a').y * dz + (b'.sub a').y) = 0 := by linear_combination y1
        exact (mul_eq_zero.1 this).resolve_left hd
      have fz : (c'.sub a').z * dz + (b'.sub a').z = 0 := by
        have : (mx - mn) * ((c'.sub a').z * dz + (b'.sub a').z) = 0 := by linear_combination z1
        exact (mul_eq_zero.1 this).resolve_left hd
      have gx : (b'.sub a').x = -((c'.sub a').x * dz) := by linarith
      have gy : (b'.sub a').y = -((c'.sub a').y * dz) := by linarith
      have gz : (b'.sub a').z = -((c'.sub a').z * dz) := by linarith
      simp only [V3.cross, V3.dot, gx, gy, gz]; ring
  · rw [hc] at h; cases h

/-! ## the wrapper `TriangleCollisions` -/

/-- the library's test for (nearly) co-planar triangles: `|n1·n2| > 1 - 1e-8` -/
def triNearCoplanar (sqrtF : K → K) (eps : K) (t t1 : Tri K) : Prop :=
  1 - eps < |(triNormal sqrtF t.1 t.2.1 t.2.2).dot (triNormal sqrtF t1.1 t1.2.1 t1.2.2)|

/-- the cross product `(b-a)×(c-a)` of a triangle (twice its area vector) -/
def triCross (t : Tri K) : V3 K := (t.2.1.sub t.1).cross (t.2.2.sub t.1)

/-- **what `TriangleCollisions` returns**: a segment is returned only as `NewSegment(p1, p2)` of the end points of
the interval computation; nothing is returned exactly in the five listed situations. -/
theorem triTri_cases (sqrtF : K → K) (eps : K) (t t1 : Tri K) :
    (∀ s, triTri sqrtF eps t t1 = some s → triInCommon t t1 ≤ 1 ∧ (triCross t).dot (triCross t) ≠ 0 ∧
        (triCross t1).dot (triCross t1) ≠ 0 ∧ ¬ triNearCoplanar sqrtF eps t t1 ∧
        ∃ p1 p2, triTriCore t.1 t.2.1 t.2.2 t1.1 t1.2.1 t1.2.2 = some (p1, p2) ∧ s = newSegment p1 p2) ∧
    (triTri sqrtF eps t t1 = none →
      2 ≤ triInCommon t t1 ∨ (triCross t).dot (triCross t) = 0 ∨ (triCross t1).dot (triCross t1) = 0 ∨
      triNearCoplanar sqrtF eps t t1 ∨ triTriCore t.1 t.2.1 t.2.2 t1.1 t1.2.1 t1.2.2 = none ∨
      ∃ p1 p2, triTriCore t.1 t.2.1 t.2.2 t1.1 t1.2.1 t1.2.2 = some (p1, p2) ∧
        p1.dist sqrtF p2 < (t.2.1.sub t.1).norm sqrtF * eps ∧ p1.dist sqrtF p2 < (t.2.2.sub t.1).norm sqrtF * eps) := by
  unfold triTri
  simp only [absS_eq]
  by_cases h1 : 1 < triInCommon t t1
  · rw [if_pos h1]
    exact ⟨fun s h => (by cases h), fun _ => Or.inl h1⟩
  rw [if_neg h1]
  by_cases h2 : (isZero ((triCross t).dot (triCross t)) || isZero ((triCross t1).dot (triCross t1))) = true
  · have h2' := h2
    unfold triCross at h2'
    rw [if_pos h2']
    refine ⟨fun s h => (by cases h), fun _ => ?_⟩
    simp only [Bool.or_eq_true, isZero_iff] at h2
    rcases h2 with h | h
    · exact Or.inr (Or.inl h)
    · exact Or.inr (Or.inr (Or.inl h))
  have h2' := h2
  unfold triCross at h2'
  rw [if_neg h2']
  simp only [Bool.or_eq_true, isZero_iff, not_or] at h2
  by_cases h3 : triNearCoplanar sqrtF eps t t1
  · have h3' := h3
    unfold triNearCoplanar at h3'
    rw [if_pos h3']
    exact ⟨fun s h => (by cases h), fun _ => Or.inr (Or.inr (Or.inr (Or.inl h3)))⟩
  have h3' := h3
  unfold triNearCoplanar at h3'
  rw [if_neg h3']
  cases hc : triTriCore t.1 t.2.1 t.2.2 t1.1 t1.2.1 t1.2.2 with
  | none =>
    simp only []
    exact ⟨fun s h => (by cases h), fun _ => Or.inr (Or.inr (Or.inr (Or.inr (Or.inl (by first | exact trivial | rfl)))))⟩
  | some pq =>
    obtain ⟨p1, p2⟩ := pq
    simp only []
    split
    · rename_i hsmall
      exact ⟨fun s h => (by cases h),
        fun _ => Or.inr (Or.inr (Or.inr (Or.inr (Or.inr ⟨p1, p2, rfl, hsmall.1, hsmall.2⟩))))⟩
    · refine ⟨fun s h => ?_, fun h => by cases h⟩
      simp only [Option.some.injEq] at h
      exact ⟨not_lt.1 h1, h2.1, h2.2, h3, p1, p2, rfl, h.symm⟩

theorem norm3_sq {sqrtF : K → K} (hs : SqrtOK sqrtF) (v : V3 K) : v.norm sqrtF * v.norm sqrtF = v.dot v :=
  (hs _ (sumsq3_nonneg v.x v.y v.z)).2

/-- **triangles in parallel planes are rejected by the co-planarity test** (`eps > 0`): their unit normals have inner
product `±1`. -/
theorem triNearCoplanar_of_parallel {sqrtF : K → K} (hs : SqrtOK sqrtF) (eps : K) (heps : 0 < eps) (t t1 : Tri K)
    (h1 : (triCross t).dot (triCross t) ≠ 0) (h2 : (triCross t1).dot (triCross t1) ≠ 0)
    (hp3 : (triCross t).dot (t1.2.1.sub t1.1) = 0) (hp4 : (triCross t).dot (t1.2.2.sub t1.1) = 0) :
    triNearCoplanar sqrtF eps t t1 := by
  unfold triNearCoplanar triNormal
  have e1 : (t.2.1.sub t.1).cross (t.2.2.sub t.1) = triCross t := rfl
  have e2 : (t1.2.1.sub t1.1).cross (t1.2.2.sub t1.1) = triCross t1 := rfl
  rw [e1, e2]
  set c1 := triCross t with hc1
  set c2 := triCross t1 with hc2
  -- `c1 × c2 = v3 (c1·v4) - v4 (c1·v3) = 0`
  have hx : (c1.cross c2).dot (c1.cross c2) = 0 := by
    have hv : c1.cross c2 = ⟨0, 0, 0⟩ := by
      have e : c2 = (t1.2.1.sub t1.1).cross (t1.2.2.sub t1.1) := rfl
      rw [e]
      simp only [V3.cross, V3.dot, V3.mk.injEq] at hp3 hp4 ⊢
      refine ⟨?_, ?_, ?_⟩
      · linear_combination (t1.2.1.sub t1.1).x * hp4 - (t1.2.2.sub t1.1).x * hp3
      · linear_combination (t1.2.1.sub t1.1).y * hp4 - (t1.2.2.sub t1.1).y * hp3
      · linear_combination (t1.2.1.sub t1.1).z * hp4 - (t1.2.2.sub t1.1).z * hp3
    rw [hv]; simp [V3.dot]
  have hl := cross_normSq_lagrange c1 c2
  rw [hx] at hl
  have n1 := norm3_sq hs c1
  have n2 := norm3_sq hs c2
  have hN1 : c1.norm sqrtF ≠ 0 := by intro h; rw [h] at n1; apply h1; rw [← n1]; ring
  have hN2 : c2.norm sqrtF ≠ 0 := by intro h; rw [h] at n2; apply h2; rw [← n2]; ring
  have hdot : (c1.normalize sqrtF).dot (c2.normalize sqrtF) = c1.dot c2 / (c1.norm sqrtF * c2.norm sqrtF) := by
    simp only [V3.normalize, V3.scale, V3.dot]
    field_simp
  have hsq : (c1.normalize sqrtF).dot (c2.normalize sqrtF) * (c1.normalize sqrtF).dot (c2.normalize sqrtF) = 1 := by
    rw [hdot, div_mul_div_comm]
    have : c1.dot c2 * c1.dot c2 = c1.norm sqrtF * c2.norm sqrtF * (c1.norm sqrtF * c2.norm sqrtF) := by
      have : c1.norm sqrtF * c2.norm sqrtF * (c1.norm sqrtF * c2.norm sqrtF) =
          (c1.norm sqrtF * c1.norm sqrtF) * (c2.norm sqrtF * c2.norm sqrtF) := by ring
      rw [this, n1, n2]; linarith
    rw [this]
    exact div_self (mul_ne_zero (mul_ne_zero hN1 hN2) (mul_ne_zero hN1 hN2))
  have habs : |(c1.normalize sqrtF).dot (c2.normalize sqrtF)| = 1 := by
    have := abs_mul_abs_self ((c1.normalize sqrtF).dot (c2.normalize sqrtF))
    rw [hsq] at this
    have hnn := abs_nonneg ((c1.normalize sqrtF).dot (c2.normalize sqrtF))
    nlinarith
  rw [habs]; linarith

/-- a reported segment consists of common points of the two triangles; in particular its first end point is one -/
theorem triTri_some_common {sqrtF : K → K} (hs : SqrtOK sqrtF) (eps : K) (heps : 0 < eps) (t t1 : Tri K)
    (s : V3 K × V3 K) (h : triTri sqrtF eps t t1 = some s) :
    (triCross t).dot (t1.2.1.sub t1.1) ≠ 0 ∨ (triCross t).dot (t1.2.2.sub t1.1) ≠ 0 := by
  obtain ⟨_, g1, g2, g3, _⟩ := (triTri_cases sqrtF eps t t1).1 s h
  by_contra hcon
  push Not at hcon
  exact g3 (triNearCoplanar_of_parallel hs eps heps t t1 g1 g2 hcon.1 hcon.2)

/-! ## triangles with a common edge -/

/-- two triangles `(a, b, c)`, `(a, b, c')` with a common edge whose planes differ meet in points of that edge only
(the early exit `inCommon > 1` of `TriangleCollisions`: "no way to be intersecting unless we are co-planar") -/
theorem shared_edge_only (a b c c' : V3 K) (hnp : ((b.sub a).cross (c.sub a)).dot (c'.sub a) ≠ 0) (x : V3 K)
    (h1 : InTri (a, b, c) x) (h2 : InTri (a, b, c') x) :
    ∃ s, 0 ≤ s ∧ s ≤ 1 ∧ x = a.add ((b.sub a).scale s) := by
  obtain ⟨u, v, hu, hv, huv, hx⟩ := h1
  obtain ⟨u', v', hu', hv', huv', hx'⟩ := h2
  have hv0 : v' = 0 := by
    rw [hx] at hx'
    simp only [triPoint, V3.add, V3.scale, V3.sub, V3.mk.injEq] at hx'
    obtain ⟨ex, ey, ez⟩ := hx'
    have : v' * ((b.sub a).cross (c.sub a)).dot (c'.sub a) = 0 := by
      simp only [V3.cross, V3.dot, V3.sub]
      linear_combination (-((b.y - a.y) * (c.z - a.z) - (b.z - a.z) * (c.y - a.y))) * ex
        + (-((b.z - a.z) * (c.x - a.x) - (b.x - a.x) * (c.z - a.z))) * ey
        + (-((b.x - a.x) * (c.y - a.y) - (b.y - a.y) * (c.x - a.x))) * ez
    exact (mul_eq_zero.1 this).resolve_right hnp
  refine ⟨u', hu', by linarith, ?_⟩
  rw [hx', hv0]
  simp only [triPoint, V3.add, V3.scale, V3.sub, V3.mk.injEq]; refine ⟨?_, ?_, ?_⟩ <;> ring

/-! ## the hierarchy -/

variable {L S : Type}

theorem boxOverlap3_of_point (lo hi jlo jhi x : V3 K) (h1 : InBox lo hi x) (h2 : InBox jlo jhi x) :
    boxOverlap3 lo hi jlo jhi = true := by
  obtain ⟨⟨a1, a2⟩, ⟨a3, a4⟩, a5, a6⟩ := h1
  obtain ⟨⟨b1, b2⟩, ⟨b3, b4⟩, b5, b6⟩ := h2
  simp only [boxOverlap3, V3.min, V3.max, minS_eq, maxS_eq, Bool.not_eq_true', Bool.or_eq_false_iff,
    decide_eq_false_iff_not, not_lt]
  exact ⟨⟨le_trans (max_le a1 b1) (le_min a2 b2), le_trans (max_le a3 b3) (le_min a4 b4)⟩,
    le_trans (max_le a5 b5) (le_min a6 b6)⟩

theorem btMin3_le (leafMin : L → V3 K) (t : BTree L) (l : L) (hl : l ∈ t.leaves) :
    (btMin3 leafMin t).x ≤ (leafMin l).x ∧ (btMin3 leafMin t).y ≤ (leafMin l).y ∧
      (btMin3 leafMin t).z ≤ (leafMin l).z := by
  induction t with
  | leaf l' => simp only [BTree.leaves, List.mem_singleton] at hl; subst hl; exact ⟨le_rfl, le_rfl, le_rfl⟩
  | node a b iha ihb =>
    simp only [BTree.leaves, List.mem_append] at hl
    simp only [btMin3, V3.min, minS_eq]
    rcases hl with h | h
    · exact ⟨le_trans (min_le_left _ _) (iha h).1, le_trans (min_le_left _ _) (iha h).2.1,
        le_trans (min_le_left _ _) (iha h).2.2⟩
    · exact ⟨le_trans (min_le_right _ _) (ihb h).1, le_trans (min_le_right _ _) (ihb h).2.1,
        le_trans (min_le_right _ _) (ihb h).2.2⟩

theorem le_btMax3 (leafMax : L → V3 K) (t : BTree L) (l : L) (hl : l ∈ t.leaves) :
    (leafMax l).x ≤ (btMax3 leafMax t).x ∧ (leafMax l).y ≤ (btMax3 leafMax t).y ∧
      (leafMax l).z ≤ (btMax3 leafMax t).z := by
  induction t with
  | leaf l' => simp only [BTree.leaves, List.mem_singleton] at hl; subst hl; exact ⟨le_rfl, le_rfl, le_rfl⟩
  | node a b iha ihb =>
    simp only [BTree.leaves, List.mem_append] at hl
    simp only [btMax3, V3.max, maxS_eq]
    rcases hl with h | h
    · exact ⟨le_trans (iha h).1 (le_max_left _ _), le_trans (iha h).2.1 (le_max_left _ _),
        le_trans (iha h).2.2 (le_max_left _ _)⟩
    · exact ⟨le_trans (ihb h).1 (le_max_right _ _), le_trans (ihb h).2.1 (le_max_right _ _),
        le_trans (ihb h).2.2 (le_max_right _ _)⟩

/-- **The hierarchy returns the concatenation of its leaves' answers**: if a leaf that reports something has a
point — within its own bounds — inside the query's bounding box, no sub-tree with a non-empty answer is pruned. -/
theorem treeTriTri_eq (leafMin leafMax : L → V3 K) (leafQ : L → List S) (P : L → V3 K → Prop) (qlo qhi : V3 K)
    (t : BTree L) (hb : ∀ l ∈ t.leaves, ∀ x, P l x → InBox (leafMin l) (leafMax l) x)
    (hsound : ∀ l ∈ t.leaves, leafQ l ≠ [] → ∃ x, P l x ∧ InBox qlo qhi x) :
    treeTriTri leafMin leafMax leafQ qlo qhi t = t.leaves.flatMap leafQ := by
  induction t with
  | leaf l => simp [treeTriTri, BTree.leaves]
  | node a b iha ihb =>
    have ha : ∀ l ∈ a.leaves, l ∈ (BTree.node a b).leaves := fun l hl => by simp [BTree.leaves, hl]
    have hb' : ∀ l ∈ b.leaves, l ∈ (BTree.node a b).leaves := fun l hl => by simp [BTree.leaves, hl]
    simp only [treeTriTri, BTree.leaves, List.flatMap_append]
    split
    · rw [iha (fun l hl => hb l (ha l hl)) (fun l hl => hsound l (ha l hl)),
        ihb (fun l hl => hb l (hb' l hl)) (fun l hl => hsound l (hb' l hl))]
    · rename_i hno
      have hall : ∀ l ∈ (BTree.node a b).leaves, leafQ l = [] := by
        intro l hl
        by_contra hne
        apply hno
        obtain ⟨x, hp, hx⟩ := hsound l hl hne
        apply boxOverlap3_of_point qlo qhi _ _ x hx
        obtain ⟨⟨c1, c2⟩, ⟨c3, c4⟩, c5, c6⟩ := hb l hl x hp
        have m := btMin3_le leafMin (.node a b) l hl
        have M := le_btMax3 leafMax (.node a b) l hl
        exact ⟨⟨le_trans m.1 c1, le_trans c2 M.1⟩, ⟨le_trans m.2.1 c3, le_trans c4 M.2.1⟩,
          le_trans m.2.2 c5, le_trans c6 M.2.2⟩
      have e1 : a.leaves.flatMap leafQ = [] := by
        rw [List.flatMap_eq_nil_iff]; intro l hl; exact hall l (ha l hl)
      have e2 : b.leaves.flatMap leafQ = [] := by
        rw [List.flatMap_eq_nil_iff]; intro l hl; exact hall l (hb' l hl)
      rw [e1, e2]; rfl

/-- a point of a triangle lies within the triangle's bounds (`Triangle.Min/Max`) -/
theorem inTri_in_bounds (T : Tri K) (x : V3 K) (h : InTri T x) : InBox (triMin T) (triMax T) x := by
  obtain ⟨u, v, hu, hv, huv, rfl⟩ := h
  have conv : ∀ p q r : K, min (min p q) r ≤ p + (q - p) * u + (r - p) * v ∧
      p + (q - p) * u + (r - p) * v ≤ max (max p q) r := by
    intro p q r
    have e : p + (q - p) * u + (r - p) * v = (1 - u - v) * p + u * q + v * r := by ring
    rw [e]
    have hw : 0 ≤ 1 - u - v := by linarith
    constructor
    · have h1 : min (min p q) r ≤ p := le_trans (min_le_left _ _) (min_le_left _ _)
      have h2 : min (min p q) r ≤ q := le_trans (min_le_left _ _) (min_le_right _ _)
      have h3 : min (min p q) r ≤ r := min_le_right _ _
      nlinarith [mul_le_mul_of_nonneg_left h1 hw, mul_le_mul_of_nonneg_left h2 hu, mul_le_mul_of_nonneg_left h3 hv]
    · have h1 : p ≤ max (max p q) r := le_trans (le_max_left _ _) (le_max_left _ _)
      have h2 : q ≤ max (max p q) r := le_trans (le_max_right _ _) (le_max_left _ _)
      have h3 : r ≤ max (max p q) r := le_max_right _ _
      nlinarith [mul_le_mul_of_nonneg_left h1 hw, mul_le_mul_of_nonneg_left h2 hu, mul_le_mul_of_nonneg_left h3 hv]
  simp only [InBox, triMin, triMax, V3.min, V3.max, minS_eq, maxS_eq, triPoint, V3.add, V3.scale, V3.sub]
  exact ⟨conv _ _ _, conv _ _ _, conv _ _ _⟩

end M3d.Col
