import M3d.Lemmas.McLift
/-!
The local→global lift for marching cubes, part 2: the configuration of a lattice cell read back
bit by bit, the decidable LOCAL facts about a lookup table (`mcLocalOk`, discharged by the kernel
for the regenerated table in Props/C01) and what they say in usable form.  Core-only.
-/
namespace M3d.Marching

/-! ### `cellCfg` bit by bit -/

def bitsum (f : Nat → Bool) (n : Nat) : Nat :=
  (List.range n).foldl (fun acc c => if f c then acc + 2 ^ c else acc) 0

theorem bitsum_succ (f : Nat → Bool) (n : Nat) :
    bitsum f (n + 1) = if f n then bitsum f n + 2 ^ n else bitsum f n := by
  unfold bitsum
  rw [List.range_succ, List.foldl_append]
  rfl

theorem bitsum_lt (f : Nat → Bool) (n : Nat) : bitsum f n < 2 ^ n := by
  induction n with
  | zero => simp [bitsum]
  | succ n ih =>
    rw [bitsum_succ, Nat.pow_succ]
    split <;> omega

theorem bitsum_testBit (f : Nat → Bool) (n c : Nat) :
    (bitsum f n).testBit c = (decide (c < n) && f c) := by
  induction n with
  | zero => simp [bitsum]
  | succ n ih =>
    rw [bitsum_succ]
    by_cases hf : f n
    · rw [if_pos hf]
      rcases Nat.lt_trichotomy c n with h | h | h
      · rw [Nat.add_comm, Nat.testBit_two_pow_add_gt h, ih]
        have : c < n + 1 := by omega
        simp [h, this]
      · subst h
        rw [Nat.add_comm, Nat.testBit_two_pow_add_eq, Nat.testBit_lt_two_pow (bitsum_lt f c)]
        simp [hf]
      · have h1 : bitsum f n + 2 ^ n < 2 ^ (n + 1) := by
          have := bitsum_lt f n
          rw [Nat.pow_succ]; omega
        have h2 : 2 ^ (n + 1) ≤ 2 ^ c := Nat.pow_le_pow_right (by omega) (by omega)
        rw [Nat.testBit_lt_two_pow (by omega)]
        have : ¬ c < n + 1 := by omega
        simp [this]
    · rw [if_neg hf, ih]
      by_cases h : c < n
      · have : c < n + 1 := by omega
        simp [h, this]
      · by_cases h' : c = n
        · subst h'; simp [hf]
        · have : ¬ c < n + 1 := by omega
          simp [h, this]

theorem bitsum_zero (f : Nat → Bool) (n : Nat) (h : ∀ c, c < n → f c = false) : bitsum f n = 0 := by
  induction n with
  | zero => rfl
  | succ n ih =>
    rw [bitsum_succ, h n (by omega), ih (fun c hc => h c (by omega))]
    rfl

theorem cellCfg_eq_bitsum (lab : Nat → Nat → Nat → Bool) (x y z : Nat) :
    cellCfg lab x y z =
      bitsum (fun c => lab (x + cornerOff c 0) (y + cornerOff c 1) (z + cornerOff c 2)) 8 := rfl

theorem cellCfg_lt (lab : Nat → Nat → Nat → Bool) (x y z : Nat) : cellCfg lab x y z < 256 := by
  rw [cellCfg_eq_bitsum]
  exact bitsum_lt _ 8

theorem inside_cellCfg (lab : Nat → Nat → Nat → Bool) (x y z c : Nat) (hc : c < 8) :
    inside (cellCfg lab x y z) c = lab (x + cornerOff c 0) (y + cornerOff c 1) (z + cornerOff c 2) := by
  unfold inside
  rw [cellCfg_eq_bitsum, bitsum_testBit]
  simp [hc]

theorem cellCfg_zero (lab : Nat → Nat → Nat → Bool) (x y z : Nat)
    (h : ∀ c, c < 8 → lab (x + cornerOff c 0) (y + cornerOff c 1) (z + cornerOff c 2) = false) :
    cellCfg lab x y z = 0 := by
  rw [cellCfg_eq_bitsum]
  exact bitsum_zero _ 8 h

/-! ### The local facts -/

/-- exactly one coordinate is odd: the position is the midpoint of a cube edge -/
def isMid (p : P3) : Bool := Nat.beq (p.1 % 2 + p.2.1 % 2 + p.2.2 % 2) 1

/-- On no axis do `p` and `q` share an even coordinate: the segment `p → q` lies in no face plane
of the cell. -/
def interiorPair (p q : P3) : Bool :=
  !(Nat.beq p.1 q.1 && Nat.beq (p.1 % 2) 0) && !(Nat.beq p.2.1 q.2.1 && Nat.beq (p.2.1 % 2) 0) &&
  !(Nat.beq p.2.2 q.2.2 && Nat.beq (p.2.2 % 2) 0)

/-- Single-row facts: every directed edge joins two distinct cube-edge midpoints, and an edge that
lies in no face plane occurs exactly once, as does its reverse. -/
def okRow (row : List (List Nat)) : Bool :=
  (rowEdges row).all fun d =>
    isMid (loc3 d.1) && isMid (loc3 d.2) && !(Nat.beq (pcode (loc3 d.1)) (pcode (loc3 d.2))) &&
    (!interiorPair (loc3 d.1) (loc3 d.2) ||
      (Nat.beq (lcnt row (ecode d)) 1 && Nat.beq (lcnt row (ecode (rev d))) 1))

def okRows (table : List (List (List Nat))) : Bool :=
  (getRow table 0).isEmpty && (List.range 256).all fun c => okRow (getRow table c)

/-- Corner `j ∈ {0,1,2,3}` (face-local index) of the face orthogonal to axis `k` on side `s`. -/
def fcorner (k s j : Nat) : Nat :=
  match k with
  | 0 => s + 2 * j
  | 1 => j % 2 + 2 * s + 4 * (j / 2)
  | _ => j + 4 * s

def b2n (b : Bool) : Nat := if b then 1 else 0

/-- The four corner labels of face `(k,s)` of configuration `cfg`, as a number `< 16`. -/
def fbits (k s cfg : Nat) : Nat :=
  b2n (inside cfg (fcorner k s 0)) + 2 * b2n (inside cfg (fcorner k s 1)) +
  4 * b2n (inside cfg (fcorner k s 2)) + 8 * b2n (inside cfg (fcorner k s 3))

/-- The configuration showing `fb` on face `(k,s)` with its other four corners outside. -/
def rep (k s fb : Nat) : Nat :=
  b2n (fb.testBit 0) * 2 ^ fcorner k s 0 + b2n (fb.testBit 1) * 2 ^ fcorner k s 1 +
  b2n (fb.testBit 2) * 2 ^ fcorner k s 2 + b2n (fb.testBit 3) * 2 ^ fcorner k s 3

/-- Coordinate `k` of a packed local position. -/
def coordK (k p : Nat) : Nat :=
  match k with
  | 0 => p % 3
  | 1 => p / 3 % 3
  | _ => p / 9

/-- Both ends of the packed directed edge `n` lie in the plane of face `(k,s)`. -/
def onFaceCode (k s n : Nat) : Bool :=
  Nat.beq (coordK k (n / 27)) (2 * s) && Nat.beq (coordK k (n % 27)) (2 * s)

def faceCodes (k s : Nat) (row : List (List Nat)) : List Nat :=
  ((rowEdges row).map ecode).filter (onFaceCode k s)

def cntN (A : List Nat) (n : Nat) : Nat := A.countP fun m => Nat.beq m n

def sameCounts (A B : List Nat) : Bool := (A ++ B).all fun n => Nat.beq (cntN A n) (cntN B n)

/-- What a cell draws in the plane of each of its six faces depends only on that face's four
corner labels (compared with the representative configuration). -/
def okFaceDet (table : List (List (List Nat))) : Bool :=
  (List.range 256).all fun cfg => (List.range 3).all fun k => (List.range 2).all fun s =>
    sameCounts (faceCodes k s (getRow table cfg)) (faceCodes k s (getRow table (rep k s (fbits k s cfg))))

/-- Packed position `(a,b)` within the plane of face `(k,s)`. -/
def fpos (k s a b : Nat) : Nat :=
  match k with
  | 0 => pc3 (2 * s) a b
  | 1 => pc3 a (2 * s) b
  | _ => pc3 a b (2 * s)

def fcode (k s a b a' b' : Nat) : Nat := 27 * fpos k s a b + fpos k s a' b'

def all4 (f : Nat → Nat → Nat → Nat → Bool) : Bool :=
  (List.range 3).all fun a => (List.range 3).all fun b => (List.range 3).all fun a' =>
    (List.range 3).all fun b' => f a b a' b'

/-- Across a shared lattice face with corner labels `fb`: the lower cell's far-face count of
`p → q` plus the upper cell's near-face count equals the same for `q → p`, and is at most one. -/
def okFacePair (table : List (List (List Nat))) : Bool :=
  (List.range 3).all fun k => (List.range 16).all fun fb => all4 fun a b a' b' =>
    Nat.beq
      (lcnt (getRow table (rep k 1 fb)) (fcode k 1 a b a' b') +
        lcnt (getRow table (rep k 0 fb)) (fcode k 0 a b a' b'))
      (lcnt (getRow table (rep k 1 fb)) (fcode k 1 a' b' a b) +
        lcnt (getRow table (rep k 0 fb)) (fcode k 0 a' b' a b)) &&
    Nat.ble
      (lcnt (getRow table (rep k 1 fb)) (fcode k 1 a b a' b') +
        lcnt (getRow table (rep k 0 fb)) (fcode k 0 a b a' b')) 1

/-- All local facts about a marching-cubes table that the lattice lift consumes. -/
def mcLocalOk (table : List (List (List Nat))) : Bool :=
  okRows table && okFaceDet table && okFacePair table

/-! ### The local facts in usable form -/

theorem all4_spec {f : Nat → Nat → Nat → Nat → Bool} (h : all4 f = true) (a b a' b' : Nat)
    (ha : a ≤ 2) (hb : b ≤ 2) (ha' : a' ≤ 2) (hb' : b' ≤ 2) : f a b a' b' = true := by
  unfold all4 at h
  have h1 := List.all_eq_true.1 h a (List.mem_range.2 (by omega))
  have h2 := List.all_eq_true.1 h1 b (List.mem_range.2 (by omega))
  have h3 := List.all_eq_true.1 h2 a' (List.mem_range.2 (by omega))
  exact List.all_eq_true.1 h3 b' (List.mem_range.2 (by omega))

theorem sameCounts_spec {A B : List Nat} (h : sameCounts A B = true) (n : Nat) :
    cntN A n = cntN B n := by
  unfold sameCounts at h
  by_cases hm : n ∈ A ++ B
  · have := List.all_eq_true.1 h n hm
    simpa [Nat.beq_eq] using this
  · have hA : cntN A n = 0 := by
      apply List.countP_eq_zero.2
      intro a ha hc
      simp only [Nat.beq_eq] at hc
      subst hc
      exact hm (List.mem_append.2 (Or.inl ha))
    have hB : cntN B n = 0 := by
      apply List.countP_eq_zero.2
      intro a ha hc
      simp only [Nat.beq_eq] at hc
      subst hc
      exact hm (List.mem_append.2 (Or.inr ha))
    rw [hA, hB]

theorem lcnt_face (k s : Nat) (row : List (List Nat)) (n : Nat) (hn : onFaceCode k s n = true) :
    lcnt row n = cntN (faceCodes k s row) n := by
  unfold lcnt cntN faceCodes
  rw [List.countP_filter, List.countP_map]
  apply List.countP_congr
  intro d _
  simp only [Function.comp, Nat.beq_eq, Bool.and_eq_true]
  constructor
  · intro h; exact ⟨h, by rw [h]; exact hn⟩
  · intro h; exact h.1

theorem lcnt_nil (n : Nat) : lcnt [] n = 0 := rfl

theorem rep_zero (k s : Nat) : rep k s 0 = 0 := by
  unfold rep b2n
  simp

theorem fbits_lt (k s cfg : Nat) : fbits k s cfg < 16 := by
  unfold fbits b2n
  split <;> split <;> split <;> split <;> omega

theorem onFace_fcode (k s a b a' b' : Nat) (hk : k < 3) (ha : a ≤ 2) (hb : b ≤ 2)
    (ha' : a' ≤ 2) (hb' : b' ≤ 2) (hs : s ≤ 1) : onFaceCode k s (fcode k s a b a' b') = true := by
  have hk' : k = 0 ∨ k = 1 ∨ k = 2 := by omega
  have hd : ∀ p q : Nat, q < 27 → (27 * p + q) / 27 = p ∧ (27 * p + q) % 27 = q := by
    intro p q hq; constructor <;> omega
  rcases hk' with h | h | h <;> subst h <;>
    simp only [onFaceCode, fcode, fpos, coordK, pc3, Bool.and_eq_true, Nat.beq_eq]
  · rw [(hd (2 * s + 3 * a + 9 * b) (2 * s + 3 * a' + 9 * b') (by omega)).1,
      (hd (2 * s + 3 * a + 9 * b) (2 * s + 3 * a' + 9 * b') (by omega)).2]
    constructor <;> omega
  · rw [(hd (a + 3 * (2 * s) + 9 * b) (a' + 3 * (2 * s) + 9 * b') (by omega)).1,
      (hd (a + 3 * (2 * s) + 9 * b) (a' + 3 * (2 * s) + 9 * b') (by omega)).2]
    constructor <;> omega
  · rw [(hd (a + 3 * b + 9 * (2 * s)) (a' + 3 * b' + 9 * (2 * s)) (by omega)).1,
      (hd (a + 3 * b + 9 * (2 * s)) (a' + 3 * b' + 9 * (2 * s)) (by omega)).2]
    constructor <;> omega

theorem code_inj (a1 a2 a3 b1 b2 b3 p1 p2 p3 q1 q2 q3 : Nat)
    (ha1 : a1 ≤ 2) (ha2 : a2 ≤ 2) (_ha3 : a3 ≤ 2) (hb1 : b1 ≤ 2) (hb2 : b2 ≤ 2) (hb3 : b3 ≤ 2)
    (hp1 : p1 ≤ 2) (hp2 : p2 ≤ 2) (_hp3 : p3 ≤ 2) (hq1 : q1 ≤ 2) (hq2 : q2 ≤ 2) (hq3 : q3 ≤ 2)
    (h : 27 * (a1 + 3 * a2 + 9 * a3) + (b1 + 3 * b2 + 9 * b3) =
      27 * (p1 + 3 * p2 + 9 * p3) + (q1 + 3 * q2 + 9 * q3)) :
    a1 = p1 ∧ a2 = p2 ∧ a3 = p3 ∧ b1 = q1 ∧ b2 = q2 ∧ b3 = q3 := by
  refine ⟨?_, ?_, ?_, ?_, ?_, ?_⟩ <;> omega

section
variable {table : List (List (List Nat))} (hok : mcLocalOk table = true)
include hok

theorem ok_row0 : getRow table 0 = [] := by
  unfold mcLocalOk okRows at hok
  simp only [Bool.and_eq_true] at hok
  exact List.isEmpty_iff.1 hok.1.1.1

theorem ok_okRow (c : Nat) (hc : c < 256) : okRow (getRow table c) = true := by
  unfold mcLocalOk okRows at hok
  simp only [Bool.and_eq_true] at hok
  exact List.all_eq_true.1 hok.1.1.2 c (List.mem_range.2 hc)

/-- A local directed edge that is present joins two distinct cube-edge midpoints. -/
theorem ok_mid (c : Nat) (hc : c < 256) (p1 p2 p3 q1 q2 q3 : Nat)
    (hp1 : p1 ≤ 2) (hp2 : p2 ≤ 2) (hp3 : p3 ≤ 2) (hq1 : q1 ≤ 2) (hq2 : q2 ≤ 2) (hq3 : q3 ≤ 2)
    (hpos : lcnt (getRow table c) (27 * pc3 p1 p2 p3 + pc3 q1 q2 q3) ≠ 0) :
    p1 % 2 + p2 % 2 + p3 % 2 = 1 ∧ q1 % 2 + q2 % 2 + q3 % 2 = 1 ∧ ¬ (p1 = q1 ∧ p2 = q2 ∧ p3 = q3) := by
  have hpos' : 0 < lcnt (getRow table c) (27 * pc3 p1 p2 p3 + pc3 q1 q2 q3) := by omega
  unfold lcnt at hpos'
  obtain ⟨d, hd, he⟩ := List.countP_pos_iff.1 hpos'
  have hrow := List.all_eq_true.1 (ok_okRow hok c hc) d hd
  have h1 := loc3_le d.1
  have h2 := loc3_le d.2
  simp only [Bool.and_eq_true, isMid, Nat.beq_eq, Bool.not_eq_true', pcode, pc3, ecode] at hrow he
  have hne : ¬ ((loc3 d.1).1 + 3 * (loc3 d.1).2.1 + 9 * (loc3 d.1).2.2 =
      (loc3 d.2).1 + 3 * (loc3 d.2).2.1 + 9 * (loc3 d.2).2.2) := by
    intro h
    have := hrow.1.2
    rw [← Nat.beq_eq] at h
    rw [h] at this
    exact Bool.noConfusion this
  have e1 : (loc3 d.1).1 = p1 ∧ (loc3 d.1).2.1 = p2 ∧ (loc3 d.1).2.2 = p3 ∧
      (loc3 d.2).1 = q1 ∧ (loc3 d.2).2.1 = q2 ∧ (loc3 d.2).2.2 = q3 :=
    code_inj _ _ _ _ _ _ _ _ _ _ _ _ h1.1 h1.2.1 h1.2.2 h2.1 h2.2.1 h2.2.2 hp1 hp2 hp3 hq1 hq2 hq3 he
  obtain ⟨a1, a2, a3, a4, a5, a6⟩ := e1
  rw [a1, a2, a3, a4, a5, a6] at hrow hne
  refine ⟨hrow.1.1.1, hrow.1.1.2, ?_⟩
  intro h
  apply hne
  omega

/-- An edge in no face plane of the cell is matched inside the cell. -/
theorem ok_interior (c : Nat) (hc : c < 256) (p1 p2 p3 q1 q2 q3 : Nat)
    (hp1 : p1 ≤ 2) (hp2 : p2 ≤ 2) (hp3 : p3 ≤ 2) (hq1 : q1 ≤ 2) (hq2 : q2 ≤ 2) (hq3 : q3 ≤ 2)
    (i1 : ¬ (p1 = q1 ∧ p1 % 2 = 0)) (i2 : ¬ (p2 = q2 ∧ p2 % 2 = 0)) (i3 : ¬ (p3 = q3 ∧ p3 % 2 = 0)) :
    lcnt (getRow table c) (27 * pc3 p1 p2 p3 + pc3 q1 q2 q3) =
      lcnt (getRow table c) (27 * pc3 q1 q2 q3 + pc3 p1 p2 p3) ∧
    lcnt (getRow table c) (27 * pc3 p1 p2 p3 + pc3 q1 q2 q3) ≤ 1 := by
  -- if an edge with this code (either direction) is present, both counts are 1
  have key : ∀ (a1 a2 a3 b1 b2 b3 : Nat), a1 ≤ 2 → a2 ≤ 2 → a3 ≤ 2 → b1 ≤ 2 → b2 ≤ 2 → b3 ≤ 2 →
      ¬ (a1 = b1 ∧ a1 % 2 = 0) → ¬ (a2 = b2 ∧ a2 % 2 = 0) → ¬ (a3 = b3 ∧ a3 % 2 = 0) →
      lcnt (getRow table c) (27 * pc3 a1 a2 a3 + pc3 b1 b2 b3) ≠ 0 →
      lcnt (getRow table c) (27 * pc3 a1 a2 a3 + pc3 b1 b2 b3) = 1 ∧
      lcnt (getRow table c) (27 * pc3 b1 b2 b3 + pc3 a1 a2 a3) = 1 := by
    intro a1 a2 a3 b1 b2 b3 ha1 ha2 ha3 hb1 hb2 hb3 j1 j2 j3 hpos
    have hpos' : 0 < lcnt (getRow table c) (27 * pc3 a1 a2 a3 + pc3 b1 b2 b3) := by omega
    unfold lcnt at hpos'
    obtain ⟨d, hd, he⟩ := List.countP_pos_iff.1 hpos'
    have hrow := List.all_eq_true.1 (ok_okRow hok c hc) d hd
    have h1 := loc3_le d.1
    have h2 := loc3_le d.2
    simp only [Nat.beq_eq] at he
    have hint : interiorPair (loc3 d.1) (loc3 d.2) = true := by
      have e1 : (loc3 d.1).1 = a1 ∧ (loc3 d.1).2.1 = a2 ∧ (loc3 d.1).2.2 = a3 ∧
          (loc3 d.2).1 = b1 ∧ (loc3 d.2).2.1 = b2 ∧ (loc3 d.2).2.2 = b3 :=
        code_inj _ _ _ _ _ _ _ _ _ _ _ _ h1.1 h1.2.1 h1.2.2 h2.1 h2.2.1 h2.2.2 ha1 ha2 ha3 hb1 hb2 hb3 he
      obtain ⟨e1, e2, e3, e4, e5, e6⟩ := e1
      unfold interiorPair
      rw [e1, e2, e3, e4, e5, e6]
      simp only [Bool.and_eq_true, Bool.not_eq_true', Nat.beq_eq, ← Bool.not_eq_true]
      omega
    simp only [Bool.and_eq_true, hint, Bool.not_true, Bool.false_or, Nat.beq_eq] at hrow
    have hr1 := hrow.2.1
    have hr2 := hrow.2.2
    have er : ecode (rev d) = 27 * pc3 b1 b2 b3 + pc3 a1 a2 a3 := by
      unfold ecode pcode pc3 at he; unfold ecode pcode pc3 rev; dsimp only; omega
    rw [he] at hr1
    rw [er] at hr2
    exact ⟨hr1, hr2⟩
  by_cases h1 : lcnt (getRow table c) (27 * pc3 p1 p2 p3 + pc3 q1 q2 q3) = 0
  · by_cases h2 : lcnt (getRow table c) (27 * pc3 q1 q2 q3 + pc3 p1 p2 p3) = 0
    · rw [h1, h2]; exact ⟨rfl, by omega⟩
    · have := key q1 q2 q3 p1 p2 p3 hq1 hq2 hq3 hp1 hp2 hp3 (by omega) (by omega) (by omega) h2
      omega
  · have := key p1 p2 p3 q1 q2 q3 hp1 hp2 hp3 hq1 hq2 hq3 i1 i2 i3 h1
    omega

theorem ok_faceDet (c k s : Nat) (hc : c < 256) (hk : k < 3) (hs : s < 2) (n : Nat)
    (hn : onFaceCode k s n = true) :
    lcnt (getRow table c) n = lcnt (getRow table (rep k s (fbits k s c))) n := by
  unfold mcLocalOk okFaceDet at hok
  simp only [Bool.and_eq_true] at hok
  have h1 := List.all_eq_true.1 hok.1.2 c (List.mem_range.2 hc)
  have h2 := List.all_eq_true.1 h1 k (List.mem_range.2 hk)
  have h3 := List.all_eq_true.1 h2 s (List.mem_range.2 hs)
  rw [lcnt_face k s _ n hn, lcnt_face k s _ n hn]
  exact sameCounts_spec h3 n

/-- A face whose four corners are all outside carries no edge. -/
theorem ok_border (c k s : Nat) (hc : c < 256) (hk : k < 3) (hs : s < 2) (h0 : fbits k s c = 0)
    (a b a' b' : Nat) (ha : a ≤ 2) (hb : b ≤ 2) (ha' : a' ≤ 2) (hb' : b' ≤ 2) :
    lcnt (getRow table c) (fcode k s a b a' b') = 0 := by
  rw [ok_faceDet hok c k s hc hk hs _ (onFace_fcode k s a b a' b' hk ha hb ha' hb' (by omega)),
    h0, rep_zero, ok_row0 hok]
  rfl

/-- Two cells meeting across a lattice face orthogonal to axis `k` (the lower one shows on its far
face what the upper one shows on its near face): edges in that face plane cancel between them. -/
theorem ok_pair (c1 c2 k : Nat) (hc1 : c1 < 256) (hc2 : c2 < 256) (hk : k < 3)
    (hm : fbits k 1 c1 = fbits k 0 c2)
    (a b a' b' : Nat) (ha : a ≤ 2) (hb : b ≤ 2) (ha' : a' ≤ 2) (hb' : b' ≤ 2) :
    lcnt (getRow table c1) (fcode k 1 a b a' b') + lcnt (getRow table c2) (fcode k 0 a b a' b') =
      lcnt (getRow table c1) (fcode k 1 a' b' a b) + lcnt (getRow table c2) (fcode k 0 a' b' a b) ∧
    lcnt (getRow table c1) (fcode k 1 a b a' b') + lcnt (getRow table c2) (fcode k 0 a b a' b') ≤ 1 := by
  rw [ok_faceDet hok c1 k 1 hc1 hk (by omega) _ (onFace_fcode k 1 a b a' b' hk ha hb ha' hb' (by omega)),
    ok_faceDet hok c2 k 0 hc2 hk (by omega) _ (onFace_fcode k 0 a b a' b' hk ha hb ha' hb' (by omega)),
    ok_faceDet hok c1 k 1 hc1 hk (by omega) _ (onFace_fcode k 1 a' b' a b hk ha' hb' ha hb (by omega)),
    ok_faceDet hok c2 k 0 hc2 hk (by omega) _ (onFace_fcode k 0 a' b' a b hk ha' hb' ha hb (by omega)),
    hm]
  unfold mcLocalOk okFacePair at hok
  simp only [Bool.and_eq_true] at hok
  have h1 := List.all_eq_true.1 hok.2 k (List.mem_range.2 hk)
  have h2 := List.all_eq_true.1 h1 (fbits k 0 c2) (List.mem_range.2 (fbits_lt _ _ _))
  have h3 := all4_spec h2 a b a' b' ha hb ha' hb'
  simp only [Bool.and_eq_true, Nat.beq_eq, Nat.ble_eq] at h3
  exact h3

end

end M3d.Marching
