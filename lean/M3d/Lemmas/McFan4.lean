import M3d.Lemmas.McFan3
/-!
The fan lift for marching cubes, part 4: the geometry of the four cells round a lattice edge — stepping from a
cell across one of its faces, which positions two such cells share, and the finite facts about `seFaces`.
-/
namespace M3d.Marching

/-- component `j` of a triple -/
def cmp (p : Nat × Nat × Nat) (j : Nat) : Nat := if j = 0 then p.1 else if j = 1 then p.2.1 else p.2.2

/-- the same face seen from the cell on its other side -/
def opp (f : Face) : Face := (f.1, 1 - f.2)

/-- the cube edge parallel to `v` across the face orthogonal to axis `j` -/
def stepVtx (v : Vtx) (j : Nat) : Vtx := (v.1 ^^^ 2 ^ j, v.2 ^^^ 2 ^ j)

/-- the cell on the other side of face `f` -/
def stepCell (c : Nat × Nat × Nat) (f : Face) : Nat × Nat × Nat :=
  let d := fun (j x : Nat) => if j = f.1 then (if f.2 = 1 then x + 1 else x - 1) else x
  (d 0 c.1, d 1 c.2.1, d 2 c.2.2)

/-- the lattice point at corner `k` of cell `c` -/
def cornerPt (c : Nat × Nat × Nat) (k : Nat) : Nat × Nat × Nat :=
  (c.1 + cornerOff k 0, c.2.1 + cornerOff k 1, c.2.2 + cornerOff k 2)

/-- there is a cell on the other side of `f` (not below index 0) -/
def room (c : Nat × Nat × Nat) (f : Face) : Prop := f.2 = 0 → 1 ≤ cmp c f.1

theorem vtxOnFace_iff : ∀ a ∈ cubeEdges, ∀ f ∈ faces, vtxOnFace f a = true ↔ cmp (loc3 a) f.1 = 2 * f.2 := by
  decide

/-- stepping across a face through the edge keeps the two lattice points of the edge -/
theorem step_corner : ∀ v ∈ cubeEdges, ∀ f ∈ faces, vtxOnFace f v = true → ∀ c : Nat × Nat × Nat, room c f →
    stepVtx v f.1 ∈ cubeEdges ∧ cornerPt (stepCell c f) (stepVtx v f.1).1 = cornerPt c v.1 ∧
      cornerPt (stepCell c f) (stepVtx v f.1).2 = cornerPt c v.2 := by
  intro v hv f hf
  simp only [cubeEdges, List.mem_cons, List.not_mem_nil, or_false] at hv
  simp only [faces, List.mem_cons, List.not_mem_nil, or_false] at hf
  rcases hv with rfl | rfl | rfl | rfl | rfl | rfl | rfl | rfl | rfl | rfl | rfl | rfl <;>
    rcases hf with rfl | rfl | rfl | rfl | rfl | rfl <;>
    intro hon <;> first
      | (exact absurd hon (by decide))
      | (intro c hr
         obtain ⟨x, y, z⟩ := c
         try simp [room, cmp] at hr
         refine ⟨by decide, ?_, ?_⟩ <;>
           simp [cornerPt, stepCell, stepVtx, cornerOff, bit] <;> omega)

/-- a position shared by a cell and its neighbour across `f` lies on `f` (seen from either side) -/
theorem adj_step : ∀ f ∈ faces, ∀ c : Nat × Nat × Nat, room c f → ∀ a ∈ cubeEdges, ∀ b ∈ cubeEdges,
    place c.1 c.2.1 c.2.2 (loc3 a) =
      place (stepCell c f).1 (stepCell c f).2.1 (stepCell c f).2.2 (loc3 b) →
    vtxOnFace f a = true ∧ vtxOnFace (opp f) b = true := by
  intro f hf c hr a ha b hb hab
  have la := loc3_le a
  have lb := loc3_le b
  obtain ⟨x, y, z⟩ := c
  simp only [faces, List.mem_cons, List.not_mem_nil, or_false] at hf
  rcases hf with rfl | rfl | rfl | rfl | rfl | rfl <;>
    (try simp [room, cmp] at hr) <;>
    (rw [vtxOnFace_iff a ha _ (by decide), vtxOnFace_iff b hb _ (by decide)]
     simp [place, stepCell, cmp, opp] at hab ⊢
     omega)

/-- a position shared by a cell and the cell diagonally across `f` and `g` lies on both faces -/
theorem diag_step : ∀ f ∈ faces, ∀ g ∈ faces, f.1 ≠ g.1 → ∀ c : Nat × Nat × Nat, room c f → room (stepCell c f) g →
    ∀ a ∈ cubeEdges, ∀ b ∈ cubeEdges,
    place c.1 c.2.1 c.2.2 (loc3 a) =
      place (stepCell (stepCell c f) g).1 (stepCell (stepCell c f) g).2.1 (stepCell (stepCell c f) g).2.2 (loc3 b) →
    vtxOnFace f a = true ∧ vtxOnFace g a = true := by
  intro f hf g hg hfg c hr hr2 a ha b hb hab
  have la := loc3_le a
  have lb := loc3_le b
  obtain ⟨x, y, z⟩ := c
  simp only [faces, List.mem_cons, List.not_mem_nil, or_false] at hf hg
  rcases hf with rfl | rfl | rfl | rfl | rfl | rfl <;>
    rcases hg with rfl | rfl | rfl | rfl | rfl | rfl <;>
    first
      | (exact absurd rfl hfg)
      | ((try simp [room, cmp] at hr) <;> (try simp [room, cmp, stepCell] at hr2) <;>
         (rw [vtxOnFace_iff a ha _ (by decide), vtxOnFace_iff a ha _ (by decide)]
          simp [place, stepCell, cmp] at hab ⊢
          omega))

theorem stepCell_ne (f : Face) (hf : f ∈ faces) (c : Nat × Nat × Nat) (hr : room c f) : stepCell c f ≠ c := by
  obtain ⟨x, y, z⟩ := c
  simp only [faces, List.mem_cons, List.not_mem_nil, or_false] at hf
  rcases hf with rfl | rfl | rfl | rfl | rfl | rfl <;>
    (try simp [room, cmp] at hr) <;> simp [stepCell] <;> omega

theorem stepCell2_ne (f g : Face) (hf : f ∈ faces) (hg : g ∈ faces) (hfg : f.1 ≠ g.1) (c : Nat × Nat × Nat)
    (hr : room c f) : stepCell (stepCell c f) g ≠ c := by
  obtain ⟨x, y, z⟩ := c
  simp only [faces, List.mem_cons, List.not_mem_nil, or_false] at hf hg
  rcases hf with rfl | rfl | rfl | rfl | rfl | rfl <;>
    rcases hg with rfl | rfl | rfl | rfl | rfl | rfl <;>
    first
      | (exact absurd rfl hfg)
      | ((try simp [room, cmp] at hr) <;> simp [stepCell] <;> omega)

theorem stepCell_opp (f : Face) (hf : f ∈ faces) (c : Nat × Nat × Nat) (hr : room c f) :
    stepCell (stepCell c f) (opp f) = c := by
  obtain ⟨x, y, z⟩ := c
  simp only [faces, List.mem_cons, List.not_mem_nil, or_false] at hf
  rcases hf with rfl | rfl | rfl | rfl | rfl | rfl <;>
    (try simp [room, cmp] at hr) <;> simp [stepCell, opp] <;> omega

theorem stepCell_comm (f g : Face) (hfg : f.1 ≠ g.1) (c : Nat × Nat × Nat) :
    stepCell (stepCell c f) g = stepCell (stepCell c g) f := by
  obtain ⟨x, y, z⟩ := c
  obtain ⟨f1, f2⟩ := f
  obtain ⟨g1, g2⟩ := g
  simp only at hfg
  simp only [stepCell, Prod.mk.injEq]
  refine ⟨?_, ?_, ?_⟩ <;> (split_ifs <;> first | rfl | omega)

theorem room_step (f g : Face) (hfg : f.1 ≠ g.1) (hg : g.1 < 3) (c : Nat × Nat × Nat) (h : room c g) :
    room (stepCell c f) g := by
  obtain ⟨x, y, z⟩ := c
  obtain ⟨f1, f2⟩ := f
  obtain ⟨g1, g2⟩ := g
  simp only at hfg hg
  unfold room at h ⊢
  intro h0
  have := h h0
  simp only [stepCell, cmp] at this ⊢
  split_ifs at this ⊢ <;> omega

theorem room_opp (f : Face) (hf : f ∈ faces) (c : Nat × Nat × Nat) : room (stepCell c f) (opp f) := by
  obtain ⟨x, y, z⟩ := c
  simp only [faces, List.mem_cons, List.not_mem_nil, or_false] at hf
  rcases hf with rfl | rfl | rfl | rfl | rfl | rfl <;> simp [room, opp, stepCell, cmp]

theorem opp_opp : ∀ f ∈ faces, opp (opp f) = f := by decide

theorem opp_mem : ∀ f ∈ faces, opp f ∈ faces := by decide

theorem opp_fst (f : Face) : (opp f).1 = f.1 := rfl

/-- The finite facts about start and end faces: with `(s, e) = seFaces v d`, both are faces through `v` with
different axes (neither the axis of `v`), and going round the edge — across `e`, then across `s`, or directly
across `s` — the neighbours' start / end faces are the ones shared with their own neighbours. -/
theorem se_facts : ∀ v ∈ cubeEdges, ∀ d : Bool,
    (seFaces v d).1 ∈ faces ∧ (seFaces v d).2 ∈ faces ∧ (seFaces v d).1.1 ≠ (seFaces v d).2.1 ∧
    vtxOnFace (seFaces v d).1 v = true ∧ vtxOnFace (seFaces v d).2 v = true ∧
    seFaces (stepVtx v (seFaces v d).2.1) d = (opp (seFaces v d).2, (seFaces v d).1) ∧
    vtxOnFace (seFaces v d).1 (stepVtx v (seFaces v d).2.1) = true ∧
    seFaces (stepVtx (stepVtx v (seFaces v d).2.1) (seFaces v d).1.1) d =
      (opp (seFaces v d).1, opp (seFaces v d).2) ∧
    seFaces (stepVtx v (seFaces v d).1.1) d = ((seFaces v d).2, opp (seFaces v d).1) ∧
    v.1 < 8 ∧ v.2 < 8 := by
  decide

/-- the position of a cube edge's midpoint is the sum of its two lattice points -/
theorem place_eq_corners (c : Nat × Nat × Nat) (v : Vtx) :
    place c.1 c.2.1 c.2.2 (loc3 v) =
      ((cornerPt c v.1).1 + (cornerPt c v.2).1, (cornerPt c v.1).2.1 + (cornerPt c v.2).2.1,
        (cornerPt c v.1).2.2 + (cornerPt c v.2).2.2) := by
  obtain ⟨x, y, z⟩ := c
  simp only [place, loc3, cornerPt, cornerOff, Prod.mk.injEq]
  refine ⟨?_, ?_, ?_⟩ <;> omega

theorem inBox_place (c : Nat × Nat × Nat) (v : Vtx) : inBox c.1 c.2.1 c.2.2 (place c.1 c.2.1 c.2.2 (loc3 v)) := by
  have := loc3_le v
  unfold inBox place
  simp only
  omega

/-- **Only four cells contain the midpoint of a cube edge**: the cell itself, its neighbours across the two
faces through the edge, and the one diagonally across both. -/
theorem inBox_four : ∀ v ∈ cubeEdges, ∀ d : Bool, ∀ c0 c : Nat × Nat × Nat,
    inBox c.1 c.2.1 c.2.2 (place c0.1 c0.2.1 c0.2.2 (loc3 v)) →
    c = c0 ∨ c = stepCell c0 (seFaces v d).2 ∨ c = stepCell (stepCell c0 (seFaces v d).2) (seFaces v d).1 ∨
      c = stepCell c0 (seFaces v d).1 := by
  intro v hv d c0 c
  obtain ⟨x0, y0, z0⟩ := c0
  obtain ⟨x, y, z⟩ := c
  simp only [cubeEdges, List.mem_cons, List.not_mem_nil, or_false] at hv
  rcases hv with rfl | rfl | rfl | rfl | rfl | rfl | rfl | rfl | rfl | rfl | rfl | rfl <;>
    cases d <;>
    (intro hb
     simp [inBox, place, loc3, bit] at hb
     simp [seFaces, axisOf, bit, stepCell]
     omega)

end M3d.Marching
