import M3d.Model.Render
import Mathlib.Tactic.Ring
import Mathlib.Tactic.FieldSimp
import Mathlib.Tactic.Linarith
import Mathlib.Tactic.Positivity
import Mathlib.Tactic.LinearCombination
import Mathlib.Algebra.Order.Field.Basic
import Mathlib.Algebra.BigOperators.Group.Finset.Piecewise
/-!
Helper lemmas and specification-level definitions for property C20 (`M3d/Props/C20.lean`),
about the models in `M3d/Model/Render.lean`.
-/
set_option linter.unusedSectionVars false
set_option linter.unusedSimpArgs false
namespace M3d.Render
open Finset
variable {K : Type} [Field K] [LinearOrder K] [IsStrictOrderedRing K] {σ : Type}

@[ext] theorem V3.ext' {α} {a b : V3 α} (hx : a.x = b.x) (hy : a.y = b.y) (hz : a.z = b.z) : a = b := by
  cases a; cases b; simp_all

/-! ### the sampling loop -/



/-- Componentwise sums of a list of vectors. -/
def V3.sumX (xs : List (V3 K)) : V3 K := ⟨(xs.map (·.x)).sum, (xs.map (·.y)).sum, (xs.map (·.z)).sum⟩

theorem foldl_add (xs : List (V3 K)) (a : V3 K) :
    xs.foldl V3.add a = a.add (V3.sumX xs) := by
  induction xs generalizing a with
  | nil => simp [V3.sumX, V3.add]
  | cons s xs ih =>
    simp only [List.foldl_cons, ih]
    simp only [V3.sumX, V3.add, List.map_cons, List.sum_cons]
    ext <;> simp <;> ring

theorem sumList_eq (xs : List (V3 K)) : sumList xs = V3.sumX xs := by
  unfold sumList
  rw [foldl_add]
  simp [V3.zero, V3.add]

theorem drawN_length (draw : σ → V3 K × σ) (n : Nat) (g : σ) : (drawN draw n g).1.length = n := by
  induction n generalizing g with
  | zero => simp [drawN]
  | succ n ih =>
    simp only [drawN]
    simp [ih]

/-- `drawN` one more: draw first, then the rest. -/
theorem drawN_succ (draw : σ → V3 K × σ) (n : Nat) (g : σ) :
    drawN draw (n + 1) g = ((draw g).1 :: (drawN draw n (draw g).2).1, (drawN draw n (draw g).2).2) := by
  simp [drawN]

theorem estLoop_spec (S : Sampler) (conv : Nat → V3 K → V3 K → Bool) (draw : σ → V3 K × σ)
    (fuel n : Nat) (sum sq : V3 K) (g : σ) :
    ∃ k, k ≤ fuel ∧ (1 ≤ fuel → 1 ≤ k) ∧
      (estLoop S conv draw fuel n sum sq g).n = n + k ∧
      (estLoop S conv draw fuel n sum sq g).drawn = n + k ∧
      (estLoop S conv draw fuel n sum sq g).gen = (drawN draw k g).2 ∧
      (estLoop S conv draw fuel n sum sq g).sum = (drawN draw k g).1.foldl V3.add sum := by
  induction fuel generalizing n sum sq g with
  | zero => exact ⟨0, le_refl _, by simp, by simp [estLoop, drawN]⟩
  | succ fuel ih =>
    have step : ∀ sq', ∃ k, k ≤ fuel + 1 ∧ (1 ≤ fuel + 1 → 1 ≤ k) ∧
        (estLoop S conv draw fuel (n + 1) (sum.add (draw g).1) sq' (draw g).2).n = n + k ∧
        (estLoop S conv draw fuel (n + 1) (sum.add (draw g).1) sq' (draw g).2).drawn = n + k ∧
        (estLoop S conv draw fuel (n + 1) (sum.add (draw g).1) sq' (draw g).2).gen = (drawN draw k g).2 ∧
        (estLoop S conv draw fuel (n + 1) (sum.add (draw g).1) sq' (draw g).2).sum
          = (drawN draw k g).1.foldl V3.add sum := by
      intro sq'
      obtain ⟨k, hk, _, h1, h2, h3, h4⟩ := ih (n + 1) (sum.add (draw g).1) sq' (draw g).2
      refine ⟨k + 1, by omega, by omega, by omega, by omega, ?_, ?_⟩
      · rw [h3, drawN_succ]
      · rw [h4, drawN_succ]; rfl
    have stop : ∃ k, k ≤ fuel + 1 ∧ (1 ≤ fuel + 1 → 1 ≤ k) ∧
        (⟨n + 1, sum.add (draw g).1, (draw g).2, n + 1⟩ : LoopOut K σ).n = n + k ∧
        (⟨n + 1, sum.add (draw g).1, (draw g).2, n + 1⟩ : LoopOut K σ).drawn = n + k ∧
        (⟨n + 1, sum.add (draw g).1, (draw g).2, n + 1⟩ : LoopOut K σ).gen = (drawN draw k g).2 ∧
        (⟨n + 1, sum.add (draw g).1, (draw g).2, n + 1⟩ : LoopOut K σ).sum
          = (drawN draw k g).1.foldl V3.add sum :=
      ⟨1, by omega, by omega, rfl, rfl, by simp [drawN], by simp [drawN]⟩
    unfold estLoop
    simp only []
    split
    · exact step sq
    · split
      · exact step _
      · split
        · exact stop
        · exact step _


/-! ### variance -/


/-- SPECIFICATION: the unbiased (Bessel-corrected) sample variance of a list of numbers. -/
def sampleVariance (l : List K) : K :=
  (l.map fun v => (v - l.sum / (l.length : K)) ^ 2).sum / ((l.length : K) - 1)

theorem sum_sq_dev (l : List K) (m : K) :
    (l.map fun v => (v - m) ^ 2).sum = (l.map fun v => v * v).sum - 2 * m * l.sum + (l.length : K) * m ^ 2 := by
  induction l with
  | nil => simp
  | cons a l ih =>
    simp only [List.map_cons, List.sum_cons, List.length_cons, ih]
    push_cast
    ring

theorem list_sum_nonneg (l : List K) (h : ∀ v ∈ l, 0 ≤ v) : 0 ≤ l.sum := by
  induction l with
  | nil => simp
  | cons a l ih =>
    simp only [List.sum_cons]
    have := h a (by simp)
    have := ih (fun v hv => h v (by simp [hv]))
    linarith

theorem sampleVariance_nonneg (l : List K) (h : 2 ≤ l.length) : 0 ≤ sampleVariance l := by
  unfold sampleVariance
  apply div_nonneg
  · apply list_sum_nonneg
    intro v hv
    simp only [List.mem_map] at hv
    obtain ⟨a, _, rfl⟩ := hv
    positivity
  · have : (2 : K) ≤ (l.length : K) := by exact_mod_cast h
    linarith

/-- The expression computed by `estimateVariance` (per channel) is the unbiased sample variance. -/
theorem variance_channel (l : List K) (h : 2 ≤ l.length) :
    ((l.map fun v => v * v).sum * (1 / (l.length : K)) - l.sum * (1 / (l.length : K)) * (l.sum * (1 / (l.length : K))))
        * ((l.length : K) / ((l.length - 1 : Nat) : K)) = sampleVariance l := by
  unfold sampleVariance
  rw [sum_sq_dev]
  have h2 : (2 : K) ≤ (l.length : K) := by exact_mod_cast h
  have hn : (l.length : K) ≠ 0 := by intro h0; rw [h0] at h2; linarith
  have hc : ((l.length - 1 : Nat) : K) = (l.length : K) - 1 := by
    rw [Nat.cast_sub (by omega)]; simp
  rw [hc]
  have hn1 : (l.length : K) - 1 ≠ 0 := by intro h0; linarith
  field_simp
  ring

theorem clamp_of_nonneg (v : K) (h : 0 ≤ v) : (if 0 < v then v else 0) = v := by
  split
  · rfl
  · linarith [le_antisymm (not_lt.mp ‹_›) h]


/-! ### mapCoordinates -/


theorem coords_length (w h : Nat) : (coords w h).length = w * h := by
  induction h with
  | zero => simp [coords]
  | succ h ih => simp [coords, coordRow, ih]; ring

/-- The channel holds, in order, `(i mod w, i div w, i)` for `i = 0 … w*h-1`. -/
theorem coords_eq (w h : Nat) :
    coords w h = (List.range (w * h)).map fun i => (i % w, i / w, i) := by
  induction h with
  | zero => simp [coords]
  | succ h ih =>
    rw [coords, coords_length, ih, Nat.mul_succ, List.range_add, List.map_append]
    congr 1
    simp only [coordRow, List.map_map]
    apply List.map_congr_left
    intro x hx
    have hx : x < w := List.mem_range.mp hx
    have hw : 0 < w := by omega
    simp only [Function.comp]
    rw [Nat.mul_add_mod, Nat.mod_eq_of_lt hx, Nat.mul_add_div hw, Nat.div_eq_of_lt hx]
    simp

theorem partition_count {T : Type} [BEq T] [LawfulBEq T] (W : Nat) (L : List (Nat × T))
    (hk : ∀ e ∈ L, e.1 < W) (c : T) :
    ∑ wk ∈ range W, ((L.filter fun e => e.1 == wk).map (·.2)).count c = (L.map (·.2)).count c := by
  induction L with
  | nil => simp
  | cons a L ih =>
    have ha : a.1 < W := hk a (by simp)
    have ih := ih (fun e he => hk e (by simp [he]))
    have : ∀ wk, (((a :: L).filter fun e => e.1 == wk).map (·.2)).count c
        = ((L.filter fun e => e.1 == wk).map (·.2)).count c + (if a.1 = wk then (if a.2 == c then 1 else 0) else 0) := by
      intro wk
      by_cases h : a.1 = wk
      · simp [List.filter_cons, h, List.count_cons]
      · simp [List.filter_cons, h]
    simp only [this, sum_add_distrib, ih]
    rw [Finset.sum_ite_eq]
    simp [ha, List.count_cons]

theorem dispatch_map_snd {T : Type} (sched : Nat → Nat) (q : List T) :
    (dispatch sched q).map (·.2) = q := by
  simp [dispatch, List.map_map, Function.comp_def]


/-! ### camera, matrix inverse -/



/-- `Matrix3.Inverse` really is a left inverse when the determinant is non-zero. -/
theorem inverse_mulColumn (m : M3 K) (hd : m.det ≠ 0) (u : V3 K) :
    m.inverse.mulColumn (m.mulColumn u) = u := by
  obtain ⟨i, hi⟩ : ∃ i, i = 1 / m.det := ⟨_, rfl⟩
  have h1 : m.det * i = 1 := by rw [hi]; field_simp
  simp only [M3.inverse, ← hi]
  simp only [M3.det] at h1
  ext
  · simp only [M3.adjugate, M3.scaleAll, M3.mulColumn]; linear_combination u.x * h1
  · simp only [M3.adjugate, M3.scaleAll, M3.mulColumn]; linear_combination u.y * h1
  · simp only [M3.adjugate, M3.scaleAll, M3.mulColumn]; linear_combination u.z * h1

theorem mulColumn_inverse (m : M3 K) (hd : m.det ≠ 0) (u : V3 K) :
    m.mulColumn (m.inverse.mulColumn u) = u := by
  obtain ⟨i, hi⟩ : ∃ i, i = 1 / m.det := ⟨_, rfl⟩
  have h1 : m.det * i = 1 := by rw [hi]; field_simp
  simp only [M3.inverse, ← hi]
  simp only [M3.det] at h1
  ext
  · simp only [M3.adjugate, M3.scaleAll, M3.mulColumn]; linear_combination u.x * h1
  · simp only [M3.adjugate, M3.scaleAll, M3.mulColumn]; linear_combination u.y * h1
  · simp only [M3.adjugate, M3.scaleAll, M3.mulColumn]; linear_combination u.z * h1

theorem ofColumns_mulColumn (x y z : V3 K) (a b c : K) :
    (M3.ofColumns x y z).mulColumn ⟨a, b, c⟩ = ((x.scale a).add (y.scale b)).add (z.scale c) := by
  ext <;> simp [M3.ofColumns, M3.mulColumn, V3.scale, V3.add]

/-- Core of the round trip: un-projecting `o + t·(x·a + y·b + z)` with the inverse of `[x y z]`. -/
theorem uncast_core (x y z o : V3 K) (cx cy ix iy t : K)
    (hdet : (M3.ofColumns x y z).det ≠ 0) (ht : t ≠ 0) (hcx : cx ≠ 0) (hcy : cy ≠ 0) :
    let p := o.add ((((x.scale ((ix - cx) / cx)).add (y.scale ((iy - cy) / cy))).add z).scale t)
    let xyz := (M3.ofColumns x y z).inverse.mulColumn (p.sub o)
    (xyz.x * (1 / xyz.z) * cx + cx, xyz.y * (1 / xyz.z) * cy + cy) = (ix, iy) := by
  intro p xyz
  have hp : p.sub o = (M3.ofColumns x y z).mulColumn ⟨t * ((ix - cx) / cx), t * ((iy - cy) / cy), t⟩ := by
    rw [ofColumns_mulColumn]
    ext <;> simp [p, V3.sub, V3.add, V3.scale] <;> ring
  have hxyz : xyz = ⟨t * ((ix - cx) / cx), t * ((iy - cy) / cy), t⟩ := by
    simp only [xyz, hp]; exact inverse_mulColumn _ hdet _
  rw [hxyz]
  simp only [Prod.mk.injEq]
  constructor <;> field_simp <;> ring

theorem det_scaled_axes (sx sy : V3 K) (a b k : K) :
    (M3.ofColumns (sx.scale a) (sy.scale b) ((sx.cross sy).scale k)).det
      = a * b * k * ((sx.cross sy).dot (sx.cross sy)) := by
  simp [M3.ofColumns, M3.det, V3.scale, V3.cross, V3.dot]; ring

theorem dot_self_pos (v : V3 K) (h : v ≠ V3.zero) : 0 < v.dot v := by
  have : v.x ≠ 0 ∨ v.y ≠ 0 ∨ v.z ≠ 0 := by
    by_contra hc
    simp only [not_or, not_not] at hc
    apply h
    ext <;> simp [V3.zero, hc.1, hc.2.1, hc.2.2]
  simp only [V3.dot]
  rcases this with h | h | h
  · have := mul_self_pos.mpr h; nlinarith [mul_self_nonneg v.y, mul_self_nonneg v.z]
  · have := mul_self_pos.mpr h; nlinarith [mul_self_nonneg v.x, mul_self_nonneg v.z]
  · have := mul_self_pos.mpr h; nlinarith [mul_self_nonneg v.x, mul_self_nonneg v.y]

/-- The camera basis `[x y z]` returned by `axes` is invertible. -/
theorem axes_det_ne_zero (sqrt : K → K) (c : Camera K) (w h : K) (hw : 0 < w) (hh : 0 < h)
    (hpd : c.pd ≠ 0) (hind : c.screenX.cross c.screenY ≠ V3.zero) (hsqrt : ∀ v : K, 0 < v → sqrt v ≠ 0) :
    (M3.ofColumns (c.axes sqrt w h).1 (c.axes sqrt w h).2.1 (c.axes sqrt w h).2.2).det ≠ 0 := by
  have hpos := dot_self_pos _ hind
  have hs : sqrt ((c.screenX.cross c.screenY).dot (c.screenX.cross c.screenY)) ≠ 0 := hsqrt _ hpos
  have hz : ((c.screenX.cross c.screenY).normalize sqrt).scale c.pd
      = (c.screenX.cross c.screenY).scale (1 / sqrt ((c.screenX.cross c.screenY).dot (c.screenX.cross c.screenY)) * c.pd) := by
    ext <;> simp [V3.normalize, V3.norm, V3.scale, V3.dot] <;> ring
  have hsx : c.screenX = c.screenX.scale 1 := by ext <;> simp [V3.scale]
  have hsy : c.screenY = c.screenY.scale 1 := by ext <;> simp [V3.scale]
  unfold Camera.axes
  simp only []
  rw [hz]
  split
  · conv => lhs; arg 1; arg 1; rw [hsx]
    rw [det_scaled_axes]
    have : h / w ≠ 0 := by positivity
    have h1 : (1 / sqrt ((c.screenX.cross c.screenY).dot (c.screenX.cross c.screenY)) * c.pd) ≠ 0 := by
      apply mul_ne_zero _ hpd; apply one_div_ne_zero hs
    have := hpos.ne'
    exact mul_ne_zero (mul_ne_zero (mul_ne_zero one_ne_zero ‹h / w ≠ 0›) h1) this
  · conv => lhs; arg 1; arg 2; rw [hsy]
    rw [det_scaled_axes]
    have : w / h ≠ 0 := by positivity
    have h1 : (1 / sqrt ((c.screenX.cross c.screenY).dot (c.screenX.cross c.screenY)) * c.pd) ≠ 0 := by
      apply mul_ne_zero _ hpd; apply one_div_ne_zero hs
    have := hpos.ne'
    exact mul_ne_zero (mul_ne_zero (mul_ne_zero ‹w / h ≠ 0› one_ne_zero) h1) this

theorem uncast_cast (sqrt : K → K) (c : Camera K) (w h ix iy t : K) (hw : 0 < w) (hh : 0 < h)
    (hpd : c.pd ≠ 0) (hind : c.screenX.cross c.screenY ≠ V3.zero) (hsqrt : ∀ v : K, 0 < v → sqrt v ≠ 0)
    (ht : 0 < t) :
    c.uncaster sqrt w h (c.origin.add ((c.caster sqrt w h ix iy).scale t)) = (ix, iy) := by
  have hdet := axes_det_ne_zero sqrt c w h hw hh hpd hind hsqrt
  have := uncast_core (c.axes sqrt w h).1 (c.axes sqrt w h).2.1 (c.axes sqrt w h).2.2 c.origin (w / 2) (h / 2) ix iy t
    hdet ht.ne' (by positivity) (by positivity)
  simpa [Camera.uncaster, Camera.caster] using this


/-! ### composite objects -/



/-- `h` is a collision some part reports for ray `r`. -/
def Hits (parts : List (Cast K)) (r : Ray K) (h : Hit K) : Prop := ∃ o ∈ parts, o r = some h

/-- SPECIFICATION of a composite's `Cast`: a miss iff every part misses, otherwise a collision
reported by a part and no part reports a smaller ray parameter. -/
def Nearest (parts : List (Cast K)) (r : Ray K) (res : Option (Hit K)) : Prop :=
  match res with
  | none => ∀ h, ¬ Hits parts r h
  | some h => Hits parts r h ∧ ∀ h', Hits parts r h' → h.scale ≤ h'.scale

theorem hits_append (a b : List (Cast K)) (r : Ray K) (h : Hit K) :
    Hits (a ++ b) r h ↔ Hits a r h ∨ Hits b r h := by
  simp only [Hits, List.mem_append]
  constructor
  · rintro ⟨o, ho | ho, e⟩
    · exact Or.inl ⟨o, ho, e⟩
    · exact Or.inr ⟨o, ho, e⟩
  · rintro (⟨o, ho, e⟩ | ⟨o, ho, e⟩)
    · exact ⟨o, Or.inl ho, e⟩
    · exact ⟨o, Or.inr ho, e⟩

theorem joinStep_nearest (seen : List (Cast K)) (r : Ray K) (best : Option (Hit K)) (o : Cast K)
    (hb : Nearest seen r best) : Nearest (seen ++ [o]) r (joinStep r best o) := by
  have hsingle : ∀ h, Hits [o] r h ↔ o r = some h := by
    intro h; simp [Hits]
  unfold joinStep
  cases ho : o r with
  | none =>
    cases best with
    | none =>
      intro h hh
      rcases (hits_append _ _ _ _).mp hh with h1 | h1
      · exact hb h h1
      · rw [hsingle, ho] at h1; cases h1
    | some b =>
      refine ⟨(hits_append _ _ _ _).mpr (Or.inl hb.1), ?_⟩
      intro h' hh
      rcases (hits_append _ _ _ _).mp hh with h1 | h1
      · exact hb.2 h' h1
      · rw [hsingle, ho] at h1; cases h1
  | some c =>
    cases best with
    | none =>
      refine ⟨(hits_append _ _ _ _).mpr (Or.inr ((hsingle c).mpr ho)), ?_⟩
      intro h' hh
      rcases (hits_append _ _ _ _).mp hh with h1 | h1
      · exact absurd h1 (hb h')
      · rw [hsingle, ho] at h1; cases h1; exact le_refl _
    | some b =>
      simp only []
      split
      · rename_i hlt
        refine ⟨(hits_append _ _ _ _).mpr (Or.inr ((hsingle c).mpr ho)), ?_⟩
        intro h' hh
        rcases (hits_append _ _ _ _).mp hh with h1 | h1
        · exact le_trans hlt.le (hb.2 h' h1)
        · rw [hsingle, ho] at h1; cases h1; exact le_refl _
      · rename_i hlt
        refine ⟨(hits_append _ _ _ _).mpr (Or.inl hb.1), ?_⟩
        intro h' hh
        rcases (hits_append _ _ _ _).mp hh with h1 | h1
        · exact hb.2 h' h1
        · rw [hsingle, ho] at h1; cases h1; exact not_lt.mp hlt

theorem foldl_joinStep_nearest (parts seen : List (Cast K)) (r : Ray K) (best : Option (Hit K))
    (hb : Nearest seen r best) : Nearest (seen ++ parts) r (parts.foldl (joinStep r) best) := by
  induction parts generalizing seen best with
  | nil => simpa using hb
  | cons o parts ih =>
    have := ih (seen ++ [o]) (joinStep r best o) (joinStep_nearest seen r best o hb)
    simpa using this

theorem joinedCast_nearest (parts : List (Cast K)) (r : Ray K) : Nearest parts r (joinedCast parts r) := by
  have := foldl_joinStep_nearest parts [] r none (by intro h hh; obtain ⟨o, ho, _⟩ := hh; cases ho)
  simpa [joinedCast] using this

/-- "Nearest of the nearests is the nearest of all": if every part of `parts` answers with the nearest
hit of its own group of leaves, the joined answer is the nearest hit among all leaves. -/
theorem nearest_of_groups (parts : List (Cast K)) (groups : List (List (Cast K))) (r : Ray K)
    (hlen : parts.length = groups.length)
    (hg : ∀ i (hi : i < parts.length), Nearest (groups[i]'(hlen ▸ hi)) r (parts[i] r))
    (res : Option (Hit K)) (hres : Nearest parts r res) : Nearest groups.flatten r res := by
  have key : ∀ h, Hits groups.flatten r h → ∃ h0, Hits parts r h0 ∧ h0.scale ≤ h.scale := by
    rintro h ⟨o, ho, e⟩
    obtain ⟨grp, hgrp, hog⟩ := List.mem_flatten.mp ho
    obtain ⟨i, hi, rfl⟩ := List.getElem_of_mem hgrp
    have hi' : i < parts.length := hlen ▸ hi
    have hn := hg i hi'
    cases hp : parts[i] r with
    | none => rw [hp] at hn; exact absurd ⟨o, hog, e⟩ (hn h)
    | some h0 =>
      rw [hp] at hn
      exact ⟨h0, ⟨parts[i], List.getElem_mem _, hp⟩, hn.2 h ⟨o, hog, e⟩⟩
  have back : ∀ h, Hits parts r h → Hits groups.flatten r h := by
    rintro h ⟨p, hp, e⟩
    obtain ⟨i, hi, rfl⟩ := List.getElem_of_mem hp
    have hn := hg i hi
    rw [e] at hn
    obtain ⟨o, ho, e'⟩ := hn.1
    exact ⟨o, List.mem_flatten.mpr ⟨_, List.getElem_mem _, ho⟩, e'⟩
  cases res with
  | none =>
    intro h hh
    obtain ⟨h0, hh0, _⟩ := key h hh
    exact hres h0 hh0
  | some hbest =>
    refine ⟨back _ hres.1, ?_⟩
    intro h' hh'
    obtain ⟨h0, hh0, hle⟩ := key h' hh'
    exact le_trans (hres.2 h0 hh0) hle

/-- The bounds collider of every branch is hit by every ray that hits a leaf below it. -/
def BVH.SoundAt (r : Ray K) : BVH K → Prop
  | .leaf _ => True
  | .branch b cs => (b r = true ∨ ∀ h, ¬ Hits (BVH.leavesList cs) r h) ∧ ∀ c ∈ cs, c.SoundAt r


theorem castList_length (cs : List (BVH K)) : (BVH.castList cs).length = cs.length := by
  induction cs with
  | nil => simp [BVH.castList]
  | cons c cs ih => simp [BVH.castList, ih]

theorem castList_getElem (cs : List (BVH K)) (i : Nat) (hi : i < (BVH.castList cs).length) :
    (BVH.castList cs)[i] = (cs[i]'(castList_length cs ▸ hi)).cast := by
  induction cs generalizing i with
  | nil => simp [BVH.castList] at hi
  | cons c cs ih =>
    cases i with
    | zero => simp [BVH.castList]
    | succ i => simp [BVH.castList]; exact ih i _

theorem leavesList_eq (cs : List (BVH K)) : BVH.leavesList cs = (cs.map BVH.leaves).flatten := by
  induction cs with
  | nil => simp [BVH.leavesList]
  | cons c cs ih => simp [BVH.leavesList, ih]

theorem filtered_nearest (b : Ray K → Bool) (o : Cast K) (leaves : List (Cast K)) (r : Ray K)
    (hs : b r = true ∨ ∀ h, ¬ Hits leaves r h) (ho : Nearest leaves r (o r)) :
    Nearest leaves r (filteredCast b o r) := by
  unfold filteredCast
  split
  · exact ho
  · rcases hs with hs | hs
    · contradiction
    · exact hs

theorem BVH.cast_nearest (r : Ray K) : (t : BVH K) → t.SoundAt r → Nearest t.leaves r (t.cast r)
  | .leaf c, _ => by
    simp only [BVH.leaves, BVH.cast]
    cases hc : c r with
    | none => intro h ⟨o, ho, e⟩; simp at ho; subst ho; rw [hc] at e; cases e
    | some h =>
      refine ⟨⟨c, by simp, hc⟩, ?_⟩
      rintro h' ⟨o, ho, e⟩
      simp at ho; subst ho; rw [hc] at e; cases e; exact le_refl _
  | .branch b cs, hs => by
    simp only [BVH.leaves, BVH.cast]
    have hs' : (b r = true ∨ ∀ h, ¬ Hits (BVH.leavesList cs) r h) ∧ ∀ c ∈ cs, c.SoundAt r := by
      simpa [BVH.SoundAt] using hs
    apply filtered_nearest _ _ _ _ hs'.1
    rw [leavesList_eq]
    apply nearest_of_groups (BVH.castList cs) (cs.map BVH.leaves) r (by simp [castList_length])
    · intro i hi
      rw [castList_getElem]
      simp only [List.getElem_map]
      have hi' : i < cs.length := castList_length cs ▸ hi
      exact BVH.cast_nearest r cs[i] (hs'.2 _ (List.getElem_mem _))
    · exact joinedCast_nearest _ r
termination_by t => sizeOf t
decreasing_by
  have := List.sizeOf_lt_of_mem (List.getElem_mem hi')
  simp
  omega


/-! ### transformed objects, uniform emitter -/



/-- SPECIFICATION: `o` is a correct first-hit caster for the oriented surface `S`
(`S p n`: `p` is a surface point with normal `n`). -/
structure CastsSurface (o : Cast K) (S : V3 K → V3 K → Prop) : Prop where
  sound : ∀ r h, o r = some h → 0 ≤ h.scale ∧ S (r.at h.scale) h.normal
  first : ∀ r h, o r = some h → ∀ t n, 0 ≤ t → S (r.at t) n → h.scale ≤ t
  complete : ∀ r, o r = none → ∀ t n, 0 ≤ t → ¬ S (r.at t) n

theorem translated_at (off : V3 K) (r : Ray K) (t : K) :
    (⟨r.origin.sub off, r.dir⟩ : Ray K).at t = (r.at t).sub off := by
  ext <;> simp [Ray.at, V3.sub, V3.add, V3.scale] <;> ring

theorem mulColumn_at (m : M3 K) (r : Ray K) (t : K) :
    (⟨m.mulColumn r.origin, m.mulColumn r.dir⟩ : Ray K).at t = m.mulColumn (r.at t) := by
  ext <;> simp [Ray.at, M3.mulColumn, V3.add, V3.scale] <;> ring

theorem translated_casts (off : V3 K) (o : Cast K) (S : V3 K → V3 K → Prop) (ho : CastsSurface o S) :
    CastsSurface (translatedCast off o) (fun p n => S (p.sub off) n) := by
  constructor
  · intro r h e
    have := ho.sound _ h e
    rw [translated_at] at this
    exact this
  · intro r h e t n ht hs
    apply ho.first _ h e t n ht
    rw [translated_at]; exact hs
  · intro r e t n ht hs
    apply ho.complete _ e t n ht
    rw [translated_at]; exact hs

theorem matrix_casts (sqrt : K → K) (m minv : M3 K) (o : Cast K) (S : V3 K → V3 K → Prop)
    (ho : CastsSurface o S) :
    CastsSurface (matrixCast sqrt m minv o)
      (fun p n' => ∃ n, S (minv.mulColumn p) n ∧ n' = (minv.transpose.mulColumn n).normalize sqrt) := by
  constructor
  · intro r h e
    unfold matrixCast at e
    split at e
    · cases e
    · rename_i h0 e0
      cases e
      have := ho.sound _ h0 e0
      rw [mulColumn_at] at this
      exact ⟨this.1, h0.normal, this.2, rfl⟩
  · intro r h e t n' ht hs
    obtain ⟨n, hs, _⟩ := hs
    unfold matrixCast at e
    split at e
    · cases e
    · rename_i h0 e0
      cases e
      apply ho.first _ h0 e0 t n ht
      rw [mulColumn_at]; exact hs
  · intro r e t n' ht hs
    obtain ⟨n, hs, _⟩ := hs
    unfold matrixCast at e
    split at e
    · rename_i e0
      apply ho.complete _ e0 t n ht
      rw [mulColumn_at]; exact hs
    · cases e

/-- `(Aᵀ n)·v = n·(A v)`. -/
theorem transpose_dot (a : M3 K) (n v : V3 K) :
    (a.transpose.mulColumn n).dot v = n.dot (a.mulColumn v) := by
  simp only [M3.transpose, M3.mulColumn, V3.dot]; ring

/-- The inverse-transpose normal pairs with image vectors exactly as the original normal pairs
with the original vectors. -/
theorem inverse_transpose_normal (m : M3 K) (hd : m.det ≠ 0) (n v : V3 K) :
    (m.inverse.transpose.mulColumn n).dot (m.mulColumn v) = n.dot v := by
  rw [transpose_dot, inverse_mulColumn m hd]

/-- For a rotation composed with a uniform scale (`MᵀM = s²·I`) the vector `M n` the code
normalises is `s²` times the exact normal transform `M⁻ᵀ n`: it stays perpendicular to the images of
the tangent vectors and on the same side of the surface. -/
theorem conformal_normal (m : M3 K) (s2 : K) (hc : m.transpose.mulM m = (M3.one : M3 K).scaleAll s2)
    (n v : V3 K) : (m.mulColumn n).dot (m.mulColumn v) = s2 * n.dot v := by
  simp only [M3.transpose, M3.mulM, M3.one, M3.scaleAll, M3.mk.injEq] at hc
  obtain ⟨h0, h1, h2, h3, h4, h5, h6, h7, h8⟩ := hc
  simp only [M3.mulColumn, V3.dot]
  linear_combination (n.x * v.x) * h0 + (n.x * v.y) * h1 + (n.x * v.z) * h2 + (n.y * v.x) * h3
    + (n.y * v.y) * h4 + (n.y * v.z) * h5 + (n.z * v.x) * h6 + (n.z * v.y) * h7 + (n.z * v.z) * h8

theorem normalize_unit (sqrt : K → K) (hsq : ∀ v : K, 0 ≤ v → sqrt v * sqrt v = v) (a : V3 K)
    (ha : a ≠ V3.zero) : (a.normalize sqrt).dot (a.normalize sqrt) = 1 := by
  have hpos : 0 < a.x * a.x + a.y * a.y + a.z * a.z := by
    have : a.x ≠ 0 ∨ a.y ≠ 0 ∨ a.z ≠ 0 := by
      by_contra hc
      simp only [not_or, not_not] at hc
      apply ha
      ext <;> simp [V3.zero, hc.1, hc.2.1, hc.2.2]
    rcases this with h | h | h
    · have := mul_self_pos.mpr h; nlinarith [mul_self_nonneg a.y, mul_self_nonneg a.z]
    · have := mul_self_pos.mpr h; nlinarith [mul_self_nonneg a.x, mul_self_nonneg a.z]
    · have := mul_self_pos.mpr h; nlinarith [mul_self_nonneg a.x, mul_self_nonneg a.y]
  have hs := hsq _ hpos.le
  have hne : sqrt (a.x * a.x + a.y * a.y + a.z * a.z) ≠ 0 := by
    intro h0; rw [h0] at hs; simp at hs; linarith
  simp only [V3.normalize, V3.norm, V3.scale, V3.dot]
  generalize sqrt (a.x * a.x + a.y * a.y + a.z * a.z) = s at hs hne
  have hinv : (1 / s) * (1 / s) * (s * s) = 1 := by field_simp
  linear_combination (-((1 / s) * (1 / s))) * hs + hinv

/-! uniform emitter -/

theorem directLight_nil (scene : Ray K → Option (Hit K × Mat K σ)) (sqrt : K → K) (eps : K)
    (point normal dest : V3 K) (m : Mat K σ) (color : V3 K) :
    directLight scene sqrt eps [] point normal dest m color = color := rfl

theorem recurse_uniform_emitter (scene : Ray K → Option (Hit K × Mat K σ)) (sqrt abs : K → K)
    (cutoff eps : K) (uniform : σ → K × σ) (focus : List (FocusPt K σ)) (E : V3 K)
    (hclosed : ∀ r, ∃ c m, scene r = some (c, m) ∧ m.emission = E ∧ m.ambient = V3.zero ∧
      ∀ n s d, m.bsdf n s d = V3.zero)
    (fuel : Nat) (first : Bool) (g : σ) (ray : Ray K) (scale : V3 K)
    (hcut : ¬ (scale.x + scale.y + scale.z) / 3 < cutoff) :
    (recurse scene sqrt abs cutoff eps [] uniform focus fuel first g ray scale).1 = E := by
  obtain ⟨c, m, hs, hE, hA, hB⟩ := hclosed ray
  have hcol : (if first then m.emission.add m.ambient else m.emission) = E := by
    split
    · rw [hE, hA]; ext <;> simp [V3.add, V3.zero]
    · exact hE
  cases fuel with
  | zero =>
    unfold recurse
    simp only [hcut, if_false, hs, hcol, directLight_nil]
  | succ fuel =>
    unfold recurse
    simp only [hcut, if_false, hs, hcol, hB, directLight_nil]
    ext <;> simp [V3.add, V3.mul, V3.scale, V3.zero]

theorem foldl_congr_mem {α β : Type} (l : List α) (f g : β → α → β) (b : β)
    (h : ∀ a ∈ l, ∀ b, f b a = g b a) : l.foldl f b = l.foldl g b := by
  induction l generalizing b with
  | nil => rfl
  | cons a l ih =>
    simp only [List.foldl_cons]
    rw [h a (by simp) b]
    exact ih _ (fun a' ha' => h a' (by simp [ha']))

/-- With `MaxDepth = 0`, a constant (matte) BSDF and no light in shadow, the ray tracer's sample
is the ray caster's pixel. -/
theorem recurse_lit_matte (scene : Ray K → Option (Hit K × Mat K σ)) (sqrt abs : K → K)
    (cutoff eps : K) (hcut : cutoff ≤ 1) (lights : List (PointLight K)) (uniform : σ → K × σ)
    (focus : List (FocusPt K σ)) (ray : Ray K) (g : σ)
    (c : Hit K) (m : Mat K σ) (hs : scene ray = some (c, m)) (rho : V3 K)
    (hm : ∀ n s d, m.bsdf n s d = rho)
    (hshadow : ∀ l ∈ lights,
      let point := ray.origin.add (ray.dir.scale c.scale)
      let ld := l.origin.sub point
      match scene ⟨point.add ((ld.normalize sqrt).scale eps), ld⟩ with
      | some (sc, _) => ¬ sc.scale < 1
      | none => True) :
    (recurse scene sqrt abs cutoff eps lights uniform focus 0 true g ray ⟨1, 1, 1⟩).1
      = rayCasterPixel scene sqrt lights ray := by
  have h1 : ¬ ((1 : K) + 1 + 1) / 3 < cutoff := by
    have : ((1 : K) + 1 + 1) / 3 = 1 := by norm_num
    rw [this]; exact not_lt.mpr hcut
  unfold recurse rayCasterPixel
  simp only [h1, if_false, hs, if_true, directLight]
  have hcomm : m.emission.add m.ambient = m.ambient.add m.emission := by
    ext <;> simp [V3.add] <;> ring
  rw [hcomm]
  apply foldl_congr_mem
  intro l hl b
  have := hshadow l hl
  simp only [hm]
  simp only [] at this
  split
  · rename_i sc _ heq
    rw [heq] at this
    simp only [this, if_false]
  · rfl

/-! ### early stop, image assembly -/

theorem estLoop_early_aux (S : Sampler) (conv : Nat → V3 K → V3 K → Bool) (draw : σ → V3 K × σ)
    (fuel n : Nat) (sum sq : V3 K) (g : σ) :
    (estLoop S conv draw fuel n sum sq g).n < n + fuel →
      S.hasCheck = true ∧ S.minSamples ≤ (estLoop S conv draw fuel n sum sq g).n ∧
        2 ≤ (estLoop S conv draw fuel n sum sq g).n ∧
        conv (estLoop S conv draw fuel n sum sq g).n (estLoop S conv draw fuel n sum sq g).sum
          (((drawN draw ((estLoop S conv draw fuel n sum sq g).n - n) g).1.map fun s => s.mul s).foldl V3.add sq)
          = true := by
  induction fuel generalizing n sum sq g with
  | zero => intro h; simp [estLoop] at h
  | succ fuel ih =>
    have cont : ∀ sq', (S.hasCheck = true → sq' = sq.add ((draw g).1.mul (draw g).1)) →
        (estLoop S conv draw fuel (n + 1) (sum.add (draw g).1) sq' (draw g).2).n < n + (fuel + 1) →
        S.hasCheck = true ∧ S.minSamples ≤ (estLoop S conv draw fuel (n + 1) (sum.add (draw g).1) sq' (draw g).2).n ∧
        2 ≤ (estLoop S conv draw fuel (n + 1) (sum.add (draw g).1) sq' (draw g).2).n ∧
        conv (estLoop S conv draw fuel (n + 1) (sum.add (draw g).1) sq' (draw g).2).n
          (estLoop S conv draw fuel (n + 1) (sum.add (draw g).1) sq' (draw g).2).sum
          (((drawN draw ((estLoop S conv draw fuel (n + 1) (sum.add (draw g).1) sq' (draw g).2).n - n) g).1.map
            fun s => s.mul s).foldl V3.add sq) = true := by
      intro sq' hsq hlt
      obtain ⟨k, _, _, hn, _, _, _⟩ := estLoop_spec S conv draw fuel (n + 1) (sum.add (draw g).1) sq' (draw g).2
      obtain ⟨h1, h2, h3, h4⟩ := ih (n + 1) (sum.add (draw g).1) sq' (draw g).2 (by omega)
      refine ⟨h1, h2, h3, ?_⟩
      have e : (estLoop S conv draw fuel (n + 1) (sum.add (draw g).1) sq' (draw g).2).n - n
          = ((estLoop S conv draw fuel (n + 1) (sum.add (draw g).1) sq' (draw g).2).n - (n + 1)) + 1 := by omega
      rw [e, drawN_succ]
      simp only [List.map_cons, List.foldl_cons]
      rw [← hsq h1]
      exact h4
    unfold estLoop
    simp only []
    split
    · rename_i hc
      exact cont sq (by intro h; simp [h] at hc)
    · split
      · exact cont _ (fun _ => rfl)
      · rename_i hc hm
        split
        · rename_i hconv
          intro _
          simp only [Bool.not_eq_true, Bool.not_eq_false', Bool.not_not] at hc
          simp only [Bool.or_eq_true, decide_eq_true_eq, not_or, not_lt] at hm
          refine ⟨by simpa using hc, hm.1, hm.2, ?_⟩
          simp only [Nat.add_sub_cancel_left, drawN]
          simpa using hconv
        · exact cont _ (fun _ => rfl)

theorem estLoop_early (S : Sampler) (conv : Nat → V3 K → V3 K → Bool) (draw : σ → V3 K × σ) (g : σ) :
    let res := estimateColor (Nat.cast : Nat → K) S conv draw g
    let n := res.2.1
    let drawn := (drawN draw n g).1
    n < S.numSamples →
      S.hasCheck = true ∧ S.minSamples ≤ n ∧ 2 ≤ n ∧
        conv n (sumList drawn) (sumList (drawn.map fun s => s.mul s)) = true := by
  intro res n drawn hlt
  have h := estLoop_early_aux S conv draw S.numSamples 0 V3.zero V3.zero g (by simpa [n, res, estimateColor] using hlt)
  obtain ⟨k, _, _, hn, _, _, hs⟩ := estLoop_spec S conv draw S.numSamples 0 V3.zero V3.zero g
  obtain ⟨h1, h2, h3, h4⟩ := h
  refine ⟨h1, h2, h3, ?_⟩
  have hs' : (estLoop S conv draw S.numSamples 0 V3.zero V3.zero g).sum = sumList drawn := by
    rw [hs, sumList]; simp only [drawn, n, res, estimateColor]; congr 3; omega
  rw [hs'] at h4
  simpa [sumList, n, res, estimateColor, drawn] using h4

/-! renderImage -/

theorem dispatch_range {T : Type} (sched : Nat → Nat) (n : Nat) (F : Nat → T) :
    dispatch sched ((List.range n).map F) = (List.range n).map fun k => (sched k, F k) := by
  apply List.ext_getElem
  · simp [dispatch]
  · intro i h1 h2
    simp [dispatch]

theorem find_map_range {β : Type} (n i : Nat) (H : Nat → β) (p : β → Bool)
    (hp : ∀ k, p (H k) = (k == i)) (hi : i < n) : ((List.range n).map H).find? p = some (H i) := by
  induction n with
  | zero => omega
  | succ n ih =>
    rw [List.range_succ, List.map_append, List.find?_append]
    by_cases h : i < n
    · rw [ih h]; rfl
    · have : i = n := by omega
      subst this
      have : ((List.range i).map H).find? p = none := by
        rw [List.find?_eq_none]
        intro x hx
        simp only [List.mem_map, List.mem_range] at hx
        obtain ⟨k, hk, rfl⟩ := hx
        rw [hp]; simp; omega
      rw [this]
      simp [hp]

theorem renderImage_eq {C : Type} (dflt : C) (w h : Nat) (sched : Nat → Nat) (pixel : Nat → Nat → C) :
    renderImage dflt w h sched pixel = (List.range (w * h)).map fun i => pixel (i % w) (i / w) := by
  unfold renderImage
  apply List.map_congr_left
  intro i hi
  have hi : i < w * h := List.mem_range.mp hi
  rw [coords_eq, dispatch_range]
  rw [find_map_range (w * h) i (fun k => (sched k, (k % w, k / w, k))) _ (by intro k; rfl) hi]


/-! ### DirectionalCamera -/

theorem dirSearch_ok (ok : K → Bool) (n : Nat) (lo hi : K) (h : ok hi = true) :
    ok (dirSearch ok n lo hi) = true := by
  induction n generalizing lo hi with
  | zero => simpa [dirSearch] using h
  | succ n ih =>
    unfold dirSearch
    simp only []
    split
    · rename_i hd; exact ih _ _ hd
    · exact ih _ _ h

/-- Invariants of the bisection, step by step: the bracket stays ordered, the upper end is the
initial one or a distance at which the test succeeded, the lower end is the initial one or a distance
at which it failed, and the bracket halves every step. -/
theorem dirSearch_invariant (ok : K → Bool) (n : Nat) (lo hi : K) (h : lo ≤ hi) :
    lo ≤ dirSearch ok n lo hi ∧ dirSearch ok n lo hi ≤ hi ∧
      (ok (dirSearch ok n lo hi) = true ∨ dirSearch ok n lo hi = hi) ∧
      ∃ l, (l = lo ∨ ok l = false) ∧ l ≤ dirSearch ok n lo hi ∧
        dirSearch ok n lo hi - l = (hi - lo) / 2 ^ n := by
  induction n generalizing lo hi with
  | zero => exact ⟨h, le_refl _, Or.inr rfl, lo, Or.inl rfl, h, by simp [dirSearch]⟩
  | succ n ih =>
    have h1 : lo ≤ (lo + hi) / 2 := by linarith
    have h2 : (lo + hi) / 2 ≤ hi := by linarith
    unfold dirSearch
    simp only []
    split
    · rename_i hd
      obtain ⟨a, b, c, l, hl, hl2, hl3⟩ := ih lo ((lo + hi) / 2) h1
      refine ⟨a, le_trans b h2, ?_, l, hl, hl2, ?_⟩
      · rcases c with c | c
        · exact Or.inl c
        · rw [c]; exact Or.inl hd
      · rw [hl3, pow_succ]; field_simp; ring
    · rename_i hd
      obtain ⟨a, b, c, l, hl, hl2, hl3⟩ := ih ((lo + hi) / 2) hi h2
      refine ⟨le_trans h1 a, b, c, l, ?_, hl2, ?_⟩
      · rcases hl with hl | hl
        · rw [hl]; exact Or.inr (by simpa using hd)
        · exact Or.inr hl
      · rw [hl3, pow_succ]; field_simp; ring

/-! ### Image accessors -/


/-- Row-major enumeration: `n` rows of `m` entries. -/
theorem flatMap_rows {β : Type} (n m : Nat) (g : Nat → Nat → β) :
    ((List.range n).flatMap fun a => (List.range m).map (g a)) =
      (List.range (m * n)).map fun i => g (i / m) (i % m) := by
  induction n with
  | zero => simp
  | succ n ih =>
    rw [List.range_succ, List.flatMap_append, ih, Nat.mul_succ, List.range_add, List.map_append]
    congr 1
    simp only [List.flatMap_cons, List.flatMap_nil, List.append_nil, List.map_map]
    apply List.map_congr_left
    intro x hx
    have hx : x < m := List.mem_range.mp hx
    have hm : 0 < m := by omega
    simp only [Function.comp]
    rw [Nat.mul_add_div hm, Nat.div_eq_of_lt hx, Nat.mul_add_mod, Nat.mod_eq_of_lt hx]
    simp

theorem blockSum_eq (i : Img (V3 K)) (f i1 j : Nat) : blockSum i f i1 j = sumList (blockPixels i f i1 j) := by
  unfold blockSum blockPixels sumList
  rw [List.foldl_flatMap]
  congr 1
  funext acc k
  rw [List.foldl_map]

theorem blockPixels_length (i : Img (V3 K)) (f i1 j : Nat) : (blockPixels i f i1 j).length = f * f := by
  unfold blockPixels
  rw [flatMap_rows]; simp

theorem downsample_at (cast : Nat → K) (i : Img (V3 K)) (f j i1 : Nat)
    (hj : j < i.width / f) (hi : i1 < i.height / f) :
    (i.downsample cast f).at V3.zero j i1 = meanOf cast (blockPixels i f i1 j) := by
  unfold Img.downsample Img.at meanOf
  simp only []
  rw [flatMap_rows, blockPixels_length, ← blockSum_eq]
  have hlt : j + i1 * (i.width / f) < i.width / f * (i.height / f) := by
    calc j + i1 * (i.width / f) < (i.width / f) + i1 * (i.width / f) := by omega
      _ = (i.width / f) * (i1 + 1) := by ring
      _ ≤ (i.width / f) * (i.height / f) := Nat.mul_le_mul_left _ hi
  rw [List.getD_eq_getElem?_getD, List.getElem?_map, List.getElem?_range hlt]
  simp only [Option.map_some, Option.getD_some]
  have hw : 0 < i.width / f := by omega
  rw [Nat.add_mul_div_right _ _ hw, Nat.div_eq_of_lt hj, Nat.add_mul_mod_self_right, Nat.mod_eq_of_lt hj]
  simp

/-- `Set` then `At`. -/
theorem set_at {C : Type} (z : C) (i : Img C) (x y x' y' : Nat) (c : C)
    (hx : x < i.width) (hx' : x' < i.width) (hlen : x + y * i.width < i.data.length) :
    (i.set x y c).at z x' y' = if x' = x ∧ y' = y then c else i.at z x' y' := by
  unfold Img.set Img.at
  simp only [List.getD_eq_getElem?_getD, List.getElem?_set]
  by_cases h : x' = x ∧ y' = y
  · obtain ⟨rfl, rfl⟩ := h
    simp [hlen]
  · have hne : x + y * i.width ≠ x' + y' * i.width := by
      intro e
      apply h
      have h1 : (x + y * i.width) % i.width = (x' + y' * i.width) % i.width := by rw [e]
      have h2 : (x + y * i.width) / i.width = (x' + y' * i.width) / i.width := by rw [e]
      have hw : 0 < i.width := by omega
      rw [Nat.add_mul_mod_self_right, Nat.add_mul_mod_self_right, Nat.mod_eq_of_lt hx, Nat.mod_eq_of_lt hx'] at h1
      rw [Nat.add_mul_div_right _ _ hw, Nat.add_mul_div_right _ _ hw, Nat.div_eq_of_lt hx, Nat.div_eq_of_lt hx'] at h2
      omega
    simp [hne, h]



theorem copySlice_length {C : Type} (dst src : List C) (start : Nat) (h : start + src.length ≤ dst.length) :
    (copySlice dst start src).length = dst.length := by
  simp [copySlice]; omega

theorem copySlice_getD {C : Type} (z : C) (dst src : List C) (start k : Nat)
    (h : start + src.length ≤ dst.length) :
    (copySlice dst start src).getD k z =
      if start ≤ k ∧ k < start + src.length then src.getD (k - start) z else dst.getD k z := by
  unfold copySlice
  simp only [List.getD_eq_getElem?_getD]
  by_cases h1 : k < start
  · have : ¬ (start ≤ k ∧ k < start + src.length) := by omega
    rw [if_neg this, List.append_assoc, List.getElem?_append_left (by simp; omega)]
    rw [List.getElem?_take_of_lt h1]
  · by_cases h2 : k < start + src.length
    · rw [if_pos ⟨by omega, h2⟩, List.append_assoc, List.getElem?_append_right (by simp; omega)]
      simp only [List.length_take, Nat.min_eq_left (show start ≤ dst.length by omega)]
      rw [List.getElem?_append_left (by omega)]
    · have : ¬ (start ≤ k ∧ k < start + src.length) := by omega
      rw [if_neg this, List.append_assoc, List.getElem?_append_right (by simp; omega)]
      simp only [List.length_take, Nat.min_eq_left (show start ≤ dst.length by omega)]
      rw [List.getElem?_append_right (by omega), List.getElem?_drop]
      congr 2; omega

/-- Position of pixel `(a, b)` relative to the destination row segment of row `r`. -/
theorem seg_iff (W x cw r a b : Nat) (ha : a < W) (hcw : x + cw ≤ W) :
    (r * W + x ≤ a + b * W ∧ a + b * W < r * W + x + cw) ↔ (b = r ∧ x ≤ a ∧ a < x + cw) := by
  constructor
  · rintro ⟨h1, h2⟩
    have hb : b = r := by
      rcases Nat.lt_trichotomy b r with hlt | heq | hgt
      · have : (b + 1) * W ≤ r * W := Nat.mul_le_mul_right W hlt
        rw [Nat.add_mul] at this; omega
      · exact heq
      · have : (r + 1) * W ≤ b * W := Nat.mul_le_mul_right W hgt
        rw [Nat.add_mul] at this; omega
    subst hb
    omega
  · rintro ⟨rfl, h1, h2⟩
    omega

theorem copyFrom_rows {C : Type} (z : C) (W H x y cw W1 : Nat) (src : List C) (dst0 : List C)
    (hlen : dst0.length = W * H) (hcw : x + cw ≤ W) (hcw1 : cw ≤ W1) (n : Nat) (hn : n + y ≤ H)
    (hsrc : W1 * n ≤ src.length) :
    let d := (List.range n).foldl (fun d row =>
      copySlice d ((row + y) * W + x) ((src.drop (row * W1)).take cw)) dst0
    d.length = W * H ∧ ∀ a b, a < W → b < H →
      d.getD (a + b * W) z =
        if x ≤ a ∧ a < x + cw ∧ y ≤ b ∧ b < y + n then src.getD ((a - x) + (b - y) * W1) z
        else dst0.getD (a + b * W) z := by
  induction n with
  | zero =>
    refine ⟨by simpa using hlen, ?_⟩
    intro a b _ _
    have : ¬ (x ≤ a ∧ a < x + cw ∧ y ≤ b ∧ b < y + 0) := by omega
    simp [this]
  | succ n ih =>
    have hsrc' : W1 * n ≤ src.length := le_trans (Nat.mul_le_mul_left W1 (Nat.le_succ n)) hsrc
    obtain ⟨hl, hget⟩ := ih (by omega) hsrc'
    simp only [List.range_succ, List.foldl_append, List.foldl_cons, List.foldl_nil]
    set d := (List.range n).foldl (fun d row =>
      copySlice d ((row + y) * W + x) ((src.drop (row * W1)).take cw)) dst0 with hd
    have hseg : ((src.drop (n * W1)).take cw).length = cw := by
      simp only [List.length_take, List.length_drop]
      have : W1 * (n + 1) = n * W1 + W1 := by ring
      omega
    have hfit : (n + y) * W + x + ((src.drop (n * W1)).take cw).length ≤ d.length := by
      rw [hseg, hl]
      have : (n + y + 1) * W ≤ H * W := Nat.mul_le_mul_right W (by omega)
      rw [Nat.add_mul, Nat.mul_comm H W] at this
      omega
    refine ⟨by rw [copySlice_length _ _ _ hfit, hl], ?_⟩
    intro a b ha hb
    rw [copySlice_getD z _ _ _ _ hfit, hseg]
    have hsi := seg_iff W x cw (n + y) a b ha hcw
    by_cases hrow : b = n + y ∧ x ≤ a ∧ a < x + cw
    · obtain ⟨rfl, h1, h2⟩ := hrow
      rw [if_pos (hsi.mpr ⟨rfl, h1, h2⟩), if_pos ⟨h1, h2, by omega, by omega⟩]
      simp only [List.getD_eq_getElem?_getD]
      rw [List.getElem?_take_of_lt (by omega), List.getElem?_drop]
      congr 2
      have : n + y - y = n := by omega
      rw [this]; omega
    · rw [if_neg (fun hc => hrow (hsi.mp hc)), hget a b ha hb]
      by_cases hold : x ≤ a ∧ a < x + cw ∧ y ≤ b ∧ b < y + n
      · rw [if_pos hold, if_pos ⟨hold.1, hold.2.1, hold.2.2.1, by omega⟩]
      · rw [if_neg hold, if_neg]
        intro hc
        apply hrow
        refine ⟨?_, hc.1, hc.2.1⟩
        by_contra hne
        apply hold
        exact ⟨hc.1, hc.2.1, hc.2.2.1, by omega⟩


/-! ### one bounce, focus points, mixture sampling -/


/-- A hit on a surface with zero BSDF and no point lights returns its emission (+ ambient at depth 0),
whatever the remaining depth, the sampler and the rest of the scene. -/
theorem recurse_zero_bsdf_hit (scene : Ray K → Option (Hit K × Mat K σ)) (sqrt abs : K → K)
    (cutoff eps : K) (uniform : σ → K × σ) (focus : List (FocusPt K σ))
    (fuel : Nat) (first : Bool) (g : σ) (ray : Ray K) (scale : V3 K)
    (c : Hit K) (m : Mat K σ) (hs : scene ray = some (c, m)) (hB : ∀ n s d, m.bsdf n s d = V3.zero)
    (hcut : ¬ (scale.x + scale.y + scale.z) / 3 < cutoff) :
    (recurse scene sqrt abs cutoff eps [] uniform focus fuel first g ray scale).1
      = if first then m.emission.add m.ambient else m.emission := by
  cases fuel with
  | zero =>
    unfold recurse
    simp only [hcut, if_false, hs, directLight_nil]
  | succ fuel =>
    unfold recurse
    simp only [hcut, if_false, hs, hB, directLight_nil]
    ext <;> simp [V3.add, V3.mul, V3.scale, V3.zero]

/-- One bounce off a matte surface onto a zero-BSDF emitter. -/
theorem recurse_one_bounce (scene : Ray K → Option (Hit K × Mat K σ)) (sqrt abs : K → K)
    (cutoff eps : K) (uniform : σ → K × σ) (focus : List (FocusPt K σ))
    (fuel : Nat) (g : σ) (ray : Ray K) (c : Hit K) (m : Mat K σ) (hs : scene ray = some (c, m))
    (hcut : cutoff ≤ 1)
    (c2 : Hit K) (m2 : Mat K σ)
    (hB2 : ∀ n s d, m2.bsdf n s d = V3.zero) :
    let point := ray.origin.add (ray.dir.scale c.scale)
    let dest := (ray.dir.normalize sqrt).scale (-1)
    let sg := sampleNextSource uniform focus m g point c.normal dest
    let src := sg.1
    let w := 1 / sourceDensity focus m point c.normal src dest * abs (src.dot c.normal)
    let mask := (m.bsdf c.normal src dest).scale w
    let dir := src.scale (-1)
    let next : Ray K := ⟨point.add ((dir.normalize sqrt).scale eps), dir⟩
    scene next = some (c2, m2) →
    ¬ (mask.x + mask.y + mask.z) / 3 < cutoff →
    (recurse scene sqrt abs cutoff eps [] uniform focus (fuel + 1) true g ray ⟨1, 1, 1⟩).1
      = (m.emission.add m.ambient).add (m2.emission.mul mask) := by
  intro point dest sg src w mask dir next hs2 hcut2
  have h1 : ¬ ((1 : K) + 1 + 1) / 3 < cutoff := by
    have : ((1 : K) + 1 + 1) / 3 = 1 := by norm_num
    rw [this]; exact not_lt.mpr hcut
  have hscale : (⟨1, 1, 1⟩ : V3 K).mul mask = mask := by ext <;> simp [V3.mul]
  have hnext := recurse_zero_bsdf_hit scene sqrt abs cutoff eps uniform focus fuel false sg.2 next
    ((⟨1, 1, 1⟩ : V3 K).mul mask) c2 m2 hs2 hB2 (by rw [hscale]; exact hcut2)
  simp only [Bool.false_eq_true, if_false] at hnext
  conv => lhs; unfold recurse
  simp only [h1, if_false, hs, if_true, directLight_nil]
  show (((m.emission.add m.ambient).add
      ((recurse scene sqrt abs cutoff eps [] uniform focus fuel false sg.2 next ((⟨1, 1, 1⟩ : V3 K).mul mask)).1.mul mask))) = _
  rw [hnext]

/-! mixture density and importance sampling over a finite set of directions -/

theorem sum_map_mul_add {β : Type} (S : List β) (p a b : β → K) :
    (S.map fun s => p s * (a s + b s)).sum = (S.map fun s => p s * a s).sum + (S.map fun s => p s * b s).sum := by
  induction S with
  | nil => simp
  | cons s S ih => simp only [List.map_cons, List.sum_cons, ih]; ring

theorem sum_map_mul_const {β : Type} (S : List β) (p a : β → K) (c : K) :
    (S.map fun s => p s * (a s * c)).sum = (S.map fun s => p s * a s).sum * c := by
  induction S with
  | nil => simp
  | cons s S ih => simp only [List.map_cons, List.sum_cons, ih]; ring

/-- The accumulator of `sourceDensity` is (Σ probᵢ·densityᵢ, 1 − Σ probᵢ). -/
theorem sourceDensity_fold (focus : List (FocusPt K σ)) (m : Mat K σ) (point normal source dest : V3 K)
    (a b : K) :
    focus.foldl (fun (acc : K × K) f =>
      (acc.1 + f.prob * f.density m point normal source dest, acc.2 - f.prob)) (a, b)
      = (a + (focus.map fun f => f.prob * f.density m point normal source dest).sum,
         b - (focus.map (·.prob)).sum) := by
  induction focus generalizing a b with
  | nil => simp
  | cons f fs ih =>
    simp only [List.foldl_cons, ih, List.map_cons, List.sum_cons]
    ext <;> simp <;> ring

theorem sourceDensity_eq_mixture (focus : List (FocusPt K σ)) (m : Mat K σ) (point normal source dest : V3 K) :
    sourceDensity focus m point normal source dest =
      (focus.map fun f => f.prob * f.density m point normal source dest).sum
        + (1 - (focus.map (·.prob)).sum) * m.density normal source dest := by
  cases focus with
  | nil => simp [sourceDensity]
  | cons f fs =>
    simp only [sourceDensity, sourceDensity_fold]
    simp

/-- Importance sampling with a mixture proposal is unbiased, on any finite set of outcomes:
`Σ_j p_j Σ_ω q_j(ω)·f(ω)/mix(ω) + (1−Σp) Σ_ω q_m(ω)·f(ω)/mix(ω) = Σ_ω f(ω)` whenever the mixture
density `mix = Σ_j p_j q_j + (1−Σp) q_m` is non-zero on the outcomes. -/
theorem mixture_unbiased {Ω β : Type} (outcomes : List Ω) (S : List β) (p : β → K) (q : β → Ω → K)
    (qm : Ω → K) (f : Ω → K)
    (hmix : ∀ ω ∈ outcomes, (S.map fun s => p s * q s ω).sum + (1 - (S.map p).sum) * qm ω ≠ 0) :
    let mix := fun ω => (S.map fun s => p s * q s ω).sum + (1 - (S.map p).sum) * qm ω
    (S.map fun s => p s * (outcomes.map fun ω => q s ω * (f ω / mix ω)).sum).sum
      + (1 - (S.map p).sum) * (outcomes.map fun ω => qm ω * (f ω / mix ω)).sum
      = (outcomes.map f).sum := by
  intro mix
  induction outcomes with
  | nil => simp
  | cons ω rest ih =>
    have ih := ih (fun ω' h => hmix ω' (by simp [h]))
    have hω : mix ω ≠ 0 := hmix ω (by simp)
    simp only [List.map_cons, List.sum_cons]
    rw [sum_map_mul_add, ← ih]
    have := sum_map_mul_const S p (fun s => q s ω) (f ω / mix ω)
    rw [this]
    have hf : mix ω * (f ω / mix ω) = f ω := by field_simp
    have hmixdef : mix ω = (S.map fun s => p s * q s ω).sum + (1 - (S.map p).sum) * qm ω := rfl
    rw [hmixdef] at hf
    linear_combination hf



theorem pickFocus_spec (p : K) (hp : 0 ≤ p) (fs : List (FocusPt K σ)) :
    match pickFocus p fs with
    | some f => ∃ i, ∃ hi : i < fs.length, fs[i] = f ∧
        ((fs.take i).map (·.prob)).sum ≤ p ∧ p < ((fs.take (i + 1)).map (·.prob)).sum
    | none => (fs.map (·.prob)).sum ≤ p := by
  induction fs generalizing p with
  | nil => simpa [pickFocus] using hp
  | cons f fs ih =>
    by_cases hlt : p - f.prob < 0
    · have e : pickFocus p (f :: fs) = some f := by simp [pickFocus, hlt]
      rw [e]
      refine ⟨0, by simp, by simp, by simpa using hp, ?_⟩
      simp; linarith
    · have e : pickFocus p (f :: fs) = pickFocus (p - f.prob) fs := by simp [pickFocus, hlt]
      rw [e]
      have hp' : 0 ≤ p - f.prob := not_lt.mp hlt
      have := ih (p - f.prob) hp'
      cases hpk : pickFocus (p - f.prob) fs with
      | none =>
        rw [hpk] at this
        simp only [List.map_cons, List.sum_cons]
        simp only [] at this
        linarith
      | some f' =>
        rw [hpk] at this
        obtain ⟨i, hi, hf, h1, h2⟩ := this
        refine ⟨i + 1, by simp; omega, by simpa using hf, ?_, ?_⟩
        · simp only [List.take_succ_cons, List.map_cons, List.sum_cons]; linarith
        · simp only [List.take_succ_cons, List.map_cons, List.sum_cons]; linarith


/-! ### bidirectional path tracer bookkeeping -/


theorem foldl_add_eq_sum (ds : List K) (a : K) : ds.foldl (· + ·) a = a + ds.sum := by
  induction ds generalizing a with
  | nil => simp
  | cons d ds ih => simp only [List.foldl_cons, ih, List.sum_cons]; ring

theorem sum_map_div (ds : List K) (t : K) : (ds.map fun d => d / t).sum = ds.sum / t := by
  induction ds with
  | nil => simp
  | cons d ds ih => simp only [List.map_cons, List.sum_cons, ih]; ring

/-- With `MinLength = 0` the path ender performs only the `Cutoff` roulette. -/
theorem pathEnder_step_cutoff (cutoff : K) (uniform : σ → K × σ) (pe : PathEnder K) (g : σ) (i : Nat)
    (mask : V3 K) :
    let full := pe.fullMask.mul mask
    let mean := (full.x + full.y + full.z) / 3
    let keep := mean / cutoff
    PathEnder.step 0 cutoff uniform pe g i mask =
      if mean < cutoff then
        (if keep < (uniform g).1 then (true, { pe with fullMask := full }, (uniform g).2)
         else (false, { pe with fullMask := full, current := pe.current * (1 / keep) }, (uniform g).2))
      else (false, { pe with fullMask := full }, g) := by
  intro full mean keep
  unfold PathEnder.step
  simp only [ne_eq, not_true_eq_false, false_and, if_false]
  by_cases h1 : mean < cutoff
  · simp only [full, mean, keep] at h1 ⊢
    simp only [h1, if_true]
    by_cases h2 : ((pe.fullMask.mul mask).x + (pe.fullMask.mul mask).y + (pe.fullMask.mul mask).z) / 3 / cutoff < (uniform g).1
    · simp [h2]
    · simp [h2]
  · simp only [full, mean, keep] at h1 ⊢
    simp [h1]


end M3d.Render
