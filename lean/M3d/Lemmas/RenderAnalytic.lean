import M3d.Lemmas.RenderSampling
import Mathlib.Analysis.SpecialFunctions.Pow.Deriv
import Mathlib.Analysis.SpecialFunctions.Sqrt
import Mathlib.Analysis.SpecialFunctions.Trigonometric.Inverse
import Mathlib.Analysis.Calculus.FDeriv.Mul
import Mathlib.Analysis.Calculus.FDeriv.Prod
import Mathlib.Analysis.Calculus.FDeriv.Add
/-!
Real-analysis lemmas for C19: the radial laws of the samplers (closed-form CDFs, their
derivatives, and their composition with the samplers' radial maps).
-/
set_option linter.unusedSectionVars false
namespace M3d.RS

noncomputable instance : HasSqrt ℝ := ⟨Real.sqrt⟩

theorem sqrt_real (x : ℝ) : sqrt x = Real.sqrt x := rfl

theorem sqrtOK_real : SqrtOK ℝ :=
  ⟨fun x hx => by rw [sqrt_real]; exact Real.mul_self_sqrt hx, fun x => Real.sqrt_nonneg x⟩

/-! ### Phong lobe -/

theorem phong_radial_inverse {a v : ℝ} (ha : 0 ≤ a) (hv : 0 ≤ v) : (v ^ (1 / (a + 1))) ^ (a + 1) = v := by
  rw [← Real.rpow_mul hv, one_div, inv_mul_cancel₀ (by linarith), Real.rpow_one]

theorem phong_cdf_deriv {a x : ℝ} (hx : 0 < x) :
    HasDerivAt (fun y : ℝ => y ^ (a + 1)) ((2 * (a + 1) * x ^ a) * (1 / 2)) x := by
  have h := Real.hasDerivAt_rpow_const (x := x) (p := a + 1) (Or.inl hx.ne')
  have e : (a + 1) * x ^ (a + 1 - 1) = (2 * (a + 1) * x ^ a) * (1 / 2) := by
    rw [add_sub_cancel_right]; ring
  rwa [e] at h

/-- The expression `densityAroundDirection` evaluates is the closed form `2(α+1)·dotᵅ`. -/
theorem phong_density_closed_form {a x : ℝ} (ha : 0 ≤ a) (hx : 0 < x) :
    2 * (a + 1) / (x ^ (a + 1)) ^ (1 / (a + 1) - 1) = 2 * (a + 1) * x ^ a := by
  have h1 : (x ^ (a + 1)) ^ (1 / (a + 1) - 1) = x ^ (-a) := by
    rw [← Real.rpow_mul hx.le]
    congr 1
    field_simp
    ring
  rw [h1, Real.rpow_neg hx.le, div_inv_eq_mul]

/-! ### Henyey–Greenstein -/

theorem hg_divisor_pos {g x : ℝ} (hg : |g| < 1) (hx1 : -1 ≤ x) (hx2 : x ≤ 1) : 0 < hgDivisor g x := by
  simp only [hgDivisor]
  obtain ⟨h1, h2⟩ := abs_lt.mp hg
  rcases le_or_gt 0 g with h | h
  · have : g * x ≤ g := by nlinarith
    nlinarith [mul_pos (sub_pos.mpr h2) (sub_pos.mpr h2)]
  · have : g * x ≤ -g := by nlinarith
    nlinarith [mul_pos (show 0 < 1 + g by linarith) (show 0 < 1 + g by linarith)]

/-- The closed-form cumulative distribution of the HG density in the cosine. -/
noncomputable def hgCDF (g x : ℝ) : ℝ := (1 - g * g) / (2 * g) * (1 / Real.sqrt (hgDivisor g x) - 1 / (1 + g))

theorem hg_rpow_three_halves {d : ℝ} (hd : 0 < d) : d ^ ((3 : ℝ) / 2) = d * Real.sqrt d := by
  rw [Real.sqrt_eq_rpow, show (3 : ℝ) / 2 = 1 + 1 / 2 by norm_num, Real.rpow_add hd, Real.rpow_one]

theorem hg_cdf_deriv {g x : ℝ} (hg0 : g ≠ 0) (hd : 0 < hgDivisor g x) :
    HasDerivAt (hgCDF g) (hgCosDensity g (hgDivisor g x ^ ((3 : ℝ) / 2)) * (1 / 2)) x := by
  have hD : HasDerivAt (fun y : ℝ => hgDivisor g y) (-(2 * g)) x := by
    simp only [hgDivisor]
    have := ((hasDerivAt_id x).const_mul (2 * g)).const_sub (1 + g * g)
    simpa using this
  have hs := hD.sqrt hd.ne'
  have hsp : 0 < Real.sqrt (hgDivisor g x) := Real.sqrt_pos.mpr hd
  have hi := hs.inv hsp.ne'
  have h1 : HasDerivAt (fun y : ℝ => 1 / Real.sqrt (hgDivisor g y) - 1 / (1 + g))
      (-(-(2 * g) / (2 * Real.sqrt (hgDivisor g x))) / Real.sqrt (hgDivisor g x) ^ 2) x := by
    have := hi.sub_const (1 / (1 + g))
    simpa [one_div] using this
  have h2 := h1.const_mul ((1 - g * g) / (2 * g))
  have e : (1 - g * g) / (2 * g) * (-(-(2 * g) / (2 * Real.sqrt (hgDivisor g x))) / Real.sqrt (hgDivisor g x) ^ 2) =
      hgCosDensity g (hgDivisor g x ^ ((3 : ℝ) / 2)) * (1 / 2) := by
    rw [hg_rpow_three_halves hd]
    simp only [hgCosDensity]
    have hsq : Real.sqrt (hgDivisor g x) ^ 2 = hgDivisor g x := Real.sq_sqrt hd.le
    have hne : hgDivisor g x ≠ 0 := hd.ne'
    field_simp
    rw [hsq]
  rw [e] at h2
  exact h2

/-! ### the triangle map -/

/-- `(u, r₂) ↦ (√u·(1−r₂), √u·r₂)`: the two free barycentric coordinates `MeshAreaLight.SampleLight`
assigns to the second and third vertex for the draws `u, r₂` (`triBary (sqrt u) r₂`). -/
noncomputable def triMap (p : ℝ × ℝ) : ℝ × ℝ := (Real.sqrt p.1 * (1 - p.2), Real.sqrt p.1 * p.2)

theorem triMap_eq_triBary (u r2 : ℝ) :
    triMap (u, r2) = ((triBary (sqrt u) r2).2.1, (triBary (sqrt u) r2).2.2) := rfl

/-- The Fréchet derivative of the triangle map exists at every `(u, r₂)` with `u > 0` and its
2×2 determinant is the constant `1/2`. -/
theorem triMap_fderiv {u r2 : ℝ} (hu : 0 < u) :
    ∃ f' : ℝ × ℝ →L[ℝ] ℝ × ℝ, HasFDerivAt triMap f' (u, r2) ∧
      (f' (1, 0)).1 * (f' (0, 1)).2 - (f' (0, 1)).1 * (f' (1, 0)).2 = 1 / 2 := by
  have hs : HasFDerivAt (fun p : ℝ × ℝ => Real.sqrt p.1)
      ((1 / (2 * Real.sqrt u)) • ContinuousLinearMap.fst ℝ ℝ ℝ) (u, r2) := by
    have h1 : HasDerivAt Real.sqrt (1 / (2 * Real.sqrt u)) u := Real.hasDerivAt_sqrt hu.ne'
    exact h1.comp_hasFDerivAt (x := (u, r2)) hasFDerivAt_fst
  have h2 : HasFDerivAt (fun p : ℝ × ℝ => p.2) (ContinuousLinearMap.snd ℝ ℝ ℝ) (u, r2) := hasFDerivAt_snd
  have h12 : HasFDerivAt (fun p : ℝ × ℝ => 1 - p.2) (-(ContinuousLinearMap.snd ℝ ℝ ℝ)) (u, r2) := by
    simpa using h2.const_sub 1
  have ha := hs.mul h12
  have hb := hs.mul h2
  refine ⟨_, ha.prodMk hb, ?_⟩
  have hsq : 0 < Real.sqrt u := Real.sqrt_pos.mpr hu
  simp
  field_simp
  ring

end M3d.RS
