import Mathlib.Tactic.Ring
import Mathlib.Tactic.Linarith
import Mathlib.Tactic.SplitIfs
import Mathlib.Algebra.Order.Field.Basic
import Mathlib.Algebra.Order.Ring.Abs
import M3d.Model.BiCG
import M3d.Lemmas.C17Vec
/-!
Helper lemmas for C17: `numerical/cg.go`.  The recurrences of `BiCGSTAB.Iter` keep the tracked residual `r` equal to the
true residual `b − A·x` (for ANY values of the scalars `alpha`, `w`, `beta`), the two early exits are exact solutions,
and `BiCGSTABSolver.SolveLinearSystem` stops through its tolerance test only when the TRUE residual meets it.
-/
namespace M3d.BiCG
open M3d.Num
set_option linter.unusedSectionVars false
set_option linter.unusedVariables false

variable {K : Type} [Field K] [LinearOrder K] [IsStrictOrderedRing K]

/-! ### vectors as lists -/

theorem vadd_length {n : Nat} {v w : List K} (h : v.length = n) (h' : w.length = n) : (vadd v w).length = n := by
  simp [vadd, h, h']

theorem vsub_length {n : Nat} {v w : List K} (h : v.length = n) (h' : w.length = n) : (vsub v w).length = n := by
  simp [vsub, h, h']

theorem scale_length (v : List K) (c : K) : (VecN.scale v c).length = v.length := by simp [VecN.scale]

theorem zeros_length (v : List K) : (VecN.zeros v).length = v.length := by simp [VecN.zeros]

/-- `b − a − c = b − (a + c)`, componentwise. -/
theorem vsub_vsub (b a c : List K) (h1 : a.length = b.length) (h2 : c.length = b.length) :
    vsub (vsub b a) c = vsub b (vadd a c) := by
  induction b generalizing a c with
  | nil => simp [vsub]
  | cons x xs ih =>
    cases a with
    | nil => simp at h1
    | cons y ys =>
      cases c with
      | nil => simp at h2
      | cons z zs =>
        simp only [vsub, vadd, List.zipWith_cons_cons, List.cons.injEq]
        refine ⟨by ring, ?_⟩
        exact ih ys zs (by simpa using h1) (by simpa using h2)

/-- `b − a = 0` componentwise means `a = b`. -/
theorem eq_of_vsub_zero (b a : List K) (h1 : a.length = b.length) (hz : ∀ y ∈ vsub b a, y = 0) : a = b := by
  induction b generalizing a with
  | nil => exact List.length_eq_zero_iff.mp h1
  | cons x xs ih =>
    cases a with
    | nil => simp at h1
    | cons y ys =>
      simp only [vsub, List.zipWith_cons_cons, List.mem_cons, forall_eq_or_imp] at hz
      rw [ih ys (by simpa using h1) hz.2]
      have : y = x := by linarith [hz.1]
      rw [this]

/-! ### linear operators on vectors of length `n` -/

/-- `op` maps vectors of length `n` to vectors of length `n`, linearly. -/
structure LinOp (n : Nat) (op : List K → List K) : Prop where
  len : ∀ u, u.length = n → (op u).length = n
  lin : ∀ u v c, u.length = n → v.length = n → op (vadd u (VecN.scale v c)) = vadd (op u) (VecN.scale (op v) c)

theorem vdot_lin (row u v : List K) (c s1 s2 : K) (hu : u.length = row.length) (hv : v.length = row.length) :
    (row.zip (vadd u (VecN.scale v c))).foldl (fun r xy => r + xy.1 * xy.2) (s1 + s2 * c) =
      (row.zip u).foldl (fun r xy => r + xy.1 * xy.2) s1 + (row.zip v).foldl (fun r xy => r + xy.1 * xy.2) s2 * c := by
  induction row generalizing u v s1 s2 with
  | nil => simp
  | cons a row ih =>
    cases u with
    | nil => simp at hu
    | cons x us =>
      cases v with
      | nil => simp at hv
      | cons y vs =>
        simp only [vadd, VecN.scale, List.map_cons, List.zipWith_cons_cons, List.zip_cons_cons, List.foldl_cons]
        have e : s1 + s2 * c + a * (x + y * c) = (s1 + a * x) + (s2 + a * y) * c := by ring
        rw [e]
        exact ih us vs (s1 + a * x) (s2 + a * y) (by simpa using hu) (by simpa using hv)

theorem zipWith_map_map {β : Type} (f g : β → K) (c : K) (rows : List β) :
    List.zipWith (· + ·) (rows.map f) ((rows.map g).map (· * c)) = rows.map fun r => f r + g r * c := by
  induction rows with
  | nil => rfl
  | cons r rs ih => simp only [List.map_cons, List.zipWith_cons_cons, ih]

/-- **A dense `n × n` matrix applied row by row is a linear operator** (the `Op` the correspondence passes). -/
theorem denseOp_linOp (n : Nat) (rows : List (List K)) (hn : rows.length = n) (hrow : ∀ r ∈ rows, r.length = n) :
    LinOp n (denseOp rows) := by
  refine ⟨fun u _ => by simp [denseOp, hn], ?_⟩
  intro u v c hu hv
  simp only [denseOp, vadd, VecN.scale]
  rw [zipWith_map_map]
  apply List.map_congr_left
  intro row hr
  have h := vdot_lin row u v c 0 0 (by rw [hu, hrow row hr]) (by rw [hv, hrow row hr])
  simp only [vdot, Nat.cast_zero]
  rw [← h]
  simp [vadd, VecN.scale]

/-! ### the invariant of `Iter` -/

/-- What `Iter` keeps: every vector has length `n`, and while the solver has not stopped the tracked residual is the
true residual `b − op x`. -/
structure Inv (n : Nat) (op : List K → List K) (b : List K) (s : St K) : Prop where
  hx : s.x.length = n
  hr : s.r.length = n
  hp : s.p.length = n
  hv : s.v.length = n
  res : s.term = false → s.r = vsub b (op s.x)

theorem init_inv {n : Nat} {op : List K → List K} (hop : LinOp n op) (b : List K) (hb : b.length = n)
    (guess : Option (List K)) (hg : ∀ g, guess = some g → g.length = n) : Inv n op b (init op b guess) := by
  have hlen : (guess.getD (VecN.zeros b)).length = n := by
    cases guess with
    | none => simp [VecN.zeros, hb]
    | some g => exact hg g rfl
  refine ⟨hlen, vsub_length hb (hop.len _ hlen), ?_, ?_, fun _ => rfl⟩
  · simp [init, VecN.zeros, hb]
  · simp [init, VecN.zeros, hb]

section Step
variable {n : Nat} {op : List K → List K} (hop : LinOp n op) {b : List K} (hb : b.length = n)
include hop hb

/-- The half step: `s = r − alpha·A p` is the true residual of `h = x + alpha·p`. -/
theorem half_step (x r p : List K) (alpha : K) (hx : x.length = n) (hp : p.length = n) (hr : r = vsub b (op x)) :
    vsub r (VecN.scale (op p) alpha) = vsub b (op (vadd x (VecN.scale p alpha))) := by
  rw [hop.lin x p alpha hx hp, hr]
  exact vsub_vsub b (op x) _ (by rw [hop.len x hx, hb]) (by rw [scale_length, hop.len p hp, hb])

theorem iter_inv (sqrt : K → K) (s : St K) (hs : Inv n op b s) : Inv n op b (iter sqrt op s) := by
  unfold iter
  by_cases ht : s.term = true
  · rw [if_pos ht]; exact hs
  · rw [if_neg ht]
    have htf : s.term = false := by simpa using ht
    by_cases hn0 : (VecN.norm sqrt s.r == ((0 : Nat) : K)) = true
    · rw [if_pos hn0]
      exact ⟨hs.hx, hs.hr, hs.hp, hs.hv, fun h => by simp at h⟩
    · rw [if_neg hn0]
      dsimp only
      -- the quantities of the step
      set rhoI := vdot s.rHat s.r
      set beta := (rhoI / s.rho) * (s.alpha / s.w)
      set pI := vadd s.r (VecN.scale (vsub s.p (VecN.scale s.v s.w)) beta) with hpI
      set alpha := rhoI / vdot s.rHat (op pI)
      set h := vadd s.x (VecN.scale pI alpha) with hh
      set sv := vsub s.r (VecN.scale (op pI) alpha) with hsv
      have lpI : pI.length = n := by
        rw [hpI]
        exact vadd_length hs.hr (by rw [scale_length]; exact vsub_length hs.hp (by rw [scale_length]; exact hs.hv))
      have lh : h.length = n := vadd_length hs.hx (by rw [scale_length]; exact lpI)
      have lsv : sv.length = n := vsub_length hs.hr (by rw [scale_length]; exact hop.len _ lpI)
      have esv : sv = vsub b (op h) := half_step hop hb s.x s.r pI alpha hs.hx lpI (hs.res htf)
      by_cases hn1 : (VecN.norm sqrt (op sv) == ((0 : Nat) : K)) = true
      · simp only [hn1, if_true]
        exact ⟨lh, hs.hr, hs.hp, hs.hv, fun h => by simp at h⟩
      · simp only [hn1]
        refine ⟨vadd_length lh (by rw [scale_length]; exact lsv),
          vsub_length lsv (by rw [scale_length]; exact hop.len _ lsv), lpI, hop.len _ lpI, fun _ => ?_⟩
        exact half_step hop hb h sv sv _ lh lsv esv

theorem iterN_inv (sqrt : K → K) (k : Nat) (s : St K) (hs : Inv n op b s) : Inv n op b (iterN sqrt op k s) := by
  induction k generalizing s with
  | zero => exact hs
  | succ k ih => exact ih _ (iter_inv hop hb sqrt s hs)

/-- The two early exits of `Iter` are exact solutions (for an injective operator). -/
theorem iter_term_exact (sqrt : K → K) (hsq : ∀ x, 0 ≤ x → sqrt x = 0 → x = 0)
    (hinj : ∀ u, u.length = n → (∀ y ∈ op u, y = 0) → ∀ y ∈ u, y = 0)
    (s : St K) (hs : Inv n op b s) (h0 : s.term = false) (h1 : (iter sqrt op s).term = true) :
    op (iter sqrt op s).x = b := by
  have norm0 : ∀ v : List K, (VecN.norm sqrt v == ((0 : Nat) : K)) = true → ∀ y ∈ v, y = 0 := by
    intro v hv
    have h := eq_of_beq hv
    simp only [VecN.norm, Nat.cast_zero] at h
    exact (VecN.normSquared_eq_zero_iff v).mp (hsq _ (VecN.normSquared_nonneg v) h)
  unfold iter at h1 ⊢
  rw [if_neg (by simp [h0])] at h1 ⊢
  by_cases hn0 : (VecN.norm sqrt s.r == ((0 : Nat) : K)) = true
  · rw [if_pos hn0]
    have hz := norm0 s.r hn0
    rw [hs.res h0] at hz
    exact eq_of_vsub_zero b (op s.x) (by rw [hop.len _ hs.hx, hb]) hz
  · rw [if_neg hn0] at h1 ⊢
    dsimp only at h1 ⊢
    set rhoI := vdot s.rHat s.r
    set beta := (rhoI / s.rho) * (s.alpha / s.w)
    set pI := vadd s.r (VecN.scale (vsub s.p (VecN.scale s.v s.w)) beta) with hpI
    set alpha := rhoI / vdot s.rHat (op pI)
    set h := vadd s.x (VecN.scale pI alpha) with hh
    set sv := vsub s.r (VecN.scale (op pI) alpha) with hsv
    have lpI : pI.length = n := by
      rw [hpI]
      exact vadd_length hs.hr (by rw [scale_length]; exact vsub_length hs.hp (by rw [scale_length]; exact hs.hv))
    have lh : h.length = n := vadd_length hs.hx (by rw [scale_length]; exact lpI)
    have lsv : sv.length = n := vsub_length hs.hr (by rw [scale_length]; exact hop.len _ lpI)
    have esv : sv = vsub b (op h) := half_step hop hb s.x s.r pI alpha hs.hx lpI (hs.res h0)
    by_cases hn1 : (VecN.norm sqrt (op sv) == ((0 : Nat) : K)) = true
    · simp only [hn1, if_true]
      have hz := hinj sv lsv (norm0 _ hn1)
      rw [esv] at hz
      exact eq_of_vsub_zero b (op h) (by rw [hop.len _ lh, hb]) hz
    · simp only [hn1] at h1
      simp at h1

end Step

/-! ### `SolveLinearSystem` -/

theorem errSums_eq (abs : K → K) (es : List K) (a1 a2 : K) :
    es.foldl (fun (acc : K × K) e => (acc.1 + e * e, acc.2 + abs e)) (a1, a2) =
      (a1 + (es.map fun e => e * e).sum, a2 + (es.map abs).sum) := by
  induction es generalizing a1 a2 with
  | nil => simp
  | cons e es ih => simp only [List.foldl_cons, ih, List.map_cons, List.sum_cons, add_assoc]

/-- What the loop of `SolveLinearSystem` returns (started after `i` rounds in state `s` with `bound` rounds left): the
iterate after `j ≤ bound` more `Iter()` calls; when it left through the tolerance test, the error sums of THAT iterate
meet the test; otherwise all `bound` rounds were used. -/
def SolvePost (sqrt abs : K → K) (op : List K → List K) (b : List K) (mse mae : K) (i bound : Nat) (s : St K) :
    SolveRes K → Prop
  | .done sol k byTol =>
    ∃ j, k = i + j ∧ j ≤ bound ∧ sol = (iterN sqrt op j s).x ∧
      (byTol = true → (errSums abs op b sol).1 < mse * (b.length : K) ∨ (errSums abs op b sol).2 < mae * (b.length : K)) ∧
      (byTol = false → j = bound)
  | .nanPanic _ => True

theorem solvePost_lift (sqrt abs : K → K) (op : List K → List K) (b : List K) (mse mae : K) (i bound : Nat) (s : St K)
    (r : SolveRes K) (hr : SolvePost sqrt abs op b mse mae (i + 1) bound (iter sqrt op s) r) :
    SolvePost sqrt abs op b mse mae i (bound + 1) s r := by
  cases r with
  | nanPanic _ => trivial
  | done sol k byTol =>
    obtain ⟨j, e1, e2, e3, e4, e5⟩ := hr
    exact ⟨j + 1, by omega, by omega, by rw [e3]; rfl, e4, fun h => by rw [e5 h]⟩

theorem solveLoop_spec (sqrt abs : K → K) (isNaN : K → Bool) (op : List K → List K) (b : List K) (mse mae : K) :
    ∀ (bound i : Nat) (s : St K),
      SolvePost sqrt abs op b mse mae i bound s (solveLoop sqrt abs isNaN op b mse mae bound i s) := by
  intro bound
  induction bound with
  | zero =>
    intro i s
    simp only [solveLoop]
    exact ⟨0, rfl, le_refl _, rfl, fun h => by simp at h, fun _ => rfl⟩
  | succ bound ih =>
    intro i s
    simp only [solveLoop]
    split_ifs with h1 h2 h3
    · exact solvePost_lift sqrt abs op b mse mae i bound s _ (ih (i + 1) (iter sqrt op s))
    · trivial
    · exact ⟨1, rfl, by omega, rfl, fun _ => by exact_mod_cast h3, fun h => by simp at h⟩
    · exact solvePost_lift sqrt abs op b mse mae i bound s _ (ih (i + 1) (iter sqrt op s))

end M3d.BiCG
