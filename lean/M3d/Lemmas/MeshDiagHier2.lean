import M3d.Lemmas.MeshDiagCycle
import M3d.Lemmas.MeshDiagHier
import M3d.Lemmas.MeshDiag
import Mathlib.Data.List.Perm.Basic
/-!
# C11 — 2-D `uncheckedMeshToHierarchy`: on closed oriented curves (`Surface.InOutOne`) the loop
tracer never panics and the traced loops partition the segments
-/
namespace M3d.MeshDiag
open M3d.Surface

/-! ## `InOutOne` as "starts and ends are duplicate-free and equal as sets" -/

theorem mem_segVertsAll' {ss : List Seg} {v : Nat} :
    v ∈ segVertsAll ss ↔ v ∈ starts ss ∨ v ∈ ends ss := by
  simp only [segVertsAll, starts, ends, List.mem_flatMap, List.mem_map, List.mem_cons,
    List.not_mem_nil, or_false]
  constructor
  · rintro ⟨s, hs, h | h⟩
    · exact Or.inl ⟨s, hs, h.symm⟩
    · exact Or.inr ⟨s, hs, h.symm⟩
  · rintro (⟨s, hs, h⟩ | ⟨s, hs, h⟩)
    · exact ⟨s, hs, Or.inl h.symm⟩
    · exact ⟨s, hs, Or.inr h.symm⟩

theorem inOutOne_nodup {ss : List Seg} (h : InOutOne ss) :
    (starts ss).Nodup ∧ (ends ss).Nodup ∧ ∀ v, v ∈ starts ss ↔ v ∈ ends ss := by
  have hc : ∀ (l : List Nat), (∀ v ∈ segVertsAll ss, l.count v = 1) → (∀ v ∈ l, v ∈ segVertsAll ss) → l.Nodup := by
    intro l h1 h2
    rw [List.nodup_iff_count_le_one]
    intro a
    by_cases ha : a ∈ l
    · rw [h1 a (h2 a ha)]; exact Nat.le_refl 1
    · rw [List.count_eq_zero.2 ha]; exact Nat.zero_le _
  refine ⟨hc _ (fun v hv => (h v hv).1) (fun v hv => mem_segVertsAll'.2 (Or.inl hv)),
    hc _ (fun v hv => (h v hv).2) (fun v hv => mem_segVertsAll'.2 (Or.inr hv)), fun v => ⟨fun hv => ?_, fun hv => ?_⟩⟩
  · have := (h v (mem_segVertsAll'.2 (Or.inl hv))).2
    exact List.count_pos_iff.1 (by omega)
  · have := (h v (mem_segVertsAll'.2 (Or.inr hv))).1
    exact List.count_pos_iff.1 (by omega)

/-! ## the successor map of a closed oriented curve soup -/

section succ
variable {ss : List Seg}

theorem next_edge (h1 : (starts ss).Nodup) {e : Seg} (he : e ∈ ss) : nextOf ss e.1 = e.2 :=
  nextOf_eq (List.Perm.refl ss) h1 (a := e.1) (b := e.2) he

theorem edge_of_start (h1 : (starts ss).Nodup) {x : Nat} (hx : x ∈ starts ss) : (x, nextOf ss x) ∈ ss := by
  obtain ⟨e, he, rfl⟩ := List.mem_map.mp hx
  rw [next_edge h1 he]; exact he

theorem next_mem (h1 : (starts ss).Nodup) (h3 : ∀ v, v ∈ starts ss ↔ v ∈ ends ss) {x : Nat}
    (hx : x ∈ starts ss) : nextOf ss x ∈ starts ss :=
  (h3 _).mpr (List.mem_map.mpr ⟨_, edge_of_start h1 hx, rfl⟩)

theorem next_inj (h1 : (starts ss).Nodup) (h2 : (ends ss).Nodup) {x y : Nat} (hx : x ∈ starts ss)
    (hy : y ∈ starts ss) (h : nextOf ss x = nextOf ss y) : x = y :=
  congrArg Prod.fst (eq_of_nodup_map_snd h2 (edge_of_start h1 hx) (edge_of_start h1 hy) h)

theorem iter_mem (h1 : (starts ss).Nodup) (h3 : ∀ v, v ∈ starts ss ↔ v ∈ ends ss) {x : Nat}
    (hx : x ∈ starts ss) : ∀ i, iter (nextOf ss) i x ∈ starts ss := by
  intro i
  induction i with
  | zero => exact hx
  | succ i ih => rw [iter_succ']; exact next_mem h1 h3 ih

theorem iter_cancel (h1 : (starts ss).Nodup) (h2 : (ends ss).Nodup)
    (h3 : ∀ v, v ∈ starts ss ↔ v ∈ ends ss) {x : Nat} (hx : x ∈ starts ss) :
    ∀ i j, iter (nextOf ss) i x = iter (nextOf ss) (i + j) x → iter (nextOf ss) j x = x := by
  intro i
  induction i with
  | zero => intro j h; rw [Nat.zero_add] at h; exact h.symm
  | succ i ih =>
    intro j h
    have e : i + 1 + j = (i + j) + 1 := by omega
    rw [e, iter_succ', iter_succ'] at h
    exact ih j (next_inj h1 h2 (iter_mem h1 h3 hx i) (iter_mem h1 h3 hx (i + j)) h)

theorem exists_least {P : Nat → Prop} (h : ∃ k, P k) : ∃ k, P k ∧ ∀ d, d < k → ¬ P d := by
  obtain ⟨k, hk⟩ := h
  induction k using Nat.strongRecOn with
  | _ k ih =>
    cases Classical.em (∀ d, d < k → ¬ P d) with
    | inl hmin => exact ⟨k, hk, hmin⟩
    | inr hn =>
      simp only [not_forall] at hn
      obtain ⟨d, hd, hp⟩ := hn
      exact ih d hd (Classical.not_not.mp hp)

/-- Every vertex returns to itself; `k` is the first return time. -/
theorem exists_first_return (h1 : (starts ss).Nodup) (h2 : (ends ss).Nodup)
    (h3 : ∀ v, v ∈ starts ss ↔ v ∈ ends ss) {x : Nat} (hx : x ∈ starts ss) :
    ∃ k, 0 < k ∧ iter (nextOf ss) k x = x ∧ ∀ d, 0 < d → d < k → iter (nextOf ss) d x ≠ x := by
  have hex : ∃ k, 0 < k ∧ iter (nextOf ss) k x = x := by
    -- pigeonhole on the first `n + 1` iterates
    cases Classical.em (orbit (nextOf ss) ((starts ss).length + 1) x).Nodup with
    | inl hnd =>
      have hsub : orbit (nextOf ss) ((starts ss).length + 1) x ⊆ starts ss := by
        intro y hy
        obtain ⟨i, _, rfl⟩ := (mem_orbit _ _ x y).mp hy
        exact iter_mem h1 h3 hx i
      have := (List.subperm_of_subset hnd hsub).length_le
      rw [length_orbit] at this
      omega
    | inr hnd =>
      have : ¬ ∀ i j, i < j → j < (starts ss).length + 1 →
          iter (nextOf ss) i x ≠ iter (nextOf ss) j x := fun h => hnd (orbit_nodup _ _ x h)
      simp only [not_forall, Decidable.not_not] at this
      obtain ⟨i, j, hij, _, heq⟩ := this
      refine ⟨j - i, by omega, iter_cancel h1 h2 h3 hx i (j - i) ?_⟩
      rw [show i + (j - i) = j by omega]; exact heq
  obtain ⟨k, ⟨hk0, hk⟩, hmin⟩ := exists_least hex
  exact ⟨k, hk0, hk, fun d hd0 hdk hd => hmin d hdk ⟨hd0, hd⟩⟩

end succ

/-! ## the loop tracer -/

theorem filter_eq_singleton_of_nodup_map {f : Seg → Nat} : ∀ {l : List Seg}, (l.map f).Nodup →
    ∀ {x : Seg}, x ∈ l → l.filter (fun s => f s == f x) = [x] := by
  intro l
  induction l with
  | nil => intro _ x hx; cases hx
  | cons z l ih =>
    intro hnd x hx
    simp only [List.map_cons, List.nodup_cons] at hnd
    rcases List.mem_cons.mp hx with rfl | hx'
    · have : l.filter (fun s => f s == f x) = [] := by
        rw [List.filter_eq_nil_iff]
        intro a ha hfa
        exact hnd.1 (List.mem_map.mpr ⟨a, ha, by simpa using hfa⟩)
      simp [this]
    · have hne : ¬ f z = f x := fun h => hnd.1 (h ▸ List.mem_map_of_mem (f := f) hx')
      simp only [List.filter_cons, beq_iff_eq, hne, if_false]
      exact ih hnd.2 hx'

/-- The segments of the loop through `x`: `(x, s x), (s x, s² x), …` (`r` of them). -/
def loopEdges (ss : List Seg) (r x : Nat) : List Seg :=
  (orbit (nextOf ss) r x).map fun c => (c, nextOf ss c)

section trace
variable {ss : List Seg}

theorem traceLoop_spec (h1 : (starts ss).Nodup) (h2 : (ends ss).Nodup)
    (h3 : ∀ v, v ∈ starts ss ↔ v ∈ ends ss) {first : Nat} (hf : first ∈ starts ss) (k : Nat)
    (hret : iter (nextOf ss) k first = first)
    (hmin : ∀ d, 0 < d → d < k → iter (nextOf ss) d first ≠ first) :
    ∀ r i n, i + r = k → 0 < r → r ≤ n →
      traceLoop ss first n (iter (nextOf ss) i first) = some (loopEdges ss r (iter (nextOf ss) i first)) := by
  intro r
  induction r with
  | zero => intro i n _ h; omega
  | succ r ih =>
    intro i n hik _ hrn
    obtain ⟨n', rfl⟩ : ∃ n', n = n' + 1 := ⟨n - 1, by omega⟩
    have hc : iter (nextOf ss) i first ∈ starts ss := iter_mem h1 h3 hf i
    have hedge := edge_of_start h1 hc
    have houts : ss.filter (fun s => s.1 == iter (nextOf ss) i first) =
        [(iter (nextOf ss) i first, nextOf ss (iter (nextOf ss) i first))] :=
      filter_eq_singleton_of_nodup_map (f := (·.1)) h1 hedge
    obtain ⟨p, hp, hp2⟩ := List.mem_map.mp ((h3 _).mp hc)
    have hins : ss.filter (fun s => s.2 == iter (nextOf ss) i first) = [p] := by
      have := filter_eq_singleton_of_nodup_map (f := (·.2)) h2 hp
      rw [hp2] at this; exact this
    rw [traceLoop]
    simp only [houts, hins]
    by_cases hr0 : r = 0
    · subst hr0
      have : nextOf ss (iter (nextOf ss) i first) = first := by
        rw [← iter_succ' (nextOf ss) i first, show i + 1 = k by omega]; exact hret
      simp [this, loopEdges, orbit]
    · have hne : nextOf ss (iter (nextOf ss) i first) ≠ first := by
        rw [← iter_succ' (nextOf ss) i first]; exact hmin (i + 1) (by omega) (by omega)
      have hb : (nextOf ss (iter (nextOf ss) i first) == first) = false := by simpa using hne
      simp only [hb, Bool.false_eq_true, if_false]
      have := ih (i + 1) n' (by omega) (by omega) (by omega)
      rw [iter_succ'] at this
      rw [this]
      simp [loopEdges, orbit]

end trace

/-! ## the sweep -/

section sweep
variable {ss : List Seg}

theorem orbit_closed (h1 : (starts ss).Nodup) (h2 : (ends ss).Nodup)
    (h3 : ∀ v, v ∈ starts ss ↔ v ∈ ends ss) {v : Nat} (hv : v ∈ starts ss) {k : Nat} (hk0 : 0 < k)
    (hret : iter (nextOf ss) k v = v) {w : Nat} (hw : w ∈ starts ss) :
    w ∈ orbit (nextOf ss) k v ↔ nextOf ss w ∈ orbit (nextOf ss) k v := by
  simp only [mem_orbit]
  constructor
  · rintro ⟨i, hi, rfl⟩
    by_cases hlast : i + 1 < k
    · exact ⟨i + 1, hlast, iter_succ' _ i v⟩
    · refine ⟨0, hk0, ?_⟩
      show v = _
      rw [← iter_succ' (nextOf ss) i v, show i + 1 = k by omega, hret]
  · rintro ⟨i, hi, hx⟩
    cases i with
    | zero =>
      refine ⟨k - 1, by omega, ?_⟩
      apply next_inj h1 h2 (iter_mem h1 h3 hv _) hw
      rw [← iter_succ' (nextOf ss) (k - 1) v, show k - 1 + 1 = k by omega, hret]
      exact hx
    | succ i =>
      refine ⟨i, by omega, ?_⟩
      apply next_inj h1 h2 (iter_mem h1 h3 hv _) hw
      rw [← iter_succ' (nextOf ss) i v]; exact hx

theorem hierLoop2_spec (h1 : (starts ss).Nodup) (h2 : (ends ss).Nodup)
    (h3 : ∀ v, v ∈ starts ss ↔ v ∈ ends ss) (encTop encIn : Comp2 → Comp2 → Bool) :
    ∀ (vs alive : List Nat) (f : Forest Comp2), alive.Nodup → (∀ v ∈ alive, v ∈ starts ss) →
      (∀ v ∈ starts ss, (v ∈ alive ↔ nextOf ss v ∈ alive)) → (∀ v ∈ alive, v ∈ vs) →
      ∃ forest, hierLoop2 ss encTop encIn vs alive f = some forest ∧
        (Forest.fullMesh (·.2) forest).Perm
          (Forest.fullMesh (·.2) f ++ ss.filter fun s => alive.contains s.1) := by
  have hssnd : ss.Nodup := List.Nodup.of_map (·.1) (show (ss.map (·.1)).Nodup from h1)
  intro vs
  induction vs with
  | nil =>
    intro alive f _ _ _ hvs
    have : alive = [] := List.eq_nil_iff_forall_not_mem.mpr fun v hv => by cases hvs v hv
    subst this
    exact ⟨f, rfl, by simp⟩
  | cons v vs ih =>
    intro alive f hnd hsub hclosed hvs
    rw [hierLoop2]
    by_cases hav : alive.contains v = true
    · simp only [hav, if_true]
      have hva : v ∈ alive := by simpa using hav
      have hvS : v ∈ starts ss := hsub v hva
      obtain ⟨k, hk0, hret, hmin⟩ := exists_first_return h1 h2 h3 hvS
      -- the orbit stays alive and has no repetition: the fuel suffices
      have hOalive : ∀ i, iter (nextOf ss) i v ∈ alive := by
        intro i
        induction i with
        | zero => exact hva
        | succ i ihi => rw [iter_succ']; exact (hclosed _ (hsub _ ihi)).mp ihi
      have hOnd : (orbit (nextOf ss) k v).Nodup := by
        apply orbit_nodup
        intro i j hij hj h
        have := iter_cancel h1 h2 h3 hvS i (j - i) (by rw [show i + (j - i) = j by omega]; exact h)
        exact hmin (j - i) (by omega) (by omega) this
      have hOsub : orbit (nextOf ss) k v ⊆ alive := by
        intro y hy
        obtain ⟨i, _, rfl⟩ := (mem_orbit _ _ v y).mp hy
        exact hOalive i
      have hkle : k ≤ alive.length := by
        have := (List.subperm_of_subset hOnd hOsub).length_le
        rwa [length_orbit] at this
      have htrace := traceLoop_spec h1 h2 h3 hvS k hret hmin k 0 (alive.length + 1) (by omega) hk0 (by omega)
      simp only [iter] at htrace
      rw [htrace]
      simp only
      have hfst : (loopEdges ss k v).map (·.1) = orbit (nextOf ss) k v := by
        unfold loopEdges; rw [List.map_map]; exact List.map_id' _
      rw [hfst]
      -- the new set of live vertices
      have hmemA' : ∀ w, w ∈ alive.filter (fun a => !(orbit (nextOf ss) k v).contains a) ↔
          w ∈ alive ∧ w ∉ orbit (nextOf ss) k v := by
        intro w; simp [List.mem_filter]
      have hvO : v ∈ orbit (nextOf ss) k v := (mem_orbit _ _ v v).mpr ⟨0, hk0, rfl⟩
      obtain ⟨forest, hres, hperm⟩ := ih (alive.filter fun a => !(orbit (nextOf ss) k v).contains a)
        (Forest.insertTop encTop encIn (v, loopEdges ss k v) f) (hnd.filter _)
        (fun w hw => hsub w ((hmemA' w).mp hw).1)
        (by
          intro w hw
          rw [hmemA', hmemA', hclosed w hw, orbit_closed h1 h2 h3 hvS hk0 hret hw])
        (by
          intro w hw
          obtain ⟨hwa, hwO⟩ := (hmemA' w).mp hw
          rcases List.mem_cons.mp (hvs w hwa) with h | h
          · exact absurd (h ▸ hvO) hwO
          · exact h)
      refine ⟨forest, hres, hperm.trans ?_⟩
      refine ((Forest.fullMesh_insertTop (·.2) encTop encIn (v, loopEdges ss k v) f).append_right _).trans ?_
      -- loop ++ FM f ++ (segments starting at the remaining live vertices)
      --   ~ FM f ++ (segments starting at live vertices)
      have hsplit : (loopEdges ss k v ++ ss.filter fun s =>
            (alive.filter fun a => !(orbit (nextOf ss) k v).contains a).contains s.1).Perm
          (ss.filter fun s => alive.contains s.1) := by
        have hLnd : (loopEdges ss k v).Nodup := List.Nodup.of_map (·.1) (by rw [hfst]; exact hOnd)
        have hLmem : ∀ e, e ∈ loopEdges ss k v ↔ e ∈ ss ∧ e.1 ∈ orbit (nextOf ss) k v := by
          intro e
          unfold loopEdges
          simp only [List.mem_map]
          constructor
          · rintro ⟨c, hc, rfl⟩
            exact ⟨edge_of_start h1 (hsub c (hOsub hc)), hc⟩
          · rintro ⟨he, hc⟩
            exact ⟨e.1, hc, by rw [next_edge h1 he]⟩
        have hcA : ∀ w, alive.contains w = true ↔ w ∈ alive := by intro w; simp
        have hcA' : ∀ w, (alive.filter fun a => !(orbit (nextOf ss) k v).contains a).contains w = true ↔
            w ∈ alive ∧ w ∉ orbit (nextOf ss) k v := by
          intro w; rw [← hmemA']; simp
        rw [List.perm_ext_iff_of_nodup]
        · intro e
          rw [List.mem_append, hLmem, List.mem_filter, List.mem_filter, hcA, hcA']
          constructor
          · rintro (⟨he, hc⟩ | ⟨he, hc, _⟩)
            · exact ⟨he, hOsub hc⟩
            · exact ⟨he, hc⟩
          · rintro ⟨he, hc⟩
            by_cases hO : e.1 ∈ orbit (nextOf ss) k v
            · exact Or.inl ⟨he, hO⟩
            · exact Or.inr ⟨he, hc, hO⟩
        · refine List.Nodup.append hLnd (hssnd.filter _) ?_
          intro e he1 he2
          have := ((hLmem e).mp he1).2
          have h2' := (hcA' e.1).mp (List.mem_filter.mp he2).2
          exact h2'.2 this
        · exact hssnd.filter _
      calc (loopEdges ss k v ++ Forest.fullMesh (·.2) f) ++ _
          = loopEdges ss k v ++ (Forest.fullMesh (·.2) f ++ _) := List.append_assoc _ _ _
        _ |>.Perm (Forest.fullMesh (·.2) f ++ (loopEdges ss k v ++ _)) := List.perm_append_comm_assoc _ _ _
        _ |>.Perm _ := hsplit.append_left _
    · have hav' : alive.contains v = false := by simpa using hav
      simp only [hav', Bool.false_eq_true, if_false]
      have hva : v ∉ alive := by simpa using hav'
      exact ih alive f hnd hsub hclosed fun w hw => by
        rcases List.mem_cons.mp (hvs w hw) with h | h
        · exact absurd (h ▸ hw) hva
        · exact h

end sweep

/-- **2-D `MeshToHierarchy` partitions the segments**: on closed oriented curves
(`Surface.InOutOne`: every vertex has exactly one outgoing and one incoming segment) and for every
containment oracle and every sweep order listing all vertices, the loop tracer never reaches its
"mesh is non-manifold" panic, never runs out of fuel, and the `FullMesh` of the forest is a
rearrangement of the input segments. -/
theorem meshToHierarchy2_partition (encTop encIn : Comp2 → Comp2 → Bool) (sorted : List Nat)
    (ss : List Seg) (hio : InOutOne ss) (hs : ∀ v ∈ segVerts ss, v ∈ sorted) :
    ∃ forest, meshToHierarchy2 encTop encIn sorted ss = some forest ∧
      (Forest.fullMesh (·.2) forest).Perm ss := by
  obtain ⟨h1, h2, h3⟩ := inOutOne_nodup hio
  have hmemV : ∀ v, v ∈ segVerts ss ↔ v ∈ starts ss := by
    intro v
    simp only [segVerts, List.mem_eraseDups, mem_segVertsAll']
    constructor
    · rintro (h | h)
      · exact h
      · exact (h3 v).mpr h
    · exact Or.inl
  obtain ⟨forest, hres, hperm⟩ := hierLoop2_spec h1 h2 h3 encTop encIn sorted (segVerts ss) .nil
    (nodup_eraseDups _) (fun v hv => (hmemV v).mp hv)
    (fun v hv => by rw [hmemV, hmemV]; exact ⟨fun _ => next_mem h1 h3 hv, fun _ => hv⟩) hs
  refine ⟨forest, hres, hperm.trans ?_⟩
  simp only [Forest.fullMesh, List.nil_append]
  have : ss.filter (fun s => (segVerts ss).contains s.1) = ss := by
    rw [List.filter_eq_self]
    intro s hs'
    simp only [List.contains_eq_mem, decide_eq_true_eq, hmemV]
    exact List.mem_map.mpr ⟨s, hs', rfl⟩
  rw [this]

end M3d.MeshDiag
