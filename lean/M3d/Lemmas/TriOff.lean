import M3d.Model.TriOff
import M3d.Lemmas.TriPlace
/-!
Helper lemmas for C14, part 12: the face loop of `ReadOFF` (`readOffFaces`) returns the triangles of
every face of the file; a translation of space is a translation in each drop-a-coordinate chart.
-/
set_option linter.unusedSectionVars false

namespace M3d.Tri
open M3d.Surface (Tri Edge)

section Loop
variable {F T : Type}

theorem readOffFaces_nil (tri : F → Option (List T)) : readOffFaces tri [] = some [] := rfl

theorem readOffFaces_cons (tri : F → Option (List T)) (f : F) (fs : List F) :
    readOffFaces tri (f :: fs) = (tri f).bind fun ts => (readOffFaces tri fs).map (ts ++ ·) := by
  rw [readOffFaces]
  cases tri f <;> rfl

/-- The loop succeeds iff every face does, and then returns the concatenation, in file order, of the
per-face results. -/
theorem readOffFaces_eq_some (tri : F → Option (List T)) (fs : List F) (out : List T) :
    readOffFaces tri fs = some out ↔
      ∃ tss : List (List T), List.Forall₂ (fun f ts => tri f = some ts) fs tss ∧ out = tss.flatten := by
  induction fs generalizing out with
  | nil =>
    rw [readOffFaces_nil]
    constructor
    · intro h
      exact ⟨[], List.Forall₂.nil, by simpa using (Option.some.inj h).symm⟩
    · rintro ⟨tss, h, rfl⟩
      cases h
      rfl
  | cons f fs ih =>
    rw [readOffFaces_cons]
    constructor
    · intro h
      cases hf : tri f with
      | none => rw [hf] at h; cases h
      | some ts =>
        rw [hf] at h
        simp only [Option.bind_some] at h
        cases hr : readOffFaces tri fs with
        | none => rw [hr] at h; cases h
        | some rest =>
          rw [hr] at h
          obtain ⟨tss, h2, rfl⟩ := (ih rest).1 hr
          refine ⟨ts :: tss, List.Forall₂.cons hf h2, ?_⟩
          simpa using (Option.some.inj h).symm
    · rintro ⟨tss, h, rfl⟩
      cases h with
      | cons hf h2 =>
        rename_i ts tss'
        rw [hf]
        simp only [Option.bind_some]
        rw [(ih tss'.flatten).2 ⟨tss', h2, rfl⟩]
        simp

/-- … and fails iff some face fails. -/
theorem readOffFaces_eq_none (tri : F → Option (List T)) (fs : List F) :
    readOffFaces tri fs = none ↔ ∃ f ∈ fs, tri f = none := by
  induction fs with
  | nil => simp [readOffFaces_nil]
  | cons f fs ih =>
    rw [readOffFaces_cons]
    cases hf : tri f with
    | none => simp [hf]
    | some ts =>
      simp only [Option.bind_some, Option.map_eq_none_iff, ih, List.mem_cons, exists_eq_or_imp, hf]
      simp

theorem forall₂_length_sum {fs : List F} {tss : List (List T)} {tri : F → Option (List T)}
    (h : List.Forall₂ (fun f ts => tri f = some ts) fs tss) :
    tss.length = fs.length := h.length_eq.symm

/-- A file of `n` equal faces: `n` times the triangles of the face, for every `n`. -/
theorem readOffFaces_replicate (tri : F → Option (List T)) (f : F) (ts : List T) (hf : tri f = some ts)
    (n : Nat) : readOffFaces tri (List.replicate n f) = some (List.replicate n ts).flatten := by
  induction n with
  | zero => rfl
  | succ n ih =>
    rw [List.replicate_succ, readOffFaces_cons, hf, Option.bind_some, ih]
    simp [List.replicate_succ]

end Loop

section Charts
variable {K : Type} [Field K] [LinearOrder K] [IsStrictOrderedRing K]

theorem chartXY_translate3 (t p : P3 K) : chartXY (translate3 t p) = translate t.x t.y (chartXY p) := rfl
theorem chartYZ_translate3 (t p : P3 K) : chartYZ (translate3 t p) = translate t.y t.z (chartYZ p) := rfl
theorem chartZX_translate3 (t p : P3 K) : chartZX (translate3 t p) = translate t.z t.x (chartZX p) := rfl

theorem copyPt_eq_translate3 (r : K) (T p : P3 K) : copyPt r T p = translate3 ⟨r * T.x, r * T.y, r * T.z⟩ p := rfl

theorem certOk_translate (e f : K) (c : Nat → P2 K) (nv : Nat) (cw : Bool) (bnd : List Edge) (tris : List Tri) :
    certOk (fun i => translate e f (c i)) nv cw bnd tris = certOk c nv cw bnd tris := by
  have hf : (fun i => translate e f (c i)) = fun i => simMap 1 0 e f (c i) := by
    funext i; exact translate_eq_simMap e f (c i)
  rw [hf, certOk_simMap (Or.inl one_ne_zero)]

end Charts

end M3d.Tri
