import M3d.Model.CodecStream
import M3d.Lemmas.CodecStl
/-!
# The STL reader does not depend on how its `io.Reader` delivers the bytes (C15)

`stlDecodeSrc_eq`: for every reader that never returns `0, nil` (the `io.Reader` contract discourages it;
`bufio` gives up after 100 such calls), `NewSTLReader` + `ReadTriangle` until `io.EOF` over the reader
(`Stream.stlDecodeSrc`: `io.ReadFull`, `io.MultiReader`, `bufio.Reader.ReadString`, `binary.Read` on
partial deliveries) computes exactly `stlDecode` of the concatenated bytes.
-/
namespace M3d.Codec.Stream
open M3d.Codec

theorem readLine_nl_free (a : Bytes) (h : NL ∉ a) : readLine a = (a, [], false) := by
  induction a with
  | nil => rfl
  | cons x xs ih =>
    have hx : x ≠ NL := fun e => h (by simp [e])
    have hxs : NL ∉ xs := fun e => h (by simp [e])
    unfold readLine
    simp only [hx, if_false, ih hxs]

theorem readLine_append_nl_free (a b : Bytes) (h : NL ∉ a) :
    readLine (a ++ b) = (a ++ (readLine b).1, (readLine b).2.1, (readLine b).2.2) := by
  induction a with
  | nil => simp
  | cons x xs ih =>
    have hx : x ≠ NL := fun e => h (by simp [e])
    have hxs : NL ∉ xs := fun e => h (by simp [e])
    rw [List.cons_append]
    conv => lhs; unfold readLine
    simp only [hx, if_false, ih hxs, List.cons_append]

theorem readLine_found (bs l r : Bytes) (h : readLine bs = (l, r, true)) (t : Bytes) :
    readLine (bs ++ t) = (l, r ++ t, true) := by
  induction bs generalizing l r with
  | nil => simp [readLine] at h
  | cons x xs ih =>
    unfold readLine at h
    rw [List.cons_append]
    conv => lhs; unfold readLine
    by_cases hx : x = NL
    · simp only [hx, if_true] at h ⊢
      simp only [Prod.mk.injEq] at h
      obtain ⟨h1, h2, -⟩ := h
      simp [← h1, ← h2]
    · simp only [hx, if_false] at h ⊢
      simp only [Prod.mk.injEq] at h
      obtain ⟨h1, h2, h3⟩ := h
      have := ih (readLine xs).1 (readLine xs).2.1 (by rw [← h3])
      rw [this]
      simp [← h1, ← h2]

theorem readLine_not_found (bs l r : Bytes) (h : readLine bs = (l, r, false)) : NL ∉ bs := by
  induction bs generalizing l r with
  | nil => simp
  | cons x xs ih =>
    unfold readLine at h
    by_cases hx : x = NL
    · simp [hx] at h
    · simp only [hx, if_false, Prod.mk.injEq] at h
      have := ih (readLine xs).1 (readLine xs).2.1 (by rw [← h.2.2])
      simp only [List.mem_cons, not_or]
      exact ⟨fun e => hx e.symm, this⟩

def Src.NoEmpty (s : Src) : Prop := ∀ c ∈ s.chunks, c ≠ []

def Rd.parts (r : Rd) : Nat := (if r.pre.isEmpty then 0 else 1) + r.src.chunks.length

/-- `r'` is a later state of the reader `r` -/
structure Rd.Le (r' r : Rd) : Prop where
  parts : r'.parts ≤ r.parts
  pre : r.pre = [] → r'.pre = []
  noEmpty : r.src.NoEmpty → r'.src.NoEmpty
  len : r'.bytes.length ≤ r.bytes.length

theorem Rd.Le.refl (r : Rd) : r.Le r := ⟨Nat.le_refl _, id, id, Nat.le_refl _⟩
theorem Rd.Le.trans {a b c : Rd} (h1 : a.Le b) (h2 : b.Le c) : a.Le c :=
  ⟨Nat.le_trans h1.parts h2.parts, fun h => h1.pre (h2.pre h), fun h => h1.noEmpty (h2.noEmpty h),
    Nat.le_trans h1.len h2.len⟩

/-- what one `Read` does -/
structure ReadSpec (r : Rd) (k : Nat) (d : Bytes) (e : Bool) (r' : Rd) : Prop where
  bytes : d ++ r'.bytes = r.bytes
  len : d.length ≤ k
  eof : e = true → r'.pre = [] ∧ r'.src.chunks = []
  whole : d.length < k → r'.parts < r.parts ∨ e = true
  le : r'.Le r
  progress : r.src.NoEmpty → 0 < k → e = false → d ≠ []

theorem Src.read_spec (s : Src) (k : Nat) :
    ReadSpec ⟨[], s⟩ k (s.read k).1 (s.read k).2.1 ⟨[], (s.read k).2.2⟩ := by
  obtain ⟨chunks, eager⟩ := s
  cases chunks with
  | nil =>
    simp only [Src.read]
    exact ⟨rfl, Nat.zero_le _, fun _ => ⟨rfl, rfl⟩, fun _ => Or.inr rfl, Rd.Le.refl _, fun _ _ h => by simp at h⟩
  | cons c cs =>
    simp only [Src.read]
    by_cases hc : c.length ≤ k
    · simp only [hc, if_true]
      refine ⟨by simp [Rd.bytes, Src.bytes], hc, ?_, fun _ => Or.inl (by simp [Rd.parts]), ?_, ?_⟩
      · intro h
        simp only [Bool.and_eq_true, List.isEmpty_iff] at h
        exact ⟨rfl, h.2⟩
      · refine ⟨by simp [Rd.parts], fun _ => rfl, ?_, by simp [Rd.bytes, Src.bytes]⟩
        intro h x hx
        exact h x (List.mem_cons_of_mem _ hx)
      · intro h _ _
        exact h c (List.mem_cons_self)
    · simp only [hc, if_false]
      have hlt : k < c.length := Nat.lt_of_not_le hc
      refine ⟨by simp only [Rd.bytes, Src.bytes, List.flatten_cons, List.nil_append]; rw [← List.append_assoc, List.take_append_drop],
        by rw [List.length_take]; exact Nat.min_le_left _ _, fun h => by simp at h, ?_, ?_, ?_⟩
      · intro h
        simp only [List.length_take] at h
        omega
      · refine ⟨by simp [Rd.parts], fun _ => rfl, ?_, by simp [Rd.bytes, Src.bytes]⟩
        intro h x hx
        simp only [List.mem_cons] at hx
        rcases hx with hx | hx
        · subst hx
          intro h0
          have := congrArg List.length h0
          simp at this
          omega
        · exact h x (List.mem_cons_of_mem _ hx)
      · intro _ hk _ h0
        have : (c.take k).length = 0 := by rw [h0]; rfl
        rw [List.length_take] at this
        omega

theorem Rd.read_spec (r : Rd) (k : Nat) :
    ReadSpec r k (r.read k).1 (r.read k).2.1 (r.read k).2.2 := by
  obtain ⟨pre, s⟩ := r
  cases pre with
  | nil => exact Src.read_spec s k
  | cons p ps =>
    simp only [Rd.read, List.isEmpty_cons, Bool.false_eq_true, if_false]
    refine ⟨by simp only [Rd.bytes]; rw [← List.append_assoc, List.take_append_drop],
      by rw [List.length_take]; exact Nat.min_le_left _ _, fun h => by simp at h, ?_, ?_, ?_⟩
    · intro h
      left
      simp only [List.length_take, List.length_cons] at h
      have : (List.drop k (p :: ps)) = [] := by
        apply List.drop_eq_nil_of_le
        simp only [List.length_cons]
        omega
      simp [Rd.parts, this]
    · refine ⟨?_, fun h => by simp at h, id, by simp [Rd.bytes]; omega⟩
      simp only [Rd.parts, List.isEmpty_cons]
      split <;> simp
    · intro _ hk _ h0
      have : ((p :: ps).take k).length = 0 := by rw [h0]; rfl
      rw [List.length_take, List.length_cons] at this
      omega


/-! ## `io.ReadFull` -/

theorem readFullAux_zero (f : Nat) (r : Rd) (acc : Bytes) : readFullAux f r 0 acc = (acc, r) := by
  cases f <;> simp [readFullAux]

/-- `io.ReadFull` returns the next `need` bytes (fewer only if the stream ends), whatever the deliveries -/
theorem readFullAux_spec (f : Nat) (r : Rd) (need : Nat) (acc : Bytes) (hf : r.parts < f) :
    (readFullAux f r need acc).1 = acc ++ r.bytes.take need ∧
    (readFullAux f r need acc).2.bytes = r.bytes.drop need ∧
    (readFullAux f r need acc).2.Le r := by
  induction f generalizing r need acc with
  | zero => omega
  | succ f ih =>
    by_cases hn : need = 0
    · subst hn
      rw [readFullAux_zero]
      simp [Rd.Le.refl]
    · have sp := Rd.read_spec r need
      unfold readFullAux
      simp only [hn, if_false]
      generalize (r.read need).1 = d at sp
      generalize (r.read need).2.1 = e at sp
      generalize (r.read need).2.2 = r' at sp
      cases e with
      | true =>
        obtain ⟨h1, h2⟩ := sp.eof rfl
        have hb : r'.bytes = [] := by simp [Rd.bytes, Src.bytes, h1, h2]
        have hd : r.bytes = d := by rw [← sp.bytes, hb, List.append_nil]
        simp only [if_true]
        refine ⟨?_, ?_, sp.le⟩
        · rw [hd, List.take_of_length_le sp.len]
        · rw [hb, hd, List.drop_of_length_le sp.len]
      | false =>
        simp only [Bool.false_eq_true, if_false]
        by_cases hd : d.length = need
        · rw [hd, Nat.sub_self, readFullAux_zero]
          refine ⟨?_, ?_, sp.le⟩
          · rw [← sp.bytes, ← hd, List.take_left']; rfl
          · show r'.bytes = _
            rw [← sp.bytes, ← hd, List.drop_left']; rfl
        · have hlt : d.length < need := Nat.lt_of_le_of_ne sp.len hd
          have hp : r'.parts < r.parts := by
            rcases sp.whole hlt with h | h
            · exact h
            · cases h
          obtain ⟨i1, i2, i3⟩ := ih r' (need - d.length) (acc ++ d) (by omega)
          refine ⟨?_, ?_, i3.trans sp.le⟩
          · rw [i1, ← sp.bytes, List.take_append, List.take_of_length_le sp.len, List.append_assoc]
          · rw [i2, ← sp.bytes, List.drop_append, List.drop_of_length_le sp.len, List.nil_append]

theorem readFull_spec (f : Nat) (r : Rd) (k : Nat) (hf : r.parts < f) :
    (readFull f r k).1 = r.bytes.take k ∧ (readFull f r k).2.bytes = r.bytes.drop k ∧
    (readFull f r k).2.Le r := by
  have := readFullAux_spec f r k [] hf
  simpa [readFull] using this


/-! ## `bufio.Reader` -/

/-- invariant of the `bufio.Reader` states that occur: a pending `io.EOF` means the source is exhausted;
`io.ErrNoProgress` never arises (the reader never returns `0, nil`). -/
structure BufRd.Inv (b : BufRd) : Prop where
  eof : b.err = .eof → b.rd.pre = [] ∧ b.rd.src.chunks = []
  np : b.err ≠ .noProgress
  ne : b.rd.src.NoEmpty

theorem Rd.bytes_nil_of (r : Rd) (h : r.pre = [] ∧ r.src.chunks = []) : r.bytes = [] := by
  simp [Rd.bytes, Src.bytes, h.1, h.2]

/-- fuel measure of `readSlice` -/
def BufRd.mu (b : BufRd) : Nat := match b.err with | .none => b.rd.bytes.length + 1 | _ => 0

theorem fill_spec (b : BufRd) (hi : b.Inv) (he : b.err = .none) (hl : b.buf.length < bufSize) (n : Nat) (hn : 0 < n) :
    (fill n b).bytes = b.bytes ∧ (fill n b).Inv ∧ (fill n b).rd.Le b.rd ∧
    (fill n b).mu < b.mu := by
  obtain ⟨i, rfl⟩ : ∃ i, n = i + 1 := ⟨n - 1, by omega⟩
  have sp := Rd.read_spec b.rd (bufSize - b.buf.length)
  rcases hr : b.rd.read (bufSize - b.buf.length) with ⟨d, e, r'⟩
  rw [hr] at sp
  simp only at sp
  unfold fill
  simp only [hr]
  have hbytes : b.buf ++ d ++ r'.bytes = b.bytes := by
    rw [List.append_assoc, sp.bytes]; rfl
  cases e with
  | true =>
    simp only [if_true]
    refine ⟨hbytes, ⟨fun _ => sp.eof rfl, by simp, sp.le.noEmpty hi.ne⟩, sp.le, ?_⟩
    simp [BufRd.mu, he]
  | false =>
    have hd : d ≠ [] := sp.progress hi.ne (by omega) rfl
    have hd' : d.isEmpty = false := by cases d with | nil => exact absurd rfl hd | cons _ _ => rfl
    simp only [Bool.false_eq_true, if_false, hd']
    refine ⟨hbytes, ⟨(fun h => by rw [he] at h; cases h), (by rw [he]; simp), sp.le.noEmpty hi.ne⟩, sp.le, ?_⟩
    simp only [BufRd.mu, he]
    have : d.length + r'.bytes.length = b.rd.bytes.length := by rw [← sp.bytes, List.length_append]
    have : 0 < d.length := List.length_pos_iff.mpr hd
    omega

/-- the three ways `ReadSlice` can end, in terms of the bytes not yet consumed -/
def SliceSpec (b : BufRd) (frag : Bytes) (e : SliceEnd) (b' : BufRd) : Prop :=
  match e with
  | .found => readLine b.bytes = (frag, b'.bytes, true)
  | .failed er => er = .eof ∧ NL ∉ b.bytes ∧ frag = b.bytes ∧ b'.bytes = []
  | .full => NL ∉ frag ∧ frag ≠ [] ∧ frag ++ b'.bytes = b.bytes

theorem readSlice_spec (f : Nat) (b : BufRd) (hi : b.Inv) (hf : b.mu < f) :
    SliceSpec b (readSlice f b).1 (readSlice f b).2.1 (readSlice f b).2.2 ∧
    (readSlice f b).2.2.Inv ∧ (readSlice f b).2.2.rd.Le b.rd := by
  induction f generalizing b with
  | zero => omega
  | succ f ih =>
    unfold readSlice
    rcases hrl : readLine b.buf with ⟨line, rest, found⟩
    cases found with
    | true =>
      simp only
      refine ⟨?_, ⟨hi.eof, hi.np, hi.ne⟩, Rd.Le.refl _⟩
      exact readLine_found b.buf line rest hrl b.rd.bytes
    | false =>
      have hnl : NL ∉ b.buf := readLine_not_found _ _ _ hrl
      simp only
      by_cases he : b.err = .none
      · simp only [he, ne_eq, not_true_eq_false, if_false]
        by_cases hfull : bufSize ≤ b.buf.length
        · simp only [hfull, if_true]
          refine ⟨⟨hnl, ?_, rfl⟩, ⟨(fun h => by cases h), (by simp), hi.ne⟩, Rd.Le.refl _⟩
          intro h0
          rw [h0] at hfull
          simp [bufSize] at hfull
        · simp only [hfull, if_false]
          obtain ⟨f1, f2, f3, f4⟩ := fill_spec b hi he (Nat.lt_of_not_le hfull) 100 (by omega)
          obtain ⟨i1, i2, i3⟩ := ih (fill 100 b) f2 (by omega)
          refine ⟨?_, i2, i3.trans f3⟩
          generalize (readSlice f (fill 100 b)).1 = frag at i1 ⊢
          generalize (readSlice f (fill 100 b)).2.1 = e at i1 ⊢
          generalize (readSlice f (fill 100 b)).2.2 = b' at i1 ⊢
          cases e <;> simp only [SliceSpec, f1] at i1 ⊢ <;> exact i1
      · have he' : b.err = .eof := by
          cases h : b.err with
          | none => exact absurd h he
          | eof => rfl
          | noProgress => exact absurd h hi.np
        simp only [he', ne_eq, reduceCtorEq, not_false_eq_true, if_true]
        have hb : b.rd.bytes = [] := Rd.bytes_nil_of _ (hi.eof he')
        have hbb : b.bytes = b.buf := by simp [BufRd.bytes, hb]
        refine ⟨⟨rfl, by rw [hbb]; exact hnl, hbb.symm, by simp [BufRd.bytes, hb]⟩,
          ⟨(fun h => by cases h), (by simp), hi.ne⟩, Rd.Le.refl _⟩


theorem BufRd.mu_le (b : BufRd) : b.mu ≤ b.rd.bytes.length + 1 := by
  unfold BufRd.mu; split <;> omega

/-- `ReadString('\n')` returns the next line of the remaining bytes (`readLine`), whatever the deliveries:
the line including the newline, or everything that is left together with `io.EOF`. -/
theorem readString_spec (F n : Nat) (b : BufRd) (acc : Bytes) (hi : b.Inv)
    (hF : b.rd.bytes.length + 1 < F) (hn : b.bytes.length < n) :
    (readString F n b acc).1 = acc ++ (readLine b.bytes).1 ∧
    (readString F n b acc).2.1 = (if (readLine b.bytes).2.2 then .found else .failed .eof) ∧
    (readString F n b acc).2.2.bytes = (readLine b.bytes).2.1 ∧
    (readString F n b acc).2.2.Inv ∧ (readString F n b acc).2.2.rd.Le b.rd := by
  induction n generalizing b acc with
  | zero => omega
  | succ n ih =>
    obtain ⟨s1, s2, s3⟩ := readSlice_spec F b hi (Nat.lt_of_le_of_lt b.mu_le hF)
    unfold readString
    rcases hrs : readSlice F b with ⟨frag, e, b'⟩
    rw [hrs] at s1 s2 s3
    simp only at s1 s2 s3
    cases e with
    | found =>
      simp only [SliceSpec] at s1
      simp only [s1, if_true]
      exact ⟨trivial, trivial, trivial, s2, s3⟩
    | failed er =>
      simp only [SliceSpec] at s1
      obtain ⟨rfl, h1, h2, h3⟩ := s1
      simp only [readLine_nl_free _ h1, Bool.false_eq_true, if_false]
      exact ⟨by rw [h2], trivial, h3, s2, s3⟩
    | full =>
      simp only [SliceSpec] at s1
      obtain ⟨h1, h2, h3⟩ := s1
      simp only
      have hlen : b'.bytes.length < b.bytes.length := by
        rw [← h3, List.length_append]
        have := List.length_pos_iff.mpr h2
        omega
      obtain ⟨i1, i2, i3, i4, i5⟩ := ih b' (acc ++ frag) s2
        (by have := s3.len; omega) (by omega)
      have hrl := readLine_append_nl_free frag b'.bytes h1
      rw [h3] at hrl
      refine ⟨?_, ?_, ?_, i4, i5.trans s3⟩
      · rw [i1, hrl, List.append_assoc]
      · rw [i2, hrl]
      · rw [i3, hrl]

/-! ## The ASCII line loop -/

/-- `stlAsciiLoop` (the byte-level model) is `lineStep` iterated over `readLine` -/
theorem stlAsciiLoop_step (pf32 : Bytes → Option UInt32) (bs : Bytes) (normal verts : List UInt32)
    (acc : List Rec) :
    stlAsciiLoop pf32 bs normal verts acc =
      match lineStep pf32 (readLine bs).1 (readLine bs).2.2 normal verts acc with
      | .stop r => r
      | .next n v a => stlAsciiLoop pf32 (readLine bs).2.1 n v a := by
  rw [stlAsciiLoop]
  split
  next line rest found h =>
    have e1 : (readLine bs).1 = line := by rw [h]
    have e2 : (readLine bs).2.1 = rest := by rw [h]
    have e3 : (readLine bs).2.2 = found := by rw [h]
    rw [e1, e2, e3]
    simp only [lineStep]
    cases found with
    | false =>
      simp only [if_true, dite_true]
      split <;> rfl
    | true =>
      simp only [Bool.true_eq_false, if_false, dite_false]
      cases fields line with
      | nil => rfl
      | cons t0 tl =>
        simp only
        by_cases h1 : t0 = tokEndsolid
        · rw [if_pos h1, if_pos h1]
        · rw [if_neg h1, if_neg h1]
          by_cases h2 : t0 = tokEndfacet
          · rw [if_pos h2, if_pos h2]
            by_cases h3 : verts.length = 9
            · rw [if_pos h3, if_pos h3]
            · rw [if_neg h3, if_neg h3]
          · rw [if_neg h2, if_neg h2]
            by_cases h3 : t0 = tokFacet
            · rw [if_pos h3, if_pos h3]
              by_cases h4 : (t0 :: tl).length ≠ 5
              · rw [if_pos h4, if_pos h4]
              · rw [if_neg h4, if_neg h4]
                cases stlParseVec pf32 (t0 :: tl) <;> rfl
            · rw [if_neg h3, if_neg h3]
              by_cases h4 : t0 = tokVertex
              · rw [if_pos h4, if_pos h4]
                by_cases h5 : (t0 :: tl).length ≠ 4
                · rw [if_pos h5, if_pos h5]
                · rw [if_neg h5, if_neg h5]
                  by_cases h6 : verts.length = 9
                  · rw [if_pos h6, if_pos h6]
                  · rw [if_neg h6, if_neg h6]
                    cases stlParseVec pf32 (t0 :: tl) <;> rfl
              · rw [if_neg h4, if_neg h4]


/-- `readASCII` until `io.EOF` over the `bufio.Reader` = the byte-level line loop on what is left -/
theorem asciiLoop_spec (pf32 : Bytes → Option UInt32) (F n : Nat) (b : BufRd) (normal verts : List UInt32)
    (acc : List Rec) (hi : b.Inv) (hF : b.bytes.length + 1 < F) (hn : b.bytes.length < n) :
    asciiLoop pf32 F n b normal verts acc = stlAsciiLoop pf32 b.bytes normal verts acc := by
  induction n generalizing b normal verts acc with
  | zero => omega
  | succ n ih =>
    have hrd : b.rd.bytes.length ≤ b.bytes.length := by simp [BufRd.bytes]
    obtain ⟨s1, s2, s3, s4, s5⟩ := readString_spec F F b [] hi (by omega) (by omega)
    rw [stlAsciiLoop_step]
    unfold asciiLoop
    rcases hrs : readString F F b [] with ⟨line, e, b'⟩
    rw [hrs] at s1 s2 s3 s4 s5
    simp only [List.nil_append] at s1 s2 s3 s4 s5
    rcases hrl : readLine b.bytes with ⟨l, rest, found⟩
    rw [hrl] at s1 s2 s3
    simp only at s1 s2 s3
    subst s1
    cases found with
    | false =>
      simp only [Bool.false_eq_true, if_false] at s2
      subst s2
      simp only [lineStep, show (SliceEnd.failed BErr.eof == SliceEnd.found) = false from rfl, if_true]
      by_cases hp : List.isPrefixOf tokEndsolid (trimLeftAux line.length line) = true
      · rw [if_pos hp]
      · rw [if_neg hp]
    | true =>
      simp only [if_true] at s2
      subst s2
      simp only [show (SliceEnd.found == SliceEnd.found) = true from rfl]
      cases hst : lineStep pf32 line true normal verts acc with
      | stop r => rfl
      | next n' v' a' =>
        simp only
        have hlt : rest.length < b.bytes.length :=
          readLine_rest_lt b.bytes line rest true hrl (readLine_found_ne_nil b.bytes line rest hrl)
        rw [ih b' n' v' a' s4 (by rw [s3]; omega) (by rw [s3]; omega), s3]

/-! ## Binary header and records -/

theorem newReaderBinary_spec (F : Nat) (r : Rd) (hF : r.parts < F) :
    match newReaderBinary F r, stlBinHeader r.bytes with
    | .ok (n, r'), .ok (m, rest) => n = m ∧ r'.bytes = rest ∧ r'.Le r
    | .error e, .error e' => e = e'
    | _, _ => False := by
  obtain ⟨a1, a2, a3⟩ := readFull_spec F r 80 hF
  unfold newReaderBinary stlBinHeader
  rcases h1 : readFull F r 80 with ⟨hdr, r1⟩
  rw [h1] at a1 a2 a3
  simp only at a1 a2 a3 ⊢
  obtain ⟨b1, b2, b3⟩ := readFull_spec F r1 4 (Nat.lt_of_le_of_lt a3.parts hF)
  rcases h2 : readFull F r1 4 with ⟨cnt, r2⟩
  rw [h2] at b1 b2 b3
  simp only at b1 b2 b3 ⊢
  subst a1 b1
  rw [a2] at b2 ⊢
  rw [List.drop_drop] at b2
  simp only [List.length_take, List.length_drop]
  by_cases h80 : r.bytes.length < 80
  · have : min 80 r.bytes.length < 80 := by omega
    have h84 : r.bytes.length < 84 := by omega
    simp only [this, h84, if_true]
  · have : ¬ min 80 r.bytes.length < 80 := by omega
    simp only [this, if_false]
    by_cases h84 : r.bytes.length < 84
    · have : min 4 (r.bytes.length - 80) < 4 := by omega
      simp only [this, h84, if_true]
    · have : ¬ min 4 (r.bytes.length - 80) < 4 := by omega
      simp only [this, h84, if_false]
      exact ⟨trivial, b2, b3.trans a3⟩

theorem readBinRecs_spec (F n : Nat) (r : Rd) (hF : r.parts < F) :
    readBinRecs F n r = stlReadBinRecs n r.bytes := by
  induction n generalizing r with
  | zero => rfl
  | succ n ih =>
    obtain ⟨a1, a2, a3⟩ := readFull_spec F r 50 hF
    unfold readBinRecs stlReadBinRecs
    rcases h1 : readFull F r 50 with ⟨data, r'⟩
    rw [h1] at a1 a2 a3
    simp only at a1 a2 a3 ⊢
    subst a1
    have e1 : (r.bytes.take 50).isEmpty = r.bytes.isEmpty := by
      cases r.bytes <;> rfl
    rw [e1]
    by_cases he : r.bytes.isEmpty
    · simp only [he, if_true]
    · simp only [he, Bool.false_eq_true, if_false, List.length_take]
      by_cases hl : r.bytes.length < 50
      · have : min 50 r.bytes.length < 50 := by omega
        simp only [this, hl, if_true]
      · have : ¬ min 50 r.bytes.length < 50 := by omega
        simp only [this, hl, if_false]
        rw [ih r' (Nat.lt_of_le_of_lt a3.parts hF), a2, List.take_take]
        rfl


/-! ## The reader as a whole -/

theorem readLine_rest_le (bs : Bytes) : (readLine bs).2.1.length ≤ bs.length := by
  have := congrArg List.length (readLine_append bs)
  rw [List.length_append] at this
  omega

/-- **Delivery independence of the STL reader** (with explicit fuel). -/
theorem stlDecodeFuel_eq (F : Nat) (pf32 : Bytes → Option UInt32) (s : Src) (hne : s.NoEmpty)
    (hF : s.bytes.length + s.chunks.length + 3 < F) :
    stlDecodeFuel F pf32 s = stlDecode pf32 s.bytes := by
  have hb0 : (Rd.mk [] s).bytes = s.bytes := by simp [Rd.bytes]
  have hp0 : (Rd.mk [] s).parts = s.chunks.length := by simp [Rd.parts]
  obtain ⟨a1, a2, a3⟩ := readFull_spec F ⟨[], s⟩ 512 (by rw [hp0]; omega)
  unfold stlDecodeFuel stlDecode
  rcases h1 : readFull F ⟨[], s⟩ 512 with ⟨chunk, r1⟩
  rw [h1] at a1 a2 a3
  simp only [hb0] at a1 a2 a3 ⊢
  subst a1
  have e1 : (s.bytes.take 512).isEmpty = s.bytes.isEmpty := by cases s.bytes <;> rfl
  rw [e1]
  by_cases he : s.bytes.isEmpty
  · simp only [he, if_true]
  · simp only [he, Bool.false_eq_true, if_false]
    have hpre : r1.pre = [] := a3.pre rfl
    have hr1 : r1.src.bytes = s.bytes.drop 512 := by
      rw [← a2]; simp [Rd.bytes, hpre]
    -- the reset reader
    generalize hreset : (if (s.bytes.take 512).length = 512 then (⟨s.bytes.take 512, r1.src⟩ : Rd)
      else ⟨s.bytes.take 512, ⟨[], false⟩⟩) = reset
    have hrb : reset.bytes = s.bytes := by
      rw [← hreset]
      split
      · simp only [Rd.bytes, hr1, List.take_append_drop]
      · rename_i hl
        rw [List.length_take] at hl
        have : s.bytes.length ≤ 512 := by omega
        show s.bytes.take 512 ++ (Src.mk [] false).bytes = s.bytes
        rw [List.take_of_length_le this]
        exact List.append_nil _
    have hrp : reset.parts ≤ 1 + s.chunks.length := by
      rw [← hreset]
      have := a3.parts
      rw [hp0] at this
      simp only [Rd.parts, hpre, List.isEmpty_nil, if_true, Nat.zero_add] at this
      split <;> simp only [Rd.parts] <;> split <;> simp <;> omega
    have hrn : reset.src.NoEmpty := by
      rw [← hreset]
      split
      · exact a3.noEmpty hne
      · intro c hc; simp at hc
    by_cases ha : stlIsAscii (s.bytes.take 512) = true
    · simp only [ha, if_true]
      have hi : (BufRd.mk [] .none reset).Inv := ⟨(fun h => by cases h), (by simp), hrn⟩
      have hbb : (BufRd.mk [] .none reset).bytes = s.bytes := by simp [BufRd.bytes, hrb]
      obtain ⟨s1, s2, s3, s4, s5⟩ := readString_spec F F ⟨[], .none, reset⟩ [] hi
        (by simp only [hrb]; omega) (by rw [hbb]; omega)
      rcases hrs : readString F F ⟨[], .none, reset⟩ [] with ⟨line, e, b'⟩
      rw [hrs, hbb] at s1 s2 s3
      rw [hrs] at s4 s5
      simp only at s1 s2 s3 s4 s5
      have hle := readLine_rest_le s.bytes
      unfold stlAsciiHeader
      rcases hrl : readLine s.bytes with ⟨l, rest, found⟩
      rw [hrl] at s1 s2 s3 hle
      simp only at s1 s2 s3 hle
      cases found with
      | false =>
        simp only [Bool.false_eq_true, if_false] at s2
        subst s2
        rfl
      | true =>
        simp only [if_true] at s2
        subst s2
        simp only
        rw [asciiLoop_spec pf32 F F b' _ _ _ s4 (by rw [s3]; omega) (by rw [s3]; omega), s3]
    · simp only [ha, Bool.false_eq_true, if_false]
      have sp := newReaderBinary_spec F reset (by omega)
      rw [hrb] at sp
      cases hnb : newReaderBinary F reset with
      | error e =>
        rw [hnb] at sp
        cases hbh : stlBinHeader s.bytes with
        | error e' => rw [hbh] at sp; simp only at sp ⊢; rw [sp]
        | ok v => rw [hbh] at sp; simp at sp
      | ok v =>
        obtain ⟨n, r'⟩ := v
        rw [hnb] at sp
        cases hbh : stlBinHeader s.bytes with
        | error e' => rw [hbh] at sp; simp at sp
        | ok w =>
          obtain ⟨m, rest⟩ := w
          rw [hbh] at sp
          simp only at sp ⊢
          obtain ⟨rfl, rfl, h3⟩ := sp
          exact readBinRecs_spec F n r' (by have := h3.parts; omega)

/-- **Delivery independence of the STL reader**: `NewSTLReader` + `ReadTriangle` until `io.EOF` on a
reader that delivers the file in the pieces `s.chunks` (none of them empty; `io.EOF` together with the
last piece or after it) returns what the byte-level model returns on the whole file. -/
theorem stlDecodeSrc_eq (pf32 : Bytes → Option UInt32) (s : Src) (hne : s.NoEmpty) :
    stlDecodeSrc pf32 s = stlDecode pf32 s.bytes :=
  stlDecodeFuel_eq _ pf32 s hne (by omega)

theorem splitSizes_flatten (ks : List Nat) (bs : Bytes) : (splitSizes ks bs).flatten = bs := by
  induction ks generalizing bs with
  | nil => unfold splitSizes; split <;> simp_all
  | cons k ks ih =>
    unfold splitSizes
    by_cases h : bs.isEmpty
    · simp only [h, if_true]; simp_all
    · simp only [h, Bool.false_eq_true, if_false]
      by_cases hk : k = 0
      · simp only [hk, if_true]; exact ih bs
      · simp only [hk, if_false, List.flatten_cons, ih, List.take_append_drop]

theorem splitSizes_noEmpty (ks : List Nat) (bs : Bytes) : ∀ c ∈ splitSizes ks bs, c ≠ [] := by
  induction ks generalizing bs with
  | nil =>
    unfold splitSizes
    intro c hc
    split at hc
    · simp at hc
    · rename_i h
      simp only [List.mem_singleton] at hc
      subst hc
      intro h0; subst h0; simp at h
  | cons k ks ih =>
    unfold splitSizes
    intro c hc
    by_cases h : bs.isEmpty
    · simp [h] at hc
    · simp only [h, Bool.false_eq_true, if_false] at hc
      by_cases hk : k = 0
      · simp only [hk, if_true] at hc; exact ih bs c hc
      · simp only [hk, if_false, List.mem_cons] at hc
        rcases hc with hc | hc
        · subst hc
          intro h0
          have h1 : (bs.take k).length = 0 := by rw [h0]; rfl
          rw [List.length_take] at h1
          have h2 : bs ≠ [] := fun e => h (by simp [e])
          have h3 := List.length_pos_iff.mpr h2
          omega
        · exact ih _ c hc

/-! ## `bufio.Reader.Read`, `io.ReadFull` on a `bufio.Reader` (the PLY reader's primitives) -/

theorem Rd.read_whole (r : Rd) (k : Nat) (h : (r.read k).1.length < k) (hne : (r.read k).1 ≠ []) :
    (r.read k).2.2.parts < r.parts := by
  obtain ⟨pre, ⟨chunks, eager⟩⟩ := r
  cases pre with
  | nil =>
    cases chunks with
    | nil => simp [Rd.read, Src.read] at hne
    | cons c cs =>
      simp only [Rd.read, Src.read, List.isEmpty_nil, if_true] at h hne ⊢
      by_cases hc : c.length ≤ k
      · simp only [hc, if_true] at h ⊢
        simp [Rd.parts]
      · simp only [hc, if_false, List.length_take] at h
        omega
  | cons p ps =>
    simp only [Rd.read, List.isEmpty_cons, Bool.false_eq_true, if_false, List.length_take, List.length_cons] at h ⊢
    have : (List.drop k (p :: ps)) = [] := by
      apply List.drop_eq_nil_of_le
      simp only [List.length_cons]
      omega
    simp [Rd.parts, this]

/-- fuel measure of `io.ReadFull` on a `bufio.Reader` -/
def BufRd.nu (b : BufRd) : Nat := (if b.buf.isEmpty then 0 else 1) + b.rd.parts

/-- what one `bufio.Reader.Read` does, in terms of the bytes not yet consumed -/
structure BufReadSpec (b : BufRd) (k : Nat) (d : Bytes) (err : BErr) (b' : BufRd) : Prop where
  bytes : d ++ b'.bytes = b.bytes
  len : d.length ≤ k
  inv : b'.Inv
  le : b'.rd.Le b.rd
  fail : err ≠ .none → err = .eof ∧ b'.bytes = []
  progress : err = .none → d ≠ []
  short : d.length < k → err = .none → b'.nu < b.nu

theorem BufRd.read_spec (b : BufRd) (k : Nat) (hi : b.Inv) (hk : 0 < k) :
    BufReadSpec b k (b.read k).1 (b.read k).2.1 (b.read k).2.2 := by
  unfold BufRd.read
  have hk0 : k ≠ 0 := by omega
  simp only [hk0, if_false]
  by_cases hb : b.buf.isEmpty
  · have hb' : b.buf = [] := List.isEmpty_iff.mp hb
    simp only [hb, if_true]
    by_cases he : b.err = .none
    · simp only [he, ne_eq, not_true_eq_false, if_false]
      by_cases hbig : bufSize ≤ k
      · simp only [hbig, if_true]
        have sp := Rd.read_spec b.rd k
        have hw := Rd.read_whole b.rd k
        rcases hr : b.rd.read k with ⟨d, e, r'⟩
        rw [hr] at sp hw
        simp only at sp hw ⊢
        refine ⟨by simp [BufRd.bytes, ← sp.bytes, hb'], sp.len, ⟨(fun h => by cases h), (by simp), sp.le.noEmpty hi.ne⟩,
          sp.le, ?_, ?_, ?_⟩
        · intro h
          cases e with
          | true => exact ⟨rfl, by simp [BufRd.bytes, Rd.bytes_nil_of _ (sp.eof rfl)]⟩
          | false => simp at h
        · intro h
          cases e with
          | true => simp at h
          | false => exact sp.progress hi.ne hk rfl
        · intro h1 h2
          cases e with
          | true => simp at h2
          | false =>
            have := hw h1 (sp.progress hi.ne hk rfl)
            simp only [BufRd.nu, hb, if_true, List.isEmpty_nil]
            omega
      · simp only [hbig, if_false]
        have sp := Rd.read_spec b.rd bufSize
        have hw := Rd.read_whole b.rd bufSize
        rcases hr : b.rd.read bufSize with ⟨d, e, r'⟩
        rw [hr] at sp hw
        simp only at sp hw ⊢
        cases d with
        | nil =>
          simp only [List.isEmpty_nil, if_true]
          have he' : e = true := by
            cases e with
            | true => rfl
            | false => exact absurd rfl (sp.progress hi.ne (by simp [bufSize]) rfl)
          subst he'
          have hnil : r'.bytes = [] := Rd.bytes_nil_of _ (sp.eof rfl)
          have hbn : b.bytes = [] := by
            have := sp.bytes
            simp only [List.nil_append] at this
            simp [BufRd.bytes, hb', ← this, hnil]
          refine ⟨(by rw [hbn]; simp [BufRd.bytes, hnil]), Nat.zero_le _, ⟨(fun h => by cases h), (by simp), sp.le.noEmpty hi.ne⟩,
            sp.le, (fun _ => ⟨rfl, by simp [BufRd.bytes, hnil]⟩), (fun h => by simp at h), (fun _ h => by simp at h)⟩
        | cons x xs =>
          simp only [List.isEmpty_cons, Bool.false_eq_true, if_false]
          refine ⟨?_, by rw [List.length_take]; exact Nat.min_le_left _ _, ⟨?_, ?_, sp.le.noEmpty hi.ne⟩, sp.le,
            fun h => absurd rfl h, ?_, ?_⟩
          · simp only [BufRd.bytes, hb', List.nil_append]
            rw [← List.append_assoc, List.take_append_drop, sp.bytes]
          · intro h
            cases e with
            | true => exact sp.eof rfl
            | false => simp at h
          · cases e <;> simp
          · intro _ h0
            have : ((x :: xs).take k).length = 0 := by rw [h0]; rfl
            rw [List.length_take, List.length_cons] at this
            omega
          · intro h1 _
            rw [List.length_take] at h1
            have hlt : (x :: xs).length < k := by omega
            have hd : (x :: xs).drop k = [] := List.drop_eq_nil_of_le (by omega)
            have := hw (by simp only [bufSize] at hbig ⊢; omega) (by simp)
            simp only [BufRd.nu, hd, hb, List.isEmpty_nil, if_true]
            omega
    · have he' : b.err = .eof := by
        cases h : b.err with
        | none => exact absurd h he
        | eof => rfl
        | noProgress => exact absurd h hi.np
      simp only [he', ne_eq, reduceCtorEq, not_false_eq_true, if_true]
      have hnil : b.rd.bytes = [] := Rd.bytes_nil_of _ (hi.eof he')
      refine ⟨by simp [BufRd.bytes], Nat.zero_le _, ⟨(fun h => by cases h), (by simp), hi.ne⟩, Rd.Le.refl _,
        (fun _ => ⟨rfl, by simp [BufRd.bytes, hb', hnil]⟩), (fun h => by cases h), (fun _ h => by cases h)⟩
  · simp only [hb, Bool.false_eq_true, if_false]
    have hb' : b.buf ≠ [] := fun h => hb (by simp [h])
    refine ⟨?_, by rw [List.length_take]; exact Nat.min_le_left _ _, ⟨hi.eof, hi.np, hi.ne⟩, Rd.Le.refl _,
      fun h => absurd rfl h, ?_, ?_⟩
    · simp only [BufRd.bytes]
      rw [← List.append_assoc, List.take_append_drop]
    · intro _ h0
      have : (b.buf.take k).length = 0 := by rw [h0]; rfl
      rw [List.length_take] at this
      have := List.length_pos_iff.mpr hb'
      omega
    · intro h1 _
      rw [List.length_take] at h1
      have hd : b.buf.drop k = [] := List.drop_eq_nil_of_le (by omega)
      have hbe : b.buf.isEmpty = false := by simpa using hb
      simp only [BufRd.nu, hd, hbe, List.isEmpty_nil, if_true, Bool.false_eq_true, if_false]
      omega

theorem readFullBufAux_zero (f : Nat) (b : BufRd) (acc : Bytes) : readFullBufAux f b 0 acc = (acc, b) := by
  cases f <;> simp [readFullBufAux]

/-- `io.ReadFull` on a `bufio.Reader` returns the next `need` bytes of what is left (fewer only if the
stream ends), whatever the deliveries and whatever is buffered -/
theorem readFullBufAux_spec (f : Nat) (b : BufRd) (need : Nat) (acc : Bytes) (hi : b.Inv) (hf : b.nu < f) :
    (readFullBufAux f b need acc).1 = acc ++ b.bytes.take need ∧
    (readFullBufAux f b need acc).2.bytes = b.bytes.drop need ∧
    (readFullBufAux f b need acc).2.Inv ∧ (readFullBufAux f b need acc).2.rd.Le b.rd := by
  induction f generalizing b need acc with
  | zero => omega
  | succ f ih =>
    by_cases hn : need = 0
    · subst hn
      rw [readFullBufAux_zero]
      simp [hi, Rd.Le.refl]
    · have sp := BufRd.read_spec b need hi (by omega)
      unfold readFullBufAux
      simp only [hn, if_false]
      rcases hr : b.read need with ⟨d, err, b'⟩
      rw [hr] at sp
      simp only at sp ⊢
      by_cases he : err = .none
      · subst he
        simp only [ne_eq, not_true_eq_false, if_false]
        by_cases hd : d.length = need
        · rw [hd, Nat.sub_self, readFullBufAux_zero]
          refine ⟨?_, ?_, sp.inv, ?_⟩
          · rw [← sp.bytes, ← hd, List.take_left']; rfl
          · show b'.bytes = _
            rw [← sp.bytes, ← hd, List.drop_left']; rfl
          · exact sp.le
        · have hlt : d.length < need := Nat.lt_of_le_of_ne sp.len hd
          have hnu := sp.short hlt rfl
          obtain ⟨i1, i2, i3, i4⟩ := ih b' (need - d.length) (acc ++ d) sp.inv (by omega)
          refine ⟨?_, ?_, i3, i4.trans sp.le⟩
          · rw [i1, ← sp.bytes, List.take_append, List.take_of_length_le sp.len, List.append_assoc]
          · rw [i2, ← sp.bytes, List.drop_append, List.drop_of_length_le sp.len, List.nil_append]
      · simp only [ne_eq, he, not_false_eq_true, if_true]
        obtain ⟨_, hnil⟩ := sp.fail he
        have hbd : b.bytes = d := by rw [← sp.bytes, hnil, List.append_nil]
        refine ⟨?_, ?_, sp.inv, ?_⟩
        · rw [hbd, List.take_of_length_le sp.len]
        · rw [hnil, hbd, List.drop_of_length_le sp.len]
        · exact sp.le

theorem BufRd.nu_le (b : BufRd) : b.nu ≤ b.rd.parts + 1 := by
  unfold BufRd.nu; split <;> omega

/-- `io.ReadFull(br, buf[:k])` on a `bufio.Reader`: the next `k` bytes of what is left -/
theorem readFullBuf_spec (f : Nat) (b : BufRd) (k : Nat) (hi : b.Inv) (hf : b.rd.parts + 1 < f) :
    (readFullBuf f b k).1 = b.bytes.take k ∧ (readFullBuf f b k).2.bytes = b.bytes.drop k ∧
    (readFullBuf f b k).2.Inv ∧ (readFullBuf f b k).2.rd.Le b.rd := by
  have := readFullBufAux_spec f b k [] hi (Nat.lt_of_le_of_lt b.nu_le hf)
  simpa [readFullBuf] using this

/-- `br.Read(next[:1])` (how `NewPLYHeaderRead` consumes the header): the next byte of what is left, or
nothing together with `io.EOF` exactly when nothing is left -/
theorem BufRd.read_one (b : BufRd) (hi : b.Inv) :
    ((b.read 1).1 = b.bytes.take 1) ∧ (b.read 1).2.2.bytes = b.bytes.drop 1 ∧ (b.read 1).2.2.Inv ∧
    ((b.read 1).1 = [] ↔ b.bytes = []) := by
  have sp := BufRd.read_spec b 1 hi (by omega)
  rcases hr : b.read 1 with ⟨d, err, b'⟩
  rw [hr] at sp
  simp only at sp ⊢
  by_cases he : err = .none
  · have hd : d.length = 1 := by
      have h1 := sp.len
      have h2 := List.length_pos_iff.mpr (sp.progress he)
      omega
    refine ⟨?_, ?_, sp.inv, ?_⟩
    · rw [← sp.bytes, ← hd, List.take_left']; rfl
    · rw [← sp.bytes, ← hd, List.drop_left']; rfl
    · constructor
      · intro h; rw [h] at hd; simp at hd
      · intro h
        have := sp.bytes
        rw [h] at this
        exact (List.append_eq_nil_iff.mp this).1
  · obtain ⟨_, hnil⟩ := sp.fail he
    have hbd : b.bytes = d := by rw [← sp.bytes, hnil, List.append_nil]
    refine ⟨?_, ?_, sp.inv, by rw [hbd]⟩
    · rw [hbd, List.take_of_length_le sp.len]
    · rw [hnil, hbd, List.drop_of_length_le sp.len]

end M3d.Codec.Stream
