import M3d.Lemmas.MeshCoherent
/-! Queries on a coherent mesh equal the same queries answered from the bare face set. Core-only. -/
namespace M3d.Mesh
open M3d.FastMap
set_option linter.unusedSectionVars false
variable (h : Nat → UInt64) (tri : Nat → Tri)

theorem find_perm_spec {m : Mesh} (c : Coherent h tri m) (p : Nat) (rest : List Nat) :
    (m.find h tri (p :: rest)).2.Perm (specFind tri m.faces (p :: rest)) := by
  obtain ⟨_, _, ok⟩ := coherent_withIndex h tri c
  unfold Mesh.find
  simp only
  have h1 := ((ok.2 p).1).filter (fun f => rest.all fun q => decide (q ∈ triVerts (tri f)))
  refine h1.trans ?_
  unfold facesAt specFind
  rw [List.filter_filter]
  apply List.Perm.of_eq
  apply List.filter_congr
  intro f _
  simp only [List.all_cons]
  have := mem_uniqueVerts (tri f) p
  by_cases e : p ∈ triVerts (tri f)
  · simp [e, this.2 e, Bool.and_comm]
  · have e' : p ∉ uniqueVerts (tri f) := fun x => e (this.1 x)
    simp [e, e']

theorem vertexSlice_spec {m : Mesh} (c : Coherent h tri m) :
    (m.vertexSlice h tri).2.Nodup ∧
      ∀ p, p ∈ (m.vertexSlice h tri).2 ↔ p ∈ specVertices tri m.faces := by
  obtain ⟨_, _, ok⟩ := coherent_withIndex h tri c
  unfold Mesh.vertexSlice
  simp only
  refine ⟨nodup_keys ok.1, fun p => ?_⟩
  rw [mem_keys_iff ok.1]
  unfold specVertices
  rw [List.mem_eraseDups, List.mem_flatMap]
  have hp := ok.2 p
  constructor
  · intro hs
    cases hl : load h (m.withIndex h tri).2 p with
    | none => simp [hl] at hs
    | some l =>
      have hne : l ≠ [] := fun e => hp.2 (by rw [hl, e])
      obtain ⟨g, hg⟩ := List.exists_mem_of_ne_nil l hne
      have : g ∈ facesAt tri m.faces p := (by simpa [hl] using hp.1.mem_iff.1 (by simpa [hl] using hg))
      unfold facesAt at this
      simp at this
      exact ⟨g, this.1, (mem_uniqueVerts _ _).1 this.2⟩
  · rintro ⟨g, hg, hpg⟩
    have : g ∈ facesAt tri m.faces p := by
      unfold facesAt; simp [hg, (mem_uniqueVerts _ _).2 hpg]
    have hmem := hp.1.mem_iff.2 this
    cases hl : load h (m.withIndex h tri).2 p with
    | none => simp [hl] at hmem
    | some l => simp

/-- How many times face `g` is listed under vertex `p` in a coherent index. -/
theorem count_slice {faces : List Nat} {ix : FM Nat (List Nat)} (ok : IndexOk h tri faces ix)
    (hn : faces.Nodup) (g p : Nat) :
    ((load h ix p).getD []).count g = if g ∈ faces ∧ p ∈ uniqueVerts (tri g) then 1 else 0 := by
  rw [(ok.2 p).1.count_eq]
  unfold facesAt
  by_cases e : p ∈ uniqueVerts (tri g)
  · rw [List.count_filter (by simp [e]), hn.count]
    simp [e]
  · rw [List.count_eq_zero_of_not_mem (by simp [List.mem_filter, e])]
    simp [e]

/-- `Neighbors(f)` lists exactly the faces of the bare face set, other than `f`, that share at
least two corner slots of `f`. -/
theorem neighbors_spec {m : Mesh} (c : Coherent h tri m) (f g : Nat) :
    g ∈ (m.neighbors h tri f).2 ↔ g ∈ specNeighbors tri m.faces f := by
  obtain ⟨_, _, ok⟩ := coherent_withIndex h tri c
  have hn := c.1
  unfold Mesh.neighbors specNeighbors
  simp only
  rw [List.mem_filter, List.mem_eraseDups, List.mem_filter]
  -- the number of hits of g
  have hcount : ∀ (ps : List Nat),
      (ps.flatMap fun p => ((load h (m.withIndex h tri).2 p).getD []).filter (· ≠ f)).count g =
      if g = f then 0 else
        (ps.map fun p => if g ∈ m.faces ∧ p ∈ uniqueVerts (tri g) then 1 else 0).sum := by
    intro ps
    rw [List.count_flatMap]
    by_cases e : g = f
    · subst e
      simp only [if_true]
      induction ps with
      | nil => simp
      | cons p ps ih =>
        simp only [List.map_cons, List.sum_cons, Function.comp]
        rw [List.count_eq_zero_of_not_mem (by simp [List.mem_filter])]
        simpa using ih
    · simp only [e, if_false]
      congr 1
      apply List.map_congr_left
      intro p _
      simp only [Function.comp]
      rw [List.count_filter (by simp [e]), count_slice h tri ok hn]
  set_option maxRecDepth 2000 in
  constructor
  · rintro ⟨hmem, hc⟩
    have hc' : (List.count g ((triVerts (tri f)).flatMap fun p =>
        ((load h (m.withIndex h tri).2 p).getD []).filter (· ≠ f))) > 1 := by simpa using hc
    rw [hcount] at hc'
    by_cases e : g = f
    · simp [e] at hc'
    · simp only [e, if_false] at hc'
      by_cases hg : g ∈ m.faces
      · refine ⟨hg, ?_⟩
        simp only [hg, true_and] at hc'
        simp [e]
        exact hc'
      · simp [hg, triVerts] at hc'
  · rintro ⟨hg, hc⟩
    have hc' : g ≠ f ∧ ((triVerts (tri f)).map fun p => if p ∈ uniqueVerts (tri g) then 1 else 0).sum > 1 := by
      simpa using hc
    have hcnt := hcount (triVerts (tri f))
    simp only [hc'.1, if_false, hg, true_and] at hcnt
    refine ⟨?_, ?_⟩
    · rw [← List.count_pos_iff, hcnt]; omega
    · simp only [decide_eq_true_eq]
      rw [hcnt]; exact hc'.2

end M3d.Mesh
