import M3d.Lemmas.Box
/-!
# The slab test is EXACT on non-empty boxes, hence independent of the length of the direction

`M3d/Lemmas/Box.lean` proves that `rayCollisionWithBounds` never rejects a ray that meets the box
(`slabLoop_sound`).  Here the converse: on a box with `min ≤ max` on every axis, every parameter inside
the returned interval `[minFrac, maxFrac]` has its ray point in the box (`slabLoop_complete`; the miss
value `(0,-1)` is an empty interval).  Hence

* `rayAdmits (rayBounds o d b) = true ↔ ∃ t ≥ 0, o + t·d ∈ b`   (`rayAdmits_iff3/2`),
* `segAdmits (rayBounds o d b) = true ↔ ∃ t, 0 ≤ t ≤ 1, o + t·d ∈ b`   (`segAdmits_iff3/2`),

for EVERY direction `d` (zero, tiny, huge, mixed components) — in particular the decision is the same
for `d` and `s·d`, `s > 0` (`rayAdmits_scale3/2`): a `Ray`'s direction need not be a unit vector.
-/
namespace M3d.Box

set_option linter.unusedSectionVars false
set_option linter.unusedSimpArgs false

variable {K : Type} [Field K] [LinearOrder K] [IsStrictOrderedRing K]

/-- The miss value `(0,-1)` of `rayCollisionWithBounds` is an empty interval. -/
theorem slabMiss_empty (t : K) (h1 : LowerOK (slabMiss (α := K)).1 t) (h2 : UpperOK (slabMiss (α := K)).2 t) :
    False := by
  have a := h1 0 rfl
  have b := h2 (-1) rfl
  linarith

/-- On an axis with non-zero rate and `lo ≤ hi`, a parameter between the two crossing parameters
(ordered as the Go code orders them) has its point inside the slab. -/
theorem ax_holds_of_between (a : Ax K) (hd : a.d ≠ 0) (hne : a.lo ≤ a.hi) (t : K)
    (k1 : (if (a.hi - a.o) / a.d < (a.lo - a.o) / a.d then (a.hi - a.o) / a.d else (a.lo - a.o) / a.d) ≤ t)
    (k2 : t ≤ (if (a.hi - a.o) / a.d < (a.lo - a.o) / a.d then (a.lo - a.o) / a.d else (a.hi - a.o) / a.d)) :
    a.Holds t := by
  have e1 : (a.lo - a.o) / a.d * a.d = a.lo - a.o := div_mul_cancel₀ _ hd
  have e2 : (a.hi - a.o) / a.d * a.d = a.hi - a.o := div_mul_cancel₀ _ hd
  generalize (a.lo - a.o) / a.d = t1 at k1 k2 e1
  generalize (a.hi - a.o) / a.d = t2 at k1 k2 e2
  unfold Ax.Holds
  rcases lt_or_gt_of_ne hd with hneg | hpos
  · -- negative rate: t2 ≤ t1
    split_ifs at k1 k2 with hlt
    · have m1 := mul_le_mul_of_nonpos_right k1 hneg.le
      have m2 := mul_le_mul_of_nonpos_right k2 hneg.le
      constructor <;> linarith
    · have hle : t1 ≤ t2 := not_lt.mp hlt
      have m1 := mul_le_mul_of_nonpos_right k1 hneg.le
      have m2 := mul_le_mul_of_nonpos_right k2 hneg.le
      constructor <;> linarith
  · -- positive rate: t1 ≤ t2
    split_ifs at k1 k2 with hlt
    · have m0 := mul_lt_mul_of_pos_right hlt hpos
      exfalso; linarith
    · have m1 := mul_le_mul_of_nonneg_right k1 hpos.le
      have m2 := mul_le_mul_of_nonneg_right k2 hpos.le
      constructor <;> linarith

/-- One step of `minFrac = math.Max(minFrac, s1)` (`none` = `-∞`). -/
theorem lower_step (mn : Option K) (s1 t : K)
    (h : LowerOK (match mn with
      | none => some s1
      | some m => if m < s1 then some s1 else some m) t) : s1 ≤ t ∧ LowerOK mn t := by
  cases mn with
  | none => exact ⟨h _ rfl, by intro m hm; cases hm⟩
  | some m0 =>
      dsimp only at h
      by_cases hc : m0 < s1
      · simp only [hc, if_true] at h
        have := h _ rfl
        refine ⟨this, ?_⟩
        intro m hm
        simp only [Option.some.injEq] at hm
        subst hm
        linarith
      · simp only [hc, if_false] at h
        have := h _ rfl
        have hc' := not_lt.mp hc
        refine ⟨by linarith, ?_⟩
        intro m hm
        simp only [Option.some.injEq] at hm
        subst hm
        exact this

/-- One step of `maxFrac = math.Min(maxFrac, s2)` (`none` = `+∞`). -/
theorem upper_step (mx : Option K) (s2 t : K)
    (h : UpperOK (match mx with
      | none => some s2
      | some m => if s2 < m then some s2 else some m) t) : t ≤ s2 ∧ UpperOK mx t := by
  cases mx with
  | none => exact ⟨h _ rfl, by intro m hm; cases hm⟩
  | some m0 =>
      dsimp only at h
      by_cases hc : s2 < m0
      · simp only [hc, if_true] at h
        have := h _ rfl
        refine ⟨this, ?_⟩
        intro m hm
        simp only [Option.some.injEq] at hm
        subst hm
        linarith
      · simp only [hc, if_false] at h
        have := h _ rfl
        have hc' := not_lt.mp hc
        refine ⟨by linarith, ?_⟩
        intro m hm
        simp only [Option.some.injEq] at hm
        subst hm
        exact this

/-- **Completeness of the slab loop** (invariant form): on axes with `lo ≤ hi`, every parameter inside the
returned interval has its point inside every slab and lies inside the interval accumulated before. -/
theorem slabLoop_complete (t : K) :
    ∀ (axes : List (Ax K)) (mn mx : Option K), (∀ a ∈ axes, a.lo ≤ a.hi) →
      LowerOK (slabLoop axes mn mx).1 t → UpperOK (slabLoop axes mn mx).2 t →
      (∀ a ∈ axes, a.Holds t) ∧ LowerOK mn t ∧ UpperOK mx t
  | [], mn, mx, _, h1, h2 => ⟨by intro a ha; simp at ha, h1, h2⟩
  | a :: as, mn, mx, hne, h1, h2 => by
      have hnea : a.lo ≤ a.hi := hne a (by simp)
      have hneas : ∀ a' ∈ as, a'.lo ≤ a'.hi := fun a' h => hne a' (by simp [h])
      unfold slabLoop at h1 h2
      by_cases hd : a.d = 0
      · simp only [hd, if_true] at h1 h2
        by_cases hout : a.o < a.lo ∨ a.hi < a.o
        · simp only [hout, if_true] at h1 h2
          exact (slabMiss_empty t h1 h2).elim
        · simp only [hout, if_false] at h1 h2
          obtain ⟨ih, i1, i2⟩ := slabLoop_complete t as mn mx hneas h1 h2
          refine ⟨?_, i1, i2⟩
          intro a' ha'
          simp only [List.mem_cons] at ha'
          rcases ha' with rfl | ha'
          · have h3 : ¬ a'.o < a'.lo := fun h => hout (Or.inl h)
            have h4 : ¬ a'.hi < a'.o := fun h => hout (Or.inr h)
            unfold Ax.Holds
            rw [hd]
            constructor <;> linarith
          · exact ih a' ha'
      · simp only [hd, if_false] at h1 h2
        by_cases hs2 : (if (a.hi - a.o) / a.d < (a.lo - a.o) / a.d then (a.lo - a.o) / a.d else (a.hi - a.o) / a.d) < 0
        · simp only [hs2, if_true] at h1 h2
          exact (slabMiss_empty t h1 h2).elim
        · simp only [hs2, if_false] at h1 h2
          obtain ⟨ih, i1, i2⟩ := slabLoop_complete t as _ _ hneas h1 h2
          -- the accumulated interval was intersected with [s1, s2]
          have k1 := lower_step mn _ t i1
          have k2 := upper_step mx _ t i2
          refine ⟨?_, k1.2, k2.2⟩
          intro a' ha'
          simp only [List.mem_cons] at ha'
          rcases ha' with rfl | ha'
          · exact ax_holds_of_between a' hd hnea t k1.1 k2.1
          · exact ih a' ha'

/-- An admitted interval contains a parameter `t ≥ 0`. -/
theorem bracket_of_rayAdmits (r : Option K × Option K) (h : rayAdmits r = true) :
    ∃ t, 0 ≤ t ∧ LowerOK r.1 t ∧ UpperOK r.2 t := by
  obtain ⟨mn, mx⟩ := r
  refine ⟨max (mn.getD 0) 0, le_max_right _ _, ?_, ?_⟩
  · intro m hm
    simp only at hm
    subst hm
    exact le_max_left _ _
  · intro M hM
    simp only at hM
    subst hM
    cases mn with
    | none =>
        simp only [rayAdmits, Bool.true_and, decide_eq_true_eq] at h
        simpa using h
    | some m =>
        simp only [rayAdmits, Bool.and_eq_true, decide_eq_true_eq] at h
        exact max_le h.1 h.2

/-- An interval admitted by the segment test contains a parameter `0 ≤ t ≤ 1`. -/
theorem bracket_of_segAdmits (r : Option K × Option K) (h : segAdmits r = true) :
    ∃ t, 0 ≤ t ∧ t ≤ 1 ∧ LowerOK r.1 t ∧ UpperOK r.2 t := by
  obtain ⟨mn, mx⟩ := r
  have hmn : ∀ m, mn = some m → m ≤ 1 := by
    intro m hm
    subst hm
    cases mx <;>
      simp only [segAdmits, Bool.not_eq_true', Bool.or_eq_false_iff, Bool.false_or, decide_eq_false_iff_not,
        not_lt] at h
    · exact h
    · exact h.2
  refine ⟨max (mn.getD 0) 0, le_max_right _ _, ?_, ?_, ?_⟩
  · cases mn with
    | none => simp
    | some m => exact max_le (hmn m rfl) zero_le_one
  · intro m hm
    simp only at hm
    subst hm
    exact le_max_left _ _
  · intro M hM
    simp only at hM
    subst hM
    cases mn with
    | none =>
        simp only [segAdmits, Bool.not_eq_true', Bool.false_or, Bool.or_false,
          decide_eq_false_iff_not, not_lt] at h
        simpa using h
    | some m =>
        simp only [segAdmits, Bool.not_eq_true', Bool.or_eq_false_iff, decide_eq_false_iff_not, not_lt] at h
        exact max_le h.1.1 h.1.2

/-- `min ≤ max` on every axis (what `Bounder` promises; a box with `min > max` on an axis has no points). -/
def Box3.NonEmpty (b : Box3 K) : Prop := b.min.x ≤ b.max.x ∧ b.min.y ≤ b.max.y ∧ b.min.z ≤ b.max.z
def Box2.NonEmpty (b : Box2 K) : Prop := b.min.x ≤ b.max.x ∧ b.min.y ≤ b.max.y

theorem contains_of_holds3 (o d : V3 K) (b : Box3 K) (t : K)
    (h : ∀ a ∈ [(⟨o.x, d.x, b.min.x, b.max.x⟩ : Ax K), ⟨o.y, d.y, b.min.y, b.max.y⟩, ⟨o.z, d.z, b.min.z, b.max.z⟩],
      a.Holds t) : b.Contains (o.along d t) := by
  have hx := h ⟨o.x, d.x, b.min.x, b.max.x⟩ (by simp)
  have hy := h ⟨o.y, d.y, b.min.y, b.max.y⟩ (by simp)
  have hz := h ⟨o.z, d.z, b.min.z, b.max.z⟩ (by simp)
  exact ⟨hx, hy, hz⟩

theorem contains_of_holds2 (o d : V2 K) (b : Box2 K) (t : K)
    (h : ∀ a ∈ [(⟨o.x, d.x, b.min.x, b.max.x⟩ : Ax K), ⟨o.y, d.y, b.min.y, b.max.y⟩], a.Holds t) :
    b.Contains (o.along d t) := by
  have hx := h ⟨o.x, d.x, b.min.x, b.max.x⟩ (by simp)
  have hy := h ⟨o.y, d.y, b.min.y, b.max.y⟩ (by simp)
  exact ⟨hx, hy⟩

theorem axes_ne3 (o d : V3 K) (b : Box3 K) (hb : b.NonEmpty) :
    ∀ a ∈ [(⟨o.x, d.x, b.min.x, b.max.x⟩ : Ax K), ⟨o.y, d.y, b.min.y, b.max.y⟩, ⟨o.z, d.z, b.min.z, b.max.z⟩],
      a.lo ≤ a.hi := by
  intro a ha
  simp only [List.mem_cons, List.not_mem_nil, or_false] at ha
  rcases ha with rfl | rfl | rfl
  · exact hb.1
  · exact hb.2.1
  · exact hb.2.2

theorem axes_ne2 (o d : V2 K) (b : Box2 K) (hb : b.NonEmpty) :
    ∀ a ∈ [(⟨o.x, d.x, b.min.x, b.max.x⟩ : Ax K), ⟨o.y, d.y, b.min.y, b.max.y⟩], a.lo ≤ a.hi := by
  intro a ha
  simp only [List.mem_cons, List.not_mem_nil, or_false] at ha
  rcases ha with rfl | rfl
  · exact hb.1
  · exact hb.2

/-- **The slab test decides exactly "the ray meets the box"** (3D, non-empty box, every direction). -/
theorem rayAdmits_iff3 (o d : V3 K) (b : Box3 K) (hb : b.NonEmpty) :
    rayAdmits (rayBounds3 o d b) = true ↔ ∃ t, 0 ≤ t ∧ b.Contains (o.along d t) := by
  constructor
  · intro h
    obtain ⟨t, ht, l, u⟩ := bracket_of_rayAdmits _ h
    exact ⟨t, ht, contains_of_holds3 o d b t (slabLoop_complete t _ none none (axes_ne3 o d b hb) l u).1⟩
  · rintro ⟨t, ht, h⟩
    exact rayAdmits_sound3 o d b t ht h

theorem rayAdmits_iff2 (o d : V2 K) (b : Box2 K) (hb : b.NonEmpty) :
    rayAdmits (rayBounds2 o d b) = true ↔ ∃ t, 0 ≤ t ∧ b.Contains (o.along d t) := by
  constructor
  · intro h
    obtain ⟨t, ht, l, u⟩ := bracket_of_rayAdmits _ h
    exact ⟨t, ht, contains_of_holds2 o d b t (slabLoop_complete t _ none none (axes_ne2 o d b hb) l u).1⟩
  · rintro ⟨t, ht, h⟩
    exact rayAdmits_sound2 o d b t ht h

/-- **The segment test decides exactly "the segment `o … o+d` meets the box"**. -/
theorem segAdmits_iff3 (o d : V3 K) (b : Box3 K) (hb : b.NonEmpty) :
    segAdmits (rayBounds3 o d b) = true ↔ ∃ t, 0 ≤ t ∧ t ≤ 1 ∧ b.Contains (o.along d t) := by
  constructor
  · intro h
    obtain ⟨t, ht, ht1, l, u⟩ := bracket_of_segAdmits _ h
    exact ⟨t, ht, ht1, contains_of_holds3 o d b t (slabLoop_complete t _ none none (axes_ne3 o d b hb) l u).1⟩
  · rintro ⟨t, ht, ht1, h⟩
    exact segAdmits_sound3 o d b t ht ht1 h

theorem segAdmits_iff2 (o d : V2 K) (b : Box2 K) (hb : b.NonEmpty) :
    segAdmits (rayBounds2 o d b) = true ↔ ∃ t, 0 ≤ t ∧ t ≤ 1 ∧ b.Contains (o.along d t) := by
  constructor
  · intro h
    obtain ⟨t, ht, ht1, l, u⟩ := bracket_of_segAdmits _ h
    exact ⟨t, ht, ht1, contains_of_holds2 o d b t (slabLoop_complete t _ none none (axes_ne2 o d b hb) l u).1⟩
  · rintro ⟨t, ht, ht1, h⟩
    exact segAdmits_sound2 o d b t ht ht1 h

/-- `s·d`. -/
def V3.smul (s : K) (d : V3 K) : V3 K := ⟨s * d.x, s * d.y, s * d.z⟩
def V2.smul (s : K) (d : V2 K) : V2 K := ⟨s * d.x, s * d.y⟩

theorem along_smul3 (o d : V3 K) (s t : K) : o.along (V3.smul s d) t = o.along d (s * t) := by
  simp only [V3.along, V3.smul, V3.mk.injEq]
  refine ⟨?_, ?_, ?_⟩ <;> ring

theorem along_smul2 (o d : V2 K) (s t : K) : o.along (V2.smul s d) t = o.along d (s * t) := by
  simp only [V2.along, V2.smul, V2.mk.injEq]
  refine ⟨?_, ?_⟩ <;> ring

/-- **The ray prefilter does not depend on the length of the direction vector.** -/
theorem rayAdmits_scale3 (o d : V3 K) (b : Box3 K) (hb : b.NonEmpty) (s : K) (hs : 0 < s) :
    rayAdmits (rayBounds3 o (V3.smul s d) b) = rayAdmits (rayBounds3 o d b) := by
  rw [Bool.eq_iff_iff, rayAdmits_iff3 o _ b hb, rayAdmits_iff3 o d b hb]
  constructor
  · rintro ⟨t, ht, h⟩
    exact ⟨s * t, mul_nonneg hs.le ht, by rw [← along_smul3]; exact h⟩
  · rintro ⟨t, ht, h⟩
    refine ⟨t / s, div_nonneg ht hs.le, ?_⟩
    rw [along_smul3, mul_div_cancel₀ _ hs.ne']
    exact h

theorem rayAdmits_scale2 (o d : V2 K) (b : Box2 K) (hb : b.NonEmpty) (s : K) (hs : 0 < s) :
    rayAdmits (rayBounds2 o (V2.smul s d) b) = rayAdmits (rayBounds2 o d b) := by
  rw [Bool.eq_iff_iff, rayAdmits_iff2 o _ b hb, rayAdmits_iff2 o d b hb]
  constructor
  · rintro ⟨t, ht, h⟩
    exact ⟨s * t, mul_nonneg hs.le ht, by rw [← along_smul2]; exact h⟩
  · rintro ⟨t, ht, h⟩
    refine ⟨t / s, div_nonneg ht hs.le, ?_⟩
    rw [along_smul2, mul_div_cancel₀ _ hs.ne']
    exact h

end M3d.Box
