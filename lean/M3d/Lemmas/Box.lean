import M3d.Model.Box
import Mathlib.Algebra.Order.Field.Basic
import Mathlib.Tactic.Linarith
import Mathlib.Tactic.Ring
import Mathlib.Tactic.Positivity
/-!
# Box facts over a linear ordered field

* the squared point-to-box distance is a lower bound of the squared distance to every point of
  the box (`ptBoxDistSq3_le`, `ptBoxDistSq2_le`), and is monotone in the box;
* the union of two boxes contains both (`Box3.sub_union_left/right`, …);
* the slab test never rejects a ray that has a parameter `t ≥ 0` with its point in the box, and its
  interval `[minFrac, maxFrac]` contains every such `t` (`slabLoop_sound`, `rayAdmits_sound3`,
  `segAdmits_sound3`, …) — zero direction components included;
* the sphere/box prefilter accepts whenever the closed ball meets the box, touching included
  (`sphereTouches3_sound`);
* the box-overlap prefilters accept whenever the boxes share a point (`rectAdmits3_sound`, …).
-/
namespace M3d.Box
set_option linter.unusedSectionVars false

variable {K : Type} [Field K] [LinearOrder K] [IsStrictOrderedRing K]

theorem smin_eq_min (a b : K) : smin a b = min a b := by
  unfold smin
  by_cases h : b < a
  · simp [h, min_eq_right (le_of_lt h)]
  · simp [h, min_eq_left (not_lt.1 h)]

theorem smax_eq_max (a b : K) : smax a b = max a b := by
  unfold smax
  by_cases h : a < b
  · simp [h, max_eq_right (le_of_lt h)]
  · simp [h, max_eq_left (not_lt.1 h)]

/-! ### point-to-box distance -/

theorem axDistSq_nonneg (v lo hi : K) : 0 ≤ axDistSq v lo hi := by
  unfold axDistSq
  split
  · exact mul_self_nonneg _
  · split
    · exact mul_self_nonneg _
    · exact le_refl _

theorem axDistSq_le (v lo hi p : K) (h1 : lo ≤ p) (h2 : p ≤ hi) :
    axDistSq v lo hi ≤ (v - p) * (v - p) := by
  unfold axDistSq
  split
  · nlinarith
  · split
    · nlinarith
    · exact mul_self_nonneg _

/-- **`pointToBoundsDistSquared` is a lower bound of the squared distance to every point of the box.** -/
theorem ptBoxDistSq3_le (c p : V3 K) (b : Box3 K) (h : b.Contains p) :
    ptBoxDistSq3 c b ≤ c.sqDist p := by
  obtain ⟨⟨hx1, hx2⟩, ⟨hy1, hy2⟩, hz1, hz2⟩ := h
  have hx := axDistSq_le c.x _ _ _ hx1 hx2
  have hy := axDistSq_le c.y _ _ _ hy1 hy2
  have hz := axDistSq_le c.z _ _ _ hz1 hz2
  simp only [ptBoxDistSq3, V3.sqDist]
  linarith

theorem ptBoxDistSq2_le (c p : V2 K) (b : Box2 K) (h : b.Contains p) :
    ptBoxDistSq2 c b ≤ c.sqDist p := by
  obtain ⟨⟨hx1, hx2⟩, hy1, hy2⟩ := h
  have hx := axDistSq_le c.x _ _ _ hx1 hx2
  have hy := axDistSq_le c.y _ _ _ hy1 hy2
  simp only [ptBoxDistSq2, V2.sqDist]
  linarith

theorem ptBoxDistSq3_nonneg (c : V3 K) (b : Box3 K) : 0 ≤ ptBoxDistSq3 c b := by
  have := axDistSq_nonneg c.x b.min.x b.max.x
  have := axDistSq_nonneg c.y b.min.y b.max.y
  have := axDistSq_nonneg c.z b.min.z b.max.z
  simp only [ptBoxDistSq3]; linarith

theorem ptBoxDistSq2_nonneg (c : V2 K) (b : Box2 K) : 0 ≤ ptBoxDistSq2 c b := by
  have := axDistSq_nonneg c.x b.min.x b.max.x
  have := axDistSq_nonneg c.y b.min.y b.max.y
  simp only [ptBoxDistSq2]; linarith

/-! ### containment, union -/

theorem Box3.Contains.of_sub {a b : Box3 K} {p : V3 K} (h : a.Contains p) (hs : a.Sub b) :
    b.Contains p := by
  obtain ⟨⟨a1, a2⟩, ⟨a3, a4⟩, a5, a6⟩ := h
  obtain ⟨⟨b1, b2⟩, ⟨b3, b4⟩, b5, b6⟩ := hs
  exact ⟨⟨le_trans b1 a1, le_trans a2 b2⟩, ⟨le_trans b3 a3, le_trans a4 b4⟩, le_trans b5 a5, le_trans a6 b6⟩

theorem Box2.Contains.of_sub {a b : Box2 K} {p : V2 K} (h : a.Contains p) (hs : a.Sub b) :
    b.Contains p := by
  obtain ⟨⟨a1, a2⟩, a3, a4⟩ := h
  obtain ⟨⟨b1, b2⟩, b3, b4⟩ := hs
  exact ⟨⟨le_trans b1 a1, le_trans a2 b2⟩, le_trans b3 a3, le_trans a4 b4⟩

theorem Box3.sub_refl (a : Box3 K) : a.Sub a :=
  ⟨⟨le_refl _, le_refl _⟩, ⟨le_refl _, le_refl _⟩, le_refl _, le_refl _⟩
theorem Box2.sub_refl (a : Box2 K) : a.Sub a :=
  ⟨⟨le_refl _, le_refl _⟩, le_refl _, le_refl _⟩

theorem Box3.Sub.trans {a b c : Box3 K} (h1 : a.Sub b) (h2 : b.Sub c) : a.Sub c := by
  obtain ⟨⟨a1, a2⟩, ⟨a3, a4⟩, a5, a6⟩ := h1
  obtain ⟨⟨b1, b2⟩, ⟨b3, b4⟩, b5, b6⟩ := h2
  exact ⟨⟨le_trans b1 a1, le_trans a2 b2⟩, ⟨le_trans b3 a3, le_trans a4 b4⟩, le_trans b5 a5, le_trans a6 b6⟩
theorem Box2.Sub.trans {a b c : Box2 K} (h1 : a.Sub b) (h2 : b.Sub c) : a.Sub c := by
  obtain ⟨⟨a1, a2⟩, a3, a4⟩ := h1
  obtain ⟨⟨b1, b2⟩, b3, b4⟩ := h2
  exact ⟨⟨le_trans b1 a1, le_trans a2 b2⟩, le_trans b3 a3, le_trans a4 b4⟩

/-- **The union of two boxes contains the first.** -/
theorem Box3.sub_union_left (a b : Box3 K) : a.Sub (a.union b) := by
  simp only [Box3.Sub, Box3.union, V3.min, V3.max, smin_eq_min, smax_eq_max]
  exact ⟨⟨min_le_left _ _, le_max_left _ _⟩, ⟨min_le_left _ _, le_max_left _ _⟩, min_le_left _ _, le_max_left _ _⟩
/-- **The union of two boxes contains the second.** -/
theorem Box3.sub_union_right (a b : Box3 K) : b.Sub (a.union b) := by
  simp only [Box3.Sub, Box3.union, V3.min, V3.max, smin_eq_min, smax_eq_max]
  exact ⟨⟨min_le_right _ _, le_max_right _ _⟩, ⟨min_le_right _ _, le_max_right _ _⟩, min_le_right _ _, le_max_right _ _⟩
theorem Box2.sub_union_left (a b : Box2 K) : a.Sub (a.union b) := by
  simp only [Box2.Sub, Box2.union, V2.min, V2.max, smin_eq_min, smax_eq_max]
  exact ⟨⟨min_le_left _ _, le_max_left _ _⟩, min_le_left _ _, le_max_left _ _⟩
theorem Box2.sub_union_right (a b : Box2 K) : b.Sub (a.union b) := by
  simp only [Box2.Sub, Box2.union, V2.min, V2.max, smin_eq_min, smax_eq_max]
  exact ⟨⟨min_le_right _ _, le_max_right _ _⟩, min_le_right _ _, le_max_right _ _⟩

/-! ### sphere / box -/

/-- **Sphere prefilter is sound, touching included**: if some point of the box is within `r`
(squared distance `≤ r²`) of the centre, `sphereTouchesBounds` says yes. -/
theorem sphereTouches3_sound (c p : V3 K) (r : K) (b : Box3 K) (hp : b.Contains p)
    (hd : c.sqDist p ≤ r * r) : sphereTouches3 c r b = true := by
  simp only [sphereTouches3, decide_eq_true_eq]
  exact le_trans (ptBoxDistSq3_le c p b hp) hd

theorem sphereTouches2_sound (c p : V2 K) (r : K) (b : Box2 K) (hp : b.Contains p)
    (hd : c.sqDist p ≤ r * r) : sphereTouches2 c r b = true := by
  simp only [sphereTouches2, decide_eq_true_eq]
  exact le_trans (ptBoxDistSq2_le c p b hp) hd

/-! ### box / box -/

theorem rectAdmits3_sound (r b : Box3 K) (p : V3 K) (h1 : r.Contains p) (h2 : b.Contains p) :
    rectAdmits3 r b = true := by
  obtain ⟨⟨a1, a2⟩, ⟨a3, a4⟩, a5, a6⟩ := h1
  obtain ⟨⟨b1, b2⟩, ⟨b3, b4⟩, b5, b6⟩ := h2
  simp only [rectAdmits3, V3.min, V3.max, smin_eq_min, smax_eq_max, decide_eq_true_eq, V3.mk.injEq]
  refine ⟨min_eq_left ?_, min_eq_left ?_, min_eq_left ?_⟩
  · exact le_trans (max_le a1 b1) (le_min a2 b2)
  · exact le_trans (max_le a3 b3) (le_min a4 b4)
  · exact le_trans (max_le a5 b5) (le_min a6 b6)

theorem rectAdmits2_sound (r b : Box2 K) (p : V2 K) (h1 : r.Contains p) (h2 : b.Contains p) :
    rectAdmits2 r b = true := by
  obtain ⟨⟨a1, a2⟩, a3, a4⟩ := h1
  obtain ⟨⟨b1, b2⟩, b3, b4⟩ := h2
  simp only [rectAdmits2, V2.min, V2.max, smin_eq_min, smax_eq_max, decide_eq_true_eq, V2.mk.injEq]
  refine ⟨min_eq_left ?_, min_eq_left ?_⟩
  · exact le_trans (max_le a1 b1) (le_min a2 b2)
  · exact le_trans (max_le a3 b3) (le_min a4 b4)

theorem triAdmits3_sound (t b : Box3 K) (p : V3 K) (h1 : t.Contains p) (h2 : b.Contains p) :
    triAdmits3 t b = true := by
  obtain ⟨⟨a1, a2⟩, ⟨a3, a4⟩, a5, a6⟩ := h1
  obtain ⟨⟨b1, b2⟩, ⟨b3, b4⟩, b5, b6⟩ := h2
  have hx := le_trans (max_le a1 b1) (le_min a2 b2)
  have hy := le_trans (max_le a3 b3) (le_min a4 b4)
  have hz := le_trans (max_le a5 b5) (le_min a6 b6)
  simp only [triAdmits3, V3.min, V3.max, smin_eq_min, smax_eq_max, Bool.not_eq_true', Bool.or_eq_false_iff,
    decide_eq_false_iff_not, not_lt]
  exact ⟨⟨hx, hy⟩, hz⟩

/-! ### the slab test -/

/-- `mn ≤ t` where `none` is `-∞`. -/
def LowerOK (mn : Option K) (t : K) : Prop := ∀ m, mn = some m → m ≤ t
/-- `t ≤ mx` where `none` is `+∞`. -/
def UpperOK (mx : Option K) (t : K) : Prop := ∀ m, mx = some m → t ≤ m

/-- `t` is a parameter whose ray point lies within the interval of this axis. -/
def Ax.Holds (a : Ax K) (t : K) : Prop := a.lo ≤ a.o + a.d * t ∧ a.o + a.d * t ≤ a.hi

/-- **Soundness of the slab loop** (invariant form): every parameter `t ≥ 0` whose point lies in
the box on all remaining axes and within the interval accumulated so far stays within the
returned interval — in particular the loop does not return the miss value `(0,-1)`. -/
theorem slabLoop_sound (t : K) (ht : 0 ≤ t) :
    ∀ (axes : List (Ax K)) (mn mx : Option K), (∀ a ∈ axes, a.Holds t) →
      LowerOK mn t → UpperOK mx t →
      LowerOK (slabLoop axes mn mx).1 t ∧ UpperOK (slabLoop axes mn mx).2 t
  | [], mn, mx, _, h1, h2 => ⟨h1, h2⟩
  | a :: as, mn, mx, hax, h1, h2 => by
      have ha : a.Holds t := hax a (by simp)
      have has : ∀ a' ∈ as, a'.Holds t := fun a' h => hax a' (by simp [h])
      obtain ⟨hlo, hhi⟩ := ha
      unfold slabLoop
      by_cases hd : a.d = 0
      · simp only [hd, if_true]
        rw [hd] at hlo hhi
        have h3 : ¬ (a.o < a.lo ∨ a.hi < a.o) := by
          intro h; rcases h with h | h <;> linarith
        simp only [h3, if_false]
        exact slabLoop_sound t ht as mn mx has h1 h2
      · simp only [hd, if_false]
        -- the two crossing parameters bracket t
        have key : (if (a.hi - a.o) / a.d < (a.lo - a.o) / a.d then (a.hi - a.o) / a.d else (a.lo - a.o) / a.d) ≤ t ∧
            t ≤ (if (a.hi - a.o) / a.d < (a.lo - a.o) / a.d then (a.lo - a.o) / a.d else (a.hi - a.o) / a.d) := by
          rcases lt_or_gt_of_ne hd with hneg | hpos
          · have e1 : t ≤ (a.lo - a.o) / a.d := by
              rw [le_div_iff_of_neg hneg]; linarith
            have e2 : (a.hi - a.o) / a.d ≤ t := by
              rw [div_le_iff_of_neg hneg]; linarith
            split <;> constructor <;> linarith
          · have e1 : (a.lo - a.o) / a.d ≤ t := by
              rw [div_le_iff₀ hpos]; linarith
            have e2 : t ≤ (a.hi - a.o) / a.d := by
              rw [le_div_iff₀ hpos]; linarith
            split <;> constructor <;> linarith
        obtain ⟨k1, k2⟩ := key
        generalize (if (a.hi - a.o) / a.d < (a.lo - a.o) / a.d then (a.hi - a.o) / a.d else (a.lo - a.o) / a.d) = s1 at k1 ⊢
        generalize (if (a.hi - a.o) / a.d < (a.lo - a.o) / a.d then (a.lo - a.o) / a.d else (a.hi - a.o) / a.d) = s2 at k2 ⊢
        have h4 : ¬ (s2 < 0) := by intro h; linarith
        simp only [h4, if_false]
        apply slabLoop_sound t ht as _ _ has
        · intro m hm
          cases mn with
          | none => simp only [Option.some.injEq] at hm; rw [← hm]; exact k1
          | some m0 =>
              have := h1 m0 rfl
              dsimp only at hm
              split_ifs at hm <;> simp only [Option.some.injEq] at hm <;> rw [← hm] <;> assumption
        · intro m hm
          cases mx with
          | none => simp only [Option.some.injEq] at hm; rw [← hm]; exact k2
          | some m0 =>
              have := h2 m0 rfl
              dsimp only at hm
              split_ifs at hm <;> simp only [Option.some.injEq] at hm <;> rw [← hm] <;> assumption

theorem rayAdmits_of_bracket (r : Option K × Option K) (t : K) (ht : 0 ≤ t)
    (h1 : LowerOK r.1 t) (h2 : UpperOK r.2 t) : rayAdmits r = true := by
  obtain ⟨mn, mx⟩ := r
  cases mx with
  | none => simp [rayAdmits]
  | some mx =>
      have hmx := h2 mx rfl
      cases mn with
      | none => simp only [rayAdmits, Bool.true_and, decide_eq_true_eq]; linarith
      | some mn =>
          have hmn := h1 mn rfl
          simp only [rayAdmits, Bool.and_eq_true, decide_eq_true_eq]
          exact ⟨by linarith, by linarith⟩

theorem segAdmits_of_bracket (r : Option K × Option K) (t : K) (ht : 0 ≤ t) (ht1 : t ≤ 1)
    (h1 : LowerOK r.1 t) (h2 : UpperOK r.2 t) : segAdmits r = true := by
  obtain ⟨mn, mx⟩ := r
  cases mx with
  | none =>
      cases mn with
      | none => simp [segAdmits]
      | some mn =>
          have hmn := h1 mn rfl
          simp only [segAdmits, Bool.false_or, Bool.not_eq_true', decide_eq_false_iff_not, not_lt]
          linarith
  | some mx =>
      have hmx := h2 mx rfl
      cases mn with
      | none =>
          simp only [segAdmits, Bool.false_or, Bool.or_false, Bool.not_eq_true', decide_eq_false_iff_not, not_lt]
          linarith
      | some mn =>
          have hmn := h1 mn rfl
          simp only [segAdmits, Bool.not_eq_true', Bool.or_eq_false_iff, decide_eq_false_iff_not, not_lt]
          exact ⟨⟨by linarith, by linarith⟩, by linarith⟩

theorem holds3 (o d : V3 K) (b : Box3 K) (t : K) (h : b.Contains (o.along d t)) :
    ∀ a ∈ [(⟨o.x, d.x, b.min.x, b.max.x⟩ : Ax K), ⟨o.y, d.y, b.min.y, b.max.y⟩, ⟨o.z, d.z, b.min.z, b.max.z⟩],
      a.Holds t := by
  obtain ⟨hx, hy, hz⟩ := h
  intro a ha
  simp only [List.mem_cons, List.not_mem_nil, or_false] at ha
  rcases ha with rfl | rfl | rfl
  · exact hx
  · exact hy
  · exact hz

theorem holds2 (o d : V2 K) (b : Box2 K) (t : K) (h : b.Contains (o.along d t)) :
    ∀ a ∈ [(⟨o.x, d.x, b.min.x, b.max.x⟩ : Ax K), ⟨o.y, d.y, b.min.y, b.max.y⟩], a.Holds t := by
  obtain ⟨hx, hy⟩ := h
  intro a ha
  simp only [List.mem_cons, List.not_mem_nil, or_false] at ha
  rcases ha with rfl | rfl
  · exact hx
  · exact hy

/-- **The slab prefilter never rejects a ray that meets the box at a parameter `t ≥ 0`** (3D). -/
theorem rayAdmits_sound3 (o d : V3 K) (b : Box3 K) (t : K) (ht : 0 ≤ t)
    (h : b.Contains (o.along d t)) : rayAdmits (rayBounds3 o d b) = true := by
  have := slabLoop_sound t ht _ none none (holds3 o d b t h) (by intro m hm; cases hm) (by intro m hm; cases hm)
  exact rayAdmits_of_bracket _ t ht this.1 this.2

theorem rayAdmits_sound2 (o d : V2 K) (b : Box2 K) (t : K) (ht : 0 ≤ t)
    (h : b.Contains (o.along d t)) : rayAdmits (rayBounds2 o d b) = true := by
  have := slabLoop_sound t ht _ none none (holds2 o d b t h) (by intro m hm; cases hm) (by intro m hm; cases hm)
  exact rayAdmits_of_bracket _ t ht this.1 this.2

/-- **The segment prefilter never rejects a segment that has a point (`0 ≤ t ≤ 1`) in the box.** -/
theorem segAdmits_sound3 (o d : V3 K) (b : Box3 K) (t : K) (ht : 0 ≤ t) (ht1 : t ≤ 1)
    (h : b.Contains (o.along d t)) : segAdmits (rayBounds3 o d b) = true := by
  have := slabLoop_sound t ht _ none none (holds3 o d b t h) (by intro m hm; cases hm) (by intro m hm; cases hm)
  exact segAdmits_of_bracket _ t ht ht1 this.1 this.2

theorem segAdmits_sound2 (o d : V2 K) (b : Box2 K) (t : K) (ht : 0 ≤ t) (ht1 : t ≤ 1)
    (h : b.Contains (o.along d t)) : segAdmits (rayBounds2 o d b) = true := by
  have := slabLoop_sound t ht _ none none (holds2 o d b t h) (by intro m hm; cases hm) (by intro m hm; cases hm)
  exact segAdmits_of_bracket _ t ht ht1 this.1 this.2

end M3d.Box
