import M3d.Lemmas.CodecMesh
import Mathlib.Data.Finset.Card
import Mathlib.Data.List.Basic
/-!
# C15 — index meshes (`newIndexMesh`, `WritePLY`, `BuildVertexColorOBJ`, `Write3MF`):
resolving the index triples against the vertex table gives the triangles back, and the size of the
table does not depend on the order in which the triangles are visited.
-/
namespace M3d.Codec

variable {α κ : Type} [DecidableEq κ]

theorem dedupStep_subset (key : α → κ) (st : List α) (p : α) (q : α) (h : q ∈ dedupStep key st p) :
    q ∈ st ∨ q = p := by
  unfold dedupStep at h
  split at h
  · exact Or.inl h
  · rcases List.mem_append.mp h with h | h
    · exact Or.inl h
    · exact Or.inr (by simpa using h)

theorem foldl_dedup_subset (key : α → κ) (ps : List α) (st : List α) (q : α)
    (h : q ∈ ps.foldl (dedupStep key) st) : q ∈ st ∨ q ∈ ps := by
  induction ps generalizing st with
  | nil => exact Or.inl h
  | cons x xs ih =>
    rw [List.foldl_cons] at h
    rcases ih _ h with h | h
    · rcases dedupStep_subset key st x q h with h | h
      · exact Or.inl h
      · exact Or.inr (h ▸ List.mem_cons_self ..)
    · exact Or.inr (List.mem_cons_of_mem _ h)

/-- every entry of the vertex table is one of the visited corners -/
theorem dedup_subset (key : α → κ) (ps : List α) (q : α) (h : q ∈ dedupCoords key ps) : q ∈ ps := by
  rcases foldl_dedup_subset key ps [] q h with h | h
  · simp at h
  · exact h

/-- the keys of the table are exactly the keys of the visited corners -/
theorem dedup_keys (key : α → κ) (ps : List α) :
    ((dedupCoords key ps).map key).toFinset = (ps.map key).toFinset := by
  ext k
  simp only [List.mem_toFinset, List.mem_map]
  constructor
  · rintro ⟨q, hq, rfl⟩
    exact ⟨q, dedup_subset key ps q hq, rfl⟩
  · rintro ⟨p, hp, rfl⟩
    obtain ⟨hlt, hk⟩ := dedup_index key ps p hp
    exact ⟨_, List.getElem_mem hlt, hk⟩

/-- **The size of the vertex table is the number of distinct keys** — whatever the order of the
visit. -/
theorem dedup_length_card (key : α → κ) (ps : List α) :
    (dedupCoords key ps).length = (ps.map key).toFinset.card := by
  rw [← dedup_keys, List.toFinset_card_of_nodup (dedup_nodup key ps), List.length_map]

theorem dedup_length_perm (key : α → κ) {ps qs : List α} (h : ps.Perm qs) :
    (dedupCoords key ps).length = (dedupCoords key qs).length := by
  rw [dedup_length_card, dedup_length_card]
  congr 1
  ext k
  simp only [List.mem_toFinset]
  exact (h.map key).mem_iff

/-- resolving the index of a visited corner gives an `==` corner -/
theorem dedup_resolve (key : α → κ) (d : α) (ps : List α) (p : α) (hp : p ∈ ps) :
    key ((dedupCoords key ps).getD (indexOfKey key (dedupCoords key ps) p) d) = key p := by
  obtain ⟨hlt, hk⟩ := dedup_index key ps p hp
  rw [List.getD_eq_getElem?_getD, List.getElem?_eq_getElem hlt]
  exact hk

/-- **Index triples resolve to the triangles, one per triangle, in the order visited.** -/
theorem meshIndex_resolves (ts : List Tri3) :
    (meshIndex ts).2.map (fun f => f.map fun j => key3 ((meshIndex ts).1.getD j (0, 0, 0))) =
      ts.map fun t => t.corners.map key3 := by
  show (ts.map fun t => t.corners.map (indexOfKey key3 (dedupCoords key3 (ts.flatMap Tri3.corners)))).map
      (fun f => f.map fun j => key3 ((dedupCoords key3 (ts.flatMap Tri3.corners)).getD j (0, 0, 0))) = _
  rw [List.map_map]
  apply List.map_congr_left
  intro t ht
  simp only [Function.comp, List.map_map]
  apply List.map_congr_left
  intro p hp
  exact dedup_resolve key3 (0, 0, 0) _ p (List.mem_flatMap.mpr ⟨t, ht, hp⟩)

end M3d.Codec
