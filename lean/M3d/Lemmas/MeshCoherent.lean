import M3d.Lemmas.MeshIndex
/-! `Mesh` operations keep the lazy index coherent with the face set; queries read the face set. Core-only. -/
namespace M3d.Mesh
open M3d.FastMap
set_option linter.unusedSectionVars false

theorem uniqueVerts_nodup (t : Tri) : (uniqueVerts t).Nodup := by
  obtain ⟨a, b, c⟩ := t
  unfold uniqueVerts
  by_cases h1 : b = a <;> by_cases h2 : c = a <;> by_cases h3 : c = b <;>
    simp_all [Ne.symm] <;> omega

theorem mem_uniqueVerts (t : Tri) (p : Nat) : p ∈ uniqueVerts t ↔ p ∈ triVerts t := by
  obtain ⟨a, b, c⟩ := t
  unfold uniqueVerts triVerts
  by_cases h1 : b = a <;> by_cases h2 : c = a <;> by_cases h3 : c = b <;>
    simp_all <;> omega

/-- The faces having `p` as a corner, read off the bare face list. -/
def facesAt (tri : Nat → Tri) (faces : List Nat) (p : Nat) : List Nat :=
  faces.filter fun f => decide (p ∈ uniqueVerts (tri f))

variable (h : Nat → UInt64) (tri : Nat → Tri)

/-- The index holds, under every vertex, exactly the faces at that vertex (in some order), and no
empty slices. -/
def IndexOk (faces : List Nat) (ix : FM Nat (List Nat)) : Prop :=
  Inv h ix ∧ ∀ p, ((load h ix p).getD []).Perm (facesAt tri faces p) ∧ load h ix p ≠ some []

theorem indexOk_empty : IndexOk h tri [] (empty : FM Nat (List Nat)) :=
  ⟨inv_empty h, fun p => by simp [empty, load, facesAt]⟩

theorem indexFace_ok {faces : List Nat} {ix : FM Nat (List Nat)} (ok : IndexOk h tri faces ix)
    (f : Nat) : IndexOk h tri (faces ++ [f]) (indexFace h tri ix f) := by
  obtain ⟨hi, hp⟩ := ok
  obtain ⟨hinv, hl⟩ := fold_append h f (uniqueVerts (tri f)) (uniqueVerts_nodup _) ix hi
  refine ⟨hinv, fun p => ?_⟩
  unfold indexFace
  rw [hl p]
  have hfa : facesAt tri (faces ++ [f]) p =
      facesAt tri faces p ++ (if p ∈ uniqueVerts (tri f) then [f] else []) := by
    unfold facesAt
    rw [List.filter_append]
    by_cases e : p ∈ uniqueVerts (tri f) <;> simp [e]
  rw [hfa]
  by_cases e : p ∈ uniqueVerts (tri f)
  · simp only [e, if_true, Option.getD_some]
    exact ⟨(hp p).1.append_right _, by simp⟩
  · simp only [e, if_false, List.append_nil]
    exact hp p

theorem buildIndex_ok_aux : ∀ (l faces0 : List Nat) (ix : FM Nat (List Nat)),
    IndexOk h tri faces0 ix → IndexOk h tri (faces0 ++ l) (l.foldl (indexFace h tri) ix) := by
  intro l
  induction l with
  | nil => intro faces0 ix ok; simpa using ok
  | cons f l ih =>
    intro faces0 ix ok
    have := ih (faces0 ++ [f]) _ (indexFace_ok h tri ok f)
    simpa [List.append_assoc] using this

/-- `getVertexToFace` builds a coherent index. -/
theorem buildIndex_ok (faces : List Nat) : IndexOk h tri faces (buildIndex h tri faces) := by
  have := buildIndex_ok_aux h tri faces [] empty (indexOk_empty h tri)
  simpa [buildIndex] using this

theorem filter_ne_eq_erase {faces : List Nat} (hn : faces.Nodup) (f : Nat) :
    faces.filter (fun x => decide (x ≠ f)) = faces.erase f := by
  rw [hn.erase_eq_filter]
  apply List.filter_congr
  intro x _
  by_cases e : x = f <;> simp [e]

theorem removeFace_ok {faces : List Nat} {ix : FM Nat (List Nat)} (ok : IndexOk h tri faces ix)
    (hn : faces.Nodup) {f : Nat} (hf : f ∈ faces) :
    IndexOk h tri (faces.filter (fun x => decide (x ≠ f)))
      ((uniqueVerts (tri f)).foldl (fun ix p => removeFaceFromVertex h ix f p) ix) := by
  obtain ⟨hi, hp⟩ := ok
  obtain ⟨hinv, hl⟩ := fold_remove h f (uniqueVerts (tri f)) (uniqueVerts_nodup _) ix hi
  refine ⟨hinv, fun p => ?_⟩
  rw [hl p, filter_ne_eq_erase hn]
  by_cases e : p ∈ uniqueVerts (tri f)
  · simp only [e, if_true]
    have hmem : f ∈ facesAt tri faces p := by
      unfold facesAt; simp [hf, e]
    have hold : f ∈ (load h ix p).getD [] := (hp p).1.mem_iff.2 hmem
    have h1 := rmFace_perm hold
    have h2 : ((load h ix p).getD []).erase f |>.Perm ((facesAt tri faces p).erase f) :=
      (hp p).1.erase f
    have h3 : (facesAt tri faces p).erase f = facesAt tri (faces.erase f) p := by
      unfold facesAt; rw [List.erase_filter]
    rw [h3] at h2
    by_cases he : (rmFace f ((load h ix p).getD [])).isEmpty
    · simp only [he, if_true]
      have : rmFace f ((load h ix p).getD []) = [] := by simpa using he
      rw [this] at h1
      exact ⟨by simpa using h1.trans h2, by simp⟩
    · have he' : (rmFace f ((load h ix p).getD [])).isEmpty = false := by simpa using he
      simp only [he', Bool.false_eq_true, if_false, Option.getD_some]
      refine ⟨h1.trans h2, ?_⟩
      intro hc
      have : rmFace f ((load h ix p).getD []) = [] := by simpa using hc
      simp [this] at he'
  · simp only [e, if_false]
    refine ⟨?_, (hp p).2⟩
    have : facesAt tri (faces.erase f) p = facesAt tri faces p := by
      unfold facesAt
      rw [← List.erase_filter]
      apply List.erase_of_not_mem
      simp [e]
    rw [this]; exact (hp p).1

/-! ### The mesh invariant -/

/-- Representation invariant of a mesh: the face set has no duplicates and the index, if it has
been built, is coherent with it. -/
def Coherent (m : Mesh) : Prop :=
  m.faces.Nodup ∧ ∀ ix, m.index = some ix → IndexOk h tri m.faces ix

theorem coherent_new : Coherent h tri Mesh.new := ⟨by simp [Mesh.new], by simp [Mesh.new]⟩

theorem coherent_add {m : Mesh} (c : Coherent h tri m) (f : Nat) : Coherent h tri (m.add h tri f) := by
  obtain ⟨hn, hix⟩ := c
  unfold Mesh.add
  cases hidx : m.index with
  | none =>
    by_cases hf : f ∈ m.faces
    · simp only [hf, if_true]; exact ⟨hn, hix⟩
    · simp only [hf, if_false]
      refine ⟨?_, fun ix e => by simp at e⟩
      exact List.nodup_append.2 ⟨hn, by simp, by intro a ha b hb; simp at hb; subst hb; intro e; subst e; exact hf ha⟩
  | some ix =>
    by_cases hf : f ∈ m.faces
    · simp only [hf, if_true]; exact ⟨hn, hix⟩
    · simp only [hf, if_false]
      refine ⟨List.nodup_append.2 ⟨hn, by simp, by intro a ha b hb; simp at hb; subst hb; intro e; subst e; exact hf ha⟩, ?_⟩
      intro ix' e
      simp at e; subst e
      exact indexFace_ok h tri (hix ix hidx) f

theorem coherent_remove {m : Mesh} (c : Coherent h tri m) (f : Nat) :
    Coherent h tri (m.remove h tri f) := by
  obtain ⟨hn, hix⟩ := c
  unfold Mesh.remove
  by_cases hf : f ∈ m.faces
  · simp only [hf, if_true]
    refine ⟨hn.filter _, ?_⟩
    intro ix' e
    cases hidx : m.index with
    | none => simp [hidx] at e
    | some ix =>
      simp [hidx] at e; subst e
      exact removeFace_ok h tri (hix ix hidx) hn hf
  · simp only [hf, if_false]; exact ⟨hn, hix⟩

theorem coherent_withIndex {m : Mesh} (c : Coherent h tri m) :
    Coherent h tri (m.withIndex h tri).1 ∧ (m.withIndex h tri).1.faces = m.faces ∧
      IndexOk h tri m.faces (m.withIndex h tri).2 := by
  obtain ⟨hn, hix⟩ := c
  unfold Mesh.withIndex
  cases hidx : m.index with
  | some ix => exact ⟨⟨hn, hix⟩, rfl, hix ix hidx⟩
  | none =>
    refine ⟨⟨hn, ?_⟩, rfl, buildIndex_ok h tri m.faces⟩
    intro ix e; simp at e; subst e; exact buildIndex_ok h tri m.faces

end M3d.Mesh
