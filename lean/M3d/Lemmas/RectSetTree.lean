import Mathlib.Order.Basic
import Mathlib.Tactic.SplitIfs
import M3d.Model.RectSet
/-! Helper lemmas for C04: the descent of `rectSetSolid.Contains`. -/
namespace M3d.RectSet
set_option linter.unusedSectionVars false
variable {K : Type} [LinearOrder K] [OfNat K 0]

theorem forall_lt_three {P : Nat → Prop} : (∀ i, i < 3 → P i) ↔ P 0 ∧ P 1 ∧ P 2 := by
  constructor
  · intro h; exact ⟨h 0 (by omega), h 1 (by omega), h 2 (by omega)⟩
  · rintro ⟨h0, h1, h2⟩ i hi
    match i, hi with
    | 0, _ => exact h0
    | 1, _ => exact h1
    | 2, _ => exact h2

theorem Rect.contains_iff (r : Rect K) (p : V3 K) :
    r.contains p = true ↔ ∀ i, i < 3 → r.lo.get i ≤ p.get i ∧ p.get i ≤ r.hi.get i := by
  rw [forall_lt_three]
  simp [Rect.contains, List.all_cons, and_assoc]

/-- What the alignment of the stored rects with the split planes gives at one node of the solid:
rects filed under `below` end at or before the cutoff, rects under `above` start at or after it,
and the node's cached bounds enclose all of them. -/
def Tree.WellSplit : Tree K → Prop
  | .empty => True
  | .single _ => True
  | .many _ => True
  | .node axis cutoff below above lo hi =>
    below.WellSplit ∧ above.WellSplit ∧ axis < 3 ∧
    (∀ r ∈ below.rects, r.hi.get axis ≤ cutoff) ∧
    (∀ r ∈ above.rects, cutoff ≤ r.lo.get axis) ∧
    (∀ r ∈ below.rects ++ above.rects, ∀ p, r.contains p = true → (⟨lo, hi⟩ : Rect K).contains p = true)

theorem Tree.contains_eq_any : ∀ (t : Tree K), t.WellSplit → ∀ p, t.contains p = t.rects.any (fun r => r.contains p)
  | .empty, _, _ => rfl
  | .single r, _, p => by simp [Tree.contains, Tree.rects]
  | .many rs, _, p => by simp [Tree.contains, Tree.rects]
  | .node axis cutoff below above lo hi, h, p => by
    obtain ⟨hb, ha, hax, hbelow, habove, hbox⟩ := h
    have ihb := Tree.contains_eq_any below hb p
    have iha := Tree.contains_eq_any above ha p
    simp only [Tree.contains, Tree.rects, List.any_append]
    cases hc : (⟨lo, hi⟩ : Rect K).contains p
    · -- outside the node's bounds: no rect below contains p
      simp only [Bool.not_false, if_true]
      have h1 : below.rects.any (fun r => r.contains p) = false := by
        rw [List.any_eq_false]; intro r hr hcp
        rw [hbox r (List.mem_append_left _ hr) p hcp] at hc; exact Bool.noConfusion hc
      have h2 : above.rects.any (fun r => r.contains p) = false := by
        rw [List.any_eq_false]; intro r hr hcp
        rw [hbox r (List.mem_append_right _ hr) p hcp] at hc; exact Bool.noConfusion hc
      simp [h1, h2]
    · simp only [Bool.not_true, Bool.false_eq_true, if_false]
      have e : (if below.contains p = true then true else above.contains p)
          = (below.contains p || above.contains p) := by cases below.contains p <;> rfl
      rw [e]
      split_ifs with hlt hgt
      · -- strictly below the cutoff: nothing filed under `above` can contain p
        have h2 : above.rects.any (fun r => r.contains p) = false := by
          rw [List.any_eq_false]; intro r hr hcp
          have := ((Rect.contains_iff r p).mp hcp axis hax).1
          exact absurd (lt_of_le_of_lt (le_trans (habove r hr) this) hlt) (lt_irrefl _)
        rw [ihb, h2]; simp
      · have h1 : below.rects.any (fun r => r.contains p) = false := by
          rw [List.any_eq_false]; intro r hr hcp
          have := ((Rect.contains_iff r p).mp hcp axis hax).2
          exact absurd (lt_of_lt_of_le hgt (le_trans this (hbelow r hr))) (lt_irrefl _)
        rw [iha, h1]; simp
      · rw [ihb, iha]

theorem Tree.wellSplitB_sound : ∀ (t : Tree K), t.wellSplitB = true → t.WellSplit
  | .empty, _ => trivial
  | .single _, _ => trivial
  | .many _, _ => trivial
  | .node axis cutoff below above lo hi, h => by
    simp only [Tree.wellSplitB, Bool.and_eq_true, decide_eq_true_eq, List.all_eq_true] at h
    obtain ⟨⟨⟨⟨⟨hb, ha⟩, hax⟩, hbelow⟩, habove⟩, hbox⟩ := h
    refine ⟨Tree.wellSplitB_sound below hb, Tree.wellSplitB_sound above ha, hax, hbelow, habove, ?_⟩
    intro r hr p hcp
    rw [Rect.contains_iff] at hcp ⊢
    intro i hi3
    have h1 := hbox r hr i (by match i, hi3 with | 0, _ | 1, _ | 2, _ => simp)
    have h2 := hcp i hi3
    exact ⟨le_trans h1.1 h2.1, le_trans h2.2 h1.2⟩

/-- Unfolding of `build` for a set with at least two rects. -/
theorem build_two (fuel : Nat) (s : RS K) (h : 2 ≤ s.rects.length) :
    build (fuel + 1) s =
      if (splitRectSet s).1.rects.isEmpty || (splitRectSet s).2.1.rects.isEmpty then some (.many s.rects)
      else match build fuel (splitRectSet s).1, build fuel (splitRectSet s).2.1 with
        | some b, some a => some (.node (splitRectSet s).2.2.1 (splitRectSet s).2.2.2 b a s.min s.max)
        | _, _ => none := by
  rcases hrs : s.rects with _ | ⟨r, _ | ⟨r', rest⟩⟩
  · rw [hrs] at h; simp at h
  · rw [hrs] at h; simp at h
  · rw [build]
    simp only [hrs]
    rfl

theorem splitRectSet_rects (s : RS K) :
    ((splitRectSet s).1.rects ++ (splitRectSet s).2.1.rects).Perm s.rects := by
  simp only [splitRectSet]
  exact List.filter_append_perm _ _

/-- The leaves of the tree `newRectSetSolid` builds are exactly the stored rects. -/
theorem build_rects : ∀ (fuel : Nat) (s : RS K) (t : Tree K), build fuel s = some t → t.rects.Perm s.rects := by
  intro fuel
  induction fuel with
  | zero => intro s t h; simp [build] at h
  | succ fuel ih =>
    intro s t h
    rcases hrs : s.rects with _ | ⟨r, _ | ⟨r', rest⟩⟩
    · unfold build at h; simp only [hrs] at h; cases h; exact List.Perm.refl _
    · unfold build at h; simp only [hrs] at h; cases h; exact List.Perm.refl _
    · rw [build_two fuel s (by rw [hrs]; simp)] at h
      split_ifs at h with hc
      · cases h; rw [hrs]; exact List.Perm.refl _
      · split at h
        · rename_i b a hb ha
          cases h
          rw [← hrs]
          exact ((ih _ _ hb).append (ih _ _ ha)).trans (splitRectSet_rects s)
        · cases h

end M3d.RectSet
