import M3d.Model.FlipLoop
import Mathlib.Tactic.Ring
import Mathlib.Tactic.Linarith
import Mathlib.Algebra.Order.Field.Basic
import Mathlib.Algebra.BigOperators.Group.List.Basic
import Mathlib.Data.List.Perm.Basic
/-!
Termination of the `FlipDelaunay` loop model: the tolerance excludes flipping a pair of
triangles back and forth; any loop with a strictly decreasing natural measure terminates; in a
flat patch the lifted measure drops by exactly the in-circle determinant at every flip.
-/
namespace M3d.FlipLoop

/-! ## One quadrilateral -/

section Quad
variable {K : Type} [Field K] [LinearOrder K] [IsStrictOrderedRing K]

omit [IsStrictOrderedRing K] in
theorem wantsFlip_iff (pi tol c : K) : wantsFlip pi tol c = true ↔ pi + tol ≤ c := by
  simp [wantsFlip, not_lt]

omit [Field K] [IsStrictOrderedRing K] in
theorem wantsFlipNoTol_iff (pi c : K) : wantsFlipNoTol pi c = true ↔ pi < c := by
  simp [wantsFlipNoTol, not_le]

/-- With the tolerance, a flipped pair of triangles is not flipped back: the loop on one
quadrilateral stops after at most one flip. -/
theorem quadLoop_tol (pi tol δ S0 S1 c0 c1 : K) (hS : S0 + S1 ≤ 2 * pi)
    (h0 : S0 - δ ≤ c0 ∧ c0 ≤ S0 + δ) (h1 : S1 - δ ≤ c1 ∧ c1 ≤ S1 + δ) (hδ : δ < tol)
    (d : Bool) (fuel : Nat) : ∃ r, quadLoop (wantsFlip pi tol) c0 c1 (fuel + 2) d = some r := by
  cases d
  · by_cases f0 : wantsFlip pi tol c0 = true
    · have g0 := (wantsFlip_iff pi tol c0).1 f0
      have f1 : wantsFlip pi tol c1 = false := by
        rw [Bool.eq_false_iff, Ne, wantsFlip_iff, not_le]
        linarith [h0.2, h1.2]
      exact ⟨true, by simp [quadLoop, f0, f1]⟩
    · exact ⟨false, by simp [quadLoop, f0]⟩
  · by_cases f1 : wantsFlip pi tol c1 = true
    · have g1 := (wantsFlip_iff pi tol c1).1 f1
      have f0 : wantsFlip pi tol c0 = false := by
        rw [Bool.eq_false_iff, Ne, wantsFlip_iff, not_le]
        linarith [h0.2, h1.2]
      exact ⟨false, by simp [quadLoop, f0, f1]⟩
    · exact ⟨true, by simp [quadLoop, f1]⟩

omit [Field K] [IsStrictOrderedRing K] in
/-- Without tolerance: when both computed sums are above `pi` the loop never stops. -/
theorem quadLoop_noTol (pi c0 c1 : K) (h0 : pi < c0) (h1 : pi < c1) :
    ∀ (fuel : Nat) (d : Bool), quadLoop (wantsFlipNoTol pi) c0 c1 fuel d = none := by
  have f0 := (wantsFlipNoTol_iff pi c0).2 h0
  have f1 := (wantsFlipNoTol_iff pi c1).2 h1
  intro fuel
  induction fuel with
  | zero => intro d; rfl
  | succ n ih =>
    intro d
    cases d <;> simp [quadLoop, f0, f1, ih]

/-! ### Sums that are not below the threshold on both diagonals (NaN, or `π + 1.49e-8`: defects repaired by /repo `078e20f`, `9d5c866`) -/

omit [Field K] [LinearOrder K] [IsStrictOrderedRing K] in
/-- A pair both of whose diagonals the decision flips never comes to rest — any scalar type. -/
theorem quadLoop_both_flip {α : Type} (flip : α → Bool) (c0 c1 : α) (h0 : flip c0 = true) (h1 : flip c1 = true) :
    ∀ (fuel : Nat) (d : Bool), quadLoop flip c0 c1 fuel d = none := by
  intro fuel
  induction fuel with
  | zero => intro d; rfl
  | succ n ih => intro d; cases d <;> simp [quadLoop, h0, h1, ih]

omit [Field K] [LinearOrder K] [IsStrictOrderedRing K] in
/-- A pair one of whose diagonals the decision leaves alone comes to rest after at most one flip. -/
theorem quadLoop_rest {α : Type} (flip : α → Bool) (c0 c1 : α) (h : flip c0 = false ∨ flip c1 = false)
    (d : Bool) (fuel : Nat) : ∃ r, quadLoop flip c0 c1 (fuel + 2) d = some r := by
  cases d <;> by_cases f0 : flip c0 = true <;> by_cases f1 : flip c1 = true <;>
    rcases h with h | h <;> simp_all [quadLoop]

omit [Field K] [LinearOrder K] [IsStrictOrderedRing K] in
theorem wantsFlip_of_not_lt {α : Type} [LT α] [DecidableLT α] [Add α] (pi tol s : α) (h : ¬ s < pi + tol) :
    wantsFlip pi tol s = true := by
  simp [wantsFlip, h]

end Quad

/-! ## Loops with a strictly decreasing measure -/

theorem iterLoop_terminates {σ : Type} (step : σ → Option σ) (μ : σ → Nat)
    (h : ∀ s s', step s = some s' → μ s' < μ s) :
    ∀ (n : Nat) (s : σ), μ s < n → ∃ r, iterLoop step n s = some r ∧ step r = none := by
  intro n
  induction n with
  | zero => intro s hs; omega
  | succ n ih =>
    intro s hs
    cases hst : step s with
    | none => exact ⟨s, by simp [iterLoop, hst], hst⟩
    | some s' =>
      have := h s s' hst
      obtain ⟨r, hr, hn⟩ := ih s' (by omega)
      exact ⟨r, by simp [iterLoop, hst, hr], hn⟩

/-! ## Flat patches -/

section Alg
variable {R : Type} [CommRing R]

theorem measure_flip_identity (o1 p1 p2 o2 : Pt R) :
    triMeasure (o1, p1, p2) + triMeasure (o2, p2, p1)
      - (triMeasure (o1, o2, p2) + triMeasure (p1, o2, o1)) = inCircle o1 p1 p2 o2 := by
  simp only [triMeasure, orient, lift, inCircle]
  ring

theorem sinSumScaled_eq (p1 p2 o1 o2 : Pt R) :
    sinSumScaled p1 p2 o1 o2 = - inCircle o1 p1 p2 o2 := by
  simp only [sinSumScaled, cross, dot, psub, inCircle]
  ring

theorem flip_area_identity (o1 p1 p2 o2 : Pt R) :
    orient o1 p1 p2 + orient o2 p2 p1 = orient o1 o2 p2 + orient p1 o2 o1 := by
  simp only [orient]
  ring

theorem orient_rot (a b c : Pt R) : orient b c a = orient a b c := by
  simp only [orient]; ring

theorem triMeasure_rot (a b c : Pt R) : triMeasure (b, c, a) = triMeasure (a, b, c) := by
  simp only [triMeasure, orient, lift]; ring

theorem triMeasure_isRot {t u : CTri R} (h : IsRot t u) : triMeasure t = triMeasure u := by
  obtain ⟨a, b, c⟩ := u
  rcases h with rfl | rfl | rfl
  · rfl
  · exact triMeasure_rot a b c
  · exact (triMeasure_rot b c a).trans (triMeasure_rot a b c)

end Alg

theorem measure_perm {s s' : List (CTri Int)} (h : s.Perm s') : measure s = measure s' :=
  (h.map triMeasure).sum_eq

theorem measure_cons (t : CTri Int) (s : List (CTri Int)) : measure (t :: s) = triMeasure t + measure s := by
  simp [measure]

theorem lift_nonneg (a : Pt Int) : 0 ≤ lift a := by
  simp only [lift]; nlinarith [mul_self_nonneg a.1, mul_self_nonneg a.2]

theorem measure_nonneg {s : List (CTri Int)} (h : AllCcw s) : 0 ≤ measure s := by
  induction s with
  | nil => simp [measure]
  | cons t s ih =>
    rw [measure_cons]
    have h1 : 0 < orient t.1 t.2.1 t.2.2 := h t (List.mem_cons_self ..)
    have h2 := ih (fun u hu => h u (List.mem_cons_of_mem _ hu))
    have h3 : 0 ≤ triMeasure t := by
      simp only [triMeasure]
      exact mul_nonneg h1.le (by linarith [lift_nonneg t.1, lift_nonneg t.2.1, lift_nonneg t.2.2])
    linarith

section FlatStep
variable {wants : Pt Int → Pt Int → Pt Int → Pt Int → Bool} {s s' : List (CTri Int)}

/-- A flip lowers the lifted measure by exactly the in-circle determinant. -/
theorem flatFlip_measure (h : FlatFlip wants s s') :
    ∃ o1 p1 p2 o2, wants p1 p2 o1 o2 = true ∧ measure s' = measure s - inCircle o1 p1 p2 o2 := by
  obtain ⟨o1, p1, p2, o2, t0, t1, rest, s, hp, r0, r1, hw, _, _⟩ := h
  refine ⟨o1, p1, p2, o2, hw, ?_⟩
  rw [measure_perm hp]
  simp only [measure_cons]
  rw [triMeasure_isRot r0, triMeasure_isRot r1]
  have := measure_flip_identity o1 p1 p2 o2
  linarith

theorem flatFlip_allCcw (hs : AllCcw s) (h : FlatFlip wants s s') : AllCcw s' := by
  obtain ⟨o1, p1, p2, o2, t0, t1, rest, s, hp, _, _, _, c1, c2⟩ := h
  intro t ht
  rcases List.mem_cons.1 ht with rfl | ht
  · exact c1
  · rcases List.mem_cons.1 ht with rfl | ht
    · exact c2
    · exact hs t (hp.mem_iff.2 (List.mem_cons_of_mem _ (List.mem_cons_of_mem _ ht)))

end FlatStep

/-- **Termination in a flat patch**: a flip rule that only flips strictly non-Delaunay edges
(`inCircle > 0`) allows no infinite sequence of flips from a counter-clockwise triangulation. -/
theorem flatFlip_wf (wants : Pt Int → Pt Int → Pt Int → Pt Int → Bool)
    (hw : ∀ p1 p2 o1 o2, wants p1 p2 o1 o2 = true → 0 < inCircle o1 p1 p2 o2) :
    WellFounded (fun s' s => AllCcw s ∧ FlatFlip wants s s') := by
  refine Subrelation.wf ?_ (InvImage.wf (fun s => (measure s).toNat) Nat.lt_wfRel.wf)
  intro s' s ⟨hs, hf⟩
  obtain ⟨o1, p1, p2, o2, hwant, hm⟩ := flatFlip_measure hf
  have h1 := hw _ _ _ _ hwant
  have h2 := measure_nonneg (flatFlip_allCcw hs hf)
  show (measure s').toNat < (measure s).toNat
  omega

/-- … and the number of flips is at most the lifted measure of the start. -/
theorem flatFlip_chain_bound (wants : Pt Int → Pt Int → Pt Int → Pt Int → Bool)
    (hw : ∀ p1 p2 o1 o2, wants p1 p2 o1 o2 = true → 0 < inCircle o1 p1 p2 o2)
    (f : Nat → List (CTri Int)) (h0 : AllCcw (f 0)) :
    ∀ n, (∀ k < n, FlatFlip wants (f k) (f (k + 1))) → AllCcw (f n) ∧ measure (f n) + n ≤ measure (f 0) := by
  intro n
  induction n with
  | zero => intro _; exact ⟨h0, by simp⟩
  | succ n ih =>
    intro h
    obtain ⟨hc, hm⟩ := ih (fun k hk => h k (by omega))
    have hf := h n (by omega)
    obtain ⟨o1, p1, p2, o2, hwant, hm'⟩ := flatFlip_measure hf
    have h1 := hw _ _ _ _ hwant
    exact ⟨flatFlip_allCcw hc hf, by push_cast; omega⟩

end M3d.FlipLoop
