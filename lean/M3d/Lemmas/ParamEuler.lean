import M3d.Lemmas.ParamGrow
/-!
# Euler characteristic of one growth step of `nextMeshPlaneGraphs`

Adding a triangle that shares `k ≥ 1` segments with the tracked boundary and passes the
`wouldDivideBoundary` test changes `V − E + F` by `0` (`k = 1, 2`) or by `+1` (`k = 3`, the chart
closes up into a sphere — the special case split by area afterwards).
-/
namespace M3d.Param
set_option linter.unusedSimpArgs false
open M3d.Surface

theorem numV_snoc (ts : List Tri) (t : Tri) :
    numV (ts ++ [t]) = numV ts + (((triVerts t).removeAll (vertsAll ts)).eraseDups).length := by
  simp only [numV, verts, vertsAll, List.flatMap_append, List.flatMap_cons, List.flatMap_nil, List.append_nil]
  exact eraseDups_snoc_len _ _

theorem numE_snoc (ts : List Tri) (t : Tri) :
    numE (ts ++ [t]) = numE ts + (((triSegs t).removeAll (segsAll ts)).eraseDups).length := by
  simp only [numE, ← segsAll_eq, segsAll_snoc]
  exact eraseDups_snoc_len _ _

theorem mem_segs_of_bd {b : Bd} {l : List Edge} (h : BdInv b l) {e : Edge} (he : e ∈ b.segs) : e ∈ l := by
  have := (h.parity e).mp he
  apply List.count_pos_iff.mp
  omega

/-- A segment of the new triangle that is not a tracked boundary segment is not used by the
chart at all, provided no segment is used more than twice in chart + triangle. -/
theorem not_mem_of_not_bd {b : Bd} {ts : List Tri} {t : Tri} (h : BdInv b (segsAll ts))
    (hman : ∀ e, (segsAll (ts ++ [t])).count e ≤ 2) {e : Edge} (het : e ∈ triSegs t) (he : e ∉ b.segs) :
    e ∉ segsAll ts := by
  intro hmem
  have h1 : ¬ ((segsAll ts).count e % 2 = 1) := fun hh => he ((h.parity e).mpr hh)
  have h2 := hman e
  rw [segsAll_snoc, List.count_append] at h2
  have h3 : 0 < (triSegs t).count e := List.count_pos_iff.mpr het
  have h4 : 0 < (segsAll ts).count e := List.count_pos_iff.mpr hmem
  omega

theorem refcount_pos_of_bd {b : Bd} {l : List Edge} (h : BdInv b l) {x y : Nat} (he : useg x y ∈ b.segs) :
    0 < b.refcount x ∧ 0 < b.refcount y := by
  have hx : x ∈ ends b.segs ∧ y ∈ ends b.segs := by
    simp only [ends, List.mem_flatMap]
    refine ⟨⟨useg x y, he, ?_⟩, ⟨useg x y, he, ?_⟩⟩ <;>
      (unfold useg; split <;> simp)
  unfold Bd.refcount
  exact ⟨List.count_pos_iff.mpr (h.vperm.mem_iff.mpr hx.1), List.count_pos_iff.mpr (h.vperm.mem_iff.mpr hx.2)⟩

/-- **Euler characteristic of a growth step.**  `ts` is the chart, `b` its tracked boundary,
`(x, y, z)` the new non-degenerate triangle; no segment is used more than twice (the chart and
the triangle lie in an edge-manifold mesh); a corner of the triangle that is not on the tracked
boundary is not a vertex of the chart (in a vertex-manifold mesh an interior chart vertex has all
its triangles in the chart already); the `wouldDivideBoundary` test passes. -/
theorem euler_step (ts : List Tri) (b : Bd) (x y z : Nat) (h : BdInv b (segsAll ts))
    (hxy : x ≠ y) (hyz : y ≠ z) (hzx : z ≠ x)
    (hman : ∀ e, (segsAll (ts ++ [(x, y, z)])).count e ≤ 2)
    (hsat : ∀ v ∈ triVerts (x, y, z), b.refcount v = 0 → v ∉ vertsAll ts)
    (hshare : 1 ≤ sharedCount b (x, y, z)) (hwd : wouldDivide b (x, y, z) = false) :
    euler (ts ++ [(x, y, z)]) = euler ts + (if sharedCount b (x, y, z) = 3 then 1 else 0) := by
  -- the three membership facts for segments
  have hs : ∀ e ∈ triSegs (x, y, z), (e ∈ segsAll ts ↔ e ∈ b.segs) := by
    intro e he
    exact ⟨fun hm => Classical.byContradiction fun hn => not_mem_of_not_bd h hman he hn hm,
           fun hm => mem_segs_of_bd h hm⟩
  have hs0 := hs (useg x y) (by simp [triSegs])
  have hs1 := hs (useg y z) (by simp [triSegs])
  have hs2 := hs (useg z x) (by simp [triSegs])
  -- vertices
  have hwd' := hwd
  simp only [wouldDivide, onBd, List.contains_eq_mem, Bool.or_eq_false_iff, Bool.and_eq_false_iff,
    decide_eq_false_iff_not, Bool.not_eq_false', Bool.or_eq_true, decide_eq_true_eq, Nat.not_lt,
    Nat.le_zero] at hwd'
  obtain ⟨⟨hwx, hwy⟩, hwz⟩ := hwd'
  have hvx : x ∈ vertsAll ts ↔ (useg x y ∈ b.segs ∨ useg z x ∈ b.segs) := by
    constructor
    · intro hm
      rcases hwx with h0 | h0
      · exact absurd hm (hsat x (by simp [triVerts]) h0)
      · exact h0
    · rintro (h0 | h0)
      · exact (seg_verts_mem (mem_segs_of_bd h h0)).1
      · exact (seg_verts_mem (mem_segs_of_bd h h0)).2
  have hvy : y ∈ vertsAll ts ↔ (useg x y ∈ b.segs ∨ useg y z ∈ b.segs) := by
    constructor
    · intro hm
      rcases hwy with h0 | h0
      · exact absurd hm (hsat y (by simp [triVerts]) h0)
      · exact h0
    · rintro (h0 | h0)
      · exact (seg_verts_mem (mem_segs_of_bd h h0)).2
      · exact (seg_verts_mem (mem_segs_of_bd h h0)).1
  have hvz : z ∈ vertsAll ts ↔ (useg y z ∈ b.segs ∨ useg z x ∈ b.segs) := by
    constructor
    · intro hm
      rcases hwz with h0 | h0
      · exact absurd hm (hsat z (by simp [triVerts]) h0)
      · exact h0
    · rintro (h0 | h0)
      · exact (seg_verts_mem (mem_segs_of_bd h h0)).2
      · exact (seg_verts_mem (mem_segs_of_bd h h0)).1
  -- distinctness of the three segments
  have d01 : useg x y ≠ useg y z := by rw [Ne, useg_eq_iff]; omega
  have d12 : useg y z ≠ useg z x := by rw [Ne, useg_eq_iff]; omega
  have d20 : useg z x ≠ useg x y := by rw [Ne, useg_eq_iff]; omega
  have hyx : y ≠ x := fun e => hxy e.symm
  have hzy : z ≠ y := fun e => hyz e.symm
  have hxz : x ≠ z := fun e => hzx e.symm
  unfold euler
  rw [numV_snoc, numE_snoc]
  simp only [numF, List.length_append, List.length_singleton, sharedCount] at hshare ⊢
  simp only [triVerts, triSegs, List.removeAll, List.filter_cons, List.filter_nil, List.elem_eq_mem,
    List.contains_eq_mem, decide_eq_true_eq, Bool.not_eq_true', decide_eq_false_iff_not] at hshare ⊢
  by_cases A0 : useg x y ∈ b.segs <;> by_cases A1 : useg y z ∈ b.segs <;> by_cases A2 : useg z x ∈ b.segs <;>
    simp only [A0, A1, A2, or_true, true_or, or_false, false_or, iff_true, iff_false] at hvx hvy hvz hs0 hs1 hs2 <;>
    simp [A0, A1, A2, hvx, hvy, hvz, hs0, hs1, hs2, List.eraseDups_cons, d01, d12, d20, d01.symm, d12.symm, d20.symm,
      hxy, hyz, hzx, hyx, hzy, hxz] at hshare ⊢ <;> omega

/-! ## The boundary stays a disjoint union of simple closed curves (no pinched vertex) -/

/-- Number of endpoints of `s` equal to `v`. -/
def dl (s : Edge) (v : Nat) : Nat := (if s.1 = v then 1 else 0) + (if s.2 = v then 1 else 0)

theorem dl_useg (a b v : Nat) : dl (useg a b) v = (if a = v then 1 else 0) + (if b = v then 1 else 0) := by
  unfold dl useg; split <;> simp <;> omega

theorem toggle_mem_of_ne (b : Bd) {e s : Edge} (h : e ≠ s) : e ∈ (b.toggle s).segs ↔ e ∈ b.segs := by
  unfold Bd.toggle
  split
  · exact List.mem_erase_of_ne h
  · simp [h]

theorem toggle_refcount {b : Bd} {l : List Edge} (h : BdInv b l) (s : Edge) (v : Nat) :
    (s ∈ b.segs → (b.toggle s).refcount v + dl s v = b.refcount v) ∧
    (s ∉ b.segs → (b.toggle s).refcount v = b.refcount v + dl s v) := by
  constructor
  · intro hs
    have hinv := toggle_inv h s
    have hc : b.segs.contains s = true := by simpa using hs
    have h1 : (ends b.segs).Perm (s.1 :: s.2 :: ends (b.segs.erase s)) := by
      have := (List.perm_cons_erase hs).flatMap_right (fun s : Edge => [s.1, s.2])
      simpa [ends, List.flatMap_cons] using this
    have e1 := (h.vperm.trans h1).count_eq v
    have e2 := hinv.vperm.count_eq v
    have e3 : (b.toggle s).segs = b.segs.erase s := by simp [Bd.toggle, hs]
    rw [e3] at e2
    simp only [List.count_cons, beq_iff_eq] at e1
    unfold Bd.refcount dl
    omega
  · intro hs
    have hc : b.segs.contains s = false := by simpa using hs
    unfold Bd.refcount dl Bd.toggle
    rw [hc]
    simp only [Bool.false_eq_true, if_false, List.count_cons, beq_iff_eq]
    omega

/-- **No pinch is ever created.**  If every vertex has reference count 0 or 2 (the tracked
boundary is a disjoint union of simple closed curves) and the new non-degenerate triangle passes
the `wouldDivideBoundary` test, the same holds after `addTriangle`'s bookkeeping. -/
theorem refcount_step (b : Bd) (l : List Edge) (x y z : Nat) (h : BdInv b l)
    (hxy : x ≠ y) (hyz : y ≠ z) (hzx : z ≠ x)
    (hreg : ∀ v, b.refcount v = 0 ∨ b.refcount v = 2) (hwd : wouldDivide b (x, y, z) = false) :
    ∀ v, (b.addTri (x, y, z)).refcount v = 0 ∨ (b.addTri (x, y, z)).refcount v = 2 := by
  intro v
  have d01 : useg x y ≠ useg y z := by rw [Ne, useg_eq_iff]; omega
  have d12 : useg y z ≠ useg z x := by rw [Ne, useg_eq_iff]; omega
  have d20 : useg z x ≠ useg x y := by rw [Ne, useg_eq_iff]; omega
  have h1 := toggle_inv h (useg x y)
  have h2 := toggle_inv h1 (useg y z)
  obtain ⟨r0a, r0b⟩ := toggle_refcount h (useg x y) v
  obtain ⟨r1a, r1b⟩ := toggle_refcount h1 (useg y z) v
  obtain ⟨r2a, r2b⟩ := toggle_refcount h2 (useg z x) v
  rw [toggle_mem_of_ne b d01.symm] at r1a r1b
  rw [toggle_mem_of_ne _ d12.symm, toggle_mem_of_ne b d20] at r2a r2b
  rw [dl_useg] at r0a r0b r1a r1b r2a r2b
  have hwd' := hwd
  simp only [wouldDivide, onBd, List.contains_eq_mem, Bool.or_eq_false_iff, Bool.and_eq_false_iff,
    decide_eq_false_iff_not, Bool.not_eq_false', Bool.or_eq_true, decide_eq_true_eq, Nat.not_lt,
    Nat.le_zero] at hwd'
  obtain ⟨⟨hwx, hwy⟩, hwz⟩ := hwd'
  have e : (b.addTri (x, y, z)) = ((b.toggle (useg x y)).toggle (useg y z)).toggle (useg z x) := by
    simp [Bd.addTri, triSegs]
  rw [e]
  have px : useg x y ∈ b.segs → 0 < b.refcount x ∧ 0 < b.refcount y := fun hh => refcount_pos_of_bd h hh
  have py : useg y z ∈ b.segs → 0 < b.refcount y ∧ 0 < b.refcount z := fun hh => refcount_pos_of_bd h hh
  have pz : useg z x ∈ b.segs → 0 < b.refcount z ∧ 0 < b.refcount x := fun hh => refcount_pos_of_bd h hh
  have gx := hreg x
  have gy := hreg y
  have gz := hreg z
  have gv := hreg v
  by_cases A0 : useg x y ∈ b.segs <;> by_cases A1 : useg y z ∈ b.segs <;> by_cases A2 : useg z x ∈ b.segs <;>
    simp only [A0, A1, A2, true_implies, not_true_eq_false, false_implies, not_false_eq_true, or_true, true_or,
      or_false, false_or] at r0a r0b r1a r1b r2a r2b px py pz hwx hwy hwz <;>
    by_cases vx : x = v <;> by_cases vy : y = v <;> by_cases vz : z = v <;>
    simp only [if_true, if_false, vx, vy, vz, eq_self_iff_true] at r0a r0b r1a r1b r2a r2b <;>
    (try subst vx) <;> (try subst vy) <;> (try subst vz) <;>
    omega

end M3d.Param
