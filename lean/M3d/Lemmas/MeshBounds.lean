import M3d.Model.MeshBounds
import Mathlib.Order.Basic
import Mathlib.Data.List.Perm.Basic
/-! `Mesh.Min()` / `Mesh.Max()` do not depend on the order in which Go's map hands out the faces. -/
namespace M3d.MeshBounds

variable {K : Type} [LinearOrder K]

theorem cmin_le_left (a b : K) : cmin a b ≤ a := by
  unfold cmin; split
  · exact le_of_lt ‹_›
  · exact le_refl _

theorem cmin_le_right (a b : K) : cmin a b ≤ b := by
  unfold cmin; split
  · exact le_refl _
  · exact not_lt.1 ‹_›

theorem cmin_mem (a b : K) : cmin a b = a ∨ cmin a b = b := by
  unfold cmin; split
  · exact Or.inr rfl
  · exact Or.inl rfl

theorem le_cmax_left (a b : K) : a ≤ cmax a b := by
  unfold cmax; split
  · exact le_of_lt ‹_›
  · exact le_refl _

theorem le_cmax_right (a b : K) : b ≤ cmax a b := by
  unfold cmax; split
  · exact le_refl _
  · exact not_lt.1 ‹_›

theorem cmax_mem (a b : K) : cmax a b = a ∨ cmax a b = b := by
  unfold cmax; split
  · exact Or.inr rfl
  · exact Or.inl rfl

/-- A fold with a "selecting" operation that is below both arguments returns a least element. -/
theorem foldl_sel {β : Type} (le : β → β → Prop) (op : β → β → β)
    (refl : ∀ a, le a a) (trans : ∀ a b c, le a b → le b c → le a c)
    (l1 : ∀ a b, le (op a b) a) (l2 : ∀ a b, le (op a b) b) (sel : ∀ a b, op a b = a ∨ op a b = b) :
    ∀ (l : List β) (a : β), (∀ y ∈ a :: l, le (l.foldl op a) y) ∧ l.foldl op a ∈ a :: l := by
  intro l
  induction l with
  | nil => intro a; exact ⟨by intro y hy; simp at hy; subst hy; exact refl _, by simp⟩
  | cons b t ih =>
    intro a
    obtain ⟨h1, h2⟩ := ih (op a b)
    simp only [List.foldl_cons]
    refine ⟨?_, ?_⟩
    · intro y hy
      simp only [List.mem_cons] at hy
      rcases hy with hy | hy | hy
      · subst hy; exact trans _ _ _ (h1 _ List.mem_cons_self) (l1 _ _)
      · subst hy; exact trans _ _ _ (h1 _ List.mem_cons_self) (l2 _ _)
      · exact h1 y (List.mem_cons_of_mem _ hy)
    · simp only [List.mem_cons] at h2 ⊢
      rcases h2 with h2 | h2
      · rcases sel a b with e | e
        · left; rw [h2, e]
        · right; left; rw [h2, e]
      · right; right; exact h2

theorem foldl_cmin_spec (l : List K) (a : K) :
    (∀ y ∈ a :: l, l.foldl cmin a ≤ y) ∧ l.foldl cmin a ∈ a :: l :=
  foldl_sel (· ≤ ·) cmin le_refl (fun _ _ _ => le_trans) cmin_le_left cmin_le_right cmin_mem l a

theorem foldl_cmax_spec (l : List K) (a : K) :
    (∀ y ∈ a :: l, y ≤ l.foldl cmax a) ∧ l.foldl cmax a ∈ a :: l :=
  foldl_sel (fun u v => v ≤ u) cmax le_refl (fun _ _ _ h1 h2 => le_trans h2 h1)
    le_cmax_left le_cmax_right cmax_mem l a

theorem foldl_pmin_x (l : List (P3 K)) (a : P3 K) :
    (l.foldl pmin a).x = (l.map (·.x)).foldl cmin a.x ∧
    (l.foldl pmin a).y = (l.map (·.y)).foldl cmin a.y ∧
    (l.foldl pmin a).z = (l.map (·.z)).foldl cmin a.z := by
  induction l generalizing a with
  | nil => exact ⟨rfl, rfl, rfl⟩
  | cons b t ih => simpa [pmin] using ih (pmin a b)

theorem foldl_pmax_x (l : List (P3 K)) (a : P3 K) :
    (l.foldl pmax a).x = (l.map (·.x)).foldl cmax a.x ∧
    (l.foldl pmax a).y = (l.map (·.y)).foldl cmax a.y ∧
    (l.foldl pmax a).z = (l.map (·.z)).foldl cmax a.z := by
  induction l generalizing a with
  | nil => exact ⟨rfl, rfl, rfl⟩
  | cons b t ih => simpa [pmax] using ih (pmax a b)

/-- Component `π` of `meshMin` is the least value of that component among the corners. -/
theorem meshMin_comp (zero c : P3 K) (cs : List (P3 K)) :
    let r := meshMin zero (c :: cs)
    ((∀ p ∈ c :: cs, r.x ≤ p.x) ∧ ∃ p ∈ c :: cs, r.x = p.x) ∧
    ((∀ p ∈ c :: cs, r.y ≤ p.y) ∧ ∃ p ∈ c :: cs, r.y = p.y) ∧
    ((∀ p ∈ c :: cs, r.z ≤ p.z) ∧ ∃ p ∈ c :: cs, r.z = p.z) := by
  intro r
  obtain ⟨ex, ey, ez⟩ := foldl_pmin_x cs c
  have key : ∀ (π : P3 K → K) (v : K), v = (cs.map π).foldl cmin (π c) →
      (∀ p ∈ c :: cs, v ≤ π p) ∧ ∃ p ∈ c :: cs, v = π p := by
    intro π v hv
    obtain ⟨h1, h2⟩ := foldl_cmin_spec (cs.map π) (π c)
    rw [← hv] at h1 h2
    refine ⟨fun p hp => h1 _ ?_, ?_⟩
    · rw [← List.map_cons]; exact List.mem_map_of_mem hp
    · rw [← List.map_cons] at h2
      obtain ⟨p, hp, e⟩ := List.mem_map.1 h2
      exact ⟨p, hp, e.symm⟩
  exact ⟨key (·.x) _ ex, key (·.y) _ ey, key (·.z) _ ez⟩

theorem meshMax_comp (zero c : P3 K) (cs : List (P3 K)) :
    let r := meshMax zero (c :: cs)
    ((∀ p ∈ c :: cs, p.x ≤ r.x) ∧ ∃ p ∈ c :: cs, r.x = p.x) ∧
    ((∀ p ∈ c :: cs, p.y ≤ r.y) ∧ ∃ p ∈ c :: cs, r.y = p.y) ∧
    ((∀ p ∈ c :: cs, p.z ≤ r.z) ∧ ∃ p ∈ c :: cs, r.z = p.z) := by
  intro r
  obtain ⟨ex, ey, ez⟩ := foldl_pmax_x cs c
  have key : ∀ (π : P3 K → K) (v : K), v = (cs.map π).foldl cmax (π c) →
      (∀ p ∈ c :: cs, π p ≤ v) ∧ ∃ p ∈ c :: cs, v = π p := by
    intro π v hv
    obtain ⟨h1, h2⟩ := foldl_cmax_spec (cs.map π) (π c)
    rw [← hv] at h1 h2
    refine ⟨fun p hp => h1 _ ?_, ?_⟩
    · rw [← List.map_cons]; exact List.mem_map_of_mem hp
    · rw [← List.map_cons] at h2
      obtain ⟨p, hp, e⟩ := List.mem_map.1 h2
      exact ⟨p, hp, e.symm⟩
  exact ⟨key (·.x) _ ex, key (·.y) _ ey, key (·.z) _ ez⟩

omit [LinearOrder K] in
theorem P3.ext' (a b : P3 K) (hx : a.x = b.x) (hy : a.y = b.y) (hz : a.z = b.z) : a = b := by
  cases a; cases b; simp_all

/-- `Min` / `Max` depend only on the multiset of corners. -/
theorem meshBounds_perm (zero : P3 K) {l₁ l₂ : List (P3 K)} (hp : l₁.Perm l₂) :
    meshMin zero l₁ = meshMin zero l₂ ∧ meshMax zero l₁ = meshMax zero l₂ := by
  cases l₁ with
  | nil => rw [hp.nil_eq]; exact ⟨rfl, rfl⟩
  | cons c cs =>
    cases l₂ with
    | nil => exact absurd hp.symm.nil_eq (by simp)
    | cons c' cs' =>
      have m12 : ∀ p, p ∈ c :: cs ↔ p ∈ c' :: cs' := fun p => hp.mem_iff
      constructor
      · obtain ⟨⟨ax, bx⟩, ⟨ay, bY⟩, ⟨az, bz⟩⟩ := meshMin_comp zero c cs
        obtain ⟨⟨ax', bx'⟩, ⟨ay', bY'⟩, ⟨az', bz'⟩⟩ := meshMin_comp zero c' cs'
        apply P3.ext'
        · obtain ⟨p, hp1, e1⟩ := bx; obtain ⟨q, hq, e2⟩ := bx'
          exact le_antisymm (e2 ▸ ax q ((m12 q).2 hq)) (e1 ▸ ax' p ((m12 p).1 hp1))
        · obtain ⟨p, hp1, e1⟩ := bY; obtain ⟨q, hq, e2⟩ := bY'
          exact le_antisymm (e2 ▸ ay q ((m12 q).2 hq)) (e1 ▸ ay' p ((m12 p).1 hp1))
        · obtain ⟨p, hp1, e1⟩ := bz; obtain ⟨q, hq, e2⟩ := bz'
          exact le_antisymm (e2 ▸ az q ((m12 q).2 hq)) (e1 ▸ az' p ((m12 p).1 hp1))
      · obtain ⟨⟨ax, bx⟩, ⟨ay, bY⟩, ⟨az, bz⟩⟩ := meshMax_comp zero c cs
        obtain ⟨⟨ax', bx'⟩, ⟨ay', bY'⟩, ⟨az', bz'⟩⟩ := meshMax_comp zero c' cs'
        apply P3.ext'
        · obtain ⟨p, hp1, e1⟩ := bx; obtain ⟨q, hq, e2⟩ := bx'
          exact le_antisymm (e1 ▸ ax' p ((m12 p).1 hp1)) (e2 ▸ ax q ((m12 q).2 hq))
        · obtain ⟨p, hp1, e1⟩ := bY; obtain ⟨q, hq, e2⟩ := bY'
          exact le_antisymm (e1 ▸ ay' p ((m12 p).1 hp1)) (e2 ▸ ay q ((m12 q).2 hq))
        · obtain ⟨p, hp1, e1⟩ := bz; obtain ⟨q, hq, e2⟩ := bz'
          exact le_antisymm (e1 ▸ az' p ((m12 p).1 hp1)) (e2 ▸ az q ((m12 q).2 hq))

end M3d.MeshBounds
