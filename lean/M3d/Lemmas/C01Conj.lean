import M3d.Lemmas.C01Search
import Mathlib.Tactic.Ring
import Mathlib.Tactic.Linarith
import Mathlib.Tactic.LinearCombination
import Mathlib.Algebra.Order.Field.Basic
import Mathlib.Data.List.Perm.Basic
import Mathlib.Data.List.Zip
/-!
# The Conj members: mapping a closed mesh back through ANY invertible affine map and restoring the orientation
(property C01)

`MarchingCubesConj` / `MarchingSquaresConj` = `conjMesh` / `conjMesh2` (`M3d.Model.C01Search`): map the searched mesh of
the transformed solid back through `g` (the inverse of the joined transform), then reverse every face if the signed
volume / area of the mapped mesh is negative.

1. Reversing every face keeps a soup closed: directed side counts are mirrored (`pecnt_flip`), links are reversed
   (`plink_flip`, for non-degenerate triangles) and a reversed simple cycle is a simple cycle (`PFanCycle.swap`),
   in/out degrees are exchanged (`pcnt_flip`).
2. For a CLOSED soup the signed volume does not depend on the point it is measured from, and under an affine map
   `p ↦ L p + w` it is multiplied by `det L` (`vol6At_affine`; per triangle the difference is a sum over the three
   directed sides of a function that is antisymmetric in the side, and such sums vanish on a closed soup:
   `lsum_antisymm_balanced`).  Reversing every face negates it (`vol6At_flip`).  Hence the sign test of the code decides
   exactly `det L < 0` (`conjMesh_eq`), whatever vertex the volume is measured from.
3. `normal(t) · v` is multiplied by `det L` when the triangle and the direction are mapped (`ndot_map`) and negated by
   the flip: after the flip decision every direction that leaves the transformed solid through a triangle, mapped
   back, leaves through the mapped triangle on its normal side (`conjTri_outward`).
Same in 2-D.
-/
namespace M3d.C01Search
set_option linter.unusedSectionVars false

/-! ### 1. reversing every face -/
section generic
variable {A : Type} [DecidableEq A]

theorem pecnt_flip (m : List (A × A × A)) (p q : A) : pecnt (m.map flip3) (p, q) = pecnt m (q, p) := by
  unfold pecnt
  induction m with
  | nil => rfl
  | cons t m ih =>
    simp only [List.map_cons, List.flatMap_cons, List.countP_append, ih]
    congr 1
    obtain ⟨a, b, c⟩ := t
    simp only [psides, flip3, List.countP_cons, List.countP_nil, decide_eq_true_eq, Prod.mk.injEq]
    have e1 : (b = p ∧ a = q) ↔ (a = q ∧ b = p) := and_comm
    have e2 : (a = p ∧ c = q) ↔ (c = q ∧ a = p) := and_comm
    have e3 : (c = p ∧ b = q) ↔ (b = q ∧ c = p) := and_comm
    simp only [e1, e2, e3]
    omega

/-- reversing every triangle keeps "every directed side as often as its reverse, at most once" -/
theorem balanced_flip (m : List (A × A × A))
    (hm : ∀ p q, pecnt m (p, q) = pecnt m (q, p) ∧ pecnt m (p, q) ≤ 1) (p q : A) :
    pecnt (m.map flip3) (p, q) = pecnt (m.map flip3) (q, p) ∧ pecnt (m.map flip3) (p, q) ≤ 1 := by
  rw [pecnt_flip, pecnt_flip]
  exact hm q p

def NonDeg (t : A × A × A) : Prop := t.1 ≠ t.2.1 ∧ t.2.1 ≠ t.2.2 ∧ t.1 ≠ t.2.2

theorem prot_flip (V : A) (t : A × A × A) (h : NonDeg t) : prot V (flip3 t) = (prot V t).map flip2 := by
  obtain ⟨a, b, c⟩ := t
  obtain ⟨h1, h2, h3⟩ := h
  simp only at h1 h2 h3
  unfold prot flip3 flip2
  simp only
  by_cases ha : a = V
  · subst ha
    have hb : ¬ b = a := fun e => h1 e.symm
    simp [hb]
  · by_cases hb : b = V
    · subst hb
      simp [ha]
    · by_cases hc : c = V
      · subst hc
        simp [ha, hb]
      · simp [ha, hb, hc]

theorem plink_flip (V : A) (m : List (A × A × A)) (h : ∀ t ∈ m, NonDeg t) :
    plink V (m.map flip3) = (plink V m).map flip2 := by
  unfold plink
  induction m with
  | nil => rfl
  | cons t m ih =>
    have ht := h t (List.mem_cons_self ..)
    have ih' := ih (fun t' ht' => h t' (List.mem_cons_of_mem _ ht'))
    simp only [List.map_cons, List.filterMap_cons, prot_flip V t ht, ih']
    cases prot V t <;> simp

theorem flip2_eq_swap : (flip2 : A × A → A × A) = Prod.swap := rfl

/-- the reversed edges of a simple closed cycle are the edges of a simple closed cycle -/
theorem PFanCycle.swap {es : List (A × A)} (h : PFanCycle es) : PFanCycle (es.map flip2) := by
  obtain ⟨l, hl, hp⟩ := h
  cases l with
  | nil =>
    refine ⟨[], List.nodup_nil, ?_⟩
    have : es = [] := List.Perm.eq_nil hp
    rw [this]; exact List.Perm.refl _
  | cons a t =>
    refine ⟨a :: t.reverse, ?_, ?_⟩
    · have : (a :: t.reverse).Perm (a :: t) := List.Perm.cons a (List.reverse_perm t)
      exact this.nodup_iff.2 hl
    · have e : pcycleEdges (a :: t.reverse) = ((pcycleEdges (a :: t)).reverse).map flip2 := by
        simp only [pcycleEdges]
        have h : (List.zip (a :: t) (t ++ [a])).reverse = List.zip (t.reverse ++ [a]) (a :: t.reverse) := by
          rw [List.zip_eq_zipWith, List.reverse_zipWith (by simp), ← List.zip_eq_zipWith]
          simp
        rw [h, flip2_eq_swap, List.zip_swap]
      rw [e]
      exact (hp.trans (List.reverse_perm _).symm).map _

theorem nonDeg_map {B : Type} [DecidableEq B] (f : A → B) (hf : Function.Injective f) {t : A × A × A}
    (h : NonDeg t) : NonDeg (map3 f t) :=
  ⟨fun e => h.1 (hf e), fun e => h.2.1 (hf e), fun e => h.2.2 (hf e)⟩

/-- reversing every triangle keeps "every non-empty link is one simple cycle" -/
theorem fans_flip (m : List (A × A × A)) (hnd : ∀ t ∈ m, NonDeg t)
    (hm : ∀ V, plink V m ≠ [] → PFanCycle (plink V m)) (p : A) (hne : plink p (m.map flip3) ≠ []) :
    PFanCycle (plink p (m.map flip3)) := by
  rw [plink_flip p m hnd] at hne ⊢
  exact (hm p (fun e => hne (by rw [e]; rfl))).swap

theorem pcnt_flip (sel : Bool) (m : List (A × A)) (v : A) : pcnt sel (m.map flip2) v = pcnt (!sel) m v := by
  unfold pcnt
  rw [List.countP_map]
  apply List.countP_congr
  intro s _
  cases sel <;> simp [Function.comp, flip2]

theorem closed_flip (m : List (A × A)) (hm : ∀ v, pcnt false m v = pcnt true m v ∧ pcnt false m v ≤ 1) (p : A) :
    pcnt false (m.map flip2) p = pcnt true (m.map flip2) p ∧ pcnt false (m.map flip2) p ≤ 1 := by
  rw [pcnt_flip, pcnt_flip]
  simp only [Bool.not_false, Bool.not_true]
  exact ⟨(hm p).1.symm, (hm p).1 ▸ (hm p).2⟩

end generic

/-! ### 2. sums over the directed sides of a closed soup -/
section sums
variable {K : Type} [Field K] [LinearOrder K] [IsStrictOrderedRing K]
variable {A : Type}

/-- `Σ_{x ∈ l} F x` -/
def lsum (F : A → K) : List A → K
  | [] => 0
  | x :: xs => F x + lsum F xs

theorem lsum_append (F : A → K) (l l' : List A) : lsum F (l ++ l') = lsum F l + lsum F l' := by
  induction l with
  | nil => simp [lsum]
  | cons x xs ih => simp only [List.cons_append, lsum, ih]; ring

theorem lsum_perm (F : A → K) {l l' : List A} (h : l.Perm l') : lsum F l = lsum F l' := by
  induction h with
  | nil => rfl
  | cons x _ ih => simp only [lsum, ih]
  | swap x y l => simp only [lsum]; ring
  | trans _ _ ih1 ih2 => exact ih1.trans ih2

theorem lsum_map {B : Type} (F : B → K) (f : A → B) (l : List A) : lsum F (l.map f) = lsum (fun x => F (f x)) l := by
  induction l with
  | nil => rfl
  | cons x xs ih => simp only [List.map_cons, lsum, ih]

theorem lsum_neg (F : A → K) (l : List A) : lsum (fun x => - F x) l = - lsum F l := by
  induction l with
  | nil => simp [lsum]
  | cons x xs ih => simp only [lsum, ih]; ring

theorem lsum_congr {F G : A → K} (l : List A) (h : ∀ x, F x = G x) : lsum F l = lsum G l := by
  induction l with
  | nil => rfl
  | cons x xs ih => simp only [lsum, ih, h]

variable [DecidableEq A]

/-- on a list of directed sides that contains every side as often as its reverse, a function that changes sign
when the side is reversed sums to zero -/
theorem lsum_antisymm_balanced (F : A × A → K) (hF : ∀ p q, F (q, p) = - F (p, q)) (L : List (A × A))
    (hL : ∀ d : A × A, L.count d = L.count d.swap) : lsum F L = 0 := by
  have hperm : (L.map Prod.swap).Perm L := by
    rw [List.perm_iff_count]
    intro d
    have : d = Prod.swap d.swap := (Prod.swap_swap d).symm
    rw [this, List.count_map_of_injective _ _ Prod.swap_injective, Prod.swap_swap]
    exact (hL d).symm
  have h1 : lsum F (L.map Prod.swap) = lsum F L := lsum_perm F hperm
  rw [lsum_map] at h1
  have h2 : lsum (fun x => F (Prod.swap x)) L = - lsum F L := by
    rw [← lsum_neg]
    exact lsum_congr L (fun x => hF x.1 x.2)
  rw [h2] at h1
  linarith

/-- `pecnt` balance as a statement about `List.count` on the side list -/
theorem sides_count_balanced (m : List (A × A × A)) (hm : ∀ p q, pecnt m (p, q) = pecnt m (q, p)) (d : A × A) :
    (m.flatMap psides).count d = (m.flatMap psides).count d.swap := by
  have e : ∀ d : A × A, (m.flatMap psides).count d = pecnt m d := by
    intro d
    unfold pecnt
    rw [List.count_eq_countP]
    apply List.countP_congr
    intro e _
    simp
  rw [e, e]
  exact hm d.1 d.2

/-- on a closed outline a function of the vertex summed over the segment starts equals its sum over the ends -/
theorem lsum_ends_closed (H : A → K) (m : List (A × A)) (hm : ∀ v, pcnt false m v = pcnt true m v) :
    lsum (fun s => H s.1) m = lsum (fun s => H s.2) m := by
  have hperm : (m.map Prod.fst).Perm (m.map Prod.snd) := by
    rw [List.perm_iff_count]
    intro v
    have e1 : (m.map Prod.fst).count v = pcnt false m v := by
      unfold pcnt
      rw [List.count_eq_countP, List.countP_map]
      apply List.countP_congr
      intro s _
      simp
    have e2 : (m.map Prod.snd).count v = pcnt true m v := by
      unfold pcnt
      rw [List.count_eq_countP, List.countP_map]
      apply List.countP_congr
      intro s _
      simp
    rw [e1, e2]
    exact hm v
  have := lsum_perm H hperm
  rwa [lsum_map, lsum_map] at this

end sums

/-! ### 3. affine maps, signed volume, normals -/
section affine
variable {K : Type} [Field K] [LinearOrder K] [IsStrictOrderedRing K]

/-- an affine map of space `p ↦ L p + w` (rows of `L`: `m1_ m2_ m3_`).  `Translate`, `Scale`, `VecScale`,
`Matrix3Transform`, their inverses and every `JoinedTransform` of them are of this form (`Aff3.comp`). -/
structure Aff3 (K : Type) where
  m11 : K
  m12 : K
  m13 : K
  m21 : K
  m22 : K
  m23 : K
  m31 : K
  m32 : K
  m33 : K
  w1 : K
  w2 : K
  w3 : K

namespace Aff3

/-- the linear part (what the map does to directions) -/
def lin (g : Aff3 K) (p : K × K × K) : K × K × K :=
  (g.m11 * p.1 + g.m12 * p.2.1 + g.m13 * p.2.2,
   g.m21 * p.1 + g.m22 * p.2.1 + g.m23 * p.2.2,
   g.m31 * p.1 + g.m32 * p.2.1 + g.m33 * p.2.2)

def apply (g : Aff3 K) (p : K × K × K) : K × K × K :=
  ((g.lin p).1 + g.w1, (g.lin p).2.1 + g.w2, (g.lin p).2.2 + g.w3)

def det (g : Aff3 K) : K :=
  g.m11 * (g.m22 * g.m33 - g.m23 * g.m32) - g.m12 * (g.m21 * g.m33 - g.m23 * g.m31)
    + g.m13 * (g.m21 * g.m32 - g.m22 * g.m31)

/-- `h` after `g` (a `JoinedTransform` applies its members from left to right) -/
def comp (h g : Aff3 K) : Aff3 K where
  m11 := h.m11 * g.m11 + h.m12 * g.m21 + h.m13 * g.m31
  m12 := h.m11 * g.m12 + h.m12 * g.m22 + h.m13 * g.m32
  m13 := h.m11 * g.m13 + h.m12 * g.m23 + h.m13 * g.m33
  m21 := h.m21 * g.m11 + h.m22 * g.m21 + h.m23 * g.m31
  m22 := h.m21 * g.m12 + h.m22 * g.m22 + h.m23 * g.m32
  m23 := h.m21 * g.m13 + h.m22 * g.m23 + h.m23 * g.m33
  m31 := h.m31 * g.m11 + h.m32 * g.m21 + h.m33 * g.m31
  m32 := h.m31 * g.m12 + h.m32 * g.m22 + h.m33 * g.m32
  m33 := h.m31 * g.m13 + h.m32 * g.m23 + h.m33 * g.m33
  w1 := h.m11 * g.w1 + h.m12 * g.w2 + h.m13 * g.w3 + h.w1
  w2 := h.m21 * g.w1 + h.m22 * g.w2 + h.m23 * g.w3 + h.w2
  w3 := h.m31 * g.w1 + h.m32 * g.w2 + h.m33 * g.w3 + h.w3

theorem comp_apply (h g : Aff3 K) (p : K × K × K) : (comp h g).apply p = h.apply (g.apply p) := by
  simp only [apply, lin, comp, Prod.mk.injEq]
  refine ⟨?_, ?_, ?_⟩ <;> ring

theorem det_comp (h g : Aff3 K) : (comp h g).det = h.det * g.det := by
  simp only [det, comp]; ring

/-- an affine map with non-zero determinant is injective -/
theorem injective (g : Aff3 K) (hd : g.det ≠ 0) : Function.Injective g.apply := by
  rintro ⟨a1, a2, a3⟩ ⟨b1, b2, b3⟩ h
  simp only [apply, lin, Prod.mk.injEq] at h
  obtain ⟨h1, h2, h3⟩ := h
  have e1 : g.det * (a1 - b1) = 0 := by
    simp only [det]
    linear_combination (g.m22 * g.m33 - g.m23 * g.m32) * h1 - (g.m12 * g.m33 - g.m13 * g.m32) * h2
      + (g.m12 * g.m23 - g.m13 * g.m22) * h3
  have e2 : g.det * (a2 - b2) = 0 := by
    simp only [det]
    linear_combination -(g.m21 * g.m33 - g.m23 * g.m31) * h1 + (g.m11 * g.m33 - g.m13 * g.m31) * h2
      - (g.m11 * g.m23 - g.m13 * g.m21) * h3
  have e3 : g.det * (a3 - b3) = 0 := by
    simp only [det]
    linear_combination (g.m21 * g.m32 - g.m22 * g.m31) * h1 - (g.m11 * g.m32 - g.m12 * g.m31) * h2
      + (g.m11 * g.m22 - g.m12 * g.m21) * h3
  have f1 := (mul_eq_zero.1 e1).resolve_left hd
  have f2 := (mul_eq_zero.1 e2).resolve_left hd
  have f3 := (mul_eq_zero.1 e3).resolve_left hd
  simp only [Prod.mk.injEq]
  exact ⟨by linarith, by linarith, by linarith⟩

end Aff3

/-- `Σ_t a · (b × c)`: six times the signed volume measured from the origin -/
def vol6 (ts : List ((K × K × K) × (K × K × K) × (K × K × K))) : K := lsum (fun t => det3 t.1 t.2.1 t.2.2) ts

theorem vol6At_eq_lsum (o : K × K × K) (ts : List ((K × K × K) × (K × K × K) × (K × K × K))) :
    vol6At o ts = lsum (fun t => det3 (sub3 t.1 o) (sub3 t.2.1 o) (sub3 t.2.2 o)) ts := by
  induction ts with
  | nil => rfl
  | cons t ts ih => simp only [vol6At, lsum, ih]

theorem lsum_add {A : Type} (F G : A → K) (l : List A) : lsum (fun x => F x + G x) l = lsum F l + lsum G l := by
  induction l with
  | nil => simp [lsum]
  | cons x xs ih => simp only [lsum, ih]; ring

theorem lsum_mul {A : Type} (c : K) (F : A → K) (l : List A) : lsum (fun x => c * F x) l = c * lsum F l := by
  induction l with
  | nil => simp [lsum]
  | cons x xs ih => simp only [lsum, ih]; ring

theorem lsum_sides {A : Type} (F : A × A → K) (m : List (A × A × A)) :
    lsum (fun t => F (t.1, t.2.1) + F (t.2.1, t.2.2) + F (t.2.2, t.1)) m = lsum F (m.flatMap psides) := by
  induction m with
  | nil => rfl
  | cons t m ih =>
    simp only [List.flatMap_cons, lsum_append, lsum, ih, psides]
    ring

/-- the side term of one triangle under the affine map `g`, measured from `o` -/
def sideTerm (g : Aff3 K) (o : K × K × K) (e : (K × K × K) × (K × K × K)) : K :=
  det3 (g.w1, g.w2, g.w3) (g.lin e.1) (g.lin e.2) - det3 o (g.apply e.1) (g.apply e.2)

theorem sideTerm_antisymm (g : Aff3 K) (o p q : K × K × K) : sideTerm g o (q, p) = - sideTerm g o (p, q) := by
  simp only [sideTerm, det3, Aff3.apply, Aff3.lin]; ring

theorem det3_affine (g : Aff3 K) (o a b c : K × K × K) :
    det3 (sub3 (g.apply a) o) (sub3 (g.apply b) o) (sub3 (g.apply c) o) =
      g.det * det3 a b c + (sideTerm g o (a, b) + sideTerm g o (b, c) + sideTerm g o (c, a)) := by
  simp only [sideTerm, det3, sub3, Aff3.apply, Aff3.lin, Aff3.det]; ring

/-- **Signed volume of a closed soup under an affine map**, measured from ANY point: `det L` times the volume. -/
theorem vol6At_affine (g : Aff3 K) (o : K × K × K) (ts : List ((K × K × K) × (K × K × K) × (K × K × K)))
    (hb : ∀ p q, pecnt ts (p, q) = pecnt ts (q, p)) :
    vol6At o (ts.map (map3 g.apply)) = g.det * vol6 ts := by
  rw [vol6At_eq_lsum, lsum_map]
  have e : ∀ t : (K × K × K) × (K × K × K) × (K × K × K),
      det3 (sub3 (map3 g.apply t).1 o) (sub3 (map3 g.apply t).2.1 o) (sub3 (map3 g.apply t).2.2 o) =
        g.det * det3 t.1 t.2.1 t.2.2 +
          (sideTerm g o (t.1, t.2.1) + sideTerm g o (t.2.1, t.2.2) + sideTerm g o (t.2.2, t.1)) :=
    fun t => det3_affine g o t.1 t.2.1 t.2.2
  rw [lsum_congr ts e, lsum_add, lsum_mul, lsum_sides,
    lsum_antisymm_balanced (sideTerm g o) (sideTerm_antisymm g o) _ (sides_count_balanced ts hb)]
  simp [vol6]

/-- the identity as an affine map -/
def Aff3.one : Aff3 K := ⟨1, 0, 0, 0, 1, 0, 0, 0, 1, 0, 0, 0⟩

theorem Aff3.one_apply (p : K × K × K) : (Aff3.one : Aff3 K).apply p = p := by
  obtain ⟨a, b, c⟩ := p
  simp [Aff3.apply, Aff3.lin, Aff3.one]

/-- the signed volume of a closed soup does not depend on the point it is measured from -/
theorem vol6At_closed (o : K × K × K) (ts : List ((K × K × K) × (K × K × K) × (K × K × K)))
    (hb : ∀ p q, pecnt ts (p, q) = pecnt ts (q, p)) : vol6At o ts = vol6 ts := by
  have h := vol6At_affine (Aff3.one : Aff3 K) o ts hb
  have e : ts.map (map3 (Aff3.one : Aff3 K).apply) = ts := by
    conv_rhs => rw [← List.map_id ts]
    apply List.map_congr_left
    intro t _
    simp [map3, Aff3.one_apply]
  rw [e] at h
  rw [h]
  simp [Aff3.det, Aff3.one]

theorem vol6At_flip (o : K × K × K) (ts : List ((K × K × K) × (K × K × K) × (K × K × K))) :
    vol6At o (ts.map flip3) = - vol6At o ts := by
  induction ts with
  | nil => simp [vol6At]
  | cons t ts ih =>
    simp only [List.map_cons, vol6At, ih, flip3, det3, sub3]; ring

/-- `normal(t) · v`, the normal being `(t₂ − t₁) × (t₃ − t₁)` -/
def ndot (t : (K × K × K) × (K × K × K) × (K × K × K)) (v : K × K × K) : K :=
  det3 (sub3 t.2.1 t.1) (sub3 t.2.2 t.1) v

theorem ndot_map (g : Aff3 K) (t : (K × K × K) × (K × K × K) × (K × K × K)) (v : K × K × K) :
    ndot (map3 g.apply t) (g.lin v) = g.det * ndot t v := by
  simp only [ndot, map3, det3, sub3, Aff3.apply, Aff3.lin, Aff3.det]; ring

theorem ndot_flip (t : (K × K × K) × (K × K × K) × (K × K × K)) (v : K × K × K) :
    ndot (flip3 t) v = - ndot t v := by
  simp only [ndot, flip3, det3, sub3]; ring

/-- what `conjMesh` does to one triangle when the map back is `g` -/
def conjTri (g : Aff3 K) (t : (K × K × K) × (K × K × K) × (K × K × K)) :
    (K × K × K) × (K × K × K) × (K × K × K) :=
  if g.det < 0 then flip3 (map3 g.apply t) else map3 g.apply t

/-- **the sign test decides exactly "the map back reverses orientation"**: for a closed soup of positive volume
and an invertible affine map back, measured from any point `o` -/
theorem conjMesh_eq (g : Aff3 K) (hd : g.det ≠ 0) (o : K × K × K)
    (ts : List ((K × K × K) × (K × K × K) × (K × K × K)))
    (hb : ∀ p q, pecnt ts (p, q) = pecnt ts (q, p)) (hv : 0 < vol6 ts) :
    conjMesh g.apply o ts = ts.map (conjTri g) := by
  unfold conjMesh conjTri
  simp only [vol6At_affine g o ts hb]
  by_cases h : g.det < 0
  · have : g.det * vol6 ts < 0 := mul_neg_of_neg_of_pos h hv
    simp [this, h, List.map_map, Function.comp]
  · have hpos : 0 < g.det := lt_of_le_of_ne (not_lt.1 h) (Ne.symm hd)
    have : ¬ g.det * vol6 ts < 0 := not_lt.2 (le_of_lt (mul_pos hpos hv))
    simp [this, h]

/-- a direction on the normal side of a triangle of the transformed space is, mapped back, on the normal side of
the triangle `conjMesh` returns for it -/
theorem conjTri_outward (g : Aff3 K) (hd : g.det ≠ 0) (t : (K × K × K) × (K × K × K) × (K × K × K))
    (v : K × K × K) (h : 0 < ndot t v) : 0 < ndot (conjTri g t) (g.lin v) := by
  unfold conjTri
  by_cases hn : g.det < 0
  · simp only [hn, if_true, ndot_flip, ndot_map]
    have := mul_neg_of_neg_of_pos hn h
    linarith
  · have hpos : 0 < g.det := lt_of_le_of_ne (not_lt.1 hn) (Ne.symm hd)
    simp only [hn, if_false, ndot_map]
    exact mul_pos hpos h

/-- … and the result has positive signed volume, measured from anywhere -/
theorem conjMesh_vol_pos (g : Aff3 K) (hd : g.det ≠ 0) (o o' : K × K × K)
    (ts : List ((K × K × K) × (K × K × K) × (K × K × K)))
    (hb : ∀ p q, pecnt ts (p, q) = pecnt ts (q, p)) (hv : 0 < vol6 ts) :
    0 < vol6At o' (conjMesh g.apply o ts) := by
  unfold conjMesh
  simp only [vol6At_affine g o ts hb]
  by_cases h : g.det < 0
  · have h1 : g.det * vol6 ts < 0 := mul_neg_of_neg_of_pos h hv
    simp only [h1, if_true, vol6At_flip, vol6At_affine g o' ts hb]
    linarith
  · have hpos : 0 < g.det := lt_of_le_of_ne (not_lt.1 h) (Ne.symm hd)
    have h1 : ¬ g.det * vol6 ts < 0 := not_lt.2 (le_of_lt (mul_pos hpos hv))
    simp only [h1, if_false, vol6At_affine g o' ts hb]
    exact mul_pos hpos hv

/-- whatever the map and whatever the test decides, the signed volume `conjMesh` returns is never negative when
measured from the point the test used -/
theorem conjMesh_vol_nonneg (f : K × K × K → K × K × K) (o : K × K × K)
    (ts : List ((K × K × K) × (K × K × K) × (K × K × K))) : 0 ≤ vol6At o (conjMesh f o ts) := by
  unfold conjMesh
  by_cases h : vol6At o (ts.map (map3 f)) < 0
  · simp only [h, if_true, vol6At_flip]; linarith
  · simp only [h, if_false]; exact not_lt.1 h

/-! ### the plane -/

structure Aff2 (K : Type) where
  m11 : K
  m12 : K
  m21 : K
  m22 : K
  w1 : K
  w2 : K

namespace Aff2
def lin (g : Aff2 K) (p : K × K) : K × K := (g.m11 * p.1 + g.m12 * p.2, g.m21 * p.1 + g.m22 * p.2)
def apply (g : Aff2 K) (p : K × K) : K × K := ((g.lin p).1 + g.w1, (g.lin p).2 + g.w2)
def det (g : Aff2 K) : K := g.m11 * g.m22 - g.m12 * g.m21

def comp (h g : Aff2 K) : Aff2 K where
  m11 := h.m11 * g.m11 + h.m12 * g.m21
  m12 := h.m11 * g.m12 + h.m12 * g.m22
  m21 := h.m21 * g.m11 + h.m22 * g.m21
  m22 := h.m21 * g.m12 + h.m22 * g.m22
  w1 := h.m11 * g.w1 + h.m12 * g.w2 + h.w1
  w2 := h.m21 * g.w1 + h.m22 * g.w2 + h.w2

theorem comp_apply (h g : Aff2 K) (p : K × K) : (comp h g).apply p = h.apply (g.apply p) := by
  simp only [apply, lin, comp, Prod.mk.injEq]
  refine ⟨?_, ?_⟩ <;> ring

theorem det_comp (h g : Aff2 K) : (comp h g).det = h.det * g.det := by
  simp only [det, comp]; ring

theorem injective (g : Aff2 K) (hd : g.det ≠ 0) : Function.Injective g.apply := by
  rintro ⟨a1, a2⟩ ⟨b1, b2⟩ h
  simp only [apply, lin, Prod.mk.injEq] at h
  obtain ⟨h1, h2⟩ := h
  have e1 : g.det * (a1 - b1) = 0 := by
    simp only [det]
    linear_combination g.m22 * h1 - g.m12 * h2
  have e2 : g.det * (a2 - b2) = 0 := by
    simp only [det]
    linear_combination -g.m21 * h1 + g.m11 * h2
  have f1 := (mul_eq_zero.1 e1).resolve_left hd
  have f2 := (mul_eq_zero.1 e2).resolve_left hd
  simp only [Prod.mk.injEq]
  exact ⟨by linarith, by linarith⟩

def one : Aff2 K := ⟨1, 0, 0, 1, 0, 0⟩

theorem one_apply (p : K × K) : (one : Aff2 K).apply p = p := by
  obtain ⟨a, b⟩ := p
  simp [apply, lin, one]
end Aff2

/-- the shoelace sum measured from the origin -/
def shoe2 (ss : List ((K × K) × (K × K))) : K := lsum (fun s => det2 s.1 s.2) ss

theorem shoe2At_eq_lsum (o : K × K) (ss : List ((K × K) × (K × K))) :
    shoe2At o ss = lsum (fun s => det2 (sub2 s.1 o) (sub2 s.2 o)) ss := by
  induction ss with
  | nil => rfl
  | cons s ss ih => simp only [shoe2At, lsum, ih]

def endTerm (g : Aff2 K) (o p : K × K) : K := det2 (g.w1, g.w2) (g.lin p) - det2 o (g.apply p)

theorem det2_affine (g : Aff2 K) (o a b : K × K) :
    det2 (sub2 (g.apply a) o) (sub2 (g.apply b) o) = g.det * det2 a b + (endTerm g o b + - endTerm g o a) := by
  simp only [endTerm, det2, sub2, Aff2.apply, Aff2.lin, Aff2.det]; ring

theorem shoe2At_affine (g : Aff2 K) (o : K × K) (ss : List ((K × K) × (K × K)))
    (hb : ∀ v, pcnt false ss v = pcnt true ss v) : shoe2At o (ss.map (map2 g.apply)) = g.det * shoe2 ss := by
  rw [shoe2At_eq_lsum, lsum_map]
  have e : ∀ s : (K × K) × (K × K),
      det2 (sub2 (map2 g.apply s).1 o) (sub2 (map2 g.apply s).2 o) =
        g.det * det2 s.1 s.2 + (endTerm g o s.2 + - endTerm g o s.1) := fun s => det2_affine g o s.1 s.2
  rw [lsum_congr ss e, lsum_add, lsum_mul, lsum_add, lsum_neg, lsum_ends_closed (endTerm g o) ss hb]
  simp [shoe2]

theorem shoe2At_closed (o : K × K) (ss : List ((K × K) × (K × K)))
    (hb : ∀ v, pcnt false ss v = pcnt true ss v) : shoe2At o ss = shoe2 ss := by
  have h := shoe2At_affine (Aff2.one : Aff2 K) o ss hb
  have e : ss.map (map2 (Aff2.one : Aff2 K).apply) = ss := by
    conv_rhs => rw [← List.map_id ss]
    apply List.map_congr_left
    intro s _
    simp [map2, Aff2.one_apply]
  rw [e] at h
  rw [h]
  simp [Aff2.det, Aff2.one]

theorem shoe2At_flip (o : K × K) (ss : List ((K × K) × (K × K))) :
    shoe2At o (ss.map flip2) = - shoe2At o ss := by
  induction ss with
  | nil => simp [shoe2At]
  | cons s ss ih => simp only [List.map_cons, shoe2At, ih, flip2, det2, sub2]; ring

/-- `(s₂ − s₁) × v`: positive iff `v` points to the LEFT of the segment — the excluded side (the contained side is
on the right of every segment) -/
def ndot2 (s : (K × K) × (K × K)) (v : K × K) : K := det2 (sub2 s.2 s.1) v

theorem ndot2_map (g : Aff2 K) (s : (K × K) × (K × K)) (v : K × K) :
    ndot2 (map2 g.apply s) (g.lin v) = g.det * ndot2 s v := by
  simp only [ndot2, map2, det2, sub2, Aff2.apply, Aff2.lin, Aff2.det]; ring

theorem ndot2_flip (s : (K × K) × (K × K)) (v : K × K) : ndot2 (flip2 s) v = - ndot2 s v := by
  simp only [ndot2, flip2, det2, sub2]; ring

def conjSeg (g : Aff2 K) (s : (K × K) × (K × K)) : (K × K) × (K × K) :=
  if g.det < 0 then flip2 (map2 g.apply s) else map2 g.apply s

theorem conjMesh2_eq (g : Aff2 K) (hd : g.det ≠ 0) (o : K × K) (ss : List ((K × K) × (K × K)))
    (hb : ∀ v, pcnt false ss v = pcnt true ss v) (hv : shoe2 ss < 0) :
    conjMesh2 g.apply o ss = ss.map (conjSeg g) := by
  unfold conjMesh2 conjSeg
  simp only [shoe2At_affine g o ss hb]
  by_cases h : g.det < 0
  · have : 0 < g.det * shoe2 ss := mul_pos_of_neg_of_neg h hv
    simp [this, h, List.map_map, Function.comp]
  · have hpos : 0 < g.det := lt_of_le_of_ne (not_lt.1 h) (Ne.symm hd)
    have : ¬ 0 < g.det * shoe2 ss := not_lt.2 (le_of_lt (mul_neg_of_pos_of_neg hpos hv))
    simp [this, h]

theorem conjSeg_outward (g : Aff2 K) (hd : g.det ≠ 0) (s : (K × K) × (K × K)) (v : K × K)
    (h : 0 < ndot2 s v) : 0 < ndot2 (conjSeg g s) (g.lin v) := by
  unfold conjSeg
  by_cases hn : g.det < 0
  · simp only [hn, if_true, ndot2_flip, ndot2_map]
    have := mul_neg_of_neg_of_pos hn h
    linarith
  · have hpos : 0 < g.det := lt_of_le_of_ne (not_lt.1 hn) (Ne.symm hd)
    simp only [hn, if_false, ndot2_map]
    exact mul_pos hpos h

theorem conjMesh2_shoe_neg (g : Aff2 K) (hd : g.det ≠ 0) (o o' : K × K) (ss : List ((K × K) × (K × K)))
    (hb : ∀ v, pcnt false ss v = pcnt true ss v) (hv : shoe2 ss < 0) :
    shoe2At o' (conjMesh2 g.apply o ss) < 0 := by
  unfold conjMesh2
  simp only [shoe2At_affine g o ss hb]
  by_cases h : g.det < 0
  · have h1 : 0 < g.det * shoe2 ss := mul_pos_of_neg_of_neg h hv
    simp only [h1, if_true, shoe2At_flip, shoe2At_affine g o' ss hb]
    linarith
  · have hpos : 0 < g.det := lt_of_le_of_ne (not_lt.1 h) (Ne.symm hd)
    have h1 : ¬ 0 < g.det * shoe2 ss := not_lt.2 (le_of_lt (mul_neg_of_pos_of_neg hpos hv))
    simp only [h1, if_false, shoe2At_affine g o' ss hb]
    exact mul_neg_of_pos_of_neg hpos hv

end affine

/-! ### closedness of `conjMesh` for EVERY injective map back and either outcome of the sign test -/
section closed
variable {K : Type} [Field K] [LinearOrder K] [IsStrictOrderedRing K]

theorem conjMesh_balanced (f : K × K × K → K × K × K) (hf : Function.Injective f) (o : K × K × K)
    {A : Type} [DecidableEq A] (src : A → K × K × K) (hsrc : Function.Injective src) (m : List (A × A × A))
    (hm : ∀ U V, pecnt m (U, V) = pecnt m (V, U) ∧ pecnt m (U, V) ≤ 1) (p q : K × K × K) :
    pecnt (conjMesh f o (m.map (map3 src))) (p, q) = pecnt (conjMesh f o (m.map (map3 src))) (q, p) ∧
      pecnt (conjMesh f o (m.map (map3 src))) (p, q) ≤ 1 := by
  have h1 := balanced_map f hf _ (balanced_map src hsrc m hm)
  unfold conjMesh
  simp only
  split
  · exact balanced_flip _ h1 p q
  · exact h1 p q

theorem conjMesh_fans (f : K × K × K → K × K × K) (hf : Function.Injective f) (o : K × K × K)
    {A : Type} [DecidableEq A] (src : A → K × K × K) (hsrc : Function.Injective src) (m : List (A × A × A))
    (hnd : ∀ t ∈ m, NonDeg t) (hm : ∀ V, plink V m ≠ [] → PFanCycle (plink V m)) (p : K × K × K)
    (hne : plink p (conjMesh f o (m.map (map3 src))) ≠ []) :
    PFanCycle (plink p (conjMesh f o (m.map (map3 src)))) := by
  have h1 := fans_map f hf _ (fans_map src hsrc m hm)
  have hnd' : ∀ t ∈ (m.map (map3 src)).map (map3 f), NonDeg t := by
    intro t ht
    obtain ⟨t1, ht1, rfl⟩ := List.mem_map.1 ht
    obtain ⟨t0, ht0, rfl⟩ := List.mem_map.1 ht1
    exact nonDeg_map f hf (nonDeg_map src hsrc (hnd t0 ht0))
  unfold conjMesh at hne ⊢
  simp only at hne ⊢
  split at hne
  · rename_i hc
    rw [if_pos hc]
    exact fans_flip _ hnd' h1 p hne
  · rename_i hc
    rw [if_neg hc]
    exact h1 p hne

theorem conjMesh2_closed (f : K × K → K × K) (hf : Function.Injective f) (o : K × K)
    {A : Type} [DecidableEq A] (src : A → K × K) (hsrc : Function.Injective src) (m : List (A × A))
    (hm : ∀ v, pcnt false m v = pcnt true m v ∧ pcnt false m v ≤ 1) (p : K × K) :
    pcnt false (conjMesh2 f o (m.map (map2 src))) p = pcnt true (conjMesh2 f o (m.map (map2 src))) p ∧
      pcnt false (conjMesh2 f o (m.map (map2 src))) p ≤ 1 := by
  have h1 := closed_map f hf _ (closed_map src hsrc m hm)
  unfold conjMesh2
  simp only
  split
  · exact closed_flip _ h1 p
  · exact h1 p

end closed

end M3d.C01Search
