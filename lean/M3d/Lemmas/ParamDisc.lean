import M3d.Lemmas.Surface
import M3d.Lemmas.ParamGrow
/-!
# Soundness of the executable disc decider `M3d.Param.isDisc`

`isDisc ts = true` proves: no degenerate face, every directed edge used once (oriented,
edge-manifold with boundary), every vertex link is one cycle or one open path, the face adjacency
graph is connected, the boundary edges form exactly one simple cycle, and `V − E + F = 1`.
(For a connected compact surface `χ = 2 − 2g − b`, so `χ = 1` with `b = 1` is the disc.)
-/
namespace M3d.Param
open M3d.Surface

/-- `t` can be reached from `t0` through faces of `ts` that share an edge. -/
inductive Reach (ts : List Tri) (t0 : Tri) : Tri → Prop where
  | refl : Reach ts t0 t0
  | step {s t : Tri} (h : Reach ts t0 s) (hadj : adjacent s t = true) (ht : t ∈ ts) : Reach ts t0 t

def ConnectedSoup (ts : List Tri) : Prop := ∃ t0 ∈ ts, ∀ t ∈ ts, Reach ts t0 t

theorem reachF_sound (ts : List Tri) (t0 : Tri) (n : Nat) (frontier unvisited : List Tri)
    (hf : ∀ s ∈ frontier, Reach ts t0 s) (hu : ∀ t ∈ unvisited, t ∈ ts) :
    ∀ t ∈ unvisited, t ∉ reachF n frontier unvisited → Reach ts t0 t := by
  induction n generalizing frontier unvisited with
  | zero => intro t ht hn; exact absurd ht hn
  | succ n ih =>
    intro t ht hn
    unfold reachF at hn
    split at hn
    · exact absurd ht hn
    · simp only at hn
      have hp1 : ∀ x ∈ (unvisited.partition fun t => frontier.any fun s => adjacent s t).1, Reach ts t0 x := by
        intro x hx
        rw [List.partition_eq_filter_filter] at hx
        obtain ⟨hxu, hxa⟩ := List.mem_filter.mp hx
        obtain ⟨s, hs, hadj⟩ := List.any_eq_true.mp hxa
        exact Reach.step (hf s hs) hadj (hu x hxu)
      have hp2 : ∀ x ∈ (unvisited.partition fun t => frontier.any fun s => adjacent s t).2, x ∈ ts := by
        intro x hx
        rw [List.partition_eq_filter_filter] at hx
        exact hu x (List.mem_filter.mp hx).1
      by_cases hadj : (frontier.any fun s => adjacent s t) = true
      · exact hp1 t (by rw [List.partition_eq_filter_filter]; exact List.mem_filter.mpr ⟨ht, hadj⟩)
      · refine ih _ _ hp1 hp2 t ?_ hn
        rw [List.partition_eq_filter_filter]
        exact List.mem_filter.mpr ⟨ht, by simpa using hadj⟩

theorem connected_sound (ts : List Tri) (h : connected ts = true) : ConnectedSoup ts := by
  unfold connected at h
  cases ts with
  | nil => simp at h
  | cons t0 r =>
    simp only at h
    refine ⟨t0, by simp, ?_⟩
    intro t ht
    rcases List.mem_cons.mp ht with rfl | ht
    · exact Reach.refl
    · have hemp : reachF (t0 :: r).length [t0] r = [] := by simpa using h
      refine reachF_sound (t0 :: r) t0 (t0 :: r).length [t0] r ?_ ?_ t ht ?_
      · intro s hs; simp at hs; subst hs; exact Reach.refl
      · intro x hx; simp [hx]
      · rw [hemp]; simp

theorem orientedEdges_iff (ts : List Tri) : orientedEdges ts = true ↔ OrientedEdges ts := by
  simp [orientedEdges, OrientedEdges]

/-- The link of `v` is one closed cycle (interior vertex) or becomes one after adding a single
closing edge (boundary vertex: one open path). -/
def LinkOK (ts : List Tri) (v : Nat) : Prop := FanCycle (link v ts) ∨ ∃ e : Edge, FanCycle (e :: link v ts)

theorem linkOK_sound (ts : List Tri) (v : Nat) (h : linkOK ts v = true) : LinkOK ts v := by
  unfold linkOK at h
  simp only at h
  split at h
  · rename_i hc; exact Or.inl ((fanCycle_iff _).mp hc)
  · split at h
    · rename_i s e _ _
      exact Or.inr ⟨_, (fanCycle_iff _).mp h⟩
    · simp at h

/-- What `isDisc` decides (soundness direction). -/
structure Disc (ts : List Tri) : Prop where
  nondeg : NoDegenerate ts
  oriented : OrientedEdges ts
  links : ∀ v ∈ verts ts, LinkOK ts v
  conn : ConnectedSoup ts
  bdyNonempty : bdyEdges ts ≠ []
  bdyCycle : FanCycle (bdyEdges ts)
  chi : euler ts = 1

theorem isDisc_sound (ts : List Tri) (h : isDisc ts = true) : Disc ts := by
  simp only [isDisc, Bool.and_eq_true, List.all_eq_true, Bool.not_eq_true', beq_iff_eq] at h
  obtain ⟨⟨⟨⟨⟨⟨h1, h2⟩, h3⟩, h4⟩, h5⟩, h6⟩, h7⟩ := h
  exact ⟨(noDegenerate_iff ts).mp h1, (orientedEdges_iff ts).mp h2, fun v hv => linkOK_sound ts v (h3 v hv),
    connected_sound ts h4, by intro he; simp [he] at h5, (fanCycle_iff _).mp h6, h7⟩

end M3d.Param
