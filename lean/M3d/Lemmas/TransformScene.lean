import M3d.Model.TransformScene
import M3d.Lemmas.TransformNest
/-!
# C05 — scene graphs (helper lemmas)

* a transform wrapped round a group = the group of the wrapped members (rays, counts, first collision, sphere);
* the pointer semantics `Scene.run` only ever appends to the store of rays and reports the collisions of the
  value semantics `Scene.collider`.
-/
namespace M3d.Tf

set_option linter.unusedSectionVars false
set_option linter.unusedVariables false

variable {K : Type} [Field K] [LinearOrder K] [IsStrictOrderedRing K]

/-! ## a transform distributes over a group -/

theorem transformCollider_hits (sqrtF : K → K) (t : Xf K) (c : Collider K) (r : Ray K) :
    (transformCollider sqrtF t c).hits r = (c.hits (innerRay t.inverse r)).map (outerCollision sqrtF t) := rfl

theorem transformCollider_count (sqrtF : K → K) (t : Xf K) (c : Collider K) (r : Ray K) :
    (transformCollider sqrtF t c).count r = c.count (innerRay t.inverse r) := rfl

theorem transformCollider_first (sqrtF : K → K) (t : Xf K) (c : Collider K) (r : Ray K) :
    (transformCollider sqrtF t c).first r = tcFirst sqrtF t c r := rfl

theorem transformCollider_sphere (sqrtF : K → K) (t : Xf K) (c : Collider K) (p : V3 K) (rad : K) :
    (transformCollider sqrtF t c).sphere p rad = c.sphere (t.inverse.apply p) (t.inverse.applyDistance rad) := rfl

theorem group_hits_distrib (sqrtF : K → K) (t : Xf K) (m : Collider K) (ms : List (Collider K)) (r : Ray K) :
    (transformCollider sqrtF t (groupCollider m ms)).hits r =
      (groupCollider (transformCollider sqrtF t m) (ms.map (transformCollider sqrtF t))).hits r := by
  simp only [transformCollider_hits, groupCollider, ← List.map_cons, List.flatMap_map, List.map_flatMap]

theorem group_count_distrib (sqrtF : K → K) (t : Xf K) (m : Collider K) (ms : List (Collider K)) (r : Ray K) :
    (transformCollider sqrtF t (groupCollider m ms)).count r =
      (groupCollider (transformCollider sqrtF t m) (ms.map (transformCollider sqrtF t))).count r := by
  simp only [transformCollider_count, groupCollider, ← List.map_cons, List.map_map]
  rfl

theorem group_sphere_distrib (sqrtF : K → K) (t : Xf K) (m : Collider K) (ms : List (Collider K)) (p : V3 K)
    (rad : K) :
    (transformCollider sqrtF t (groupCollider m ms)).sphere p rad =
      (groupCollider (transformCollider sqrtF t m) (ms.map (transformCollider sqrtF t))).sphere p rad := by
  simp only [transformCollider_sphere, groupCollider, ← List.map_cons, List.any_map]
  rfl

/-- What `transformedCollider.FirstRayCollision` does to the pair returned by the wrapped collider. -/
def outerFirst (sqrtF : K → K) (t : Xf K) (res : Hit K × Bool) : Hit K × Bool :=
  if res.2 then (outerCollision sqrtF t res.1, true) else (⟨0, V3.zero, 0⟩, false)

theorem tcFirst_eq (sqrtF : K → K) (t : Xf K) (c : Collider K) (r : Ray K) :
    tcFirst sqrtF t c r = outerFirst sqrtF t (c.first (innerRay t.inverse r)) := rfl

theorem groupFirstStep_outer (sqrtF : K → K) (t : Xf K) (r : Ray K) (acc : Hit K × Bool) (c : Collider K) :
    outerFirst sqrtF t (groupFirstStep (innerRay t.inverse r) acc c) =
      groupFirstStep r (outerFirst sqrtF t acc) (transformCollider sqrtF t c) := by
  unfold groupFirstStep
  rw [transformCollider_first, tcFirst_eq]
  obtain ⟨ah, ab⟩ := acc
  generalize c.first (innerRay t.inverse r) = res
  obtain ⟨rh, rb⟩ := res
  cases rb <;> cases ab <;> simp [outerFirst, outerCollision]
  split_ifs <;> simp_all

theorem foldl_groupFirstStep_outer (sqrtF : K → K) (t : Xf K) (r : Ray K) (ms : List (Collider K))
    (acc : Hit K × Bool) :
    outerFirst sqrtF t (ms.foldl (groupFirstStep (innerRay t.inverse r)) acc) =
      (ms.map (transformCollider sqrtF t)).foldl (groupFirstStep r) (outerFirst sqrtF t acc) := by
  induction ms generalizing acc with
  | nil => rfl
  | cons c ms ih => simp only [List.foldl_cons, List.map_cons, ih, groupFirstStep_outer]

theorem group_first_distrib (sqrtF : K → K) (t : Xf K) (m : Collider K) (ms : List (Collider K)) (r : Ray K) :
    (transformCollider sqrtF t (groupCollider m ms)).first r =
      (groupCollider (transformCollider sqrtF t m) (ms.map (transformCollider sqrtF t))).first r := by
  rw [transformCollider_first, tcFirst_eq]
  show outerFirst sqrtF t ((m :: ms).foldl (groupFirstStep (innerRay t.inverse r)) (⟨0, V3.zero, 0⟩, false)) = _
  rw [foldl_groupFirstStep_outer]
  rfl

/-! ## pointer semantics = value semantics -/

theorem foldl_onHit_appends {β : Type} (onHit : List (Ray K) → List (Ray K))
    (hcb : ∀ st, ∃ e, onHit st = st ++ e) (hs : List β) (st : List (Ray K)) :
    ∃ e, hs.foldl (fun s _ => onHit s) st = st ++ e := by
  induction hs generalizing st with
  | nil => exact ⟨[], by simp⟩
  | cons h hs ih =>
      obtain ⟨e1, h1⟩ := hcb st
      obtain ⟨e2, h2⟩ := ih (st ++ e1)
      exact ⟨e1 ++ e2, by simp only [List.foldl_cons, h1, h2, List.append_assoc]⟩

theorem getElem?_append_of_some {β : Type} (st e : List β) (a : Nat) (r : β) (h : st[a]? = some r) :
    (st ++ e)[a]? = some r := by
  have hlt : a < st.length := by
    by_contra hge
    rw [List.getElem?_eq_none (by omega)] at h
    exact absurd h (by simp)
  rw [List.getElem?_append_left hlt]
  exact h

theorem Scene.run_spec (sqrtF : K → K) (onHit : List (Ray K) → List (Ray K))
    (hcb : ∀ st, ∃ e, onHit st = st ++ e) (s : Scene K) :
    ∀ (addr : Nat) (st : List (Ray K)) (r : Ray K), st[addr]? = some r →
      ∃ e, s.run sqrtF onHit addr st = (st ++ e, (s.collider sqrtF).hits r) := by
  induction s with
  | leaf c =>
      intro addr st r h
      obtain ⟨e, he⟩ := foldl_onHit_appends onHit hcb (c.hits r) st
      exact ⟨e, by simp only [Scene.run, h, he, Scene.collider]⟩
  | pair a b iha ihb =>
      intro addr st r h
      obtain ⟨e1, h1⟩ := iha addr st r h
      obtain ⟨e2, h2⟩ := ihb addr (st ++ e1) r (getElem?_append_of_some st e1 addr r h)
      refine ⟨e1 ++ e2, ?_⟩
      simp only [Scene.run, h1, h2, List.append_assoc, Scene.collider, groupCollider, List.flatMap_cons,
        List.flatMap_nil, List.append_nil]
  | xform t s ih =>
      intro addr st r h
      have hnew : (st ++ [innerRay t.inverse r])[st.length]? = some (innerRay t.inverse r) := by simp
      obtain ⟨e, he⟩ := ih st.length (st ++ [innerRay t.inverse r]) (innerRay t.inverse r) hnew
      refine ⟨[innerRay t.inverse r] ++ e, ?_⟩
      simp only [Scene.run, h, he, List.append_assoc, Scene.collider, transformCollider_hits]

theorem shadowCallback_appends (sqrtF : K → K) (sub : Scene K) (sec : Ray K) (st : List (Ray K)) :
    ∃ e, shadowCallback sqrtF sub sec st = st ++ e := by
  have hnew : (st ++ [sec])[st.length]? = some sec := by simp
  obtain ⟨e, he⟩ := Scene.run_spec sqrtF (fun s => s) (fun s => ⟨[], by simp⟩) sub st.length (st ++ [sec]) sec hnew
  exact ⟨[sec] ++ e, by simp only [shadowCallback, he, List.append_assoc]⟩

end M3d.Tf
