import M3d.Lemmas.CodecStlNumbers
import Mathlib.Tactic.FieldSimp
import Mathlib.Tactic.Ring
/-!
# C15 — `parseDec` reads decimal literals as the numbers they denote

`parseDec` (the literal → sign/mantissa/exponent step of the ASCII-STL number parser of kind `stlr`)
is pinned to the grammar `[+-]? (d+ [. d*] | . d+) ([eE] [+-]? d+)?` and to positional notation:
a literal assembled from its parts (`Lit`) is accepted, and the `Dec` returned has exactly the value
`± (integer digits . fraction digits) · 10^exponent` (`Lit.value`, written with `digitsVal`, the
base-10 positional value of a digit string).
-/
namespace M3d.Codec

/-- optional sign: `none`, `some false` = `+`, `some true` = `-` -/
def signBytes : Option Bool → Bytes
  | none => []
  | some false => [43]
  | some true => [45]

/-- a decimal literal by its parts -/
structure Lit where
  sign : Option Bool
  ip : Bytes
  frac : Option Bytes
  exp : Option (Bool × Option Bool × Bytes)

namespace Lit

def fp (l : Lit) : Bytes := l.frac.getD []

def fracBytes (l : Lit) : Bytes := match l.frac with | none => [] | some f => 46 :: f

def expBytes (l : Lit) : Bytes :=
  match l.exp with
  | none => []
  | some (u, s, d) => (if u then 69 else 101) :: (signBytes s ++ d)

/-- the text of the literal -/
def bytes (l : Lit) : Bytes := signBytes l.sign ++ (l.ip ++ (l.fracBytes ++ l.expBytes))

/-- the literal belongs to the grammar: digit strings are digit strings, there is at least one
digit before the exponent, the exponent has at least one digit -/
structure WF (l : Lit) : Prop where
  ipd : ∀ b ∈ l.ip, isDigit b = true
  fpd : ∀ b ∈ l.fp, isDigit b = true
  some : l.ip ≠ [] ∨ l.fp ≠ []
  expd : ∀ u s d, l.exp = Option.some (u, s, d) → d ≠ [] ∧ ∀ b ∈ d, isDigit b = true

def expVal (l : Lit) : Int :=
  match l.exp with
  | none => 0
  | some (_, s, d) => if s = some true then -(digitsVal d : Int) else (digitsVal d : Int)

/-- the number the literal denotes: `± (ip . fp) · 10^exp` -/
def value (l : Lit) : ℚ :=
  (if l.sign = some true then -1 else 1) *
    (((digitsVal l.ip : ℚ) + (digitsVal l.fp : ℚ) / (10 : ℚ) ^ l.fp.length) * (10 : ℚ) ^ l.expVal)

end Lit

/-- the text is empty or starts with a byte that is not a digit -/
def NoDigitHead (r : Bytes) : Prop := r = [] ∨ ∃ c r', r = c :: r' ∧ isDigit c = false

theorem span_digits_append (ds r : Bytes) (hd : ∀ b ∈ ds, isDigit b = true) (hr : NoDigitHead r) :
    (ds ++ r).span isDigit = (ds, r) := by
  rw [List.span_eq_takeWhile_dropWhile, List.takeWhile_append_of_pos hd, List.dropWhile_append_of_pos hd]
  rcases hr with rfl | ⟨c, r', rfl, hc⟩
  · simp
  · simp [hc]

theorem digit_not_sign {c : UInt8} (h : isDigit c = true) : c ≠ 45 ∧ c ≠ 43 ∧ c ≠ 46 := by
  refine ⟨?_, ?_, ?_⟩ <;> (rintro rfl; revert h; decide)

/-- the text does not start with a sign character -/
def NoSignHead (r : Bytes) : Prop := r = [] ∨ ∃ c r', r = c :: r' ∧ c ≠ 45 ∧ c ≠ 43

theorem takeSign_signBytes (sg : Option Bool) (r : Bytes) (hr : NoSignHead r) :
    takeSign (signBytes sg ++ r) = (decide (sg = some true), r) := by
  rcases sg with _ | _ | _
  · rcases hr with rfl | ⟨c, r', rfl, h1, h2⟩
    · rfl
    · simp only [signBytes, List.nil_append]
      unfold takeSign
      split
      · rename_i h; cases h; exact absurd rfl h1
      · rename_i h; cases h; exact absurd rfl h2
      · rfl
  · rfl
  · rfl

theorem digitsVal_foldl (ds : Bytes) (acc : Nat) :
    ds.foldl (fun a b => 10 * a + (b.toNat - 48)) acc = acc * 10 ^ ds.length + digitsVal ds := by
  unfold digitsVal
  induction ds generalizing acc with
  | nil => simp
  | cons d ds ih =>
    simp only [List.foldl_cons, List.length_cons]
    rw [ih (10 * acc + (d.toNat - 48)), ih (10 * 0 + (d.toNat - 48))]
    ring

/-- positional notation: `digitsVal (a ++ b) = digitsVal a · 10^|b| + digitsVal b` -/
theorem digitsVal_append (a b : Bytes) : digitsVal (a ++ b) = digitsVal a * 10 ^ b.length + digitsVal b := by
  conv_lhs => unfold digitsVal
  rw [List.foldl_append, digitsVal_foldl]
  rfl

theorem expBytes_head (l : Lit) : NoDigitHead l.expBytes ∧
    (l.expBytes = [] ∨ ∃ c r', l.expBytes = c :: r' ∧ c ≠ 46) := by
  unfold Lit.expBytes
  rcases l.exp with _ | ⟨u, s, d⟩
  · exact ⟨Or.inl rfl, Or.inl rfl⟩
  · cases u
    · exact ⟨Or.inr ⟨101, _, rfl, by decide⟩, Or.inr ⟨101, _, rfl, by decide⟩⟩
    · exact ⟨Or.inr ⟨69, _, rfl, by decide⟩, Or.inr ⟨69, _, rfl, by decide⟩⟩

theorem parseExp_expBytes (l : Lit) (h : l.WF) : parseExp l.expBytes = some l.expVal := by
  unfold Lit.expBytes Lit.expVal
  rcases he : l.exp with _ | ⟨u, s, d⟩
  · rfl
  · obtain ⟨hne, hd⟩ := h.expd u s d he
    have hns : NoSignHead d := by
      rcases d with _ | ⟨c, d'⟩
      · exact absurd rfl hne
      · have := digit_not_sign (hd c (List.mem_cons_self ..))
        exact Or.inr ⟨c, d', rfl, this.1, this.2.1⟩
    have hts := takeSign_signBytes s d hns
    have hc : ((if u = true then (69 : UInt8) else 101) = 101 || (if u = true then (69 : UInt8) else 101) = 69) = true := by
      cases u <;> decide
    simp only [parseExp, hc, if_true, hts]
    have h1 : d.isEmpty = false := by
      rcases d with _ | _
      · exact absurd rfl hne
      · rfl
    have h2 : d.all isDigit = true := List.all_eq_true.mpr hd
    simp only [h1, h2, Bool.not_true, Bool.or_self, Bool.false_eq_true, if_false]
    by_cases hs : s = some true
    · simp [hs]
    · simp [hs]

theorem splitFrac_fracBytes (l : Lit) (h : l.WF) :
    splitFrac (l.fracBytes ++ l.expBytes) = (l.fp, l.expBytes) := by
  obtain ⟨hnd, hne⟩ := expBytes_head l
  have hfpd := h.fpd
  unfold Lit.fracBytes Lit.fp at *
  rcases hf : l.frac with _ | f
  · simp only [List.nil_append, Option.getD_none]
    rcases hne with he | ⟨c, r', he, hc⟩
    · rw [he]; rfl
    · rw [he]
      unfold splitFrac
      split
      · rename_i h'; cases h'; exact absurd rfl hc
      · rfl
  · rw [hf] at hfpd
    simp only [Option.getD_some] at hfpd ⊢
    show splitFrac (46 :: (f ++ l.expBytes)) = _
    unfold splitFrac
    exact span_digits_append f _ hfpd hnd

theorem fracTail_head (l : Lit) : NoDigitHead (l.fracBytes ++ l.expBytes) := by
  unfold Lit.fracBytes
  rcases l.frac with _ | f
  · simpa using (expBytes_head l).1
  · exact Or.inr ⟨46, _, rfl, by decide⟩

/-- **`parseDec` accepts every literal of the grammar and returns its parts**: sign, the digits of
the integer and fraction parts read as one number, and the exponent lowered by the number of
fraction digits. -/
theorem parseDec_lit (l : Lit) (h : l.WF) :
    parseDec l.bytes =
      some ⟨decide (l.sign = some true), digitsVal (l.ip ++ l.fp), l.expVal - (l.fp.length : Int)⟩ := by
  have hns : NoSignHead (l.ip ++ (l.fracBytes ++ l.expBytes)) := by
    rcases hip : l.ip with _ | ⟨c, ip'⟩
    · -- no integer digits: there is a fraction part, which starts with '.'
      have hfp : l.fp ≠ [] := by
        rcases h.some with h1 | h1
        · exact absurd hip h1
        · exact h1
      unfold Lit.fp at hfp
      unfold Lit.fracBytes
      rcases hf : l.frac with _ | f
      · rw [hf] at hfp; exact absurd rfl hfp
      · exact Or.inr ⟨46, _, rfl, by decide, by decide⟩
    · have := digit_not_sign (h.ipd c (by rw [hip]; exact List.mem_cons_self ..))
      exact Or.inr ⟨c, _, rfl, this.1, this.2.1⟩
  have h1 : takeSign l.bytes = (decide (l.sign = some true), l.ip ++ (l.fracBytes ++ l.expBytes)) :=
    takeSign_signBytes l.sign _ hns
  have h2 : (l.ip ++ (l.fracBytes ++ l.expBytes)).span isDigit = (l.ip, l.fracBytes ++ l.expBytes) :=
    span_digits_append _ _ h.ipd (fracTail_head l)
  have h3 := splitFrac_fracBytes l h
  have h4 := parseExp_expBytes l h
  have hemp : (l.ip.isEmpty && l.fp.isEmpty) = false := by
    rcases h.some with h1 | h1
    · have : l.ip.isEmpty = false := by
        rcases hh : l.ip with _ | _
        · exact absurd hh h1
        · rfl
      simp [this]
    · have : l.fp.isEmpty = false := by
        rcases hh : l.fp with _ | _
        · exact absurd hh h1
        · rfl
      simp [this]
  unfold parseDec
  simp only [h1, h2, h3, h4, hemp, Bool.false_eq_true, if_false]

/-- … and the `Dec` it returns has the value the literal denotes. -/
theorem parseDec_lit_value (l : Lit) :
    (Dec.mk (decide (l.sign = some true)) (digitsVal (l.ip ++ l.fp)) (l.expVal - (l.fp.length : Int))).value
      = l.value := by
  unfold Dec.value Lit.value
  simp only [decide_eq_true_eq]
  rw [digitsVal_append]
  have h10 : (10 : ℚ) ≠ 0 := by norm_num
  rw [zpow_sub₀ h10, zpow_natCast]
  push_cast
  field_simp

end M3d.Codec
