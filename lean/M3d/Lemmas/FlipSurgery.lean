import M3d.Lemmas.Surface
import M3d.Model.FlipLoop
/-!
The surgery of `FlipDelaunay` on id soups keeps the soup edge-balanced (closed, consistently
oriented, edge-manifold) and free of degenerate faces.  Core-only.
-/
namespace M3d.FlipLoop
open M3d.Surface

theorem rot3_perm {α : Type} (u v w : α) : [u, v, w].Perm [v, w, u] :=
  List.perm_append_comm (l₁ := [u]) (l₂ := [v, w])

theorem oppOf_spec {t : Tri} {a b o : Nat} (h : oppOf t a b = some o) :
    (triEdges t).Perm [(a, b), (b, o), (o, a)] := by
  obtain ⟨x, y, z⟩ := t
  simp only [oppOf] at h
  simp only [triEdges]
  split at h
  · rename_i h1; obtain ⟨h1, h2⟩ := h1; cases h
    subst h1; subst h2
    exact List.Perm.refl _
  · split at h
    · rename_i h1; obtain ⟨h1, h2⟩ := h1; cases h
      subst h1; subst h2
      exact rot3_perm _ _ _
    · split at h
      · rename_i h1; obtain ⟨h1, h2⟩ := h1; cases h
        subst h1; subst h2
        exact (rot3_perm _ _ _).trans (rot3_perm _ _ _)
      · cases h

theorem findOpp_spec {ts : List Tri} {a b : Nat} {t : Tri} {o : Nat} (h : findOpp ts a b = some (t, o)) :
    t ∈ ts ∧ oppOf t a b = some o := by
  simp only [findOpp] at h
  obtain ⟨u, hu, hf⟩ := List.exists_of_findSome?_eq_some h
  cases ho : oppOf u a b with
  | none => simp [ho] at hf
  | some o' =>
    simp only [ho, Option.map_some, Option.some.injEq, Prod.mk.injEq] at hf
    obtain ⟨rfl, rfl⟩ := hf
    exact ⟨hu, ho⟩

/-- Balance of a list of directed edges (`EdgeBalanced ts = Bal (dirEdges ts)`). -/
def Bal (es : List Edge) : Prop := ∀ e ∈ es, es.count e = 1 ∧ es.count (swap e) = 1

theorem Bal.perm {es es' : List Edge} (hp : es.Perm es') (h : Bal es) : Bal es' := by
  intro e he
  have := h e (hp.mem_iff.2 he)
  rw [hp.count_eq e, hp.count_eq (swap e)] at this
  exact this

theorem swap_ne_of_ne {a b : Nat} (h : a ≠ b) : ((a, b) : Edge) ≠ (b, a) := by
  intro e; exact h (by cases e; rfl)

theorem count_cons2 (a b e : Edge) (X : List Edge) :
    (a :: b :: X).count e = (if a = e then 1 else 0) + (if b = e then 1 else 0) + X.count e := by
  rw [List.count_cons, List.count_cons]
  simp only [beq_iff_eq]
  omega

/-- Replacing the pair of opposite directed edges `p1p2, p2p1` by `o1o2, o2o1` (absent so far). -/
theorem Bal.replace_pair {X : List Edge} {p1 p2 o1 o2 : Nat}
    (h : Bal ((p1, p2) :: (p2, p1) :: X)) (ho : o1 ≠ o2)
    (h1 : (o1, o2) ∉ (p1, p2) :: (p2, p1) :: X) (h2 : (o2, o1) ∉ (p1, p2) :: (p2, p1) :: X) :
    Bal ((o1, o2) :: (o2, o1) :: X) := by
  have hp : p1 ≠ p2 := by
    intro e; subst e
    have := (h (p1, p1) (List.mem_cons_self ..)).1
    simp at this
  have hpp := swap_ne_of_ne hp
  have hoo := swap_ne_of_ne ho
  -- the removed pair does not occur in X
  have c1 : X.count (p1, p2) = 0 := by
    have := (h (p1, p2) (List.mem_cons_self ..)).1
    simp only [List.count_cons, beq_self_eq_true, ↓reduceIte] at this
    have e : ((p2, p1) == (p1, p2)) = false := by simpa using hpp.symm
    simp only [e, Bool.false_eq_true, ↓reduceIte] at this
    omega
  have c2 : X.count (p2, p1) = 0 := by
    have := (h (p1, p2) (List.mem_cons_self ..)).2
    simp only [swap, List.count_cons, beq_self_eq_true, ↓reduceIte] at this
    have e : ((p1, p2) == (p2, p1)) = false := by simpa using hpp
    simp only [e, Bool.false_eq_true, ↓reduceIte] at this
    omega
  simp only [List.mem_cons, not_or] at h1 h2
  have d1 : X.count (o1, o2) = 0 := List.count_eq_zero.2 h1.2.2
  have d2 : X.count (o2, o1) = 0 := List.count_eq_zero.2 h2.2.2
  have cnt_new := fun e => count_cons2 (o1, o2) (o2, o1) e X
  have cnt_old := fun e => count_cons2 (p1, p2) (p2, p1) e X
  intro e he
  rcases List.mem_cons.1 he with rfl | he
  · refine ⟨?_, ?_⟩
    · rw [cnt_new, if_pos rfl, if_neg hoo.symm, d1]
    · show List.count (o2, o1) _ = 1
      rw [cnt_new, if_neg hoo, if_pos rfl, d2]
  rcases List.mem_cons.1 he with rfl | he
  · refine ⟨?_, ?_⟩
    · rw [cnt_new, if_neg hoo, if_pos rfl, d2]
    · show List.count (o1, o2) _ = 1
      rw [cnt_new, if_pos rfl, if_neg hoo.symm, d1]
  -- e ∈ X
  have hpos : 0 < X.count e := List.count_pos_iff.2 he
  have n1 : e ≠ (o1, o2) := fun e' => by rw [e'] at hpos; omega
  have n2 : e ≠ (o2, o1) := fun e' => by rw [e'] at hpos; omega
  have n3 : e ≠ (p1, p2) := fun e' => by rw [e'] at hpos; omega
  have n4 : e ≠ (p2, p1) := fun e' => by rw [e'] at hpos; omega
  obtain ⟨x, y⟩ := e
  have s1 : swap (x, y) ≠ (o1, o2) := fun e' => n2 (by cases e'; rfl)
  have s2 : swap (x, y) ≠ (o2, o1) := fun e' => n1 (by cases e'; rfl)
  have s3 : swap (x, y) ≠ (p1, p2) := fun e' => n4 (by cases e'; rfl)
  have s4 : swap (x, y) ≠ (p2, p1) := fun e' => n3 (by cases e'; rfl)
  have old := h (x, y) (List.mem_cons_of_mem _ (List.mem_cons_of_mem _ he))
  rw [cnt_old, cnt_old] at old
  rw [cnt_new, cnt_new]
  simp only [n1.symm, n2.symm, n3.symm, n4.symm, s1.symm, s2.symm, s3.symm, s4.symm, ↓reduceIte] at old ⊢
  exact old

theorem dirEdges_perm {ts ts' : List Tri} (h : ts.Perm ts') : (dirEdges ts).Perm (dirEdges ts') :=
  List.Perm.flatMap_right _ h

theorem triNondeg_of_edges {t : Tri} {a b o : Nat} (ht : TriNondeg t) (h : oppOf t a b = some o) :
    a ≠ b ∧ b ≠ o ∧ o ≠ a := by
  obtain ⟨x, y, z⟩ := t
  obtain ⟨n1, n2, n3⟩ := ht
  simp only [oppOf] at h
  split at h
  · rename_i h1; obtain ⟨rfl, rfl⟩ := h1; cases h; exact ⟨n1, n2, n3⟩
  · split at h
    · rename_i h1; obtain ⟨rfl, rfl⟩ := h1; cases h; exact ⟨n2, n3, n1⟩
    · split at h
      · rename_i h1; obtain ⟨rfl, rfl⟩ := h1; cases h; exact ⟨n3, n1, n2⟩
      · cases h

/-- **The flip surgery keeps the soup edge-balanced and non-degenerate**, provided the two
opposite corners differ (no two faces on the same three vertices). -/
theorem flipEdge_balanced {ts ts' : List Tri} {p1 p2 : Nat} (hb : EdgeBalanced ts) (hd : NoDegenerate ts)
    (h : flipEdge ts p1 p2 = some ts')
    (hdup : ∀ t0 o1 t1 o2, findOpp ts p1 p2 = some (t0, o1) → findOpp ts p2 p1 = some (t1, o2) → o1 ≠ o2) :
    EdgeBalanced ts' ∧ NoDegenerate ts' ∧ ts'.length = ts.length := by
  simp only [flipEdge] at h
  cases h0 : findOpp ts p1 p2 with
  | none => simp [h0] at h
  | some r0 =>
    obtain ⟨t0, o1⟩ := r0
    cases h1 : findOpp ts p2 p1 with
    | none => simp [h0, h1] at h
    | some r1 =>
      obtain ⟨t1, o2⟩ := r1
      simp only [h0, h1] at h
      by_cases hg : hasEdge ts o1 o2 = true
      · simp [hg] at h
      · simp only [hg, Bool.false_eq_true, ↓reduceIte, Option.some.injEq] at h
        subst h
        have ho := hdup t0 o1 t1 o2 h0 h1
        obtain ⟨m0, e0⟩ := findOpp_spec h0
        obtain ⟨m1, e1⟩ := findOpp_spec h1
        have nd0 := triNondeg_of_edges (hd t0 m0) e0
        have nd1 := triNondeg_of_edges (hd t1 m1) e1
        have q0 := oppOf_spec e0
        have q1 := oppOf_spec e1
        -- t0 ≠ t1: t0 traverses p1→p2 once, t1 traverses p2→p1
        have hne : t1 ≠ t0 := by
          intro e; subst e
          have : (p2, p1) ∈ [(p1, p2), (p2, o1), (o1, p1)] := q0.mem_iff.1 (q1.mem_iff.2 (List.mem_cons_self ..))
          simp only [List.mem_cons, List.not_mem_nil, or_false] at this
          rcases this with e | e | e
          · exact nd0.1 (Prod.mk.inj e).2
          · exact nd0.2.2 (Prod.mk.inj e).2.symm
          · exact nd0.2.1 (Prod.mk.inj e).1
        have pts : ts.Perm (t0 :: t1 :: (ts.erase t0).erase t1) :=
          (List.perm_cons_erase m0).trans (List.Perm.cons _ (List.perm_cons_erase ((List.mem_erase_of_ne hne).2 m1)))
        generalize hrest : (ts.erase t0).erase t1 = rest at pts ⊢
        have pd : (dirEdges ts).Perm
            ((p1, p2) :: (p2, p1) :: ([(p2, o1), (o1, p1), (p1, o2), (o2, p2)] ++ dirEdges rest)) := by
          refine (dirEdges_perm pts).trans ?_
          show (triEdges t0 ++ (triEdges t1 ++ dirEdges rest)).Perm _
          refine ((q0.append_right _).trans ?_)
          refine (List.Perm.append_left _ (q1.append_right _)).trans ?_
          -- [p1p2, p2o1, o1p1] ++ ([p2p1, p1o2, o2p2] ++ D)
          show ((p1, p2) :: (p2, o1) :: (o1, p1) :: (p2, p1) :: (p1, o2) :: (o2, p2) :: dirEdges rest).Perm
            ((p1, p2) :: (p2, p1) :: (p2, o1) :: (o1, p1) :: (p1, o2) :: (o2, p2) :: dirEdges rest)
          refine List.Perm.cons _ ?_
          have : ((p2, o1) :: (o1, p1) :: (p2, p1) :: (p1, o2) :: (o2, p2) :: dirEdges rest).Perm
              ((p2, p1) :: (p2, o1) :: (o1, p1) :: (p1, o2) :: (o2, p2) :: dirEdges rest) :=
            (List.perm_middle (l₁ := [(p2, o1), (o1, p1)]) (a := (p2, p1))
              (l₂ := (p1, o2) :: (o2, p2) :: dirEdges rest))
          exact this
        have hbal : Bal ((p1, p2) :: (p2, p1) :: ([(p2, o1), (o1, p1), (p1, o2), (o2, p2)] ++ dirEdges rest)) :=
          Bal.perm pd hb
        have hno : (o1, o2) ∉ dirEdges ts ∧ (o2, o1) ∉ dirEdges ts := by
          simp only [hasEdge, Bool.or_eq_true, List.contains_iff_mem, not_or] at hg
          exact hg
        have hnew := Bal.replace_pair hbal ho (fun hm => hno.1 (pd.mem_iff.2 hm)) (fun hm => hno.2 (pd.mem_iff.2 hm))
        refine ⟨?_, ?_, by have := pts.length_eq; simp only [List.length_cons] at this ⊢; omega⟩
        · -- dirEdges of the new soup
          have pn : (dirEdges ((o1, o2, p2) :: (p1, o2, o1) :: rest)).Perm
              ((o1, o2) :: (o2, o1) :: ([(p2, o1), (o1, p1), (p1, o2), (o2, p2)] ++ dirEdges rest)) := by
            show ((o1, o2) :: (o2, p2) :: (p2, o1) :: (p1, o2) :: (o2, o1) :: (o1, p1) :: dirEdges rest).Perm
              ((o1, o2) :: (o2, o1) :: (p2, o1) :: (o1, p1) :: (p1, o2) :: (o2, p2) :: dirEdges rest)
            refine List.Perm.cons _ ?_
            -- [o2p2, p2o1, p1o2, o2o1, o1p1] ++ D ~ [o2o1, p2o1, o1p1, p1o2, o2p2] ++ D
            have a1 : ((o2, p2) :: (p2, o1) :: (p1, o2) :: (o2, o1) :: (o1, p1) :: dirEdges rest).Perm
                ((o2, o1) :: (o2, p2) :: (p2, o1) :: (p1, o2) :: (o1, p1) :: dirEdges rest) :=
              (List.perm_middle (l₁ := [(o2, p2), (p2, o1), (p1, o2)]) (a := (o2, o1))
                (l₂ := (o1, p1) :: dirEdges rest))
            refine a1.trans (List.Perm.cons _ ?_)
            -- [o2p2, p2o1, p1o2, o1p1] ~ [p2o1, o1p1, p1o2, o2p2]
            have a2 : ((o2, p2) :: (p2, o1) :: (p1, o2) :: (o1, p1) :: dirEdges rest).Perm
                ((p2, o1) :: (p1, o2) :: (o1, p1) :: (o2, p2) :: dirEdges rest) :=
              (List.perm_middle (l₁ := [(p2, o1), (p1, o2), (o1, p1)]) (a := (o2, p2)) (l₂ := dirEdges rest)).symm
            refine a2.trans (List.Perm.cons _ ?_)
            refine (List.Perm.swap _ _ _).trans ?_
            exact List.Perm.refl _
          exact Bal.perm pn.symm hnew
        · intro t ht
          rcases List.mem_cons.1 ht with rfl | ht
          · exact ⟨ho, nd1.2.2, nd0.2.1⟩
          rcases List.mem_cons.1 ht with rfl | ht
          · exact ⟨nd1.2.1, ho.symm, nd0.2.2⟩
          · exact hd t (pts.mem_iff.2 (List.mem_cons_of_mem _ (List.mem_cons_of_mem _ ht)))

end M3d.FlipLoop
