import M3d.Model.MeshDiagHist
import M3d.Lemmas.MeshDiagFan
import M3d.Lemmas.MeshDiag
/-!
# C11 — the vertex index of a mesh stays coherent along every history, and the diagnostics that
read it (`SingularVertices`) do not depend on the order the history left its slices in
-/
namespace M3d.MeshDiag
open M3d.Surface

/-! ## association lists -/

def ixKeys (ix : VIndex) : List Nat := ix.map (·.1)

/-- Keys without repetition, no empty slice (`removeFaceFromVertex` deletes an emptied key). -/
def IxWF (ix : VIndex) : Prop := (ixKeys ix).Nodup ∧ ∀ e ∈ ix, e.2 ≠ []

theorem ixValue_of_not_key : ∀ (ix : VIndex) (v : Nat), v ∉ ixKeys ix → ixValue ix v = [] := by
  intro ix
  induction ix with
  | nil => intro v _; rfl
  | cons e r ih =>
    intro v hv
    simp only [ixKeys, List.map_cons, List.mem_cons, not_or] at hv
    simp only [ixValue]
    rw [if_neg (fun h => hv.1 h.symm)]
    exact ih v hv.2

theorem ixValue_of_mem : ∀ (ix : VIndex), (ixKeys ix).Nodup → ∀ e ∈ ix, ixValue ix e.1 = e.2 := by
  intro ix
  induction ix with
  | nil => intro _ e he; cases he
  | cons a r ih =>
    intro hnd e he
    simp only [ixKeys, List.map_cons, List.nodup_cons] at hnd
    rcases List.mem_cons.mp he with h | h
    · subst h; simp [ixValue]
    · have hne : a.1 ≠ e.1 := by
        intro heq
        exact hnd.1 (heq ▸ List.mem_map_of_mem (f := (·.1)) h)
      simp only [ixValue, if_neg hne]
      exact ih hnd.2 e h

theorem mem_keys_of_value_ne_nil {ix : VIndex} {v : Nat} (h : ixValue ix v ≠ []) : v ∈ ixKeys ix := by
  cases Classical.em (v ∈ ixKeys ix) with
  | inl h' => exact h'
  | inr h' => exact absurd (ixValue_of_not_key ix v h') h

theorem ixValue_append : ∀ (ix : VIndex) (v : Nat) (f : Face) (w : Nat),
    ixValue (ixAppend ix v f) w = if w = v then ixValue ix v ++ [f] else ixValue ix w := by
  intro ix
  induction ix with
  | nil =>
    intro v f w
    by_cases h : w = v
    · subst h; simp [ixAppend, ixValue]
    · have h' : ¬ v = w := fun e => h e.symm
      simp [ixAppend, ixValue, h, h']
  | cons e r ih =>
    intro v f w
    by_cases hev : e.1 = v
    · by_cases hw : w = v
      · subst hw; simp [ixAppend, ixValue, hev]
      · have hw' : ¬ v = w := fun h => hw h.symm
        simp [ixAppend, ixValue, hev, hw, hw']
    · simp only [ixAppend, if_neg hev, ixValue]
      by_cases hew : e.1 = w
      · have : ¬ w = v := fun h => hev (hew.trans h)
        simp [hew, this]
      · simp only [if_neg hew]; exact ih v f w

theorem ixKeys_append : ∀ (ix : VIndex) (v : Nat) (f : Face),
    ixKeys (ixAppend ix v f) = if v ∈ ixKeys ix then ixKeys ix else ixKeys ix ++ [v] := by
  intro ix
  induction ix with
  | nil => intro v f; simp [ixAppend, ixKeys]
  | cons e r ih =>
    intro v f
    by_cases hev : e.1 = v
    · simp [ixAppend, ixKeys, hev]
    · have ih' := ih v f
      simp only [ixKeys] at ih' ⊢
      simp only [ixAppend, if_neg hev, List.map_cons, List.mem_cons, ih']
      have : ¬ v = e.1 := fun h => hev h.symm
      by_cases hm : v ∈ List.map (·.1) r <;> simp [hm, this]

theorem ixAppend_wf {ix : VIndex} (h : IxWF ix) (v : Nat) (f : Face) : IxWF (ixAppend ix v f) := by
  refine ⟨?_, ?_⟩
  · rw [ixKeys_append]
    by_cases hm : v ∈ ixKeys ix
    · simp [hm, h.1]
    · simp only [hm, if_false]
      exact List.nodup_append.mpr ⟨h.1, by simp, by
        intro a ha b hb; simp at hb; subst hb; intro e; exact hm (e ▸ ha)⟩
  · have hne := h.2
    clear h
    induction ix with
    | nil => intro e he; simp [ixAppend] at he; subst he; simp
    | cons a r ih =>
      intro e he
      by_cases hav : a.1 = v
      · simp only [ixAppend, if_pos hav, List.mem_cons] at he
        rcases he with h | h
        · subst h; simp
        · exact hne e (List.mem_cons_of_mem _ h)
      · simp only [ixAppend, if_neg hav, List.mem_cons] at he
        rcases he with h | h
        · subst h; exact hne _ List.mem_cons_self
        · exact ih (fun e he => hne e (List.mem_cons_of_mem _ he)) e h

theorem ixValue_store : ∀ (ix : VIndex) (v : Nat) (s : List Face) (w : Nat),
    ixValue (ixStore ix v s) w = if w = v then s else ixValue ix w := by
  intro ix
  induction ix with
  | nil =>
    intro v s w
    by_cases h : w = v
    · subst h; simp [ixStore, ixValue]
    · have h' : ¬ v = w := fun e => h e.symm
      simp [ixStore, ixValue, h, h']
  | cons e r ih =>
    intro v s w
    by_cases hev : e.1 = v
    · by_cases hw : w = v
      · subst hw; simp [ixStore, ixValue, hev]
      · have hw' : ¬ v = w := fun h => hw h.symm
        simp [ixStore, ixValue, hev, hw, hw']
    · simp only [ixStore, if_neg hev, ixValue]
      by_cases hew : e.1 = w
      · have : ¬ w = v := fun h => hev (hew.trans h)
        simp [hew, this]
      · simp only [if_neg hew]; exact ih v s w

theorem ixKeys_store : ∀ (ix : VIndex) (v : Nat) (s : List Face),
    ixKeys (ixStore ix v s) = if v ∈ ixKeys ix then ixKeys ix else ixKeys ix ++ [v] := by
  intro ix
  induction ix with
  | nil => intro v s; simp [ixStore, ixKeys]
  | cons e r ih =>
    intro v s
    by_cases hev : e.1 = v
    · simp [ixStore, ixKeys, hev]
    · have ih' := ih v s
      simp only [ixKeys] at ih' ⊢
      simp only [ixStore, if_neg hev, List.map_cons, List.mem_cons, ih']
      have : ¬ v = e.1 := fun h => hev h.symm
      by_cases hm : v ∈ List.map (·.1) r <;> simp [hm, this]

theorem mem_ixStore : ∀ (ix : VIndex) (v : Nat) (s : List Face), ∀ e ∈ ixStore ix v s,
    e ∈ ix ∨ e = (v, s) := by
  intro ix
  induction ix with
  | nil => intro v s e he; simp [ixStore] at he; exact Or.inr he
  | cons a r ih =>
    intro v s e he
    by_cases hav : a.1 = v
    · simp only [ixStore, if_pos hav, List.mem_cons] at he
      rcases he with h | h
      · right; rw [h, hav]
      · left; exact List.mem_cons_of_mem _ h
    · simp only [ixStore, if_neg hav, List.mem_cons] at he
      rcases he with h | h
      · left; rw [h]; exact List.mem_cons_self
      · rcases ih v s e h with h' | h'
        · left; exact List.mem_cons_of_mem _ h'
        · right; exact h'

theorem ixStore_wf {ix : VIndex} (h : IxWF ix) (v : Nat) {s : List Face} (hs : s ≠ []) :
    IxWF (ixStore ix v s) := by
  refine ⟨?_, ?_⟩
  · rw [ixKeys_store]
    by_cases hm : v ∈ ixKeys ix
    · simp [hm, h.1]
    · simp only [hm, if_false]
      exact List.nodup_append.mpr ⟨h.1, by simp, by
        intro a ha b hb; simp at hb; subst hb; intro e; exact hm (e ▸ ha)⟩
  · intro e he
    rcases mem_ixStore ix v s e he with h' | h'
    · exact h.2 e h'
    · rw [h']; exact hs

theorem ixDelete_sublist : ∀ (ix : VIndex) (v : Nat), (ixDelete ix v).Sublist ix := by
  intro ix
  induction ix with
  | nil => intro v; exact List.Sublist.slnil
  | cons e r ih =>
    intro v
    by_cases hev : e.1 = v
    · simp only [ixDelete, if_pos hev]; exact List.sublist_cons_self _ _
    · simp only [ixDelete, if_neg hev]; exact (ih v).cons_cons _

theorem ixDelete_wf {ix : VIndex} (h : IxWF ix) (v : Nat) : IxWF (ixDelete ix v) := by
  have hs := ixDelete_sublist ix v
  have hk : (ixKeys (ixDelete ix v)).Sublist (ixKeys ix) := by
    unfold ixKeys; exact hs.map _
  exact ⟨List.Nodup.sublist hk h.1, fun e he => h.2 e (hs.subset he)⟩

theorem ixValue_delete : ∀ (ix : VIndex), (ixKeys ix).Nodup → ∀ (v w : Nat),
    ixValue (ixDelete ix v) w = if w = v then [] else ixValue ix w := by
  intro ix
  induction ix with
  | nil => intro _ v w; simp [ixDelete, ixValue]
  | cons e r ih =>
    intro hnd v w
    simp only [ixKeys, List.map_cons, List.nodup_cons] at hnd
    by_cases hev : e.1 = v
    · simp only [ixDelete, if_pos hev]
      by_cases hw : w = v
      · subst hw
        simp only [if_true]
        exact ixValue_of_not_key r w (hev ▸ hnd.1)
      · have : ¬ e.1 = w := fun h => hw (h ▸ hev.symm ▸ rfl)
        simp [ixValue, hw, this]
    · simp only [ixDelete, if_neg hev, ixValue]
      by_cases hew : e.1 = w
      · have : ¬ w = v := fun h => hev (hew.trans h)
        simp [hew, this]
      · simp only [if_neg hew]; exact ih hnd.2 v w

/-! ## `UnorderedDelete` -/

theorem swapRemove_perm (f : Face) : ∀ s : List Face, (swapRemove f s).Perm (s.erase f) := by
  intro s
  induction s with
  | nil => exact List.Perm.refl _
  | cons x rest ih =>
    by_cases hx : x = f
    · subst hx
      simp only [swapRemove, if_true, List.erase_cons_head]
      cases hl : rest.getLast? with
      | none =>
        have : rest = [] := List.getLast?_eq_none_iff.mp hl
        subst this; exact List.Perm.refl _
      | some l =>
        simp only
        obtain ⟨ys, hys⟩ := List.getLast?_eq_some_iff.mp hl
        subst hys
        rw [List.dropLast_concat]
        exact (List.perm_append_singleton l ys).symm
    · simp only [swapRemove, if_neg hx]
      rw [List.erase_cons_tail (by simpa using hx)]
      exact ih.cons x

/-! ## `removeFaceFromVertex` -/

theorem removeFaceFromVertex_wf {ix : VIndex} (h : IxWF ix) (f : Face) (v : Nat) :
    IxWF (removeFaceFromVertex ix f v) := by
  unfold removeFaceFromVertex
  simp only
  by_cases hs : (swapRemove f (ixValue ix v)).isEmpty = true
  · simp only [hs, if_true]; exact ixDelete_wf h v
  · simp only [hs, Bool.false_eq_true, if_false]
    exact ixStore_wf h v (by intro e; rw [e] at hs; simp at hs)

theorem ixValue_removeFaceFromVertex {ix : VIndex} (h : IxWF ix) (f : Face) (v w : Nat) :
    ixValue (removeFaceFromVertex ix f v) w =
      if w = v then swapRemove f (ixValue ix v) else ixValue ix w := by
  unfold removeFaceFromVertex
  simp only
  by_cases hs : (swapRemove f (ixValue ix v)).isEmpty = true
  · simp only [hs, if_true]
    rw [ixValue_delete ix h.1]
    by_cases hw : w = v
    · simp only [hw, if_true]; exact (List.isEmpty_iff.mp hs).symm
    · simp [hw]
  · simp only [hs, Bool.false_eq_true, if_false]
    exact ixValue_store ix v _ w

/-! ## the folds of `Add` / `Remove` over the distinct corners -/

theorem fold_append_wf (f : Face) : ∀ (l : List Nat) (ix : VIndex), IxWF ix →
    IxWF (l.foldl (fun ix v => ixAppend ix v f) ix) := by
  intro l
  induction l with
  | nil => intro ix h; exact h
  | cons v l ih => intro ix h; exact ih _ (ixAppend_wf h v f)

theorem fold_append_value (f : Face) : ∀ (l : List Nat), l.Nodup → ∀ (ix : VIndex) (w : Nat),
    ixValue (l.foldl (fun ix v => ixAppend ix v f) ix) w =
      if w ∈ l then ixValue ix w ++ [f] else ixValue ix w := by
  intro l
  induction l with
  | nil => intro _ ix w; simp
  | cons v l ih =>
    intro hnd ix w
    rw [List.nodup_cons] at hnd
    rw [List.foldl_cons, ih hnd.2, ixValue_append]
    by_cases hwv : w = v
    · subst hwv; simp [hnd.1]
    · simp [hwv]

theorem fold_remove_wf (f : Face) : ∀ (l : List Nat) (ix : VIndex), IxWF ix →
    IxWF (l.foldl (fun ix v => removeFaceFromVertex ix f v) ix) := by
  intro l
  induction l with
  | nil => intro ix h; exact h
  | cons v l ih => intro ix h; exact ih _ (removeFaceFromVertex_wf h f v)

theorem fold_remove_value (f : Face) : ∀ (l : List Nat), l.Nodup → ∀ (ix : VIndex), IxWF ix →
    ∀ w : Nat, ixValue (l.foldl (fun ix v => removeFaceFromVertex ix f v) ix) w =
      if w ∈ l then swapRemove f (ixValue ix w) else ixValue ix w := by
  intro l
  induction l with
  | nil => intro _ ix _ w; simp
  | cons v l ih =>
    intro hnd ix hwf w
    rw [List.nodup_cons] at hnd
    rw [List.foldl_cons, ih hnd.2 _ (removeFaceFromVertex_wf hwf f v), ixValue_removeFaceFromVertex hwf]
    by_cases hwv : w = v
    · subst hwv; simp [hnd.1]
    · simp [hwv]

theorem uniqueVerts_nodup (t : Tri) : (uniqueVerts t).Nodup := by
  obtain ⟨a, b, c⟩ := t
  unfold uniqueVerts
  by_cases h1 : b = a <;> by_cases h2 : c = a <;> by_cases h3 : c = b <;>
    simp [h1, h2, h3] <;> omega

theorem mem_uniqueVerts (t : Tri) (v : Nat) : v ∈ uniqueVerts t ↔ hasVert v t = true := by
  obtain ⟨a, b, c⟩ := t
  unfold uniqueVerts hasVert triVerts
  by_cases h1 : b = a <;> by_cases h2 : c = a <;> by_cases h3 : c = b <;>
    simp [h1, h2, h3] <;> omega

/-! ## the index invariant -/

/-- The index describes the face set: keys without repetition, no empty slice, and the slice of
every vertex is a rearrangement of the faces at that vertex. -/
def IndexOK (fs : List Face) (ix : VIndex) : Prop :=
  IxWF ix ∧ ∀ v, (ixValue ix v).Perm (facesAt v fs)

theorem facesAt_append (v : Nat) (fs : List Face) (f : Face) :
    facesAt v (fs ++ [f]) = facesAt v fs ++ (if hasVert v f.2 = true then [f] else []) := by
  unfold facesAt
  rw [List.filter_append]
  by_cases h : hasVert v f.2 = true <;> simp [h]

theorem indexOK_addFace {fs : List Face} {ix : VIndex} (h : IndexOK fs ix) (f : Face) :
    IndexOK (fs ++ [f]) (ixAddFace ix f) := by
  refine ⟨fold_append_wf f _ ix h.1, fun v => ?_⟩
  unfold ixAddFace
  rw [fold_append_value f _ (uniqueVerts_nodup f.2), facesAt_append]
  by_cases hv : hasVert v f.2 = true
  · simp only [(mem_uniqueVerts f.2 v).mpr hv, hv, if_true]
    exact (h.2 v).append_right _
  · have : v ∉ uniqueVerts f.2 := fun hm => hv ((mem_uniqueVerts f.2 v).mp hm)
    simp only [this, hv, if_false, Bool.false_eq_true, List.append_nil]
    exact h.2 v

theorem indexOK_empty : IndexOK [] [] :=
  ⟨⟨List.nodup_nil, fun _ he => by cases he⟩, fun _ => List.Perm.refl _⟩

theorem indexOK_build (fs : List Face) : IndexOK fs (buildIx fs) := by
  unfold buildIx
  have : ∀ (l done : List Face) (ix : VIndex), IndexOK done ix →
      IndexOK (done ++ l) (l.foldl ixAddFace ix) := by
    intro l
    induction l with
    | nil => intro done ix h; simpa using h
    | cons f l ih =>
      intro done ix h
      have := ih (done ++ [f]) _ (indexOK_addFace h f)
      simpa using this
  simpa using this fs [] [] indexOK_empty

theorem facesAt_erase_perm {fs : List Face} (hnd : fs.Nodup) (f : Face) (v : Nat) :
    facesAt v (fs.erase f) = (facesAt v fs).erase f := by
  unfold facesAt
  rw [hnd.erase_eq_filter, List.Nodup.erase_eq_filter (hnd.filter _) f, List.filter_filter, List.filter_filter]
  congr 1
  funext x
  exact Bool.and_comm _ _

theorem indexOK_removeFace {fs : List Face} {ix : VIndex} (hnd : fs.Nodup) (h : IndexOK fs ix)
    (f : Face) : IndexOK (fs.erase f) (ixRemoveFace ix f) := by
  refine ⟨fold_remove_wf f _ ix h.1, fun v => ?_⟩
  unfold ixRemoveFace
  rw [fold_remove_value f _ (uniqueVerts_nodup f.2) ix h.1, facesAt_erase_perm hnd]
  by_cases hv : v ∈ uniqueVerts f.2
  · simp only [hv, if_true]
    exact (swapRemove_perm f _).trans ((h.2 v).erase f)
  · simp only [hv, if_false]
    have hnot : f ∉ facesAt v fs := by
      intro hm
      exact hv ((mem_uniqueVerts f.2 v).mpr (List.mem_filter.mp hm).2)
    rw [List.erase_of_not_mem hnot]
    exact h.2 v

/-- The state invariant: the face set has no repetition and the index, when built, describes it. -/
def MeshSt.OK (st : MeshSt) : Prop :=
  st.faces.Nodup ∧ ∀ ix, st.index = some ix → IndexOK st.faces ix

theorem MeshSt.ok_empty : MeshSt.empty.OK := ⟨List.nodup_nil, fun _ h => by cases h⟩

theorem MeshSt.ok_add {st : MeshSt} (h : st.OK) (f : Face) : (st.add f).OK := by
  unfold MeshSt.add
  by_cases hf : f ∈ st.faces
  · simp only [hf, if_true]; exact h
  · simp only [hf, if_false]
    refine ⟨List.nodup_append.mpr ⟨h.1, by simp, by
      intro a ha b hb; simp at hb; subst hb; intro e; exact hf (e ▸ ha)⟩, ?_⟩
    intro ix hix
    cases hi : st.index with
    | none => rw [hi] at hix; cases hix
    | some ix0 =>
      rw [hi] at hix
      simp only [Option.map_some, Option.some.injEq] at hix
      subst hix
      exact indexOK_addFace (h.2 ix0 hi) f

theorem MeshSt.ok_remove {st : MeshSt} (h : st.OK) (f : Face) : (st.remove f).OK := by
  unfold MeshSt.remove
  by_cases hf : f ∈ st.faces
  · simp only [hf, if_true]
    refine ⟨h.1.erase f, ?_⟩
    intro ix hix
    cases hi : st.index with
    | none => rw [hi] at hix; cases hix
    | some ix0 =>
      rw [hi] at hix
      simp only [Option.map_some, Option.some.injEq] at hix
      subst hix
      exact indexOK_removeFace h.1 (h.2 ix0 hi) f
  · simp only [hf, if_false]; exact h

theorem MeshSt.ok_touch {st : MeshSt} (h : st.OK) : st.touch.OK := by
  unfold MeshSt.touch
  cases hi : st.index with
  | some ix => simp only; exact h
  | none =>
    simp only
    refine ⟨h.1, ?_⟩
    intro ix hix
    simp only [Option.some.injEq] at hix
    subst hix
    exact indexOK_build st.faces

theorem MeshSt.ok_step {st : MeshSt} (h : st.OK) (op : MeshOp) : (st.step op).OK := by
  cases op with
  | add f => exact MeshSt.ok_add h f
  | remove f => exact MeshSt.ok_remove h f
  | touch => exact MeshSt.ok_touch h
  | copy => exact ⟨h.1, fun _ hix => by cases hix⟩

theorem MeshSt.ok_run : ∀ (ops : List MeshOp) {st : MeshSt}, st.OK → (st.run ops).OK := by
  intro ops
  induction ops with
  | nil => intro st h; exact h
  | cons op ops ih => intro st h; exact ih (MeshSt.ok_step h op)

theorem MeshSt.touch_faces (st : MeshSt) : st.touch.faces = st.faces := by
  unfold MeshSt.touch; cases st.index <;> rfl

theorem MeshSt.touch_index (st : MeshSt) : ∃ ix, st.touch.index = some ix := by
  unfold MeshSt.touch; cases h : st.index with
  | some ix => exact ⟨ix, h⟩
  | none => exact ⟨_, rfl⟩

/-! ## `SingularVertices` on the slices of the index -/

theorem reach_congr_mem {adj : Face → Face → Bool} {U V : List Face} (h : ∀ x, x ∈ U ↔ x ∈ V)
    {a b : Face} : Reach adj U a b ↔ Reach adj V a b :=
  ⟨fun r => r.mono fun x hx => (h x).mp hx, fun r => r.mono fun x hx => (h x).mpr hx⟩

/-- The stack search on ANY arrangement `t :: rest` of a set of faces (adjacency symmetric on
it): something stays unvisited iff the graph on these faces is not connected. -/
theorem sliceUnvisited_ne_nil_iff {t : Face} {rest : List Face} (hnd : (t :: rest).Nodup)
    (hsym : ∀ x y, x ∈ t :: rest → y ∈ t :: rest → fanAdj x y = fanAdj y x) :
    sliceUnvisited (t :: rest) ≠ [] ↔
      ¬ ∀ s ∈ t :: rest, ∀ u ∈ t :: rest, Reach fanAdj (t :: rest) s u := by
  have htr : t ∉ rest := (List.nodup_cons.mp hnd).1
  have hmem : ∀ y, y ∈ sliceUnvisited (t :: rest) ↔ y ∈ rest ∧ ¬ Reach fanAdj rest t y := by
    intro y
    unfold sliceUnvisited
    rw [fanSearch_spec (rest.length + 1) [t] rest (by simp; omega) (by simpa using htr) y]
    simp
  constructor
  · intro hne hconn
    obtain ⟨y, hy⟩ := List.exists_mem_of_ne_nil _ hne
    obtain ⟨hyr, hno⟩ := (hmem y).mp hy
    exact hno (reach_drop_start (hconn t List.mem_cons_self y (List.mem_cons_of_mem _ hyr)))
  · intro hnot hu
    apply hnot
    have hall : ∀ y ∈ t :: rest, Reach fanAdj (t :: rest) t y := by
      intro y hy
      rcases List.mem_cons.mp hy with h | h
      · subst h; exact .refl _
      · have : ¬ (y ∈ rest ∧ ¬ Reach fanAdj rest t y) := by
          rw [← hmem y, hu]; simp
        have hr : Reach fanAdj rest t y := by
          cases Classical.em (Reach fanAdj rest t y) with
          | inl h' => exact h'
          | inr h' => exact absurd ⟨h, h'⟩ this
        exact hr.mono fun z hz => List.mem_cons_of_mem _ hz
    intro s hs u hu'
    have hback : Reach fanAdj (t :: rest) s t := by
      have := hall s hs
      clear hu' hnot hmem
      induction this with
      | refl => exact .refl _
      | step hab hc hadj ih =>
        rename_i b c
        have hb : b ∈ t :: rest := by
          rcases hab.eq_or_mem with h | h
          · exact h ▸ List.mem_cons_self
          · exact h
        have ih' := ih hb
        exact Reach.trans (Reach.single hb (by rw [hsym c b hc hb]; exact hadj)) ih'
    exact Reach.trans hback (hall u hu')

/-- Connectivity of the graph on a list of faces only depends on the set of its members. -/
theorem connected_congr_mem {U V : List Face} (h : ∀ x, x ∈ U ↔ x ∈ V) :
    (∀ s ∈ U, ∀ u ∈ U, Reach fanAdj U s u) ↔ (∀ s ∈ V, ∀ u ∈ V, Reach fanAdj V s u) := by
  constructor
  · intro hc s hs u hu
    exact (reach_congr_mem h).mp (hc s ((h s).mpr hs) u ((h u).mpr hu))
  · intro hc s hs u hu
    exact (reach_congr_mem h).mpr (hc s ((h s).mp hs) u ((h u).mp hu))

theorem mem_singularVerticesSt {st : MeshSt} (hok : st.OK) (hd : ∀ f ∈ st.faces, TriNondeg f.2)
    (v : Nat) :
    v ∈ singularVerticesSt st ↔
      (∃ f ∈ st.faces, hasVert v f.2 = true) ∧ ¬ FanGraphConnectedF st.faces v := by
  obtain ⟨ix, hix⟩ := st.touch_index
  have hI : IndexOK st.faces ix := by
    have := (MeshSt.ok_touch hok).2 ix hix
    rwa [MeshSt.touch_faces] at this
  have hfnd : st.faces.Nodup := hok.1
  unfold singularVerticesSt
  rw [hix]
  simp only [List.mem_map, List.mem_filter]
  -- facts about a slice that is the value at `v`
  have key : ∀ e ∈ ix, e.1 = v → e.2 ≠ [] →
      ((!(sliceUnvisited e.2).isEmpty) = true ↔ ¬ FanGraphConnectedF st.faces v) := by
    intro e he hev hne
    have hval : e.2 = ixValue ix v := by rw [← hev]; exact (ixValue_of_mem ix hI.1.1 e he).symm
    have hperm : e.2.Perm (facesAt v st.faces) := hval ▸ hI.2 v
    have hnd : e.2.Nodup := hperm.nodup_iff.mpr (hfnd.filter _)
    have hmemiff : ∀ x, x ∈ e.2 ↔ x ∈ facesAt v st.faces := fun x => hperm.mem_iff
    have hndg : ∀ x ∈ e.2, TriNondeg x.2 := fun x hx =>
      hd x (List.mem_filter.mp ((hmemiff x).mp hx)).1
    cases hs : e.2 with
    | nil => exact absurd hs hne
    | cons t rest =>
      rw [hs] at hnd hmemiff hndg
      have h1 := sliceUnvisited_ne_nil_iff hnd
        (fun x y hx hy => fanAdj_symm (hndg x hx) (hndg y hy))
      have h2 := connected_congr_mem hmemiff
      unfold FanGraphConnectedF
      rw [← h2, ← h1]
      cases sliceUnvisited (t :: rest) <;> simp
  constructor
  · rintro ⟨e, ⟨he, hun⟩, hev⟩
    have hne := hI.1.2 e he
    refine ⟨?_, (key e he hev hne).mp hun⟩
    have hval : e.2 = ixValue ix v := by rw [← hev]; exact (ixValue_of_mem ix hI.1.1 e he).symm
    have hperm : e.2.Perm (facesAt v st.faces) := hval ▸ hI.2 v
    cases hs : e.2 with
    | nil => exact absurd hs hne
    | cons t rest =>
      have : t ∈ facesAt v st.faces := hperm.mem_iff.mp (hs ▸ List.mem_cons_self)
      exact ⟨t, (List.mem_filter.mp this).1, (List.mem_filter.mp this).2⟩
  · rintro ⟨⟨f, hf, hvf⟩, hnc⟩
    have hfa : f ∈ facesAt v st.faces := List.mem_filter.mpr ⟨hf, hvf⟩
    have hvne : ixValue ix v ≠ [] := by
      intro h
      have := (hI.2 v).mem_iff.mpr hfa
      rw [h] at this; cases this
    have hk : v ∈ ixKeys ix := mem_keys_of_value_ne_nil hvne
    obtain ⟨e, he, hev⟩ := List.mem_map.mp hk
    exact ⟨e, ⟨he, (key e he hev (hI.1.2 e he)).mpr hnc⟩, hev⟩

/-! ## a vertex with a single triangle lies on an edge that is used once -/

theorem segsOf_cons (t : Tri) (ts : List Tri) :
    segsOf (t :: ts) = (triEdges t).map undirected ++ segsOf ts := by
  simp [segsOf, dirEdges]

theorem seg_endpoints_in_tri {t : Tri} {u : Edge} (hu : u ∈ (triEdges t).map undirected) (v : Nat)
    (hv : u.1 = v ∨ u.2 = v) : hasVert v t = true := by
  obtain ⟨a, b, c⟩ := t
  obtain ⟨x, y⟩ := u
  simp only [triEdges, List.map_cons, List.map_nil, List.mem_cons, List.mem_nil_iff, or_false,
    undirected, swap] at hu
  simp only [hasVert, triVerts, List.contains_eq_mem, List.mem_cons, List.mem_nil_iff, or_false,
    decide_eq_true_eq]
  simp only at hv
  rcases hu with h | h | h <;> split at h <;> simp only [Prod.mk.injEq] at h <;> omega

/-- Uses of an edge at `v` come from the faces at `v` only. -/
theorem count_segs_at (v : Nat) (u : Edge) (hu : u.1 = v ∨ u.2 = v) :
    ∀ ts : List Tri, (segsOf ts).count u = (segsOf (trisAt v ts)).count u := by
  intro ts
  induction ts with
  | nil => rfl
  | cons t ts ih =>
    by_cases ht : hasVert v t = true
    · have : trisAt v (t :: ts) = t :: trisAt v ts := by simp [trisAt, ht]
      rw [this, segsOf_cons, segsOf_cons, List.count_append, List.count_append, ih]
    · have : trisAt v (t :: ts) = trisAt v ts := by simp [trisAt, ht]
      rw [this, segsOf_cons, List.count_append, ih]
      have : ((triEdges t).map undirected).count u = 0 :=
        List.count_eq_zero.mpr fun hm => ht (seg_endpoints_in_tri hm v hu)
      omega

/-- The edge of `t` leaving `v` is used once by `t` (no degenerate face). -/
theorem exists_once_used_edge {t : Tri} (ht : TriNondeg t) {v : Nat} (hv : hasVert v t = true) :
    ∃ e ∈ triEdges t, (e.1 = v ∨ e.2 = v) ∧ ((triEdges t).map undirected).count (undirected e) = 1 := by
  obtain ⟨a, b, c⟩ := t
  obtain ⟨h1, h2, h3⟩ := ht
  simp only at h1 h2 h3
  simp only [hasVert, triVerts, List.contains_eq_mem, List.mem_cons, List.mem_nil_iff, or_false,
    decide_eq_true_eq] at hv
  have hcount : ∀ e ∈ triEdges (a, b, c),
      ((triEdges (a, b, c)).map undirected).count (undirected e) = 1 := by
    intro e he
    have hne : e.1 ≠ e.2 := triEdges_nondeg (t := (a, b, c)) ⟨h1, h2, h3⟩ he
    rw [count_undirected _ e hne]
    simp only [triEdges, List.mem_cons, List.mem_nil_iff, or_false] at he
    have h1' := Ne.symm h1
    have h2' := Ne.symm h2
    have h3' := Ne.symm h3
    rcases he with rfl | rfl | rfl <;>
      simp [triEdges, swap, h1, h2, h3, h1', h2', h3']
  rcases hv with rfl | rfl | rfl
  · exact ⟨(v, b), by simp [triEdges], Or.inl rfl, hcount _ (by simp [triEdges])⟩
  · exact ⟨(v, c), by simp [triEdges], Or.inl rfl, hcount _ (by simp [triEdges])⟩
  · exact ⟨(v, a), by simp [triEdges], Or.inl rfl, hcount _ (by simp [triEdges])⟩

/-- A vertex with fewer than two triangles lies on an edge used only once: every face set in
which some vertex has exactly one (non-degenerate) face needs repair. -/
theorem needsRepair_of_single_face {ts : List Tri} {v : Nat} {t : Tri} (ht : TriNondeg t)
    (hF : trisAt v ts = [t]) : needsRepair ts = true := by
  have htm : t ∈ trisAt v ts := by rw [hF]; exact List.mem_cons_self
  have hvt : hasVert v t = true := (List.mem_filter.mp htm).2
  have hts : t ∈ ts := (List.mem_filter.mp htm).1
  obtain ⟨e, he, hev, hc⟩ := exists_once_used_edge ht hvt
  rw [needsRepair_iff_segs]
  have hu : (undirected e).1 = v ∨ (undirected e).2 = v := by
    obtain ⟨x, y⟩ := e
    simp only [undirected, swap] at hev ⊢
    split <;> simp only <;> omega
  refine ⟨undirected e, ?_, ?_⟩
  · simp only [segsOf, dirEdges, List.mem_map, List.mem_flatMap]
    exact ⟨e, ⟨t, hts, he⟩, rfl⟩
  · rw [count_segs_at v _ hu ts, hF]
    have : segsOf [t] = (triEdges t).map undirected := by simp [segsOf, dirEdges]
    rw [this, hc]
    omega

/-! ## 2-D: `Manifold` on the slices of the index -/

theorem hasVert_segTri (v : Nat) (t : Tri) (h : t.2.2 = t.2.1) :
    hasVert v t = segHas v (segOfTri t) := by
  obtain ⟨a, b, c⟩ := t
  simp only at h
  subst h
  simp only [hasVert, triVerts, segHas, segOfTri, List.contains_eq_mem, List.mem_cons,
    List.mem_nil_iff, or_false]
  by_cases h1 : a = v
  · subst h1; simp
  · by_cases h2 : c = v
    · subst h2; simp
    · have h1' : ¬ v = a := fun h => h1 h.symm
      have h2' : ¬ v = c := fun h => h2 h.symm
      simp [h1, h2, h1', h2']

theorem segsAt_length_eq (st : MeshSt) (hseg : ∀ f ∈ st.faces, f.2.2.2 = f.2.2.1) (v : Nat) :
    (segsAt v st.segs).length = (facesAt v st.faces).length := by
  unfold segsAt MeshSt.segs facesAt
  rw [List.filter_map, List.length_map]
  congr 1
  apply List.filter_congr
  intro f hf
  simp only [Function.comp]
  exact (hasVert_segTri v f.2 (hseg f hf)).symm

theorem mem_segVertsAll_iff (st : MeshSt) (hseg : ∀ f ∈ st.faces, f.2.2.2 = f.2.2.1) (v : Nat) :
    v ∈ segVertsAll st.segs ↔ ∃ f ∈ st.faces, hasVert v f.2 = true := by
  unfold segVertsAll MeshSt.segs
  simp only [List.mem_flatMap, List.mem_map]
  constructor
  · rintro ⟨s, ⟨f, hf, rfl⟩, hv⟩
    refine ⟨f, hf, ?_⟩
    rw [hasVert_segTri v f.2 (hseg f hf)]
    simp only [List.mem_cons, List.mem_nil_iff, or_false] at hv
    rcases hv with h | h <;> simp [segHas, h]
  · rintro ⟨f, hf, hv⟩
    refine ⟨_, ⟨f, hf, rfl⟩, ?_⟩
    rw [hasVert_segTri v f.2 (hseg f hf)] at hv
    simp only [segHas, Bool.or_eq_true, beq_iff_eq] at hv
    simp only [List.mem_cons, List.mem_nil_iff, or_false]
    rcases hv with h | h
    · exact Or.inl h.symm
    · exact Or.inr h.symm

theorem manifoldSt_eq {st : MeshSt} (hok : st.OK) (hseg : ∀ f ∈ st.faces, f.2.2.2 = f.2.2.1) :
    manifoldSt st = manifold2 st.segs := by
  obtain ⟨ix, hix⟩ := st.touch_index
  have hI : IndexOK st.faces ix := by
    have := (MeshSt.ok_touch hok).2 ix hix
    rwa [MeshSt.touch_faces] at this
  have hlen : ∀ e ∈ ix, e.2.length = (segsAt e.1 st.segs).length := by
    intro e he
    rw [segsAt_length_eq st hseg, ← ixValue_of_mem ix hI.1.1 e he]
    exact (hI.2 e.1).length_eq
  have h1 : manifoldSt st = true ↔ ∀ e ∈ ix, e.2.length = 2 := by
    unfold manifoldSt; rw [hix]; simp [List.all_eq_true]
  have h2 : manifold2 st.segs = true ↔ ∀ v ∈ segVertsAll st.segs, (segsAt v st.segs).length = 2 := by
    simp [manifold2, segVerts, List.mem_eraseDups]
  have key : (∀ e ∈ ix, e.2.length = 2) ↔ ∀ v ∈ segVertsAll st.segs, (segsAt v st.segs).length = 2 := by
    constructor
    · intro h v hv
      obtain ⟨f, hf, hvf⟩ := (mem_segVertsAll_iff st hseg v).mp hv
      have hfa : f ∈ facesAt v st.faces := List.mem_filter.mpr ⟨hf, hvf⟩
      have hvne : ixValue ix v ≠ [] := by
        intro h0
        have := (hI.2 v).mem_iff.mpr hfa
        rw [h0] at this; cases this
      obtain ⟨e, he, hev⟩ := List.mem_map.mp (mem_keys_of_value_ne_nil hvne)
      have := hlen e he
      rw [hev] at this
      rw [← this]; exact h e he
    · intro h e he
      rw [hlen e he]
      apply h
      rw [mem_segVertsAll_iff st hseg]
      have hne := hI.1.2 e he
      have hperm : e.2.Perm (facesAt e.1 st.faces) := by
        rw [← ixValue_of_mem ix hI.1.1 e he]; exact hI.2 e.1
      cases hs : e.2 with
      | nil => exact absurd hs hne
      | cons t rest =>
        have : t ∈ facesAt e.1 st.faces := hperm.mem_iff.mp (hs ▸ List.mem_cons_self)
        exact ⟨t, (List.mem_filter.mp this).1, (List.mem_filter.mp this).2⟩
  cases hm : manifoldSt st with
  | true => exact ((h2.mpr (key.mp (h1.mp hm)))).symm
  | false =>
    cases hm2 : manifold2 st.segs with
    | false => rfl
    | true => rw [h1.mpr (key.mpr (h2.mp hm2))] at hm; cases hm

end M3d.MeshDiag
