import M3d.Model.TransformNest
import M3d.Lemmas.Transform
import M3d.Lemmas.Transform2
/-!
# C05 — nested wrappers equal one wrapper of the joined transform (helper lemmas)

`Xf.ofList (ts ++ [t])` (append one more member to a `JoinedTransform`) applies `t` last, inverts `t` first;
each wrapper applied on top of a wrapper of `ofList ts` is the wrapper of `ofList (ts ++ [t])`.
-/
namespace M3d.Tf

set_option linter.unusedSectionVars false
set_option linter.unusedVariables false

variable {K : Type} [Field K] [LinearOrder K] [IsStrictOrderedRing K]

/-! ## `JoinedTransform` as a list -/

theorem Xf.ofList_append_apply (ts : List (Xf K)) (t : Xf K) (p : V3 K) :
    (Xf.ofList (ts ++ [t])).apply p = t.apply ((Xf.ofList ts).apply p) := by
  induction ts generalizing p with
  | nil => rfl
  | cons a ts ih => simp only [List.cons_append, Xf.ofList, Xf.apply, ih]

theorem Xf.ofList_append_bounds (ts : List (Xf K)) (t : Xf K) (lo hi : V3 K) :
    (Xf.ofList (ts ++ [t])).applyBounds lo hi =
      t.applyBounds ((Xf.ofList ts).applyBounds lo hi).1 ((Xf.ofList ts).applyBounds lo hi).2 := by
  induction ts generalizing lo hi with
  | nil => rfl
  | cons a ts ih => simp only [List.cons_append, Xf.ofList, Xf.applyBounds, ih]

theorem Xf.ofList_append_dist (ts : List (Xf K)) (t : Xf K) (d : K) :
    (Xf.ofList (ts ++ [t])).applyDistance d = t.applyDistance ((Xf.ofList ts).applyDistance d) := by
  induction ts generalizing d with
  | nil => simp only [List.nil_append, Xf.ofList, Xf.applyDistance]
  | cons a ts ih => simp only [List.cons_append, Xf.ofList, Xf.applyDistance, ih]

theorem Xf.ofList_append_inverse (ts : List (Xf K)) (t : Xf K) :
    (Xf.ofList (ts ++ [t])).inverse = .jcons t.inverse (Xf.ofList ts).inverse := by
  induction ts with
  | nil => rfl
  | cons a ts ih => simp only [List.cons_append, Xf.ofList, Xf.inverse, ih, Xf.snoc]

theorem Xf.valid_ofList (ts : List (Xf K)) (h : ∀ t ∈ ts, t.Valid) : (Xf.ofList ts).Valid := by
  induction ts with
  | nil => trivial
  | cons a ts ih => exact ⟨h a (List.mem_cons_self ..), ih fun t ht => h t (List.mem_cons_of_mem _ ht)⟩

theorem Xf.affine_ofList (ts : List (Xf K)) (h : ∀ t ∈ ts, t.Affine) : (Xf.ofList ts).Affine := by
  induction ts with
  | nil => trivial
  | cons a ts ih => exact ⟨h a (List.mem_cons_self ..), ih fun t ht => h t (List.mem_cons_of_mem _ ht)⟩

theorem Xf.distValid_ofList (ts : List (Xf K)) (h : ∀ t ∈ ts, t.DistValid) : (Xf.ofList ts).DistValid := by
  induction ts with
  | nil => trivial
  | cons a ts ih => exact ⟨h a (List.mem_cons_self ..), ih fun t ht => h t (List.mem_cons_of_mem _ ht)⟩

/-- the linear part of a join with one more member -/
theorem Xf.ofList_append_lin (ts : List (Xf K)) (t : Xf K) (ht : t.Affine) (d : V3 K) :
    (Xf.ofList (ts ++ [t])).lin d = t.lin ((Xf.ofList ts).lin d) := by
  simp only [Xf.lin, Xf.ofList_append_apply]
  rw [Xf.apply_sub_apply t ht]
  rfl

theorem Xf.ofList_append_factor (ts : List (Xf K)) (t : Xf K) :
    (Xf.ofList (ts ++ [t])).factor = (Xf.ofList ts).factor * t.factor := by
  induction ts with
  | nil => simp [Xf.ofList, Xf.factor]
  | cons a ts ih => simp only [List.cons_append, Xf.ofList, Xf.factor, ih]; ring

/-! ## structure extensionality (the wrapped objects are records of functions) -/

theorem Solid.ext' {a b : Solid K} (h1 : a.lo = b.lo) (h2 : a.hi = b.hi)
    (h3 : ∀ c, a.contains c = b.contains c) : a = b := by
  cases a; cases b
  simp only [Solid.mk.injEq]
  exact ⟨h1, h2, funext h3⟩

theorem Collider.ext' {a b : Collider K} (h1 : a.lo = b.lo) (h2 : a.hi = b.hi)
    (h3 : ∀ r, a.hits r = b.hits r) (h4 : ∀ r, a.count r = b.count r) (h5 : ∀ r, a.first r = b.first r)
    (h6 : ∀ p d, a.sphere p d = b.sphere p d) : a = b := by
  cases a; cases b
  simp only [Collider.mk.injEq]
  exact ⟨h1, h2, funext h3, funext h4, funext h5, funext fun p => funext (h6 p)⟩

/-! ## SDF and metaball: no side conditions -/

theorem transformSDF_snoc (ts : List (Xf K)) (t : Xf K) (s : SDF K) :
    transformSDF t (transformSDF (Xf.ofList ts) s) = transformSDF (Xf.ofList (ts ++ [t])) s := by
  simp only [transformSDF, Xf.ofList_append_bounds, Xf.ofList_append_dist, Xf.ofList_append_inverse, Xf.apply]

theorem nestSDF_eq (ts : List (Xf K)) (s : SDF K) : nestSDF ts s = transformSDF (Xf.ofList ts) s := by
  induction ts using List.reverseRecOn with
  | nil => rfl
  | append_singleton ts t ih =>
      rw [← transformSDF_snoc, ← ih]
      simp only [nestSDF, List.foldl_append, List.foldl_cons, List.foldl_nil]

theorem transformMetaball_snoc (ts : List (Xf K)) (t : Xf K) (m : Metaball K) :
    transformMetaball t (transformMetaball (Xf.ofList ts) m) = transformMetaball (Xf.ofList (ts ++ [t])) m := by
  simp only [transformMetaball, Xf.ofList_append_bounds, Xf.ofList_append_inverse, Xf.apply, Xf.applyDistance]

theorem nestMetaball_eq (ts : List (Xf K)) (m : Metaball K) :
    nestMetaball ts m = transformMetaball (Xf.ofList ts) m := by
  induction ts using List.reverseRecOn with
  | nil => rfl
  | append_singleton ts t ih =>
      rw [← transformMetaball_snoc, ← ih]
      simp only [nestMetaball, List.foldl_append, List.foldl_cons, List.foldl_nil]

/-! ## solids: the inner wrapper's own bounds test is implied by the outer one's -/

/-- a point whose pre-image is inside the solid is inside the transformed bounds -/
theorem inBounds_of_contains_inverse (J : Xf K) (hJ : J.Valid) (s : Solid K)
    (hs : ∀ x, s.contains x = true → Box s.lo s.hi x) (x : V3 K) (hc : s.contains (J.inverse.apply x) = true) :
    inBounds x (J.applyBounds s.lo s.hi).1 (J.applyBounds s.lo s.hi).2 = true := by
  have := Xf.applyBounds_encloses J (Xf.valid_boundsOK J hJ) s.lo s.hi _ (hs _ hc)
  rw [Xf.apply_inverse J hJ] at this
  exact (inBounds_iff _ _ _).mpr this

theorem transformSolid_snoc (ts : List (Xf K)) (hv : (Xf.ofList ts).Valid) (t : Xf K) (s : Solid K)
    (hs : ∀ x, s.contains x = true → Box s.lo s.hi x) :
    transformSolid t (transformSolid (Xf.ofList ts) s) = transformSolid (Xf.ofList (ts ++ [t])) s := by
  apply Solid.ext'
  · simp only [transformSolid, Xf.ofList_append_bounds]
  · simp only [transformSolid, Xf.ofList_append_bounds]
  · intro c
    simp only [transformSolid, Xf.ofList_append_bounds, Xf.ofList_append_inverse, Xf.apply]
    cases hc : s.contains ((Xf.ofList ts).inverse.apply (t.inverse.apply c)) with
    | false => simp
    | true =>
        have := inBounds_of_contains_inverse (Xf.ofList ts) hv s hs (t.inverse.apply c) hc
        simp [this]

theorem transformSolid_jnil (s : Solid K) (hs : ∀ x, s.contains x = true → Box s.lo s.hi x) :
    transformSolid (Xf.jnil : Xf K) s = s := by
  apply Solid.ext'
  · rfl
  · rfl
  · intro c
    show (inBounds c s.lo s.hi && s.contains c) = s.contains c
    cases hc : s.contains c with
    | false => simp
    | true => simp [(inBounds_iff _ _ _).mpr (hs c hc)]

theorem nestSolid_eq (ts : List (Xf K)) (hv : ∀ t ∈ ts, t.Valid) (s : Solid K)
    (hs : ∀ x, s.contains x = true → Box s.lo s.hi x) : nestSolid ts s = transformSolid (Xf.ofList ts) s := by
  induction ts using List.reverseRecOn with
  | nil => exact (transformSolid_jnil s hs).symm
  | append_singleton ts t ih =>
      have hv' : ∀ u ∈ ts, u.Valid := fun u hu => hv u (List.mem_append_left _ hu)
      rw [← transformSolid_snoc ts (Xf.valid_ofList ts hv') t s hs, ← ih hv']
      simp only [nestSolid, List.foldl_append, List.foldl_cons, List.foldl_nil]

/-! ## colliders -/

theorem V3.sub_zero' (d : V3 K) : d.sub (V3.zero : V3 K) = d := by
  ext <;> simp [V3.sub, V3.zero]

/-- the ray handed down through two wrappers is the ray handed down through the wrapper of the join -/
theorem innerRay_snoc (ts : List (Xf K)) (ha : (Xf.ofList ts).Affine) (t : Xf K) (r : Ray K) :
    innerRay (Xf.ofList ts).inverse (innerRay t.inverse r) = innerRay (Xf.ofList (ts ++ [t])).inverse r := by
  have hai := Xf.affine_inverse _ ha
  simp only [innerRay, Xf.ofList_append_inverse, Xf.apply]
  congr 1
  exact (Xf.apply_sub_apply _ hai _ _).symm

theorem V3.scale_scale (v : V3 K) (a b : K) : (v.scale a).scale b = v.scale (a * b) := by
  ext <;> simp only [V3.scale] <;> ring

theorem V3.normSq_scale (v : V3 K) (a : K) : (v.scale a).normSq = a * a * v.normSq := by
  simp only [V3.normSq, V3.scale]; ring

theorem V3.eq_zero_of_normSq (v : V3 K) (h : v.normSq = 0) : v = V3.zero := by
  have hx := mul_self_nonneg v.x
  have hy := mul_self_nonneg v.y
  have hz := mul_self_nonneg v.z
  simp only [V3.normSq] at h
  have ex : v.x * v.x = 0 := by linarith
  have ey : v.y * v.y = 0 := by linarith
  have ez : v.z * v.z = 0 := by linarith
  ext
  · exact mul_self_eq_zero.mp ex
  · exact mul_self_eq_zero.mp ey
  · exact mul_self_eq_zero.mp ez

theorem Xf.lin_zero (t : Xf K) : t.lin (V3.zero : V3 K) = V3.zero := by
  ext <;> simp [Xf.lin, V3.sub, V3.zero]

theorem Xf.normSq_lin (t : Xf K) (h : t.DistValid) (n : V3 K) :
    (t.lin n).normSq = t.factor * t.factor * n.normSq := by
  rw [V3.normSq_eq_dot, Xf.dot_lin t h, V3.normSq_eq_dot]

/-- **Renormalising twice is renormalising once**: for similarities `J` then `t` and a normal whose squared
length is a perfect square `m²` (a unit normal: `m = 1`), with `sqrtF` the exact root on perfect squares. -/
theorem normalize_lin_normalize (sqrtF : K → K) (hsq : ∀ q, 0 ≤ q → sqrtF (q * q) = q)
    (J t : Xf K) (hJ : J.DistValid) (ht : t.DistValid) (n : V3 K) (m : K) (hm : 0 ≤ m) (hn : n.normSq = m * m) :
    (t.lin ((J.lin n).normalize sqrtF)).normalize sqrtF = (t.lin (J.lin n)).normalize sqrtF := by
  have hta := Xf.distValid_affine t ht
  have fJ := Xf.factor_pos J hJ
  have ft := Xf.factor_pos t ht
  rcases hm.lt_or_eq with hpos | hzero
  · -- m > 0
    have e1 : (J.lin n).normSq = (J.factor * m) * (J.factor * m) := by rw [Xf.normSq_lin J hJ, hn]; ring
    have hq1 : 0 ≤ J.factor * m := (mul_pos fJ hpos).le
    have hne1 : J.factor * m ≠ 0 := ne_of_gt (mul_pos fJ hpos)
    have e2 : (t.lin (J.lin n)).normSq = (t.factor * (J.factor * m)) * (t.factor * (J.factor * m)) := by
      rw [Xf.normSq_lin t ht, e1]; ring
    have hq2 : 0 ≤ t.factor * (J.factor * m) := (mul_pos ft (mul_pos fJ hpos)).le
    have e3 : ((t.lin (J.lin n)).scale (1 / (J.factor * m))).normSq = t.factor * t.factor := by
      rw [V3.normSq_scale, e2]; field_simp
    simp only [V3.normalize]
    rw [e1, hsq _ hq1, Xf.lin_scale t hta, e3, hsq _ ft.le, e2, hsq _ hq2, V3.scale_scale]
    congr 1
    have hft := ne_of_gt ft
    field_simp
  · -- m = 0: the normal is the zero vector
    have hn0 : n = V3.zero := V3.eq_zero_of_normSq n (by rw [hn, ← hzero]; ring)
    subst hn0
    have z : ∀ a : K, (V3.zero : V3 K).scale a = V3.zero := fun a => by ext <;> simp [V3.scale, V3.zero]
    simp only [V3.normalize, Xf.lin_zero, z]

theorem outerCollision_snoc (sqrtF : K → K) (hsq : ∀ q, 0 ≤ q → sqrtF (q * q) = q)
    (ts : List (Xf K)) (hJ : (Xf.ofList ts).DistValid) (t : Xf K) (ht : t.DistValid) (h : Hit K)
    (m : K) (hm : 0 ≤ m) (hn : h.normal.normSq = m * m) :
    outerCollision sqrtF t (outerCollision sqrtF (Xf.ofList ts) h) = outerCollision sqrtF (Xf.ofList (ts ++ [t])) h := by
  have e := normalize_lin_normalize sqrtF hsq (Xf.ofList ts) t hJ ht h.normal m hm hn
  have l := Xf.ofList_append_lin ts t (Xf.distValid_affine t ht) h.normal
  simp only [Xf.lin] at e l
  simp only [outerCollision, e, l]

/-- the normals a collider reports have perfect-square squared length (unit normals: 1) -/
def Collider.NiceNormals (c : Collider K) : Prop :=
  (∀ r, ∀ h ∈ c.hits r, ∃ m : K, 0 ≤ m ∧ h.normal.normSq = m * m) ∧
    ∀ r, ∃ m : K, 0 ≤ m ∧ (c.first r).1.normal.normSq = m * m

theorem transformCollider_snoc (sqrtF : K → K) (hsq : ∀ q, 0 ≤ q → sqrtF (q * q) = q)
    (ts : List (Xf K)) (hJ : (Xf.ofList ts).DistValid) (t : Xf K) (ht : t.DistValid) (c : Collider K)
    (hc : c.NiceNormals) :
    transformCollider sqrtF t (transformCollider sqrtF (Xf.ofList ts) c) =
      transformCollider sqrtF (Xf.ofList (ts ++ [t])) c := by
  have hJa := Xf.distValid_affine _ hJ
  apply Collider.ext'
  · simp only [transformCollider, Xf.ofList_append_bounds]
  · simp only [transformCollider, Xf.ofList_append_bounds]
  · intro r
    simp only [transformCollider, innerRay_snoc ts hJa, List.map_map]
    apply List.map_congr_left
    intro h hh
    obtain ⟨m, hm, hn⟩ := hc.1 _ h hh
    exact outerCollision_snoc sqrtF hsq ts hJ t ht h m hm hn
  · intro r
    simp only [transformCollider, innerRay_snoc ts hJa]
  · intro r
    obtain ⟨m, hm, hn⟩ := hc.2 (innerRay (Xf.ofList (ts ++ [t])).inverse r)
    simp only [transformCollider, tcFirst, innerRay_snoc ts hJa]
    cases hf : (c.first (innerRay (Xf.ofList (ts ++ [t])).inverse r)).2 with
    | false => simp
    | true => simp [outerCollision_snoc sqrtF hsq ts hJ t ht _ m hm hn]
  · intro p d
    simp only [transformCollider, tcSphere, Xf.ofList_append_inverse, Xf.apply, Xf.applyDistance]

theorem transformCollider_singleton (sqrtF : K → K) (t : Xf K) (c : Collider K) :
    transformCollider sqrtF (Xf.ofList [t]) c = transformCollider sqrtF t c := rfl

theorem nestCollider_eq (sqrtF : K → K) (hsq : ∀ q, 0 ≤ q → sqrtF (q * q) = q)
    (t0 : Xf K) (ts : List (Xf K)) (hd : ∀ t ∈ t0 :: ts, t.DistValid) (c : Collider K) (hc : c.NiceNormals) :
    nestCollider sqrtF (t0 :: ts) c = transformCollider sqrtF (Xf.ofList (t0 :: ts)) c := by
  induction ts using List.reverseRecOn with
  | nil => rfl
  | append_singleton ts t ih =>
      have hd' : ∀ u ∈ t0 :: ts, u.DistValid := fun u hu => by
        apply hd u
        rcases List.mem_cons.mp hu with rfl | hu
        · exact List.mem_cons_self ..
        · exact List.mem_cons_of_mem _ (List.mem_append_left _ hu)
      have ht : t.DistValid := hd t (List.mem_cons_of_mem _ (List.mem_append_right _ (List.mem_singleton_self t)))
      have e : t0 :: (ts ++ [t]) = (t0 :: ts) ++ [t] := rfl
      rw [e, ← transformCollider_snoc sqrtF hsq (t0 :: ts) (Xf.distValid_ofList _ hd') t ht c hc, ← ih hd']
      simp only [nestCollider, List.foldl_append, List.foldl_cons, List.foldl_nil]

end M3d.Tf
