import M3d.Gen.Kernels
import M3d.Model.Curves
import M3d.Lemmas.LoopFrom
import M3d.Lemmas.C17Seg
import M3d.Lemmas.KernelsTieNumeric
import M3d.Props.C17
import Mathlib.Tactic.Ring
import Mathlib.Tactic.Linarith
import Mathlib.Algebra.Order.Field.Basic
/-!
# Tie between the REGENERATED `model2d.NewSegmentCurve` and the polyline model of C17

`model2d.NewSegmentCurve` and `model2d.Segment.Length` as `model2d/curves.go` / `primitives.go` define them NOW (the
loop over the segments is the structural recursion `loopFrom` of `M3d/GenPrelude.lean`) build exactly the table the
C17 model uses: `segments` unchanged, `lengths` = the START offset of EVERY segment (one entry per segment, also for a
segment of length zero — the alignment `lengths[i]` ↔ `segments[i]` that `SegmentCurve.Eval` relies on), `totalLength`
= the sum.  Consequences stated on the generated definition: the table has one entry per segment, and `Eval` (the
hand-written model `segEvalOn`, tied by the `seg` kinds) on the GENERATED table is the arclength walk.
-/
namespace M3d.KernelsTie.Curves
open M3d.Curves M3d.Gen.Kernels M3d.GenPrelude M3d.KernelsTie.Numeric
set_option linter.unusedSectionVars false
set_option linter.unusedVariables false
set_option linter.unusedSimpArgs false

variable {K : Type} [Field K] [LinearOrder K] [IsStrictOrderedRing K]

/-- A generated `model2d.Segment` as the model's segment. -/
def toSeg (s : model2d.Segment K) : Seg K := ⟨s.e0.X, s.e0.Y, s.e1.X, s.e1.Y⟩

/-- **`Segment.Length` as regenerated is the model's `segLen`** (`s[1].Sub(s[0]).Norm()`). -/
theorem segment_length (sqrtF : K → K) (s : model2d.Segment K) :
    (letI := sqrtOf sqrtF; model2d.Segment_Length s) = segLen sqrtF (toSeg s) := by
  simp only [model2d.Segment_Length, model2d.Coord_Norm, model2d.Coord_Sub, model2d.Coord_Add, model2d.Coord_Scale,
    segLen, toSeg]
  show sqrtF _ = sqrtF _
  congr 1
  ring

/-- The loop of `NewSegmentCurve` from an intermediate state. -/
theorem newSegmentCurve_fold (len : model2d.Segment K → K) (segs : List (model2d.Segment K)) (pre : List K) (acc : K) :
    segs.foldl (fun (st : List K × K) x => (st.1 ++ [st.2], st.2 + len x)) (pre, acc) =
      (pre ++ (cumulative acc (segs.map len)).1, (cumulative acc (segs.map len)).2) := by
  induction segs generalizing pre acc with
  | nil => simp [cumulative]
  | cons s rest ih =>
    simp only [List.foldl_cons, List.map_cons, cumulative, ih, List.append_assoc, List.cons_append, List.nil_append]

/-- **`NewSegmentCurve` as regenerated builds the model's table**: the segments as given, one start offset per
segment (`cumulative`), the total length. -/
theorem newSegmentCurve (sqrtF : K → K) (segs : List (model2d.Segment K)) :
    (letI := sqrtOf sqrtF; model2d.NewSegmentCurve segs) =
      { segments := segs,
        lengths := (cumulative 0 (segs.map fun s => segLen sqrtF (toSeg s))).1,
        totalLength := (cumulative 0 (segs.map fun s => segLen sqrtF (toSeg s))).2 } := by
  letI := sqrtOf sqrtF
  simp only [model2d.NewSegmentCurve]
  rw [loopFrom_eq_foldl (g := fun (st : List K × K) x => (st.1 ++ [st.2], st.2 + model2d.Segment_Length x))]
  · rw [newSegmentCurve_fold]
    have e : (segs.map fun s => model2d.Segment_Length s) = segs.map fun s => segLen sqrtF (toSeg s) := by
      apply List.map_congr_left
      intro s _
      exact segment_length sqrtF s
    simp only [List.nil_append, e]
  · intro s i x
    rfl

/-- One start offset per segment, whatever the lengths (a zero-length segment keeps its entry). -/
theorem newSegmentCurve_aligned (sqrtF : K → K) (segs : List (model2d.Segment K)) :
    (letI := sqrtOf sqrtF; (model2d.NewSegmentCurve segs).lengths.length) = segs.length ∧
      (letI := sqrtOf sqrtF; (model2d.NewSegmentCurve segs).segments) = segs := by
  rw [newSegmentCurve]
  simp [cumulative_length]

/-- **`Eval` on the regenerated table is the arclength walk** (`segment_curve_eval_repeated` transported through the
tie): connected polyline, repeated vertices allowed, `t ≥ 0`. -/
theorem newSegmentCurve_eval (sqrtF : K → K) (hs : M3d.Num.SqrtSpec sqrtF) (segs : List (model2d.Segment K))
    (hne : segs ≠ []) (hc : Connected (segs.map toSeg)) (t : K) (ht : 0 ≤ t) :
    (letI := sqrtOf sqrtF
     let c := model2d.NewSegmentCurve segs
     segEvalOn sqrtF (c.segments.map toSeg) c.lengths c.totalLength t) = segSpec sqrtF (segs.map toSeg) t := by
  rw [newSegmentCurve]
  have h := M3d.C17.segment_curve_eval_repeated sqrtF hs (segs.map toSeg) (by simpa using hne) hc t ht
  simp only [segEval, List.map_map, Nat.cast_zero] at h
  exact h

end M3d.KernelsTie.Curves
