import M3d.Model.Transform2
import M3d.Lemmas.Transform
/-! Helper lemmas for the 2-D part of C05 (`model2d/transform.go`), over an arbitrary linear ordered field. -/
namespace M3d.Tf

set_option linter.unusedSectionVars false

section
variable {K : Type} [Field K] [LinearOrder K] [IsStrictOrderedRing K]

/-! ### `Matrix2` -/

theorem M2.inverse_mulColumn (m : M2 K) (h : m.det ≠ 0) (c : V2 K) : m.inverse.mulColumn (m.mulColumn c) = c := by
  have hi : m.det * (1 / m.det) = 1 := mul_one_div_cancel h
  unfold M2.inverse
  generalize 1 / m.det = i at hi ⊢
  ext <;> simp only [M2.mulColumn, M2.scale, M2.adj, M2.det] at hi ⊢
  · linear_combination c.x * hi
  · linear_combination c.y * hi

theorem M2.mulColumn_inverse (m : M2 K) (h : m.det ≠ 0) (c : V2 K) : m.mulColumn (m.inverse.mulColumn c) = c := by
  have hi : m.det * (1 / m.det) = 1 := mul_one_div_cancel h
  unfold M2.inverse
  generalize 1 / m.det = i at hi ⊢
  ext <;> simp only [M2.mulColumn, M2.scale, M2.adj, M2.det] at hi ⊢
  · linear_combination c.x * hi
  · linear_combination c.y * hi

theorem M2.det_ne_zero_of_ortho (m : M2 K) (h : m.transpose.mul m = M2.one) : m.det ≠ 0 := by
  have h1 : (m.transpose.mul m).det = m.det * m.det := by simp only [M2.det, M2.mul, M2.transpose]; ring
  rw [h] at h1
  have h2 : (M2.one : M2 K).det = 1 := by simp [M2.det, M2.one]
  rw [h2] at h1
  intro h0
  rw [h0] at h1
  simp at h1

/-! ### round trips -/

/-- invertible by the library's own `Inverse()` -/
def Xf2.Valid : Xf2 K → Prop
  | .translate _ => True
  | .scale s => s ≠ 0
  | .vecScale v => v.x ≠ 0 ∧ v.y ≠ 0
  | .matrix m => m.det ≠ 0
  | .ortho m => m.det ≠ 0
  | .jnil => True
  | .jcons t r => t.Valid ∧ r.Valid

theorem Xf2.apply_snoc (r t : Xf2 K) (p : V2 K) : (r.snoc t).apply p = t.apply (r.apply p) := by
  induction r generalizing p with
  | jnil => rfl
  | jcons a r _ ih => simp only [Xf2.snoc, Xf2.apply, ih]
  | _ => rfl

theorem Xf2.valid_snoc (r t : Xf2 K) (hr : r.Valid) (ht : t.Valid) : (r.snoc t).Valid := by
  induction r with
  | jnil => exact ⟨ht, trivial⟩
  | jcons a r _ ih => exact ⟨hr.1, ih hr.2⟩
  | _ => exact ⟨hr, ht, trivial⟩

theorem Xf2.inverse_apply (t : Xf2 K) (h : t.Valid) (p : V2 K) : t.inverse.apply (t.apply p) = p := by
  induction t generalizing p with
  | translate o => ext <;> simp only [Xf2.inverse, Xf2.apply, V2.add, V2.scale] <;> ring
  | scale s =>
      have hs : s ≠ 0 := h
      ext <;> simp only [Xf2.inverse, Xf2.apply, V2.scale] <;> field_simp
  | vecScale v =>
      obtain ⟨hx, hy⟩ := h
      ext <;> simp only [Xf2.inverse, Xf2.apply, V2.mul, V2.recip] <;> field_simp
  | matrix m => exact M2.inverse_mulColumn m h p
  | ortho m => exact M2.inverse_mulColumn m h p
  | jnil => rfl
  | jcons t r iht ihr => simp only [Xf2.inverse, Xf2.apply, Xf2.apply_snoc, ihr h.2, iht h.1]

theorem Xf2.apply_inverse (t : Xf2 K) (h : t.Valid) (p : V2 K) : t.apply (t.inverse.apply p) = p := by
  induction t generalizing p with
  | translate o => ext <;> simp only [Xf2.inverse, Xf2.apply, V2.add, V2.scale] <;> ring
  | scale s =>
      have hs : s ≠ 0 := h
      ext <;> simp only [Xf2.inverse, Xf2.apply, V2.scale] <;> field_simp
  | vecScale v =>
      obtain ⟨hx, hy⟩ := h
      ext <;> simp only [Xf2.inverse, Xf2.apply, V2.mul, V2.recip] <;> field_simp
  | matrix m => exact M2.mulColumn_inverse m h p
  | ortho m => exact M2.mulColumn_inverse m h p
  | jnil => rfl
  | jcons t r iht ihr => simp only [Xf2.inverse, Xf2.apply, Xf2.apply_snoc, iht h.1, ihr h.2]

/-! ### boxes -/

/-- `p` lies in the rectangle `[lo, hi]`. -/
def Box2 (lo hi p : V2 K) : Prop := (lo.x ≤ p.x ∧ p.x ≤ hi.x) ∧ (lo.y ≤ p.y ∧ p.y ≤ hi.y)

theorem V2.beq_iff (a b : V2 K) : a.beq b = true ↔ a = b := by
  simp only [V2.beq, Bool.and_eq_true, beq_iff_eq, V2.ext_iff]

theorem inBounds2_iff (c lo hi : V2 K) : inBounds2 c lo hi = true ↔ Box2 lo hi c := by
  simp only [inBounds2, Bool.and_eq_true, V2.beq_iff, V2.ext_iff, V2.min, V2.max, mn_eq_min, mx_eq_max,
    min_eq_right_iff, max_eq_right_iff, Box2]
  tauto

/-- A linear functional on a rectangle is at least the running minimum over the 4 corners (loop order of
`Matrix2Transform.ApplyBounds`). -/
theorem min4_le_lin (a b x0 x1 y0 y1 x y : K) (hx : x0 ≤ x ∧ x ≤ x1) (hy : y0 ≤ y ∧ y ≤ y1) :
    min (min (min (a * x0 + b * y0) (a * x0 + b * y1)) (a * x1 + b * y0)) (a * x1 + b * y1) ≤ a * x + b * y := by
  obtain ⟨cx, hcx, hx'⟩ := lin_lower a x0 x1 x hx.1 hx.2
  obtain ⟨cy, hcy, hy'⟩ := lin_lower b y0 y1 y hy.1 hy.2
  refine le_trans ?_ (add_le_add hx' hy')
  rcases hcx with rfl | rfl <;> rcases hcy with rfl | rfl <;>
    simp only [min_le_iff, le_refl, true_or, or_true]

theorem lin_le_max4 (a b x0 x1 y0 y1 x y : K) (hx : x0 ≤ x ∧ x ≤ x1) (hy : y0 ≤ y ∧ y ≤ y1) :
    a * x + b * y ≤ max (max (max (a * x0 + b * y0) (a * x0 + b * y1)) (a * x1 + b * y0)) (a * x1 + b * y1) := by
  obtain ⟨cx, hcx, hx'⟩ := lin_upper a x0 x1 x hx.1 hx.2
  obtain ⟨cy, hcy, hy'⟩ := lin_upper b y0 y1 y hy.1 hy.2
  refine le_trans (add_le_add hx' hy') ?_
  rcases hcx with rfl | rfl <;> rcases hcy with rfl | rfl <;>
    simp only [le_max_iff, le_refl, true_or, or_true]

theorem Xf2.matrixBounds_encloses (m : M2 K) (lo hi p : V2 K) (h : Box2 lo hi p) :
    Box2 (Xf2.matrixBounds m lo hi).1 (Xf2.matrixBounds m lo hi).2 (m.mulColumn p) := by
  obtain ⟨hx, hy⟩ := h
  simp only [Xf2.matrixBounds, List.foldl, V2.min, V2.max, M2.mulColumn, mn_eq_min, mx_eq_max, Box2]
  exact ⟨⟨min4_le_lin _ _ _ _ _ _ _ _ hx hy, lin_le_max4 _ _ _ _ _ _ _ _ hx hy⟩,
    ⟨min4_le_lin _ _ _ _ _ _ _ _ hx hy, lin_le_max4 _ _ _ _ _ _ _ _ hx hy⟩⟩

theorem Xf2.applyBounds_encloses (t : Xf2 K) (lo hi p : V2 K) (hb : Box2 lo hi p) :
    Box2 (t.applyBounds lo hi).1 (t.applyBounds lo hi).2 (t.apply p) := by
  induction t generalizing lo hi p with
  | translate o =>
      obtain ⟨hx, hy⟩ := hb
      simp only [Xf2.applyBounds, Xf2.apply, V2.add, Box2]
      exact ⟨⟨by linarith [hx.1], by linarith [hx.2]⟩, ⟨by linarith [hy.1], by linarith [hy.2]⟩⟩
  | scale s =>
      obtain ⟨hx, hy⟩ := hb
      simp only [Xf2.applyBounds, Xf2.apply, V2.scale, V2.min, V2.max, mn_eq_min, mx_eq_max, Box2]
      exact ⟨scale_between _ _ _ s hx.1 hx.2, scale_between _ _ _ s hy.1 hy.2⟩
  | vecScale v =>
      obtain ⟨hx, hy⟩ := hb
      simp only [Xf2.applyBounds, Xf2.apply, V2.mul, V2.min, V2.max, mn_eq_min, mx_eq_max, Box2]
      exact ⟨scale_between _ _ _ v.x hx.1 hx.2, scale_between _ _ _ v.y hy.1 hy.2⟩
  | matrix m => exact Xf2.matrixBounds_encloses m lo hi p hb
  | ortho m => exact Xf2.matrixBounds_encloses m lo hi p hb
  | jnil => exact hb
  | jcons t r iht ihr =>
      simp only [Xf2.applyBounds, Xf2.apply]
      exact ihr _ _ _ (iht lo hi p hb)

/-! ### linear part -/

theorem V2.zero_add' (d : V2 K) : (V2.zero : V2 K).add d = d := by ext <;> simp [V2.add, V2.zero]
theorem V2.add_sub_cancel_left' (a b : V2 K) : (a.add b).sub a = b := by ext <;> simp [V2.add, V2.sub]
theorem V2.add_sub_cancel' (p q : V2 K) : q.add (p.sub q) = p := by ext <;> simp [V2.add, V2.sub]

/-- `t.Apply(d).Sub(t.Apply(zero))` -/
def Xf2.lin (t : Xf2 K) (d : V2 K) : V2 K := (t.apply d).sub (t.apply V2.zero)

theorem Xf2.lin_jcons_aux (t r : Xf2 K)
    (ht : ∀ p d : V2 K, t.apply (p.add d) = (t.apply p).add (t.lin d))
    (hr : ∀ p d : V2 K, r.apply (p.add d) = (r.apply p).add (r.lin d)) (d : V2 K) :
    (Xf2.jcons t r).lin d = r.lin (t.lin d) := by
  have h1 : t.apply d = (t.apply V2.zero).add (t.lin d) := by
    have := ht V2.zero d
    rwa [V2.zero_add'] at this
  show (r.apply (t.apply d)).sub (r.apply (t.apply V2.zero)) = r.lin (t.lin d)
  rw [h1, hr, V2.add_sub_cancel_left']

/-- every 2-D transform of the library is affine -/
theorem Xf2.apply_add (t : Xf2 K) (p d : V2 K) : t.apply (p.add d) = (t.apply p).add (t.lin d) := by
  induction t generalizing p d with
  | translate o => ext <;> simp only [Xf2.lin, Xf2.apply, V2.add, V2.sub, V2.zero] <;> ring
  | scale s => ext <;> simp only [Xf2.lin, Xf2.apply, V2.add, V2.sub, V2.scale, V2.zero] <;> ring
  | vecScale v => ext <;> simp only [Xf2.lin, Xf2.apply, V2.add, V2.sub, V2.mul, V2.zero] <;> ring
  | matrix m => ext <;> simp only [Xf2.lin, Xf2.apply, V2.add, V2.sub, M2.mulColumn, V2.zero] <;> ring
  | ortho m => ext <;> simp only [Xf2.lin, Xf2.apply, V2.add, V2.sub, M2.mulColumn, V2.zero] <;> ring
  | jnil => ext <;> simp only [Xf2.lin, Xf2.apply, V2.add, V2.sub, V2.zero] <;> ring
  | jcons t r iht ihr =>
      rw [Xf2.lin_jcons_aux t r iht ihr]
      show r.apply (t.apply (p.add d)) = (r.apply (t.apply p)).add (r.lin (t.lin d))
      rw [iht, ihr]

theorem Xf2.lin_jcons (t r : Xf2 K) (d : V2 K) : (Xf2.jcons t r).lin d = r.lin (t.lin d) :=
  Xf2.lin_jcons_aux t r (Xf2.apply_add t) (Xf2.apply_add r) d

theorem Xf2.lin_scale (t : Xf2 K) (d : V2 K) (k : K) : t.lin (d.scale k) = (t.lin d).scale k := by
  induction t generalizing d with
  | translate o => ext <;> simp only [Xf2.lin, Xf2.apply, V2.add, V2.sub, V2.scale, V2.zero] <;> ring
  | scale s => ext <;> simp only [Xf2.lin, Xf2.apply, V2.sub, V2.scale, V2.zero] <;> ring
  | vecScale v => ext <;> simp only [Xf2.lin, Xf2.apply, V2.sub, V2.mul, V2.scale, V2.zero] <;> ring
  | matrix m => ext <;> simp only [Xf2.lin, Xf2.apply, V2.sub, M2.mulColumn, V2.scale, V2.zero] <;> ring
  | ortho m => ext <;> simp only [Xf2.lin, Xf2.apply, V2.sub, M2.mulColumn, V2.scale, V2.zero] <;> ring
  | jnil => ext <;> simp only [Xf2.lin, Xf2.apply, V2.sub, V2.scale, V2.zero] <;> ring
  | jcons t r iht ihr => rw [Xf2.lin_jcons, Xf2.lin_jcons, iht, ihr]

theorem Xf2.lin_lin_inverse (t : Xf2 K) (hv : t.Valid) (d : V2 K) : t.lin (t.inverse.lin d) = d := by
  rw [← Xf2.lin_jcons t.inverse t d]
  simp only [Xf2.lin, Xf2.apply, Xf2.apply_inverse t hv]
  ext <;> simp [V2.sub, V2.zero]

theorem Xf2.apply_sub_apply (t : Xf2 K) (p q : V2 K) : (t.apply p).sub (t.apply q) = t.lin (p.sub q) := by
  have e := Xf2.apply_add t q (p.sub q)
  rw [V2.add_sub_cancel'] at e
  rw [e, V2.add_sub_cancel_left']

/-! ### distances -/

def Xf2.factor : Xf2 K → K
  | .scale s => |s|
  | .jcons t r => t.factor * r.factor
  | _ => 1

/-- a 2-D `DistTransform` made of translations, non-zero scales, orthogonal matrices and joins -/
def Xf2.DistValid : Xf2 K → Prop
  | .translate _ => True
  | .scale s => s ≠ 0
  | .ortho m => m.transpose.mul m = M2.one
  | .jnil => True
  | .jcons t r => t.DistValid ∧ r.DistValid
  | _ => False

theorem Xf2.distValid_valid (t : Xf2 K) (h : t.DistValid) : t.Valid := by
  induction t with
  | ortho m => exact M2.det_ne_zero_of_ortho m h
  | jcons t r iht ihr => exact ⟨iht h.1, ihr h.2⟩
  | vecScale v => exact absurd h id
  | matrix m => exact absurd h id
  | _ => exact h

theorem Xf2.distValid_isDist (t : Xf2 K) (h : t.DistValid) : t.isDist = true := by
  induction t with
  | jcons t r iht ihr => simp [Xf2.isDist, iht h.1, ihr h.2]
  | vecScale v => exact absurd h id
  | matrix m => exact absurd h id
  | _ => rfl

theorem Xf2.applyDistance_eq (t : Xf2 K) (d : K) : t.applyDistance d = d * t.factor := by
  induction t generalizing d with
  | scale s => simp only [Xf2.applyDistance, Xf2.factor, absS_eq_abs]
  | jcons t r iht ihr => simp only [Xf2.applyDistance, Xf2.factor, iht, ihr]; ring
  | _ => simp only [Xf2.applyDistance, Xf2.factor, mul_one]

theorem Xf2.factor_pos (t : Xf2 K) (h : t.DistValid) : 0 < t.factor := by
  induction t with
  | scale s => exact abs_pos.mpr h
  | jcons t r iht ihr => exact mul_pos (iht h.1) (ihr h.2)
  | _ => exact one_pos

theorem Xf2.factor_snoc (r t : Xf2 K) : (r.snoc t).factor = r.factor * t.factor := by
  induction r with
  | jnil => simp [Xf2.snoc, Xf2.factor]
  | jcons a r _ ih => simp only [Xf2.snoc, Xf2.factor, ih]; ring
  | _ => simp [Xf2.snoc, Xf2.factor]

theorem Xf2.factor_inverse (t : Xf2 K) (h : t.DistValid) : t.inverse.factor = 1 / t.factor := by
  induction t with
  | scale s => simp only [Xf2.inverse, Xf2.factor, one_div, abs_inv]
  | jcons t r iht ihr =>
      have h1 := ne_of_gt (Xf2.factor_pos t h.1)
      have h2 := ne_of_gt (Xf2.factor_pos r h.2)
      simp only [Xf2.inverse, Xf2.factor, Xf2.factor_snoc, iht h.1, ihr h.2]
      field_simp
  | _ => simp [Xf2.inverse, Xf2.factor]

theorem Xf2.dot_lin (t : Xf2 K) (h : t.DistValid) (a b : V2 K) :
    (t.lin a).dot (t.lin b) = t.factor * t.factor * a.dot b := by
  induction t generalizing a b with
  | translate o => simp only [Xf2.lin, Xf2.apply, Xf2.factor, V2.add, V2.sub, V2.dot, V2.zero]; ring
  | scale s =>
      have e : |s| * |s| = s * s := abs_mul_abs_self s
      simp only [Xf2.lin, Xf2.apply, Xf2.factor, V2.scale, V2.sub, V2.dot, V2.zero, e]; ring
  | ortho m =>
      have h' : m.transpose.mul m = M2.one := h
      simp only [M2.ext_iff, M2.mul, M2.transpose, M2.one] at h'
      obtain ⟨h0, h1, h2, h3⟩ := h'
      simp only [Xf2.lin, Xf2.apply, Xf2.factor, M2.mulColumn, V2.sub, V2.dot, V2.zero]
      linear_combination a.x * b.x * h0 + a.x * b.y * h1 + a.y * b.x * h2 + a.y * b.y * h3
  | jnil => simp only [Xf2.lin, Xf2.apply, Xf2.factor, V2.sub, V2.dot, V2.zero]; ring
  | jcons t r iht ihr =>
      rw [Xf2.lin_jcons, Xf2.lin_jcons, ihr h.2, iht h.1]
      simp only [Xf2.factor]; ring
  | vecScale v => exact absurd h id
  | matrix m => exact absurd h id

theorem Xf2.normSq_apply_sub (t : Xf2 K) (h : t.DistValid) (p q : V2 K) :
    ((t.apply p).sub (t.apply q)).normSq = t.factor * t.factor * (p.sub q).normSq := by
  rw [Xf2.apply_sub_apply t]
  show (t.lin (p.sub q)).dot (t.lin (p.sub q)) = _
  rw [Xf2.dot_lin t h]
  rfl

end
end M3d.Tf
