import M3d.Gen.Kernels
import M3d.Model.Numeric
import M3d.Lemmas.LoopFrom
import M3d.Lemmas.C17Num
import M3d.Lemmas.KernelsTieNumeric
import M3d.Props.C17
import Mathlib.Tactic.Ring
import Mathlib.Tactic.Linarith
import Mathlib.Algebra.Order.Field.Basic
import Mathlib.Algebra.BigOperators.Group.Finset.Basic
import Mathlib.Algebra.BigOperators.Ring.Finset
/-!
# Tie between the REGENERATED list kernels and the polynomial / vector models of C17

`numerical.Polynomial.{Eval, Mul, Derivative, Scale}`, `numerical.Matrix4.CharPoly` and
`numerical.Vec.{Scale, NormSquared, DistSquared, Norm, Dist, Normalize, At, Len, Zeros}` as `numerical/polynomial.go`,
`matrix4.go` and `vecs.go` define them NOW (loops over slices: the structural recursion `loopFrom` of
`M3d/GenPrelude.lean`) compute the same functions as the hand-written models `Poly.*`, `M4.charPoly`, `VecN.*` of
`M3d/Model/Numeric.lean` that the C17 theorems are about, for every linearly ordered field.  Consequences stated on
the generated definitions themselves: `Eval p x = Σ p[i]·xⁱ`, `Eval (Mul p q) = Eval p · Eval q`, `Derivative` is the
formal derivative, `Eval (CharPoly m) t = det(t·I − m)` (with the regenerated `Matrix4.Det`), the closed-form root
branches and the Cauchy window speak about the zeros of the regenerated `Eval`.
-/
namespace M3d.KernelsTie.Poly
open M3d.Num M3d.Gen.Kernels M3d.GenPrelude M3d.KernelsTie.Numeric
set_option linter.unusedSectionVars false
set_option linter.unusedVariables false
set_option linter.unusedSimpArgs false

variable {K : Type} [Field K] [LinearOrder K] [IsStrictOrderedRing K]

/-- `Int.toNat (i + j)` for two loop positions. -/
theorem toNat_add_natCast (a b : Nat) : Int.toNat ((a : Int) + (b : Int)) = a + b := by omega

/-- Go's `float64(i)` read as the cast of the field. -/
@[reducible] def ofIntOf : HasOfInt K := ⟨fun i => (i : K)⟩
theorem ofInt_eq (i : Int) : @HasOfInt.ofInt K ofIntOf i = (i : K) := rfl

/-- Normalises the index arithmetic of a translated loop body and closes the remaining equations between stored values
/ components of the loop state by `ring1`. -/
macro "loop_close" : tactic => `(tactic| (
  simp only [Loop.next.injEq, Prod.mk.injEq, Int.toNat_natCast, Int.ofNat_eq_natCast, toNat_add_natCast,
    Nat.cast_zero, Nat.cast_one, ofInt_eq, and_true, true_and]
  first
    | ring1
    | (constructor <;> first | rfl | ring1)
    | (congr 1 <;> first | rfl | ring1)
    | (congr 2 <;> first | rfl | ring1)))

/-- Closes "the translated loop body is `Loop.next` of the model's step": by `rfl` when the generated text is the
model's step literally, otherwise (a harmless rewrite of the Go source — commuted operands, re-associated sums) by
`loop_close`, after splitting a pair-valued loop state. -/
macro "loop_body" : tactic => `(tactic| (intro s i x; first
  | rfl
  | loop_close
  | (cases s with | mk a b => loop_close)))

/-! ## General facts about the loops that fill or update a slice -/

section Lists
variable {β ε : Type}

/-- `h` applied to the elements with their positions (counted from `i`). -/
def mapIdxFrom (h : Nat → ε → β) : Nat → List ε → List β
  | _, [] => []
  | i, x :: xs => h i x :: mapIdxFrom h (i + 1) xs

theorem set_append_length (pre : List β) (s v : β) (suf : List β) :
    (pre ++ s :: suf).set pre.length v = pre ++ v :: suf := by
  induction pre with
  | nil => rfl
  | cons a as ih => simp only [List.cons_append, List.length_cons, List.set_cons_succ, ih]

theorem getD_append_length (pre : List β) (s d : β) (suf : List β) :
    (pre ++ s :: suf).getD pre.length d = s := by
  induction pre with
  | nil => rfl
  | cons a as ih => simp [ih]

/-- `for i, x := range xs { res[i] = h i x }` on a slice with room for every element: the slots are overwritten. -/
theorem foldlIdx_set (h : Nat → ε → β) (xs : List ε) (pre suf : List β) (hl : suf.length = xs.length) :
    foldlIdx (fun (res : List β) i x => res.set i (h i x)) xs pre.length (pre ++ suf) =
      pre ++ mapIdxFrom h pre.length xs := by
  induction xs generalizing pre suf with
  | nil =>
    have : suf = [] := List.length_eq_zero_iff.mp hl
    subst this; rfl
  | cons x xs ih =>
    match suf, hl with
    | s :: suf, hl =>
      simp only [foldlIdx, set_append_length, mapIdxFrom]
      have := ih (pre ++ [h pre.length x]) suf (by simpa using hl)
      simp only [List.length_append, List.length_cons, List.length_nil, List.append_assoc,
        List.cons_append, List.nil_append, zero_add] at this
      exact this

theorem mapIdxFrom_const (g : ε → β) (i : Nat) (xs : List ε) : mapIdxFrom (fun _ x => g x) i xs = xs.map g := by
  induction xs generalizing i with
  | nil => rfl
  | cons x xs ih => simp only [mapIdxFrom, List.map_cons, ih]

end Lists

/-! ## `Polynomial.Eval` -/

theorem eval_fold (x : K) (p : List K) (res xP : K) :
    (p.foldl (fun (st : K × K) c => (st.1 + c * st.2, st.2 * x)) (res, xP)).1 = Poly.evalAux x p xP res := by
  induction p generalizing res xP with
  | nil => rfl
  | cons c cs ih => simp only [List.foldl_cons, Poly.evalAux, ih]

/-- **`Polynomial.Eval` as regenerated is the model's running-power loop.** -/
theorem polynomial_eval (p : List K) (x : K) : numerical.Polynomial_Eval p x = Poly.eval p x := by
  simp only [numerical.Polynomial_Eval, Poly.eval]
  rw [loopFrom_eq_foldl (g := fun (st : K × K) c => (st.1 + c * st.2, st.2 * x))]
  · have := eval_fold x p 0 1
    simp only [Nat.cast_one, Nat.cast_zero]
    rw [← this]
  · loop_body

/-! ## `Polynomial.Scale`, `Vec.Scale`, `Polynomial.Derivative`: loops that fill a fresh slice -/

/-- **`Polynomial.Scale` as regenerated multiplies every coefficient.** -/
theorem polynomial_scale (p : List K) (c : K) : numerical.Polynomial_Scale p c = Poly.scale p c := by
  simp only [numerical.Polynomial_Scale, Poly.scale, Int.toNat_natCast, Int.ofNat_eq_natCast]
  rw [loopFrom_eq_foldlIdx (g := fun (res : List K) i x => res.set i ((fun _ x => x * c) i x))]
  · have := foldlIdx_set (fun _ (x : K) => x * c) p [] (List.replicate p.length (0 : K)) (by simp)
    simp only [List.length_nil, List.nil_append] at this
    simp only [this, mapIdxFrom_const]
  · loop_body

/-- **`Vec.Scale` as regenerated multiplies every component.** -/
theorem vec_scale (v : List K) (s : K) : numerical.Vec_Scale v s = VecN.scale v s := by
  simp only [numerical.Vec_Scale, VecN.scale, Int.toNat_natCast, Int.ofNat_eq_natCast]
  rw [loopFrom_eq_foldlIdx (g := fun (res : List K) i x => res.set i ((fun _ x => x * s) i x))]
  · have := foldlIdx_set (fun _ (x : K) => x * s) v [] (List.replicate v.length (0 : K)) (by simp)
    simp only [List.length_nil, List.nil_append] at this
    simp only [this, mapIdxFrom_const]
  · loop_body

theorem derivAux_eq_mapIdxFrom (i : Nat) (cs : List K) :
    Poly.derivAux i cs = mapIdxFrom (fun i (c : K) => c * (((i : Int) + 1 : Int) : K)) i cs := by
  induction cs generalizing i with
  | nil => rfl
  | cons c cs ih => simp only [Poly.derivAux, mapIdxFrom, ih]; push_cast; rfl

/-- **`Polynomial.Derivative` as regenerated is the model's coefficient list** (`res[i] = p[i+1]·(i+1)`). -/
theorem polynomial_derivative (p : List K) :
    (letI := ofIntOf (K := K); numerical.Polynomial_Derivative p) = Poly.derivative p := by
  cases p with
  | nil => simp [numerical.Polynomial_Derivative, Poly.derivative]
  | cons a cs =>
    simp only [numerical.Polynomial_Derivative, Poly.derivative, Int.ofNat_eq_natCast, List.length_cons]
    by_cases hcs : cs = []
    · subst hcs; simp [Poly.derivAux]
    · have hlen : 0 < cs.length := List.length_pos_iff.mpr hcs
      rw [if_neg (by simp; omega)]
      simp only [show Int.toNat (1 : Int) = 1 from rfl, List.drop_succ_cons, List.drop_zero]
      rw [loopFrom_eq_foldlIdx (g := fun (res : List K) i x =>
        res.set i ((fun i (c : K) => c * (((i : Int) + 1 : Int) : K)) i x))]
      · have := foldlIdx_set (fun i (c : K) => c * (((i : Int) + 1 : Int) : K)) cs []
          (List.replicate (Int.toNat (((cs.length + 1 : Nat) : Int) - 1)) (0 : K)) (by simp)
        simp only [List.length_nil, List.nil_append] at this
        simp only [this, derivAux_eq_mapIdxFrom]
      · loop_body

/-! ## `Polynomial.Mul`: the double loop `res[i+j] += x*y` -/

theorem mulRow_eq_foldlIdx (x : K) (i : Nat) (ys : List K) (j : Nat) (res : List K) :
    foldlIdx (fun (res : List K) (j : Nat) (y : K) => res.set (i + j) (res.getD (i + j) 0 + x * y)) ys j res =
      Poly.mulRow x i ys j res := by
  induction ys generalizing j res with
  | nil => rfl
  | cons y ys ih => simp only [foldlIdx, Poly.mulRow, ih, Nat.cast_zero]

theorem mulRows_eq_foldlIdx (q : List K) (ps : List K) (i : Nat) (res : List K) :
    foldlIdx (fun (res : List K) (i : Nat) (x : K) =>
        foldlIdx (fun (res : List K) (j : Nat) (y : K) => res.set (i + j) (res.getD (i + j) 0 + x * y)) q 0 res)
      ps i res = Poly.mulRows q ps i res := by
  induction ps generalizing i res with
  | nil => rfl
  | cons x ps ih => rw [foldlIdx.eq_2, ih, mulRow_eq_foldlIdx, Poly.mulRows]

/-- **`Polynomial.Mul` as regenerated is the model's double loop** (same additions in the same order) … -/
theorem polynomial_mul_loop (p q : List K) : numerical.Polynomial_Mul p q = Poly.mulLoop p q := by
  cases p with
  | nil => simp [numerical.Polynomial_Mul, Poly.mulLoop]
  | cons a as =>
    cases q with
    | nil => simp [numerical.Polynomial_Mul, Poly.mulLoop]
    | cons b bs =>
      simp only [numerical.Polynomial_Mul, Poly.mulLoop, Int.ofNat_eq_natCast]
      rw [if_neg (by simp; omega)]
      rw [loopFrom_eq_foldlIdx (g := fun (res : List K) (i : Nat) (x : K) =>
        foldlIdx (fun (res : List K) (j : Nat) (y : K) => res.set (i + j) (res.getD (i + j) 0 + x * y)) (b :: bs) 0 res)]
      · have hn : Int.toNat (((a :: as).length : Int) + ((b :: bs).length : Int) - 1) =
            (a :: as).length + (b :: bs).length - 1 := by omega
        simp only [hn, mulRows_eq_foldlIdx, Nat.cast_zero]
      · intro s i x
        rw [loopFrom_eq_foldlIdx (g := fun (res : List K) (j : Nat) (y : K) => res.set (i + j) (res.getD (i + j) 0 + x * y))]
        loop_body

/-- … **and therefore the model's product** (sum of shifted rows; `M3d.C17.poly_mul_loop_eq`). -/
theorem polynomial_mul (p q : List K) : numerical.Polynomial_Mul p q = Poly.mul p q := by
  rw [polynomial_mul_loop, M3d.C17.poly_mul_loop_eq]

/-! ## `Matrix4.CharPoly` -/

/-- **`Matrix4.CharPoly` as regenerated has the model's five coefficients.** -/
theorem matrix4_charPoly (m : M4 K) : numerical.Matrix4_CharPoly (gm4 m) = m.charPoly := by
  obtain ⟨a, b, c, d, e, f, g, h, i, j, k, l, m1, n, o, p⟩ := m
  simp only [numerical.Matrix4_CharPoly, M4.charPoly, gm4, Nat.cast_one]
  -- literally the same text today; a harmless rewrite of the source (commuted operands, …) is absorbed by `ring`
  all_goals simp only [List.cons.injEq, and_true]
  all_goals (repeat' apply And.intro)
  all_goals ring

/-! ## `numerical.Vec` -/

/-- **`Vec.NormSquared` as regenerated is the model's accumulation `res += x*x`.** -/
theorem vec_normSquared (v : List K) : numerical.Vec_NormSquared v = VecN.normSquared v := by
  simp only [numerical.Vec_NormSquared, VecN.normSquared, Nat.cast_zero]
  rw [loopFrom_eq_foldl (g := fun (r : K) x => r + x * x)]
  loop_body

theorem distSquared_fold (w : List K) (v : List K) (i : Nat) (s : K) (hl : i + v.length ≤ w.length) :
    foldlIdx (fun (s : K) i x => s + (x - w.getD i 0) * (x - w.getD i 0)) v i s =
      (v.zip (w.drop i)).foldl (fun s xy => s + (xy.1 - xy.2) * (xy.1 - xy.2)) s := by
  induction v generalizing i s with
  | nil => rfl
  | cons x v ih =>
    have hi : i < w.length := by simp only [List.length_cons] at hl; omega
    rw [List.drop_eq_getElem_cons hi]
    simp only [foldlIdx, List.zip_cons_cons, List.foldl_cons]
    rw [ih (i + 1) _ (by simp only [List.length_cons] at hl; omega)]
    simp [List.getD_eq_getElem?_getD, List.getElem?_eq_getElem hi]

/-- **`Vec.DistSquared` as regenerated is the model's accumulation of squared differences** (`v1` at least as long as
`v`; Go indexes out of range otherwise). -/
theorem vec_distSquared (v w : List K) (hl : v.length ≤ w.length) :
    numerical.Vec_DistSquared v w = VecN.distSquared v w := by
  simp only [numerical.Vec_DistSquared, VecN.distSquared, Nat.cast_zero, Int.ofNat_eq_natCast, Int.toNat_natCast]
  rw [loopFrom_eq_foldlIdx (g := fun (s : K) i x => s + (x - w.getD i 0) * (x - w.getD i 0))]
  · rw [distSquared_fold w v 0 0 (by omega)]; rfl
  · loop_body

theorem vec_norm (sqrtF : K → K) (v : List K) :
    (letI := sqrtOf sqrtF; numerical.Vec_Norm v) = VecN.norm sqrtF v := by
  simp only [numerical.Vec_Norm, VecN.norm, vec_normSquared]
  rfl

theorem vec_dist (sqrtF : K → K) (v w : List K) (hl : v.length ≤ w.length) :
    (letI := sqrtOf sqrtF; numerical.Vec_Dist v w) = VecN.dist sqrtF v w := by
  simp only [numerical.Vec_Dist, VecN.dist, vec_distSquared v w hl]
  rfl

theorem vec_normalize (sqrtF : K → K) (v : List K) :
    (letI := sqrtOf sqrtF; numerical.Vec_Normalize v) = VecN.normalize sqrtF v := by
  simp only [numerical.Vec_Normalize, VecN.normalize, vec_scale, vec_norm, Nat.cast_one]

theorem vec_zeros (v : List K) : numerical.Vec_Zeros v = VecN.zeros v := by
  simp [numerical.Vec_Zeros, VecN.zeros]

/-- `Vec.At` / `Vec.Len` as regenerated: the list entry (for `0 ≤ i < len`) and the length. -/
theorem vec_at_len (v : List K) (i : Nat) (h : i < v.length) :
    numerical.Vec_At v (i : Int) = v[i] ∧ numerical.Vec_Len v = (v.length : Int) := by
  simp [numerical.Vec_At, numerical.Vec_Len, List.getD_eq_getElem?_getD, List.getElem?_eq_getElem h]

/-! ## Consequences, stated on the regenerated definitions

The C17 property theorems (`M3d.C17.*`, about the hand-written models) transported through the ties above: what the
code of `numerical/polynomial.go` / `matrix4.go` / `vecs.go` as it is NOW computes. -/

open Finset in
theorem evalSpec_eq_sum (x : K) (p : List K) :
    Poly.evalSpec x p = ∑ i ∈ range p.length, p.getD i 0 * x ^ i := by
  induction p with
  | nil => simp
  | cons c cs ih =>
    rw [Poly.evalSpec_cons, ih, List.length_cons, sum_range_succ', mul_sum]
    simp only [List.getD_cons_succ, List.getD_cons_zero, pow_zero, mul_one]
    rw [add_comm]; congr 1
    apply sum_congr rfl; intro i _; ring

open Finset in
/-- **`Polynomial.Eval(x)` of the source is `Σ p[i]·xⁱ`.** -/
theorem polynomial_eval_sum (p : List K) (x : K) :
    numerical.Polynomial_Eval p x = ∑ i ∈ range p.length, p.getD i 0 * x ^ i := by
  rw [polynomial_eval, Poly.eval_eq_spec, evalSpec_eq_sum]

/-- … equivalently Horner's recurrence. -/
theorem polynomial_eval_horner (c : K) (cs : List K) (x : K) :
    numerical.Polynomial_Eval ([] : List K) x = 0 ∧
      numerical.Polynomial_Eval (c :: cs) x = c + x * numerical.Polynomial_Eval cs x := by
  simp only [polynomial_eval, Poly.eval_eq_spec, Poly.evalSpec_cons, Poly.evalSpec_nil, and_self]

/-- **`Eval (p.Mul(q)) = Eval p · Eval q`** for the double loop of the source (`M3d.C17.poly_eval_mul`). -/
theorem polynomial_mul_eval (p q : List K) (x : K) :
    numerical.Polynomial_Eval (numerical.Polynomial_Mul p q) x =
      numerical.Polynomial_Eval p x * numerical.Polynomial_Eval q x := by
  simp only [polynomial_eval, polynomial_mul, M3d.C17.poly_eval_mul]

/-- `Eval (p.Scale(c)) = Eval p · c` (`M3d.C17.poly_eval_scale`). -/
theorem polynomial_scale_eval (p : List K) (c x : K) :
    numerical.Polynomial_Eval (numerical.Polynomial_Scale p c) x = numerical.Polynomial_Eval p x * c := by
  simp only [polynomial_eval, polynomial_scale, M3d.C17.poly_eval_scale]

open Finset in
theorem evalSpec_derivAux_sum (x : K) (k : Nat) (cs : List K) :
    Poly.evalSpec x (Poly.derivAux k cs) = ∑ i ∈ range cs.length, ((k + i + 1 : Nat) : K) * cs.getD i 0 * x ^ i := by
  induction cs generalizing k with
  | nil => simp [Poly.derivAux]
  | cons c cs ih =>
    rw [Poly.derivAux, Poly.evalSpec_cons, ih, List.length_cons, sum_range_succ', mul_sum]
    simp only [List.getD_cons_succ, List.getD_cons_zero, pow_zero, mul_one, Nat.add_zero]
    rw [add_comm]; congr 1
    · apply sum_congr rfl; intro i _; push_cast; ring
    · push_cast; ring

open Finset in
/-- **`Polynomial.Derivative` of the source is the formal derivative**: `Eval (p.Derivative()) x = Σ (i+1)·p[i+1]·xⁱ`,
and (`M3d.C17.poly_eval_derivative`) the product rule `(c + x·q)' = q + x·q'`. -/
theorem polynomial_derivative_eval (p : List K) (c x : K) :
    (letI := ofIntOf (K := K);
      numerical.Polynomial_Eval (numerical.Polynomial_Derivative p) x =
          ∑ i ∈ range (p.length - 1), ((i + 1 : Nat) : K) * p.getD (i + 1) 0 * x ^ i ∧
        numerical.Polynomial_Eval (numerical.Polynomial_Derivative (c :: p)) x =
          numerical.Polynomial_Eval p x + x * numerical.Polynomial_Eval (numerical.Polynomial_Derivative p) x) := by
  simp only [polynomial_eval, polynomial_derivative]
  refine ⟨?_, (M3d.C17.poly_eval_derivative c p x).2.2⟩
  rw [Poly.eval_eq_spec]
  cases p with
  | nil => simp [Poly.derivative]
  | cons a cs =>
    simp only [Poly.derivative, evalSpec_derivAux_sum, List.length_cons, Nat.add_sub_cancel, List.getD_cons_succ,
      Nat.zero_add]

/-- **`Matrix4.CharPoly()` of the source, evaluated by `Polynomial.Eval` of the source at `t`, is `Matrix4.Det` of the
source on `t·I − m`** (`M3d.C17.mat4_charpoly_coeffs`; sign convention of `numerical/matrix4.go`: monic, `det(t·I − m)`). -/
theorem matrix4_charPoly_eval (m : M4 K) (t : K) :
    numerical.Polynomial_Eval (numerical.Matrix4_CharPoly (gm4 m)) t =
      numerical.Matrix4_Det (gm4 (M4.xIminus t m)) := by
  rw [matrix4_charPoly, polynomial_eval, M3d.C17.mat4_charpoly_coeffs, det4]

/-- … and its scale covariance `χ_{sM}(s·t) = s⁴·χ_M(t)` (`M3d.C17.mat4_smul_charpoly`) on the regenerated
`Matrix4.Scale`, `CharPoly`, `Eval`. -/
theorem matrix4_charPoly_smul (m : M4 K) (s t : K) :
    numerical.Polynomial_Eval (numerical.Matrix4_CharPoly (numerical.Matrix4_Scale (gm4 m) s)) (s * t) =
      s ^ 4 * numerical.Polynomial_Eval (numerical.Matrix4_CharPoly (gm4 m)) t := by
  rw [scale4, matrix4_charPoly, matrix4_charPoly, polynomial_eval, polynomial_eval]
  exact (M3d.C17.mat4_smul_charpoly m s t).2

theorem eval_linear (a b y : K) : numerical.Polynomial_Eval [b, a] y = b + a * y := by
  simp only [polynomial_eval, Poly.eval_eq_spec, Poly.evalSpec_cons, Poly.evalSpec_nil]; ring

theorem eval_quadratic (a b c y : K) : numerical.Polynomial_Eval [c, b, a] y = a * y * y + b * y + c := by
  simp only [polynomial_eval, Poly.eval_eq_spec, Poly.evalSpec_cons, Poly.evalSpec_nil]; ring

theorem eval_cubic (a b c d y : K) :
    numerical.Polynomial_Eval [d, c, b, a] y = a * y ^ 3 + b * y ^ 2 + c * y + d := by
  simp only [polynomial_eval, Poly.eval_eq_spec, Poly.evalSpec_cons, Poly.evalSpec_nil]; ring

/-- Root finding, constants: no root is reported and the regenerated `Eval` has none (`M3d.C17.roots_constant`). -/
theorem realRoots_constant (sqrt : K → K) (c : K) (hc : c ≠ 0) :
    Poly.realRootsLow sqrt [c] = .some [] ∧ ∀ y, numerical.Polynomial_Eval [c] y ≠ 0 := by
  refine ⟨(M3d.C17.roots_constant sqrt c hc).2, fun y => ?_⟩
  simp only [polynomial_eval, Poly.eval_eq_spec, Poly.evalSpec_cons, Poly.evalSpec_nil, mul_zero, add_zero]
  exact hc

/-- Degree 1: the reported root is exactly the zero of the regenerated `Eval` (`M3d.C17.linear_root_exact`). -/
theorem realRoots_linear (sqrt : K → K) (a b : K) (ha : a ≠ 0) :
    Poly.realRootsLow sqrt [b, a] = .some [-b / a] ∧
      ∀ y, numerical.Polynomial_Eval [b, a] y = 0 ↔ y = -b / a := by
  obtain ⟨h1, h2⟩ := M3d.C17.linear_root_exact sqrt a b ha
  exact ⟨h1, fun y => by rw [eval_linear]; exact h2 y⟩

/-- Degree 2, negative discriminant: nothing reported, and the regenerated `Eval` has no zero
(`M3d.C17.quadratic_no_roots`). -/
theorem realRoots_quadratic_none (sqrt : K → K) (a b c : K) (ha : a ≠ 0) (hd : b * b - 4 * a * c < 0) :
    Poly.realRootsLow sqrt [c, b, a] = .some [] ∧ ∀ y, numerical.Polynomial_Eval [c, b, a] y ≠ 0 := by
  obtain ⟨h1, h2⟩ := M3d.C17.quadratic_no_roots sqrt a b c ha hd
  exact ⟨h1, fun y => by rw [eval_quadratic]; exact h2 y⟩

/-- Degree 2, non-negative discriminant: the two reported values, ascending, are exactly the zeros of the regenerated
`Eval` (`M3d.C17.quadratic_roots_exact`). -/
theorem realRoots_quadratic (sqrt : K → K) (a b c : K) (ha : a ≠ 0) (hd : 0 ≤ b * b - 4 * a * c)
    (hs : sqrt (b * b - 4 * a * c) * sqrt (b * b - 4 * a * c) = b * b - 4 * a * c) :
    ∃ r1 r2, Poly.realRootsLow sqrt [c, b, a] = .some [r1, r2] ∧ r1 ≤ r2 ∧
      ∀ y, numerical.Polynomial_Eval [c, b, a] y = 0 ↔ (y = r1 ∨ y = r2) := by
  obtain ⟨r1, r2, h1, h2, h3⟩ := M3d.C17.quadratic_roots_exact sqrt a b c ha hd hs
  exact ⟨r1, r2, h1, h2, fun y => by rw [eval_quadratic]; exact h3 y⟩

/-- **The bracketing window contains every zero of the regenerated `Eval`** (`M3d.C17.cauchy_bound_contains_roots`). -/
theorem realRoots_cauchy_window (cs : List K) (a r : K) (ha : a ≠ 0)
    (hroot : numerical.Polynomial_Eval (cs ++ [a]) r = 0) : |r| < Poly.cauchyBound (cs ++ [a]) := by
  rw [polynomial_eval, Poly.eval_eq_spec] at hroot
  exact M3d.C17.cauchy_bound_contains_roots cs a r ha hroot

/-- **Deflation**: for the quotient `q` that `divideRoot(p, r)` returns, `p(y) = (y − r)·q(y) + p(r)` with the
regenerated `Eval` (`M3d.C17.divide_root`); hence when `r` is a root, the roots of `p` are `r` and the roots of `q` —
what the recursion of `IterRealRoots` relies on. -/
theorem realRoots_deflation (p : List K) (r : K) (h : 3 ≤ p.length) :
    ∃ q, Poly.divideRoot p r = some q ∧
      (∀ y, numerical.Polynomial_Eval p y =
        (y - r) * numerical.Polynomial_Eval q y + numerical.Polynomial_Eval p r) ∧
      (numerical.Polynomial_Eval p r = 0 →
        ∀ y, numerical.Polynomial_Eval p y = 0 ↔ (y = r ∨ numerical.Polynomial_Eval q y = 0)) := by
  obtain ⟨q, hq, _⟩ := M3d.C17.divide_root p r r h
  have key : ∀ y, numerical.Polynomial_Eval p y =
      (y - r) * numerical.Polynomial_Eval q y + numerical.Polynomial_Eval p r := by
    intro y
    obtain ⟨q', hq', he⟩ := M3d.C17.divide_root p r y h
    have : q' = q := by rw [hq] at hq'; exact (Option.some.inj hq').symm
    subst this
    simp only [polynomial_eval]; exact he
  refine ⟨q, hq, key, fun hr y => ?_⟩
  rw [key y, hr, add_zero, mul_eq_zero, sub_eq_zero]

/-- **`Matrix2.Eigenvalues`, real branch: the two values are zeros of the characteristic quadratic `x² + b·x + c`
(`b = −trace`, `c = Det()`) evaluated by the regenerated `Eval`**, which is `Matrix2.Det` of the source on `x·I − M`
(`M3d.C17.mat2_eigen_charpoly`, `mat2_eigenvalues_real`). -/
theorem mat2_eigenvalues_roots (sqrt : K → K) (hs : SqrtSpec sqrt) (m : M2 K) (hd : 0 ≤ m.eigDisc) :
    (∀ x, numerical.Polynomial_Eval [m.eigCoeffs.2, m.eigCoeffs.1, 1] x =
        numerical.Matrix2_Det (gm2 (M2.xIminus x m))) ∧
      numerical.Polynomial_Eval [m.eigCoeffs.2, m.eigCoeffs.1, 1] (m.eigenvalues sqrt).1 = 0 ∧
      numerical.Polynomial_Eval [m.eigCoeffs.2, m.eigCoeffs.1, 1] (m.eigenvalues sqrt).2.1 = 0 := by
  have key : ∀ x, numerical.Polynomial_Eval [m.eigCoeffs.2, m.eigCoeffs.1, 1] x = (M2.xIminus x m).det := by
    intro x; rw [eval_quadratic, ← M3d.C17.mat2_eigen_charpoly]; ring
  obtain ⟨h1, h2, _⟩ := M3d.C17.mat2_eigenvalues_real sqrt hs m hd
  exact ⟨fun x => by rw [key, det2], by rw [key]; exact h1, by rw [key]; exact h2⟩

/-- **The cubic that `Matrix3.Eigenvalues` solves**, `−x³ + b·x² + c·x + d` with the coefficients of `M3.eigCoeffs`,
evaluated by the regenerated `Eval`, is `Matrix3.Det` of the source on `M − x·I` (`M3d.C17.mat3_eigen_charpoly`): its
real zeros are exactly the real eigenvalues. -/
theorem mat3_eigen_cubic_eval (m : M3 K) (x : K) :
    numerical.Polynomial_Eval [m.eigCoeffs.2.2, m.eigCoeffs.2.1, m.eigCoeffs.1, -1] x =
      numerical.Matrix3_Det (gm3 (m.minusXI x)) := by
  rw [eval_cubic, det3, ← M3d.C17.mat3_eigen_charpoly m x two_ne_zero]; ring

/-! ### `numerical.Vec` -/

/-- `Vec.NormSquared` of the source is `Σ xᵢ²` (non-negative, zero only at 0); `Vec.Scale` is component-wise and
scales it by `s²`; `Vec.Normalize` of a non-zero vector is a unit vector (`M3d.C17.vecN_*`). -/
theorem vec_normSquared_sum (v : List K) (s : K) :
    numerical.Vec_NormSquared v = (v.map (fun x => x * x)).sum ∧ 0 ≤ numerical.Vec_NormSquared v ∧
      (numerical.Vec_NormSquared v = 0 ↔ ∀ x ∈ v, x = 0) ∧
      numerical.Vec_Scale v s = v.map (· * s) ∧
      numerical.Vec_NormSquared (numerical.Vec_Scale v s) = s * s * numerical.Vec_NormSquared v := by
  simp only [vec_normSquared, vec_scale]
  obtain ⟨h1, h2, h3⟩ := M3d.C17.vecN_normSquared_sum v
  exact ⟨h1, h2, h3, (M3d.C17.vecN_scale_normSquared v s).1, (M3d.C17.vecN_scale_normSquared v s).2⟩

theorem vec_normalize_unit (sqrtF : K → K) (v : List K)
    (hs : sqrtF (numerical.Vec_NormSquared v) * sqrtF (numerical.Vec_NormSquared v) = numerical.Vec_NormSquared v)
    (hn : numerical.Vec_NormSquared v ≠ 0) :
    (letI := sqrtOf sqrtF; numerical.Vec_NormSquared (numerical.Vec_Normalize v)) = 1 := by
  simp only [vec_normSquared, vec_normalize] at *
  exact M3d.C17.vecN_normalize_unit sqrtF v hs hn

/-- `Vec.DistSquared` of the source is the squared norm of the difference, symmetric (equal lengths). -/
theorem vec_distSquared_eq (v w : List K) (hl : v.length = w.length) :
    numerical.Vec_DistSquared v w = numerical.Vec_NormSquared (List.zipWith (· - ·) v w) ∧
      numerical.Vec_DistSquared v w = numerical.Vec_DistSquared w v := by
  rw [vec_distSquared v w hl.le, vec_distSquared w v hl.ge, vec_normSquared]
  exact M3d.C17.vecN_distSquared_eq v w

end M3d.KernelsTie.Poly
