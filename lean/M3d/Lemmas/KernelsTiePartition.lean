import M3d.Gen.Kernels
import M3d.Model.Partition
import Mathlib.Tactic.Ring
import Mathlib.Tactic.SplitIfs
import Mathlib.Tactic.Push
import Mathlib.Tactic.NormNum
/-!
# Tie between the REGENERATED kernels and the block-splitting model of C12 (`M3d/Model/Partition.lean`)

`mcBlock.Split` / `mcBlock.Volume` (model3d/mc.go) and `msBlock.Split` / `msBlock.Area`
(model2d/marching.go) as the source defines them NOW — integer arithmetic on `[3]int` / `[2]int` corners with a
run-time axis index — are `Block.split` / `Block.volume` (`Block2.split` / `Block2.area`) of the partition
theorems (every cell of a block lies in exactly one piece, for every filter oracle), for every well-formed
block (`min ≤ max`, the only ones the code creates).
-/
namespace M3d.KernelsTie.Partition
open M3d.Partition M3d.Gen.Kernels
set_option linter.unusedSectionVars false
set_option linter.unusedVariables false
set_option linter.unusedSimpArgs false
set_option linter.unusedTactic false
set_option linter.unreachableTactic false

variable {α : Type}

/-- the Go value of a model block (any spacer) -/
@[reducible] def gb (sp : model3d.squareSpacer α) (b : Block) : model3d.mcBlock α :=
  ⟨sp, ⟨(b.x0 : Int), (b.y0 : Int), (b.z0 : Int)⟩, ⟨(b.x1 : Int), (b.y1 : Int), (b.z1 : Int)⟩⟩

def Wf (b : Block) : Prop := b.x0 ≤ b.x1 ∧ b.y0 ≤ b.y1 ∧ b.z0 ≤ b.z1

theorem tdiv_two (a b : Nat) : Int.tdiv ((a : Int) + (b : Int)) 2 = (((a + b) / 2 : Nat) : Int) := by
  rw [Int.tdiv_eq_ediv_of_nonneg (by positivity)]
  push_cast
  rfl

theorem volume_eq (sp : model3d.squareSpacer α) (b : Block) (h : Wf b) :
    model3d.mcBlock_Volume (gb sp b) = (b.volume : Int) := by
  obtain ⟨hx, hy, hz⟩ := h
  simp only [model3d.mcBlock_Volume, Block.volume, Block.lenX, Block.lenY, Block.lenZ]
  push_cast [Nat.cast_sub hx, Nat.cast_sub hy, Nat.cast_sub hz]
  ring

theorem split_eq (sp : model3d.squareSpacer α) (b : Block) (h : Wf b) :
    model3d.mcBlock_Split (gb sp b) = (gb sp b.split.1, gb sp b.split.2) := by
  obtain ⟨hx, hy, hz⟩ := h
  unfold model3d.mcBlock_Split Block.split Block.splitAxis Block.lenX Block.lenY Block.lenZ
  simp only [decide_eq_true_eq, Bool.and_eq_true, ge_iff_le]
  have hX : ((b.x1 : Int) - b.x0) = ((b.x1 - b.x0 : Nat) : Int) := (Nat.cast_sub hx).symm
  have hY : ((b.y1 : Int) - b.y0) = ((b.y1 - b.y0 : Nat) : Int) := (Nat.cast_sub hy).symm
  have hZ : ((b.z1 : Int) - b.z0) = ((b.z1 - b.z0 : Nat) : Int) := (Nat.cast_sub hz).symm
  simp only [hX, hY, hZ, Nat.cast_le]
  by_cases c1 : b.x1 - b.x0 ≤ b.y1 - b.y0 ∧ b.z1 - b.z0 ≤ b.y1 - b.y0
  · simp only [c1, and_self, if_true, if_false, tdiv_two]
    first | done | (norm_num; try (exact Int.tdiv_eq_ediv_of_nonneg (by positivity)))
  · by_cases c2 : b.x1 - b.x0 ≤ b.z1 - b.z0 ∧ b.y1 - b.y0 ≤ b.z1 - b.z0
    · simp only [c1, c2, and_self, if_true, if_false, tdiv_two]
      first | done | (norm_num; try (exact Int.tdiv_eq_ediv_of_nonneg (by positivity)))
    · simp only [c1, c2, and_self, if_true, if_false, tdiv_two]
      first | done | (norm_num; try (exact Int.tdiv_eq_ediv_of_nonneg (by positivity)))

/-! ## 2-D twin -/

@[reducible] def gb2 (sp : model2d.squareSpacer α) (b : Block2) : model2d.msBlock α :=
  ⟨sp, ⟨(b.x0 : Int), (b.y0 : Int)⟩, ⟨(b.x1 : Int), (b.y1 : Int)⟩⟩

def Wf2 (b : Block2) : Prop := b.x0 ≤ b.x1 ∧ b.y0 ≤ b.y1

theorem area_eq (sp : model2d.squareSpacer α) (b : Block2) (h : Wf2 b) :
    model2d.msBlock_Area (gb2 sp b) = (b.area : Int) := by
  obtain ⟨hx, hy⟩ := h
  simp only [model2d.msBlock_Area, Block2.area, Block2.lenX, Block2.lenY]
  push_cast [Nat.cast_sub hx, Nat.cast_sub hy]
  ring

theorem split2_eq (sp : model2d.squareSpacer α) (b : Block2) (h : Wf2 b) :
    model2d.msBlock_Split (gb2 sp b) = (gb2 sp b.split.1, gb2 sp b.split.2) := by
  obtain ⟨hx, hy⟩ := h
  unfold model2d.msBlock_Split Block2.split Block2.splitAxis Block2.lenX Block2.lenY
  simp only [decide_eq_true_eq, ge_iff_le]
  have hX : ((b.x1 : Int) - b.x0) = ((b.x1 - b.x0 : Nat) : Int) := (Nat.cast_sub hx).symm
  have hY : ((b.y1 : Int) - b.y0) = ((b.y1 - b.y0 : Nat) : Int) := (Nat.cast_sub hy).symm
  simp only [hX, hY, Nat.cast_le]
  by_cases c1 : b.x1 - b.x0 ≤ b.y1 - b.y0
  · simp only [c1, if_true, if_false, tdiv_two]
    first | done | (norm_num; try (exact Int.tdiv_eq_ediv_of_nonneg (by positivity)))
  · simp only [c1, if_true, if_false, tdiv_two]
    first | done | (norm_num; try (exact Int.tdiv_eq_ediv_of_nonneg (by positivity)))

end M3d.KernelsTie.Partition
