import M3d.Lemmas.Collide
import Mathlib.Algebra.Order.Field.Basic
import Mathlib.Tactic.Ring
import Mathlib.Tactic.FieldSimp
import Mathlib.Tactic.Linarith
import Mathlib.Tactic.Positivity
import Mathlib.Tactic.LinearCombination
/-!
# C07 — exact hit lemmas over a linear ordered field

`K` is any linear ordered field (ℚ, ℝ, …).  `math.Sqrt` is the parameter `sqrtF` with the hypothesis
`SqrtOK sqrtF` (non-negative, squares back on non-negative arguments).
-/
set_option linter.unusedSectionVars false
namespace M3d.Col

variable {K : Type} [Field K] [LinearOrder K] [IsStrictOrderedRing K]

/-- What the proofs assume about `math.Sqrt`. -/
def SqrtOK (sqrtF : K → K) : Prop := ∀ x, 0 ≤ x → 0 ≤ sqrtF x ∧ sqrtF x * sqrtF x = x

theorem isZero_iff (x : K) : isZero x = true ↔ x = 0 := by
  simp only [isZero, Bool.and_eq_true, Bool.not_eq_true', decide_eq_false_iff_not, not_lt]
  exact ⟨fun h => le_antisymm h.2 h.1, fun h => by subst h; exact ⟨le_rfl, le_rfl⟩⟩

theorem eqB_iff (a b : K) : eqB a b = true ↔ a = b := by
  simp only [eqB, Bool.and_eq_true, Bool.not_eq_true', decide_eq_false_iff_not, not_lt]
  exact ⟨fun h => le_antisymm h.2 h.1, fun h => by subst h; exact ⟨le_rfl, le_rfl⟩⟩

theorem absS_eq (x : K) : absS x = |x| := by
  unfold absS
  split
  · rename_i h; rw [abs_of_neg h]
  · rename_i h; rw [abs_of_nonneg (not_lt.1 h)]

theorem two_eq : (two : K) = 2 := by unfold two; norm_num
theorem four_eq : (four : K) = 4 := by unfold four; norm_num

theorem sqrt_lt_iff {sqrtF : K → K} (hs : SqrtOK sqrtF) {x r : K} (hx : 0 ≤ x) (hr : 0 ≤ r) :
    sqrtF x < r ↔ x < r * r := by
  obtain ⟨h0, h1⟩ := hs x hx
  constructor
  · intro h; rw [← h1]; exact mul_lt_mul'' h h h0 h0
  · intro h
    by_contra hcon
    have : r ≤ sqrtF x := not_lt.1 hcon
    have : r * r ≤ sqrtF x * sqrtF x := mul_le_mul this this hr h0
    rw [h1] at this
    exact absurd h (not_lt.2 this)

theorem sqrt_le_iff {sqrtF : K → K} (hs : SqrtOK sqrtF) {x r : K} (hx : 0 ≤ x) (hr : 0 ≤ r) :
    sqrtF x ≤ r ↔ x ≤ r * r := by
  obtain ⟨h0, h1⟩ := hs x hx
  constructor
  · intro h; rw [← h1]; exact mul_le_mul h h h0 hr
  · intro h
    by_contra hcon
    have hlt : r < sqrtF x := not_le.1 hcon
    have : r * r < sqrtF x * sqrtF x := mul_lt_mul'' hlt hlt hr hr
    rw [h1] at this
    exact absurd h (not_le.2 this)

theorem sqrt_sq_eq {sqrtF : K → K} (hs : SqrtOK sqrtF) {r : K} (hr : 0 ≤ r) : sqrtF (r * r) = r := by
  obtain ⟨h0, h1⟩ := hs (r * r) (mul_self_nonneg r)
  have : (sqrtF (r * r) - r) * (sqrtF (r * r) + r) = 0 := by linear_combination h1
  rcases mul_eq_zero.1 this with h | h
  · linarith
  · have : sqrtF (r * r) = 0 ∧ r = 0 := ⟨by linarith, by linarith⟩
    rw [this.1, this.2]

/-! ## vectors -/

theorem V3.distSq_nonneg (a b : V3 K) : 0 ≤ a.distSq b := by
  simp only [V3.distSq]
  exact add_nonneg (add_nonneg (mul_self_nonneg _) (mul_self_nonneg _)) (mul_self_nonneg _)

theorem V2.distSq_nonneg (a b : V2 K) : 0 ≤ a.distSq b := by
  simp only [V2.distSq]
  exact add_nonneg (mul_self_nonneg _) (mul_self_nonneg _)

theorem sumsq3_nonneg (x y z : K) : 0 ≤ x * x + y * y + z * z :=
  add_nonneg (add_nonneg (mul_self_nonneg _) (mul_self_nonneg _)) (mul_self_nonneg _)

theorem V3.dot_self_nonneg (a : V3 K) : 0 ≤ a.dot a := sumsq3_nonneg _ _ _

/-- `Normalize` yields a unit vector (squared norm one) for a non-zero argument. -/
theorem V3.normalize_unit {sqrtF : K → K} (hs : SqrtOK sqrtF) (a : V3 K) (ha : a.dot a ≠ 0) :
    (a.normalize sqrtF).dot (a.normalize sqrtF) = 1 := by
  obtain ⟨h0, h1⟩ := hs (a.x * a.x + a.y * a.y + a.z * a.z) (sumsq3_nonneg _ _ _)
  have hne : sqrtF (a.x * a.x + a.y * a.y + a.z * a.z) ≠ 0 := by
    intro h; rw [h] at h1; apply ha; unfold V3.dot; linarith
  simp only [V3.normalize, V3.norm, V3.scale, V3.dot]
  have hk : 1 / sqrtF (a.x * a.x + a.y * a.y + a.z * a.z) * sqrtF (a.x * a.x + a.y * a.y + a.z * a.z) = 1 :=
    one_div_mul_cancel hne
  generalize 1 / sqrtF (a.x * a.x + a.y * a.y + a.z * a.z) = k at hk
  generalize sqrtF (a.x * a.x + a.y * a.y + a.z * a.z) = s at hk h1
  linear_combination (-(k * k)) * h1 + (k * s + 1) * hk

/-- … and it is a positive multiple of its argument. -/
theorem V3.normalize_pos_mul {sqrtF : K → K} (hs : SqrtOK sqrtF) (a : V3 K) (ha : a.dot a ≠ 0) :
    ∃ k : K, 0 < k ∧ a.normalize sqrtF = a.scale k := by
  obtain ⟨h0, h1⟩ := hs (a.x * a.x + a.y * a.y + a.z * a.z) (sumsq3_nonneg _ _ _)
  have hne : sqrtF (a.x * a.x + a.y * a.y + a.z * a.z) ≠ 0 := by
    intro h; rw [h] at h1; apply ha; unfold V3.dot; linarith
  exact ⟨1 / sqrtF (a.x * a.x + a.y * a.y + a.z * a.z),
    one_div_pos.2 (lt_of_le_of_ne h0 (Ne.symm hne)), rfl⟩

/-! ## quadratics -/

theorem quad_root (a b c s sign : K) (ha : a ≠ 0) (hs : s * s = b * b - 4 * a * c) (hsign : sign * sign = 1) :
    a * ((-b + sign * s) / (2 * a)) * ((-b + sign * s) / (2 * a)) + b * ((-b + sign * s) / (2 * a)) + c = 0 := by
  have h2a : (2 * a) ≠ 0 := mul_ne_zero two_ne_zero ha
  have hT : 2 * a * ((-b + sign * s) / (2 * a)) = -b + sign * s := mul_div_cancel₀ _ h2a
  generalize (-b + sign * s) / (2 * a) = t at hT
  have key : (4 * a) * (a * t * t + b * t + c) = 0 := by
    linear_combination (2 * a * t + (-b + sign * s) + 2 * b) * hT + (s * s) * hsign + hs
  rcases mul_eq_zero.1 key with h | h
  · exact absurd h (mul_ne_zero four_ne_zero ha)
  · exact h

theorem quad_root_complete (a b c s t : K) (ha : a ≠ 0) (hs : s * s = b * b - 4 * a * c)
    (h : a * t * t + b * t + c = 0) : t = (-b + s) / (2 * a) ∨ t = (-b - s) / (2 * a) := by
  have h2 : (2 * a * t + b - s) * (2 * a * t + b + s) = 0 := by linear_combination (4 * a) * h - hs
  have h2a : (2 * a) ≠ 0 := mul_ne_zero two_ne_zero ha
  rcases mul_eq_zero.1 h2 with h3 | h3
  · left; field_simp; linear_combination h3
  · right; field_simp; linear_combination h3

theorem quad_disc_nonneg (a b c t : K) (h : a * t * t + b * t + c = 0) : 0 ≤ b * b - 4 * a * c := by
  have : b * b - 4 * a * c = (2 * a * t + b) * (2 * a * t + b) := by linear_combination (-4 * a) * h
  rw [this]; exact mul_self_nonneg _

/-! ## `Sphere.RayCollisions` -/

/-- coefficients of the quadratic of `Sphere.RayCollisions` -/
def sphA (d : V3 K) : K := d.dot d
def sphB (center o d : V3 K) : K := 2 * d.dot (o.sub center)
def sphC (center : V3 K) (radius : K) (o : V3 K) : K := (o.sub center).dot (o.sub center) - radius * radius
def sphDisc (center : V3 K) (radius : K) (o d : V3 K) : K :=
  sphB center o d * sphB center o d - 4 * sphA d * sphC center radius o

/-- a ray point is on the sphere iff its parameter solves the quadratic -/
theorem onSphere_iff (center : V3 K) (radius : K) (o d : V3 K) (t : K) :
    (o.along d t).distSq center = radius * radius ↔
      sphA d * t * t + sphB center o d * t + sphC center radius o = 0 := by
  simp only [V3.along, V3.add, V3.scale, V3.distSq, sphA, sphB, sphC, V3.dot, V3.sub]
  constructor <;> intro h <;> linear_combination h

theorem sphereRoots_none_iff (sqrtF : K → K) (center : V3 K) (radius : K) (o d : V3 K) :
    sphereRoots sqrtF center radius o d = none ↔ sphDisc center radius o d ≤ 0 := by
  simp only [sphereRoots, sphDisc, sphA, sphB, sphC, two_eq, four_eq]
  split
  · rename_i h; simp [h]
  · rename_i h
    constructor
    · intro h'; split at h' <;> cases h'
    · intro h'; exact absurd h' h

/-- The roots reported by `Sphere.RayCollisions` are ordered, both lie on the sphere, and every ray point
on the sphere has one of them as parameter. -/
theorem sphereRoots_some {sqrtF : K → K} (hs : SqrtOK sqrtF) (center : V3 K) (radius : K) (o d : V3 K)
    (hd : d.dot d ≠ 0) (t1 t2 : K) (h : sphereRoots sqrtF center radius o d = some (t1, t2)) :
    0 < sphDisc center radius o d ∧ t1 ≤ t2 ∧
    (o.along d t1).distSq center = radius * radius ∧ (o.along d t2).distSq center = radius * radius ∧
    (∀ t, (o.along d t).distSq center = radius * radius → t = t1 ∨ t = t2) ∧
    t1 * t2 * sphA d = sphC center radius o := by
  have hdisc : ¬ sphDisc center radius o d ≤ 0 := by
    intro hle; rw [← sphereRoots_none_iff sqrtF] at hle; rw [hle] at h; cases h
  have hpos : 0 < sphDisc center radius o d := not_le.1 hdisc
  obtain ⟨hs0, hs1⟩ := hs (sphDisc center radius o d) (le_of_lt hpos)
  set s := sqrtF (sphDisc center radius o d) with hsdef
  have hspos : 0 < s := by
    rcases lt_or_eq_of_le hs0 with h' | h'
    · exact h'
    · rw [← h'] at hs1; linarith
  have ha : sphA d ≠ 0 := hd
  have hapos : 0 < sphA d := lt_of_le_of_ne (V3.dot_self_nonneg d) (Ne.symm hd)
  have hss : s * s = sphB center o d * sphB center o d - 4 * sphA d * sphC center radius o := hs1
  have r1 := quad_root (sphA d) (sphB center o d) (sphC center radius o) s 1 ha hss (by ring)
  have r2 := quad_root (sphA d) (sphB center o d) (sphC center radius o) s (-1) ha hss (by ring)
  simp only [one_mul, neg_mul] at r1 r2
  have hlt : (-sphB center o d - s) / (2 * sphA d) < (-sphB center o d + s) / (2 * sphA d) := by
    apply div_lt_div_of_pos_right _ (by positivity)
    linarith
  -- identify the model's roots
  have hmodel : sphereRoots sqrtF center radius o d =
      some ((-sphB center o d - s) / (2 * sphA d), (-sphB center o d + s) / (2 * sphA d)) := by
    have hd' : ¬ (sphB center o d * sphB center o d - 4 * sphA d * sphC center radius o ≤ 0) := hdisc
    simp only [sphereRoots, two_eq, four_eq]
    simp only [sphDisc, sphA, sphB, sphC] at hd' hlt hsdef ⊢
    rw [if_neg hd', ← hsdef, if_pos hlt]
  rw [hmodel] at h
  simp only [Option.some.injEq, Prod.mk.injEq] at h
  obtain ⟨rfl, rfl⟩ := h
  refine ⟨hpos, le_of_lt hlt, ?_, ?_, ?_, ?_⟩
  · rw [onSphere_iff]; rw [← sub_eq_add_neg] at r2; exact r2
  · rw [onSphere_iff]; exact r1
  · intro t ht
    rw [onSphere_iff] at ht
    rcases quad_root_complete _ _ _ s t ha hss ht with h' | h'
    · right; exact h'
    · left; exact h'
  · field_simp
    linear_combination (-1 : K) * hss

/-- no real intersection when the discriminant is negative -/
theorem sphere_no_hit_of_neg_disc (center : V3 K) (radius : K) (o d : V3 K)
    (h : sphDisc center radius o d < 0) (t : K) : (o.along d t).distSq center ≠ radius * radius := by
  intro ht
  rw [onSphere_iff] at ht
  have := quad_disc_nonneg _ _ _ t ht
  unfold sphDisc at h
  linarith

theorem sphereHits_ts (sqrtF : K → K) (center : V3 K) (radius : K) (o d : V3 K) :
    (sphereHits sqrtF center radius o d).map Hit.t =
      match sphereRoots sqrtF center radius o d with
      | none => []
      | some (t1, t2) => [t1, t2].filter fun t => decide (0 ≤ t) := by
  unfold sphereHits
  cases sphereRoots sqrtF center radius o d with
  | none => rfl
  | some p =>
    obtain ⟨t1, t2⟩ := p
    simp only [List.map_map]
    have : (fun t => !decide (t < 0)) = fun t : K => decide (0 ≤ t) := by
      funext t
      by_cases h : t < 0
      · simp [h, not_le.2 h]
      · simp [h, not_lt.1 h]
    rw [this]
    induction ([t1, t2].filter fun t => decide (0 ≤ t)) with
    | nil => rfl
    | cons x xs ih => simp [ih]

end M3d.Col
