import M3d.Lemmas.TriProfile
import M3d.Lemmas.Surface
import Mathlib.Data.List.Perm.Basic
import Mathlib.Data.List.Nodup
/-!
Helper lemmas for C14, part 8: the extruded soup of `ProfileMesh` is EDGE-BALANCED (closed,
consistently oriented, every undirected edge shared by exactly two triangles) for every certified cap
triangulation of a boundary made of closed curves.

The directed edges of `profileSoup tris` split into six families
(`E = dirEdges tris`, `S = unsharedEdges tris ~ B`, `E₂ = E ++ S.map swap` — the cap edges with the
boundary "closed off" by the reversed boundary edges, a swap-closed duplicate-free edge set):

    E₂.map botE          bottom:   (bot a, bot b)       caps and the bottom edge of every side quad
    E₂.map topSwapE      top:      (top b, top a)       flipped caps and the top edge of every quad
    S.map diagUp / diagDn          (bot a, top b) / (top b, bot a)     the quad diagonals
    S.map vertUp / vertDn          (bot a, top a) / (top b, bot b)     the vertical edges
-/
namespace M3d.Tri
open M3d.Surface

def botE (e : Edge) : Edge := (bot e.1, bot e.2)
def topSwapE (e : Edge) : Edge := (top e.2, top e.1)
def diagUp (e : Edge) : Edge := (bot e.1, top e.2)
def diagDn (e : Edge) : Edge := (top e.2, bot e.1)
def vertUp (e : Edge) : Edge := (bot e.1, top e.1)
def vertDn (e : Edge) : Edge := (top e.2, bot e.2)

/-- the six families, concatenated -/
def soupParts (E S : List Edge) : List Edge :=
  (E ++ S.map swap).map botE ++ ((E ++ S.map swap).map topSwapE ++
    (S.map diagUp ++ (S.map diagDn ++ (S.map vertUp ++ S.map vertDn))))

theorem capEdges_perm (t : Tri) :
    ([(bot t.1, bot t.2.1, bot t.2.2), (top t.2.1, top t.1, top t.2.2)].flatMap triEdges).Perm
      ((triEdges t).map botE ++ (triEdges t).map topSwapE) := by
  obtain ⟨a, b, c⟩ := t
  simp only [triEdges, List.flatMap_cons, List.flatMap_nil, List.map_cons, List.map_nil, botE, topSwapE,
    List.append_nil, List.cons_append, List.nil_append]
  refine List.Perm.cons _ (List.Perm.cons _ (List.Perm.cons _ (List.Perm.cons _ ?_)))
  exact List.Perm.swap _ _ _

theorem sideEdges_perm (e : Edge) :
    ((sideTris e).flatMap triEdges).Perm
      [botE (swap e), topSwapE (swap e), diagUp e, diagDn e, vertUp e, vertDn e] := by
  obtain ⟨a, b⟩ := e
  simp only [sideTris, triEdges, List.flatMap_cons, List.flatMap_nil, botE, topSwapE, diagUp, diagDn, vertUp,
    vertDn, swap, List.append_nil, List.cons_append, List.nil_append]
  -- [(bb,ba),(ba,tb),(tb,bb),(ba,ta),(ta,tb),(tb,ba)] ~ [(bb,ba),(ta,tb),(ba,tb),(tb,ba),(ba,ta),(tb,bb)]
  refine List.Perm.cons _ ?_
  rw [List.perm_iff_count]
  intro x
  simp only [List.count_cons, List.count_nil]
  omega

theorem flatMap_six {α β : Type} [DecidableEq β] (l : List α) (f1 f2 f3 f4 f5 f6 : α → β) :
    (l.flatMap fun e => [f1 e, f2 e, f3 e, f4 e, f5 e, f6 e]).Perm
      (l.map f1 ++ (l.map f2 ++ (l.map f3 ++ (l.map f4 ++ (l.map f5 ++ l.map f6))))) := by
  induction l with
  | nil => simp
  | cons a l ih =>
    simp only [List.flatMap_cons, List.map_cons, List.cons_append, List.nil_append]
    rw [List.perm_iff_count] at ih ⊢
    intro x
    have := ih x
    simp only [List.count_cons, List.count_append] at this ⊢
    omega

/-- The directed edges of the extruded soup are a rearrangement of the six families. -/
theorem dirEdges_profileSoupOn_perm (tris : List Tri) (S : List Edge) :
    (dirEdges (profileSoupOn tris S)).Perm (soupParts (dirEdges tris) S) := by
  unfold profileSoupOn dirEdges soupParts
  rw [List.flatMap_append, List.flatMap_assoc, List.flatMap_assoc]
  have hc : (tris.flatMap fun t =>
      [(bot t.1, bot t.2.1, bot t.2.2), (top t.2.1, top t.1, top t.2.2)].flatMap triEdges).Perm
      ((tris.flatMap triEdges).map botE ++ (tris.flatMap triEdges).map topSwapE) := by
    refine (List.Perm.flatMap_left _ fun t _ => capEdges_perm t).trans ?_
    refine (List.flatMap_append_perm _ _ _).symm.trans ?_
    rw [List.map_flatMap, List.map_flatMap]
  have hs : (S.flatMap fun e => (sideTris e).flatMap triEdges).Perm
      ((S.map swap).map botE ++ ((S.map swap).map topSwapE ++
        (S.map diagUp ++ (S.map diagDn ++ (S.map vertUp ++ S.map vertDn))))) := by
    refine (List.Perm.flatMap_left _ fun e _ => sideEdges_perm e).trans ?_
    refine (flatMap_six S _ _ _ _ _ _).trans ?_
    simp only [List.map_map]
    rfl
  refine (hc.append hs).trans ?_
  simp only [List.map_append]
  rw [List.perm_iff_count]
  intro x
  simp only [List.count_append]
  omega

/-! ### parity: `bot` and `top` ids never collide -/

theorem bot_ne_top (a b : Nat) : bot a ≠ top b := by unfold bot top; omega
theorem bot_inj {a b : Nat} (h : bot a = bot b) : a = b := by unfold bot at h; omega
theorem top_inj {a b : Nat} (h : top a = top b) : a = b := by unfold top at h; omega

theorem botE_inj : Function.Injective botE := by
  intro e f h; simp only [botE, Prod.mk.injEq] at h; exact Prod.ext (bot_inj h.1) (bot_inj h.2)
theorem topSwapE_inj : Function.Injective topSwapE := by
  intro e f h; simp only [topSwapE, Prod.mk.injEq] at h; exact Prod.ext (top_inj h.2) (top_inj h.1)
theorem diagUp_inj : Function.Injective diagUp := by
  intro e f h; simp only [diagUp, Prod.mk.injEq] at h; exact Prod.ext (bot_inj h.1) (top_inj h.2)
theorem diagDn_inj : Function.Injective diagDn := by
  intro e f h; simp only [diagDn, Prod.mk.injEq] at h; exact Prod.ext (bot_inj h.2) (top_inj h.1)

/-! ### the closed-off cap edge set -/

theorem closedOff_nodup {B E : List Edge} (h : Glued B E) : (E ++ B.map swap).Nodup := by
  obtain ⟨hE, hB, hBE, _⟩ := h
  rw [List.nodup_append]
  refine ⟨hE, hB.map (fun a b hab => by
    have := congrArg swap hab; simpa [swap] using this), ?_⟩
  intro a ha b hb hab
  obtain ⟨e, he, rfl⟩ := List.mem_map.1 hb
  exact (hBE e he).2 (hab ▸ ha)

theorem closedOff_swap {B E : List Edge} (h : Glued B E) {e : Edge} (he : e ∈ E ++ B.map swap) :
    swap e ∈ E ++ B.map swap := by
  obtain ⟨_, _, hBE, hEB⟩ := h
  rcases List.mem_append.1 he with h1 | h1
  · rcases hEB e h1 with hb | hs
    · exact List.mem_append.2 (Or.inr (List.mem_map.2 ⟨e, hb, rfl⟩))
    · exact List.mem_append.2 (Or.inl hs)
  · obtain ⟨f, hf, rfl⟩ := List.mem_map.1 h1
    exact List.mem_append.2 (Or.inl (hBE f hf).1)

/-! ### closed curves -/

theorem closedCurves_starts_nodup {B : List Seg} (h : ClosedCurves B) : (B.map (·.1)).Nodup := by
  rw [List.nodup_iff_count_le_one]
  intro v
  by_cases hv : v ∈ B.map (·.1)
  · obtain ⟨e, he, rfl⟩ := List.mem_map.1 hv
    have : e.1 ∈ segVertsAll B := by
      unfold segVertsAll; exact List.mem_flatMap.2 ⟨e, he, by simp⟩
    exact le_of_eq (h.1 _ this).1
  · rw [List.count_eq_zero_of_not_mem hv]; omega

theorem closedCurves_ends_nodup {B : List Seg} (h : ClosedCurves B) : (B.map (·.2)).Nodup := by
  rw [List.nodup_iff_count_le_one]
  intro v
  by_cases hv : v ∈ B.map (·.2)
  · obtain ⟨e, he, rfl⟩ := List.mem_map.1 hv
    have : e.2 ∈ segVertsAll B := by
      unfold segVertsAll; exact List.mem_flatMap.2 ⟨e, he, by simp⟩
    exact le_of_eq (h.1 _ this).2
  · rw [List.count_eq_zero_of_not_mem hv]; omega

theorem closedCurves_next {B : List Seg} (h : ClosedCurves B) {e : Seg} (he : e ∈ B) : ∃ f ∈ B, f.1 = e.2 := by
  have : e.2 ∈ segVertsAll B := by
    unfold segVertsAll; exact List.mem_flatMap.2 ⟨e, he, by simp⟩
  have hc := (h.1 _ this).1
  have : e.2 ∈ starts B := List.count_pos_iff.1 (by omega)
  obtain ⟨f, hf, hfe⟩ := List.mem_map.1 this
  exact ⟨f, hf, hfe⟩

theorem closedCurves_prev {B : List Seg} (h : ClosedCurves B) {e : Seg} (he : e ∈ B) : ∃ f ∈ B, f.2 = e.1 := by
  have : e.1 ∈ segVertsAll B := by
    unfold segVertsAll; exact List.mem_flatMap.2 ⟨e, he, by simp⟩
  have hc := (h.1 _ this).2
  have : e.1 ∈ ends B := List.count_pos_iff.1 (by omega)
  obtain ⟨f, hf, hfe⟩ := List.mem_map.1 this
  exact ⟨f, hf, hfe⟩

/-! ### the six families are duplicate-free and closed under reversal -/

theorem soupParts_nodup {B E S : List Edge} (h : Glued B E) (hS : S.Perm B) (hc : ClosedCurves B) :
    (soupParts E S).Nodup := by
  have hSn : S.Nodup := hS.nodup_iff.2 h.2.1
  have h2 : (E ++ S.map swap).Nodup := ((List.Perm.append_left E (hS.map swap)).nodup_iff).2 (closedOff_nodup h)
  have hst : (S.map (·.1)).Nodup := ((hS.map _).nodup_iff).2 (closedCurves_starts_nodup hc)
  have hen : (S.map (·.2)).Nodup := ((hS.map _).nodup_iff).2 (closedCurves_ends_nodup hc)
  have hloop : ∀ e ∈ S, e.1 ≠ e.2 := fun e he => hc.2 e (hS.subset he)
  have nUp : (S.map vertUp).Nodup := by
    refine List.Nodup.map_on ?_ hSn
    intro x hx y hy hxy
    simp only [vertUp, Prod.mk.injEq] at hxy
    have h1 : x.1 = y.1 := bot_inj hxy.1
    exact List.inj_on_of_nodup_map hst hx hy h1
  have nDn : (S.map vertDn).Nodup := by
    refine List.Nodup.map_on ?_ hSn
    intro x hx y hy hxy
    simp only [vertDn, Prod.mk.injEq] at hxy
    have h1 : x.2 = y.2 := top_inj hxy.1
    exact List.inj_on_of_nodup_map hen hx hy h1
  unfold soupParts
  simp only [List.nodup_append, List.mem_append, List.mem_map]
  refine ⟨h2.map botE_inj, ⟨h2.map topSwapE_inj, ⟨hSn.map diagUp_inj, ⟨hSn.map diagDn_inj, ⟨nUp, nDn, ?_⟩, ?_⟩, ?_⟩, ?_⟩, ?_⟩
  · -- vertUp vs vertDn
    rintro _ ⟨e, _, rfl⟩ _ ⟨f, _, rfl⟩ hab
    simp only [vertUp, vertDn, Prod.mk.injEq] at hab
    exact bot_ne_top _ _ hab.1
  · -- diagDn vs verticals
    rintro _ ⟨e, he, rfl⟩ _ (⟨f, _, rfl⟩ | ⟨f, hf, rfl⟩) hab
    · simp only [diagDn, vertUp, Prod.mk.injEq] at hab
      exact bot_ne_top _ _ hab.1.symm
    · simp only [diagDn, vertDn, Prod.mk.injEq] at hab
      have h1 : e.2 = f.2 := top_inj hab.1
      have h3 : e.1 = f.2 := bot_inj hab.2
      exact hloop e he (h3.trans h1.symm)
  · -- diagUp vs the rest
    rintro _ ⟨e, he, rfl⟩ _ (⟨f, _, rfl⟩ | ⟨f, _, rfl⟩ | ⟨f, _, rfl⟩) hab
    · simp only [diagUp, diagDn, Prod.mk.injEq] at hab
      exact bot_ne_top _ _ hab.1
    · simp only [diagUp, vertUp, Prod.mk.injEq] at hab
      have h1 : e.1 = f.1 := bot_inj hab.1
      have h3 : e.2 = f.1 := top_inj hab.2
      exact hloop e he (h1.trans h3.symm)
    · simp only [diagUp, vertDn, Prod.mk.injEq] at hab
      exact bot_ne_top _ _ hab.1
  · -- top edges vs mixed edges
    rintro _ ⟨e, _, rfl⟩ _ (⟨f, _, rfl⟩ | ⟨f, _, rfl⟩ | ⟨f, _, rfl⟩ | ⟨f, _, rfl⟩) hab
    · simp only [topSwapE, diagUp, Prod.mk.injEq] at hab; exact bot_ne_top _ _ hab.1.symm
    · simp only [topSwapE, diagDn, Prod.mk.injEq] at hab; exact bot_ne_top _ _ hab.2.symm
    · simp only [topSwapE, vertUp, Prod.mk.injEq] at hab; exact bot_ne_top _ _ hab.1.symm
    · simp only [topSwapE, vertDn, Prod.mk.injEq] at hab; exact bot_ne_top _ _ hab.2.symm
  · -- bottom edges vs everything else
    rintro _ ⟨e, _, rfl⟩ _ (⟨f, _, rfl⟩ | ⟨f, _, rfl⟩ | ⟨f, _, rfl⟩ | ⟨f, _, rfl⟩ | ⟨f, _, rfl⟩) hab
    · simp only [botE, topSwapE, Prod.mk.injEq] at hab; exact bot_ne_top _ _ hab.1
    · simp only [botE, diagUp, Prod.mk.injEq] at hab; exact bot_ne_top _ _ hab.2
    · simp only [botE, diagDn, Prod.mk.injEq] at hab; exact bot_ne_top _ _ hab.1
    · simp only [botE, vertUp, Prod.mk.injEq] at hab; exact bot_ne_top _ _ hab.2
    · simp only [botE, vertDn, Prod.mk.injEq] at hab; exact bot_ne_top _ _ hab.1

theorem soupParts_swap {B E S : List Edge} (h : Glued B E) (hS : S.Perm B) (hc : ClosedCurves B)
    {x : Edge} (hx : x ∈ soupParts E S) : swap x ∈ soupParts E S := by
  have mem2 : ∀ e, e ∈ E ++ S.map swap → swap e ∈ E ++ S.map swap := by
    intro e he
    have p := List.Perm.append_left E (hS.map swap)
    exact p.symm.subset (closedOff_swap h (p.subset he))
  unfold soupParts at hx ⊢
  simp only [List.mem_append, List.mem_map] at hx ⊢
  rcases hx with ⟨e, he, rfl⟩ | ⟨e, he, rfl⟩ | ⟨e, he, rfl⟩ | ⟨e, he, rfl⟩ | ⟨e, he, rfl⟩ | ⟨e, he, rfl⟩
  · exact Or.inl ⟨swap e, by simpa [List.mem_append, List.mem_map] using mem2 e (by
      simpa [List.mem_append, List.mem_map] using he), rfl⟩
  · exact Or.inr (Or.inl ⟨swap e, by simpa [List.mem_append, List.mem_map] using mem2 e (by
      simpa [List.mem_append, List.mem_map] using he), rfl⟩)
  · exact Or.inr (Or.inr (Or.inr (Or.inl ⟨e, he, rfl⟩)))
  · exact Or.inr (Or.inr (Or.inl ⟨e, he, rfl⟩))
  · -- vertUp e = (bot a, top a): its reverse is vertDn of the boundary edge ending at a
    obtain ⟨f, hf, hfe⟩ := closedCurves_prev hc (hS.subset he)
    refine Or.inr (Or.inr (Or.inr (Or.inr (Or.inr ⟨f, hS.symm.subset hf, ?_⟩))))
    simp only [vertDn, vertUp, swap, hfe]
  · obtain ⟨f, hf, hfe⟩ := closedCurves_next hc (hS.subset he)
    refine Or.inr (Or.inr (Or.inr (Or.inr (Or.inl ⟨f, hS.symm.subset hf, ?_⟩))))
    simp only [vertDn, vertUp, swap, hfe]

theorem edgeBalanced_of_nodup_swap {ts : List Tri} (hn : (dirEdges ts).Nodup)
    (hs : ∀ e ∈ dirEdges ts, swap e ∈ dirEdges ts) : EdgeBalanced ts := by
  intro e he
  exact ⟨List.count_eq_one_of_mem hn he, List.count_eq_one_of_mem hn (hs e he)⟩

/-- **Edge balance of the extrusion.** -/
theorem profileSoup_edgeBalanced {B : List Edge} {tris : List Tri} (h : Glued B (dirEdges tris))
    (hc : ClosedCurves B) : EdgeBalanced (profileSoup tris) := by
  have hS := unshared_perm_boundary h
  have hp := dirEdges_profileSoupOn_perm tris (unsharedEdges tris)
  rw [profileSoup_eq_on]
  refine edgeBalanced_of_nodup_swap (hp.nodup_iff.2 (soupParts_nodup h hS hc)) ?_
  intro e he
  exact hp.symm.subset (soupParts_swap h hS hc (hp.subset he))

/-- No degenerate face in the extrusion (as vertex ids). -/
theorem profileSoup_noDegenerate {B : List Edge} {tris : List Tri} (h : Glued B (dirEdges tris))
    (hc : ClosedCurves B) (hd : NoDegenerate tris) : NoDegenerate (profileSoup tris) := by
  have hS := unshared_perm_boundary h
  intro t ht
  unfold profileSoup at ht
  rcases List.mem_append.1 ht with h1 | h1
  · obtain ⟨u, hu, hm⟩ := List.mem_flatMap.1 h1
    obtain ⟨d1, d2, d3⟩ := hd u hu
    simp only [List.mem_cons, List.not_mem_nil, or_false] at hm
    rcases hm with rfl | rfl
    · exact ⟨fun g => d1 (bot_inj g), fun g => d2 (bot_inj g), fun g => d3 (bot_inj g)⟩
    · exact ⟨fun g => d1 (top_inj g).symm, fun g => d3 (top_inj g).symm, fun g => d2 (top_inj g).symm⟩
  · obtain ⟨e, he, hm⟩ := List.mem_flatMap.1 h1
    have hne : e.1 ≠ e.2 := hc.2 e (hS.subset he)
    simp only [sideTris, List.mem_cons, List.not_mem_nil, or_false] at hm
    rcases hm with rfl | rfl
    · exact ⟨fun g => hne (bot_inj g).symm, bot_ne_top _ _, fun g => bot_ne_top _ _ g.symm⟩
    · exact ⟨bot_ne_top _ _, fun g => hne (top_inj g), fun g => bot_ne_top _ _ g.symm⟩

end M3d.Tri
