import M3d.Model.Triangulate
import Mathlib.Tactic.Ring
import Mathlib.Tactic.Linarith
import Mathlib.Tactic.LinearCombination
import Mathlib.Algebra.Order.Field.Basic
/-!
Helper lemmas for C14, part 1: shoelace algebra and ear clipping
(`M3d/Model/Triangulate.lean` instantiated at a field `K`).
-/
namespace M3d.Tri

section Ring
variable {K : Type} [Field K]

theorem orient_eq_cross (a b c : P2 K) : orient a b c = cross a b + cross b c + cross c a := by
  simp only [orient, cross]; ring

theorem cross_antisymm (a b : P2 K) : cross b a = -cross a b := by
  simp only [cross]; ring

theorem cross_self (a : P2 K) : cross a a = 0 := by
  simp only [cross]; ring

theorem orient_rot (a b c : P2 K) : orient b c a = orient a b c := by
  simp only [orient]; ring

theorem orient_swap (a b c : P2 K) : orient b a c = -orient a b c := by
  simp only [orient]; ring

theorem orient_degenerate (a b : P2 K) : orient a b a = 0 := by
  simp only [orient]; ring

@[simp] theorem pathSum_nil : pathSum ([] : List (P2 K)) = 0 := rfl
@[simp] theorem pathSum_single (a : P2 K) : pathSum [a] = 0 := rfl
@[simp] theorem pathSum_cons_cons (a b : P2 K) (t : List (P2 K)) :
    pathSum (a :: b :: t) = cross a b + pathSum (b :: t) := rfl

theorem pathSum_append (l₁ : List (P2 K)) (a : P2 K) (l₂ : List (P2 K)) :
    pathSum (l₁ ++ a :: l₂) = pathSum (l₁ ++ [a]) + pathSum (a :: l₂) := by
  induction l₁ with
  | nil => simp
  | cons b t ih =>
    cases t with
    | nil => simp
    | cons c t' =>
      have := ih
      simp only [List.cons_append, pathSum_cons_cons] at this ⊢
      rw [this]; ring

theorem shoelace2_cons (a : P2 K) (t : List (P2 K)) : shoelace2 (a :: t) = pathSum (a :: t ++ [a]) := rfl

/-- Rotating the start vertex does not change the shoelace sum. -/
theorem shoelace2_rotate1 (a : P2 K) (t : List (P2 K)) : shoelace2 (t ++ [a]) = shoelace2 (a :: t) := by
  cases t with
  | nil => rfl
  | cons b t' =>
    have h := pathSum_append (b :: t') a [b]
    have e : shoelace2 (b :: t' ++ [a]) = pathSum ((b :: t') ++ a :: [b]) := by
      simp [shoelace2_cons]
    rw [e, h]
    simp only [shoelace2_cons, List.cons_append, pathSum_cons_cons, pathSum_single]
    ring

theorem shoelace2_rotate (l₁ l₂ : List (P2 K)) : shoelace2 (l₁ ++ l₂) = shoelace2 (l₂ ++ l₁) := by
  induction l₁ generalizing l₂ with
  | nil => simp
  | cons d l₁ ih =>
    have h1 : shoelace2 (d :: l₁ ++ l₂) = shoelace2 (l₁ ++ l₂ ++ [d]) := (shoelace2_rotate1 d (l₁ ++ l₂)).symm
    rw [h1, List.append_assoc, ih (l₂ ++ [d])]
    simp

/-- Removing the second vertex of `a,b,c,…` removes exactly the triangle `a,b,c`. -/
theorem shoelace2_drop_second (a b c : P2 K) (r : List (P2 K)) :
    shoelace2 (a :: b :: c :: r) = shoelace2 (a :: c :: r) + orient a b c := by
  simp only [shoelace2_cons, List.cons_append, pathSum_cons_cons, orient_eq_cross]
  have := cross_antisymm a c
  rw [this]; ring

/-- **The identity behind ear clipping**: `area(b :: m) = area(m) + area(triangle(last m, b, head m))`. -/
theorem shoelace2_cons_ear (b : P2 K) (m : List (P2 K)) (hm : m ≠ []) :
    shoelace2 (b :: m) = shoelace2 m + orient (m.getLast hm) b (m.head hm) := by
  obtain ⟨m', a, rfl⟩ : ∃ m' a, m = m' ++ [a] := ⟨m.dropLast, m.getLast hm, (List.dropLast_concat_getLast hm).symm⟩
  simp only [List.getLast_concat]
  cases m' with
  | nil =>
    simp only [List.nil_append, List.head_cons, shoelace2_cons, List.cons_append, pathSum_cons_cons,
      pathSum_single, orient_degenerate, cross_self, cross_antisymm a b]
    ring
  | cons c r =>
    have h1 : shoelace2 (b :: (c :: r ++ [a])) = shoelace2 (a :: b :: c :: r) := by
      have := shoelace2_rotate1 a (b :: c :: r)
      simpa using this
    have h2 : shoelace2 (c :: r ++ [a]) = shoelace2 (a :: c :: r) := by
      have := shoelace2_rotate1 a (c :: r)
      simpa using this
    rw [h1, h2, shoelace2_drop_second]
    simp

/-! ### index bookkeeping: the Go neighbours `(i+n-1)%n`, `(i+1)%n` in a split list -/

theorem curAt_split (l₁ : List (P2 K)) (b : P2 K) (l₂ : List (P2 K)) :
    curAt (l₁ ++ b :: l₂) l₁.length = b := by
  simp [curAt, List.getD_eq_getElem?_getD]

theorem nextAt_split (l₁ : List (P2 K)) (b : P2 K) (l₂ : List (P2 K)) (hm : l₂ ++ l₁ ≠ []) :
    nextAt (l₁ ++ b :: l₂) l₁.length = (l₂ ++ l₁).head hm := by
  unfold nextAt
  cases l₂ with
  | nil =>
    have hl : l₁ ≠ [] := by simpa using hm
    have : (l₁.length + 1) % (l₁ ++ [b]).length = 0 := by simp
    rw [this]
    cases l₁ with
    | nil => exact absurd rfl hl
    | cons x xs => simp [List.getD_eq_getElem?_getD]
  | cons c l₂' =>
    have hlt : l₁.length + 1 < (l₁ ++ b :: c :: l₂').length := by simp
    rw [Nat.mod_eq_of_lt hlt]
    simp [List.getD_eq_getElem?_getD, List.getElem?_append_right]

theorem prevAt_split_pos (l₁' : List (P2 K)) (a b : P2 K) (l₂ : List (P2 K)) (hm : l₂ ++ (l₁' ++ [a]) ≠ []) :
    prevAt ((l₁' ++ [a]) ++ b :: l₂) (l₁' ++ [a]).length = (l₂ ++ (l₁' ++ [a])).getLast hm := by
  unfold prevAt
  have hidx : ((l₁' ++ [a]).length + (l₁' ++ [a] ++ b :: l₂).length - 1) % (l₁' ++ [a] ++ b :: l₂).length
      = l₁'.length := by
    have : (l₁' ++ [a]).length + (l₁' ++ [a] ++ b :: l₂).length - 1
        = l₁'.length + (l₁' ++ [a] ++ b :: l₂).length := by simp
    rw [this, Nat.add_mod_right, Nat.mod_eq_of_lt]
    simp
  rw [hidx]
  have : (l₂ ++ (l₁' ++ [a])).getLast hm = a := by
    simp [List.getLast_append]
  rw [this]
  simp [List.getD_eq_getElem?_getD, List.getElem?_append_left]

theorem prevAt_split (l₁ : List (P2 K)) (b : P2 K) (l₂ : List (P2 K)) (hm : l₂ ++ l₁ ≠ []) :
    prevAt (l₁ ++ b :: l₂) l₁.length = (l₂ ++ l₁).getLast hm := by
  unfold prevAt
  rcases List.eq_nil_or_concat l₁ with rfl | ⟨l₁', a, h⟩
  case inr => rw [List.concat_eq_append] at h; subst h; exact prevAt_split_pos l₁' a b l₂ hm
  · -- i = 0: index n-1, the last element of l₂
    have hl : l₂ ≠ [] := by simpa using hm
    simp only [List.length_nil, List.nil_append, Nat.zero_add, List.length_cons, Nat.add_sub_cancel,
      List.append_nil]
    rw [Nat.mod_eq_of_lt (Nat.lt_succ_self _)]
    rw [List.getD_eq_getElem?_getD]
    have : (b :: l₂)[l₂.length]? = some (l₂.getLast hl) := by
      rw [List.getLast_eq_getElem]
      cases l₂ with
      | nil => exact absurd rfl hl
      | cons x xs => simp
    rw [this]; rfl

theorem eraseIdx_split (l₁ : List (P2 K)) (b : P2 K) (l₂ : List (P2 K)) :
    (l₁ ++ b :: l₂).eraseIdx l₁.length = l₁ ++ l₂ := by
  induction l₁ with
  | nil => rfl
  | cons x xs ih => simp [List.eraseIdx, ih]

/-- **Removing any vertex `i` of a polygon with at least two vertices removes exactly the triangle
`(polygon[i-1], polygon[i], polygon[i+1])` (indices mod n) from the shoelace area.** -/
theorem shoelace2_eraseIdx (l : List (P2 K)) (i : Nat) (hi : i < l.length) (h2 : 2 ≤ l.length) :
    shoelace2 l = shoelace2 (l.eraseIdx i) + triArea2 (earTri l i) := by
  obtain ⟨l₁, b, l₂, rfl, rfl⟩ : ∃ l₁ b l₂, l = l₁ ++ b :: l₂ ∧ i = l₁.length := by
    refine ⟨l.take i, l[i], l.drop (i + 1), ?_, ?_⟩
    · rw [List.getElem_cons_drop hi]; exact (List.take_append_drop i l).symm
    · simp; omega
  have hm : l₂ ++ l₁ ≠ [] := by
    intro h
    have h' := congrArg List.length h
    simp only [List.length_append, List.length_nil, List.length_cons] at h2 h'
    omega
  rw [eraseIdx_split, shoelace2_rotate l₁ (b :: l₂), shoelace2_rotate l₁ l₂]
  simp only [triArea2, earTri, curAt_split, nextAt_split _ _ _ hm, prevAt_split _ _ _ hm]
  exact shoelace2_cons_ear b (l₂ ++ l₁) hm

/-! ### clipping sequences -/

/-- Every index is in range when it is used and at least two vertices remain. -/
def ValidSeq : List (P2 K) → List Nat → Prop
  | _, [] => True
  | l, i :: is => i < l.length ∧ 2 ≤ l.length ∧ ValidSeq (l.eraseIdx i) is

theorem sumArea2_cons (t : PTri K) (ts : List (PTri K)) : sumArea2 (t :: ts) = triArea2 t + sumArea2 ts := rfl

theorem sumArea2_append (ts us : List (PTri K)) : sumArea2 (ts ++ us) = sumArea2 ts + sumArea2 us := by
  induction ts with
  | nil => simp [sumArea2]
  | cons t ts ih => simp only [List.cons_append, sumArea2_cons, ih]; ring

theorem clipSeq_area (l : List (P2 K)) (is : List Nat) (h : ValidSeq l is) :
    sumArea2 (clipSeq l is) + shoelace2 (clipRest l is) = shoelace2 l := by
  induction is generalizing l with
  | nil => simp [clipSeq, clipRest, sumArea2]
  | cons i is ih =>
    obtain ⟨hi, h2, hv⟩ := h
    simp only [clipSeq, clipRest, sumArea2_cons]
    rw [shoelace2_eraseIdx l i hi h2, ← ih _ hv]
    ring

theorem clipSeq_length (l : List (P2 K)) (is : List Nat) : (clipSeq l is).length = is.length := by
  induction is generalizing l with
  | nil => rfl
  | cons i is ih => simp [clipSeq, ih]

theorem clipRest_length (l : List (P2 K)) (is : List Nat) (h : ValidSeq l is) :
    (clipRest l is).length = l.length - is.length := by
  induction is generalizing l with
  | nil => simp [clipRest]
  | cons i is ih =>
    obtain ⟨hi, _, hv⟩ := h
    simp only [clipRest, List.length_cons]
    rw [ih _ hv, List.length_eraseIdx_of_lt hi]
    omega

theorem shoelace2_two (a b : P2 K) : shoelace2 [a, b] = 0 := by
  simp [shoelace2_cons, cross_antisymm a b]

theorem shoelace2_length_le_two (l : List (P2 K)) (h : l.length ≤ 2) : shoelace2 l = 0 := by
  match l, h with
  | [], _ => rfl
  | [a], _ => simp [shoelace2_cons, cross_self]
  | [a, b], _ => exact shoelace2_two a b

theorem getD_mem_of_lt (l : List (P2 K)) (i : Nat) (h : i < l.length) : l.getD i zeroP ∈ l := by
  rw [List.getD_eq_getElem?_getD, List.getElem?_eq_getElem h]
  exact List.getElem_mem h

theorem earTri_mem (l : List (P2 K)) (i : Nat) (hi : i < l.length) :
    (earTri l i).1 ∈ l ∧ (earTri l i).2.1 ∈ l ∧ (earTri l i).2.2 ∈ l := by
  have hpos : 0 < l.length := by omega
  exact ⟨getD_mem_of_lt l _ (Nat.mod_lt _ hpos), getD_mem_of_lt l _ hi, getD_mem_of_lt l _ (Nat.mod_lt _ hpos)⟩

theorem clipSeq_mem (l : List (P2 K)) (is : List Nat) (h : ValidSeq l is) :
    ∀ t ∈ clipSeq l is, t.1 ∈ l ∧ t.2.1 ∈ l ∧ t.2.2 ∈ l := by
  induction is generalizing l with
  | nil => simp [clipSeq]
  | cons i is ih =>
    obtain ⟨hi, _, hv⟩ := h
    intro t ht
    simp only [clipSeq, List.mem_cons] at ht
    rcases ht with rfl | ht
    · exact earTri_mem l i hi
    · have := ih _ hv t ht
      have hsub : ∀ x, x ∈ l.eraseIdx i → x ∈ l := fun x hx => List.mem_of_mem_eraseIdx hx
      exact ⟨hsub _ this.1, hsub _ this.2.1, hsub _ this.2.2⟩

end Ring

end M3d.Tri
