import M3d.Model.Bisect
import Mathlib.Algebra.Order.Field.Basic
import Mathlib.Algebra.Order.AbsoluteValue.Basic
import Mathlib.Tactic.Linarith
import Mathlib.Tactic.Ring
import Mathlib.Tactic.FieldSimp
import Mathlib.Tactic.Positivity
/-!
# Bisection facts over a linear ordered field

`s = (falsePoint, truePoint)`; `P` is containment along the edge.
-/
namespace M3d.Bisect
set_option linter.unusedSectionVars false

variable {K : Type} [Field K] [LinearOrder K] [IsStrictOrderedRing K]

theorem step_true_end (P : K → Bool) (s : K × K) (h : P s.2 = true) : P (step P s).2 = true := by
  unfold step
  by_cases hm : P (mid s) = true
  · simp [hm]
  · simp [hm, h]

theorem step_false_end (P : K → Bool) (s : K × K) (h : P s.1 = false) : P (step P s).1 = false := by
  unfold step
  by_cases hm : P (mid s) = true
  · simp [hm, h]
  · simp [hm]

theorem bisect_true_end (P : K → Bool) (n : Nat) : ∀ s : K × K, P s.2 = true → P (bisect P s n).2 = true := by
  induction n with
  | zero => intro s h; simpa [bisect] using h
  | succ n ih => intro s h; simp only [bisect]; exact ih _ (step_true_end P s h)

theorem bisect_false_end (P : K → Bool) (n : Nat) : ∀ s : K × K, P s.1 = false → P (bisect P s n).1 = false := by
  induction n with
  | zero => intro s h; simpa [bisect] using h
  | succ n ih => intro s h; simp only [bisect]; exact ih _ (step_false_end P s h)

theorem step_width (P : K → Bool) (s : K × K) : (step P s).2 - (step P s).1 = (s.2 - s.1) / 2 := by
  unfold step mid
  by_cases hm : P ((s.1 + s.2) / 2) = true
  · simp only [hm, if_true]; ring
  · simp only [hm]; simp only [Bool.false_eq_true, if_false]; ring

theorem bisect_width' (P : K → Bool) (n : Nat) :
    ∀ s : K × K, (bisect P s n).2 - (bisect P s n).1 = (s.2 - s.1) / 2 ^ n := by
  induction n with
  | zero => intro s; simp [bisect]
  | succ n ih =>
    intro s
    simp only [bisect]
    rw [ih, step_width, pow_succ]
    field_simp

/-- Both ends of the interval after one step lie in the closed interval spanned before it. -/
theorem step_nested (P : K → Bool) (s : K × K) :
    (min s.1 s.2 ≤ (step P s).1 ∧ (step P s).1 ≤ max s.1 s.2) ∧
    (min s.1 s.2 ≤ (step P s).2 ∧ (step P s).2 ≤ max s.1 s.2) := by
  have hm1 : min s.1 s.2 ≤ (s.1 + s.2) / 2 := by
    rcases le_total s.1 s.2 with h | h
    · rw [min_eq_left h]; linarith
    · rw [min_eq_right h]; linarith
  have hm2 : (s.1 + s.2) / 2 ≤ max s.1 s.2 := by
    rcases le_total s.1 s.2 with h | h
    · rw [max_eq_right h]; linarith
    · rw [max_eq_left h]; linarith
  unfold step mid
  by_cases hm : P ((s.1 + s.2) / 2) = true
  · simp only [hm, if_true]
    exact ⟨⟨min_le_left _ _, le_max_left _ _⟩, hm1, hm2⟩
  · simp only [hm]; simp only [Bool.false_eq_true, if_false]
    exact ⟨⟨hm1, hm2⟩, min_le_right _ _, le_max_right _ _⟩

theorem bisect_nested (P : K → Bool) (n : Nat) : ∀ s : K × K,
    (min s.1 s.2 ≤ (bisect P s n).1 ∧ (bisect P s n).1 ≤ max s.1 s.2) ∧
    (min s.1 s.2 ≤ (bisect P s n).2 ∧ (bisect P s n).2 ≤ max s.1 s.2) := by
  induction n with
  | zero =>
    intro s
    simp only [bisect]
    exact ⟨⟨min_le_left _ _, le_max_left _ _⟩, min_le_right _ _, le_max_right _ _⟩
  | succ n ih =>
    intro s
    simp only [bisect]
    have h1 := ih (step P s)
    have h2 := step_nested P s
    have hlo : min s.1 s.2 ≤ min (step P s).1 (step P s).2 := le_min h2.1.1 h2.2.1
    have hhi : max (step P s).1 (step P s).2 ≤ max s.1 s.2 := max_le h2.1.2 h2.2.2
    exact ⟨⟨le_trans hlo h1.1.1, le_trans h1.1.2 hhi⟩, le_trans hlo h1.2.1, le_trans h1.2.2 hhi⟩

theorem mid_strict_between (s : K × K) (h : s.1 ≠ s.2) :
    min s.1 s.2 < mid s ∧ mid s < max s.1 s.2 := by
  unfold mid
  rcases lt_or_gt_of_ne h with h | h
  · rw [min_eq_left (le_of_lt h), max_eq_right (le_of_lt h)]; constructor <;> linarith
  · rw [min_eq_right (le_of_lt h), max_eq_left (le_of_lt h)]; constructor <;> linarith

theorem bisect_ends_ne (P : K → Bool) (n : Nat) (s : K × K) (h : s.1 ≠ s.2) :
    (bisect P s n).1 ≠ (bisect P s n).2 := by
  intro he
  have hw := bisect_width' P n s
  rw [he, sub_self] at hw
  have h2 : (0 : K) < 2 ^ n := by positivity
  have : s.2 - s.1 = 0 := by
    have := hw.symm
    rw [div_eq_zero_iff] at this
    rcases this with h0 | h0
    · exact h0
    · exact absurd h0 (ne_of_gt h2)
  exact h (by linarith [sub_eq_zero.1 this])

theorem mid_sub_fst (s : K × K) : mid s - s.1 = (s.2 - s.1) / 2 := by unfold mid; ring
theorem snd_sub_mid (s : K × K) : s.2 - mid s = (s.2 - s.1) / 2 := by unfold mid; ring

theorem lerp_one (p1 p2 : V3 K) : lerp p1 p2 1 = p2 := by
  cases p1; cases p2
  simp only [lerp, V3.add, V3.sub, V3.scale, V3.mk.injEq]
  refine ⟨?_, ?_, ?_⟩ <;> ring

theorem lerp_zero (p1 p2 : V3 K) : lerp p1 p2 0 = p1 := by
  cases p1; cases p2
  simp only [lerp, V3.add, V3.sub, V3.scale, V3.mk.injEq]
  refine ⟨?_, ?_, ?_⟩ <;> ring

theorem orient_spec (C : V3 K → Bool) (p1 p2 : V3 K) (h : C p1 ≠ C p2) :
    C (orient C p1 p2).1 = false ∧ C (orient C p1 p2).2 = true := by
  unfold orient
  by_cases h1 : C p1 = true
  · simp only [h1, if_true]
    refine ⟨?_, trivial⟩
    cases h2 : C p2
    · rfl
    · exact absurd (h1.trans h2.symm) h
  · simp only [h1]; simp only [Bool.false_eq_true, if_false]
    have h1' : C p1 = false := by simpa using h1
    refine ⟨h1', ?_⟩
    cases h2 : C p2
    · exact absurd (h1'.trans h2.symm) h
    · rfl

/-! ### starting brackets that are NOT known to be classified (re-computed ends) -/

/-- Each end of the interval after one step is either the end before it or a point at which `P` was
evaluated with the matching result. -/
theorem step_ends_tested (P : K → Bool) (s : K × K) :
    ((step P s).1 = s.1 ∨ P (step P s).1 = false) ∧ ((step P s).2 = s.2 ∨ P (step P s).2 = true) := by
  unfold step
  by_cases hm : P (mid s) = true
  · simp [hm]
  · have hm' : P (mid s) = false := by simpa using hm
    simp [hm']

theorem bisect_ends_tested' (P : K → Bool) (n : Nat) : ∀ s : K × K,
    ((bisect P s n).1 = s.1 ∨ P (bisect P s n).1 = false) ∧
    ((bisect P s n).2 = s.2 ∨ P (bisect P s n).2 = true) := by
  induction n with
  | zero => intro s; simp [bisect]
  | succ n ih =>
    intro s
    simp only [bisect]
    have h1 := ih (step P s)
    have h2 := step_ends_tested P s
    refine ⟨?_, ?_⟩
    · rcases h1.1 with h | h
      · rcases h2.1 with g | g
        · exact Or.inl (h.trans g)
        · exact Or.inr (by rw [h]; exact g)
      · exact Or.inr h
    · rcases h1.2 with h | h
      · rcases h2.2 with g | g
        · exact Or.inl (h.trans g)
        · exact Or.inr (by rw [h]; exact g)
      · exact Or.inr h

/-- Every end of the interval after `n` steps is either the initial end or a midpoint the loop tested,
and a tested midpoint is at least `|s.2 - s.1| / 2^n` away from both initial ends. -/
theorem bisect_tested_inside (P : K → Bool) (n : Nat) : ∀ s : K × K,
    ((bisect P s n).1 = s.1 ∨
      (min s.1 s.2 + |s.2 - s.1| / 2 ^ n ≤ (bisect P s n).1 ∧ (bisect P s n).1 ≤ max s.1 s.2 - |s.2 - s.1| / 2 ^ n)) ∧
    ((bisect P s n).2 = s.2 ∨
      (min s.1 s.2 + |s.2 - s.1| / 2 ^ n ≤ (bisect P s n).2 ∧ (bisect P s n).2 ≤ max s.1 s.2 - |s.2 - s.1| / 2 ^ n)) := by
  induction n with
  | zero => intro s; simp [bisect]
  | succ n ih =>
    intro s
    simp only [bisect]
    have h1 := ih (step P s)
    have hn := step_nested P s
    have hw : |(step P s).2 - (step P s).1| = |s.2 - s.1| / 2 := by
      rw [step_width, abs_div, abs_two]
    have hlo : min s.1 s.2 ≤ min (step P s).1 (step P s).2 := le_min hn.1.1 hn.2.1
    have hhi : max (step P s).1 (step P s).2 ≤ max s.1 s.2 := max_le hn.1.2 hn.2.2
    have hW : (0 : K) ≤ |s.2 - s.1| := abs_nonneg _
    have h2n : (0 : K) < 2 ^ n := by positivity
    have hq : |s.2 - s.1| / 2 / 2 ^ n = |s.2 - s.1| / 2 ^ (n + 1) := by
      rw [pow_succ]; field_simp
    have hsmall : |s.2 - s.1| / 2 ^ (n + 1) ≤ |s.2 - s.1| / 2 := by
      rw [← hq]
      apply div_le_self (by positivity)
      exact one_le_pow₀ (by norm_num)
    -- the midpoint of `s` is `|s.2 - s.1| / 2` from both ends
    have hmid : min s.1 s.2 + |s.2 - s.1| / 2 = mid s ∧ mid s = max s.1 s.2 - |s.2 - s.1| / 2 := by
      unfold mid
      rcases le_total s.1 s.2 with h | h
      · rw [min_eq_left h, max_eq_right h, abs_of_nonneg (by linarith)]; constructor <;> ring
      · rw [min_eq_right h, max_eq_left h, abs_of_nonpos (by linarith)]; constructor <;> ring
    have hstep : ((step P s).1 = s.1 ∨ (step P s).1 = mid s) ∧ ((step P s).2 = s.2 ∨ (step P s).2 = mid s) := by
      unfold step
      by_cases hm : P (mid s) = true
      · simp [hm]
      · have hm' : P (mid s) = false := by simpa using hm
        simp [hm']
    rw [hw, hq] at h1
    refine ⟨?_, ?_⟩
    · rcases h1.1 with h | h
      · rcases hstep.1 with g | g
        · exact Or.inl (h.trans g)
        · right; rw [h, g]; constructor <;> linarith [hmid.1, hmid.2]
      · right; exact ⟨by linarith [h.1], by linarith [h.2]⟩
    · rcases h1.2 with h | h
      · rcases hstep.2 with g | g
        · exact Or.inl (h.trans g)
        · right; rw [h, g]; constructor <;> linarith [hmid.1, hmid.2]
      · right; exact ⟨by linarith [h.1], by linarith [h.2]⟩

theorem abs_mid_sub_fst (s : K × K) : |mid s - s.1| = |s.2 - s.1| / 2 := by
  rw [mid_sub_fst, abs_div, abs_two]

theorem abs_mid_sub_snd (s : K × K) : |mid s - s.2| = |s.2 - s.1| / 2 := by
  have : mid s - s.2 = -((s.2 - s.1) / 2) := by unfold mid; ring
  rw [this, abs_neg, abs_div, abs_two]

end M3d.Bisect
