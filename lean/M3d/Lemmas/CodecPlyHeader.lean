import M3d.Lemmas.CodecPly
import M3d.Lemmas.CodecText
/-!
# PLY header round trip: `NewPLYReader` on `PLYHeader.Encode()`

`splitHeaderAux_line/_end/_lines` (the byte-by-byte search for the first `end_header\n` passes over every
line that does not end in the word `end_header`), `splitLines_lines`, `fields_join`, the
`decodeHeaderBody` lemmas, and `plyOpen_encode`.
-/
namespace M3d.Codec

/-- the first occurrence of a separator determines the split -/
theorem first_sep_unique {α : Type} [DecidableEq α] (x : α) :
    ∀ (a b r1 r2 : List α), a ++ x :: r1 = b ++ x :: r2 → x ∉ a → x ∉ b → a = b ∧ r1 = r2 := by
  intro a
  induction a with
  | nil =>
    intro b r1 r2 h _ hb
    cases b with
    | nil => simp at h; exact ⟨rfl, h⟩
    | cons c b =>
      simp only [List.nil_append, List.cons_append, List.cons.injEq] at h
      exact absurd (h.1 ▸ List.mem_cons_self) hb
  | cons c a ih =>
    intro b r1 r2 h ha hb
    cases b with
    | nil =>
      simp only [List.nil_append, List.cons_append, List.cons.injEq] at h
      exact absurd (h.1 ▸ List.mem_cons_self) ha
    | cons d b =>
      simp only [List.cons_append, List.cons.injEq] at h
      obtain ⟨h1, h2⟩ := ih b r1 r2 h.2 (fun hm => ha (List.mem_cons_of_mem _ hm))
        (fun hm => hb (List.mem_cons_of_mem _ hm))
      exact ⟨by rw [h.1, h1], h2⟩

def tokEndHeader : Bytes := ascii "end_header"

theorem endHeaderNL_eq : endHeaderNL = tokEndHeader ++ [NL] := by decide

theorem endHeader_noNL : NL ∉ tokEndHeader := by decide

/-- no suffix of the line content is the word `end_header` -/
def NoEH (c : Bytes) : Prop := ∀ p, c.drop p ≠ tokEndHeader

theorem NoEH_tail {b : UInt8} {c : Bytes} (h : NoEH (b :: c)) : NoEH c := by
  intro p; have := h (p + 1); simpa using this

theorem not_prefix_of_NoEH (c rest : Bytes) (hnl : NL ∉ c) (h : c ≠ tokEndHeader) :
    endHeaderNL.isPrefixOf (c ++ NL :: rest) = false := by
  cases hp : endHeaderNL.isPrefixOf (c ++ NL :: rest) with
  | false => rfl
  | true =>
    rw [List.isPrefixOf_iff_prefix] at hp
    obtain ⟨t, ht⟩ := hp
    rw [endHeaderNL_eq, List.append_assoc] at ht
    have := (first_sep_unique NL tokEndHeader c t rest (by simpa using ht) endHeader_noNL hnl).1
    exact absurd this.symm h

/-- `NewPLYHeaderRead` scans over a whole line that does not end in `end_header` -/
theorem splitHeaderAux_line (c rest acc : Bytes) (hnl : NL ∉ c) (h : NoEH c) :
    splitHeaderAux (c ++ NL :: rest) acc = splitHeaderAux rest (NL :: (c.reverse ++ acc)) := by
  induction c generalizing acc with
  | nil =>
    have h0 : ([] : Bytes) ≠ tokEndHeader := by decide
    have := not_prefix_of_NoEH [] rest (by simp) h0
    simp only [List.nil_append] at this ⊢
    rw [splitHeaderAux, this]
    simp
  | cons b c ih =>
    have hne : (b :: c) ≠ tokEndHeader := by have := h 0; simpa using this
    have := not_prefix_of_NoEH (b :: c) rest hnl hne
    simp only [List.cons_append] at this ⊢
    rw [splitHeaderAux, this]
    simp only [Bool.false_eq_true, if_false]
    rw [ih (b :: acc) (fun hm => hnl (List.mem_cons_of_mem _ hm)) (NoEH_tail h)]
    simp

theorem splitHeaderAux_end (body acc : Bytes) :
    splitHeaderAux (endHeaderNL ++ body) acc = some (acc.reverse ++ endHeaderNL, body) := by
  have e : endHeaderNL = 101 :: [110, 100, 95, 104, 101, 97, 100, 101, 114, 10] := by decide
  have hp : endHeaderNL.isPrefixOf (endHeaderNL ++ body) = true := by
    rw [List.isPrefixOf_iff_prefix]; exact List.prefix_append _ _
  have hd : (endHeaderNL ++ body).drop endHeaderNL.length = body := List.drop_left
  generalize hx : endHeaderNL ++ body = x at *
  have hx' := hx
  rw [e] at hx'
  simp only [List.cons_append] at hx'
  rw [← hx', splitHeaderAux]
  rw [hx', hp, hd]
  simp

theorem splitLines_ne_nil (bs : Bytes) : splitLines bs ≠ [] := by
  induction bs with
  | nil => simp [splitLines]
  | cons b bs ih =>
    rw [splitLines]
    cases h : splitLines bs with
    | nil => simp
    | cons l ls => by_cases hb : b = NL <;> simp [hb]

theorem splitLines_NL (rest : Bytes) : splitLines (NL :: rest) = [] :: splitLines rest := by
  rw [splitLines]
  cases h : splitLines rest with
  | nil => exact absurd h (splitLines_ne_nil rest)
  | cons l ls => simp

/-- `strings.Split(s, "\n")` peels off one line -/
theorem splitLines_line (c rest : Bytes) (hnl : NL ∉ c) :
    splitLines (c ++ NL :: rest) = c :: splitLines rest := by
  induction c with
  | nil => exact splitLines_NL rest
  | cons b c ih =>
    have hb : b ≠ NL := fun h => hnl (h ▸ List.mem_cons_self)
    rw [List.cons_append, splitLines, ih (fun hm => hnl (List.mem_cons_of_mem _ hm))]
    simp [hb]

theorem fieldsAux_join (toks : List Bytes) (h : ∀ t ∈ toks, IsToken t) (fuel : Nat)
    (hf : (joinWith [SP] toks).length ≤ fuel) : fieldsAux fuel (joinWith [SP] toks) [] = toks := by
  induction toks generalizing fuel with
  | nil => cases fuel <;> simp [joinWith, fieldsAux]
  | cons t ts ih =>
    have ht := h t List.mem_cons_self
    have hrev : t.reverse.isEmpty = false := by
      cases t with
      | nil => exact absurd rfl ht.1
      | cons a b => simp
    cases ts with
    | nil =>
      simp only [joinWith] at hf ⊢
      obtain ⟨f, rfl⟩ : ∃ f, fuel = t.length + f := ⟨fuel - t.length, by omega⟩
      have := fieldsAux_token t [] [] ht.2 f
      rw [List.append_nil] at this
      rw [this]
      cases f <;> simp [fieldsAux, hrev]
    | cons t' ts' =>
      have hl : (joinWith [SP] (t :: t' :: ts')).length = t.length + 1 + (joinWith [SP] (t' :: ts')).length := by
        simp [joinWith_cons2]; omega
      obtain ⟨f, rfl⟩ : ∃ f, fuel = t.length + (f + 1) := ⟨fuel - t.length - 1, by omega⟩
      have hj : joinWith [SP] (t :: t' :: ts') = t ++ (SP :: joinWith [SP] (t' :: ts')) := by
        simp [joinWith_cons2]
      rw [hj, fieldsAux_token t _ _ ht.2, fieldsAux_sep SP ⟨spaceWidth_SP [], spaceWidth_SP⟩]
      simp only [List.append_nil, hrev, Bool.false_eq_true, if_false, List.reverse_reverse]
      rw [ih (fun x hx => h x (List.mem_cons_of_mem _ hx)) f (by omega)]

/-- `strings.Fields` of a line (without its newline) assembled from tokens returns the tokens -/
theorem fields_join (toks : List Bytes) (h : ∀ t ∈ toks, IsToken t) : fields (joinWith [SP] toks) = toks :=
  fieldsAux_join toks h _ (Nat.le_refl _)

theorem NoEH_of_forall (c : Bytes) (h : ∀ b ∈ c, b ≠ 114) : NoEH c := by
  intro p hp
  have h1 : (114 : UInt8) ∈ tokEndHeader := by decide
  rw [← hp] at h1
  exact h 114 (List.mem_of_mem_drop h1) rfl

theorem endHeader_noSP : SP ∉ tokEndHeader := by decide

theorem drop_append_sep_ne (t R : Bytes) (p : Nat) (hp : p ≤ t.length) :
    (t ++ SP :: R).drop p ≠ tokEndHeader := by
  intro h
  have : SP ∈ (t ++ SP :: R).drop p := by
    rw [List.drop_append_of_le_length hp]
    simp
  rw [h] at this
  exact endHeader_noSP this

/-- a line whose last token does not end in `end_header` does not end in `end_header` -/
theorem NoEH_join (toks : List Bytes) (h : ∀ t, toks.getLast? = some t → NoEH t) :
    NoEH (joinWith [SP] toks) := by
  induction toks with
  | nil => intro p; simp [joinWith]; decide
  | cons t ts ih =>
    cases ts with
    | nil => simpa [joinWith] using h t (by simp)
    | cons t' ts' =>
      intro p
      rw [joinWith_cons2, List.append_assoc]
      rcases Nat.lt_or_ge t.length p with hp | hp
      · obtain ⟨q, rfl⟩ : ∃ q, p = t.length + (q + 1) := ⟨p - t.length - 1, by omega⟩
        rw [List.drop_append, List.drop_of_length_le (by omega), Nat.add_sub_cancel_left]
        simp only [List.nil_append, List.singleton_append, List.drop_succ_cons]
        exact ih (fun x hx => h x (by simpa using hx)) _
      · exact drop_append_sep_ne t _ p hp

/-! ### the lines of an encoded header -/

def PProp.toks (p : PProp) : List Bytes :=
  match p.lenType with
  | none => [ascii "property", p.elemType.name, p.name]
  | some lt => [ascii "property", ascii "list", lt.name, p.elemType.name, p.name]

def Element.lineToks (el : Element) : List (List Bytes) :=
  [ascii "element", el.name, fmtInt el.count] :: el.props.map PProp.toks

def Header.lineToks (h : Header) : List (List Bytes) :=
  [ascii "ply"] :: [ascii "format", h.format.name, ascii "1.0"] :: h.elements.flatMap Element.lineToks

theorem flatMap_congr' {α β : Type} (l : List α) (f g : α → List β) (h : ∀ x ∈ l, f x = g x) :
    l.flatMap f = l.flatMap g := by
  induction l with
  | nil => rfl
  | cons a l ih =>
    rw [List.flatMap_cons, List.flatMap_cons, h a List.mem_cons_self,
      ih (fun x hx => h x (List.mem_cons_of_mem _ hx))]

theorem flatMap_flatMap' {α β γ : Type} (l : List α) (f : α → List β) (g : β → List γ) :
    (l.flatMap f).flatMap g = l.flatMap (fun x => (f x).flatMap g) := by
  induction l with
  | nil => rfl
  | cons a l ih => rw [List.flatMap_cons, List.flatMap_append, ih, List.flatMap_cons]

theorem PProp.encode_eq (p : PProp) : p.encode = line p.toks := by
  unfold PProp.encode PProp.toks
  cases p.lenType <;> rfl

theorem Element.encode_eq (el : Element) : el.encode = el.lineToks.flatMap line := by
  unfold Element.encode Element.lineToks
  simp only [List.flatMap_cons, List.flatMap_map]
  congr 1
  exact flatMap_congr' _ _ _ (fun p _ => p.encode_eq)

theorem Header.encode_eq (h : Header) :
    h.encode = h.lineToks.flatMap line ++ line [tokEndHeader] := by
  unfold Header.encode Header.lineToks
  simp only [List.flatMap_cons, List.append_assoc, flatMap_flatMap']
  congr 3
  exact flatMap_congr' _ _ _ (fun el _ => el.encode_eq)

/-- a header line: tokens, and the line does not end in the word `end_header` -/
def LineOK (toks : List Bytes) : Prop := (∀ t ∈ toks, IsToken t) ∧ NoEH (joinWith [SP] toks)

theorem line_endHeader : line [tokEndHeader] = endHeaderNL := by decide

theorem splitHeaderAux_lines (L : List (List Bytes)) (hL : ∀ toks ∈ L, LineOK toks) (body acc : Bytes) :
    splitHeaderAux (L.flatMap line ++ (endHeaderNL ++ body)) acc =
      some (acc.reverse ++ L.flatMap line ++ endHeaderNL, body) := by
  induction L generalizing acc with
  | nil => simp [splitHeaderAux_end]
  | cons toks L ih =>
    obtain ⟨ht, hn⟩ := hL toks List.mem_cons_self
    have hnl : NL ∉ joinWith [SP] toks := fun hm => joinWith_no_NL toks ht NL hm rfl
    have e : (toks :: L).flatMap line ++ (endHeaderNL ++ body) =
        joinWith [SP] toks ++ NL :: (L.flatMap line ++ (endHeaderNL ++ body)) := by
      simp [line]
    rw [e, splitHeaderAux_line _ _ _ hnl hn, ih (fun t ht' => hL t (List.mem_cons_of_mem _ ht'))]
    simp [line]

theorem splitLines_lines (L : List (List Bytes)) (hL : ∀ toks ∈ L, LineOK toks) :
    splitLines (L.flatMap line ++ endHeaderNL) = L.map (joinWith [SP]) ++ [tokEndHeader, []] := by
  induction L with
  | nil => decide
  | cons toks L ih =>
    obtain ⟨ht, _⟩ := hL toks List.mem_cons_self
    have hnl : NL ∉ joinWith [SP] toks := fun hm => joinWith_no_NL toks ht NL hm rfl
    have e : (toks :: L).flatMap line ++ endHeaderNL =
        joinWith [SP] toks ++ NL :: (L.flatMap line ++ endHeaderNL) := by
      simp [line]
    rw [e, splitLines_line _ _ hnl, ih (fun t ht' => hL t (List.mem_cons_of_mem _ ht'))]
    simp

/-! ### names -/

theorem ptype_facts (t : PType) :
    IsToken t.name ∧ ptypeOfName t.name = some t ∧ t.name ≠ ascii "list" := by
  obtain ⟨k, a⟩ := t
  unfold IsToken
  cases k <;> cases a <;> decide

theorem format_facts (f : Format) : IsToken f.name ∧ formatOfName f.name = some f := by
  unfold IsToken
  cases f with
  | text => decide
  | bin e => cases e <;> decide

structure PropOK (p : PProp) : Prop where
  tok : IsToken p.name
  noeh : NoEH p.name

structure ElemOK (el : Element) : Prop where
  tok : IsToken el.name
  lo : -(2 ^ 63 : Nat) ≤ el.count
  hi : el.count < (2 ^ 63 : Nat)
  props : ∀ p ∈ el.props, PropOK p

/-- every element and property name is a token, no property name ends in `end_header`, counts fit int64 -/
def HeaderOK (h : Header) : Prop := ∀ el ∈ h.elements, ElemOK el

theorem isToken_fmtInt (i : Int) : IsToken (fmtInt i) :=
  ⟨(fmtInt_bytes i).1, fun b hb => ((fmtInt_bytes i).2 b hb).2⟩

theorem kw_tokens : IsToken (ascii "ply") ∧ IsToken (ascii "format") ∧ IsToken (ascii "1.0") ∧
    IsToken (ascii "element") ∧ IsToken (ascii "property") ∧ IsToken (ascii "list") := by
  unfold IsToken; decide

theorem PProp.toks_ok (p : PProp) (hp : PropOK p) : LineOK p.toks := by
  obtain ⟨_, _, _, _, k5, k6⟩ := kw_tokens
  unfold PProp.toks
  cases hlt : p.lenType with
  | none =>
    refine ⟨?_, NoEH_join _ (fun t ht => by simp at ht; rw [← ht]; exact hp.noeh)⟩
    simp only [List.mem_cons, List.not_mem_nil, or_false, forall_eq_or_imp, forall_eq]
    exact ⟨k5, (ptype_facts _).1, hp.tok⟩
  | some lt =>
    refine ⟨?_, NoEH_join _ (fun t ht => by simp at ht; rw [← ht]; exact hp.noeh)⟩
    simp only [List.mem_cons, List.not_mem_nil, or_false, forall_eq_or_imp, forall_eq]
    exact ⟨k5, k6, (ptype_facts _).1, (ptype_facts _).1, hp.tok⟩

theorem fmtInt_no_r (i : Int) : ∀ b ∈ fmtInt i, b ≠ 114 := by
  intro b hb h
  have := ((fmtInt_bytes i).2 b hb).1
  subst h
  revert this
  unfold isDigitByte
  decide

theorem Element.lineToks_ok (el : Element) (hel : ElemOK el) : ∀ toks ∈ el.lineToks, LineOK toks := by
  obtain ⟨_, _, _, k4, _, _⟩ := kw_tokens
  intro toks ht
  unfold Element.lineToks at ht
  rcases List.mem_cons.mp ht with rfl | ht
  · refine ⟨?_, NoEH_join _ (fun t ht => by simp at ht; rw [← ht]; exact NoEH_of_forall _ (fmtInt_no_r _))⟩
    simp only [List.mem_cons, List.not_mem_nil, or_false, forall_eq_or_imp, forall_eq]
    exact ⟨k4, hel.tok, isToken_fmtInt _⟩
  · obtain ⟨p, hp, rfl⟩ := List.mem_map.mp ht
    exact p.toks_ok (hel.props p hp)

theorem Header.lineToks_ok (h : Header) (hh : HeaderOK h) : ∀ toks ∈ h.lineToks, LineOK toks := by
  obtain ⟨k1, k2, k3, _, _, _⟩ := kw_tokens
  intro toks ht
  unfold Header.lineToks at ht
  rcases List.mem_cons.mp ht with rfl | ht
  · refine ⟨?_, NoEH_join _ (fun t ht => by simp at ht; rw [← ht]; exact NoEH_of_forall _ (by decide))⟩
    simp only [List.mem_cons, List.not_mem_nil, or_false, forall_eq]
    exact k1
  · rcases List.mem_cons.mp ht with rfl | ht
    · refine ⟨?_, NoEH_join _ (fun t ht => by simp at ht; rw [← ht]; exact NoEH_of_forall _ (by decide))⟩
      simp only [List.mem_cons, List.not_mem_nil, or_false, forall_eq_or_imp, forall_eq]
      exact ⟨k2, (format_facts _).1, k3⟩
    · obtain ⟨el, hel, ht⟩ := List.mem_flatMap.mp ht
      exact el.lineToks_ok (hh el hel) toks ht

/-! ### `NewPLYHeaderDecode` on the lines -/

def finCur (cur : Option Element) (acc : List Element) : List Element :=
  match cur with
  | some c => c :: acc
  | none => acc

theorem dhb_nil (cur : Option Element) (acc : List Element) :
    decodeHeaderBody [] cur acc = some (finCur cur acc).reverse := by
  unfold decodeHeaderBody finCur
  cases cur <;> rfl

theorem decodeProperty_toks (p : PProp) : decodeProperty p.toks = some p := by
  obtain ⟨lt, et, n⟩ := p
  unfold PProp.toks
  cases lt with
  | none =>
    simp only [decodeProperty, (ptype_facts et).2.2, if_false, (ptype_facts et).2.1, Option.map_some]
  | some l =>
    simp only [decodeProperty, if_true, (ptype_facts et).2.1, (ptype_facts l).2.1]

theorem PProp.toks_head (p : PProp) : ∃ tl, p.toks = ascii "property" :: tl := by
  unfold PProp.toks
  cases p.lenType <;> exact ⟨_, rfl⟩

theorem dhb_props (ps : List PProp) (hps : ∀ p ∈ ps, PropOK p) (rest : List Bytes) (e : Element)
    (acc : List Element) :
    decodeHeaderBody (ps.map (fun p => joinWith [SP] p.toks) ++ rest) (some e) acc =
      decodeHeaderBody rest (some { e with props := e.props ++ ps }) acc := by
  induction ps generalizing e with
  | nil => simp
  | cons p ps ih =>
    have hp := hps p List.mem_cons_self
    obtain ⟨tl, htl⟩ := p.toks_head
    rw [List.map_cons, List.cons_append, decodeHeaderBody, fields_join _ (p.toks_ok hp).1]
    have h1 : ascii "property" ≠ ascii "comment" := by decide
    have h2 : ascii "property" ≠ ascii "element" := by decide
    rw [htl]
    simp only [h1, h2, if_false, if_true]
    rw [← htl, decodeProperty_toks]
    simp only
    rw [ih (fun q hq => hps q (List.mem_cons_of_mem _ hq))]
    simp

theorem dhb_element (el : Element) (hel : ElemOK el) (rest : List Bytes) (cur : Option Element)
    (acc : List Element) :
    decodeHeaderBody (el.lineToks.map (joinWith [SP]) ++ rest) cur acc =
      decodeHeaderBody rest (some el) (finCur cur acc) := by
  obtain ⟨_, _, _, k4, _, _⟩ := kw_tokens
  unfold Element.lineToks
  rw [List.map_cons, List.cons_append]
  rw [decodeHeaderBody.eq_def]
  simp only
  rw [fields_join _ (by
      simp only [List.mem_cons, List.not_mem_nil, or_false, forall_eq_or_imp, forall_eq]
      exact ⟨k4, hel.tok, isToken_fmtInt _⟩)]
  have h1 : ascii "element" ≠ ascii "comment" := by decide
  simp only [h1, if_false, if_true]
  rw [parseIntN_fmtInt 64 el.count hel.lo hel.hi]
  simp only [List.map_map]
  have := dhb_props el.props hel.props rest ⟨el.name, el.count, []⟩ (finCur cur acc)
  simp only [List.nil_append] at this
  unfold finCur at this ⊢
  exact this

theorem dhb_elements (els : List Element) (hels : ∀ el ∈ els, ElemOK el) (cur : Option Element)
    (acc : List Element) :
    decodeHeaderBody ((els.flatMap Element.lineToks).map (joinWith [SP])) cur acc =
      some ((finCur cur acc).reverse ++ els) := by
  induction els generalizing cur acc with
  | nil => simp [dhb_nil]
  | cons el els ih =>
    rw [List.flatMap_cons, List.map_append, dhb_element el (hels el List.mem_cons_self),
      ih (fun e he => hels e (List.mem_cons_of_mem _ he))]
    simp [finCur]

/-- **PLY header round trip** (`ply_header_roundtrip`): `NewPLYReader` on `PLYHeader.Encode()` followed
by any body returns the header and leaves the body — for every format, every element list, every
property list (scalars and lists, all 16 type names), provided names are tokens, no property name
ends in `end_header`, and counts fit int64. -/
theorem plyOpen_encode (h : Header) (hh : HeaderOK h) (body : Bytes) :
    plyOpen (h.encode ++ body) = .ok (h, body) := by
  have hL := h.lineToks_ok hh
  have hsplit : splitHeader (h.encode ++ body) = some (h.encode, body) := by
    unfold splitHeader
    rw [h.encode_eq, line_endHeader, List.append_assoc, splitHeaderAux_lines _ hL]
    simp
  have hlines := splitLines_lines _ hL
  have hdec : decodeHeader h.encode = some h := by
    unfold decodeHeader
    rw [h.encode_eq, line_endHeader, hlines]
    have hlen : (h.lineToks.map (joinWith [SP]) ++ [tokEndHeader, []]).length =
        (h.elements.flatMap Element.lineToks).length + 4 := by
      simp [Header.lineToks]
    simp only [hlen]
    have c1 : ¬ ((h.elements.flatMap Element.lineToks).length + 4 < 4) := by omega
    rw [if_neg c1]
    have c2 : (h.lineToks.map (joinWith [SP]) ++ [tokEndHeader, []]).getLast? = some [] := by
      simp
    rw [if_neg (by rw [c2]; simp)]
    have c3 : (h.lineToks.map (joinWith [SP]) ++ [tokEndHeader, []])[(h.elements.flatMap Element.lineToks).length + 4 - 2]? =
        some (ascii "end_header") := by
      have : (h.elements.flatMap Element.lineToks).length + 4 - 2 = (h.lineToks.map (joinWith [SP])).length := by
        simp [Header.lineToks]
      rw [this, List.getElem?_append_right (Nat.le_refl _)]
      simp
      rfl
    rw [if_neg (by rw [c3]; simp)]
    have c4 : (h.lineToks.map (joinWith [SP]) ++ [tokEndHeader, []]).getD 1 [] =
        joinWith [SP] [ascii "format", h.format.name, ascii "1.0"] := by
      simp [Header.lineToks]
    obtain ⟨_, k2, k3, _, _, _⟩ := kw_tokens
    rw [c4, fields_join _ (by
      simp only [List.mem_cons, List.not_mem_nil, or_false, forall_eq_or_imp, forall_eq]
      exact ⟨k2, (format_facts _).1, k3⟩)]
    simp only [ne_eq, not_true_eq_false, Bool.or_self, Bool.false_eq_true, if_false,
      (format_facts h.format).2, decide_false]
    have c5 : ((h.lineToks.map (joinWith [SP]) ++ [tokEndHeader, []]).drop 2).take
        ((h.elements.flatMap Element.lineToks).length + 4 - 4) =
        (h.elements.flatMap Element.lineToks).map (joinWith [SP]) := by
      simp [Header.lineToks]
    rw [c5, dhb_elements _ hh]
    simp [finCur]
  unfold plyOpen
  rw [hsplit]
  simp only [hdec]
end M3d.Codec
