import M3d.Lemmas.AList
/-! Simulation between the fast map and an ordinary map. Core-only. -/
namespace M3d.FastMap
set_option linter.unusedSectionVars false
variable {K V : Type} [DecidableEq K]

/-- Representation invariant of a fast map (for a hash that is a function of the key). -/
def Inv (h : K → UInt64) : FM K V → Prop
  | .fast m => (keysOf m).Nodup ∧ ∀ c ∈ m, c.1 = h c.2.1
  | .slow m => (keysOf m).Nodup

theorem inv_empty (h : K → UInt64) : Inv h (empty : FM K V) := by
  simp [empty, Inv, keysOf]

/-- In a well-formed fast table, a key can only sit under its own hash. -/
theorem get_hash_of_mem {h : K → UInt64} {m : List (UInt64 × (K × V))}
    (hn : (keysOf m).Nodup) (hh : ∀ c ∈ m, c.1 = h c.2.1) {hv : UInt64} {k : K} {v : V}
    (hm : (hv, (k, v)) ∈ m) : get m (h k) = some (k, v) := by
  induction m with
  | nil => simp at hm
  | cons c t ih =>
    obtain ⟨hc, kc, vc⟩ := c
    have hn' : hc ∉ keysOf t ∧ (keysOf t).Nodup := by simpa [keysOf] using hn
    have hhc : hc = h kc := hh (hc, (kc, vc)) (by simp)
    rw [get_cons]
    rcases List.mem_cons.1 hm with e | e
    · cases e; simp [hhc]
    · have hk' : hv = h k := hh _ (List.mem_cons_of_mem _ e)
      have : hc ≠ h k := by
        intro e2
        apply hn'.1
        rw [e2, ← hk']
        simp only [keysOf, List.mem_map]
        exact ⟨_, e, rfl⟩
      simp [this]
      exact ih hn'.2 (fun c hc => hh c (List.mem_cons_of_mem _ hc)) e

theorem mem_of_get {A B : Type} [DecidableEq A] {m : List (A × B)} {a : A} {b : B}
    (h : get m a = some b) : (a, b) ∈ m := by
  induction m with
  | nil => simp at h
  | cons p t ih =>
    obtain ⟨k, v⟩ := p
    rw [get_cons] at h
    by_cases hk : k = a
    · simp [hk] at h; simp [hk, h]
    · simp [hk] at h; exact List.mem_cons_of_mem _ (ih h)

/-- `fastToSlow` preserves contents. -/
theorem get_toSlow {h : K → UInt64} {m : List (UInt64 × (K × V))}
    (hn : (keysOf m).Nodup) (hh : ∀ c ∈ m, c.1 = h c.2.1) (k : K) :
    get (toSlow m) k = load h (.fast m) k := by
  induction m with
  | nil => simp [toSlow, load]
  | cons c t ih =>
    obtain ⟨hc, kc, vc⟩ := c
    have hn' : hc ∉ keysOf t ∧ (keysOf t).Nodup := by simpa [keysOf] using hn
    have hhc : hc = h kc := hh (hc, (kc, vc)) (by simp)
    have hht : ∀ c ∈ t, c.1 = h c.2.1 := fun c hc => hh c (List.mem_cons_of_mem _ hc)
    have ih' := ih hn'.2 hht
    simp only [toSlow]
    rw [get_put, ih']
    simp only [load, get_cons]
    by_cases e : k = kc
    · subst e; simp [hhc]
    · simp only [e, if_false]
      by_cases e2 : hc = h k
      · -- hash collision with the head: the tail cannot hold `k` at all
        simp only [e2, if_true]
        have : get t (h k) = none := by
          apply get_eq_none_of_not_mem; rw [← e2]; exact hn'.1
        simp [this, Ne.symm e]
      · simp [e2]

theorem nodup_toSlow (m : List (UInt64 × (K × V))) : (keysOf (toSlow m)).Nodup := by
  induction m with
  | nil => simp [toSlow, keysOf]
  | cons c t ih => obtain ⟨hc, kc, vc⟩ := c; exact nodup_put _ _ ih

theorem length_toSlow {h : K → UInt64} {m : List (UInt64 × (K × V))}
    (hn : (keysOf m).Nodup) (hh : ∀ c ∈ m, c.1 = h c.2.1) :
    (toSlow m).length = m.length := by
  induction m with
  | nil => rfl
  | cons c t ih =>
    obtain ⟨hc, kc, vc⟩ := c
    have hn' : hc ∉ keysOf t ∧ (keysOf t).Nodup := by simpa [keysOf] using hn
    have hhc : hc = h kc := hh (hc, (kc, vc)) (by simp)
    have hht : ∀ c ∈ t, c.1 = h c.2.1 := fun c hc => hh c (List.mem_cons_of_mem _ hc)
    simp only [toSlow]
    rw [length_put _ _ (nodup_toSlow t), get_toSlow hn'.2 hht, ih hn'.2 hht]
    have : get t (h kc) = none := by
      apply get_eq_none_of_not_mem; rw [← hhc]; exact hn'.1
    simp [load, this]

/-- The simulation relation. -/
structure Sim (h : K → UInt64) (fm : FM K V) (ref : List (K × V)) : Prop where
  inv : Inv h fm
  nodup : (keysOf ref).Nodup
  load_eq : ∀ k, load h fm k = get ref k
  len_eq : len fm = ref.length

theorem sim_empty (h : K → UInt64) : Sim h (empty : FM K V) [] :=
  ⟨inv_empty h, by simp [keysOf], fun k => by simp [empty, load], rfl⟩

theorem load_fast_isSome_iff {h : K → UInt64} {m : List (UInt64 × (K × V))} {k : K} :
    (load h (.fast m) k).isSome ↔ ∃ v, get m (h k) = some (k, v) := by
  simp only [load]
  cases hg : get m (h k) with
  | none => simp
  | some c =>
    obtain ⟨k', v⟩ := c
    by_cases e : k' = k
    · subst e; simp
    · simp [e]


theorem mem_del {A B : Type} [DecidableEq A] {m : List (A × B)} {a : A} {c : A × B}
    (h : c ∈ del m a) : c ∈ m := by
  simp [del] at h; exact h.1

/-- Writing a cell under `h k` when that slot is free or already holds `k`. -/
theorem load_fast_put {h : K → UInt64} {m : List (UInt64 × (K × V))} {k : K} (v : V)
    (hslot : get m (h k) = none ∨ ∃ v0, get m (h k) = some (k, v0)) (k' : K) :
    load h (.fast (put m (h k) (k, v))) k' = if k' = k then some v else load h (.fast m) k' := by
  simp only [load, get_put]
  by_cases e : k' = k
  · subst e; simp
  · simp only [e, if_false]
    by_cases e2 : h k' = h k
    · simp only [e2, if_true]
      rcases hslot with hs | ⟨v0, hs⟩
      · simp [hs, Ne.symm e]
      · simp [hs, Ne.symm e]
    · simp [e2]

theorem inv_fast_put {h : K → UInt64} {m : List (UInt64 × (K × V))} (k : K) (v : V)
    (hn : (keysOf m).Nodup) (hh : ∀ c ∈ m, c.1 = h c.2.1) :
    Inv h (.fast (put m (h k) (k, v)) : FM K V) := by
  refine ⟨nodup_put _ _ hn, fun c hc => ?_⟩
  simp only [put] at hc
  rcases List.mem_cons.1 hc with e | e
  · subst e; rfl
  · exact hh c (mem_del e)

theorem sim_fast_put {h : K → UInt64} {m : List (UInt64 × (K × V))} {ref : List (K × V)}
    (s : Sim h (.fast m) ref) (k : K) (v : V)
    (hslot : get m (h k) = none ∨ ∃ v0, get m (h k) = some (k, v0)) :
    Sim h (.fast (put m (h k) (k, v)) : FM K V) (put ref k v) := by
  obtain ⟨⟨hn, hh⟩, nd, le, ln⟩ := s
  refine ⟨inv_fast_put k v hn hh, nodup_put _ _ nd, fun k' => ?_, ?_⟩
  · rw [load_fast_put v hslot, get_put, le k']
  · simp only [len] at ln ⊢
    rw [length_put _ _ hn, length_put _ _ nd, ln, ← le k]
    rcases hslot with hs | ⟨v0, hs⟩
    · simp [load, hs]
    · simp [load, hs]

theorem sim_store {h : K → UInt64} {fm : FM K V} {ref : List (K × V)} (s : Sim h fm ref)
    (k : K) (v : V) : Sim h (store h fm k v) (put ref k v) := by
  cases fm with
  | slow m =>
    obtain ⟨inv, nd, le, ln⟩ := s
    refine ⟨nodup_put _ _ inv, nodup_put _ _ nd, fun k' => ?_, ?_⟩
    · have := le k'
      simp only [store, load] at this ⊢
      rw [get_put, get_put, this]
    · simp only [store, len] at ln ⊢
      rw [length_put _ _ inv, length_put _ _ nd, ln]
      have := le k; simp only [load] at this; rw [this]
  | fast m =>
    simp only [store]
    cases hg : get m (h k) with
    | none => exact sim_fast_put s k v (Or.inl hg)
    | some c =>
      obtain ⟨k', v0⟩ := c
      by_cases e : k' = k
      · subst e; simp only [if_true]; exact sim_fast_put s k' v (Or.inr ⟨v0, hg⟩)
      · simp only [e, if_false]
        obtain ⟨⟨hn, hh⟩, nd, le, ln⟩ := s
        have hts := nodup_toSlow (K := K) (V := V) m
        refine ⟨nodup_put _ _ hts, nodup_put _ _ nd, fun k2 => ?_, ?_⟩
        · simp only [load]
          rw [get_put, get_put, get_toSlow hn hh, le k2]
        · simp only [len] at ln ⊢
          rw [length_put _ _ hts, length_put _ _ nd, get_toSlow hn hh, length_toSlow hn hh,
            ln, le k]

theorem sim_delete {h : K → UInt64} {fm : FM K V} {ref : List (K × V)} (s : Sim h fm ref)
    (k : K) : Sim h (delete h fm k) (del ref k) := by
  cases fm with
  | slow m =>
    obtain ⟨inv, nd, le, ln⟩ := s
    refine ⟨nodup_del _ inv, nodup_del _ nd, fun k' => ?_, ?_⟩
    · have := le k'
      simp only [delete, load] at this ⊢
      by_cases e : k' = k
      · subst e; rw [get_del_self, get_del_self]
      · rw [get_del_ne _ e, get_del_ne _ e, this]
    · simp only [delete, len] at ln ⊢
      rw [length_del _ inv, length_del _ nd, ln]
      have := le k; simp only [load] at this; rw [this]
  | fast m =>
    obtain ⟨⟨hn, hh⟩, nd, le, ln⟩ := s
    simp only [delete]
    -- the case where nothing is removed
    have absent : load h (.fast m) k = none → Sim h (.fast m : FM K V) (del ref k) := by
      intro hl
      have hr : get ref k = none := by rw [← le k]; exact hl
      refine ⟨⟨hn, hh⟩, nodup_del _ nd, fun k' => ?_, ?_⟩
      · by_cases e : k' = k
        · subst e; rw [get_del_self]; exact hl
        · rw [get_del_ne _ e]; exact le k'
      · rw [length_del _ nd, hr]; simpa using ln
    cases hg : get m (h k) with
    | none => exact absent (by simp [load, hg])
    | some c =>
      obtain ⟨k', v0⟩ := c
      by_cases e : k' = k
      · subst e
        simp only [if_true]
        refine ⟨⟨nodup_del _ hn, fun c hc => hh c (mem_del hc)⟩, nodup_del _ nd, fun k2 => ?_, ?_⟩
        · by_cases e2 : k2 = k'
          · subst e2; rw [get_del_self]; simp [load, get_del_self]
          · rw [get_del_ne _ e2, ← le k2]
            simp only [load]
            by_cases e3 : h k2 = h k'
            · rw [e3, get_del_self, hg]; simp [Ne.symm e2]
            · rw [get_del_ne _ e3]
        · simp only [len] at ln ⊢
          rw [length_del _ hn, length_del _ nd, ln, ← le k']
          simp [load, hg]
      · simp only [e, if_false]
        exact absent (by simp [load, hg, e])

/-- Every history observes the same thing on the fast map and on an ordinary map. -/
theorem run_eq_refRun {h : K → UInt64} {fm : FM K V} {ref : List (K × V)} (s : Sim h fm ref)
    (ops : List (Op K V)) : run h fm ops = refRun ref ops := by
  induction ops generalizing fm ref with
  | nil => rfl
  | cons op ops ih =>
    cases op with
    | store k v => simp only [run, refRun, step, refStep]; rw [ih (sim_store s k v)]
    | delete k => simp only [run, refRun, step, refStep]; rw [ih (sim_delete s k)]
    | load k => simp only [run, refRun, step, refStep]; rw [ih s, s.load_eq k]
    | len => simp only [run, refRun, step, refStep]; rw [ih s, s.len_eq]

end M3d.FastMap
